(* Wave 6: the language the lenient decoder of pkg/rlp accepts, written as a GRAMMAR over the wire bytes
   (an inductive relation that shares no code with the model's decode loop), and the proof that
   Decode accepts exactly that language, with exactly that element and position.

   The canonical RLP of the Yellow Paper is the sub-language of [elem] obtained by adding three side
   conditions: (a) a single byte below 0x80 is never wrapped as 81 xx, (b) the long form is used only for
   payloads above 55 bytes, (c) the length bytes have no leading zero.  The decoder checks none of the
   three; it does check: at most 8 length bytes (forced by the prefix byte), declared length at most
   2^31-1, declared length = number of payload bytes present, and - for a list - that the payload is
   ENTIRELY a sequence of elements. *)
From Coq Require Import List NArith ZArith Lia Bool Arith.
From Coq Require Import Init.Byte Strings.Byte.
From FFS Require Import Base.Res Base.Bytes Rlp.Model Rlp.Spec Rlp.Proofs Rlp.Exact.
Import ListNotations.

(* big-endian value of a byte string, leading zeros allowed; own definition (not the model's fold) *)
Fixpoint be_value (l : bytes) : N :=
  match l with [] => 0%N | b :: t => (b2n b * 256 ^ N.of_nat (length t) + be_value t)%N end.

(* [elem w x]: the byte string w is, in full, one wire form of the element x.
   [elems w l]: w is, in full, the concatenation of wire forms of the elements of l, in order. *)
Inductive elem : bytes -> item -> Prop :=
| E_byte pb : (b2n pb < 128)%N -> elem [pb] (Str [pb])
| E_str_short pb d : (length d <= 55)%nat -> b2n pb = (128 + N.of_nat (length d))%N ->
    elem (pb :: d) (Str d)
| E_str_long pb lb d : (1 <= length lb <= 8)%nat -> b2n pb = (183 + N.of_nat (length lb))%N ->
    be_value lb = N.of_nat (length d) -> (N.of_nat (length d) <= 2147483647)%N ->
    elem (pb :: lb ++ d) (Str d)
| E_lst_short pb payload l : (length payload <= 55)%nat -> b2n pb = (192 + N.of_nat (length payload))%N ->
    elems payload l -> elem (pb :: payload) (Lst l)
| E_lst_long pb lb payload l : (1 <= length lb <= 8)%nat -> b2n pb = (247 + N.of_nat (length lb))%N ->
    be_value lb = N.of_nat (length payload) -> (N.of_nat (length payload) <= 2147483647)%N ->
    elems payload l -> elem (pb :: lb ++ payload) (Lst l)
with elems : bytes -> list item -> Prop :=
| Es_nil : elems [] []
| Es_cons w x rest l : elem w x -> elems rest l -> elems (w ++ rest) (x :: l).

Scheme elem_mind := Minimality for elem Sort Prop
  with elems_mind := Minimality for elems Sort Prop.
Combined Scheme elem_elems_ind from elem_mind, elems_mind.

(* what Decode is claimed to do on an input: the first element's wire form is a prefix *)
Definition accepts (bs : bytes) (t : item) (p : nat) : Prop :=
  exists w rest, bs = w ++ rest /\ elem w t /\ p = length w.

Lemma be_value_of_be l : be_value l = of_be l.
Proof. induction l as [|b t IH]; [reflexivity|]. cbn [be_value]. rewrite of_be_cons, IH. reflexivity. Qed.

Lemma elem_len_pos w x : elem w x -> (1 <= length w)%nat.
Proof. destruct 1; cbn [length]; lia. Qed.

(* ================= grammar -> decoder (completeness) ================= *)

Lemma min_bytes_gen lb : (length lb <= 8)%nat -> (of_be lb <= maxInt32)%N ->
  minimal_bytes_to_int64 lb = Ok (of_be lb).
Proof.
  intros H8 Hm. unfold minimal_bytes_to_int64. unfold maxInt32 in *.
  assert (of_be lb < 2 ^ 64)%N as Hb.
  { pose proof (of_be_lt lb) as H.
    assert (256 ^ N.of_nat (length lb) <= 256 ^ 8)%N by (apply N.pow_le_mono_r; lia).
    change (256 ^ 8)%N with (2 ^ 64)%N in *. lia. }
  rewrite N.mod_small by exact Hb.
  replace (of_be lb <? 2 ^ 63)%N with true by (symmetry; apply N.ltb_lt; lia).
  replace (of_be lb <=? 2147483647)%N with true by (symmetry; apply N.leb_le; lia).
  reflexivity.
Qed.

Lemma extract_long_gen off pb (lb p tail : bytes) :
  (1 <= length lb <= 8)%nat -> of_be lb = N.of_nat (length p) -> (N.of_nat (length p) <= maxInt32)%N ->
  extract_long_len off (off + N.of_nat (length lb)) (pb :: lb ++ p ++ tail) = Ok (length p, p ++ tail).
Proof.
  intros Hl Eo Hm. unfold extract_long_len.
  replace (off + N.of_nat (length lb) - off)%N with (N.of_nat (length lb)) by lia.
  rewrite Nat2N.id. cbn [skipn].
  replace (length (lb ++ p ++ tail) <? length lb)%nat with false
    by (symmetry; apply Nat.ltb_ge; rewrite app_length; lia).
  rewrite slice_prefix. cbn [bind].
  rewrite min_bytes_gen by (try lia; rewrite Eo; exact Hm). cbn [bind].
  rewrite skipn_prefix. rewrite Eo.
  replace (N.of_nat (length (p ++ tail)) <? N.of_nat (length p))%N with false
    by (symmetry; apply N.ltb_ge; rewrite app_length; lia).
  rewrite Nat2N.id. reflexivity.
Qed.

Definition PE (w : bytes) (x : item) : Prop :=
  forall f tail limit acc pos, lim_open limit -> (length w + length tail <= f)%nat ->
  decode_items (S f) (w ++ tail) limit acc pos
  = decode_items f tail (lim_next limit) (x :: acc) (pos + length w).

Definition PEs (w : bytes) (l : list item) : Prop :=
  forall f rest acc pos, (length w + length rest <= f)%nat ->
  exists f', (length rest <= f')%nat /\
    decode_items (S f) (w ++ rest) None acc pos
    = decode_items (S f') rest None (rev l ++ acc) (pos + length w).

Lemma PEs_child payload l : PEs payload l ->
  forall f0, (length payload <= f0)%nat -> decode_items (S f0) payload None [] 0 = Ok (l, length payload).
Proof.
  intros H f0 Hf0. destruct (H f0 [] [] 0%nat) as [f' [_ E]]; [cbn [length]; lia|].
  rewrite app_nil_r in E. rewrite E, decode_nil, app_nil_r, rev_involutive. reflexivity.
Qed.

Ltac pick_branch :=
  unfold shortString, longString, shortList, longList;
  repeat match goal with
  | |- context [(?a <? ?b)%N] =>
      first [ replace (a <? b)%N with true by (symmetry; apply N.ltb_lt; lia)
            | replace (a <? b)%N with false by (symmetry; apply N.ltb_ge; lia) ]
  | |- context [(?a <=? ?b)%N] =>
      first [ replace (a <=? b)%N with true by (symmetry; apply N.leb_le; lia)
            | replace (a <=? b)%N with false by (symmetry; apply N.leb_gt; lia) ]
  | |- context [(?a =? ?b)%N] =>
      first [ replace (a =? b)%N with true by (symmetry; apply N.eqb_eq; lia)
            | replace (a =? b)%N with false by (symmetry; apply N.eqb_neq; lia) ]
  end.

Lemma grammar_complete_mut :
  (forall w x, elem w x -> PE w x) /\ (forall w l, elems w l -> PEs w l).
Proof.
  apply elem_elems_ind.
  - (* single byte *)
    intros pb Hpb f tail limit acc pos Hlim Hf. cbn [app length].
    rewrite decode_step_unfold by exact Hlim. cbv zeta. unfold shortString.
    replace (b2n pb <? 128)%N with true by (symmetry; apply N.ltb_lt; lia).
    rewrite Nat.add_1_r. reflexivity.
  - (* short string *)
    intros pb d Hd Hpb f tail limit acc pos Hlim Hf. cbn [app].
    rewrite decode_step_unfold by exact Hlim. cbv zeta. rewrite Hpb.
    destruct d as [|c d'].
    + cbn [length] in *. unfold shortString. change (128 + N.of_nat 0)%N with 128%N.
      change (128 <? 128)%N with false. change (128 =? 128)%N with true. cbv iota.
      cbn [app]. rewrite Nat.add_1_r. reflexivity.
    + set (b := c :: d') in *.
      assert (Hlb : (1 <= length b)%nat) by (subst b; cbn [length]; lia).
      unfold shortString, longString.
      replace (128 + N.of_nat (length b) <? 128)%N with false by (symmetry; apply N.ltb_ge; lia).
      replace (128 + N.of_nat (length b) =? 128)%N with false by (symmetry; apply N.eqb_neq; lia).
      replace (128 + N.of_nat (length b) <=? 183)%N with true by (symmetry; apply N.leb_le; lia).
      replace (N.to_nat (128 + N.of_nat (length b) - 128)) with (length b) by lia.
      replace (length (b ++ tail) <? length b)%nat with false
        by (symmetry; apply Nat.ltb_ge; rewrite app_length; lia).
      rewrite slice_prefix. cbn [bind]. rewrite skipn_prefix. f_equal. cbn [length]. lia.
  - (* long string *)
    intros pb lb d Hl Hpb Eo Hm f tail limit acc pos Hlim Hf. rewrite be_value_of_be in Eo.
    cbn [app]. rewrite decode_step_unfold by exact Hlim. cbv zeta. rewrite Hpb.
    unfold shortString, longString, shortList.
    replace (183 + N.of_nat (length lb) <? 128)%N with false by (symmetry; apply N.ltb_ge; lia).
    replace (183 + N.of_nat (length lb) =? 128)%N with false by (symmetry; apply N.eqb_neq; lia).
    replace (183 + N.of_nat (length lb) <=? 183)%N with false by (symmetry; apply N.leb_gt; lia).
    replace (183 + N.of_nat (length lb) <? 192)%N with true by (symmetry; apply N.ltb_lt; lia).
    rewrite <- app_assoc.
    rewrite (extract_long_gen 183 pb lb d tail Hl Eo Hm). cbn [bind].
    rewrite slice_prefix. cbn [bind]. rewrite skipn_prefix. f_equal.
    cbn [length]. rewrite !app_length. lia.
  - (* short list *)
    intros pb payload l Hd Hpb _ IHl f tail limit acc pos Hlim Hf.
    cbn [app]. rewrite decode_step_unfold by exact Hlim. cbv zeta. rewrite Hpb.
    unfold shortString, longString, shortList, longList.
    replace (192 + N.of_nat (length payload) <? 128)%N with false by (symmetry; apply N.ltb_ge; lia).
    replace (192 + N.of_nat (length payload) =? 128)%N with false by (symmetry; apply N.eqb_neq; lia).
    replace (192 + N.of_nat (length payload) <=? 183)%N with false by (symmetry; apply N.leb_gt; lia).
    replace (192 + N.of_nat (length payload) <? 192)%N with false by (symmetry; apply N.ltb_ge; lia).
    replace (192 + N.of_nat (length payload) <=? 247)%N with true by (symmetry; apply N.leb_le; lia).
    replace (N.to_nat (192 + N.of_nat (length payload) - 192)) with (length payload) by lia.
    replace (length (payload ++ tail) <? length payload)%nat with false
      by (symmetry; apply Nat.ltb_ge; rewrite app_length; lia).
    rewrite slice_prefix. cbn [bind].
    cbn [length] in Hf. destruct f as [|f0]; [lia|].
    rewrite (PEs_child payload l IHl) by lia. cbn [bind]. rewrite skipn_prefix. f_equal. cbn [length]. lia.
  - (* long list *)
    intros pb lb payload l Hl Hpb Eo Hm _ IHl f tail limit acc pos Hlim Hf. rewrite be_value_of_be in Eo.
    cbn [app]. rewrite decode_step_unfold by exact Hlim. cbv zeta. rewrite Hpb.
    unfold shortString, longString, shortList, longList.
    replace (247 + N.of_nat (length lb) <? 128)%N with false by (symmetry; apply N.ltb_ge; lia).
    replace (247 + N.of_nat (length lb) =? 128)%N with false by (symmetry; apply N.eqb_neq; lia).
    replace (247 + N.of_nat (length lb) <=? 183)%N with false by (symmetry; apply N.leb_gt; lia).
    replace (247 + N.of_nat (length lb) <? 192)%N with false by (symmetry; apply N.ltb_ge; lia).
    replace (247 + N.of_nat (length lb) <=? 247)%N with false by (symmetry; apply N.leb_gt; lia).
    rewrite <- app_assoc.
    rewrite (extract_long_gen 247 pb lb payload tail Hl Eo Hm). cbn [bind].
    rewrite slice_prefix. cbn [bind].
    cbn [length] in Hf. rewrite !app_length in Hf. destruct f as [|f0]; [lia|].
    rewrite (PEs_child payload l IHl) by lia. cbn [bind]. rewrite skipn_prefix. f_equal.
    cbn [length]. rewrite !app_length. lia.
  - (* no elements *)
    intros f rest acc pos Hf. exists f. cbn [length app rev] in *. split; [lia|].
    rewrite Nat.add_0_r. reflexivity.
  - (* one more element *)
    intros w x rest0 l Hw IHw _ IHl f rest acc pos Hf.
    pose proof (elem_len_pos w x Hw) as Hpos. rewrite app_length in Hf.
    rewrite <- app_assoc.
    rewrite (IHw f (rest0 ++ rest) None acc pos) by (try discriminate; rewrite app_length; lia).
    destruct f as [|f0]; [lia|].
    destruct (IHl f0 rest (x :: acc) (pos + length w)%nat) as [f' [Hf' E]]; [lia|].
    exists f'. split; [exact Hf'|]. cbn [lim_next]. rewrite E. cbn [rev]. rewrite <- app_assoc. cbn [app].
    rewrite app_length, Nat.add_assoc. reflexivity.
Qed.

Theorem grammar_complete bs t p : accepts bs t p -> Decode bs = Ok (Some t, p).
Proof.
  intros [w [rest [-> [Hw ->]]]]. unfold Decode.
  destruct grammar_complete_mut as [HE _].
  rewrite (HE w t Hw (length (w ++ rest)) rest (Some 1%nat) [] 0%nat);
    [| discriminate | rewrite app_length; lia].
  cbn [lim_next]. pose proof (elem_len_pos w t Hw).
  destruct (length (w ++ rest)) as [|f] eqn:E; [rewrite app_length in E; lia|].
  destruct rest; reflexivity.
Qed.

(* ================= decoder -> grammar (soundness) ================= *)

Definition gr (rest : bytes) (limit : option nat) (acc : list item) (pos : nat)
              (r : res (list item * nat)) : Prop :=
  match r with
  | Ok (l, p) => exists items w tail, l = rev acc ++ items /\ elems w items /\ rest = w ++ tail /\
       p = (pos + length w)%nat /\ (limit = None -> tail = []) /\
       (forall k, limit = Some k -> (length items <= k)%nat)
  | _ => True
  end.

Lemma gr_cont rest limit acc pos x c r :
  gr (skipn c rest) (lim_next limit) (x :: acc) (pos + c) r ->
  elem (firstn c rest) x -> (c <= length rest)%nat ->
  lim_open limit ->
  gr rest limit acc pos r.
Proof.
  intros G Hx Hc Hlim. destruct r as [[l p]|e|]; unfold gr in *; auto.
  destruct G as [items [w [tail [E [Hw [Hr [Hp [Ht Hk]]]]]]]].
  exists (x :: items), (firstn c rest ++ w), tail.
  cbn [rev] in E. rewrite <- app_assoc in E. cbn [app] in E. split; [exact E|].
  split; [constructor; assumption|].
  split; [rewrite <- app_assoc, <- Hr; symmetry; apply firstn_skipn|].
  split; [rewrite app_length, firstn_length; lia|].
  split.
  - intros HN. apply Ht. rewrite HN. reflexivity.
  - intros k Ek. subst limit. destruct k as [|k']; [exfalso; apply Hlim; reflexivity|].
    cbn [lim_next length] in *. specialize (Hk k' eq_refl). lia.
Qed.

Lemma gr_lst f rest limit acc pos c (payload : bytes) :
  (forall rest limit acc pos, gr rest limit acc pos (decode_items f rest limit acc pos)) ->
  (c <= length rest)%nat ->
  (forall child, elems payload child -> elem (firstn c rest) (Lst child)) ->
  lim_open limit ->
  gr rest limit acc pos
    (do (child, _) <- decode_items f payload None [] 0;
     decode_items f (skipn c rest) (lim_next limit) (Lst child :: acc) (pos + c)).
Proof.
  intros IH Hr Hp Hlim.
  pose proof (IH payload None [] 0%nat) as Gc.
  destruct (decode_items f payload None [] 0) as [[child pc]|e|]; cbn [bind]; [|exact I|exact I].
  unfold gr in Gc. destruct Gc as [items [w [tail [Ei [Hw [Hpl [_ [Ht _]]]]]]]]. cbn [rev app] in Ei. subst items.
  rewrite (Ht eq_refl), app_nil_r in Hpl. subst w.
  eapply gr_cont with (c := c) (x := Lst child).
  - apply IH.
  - apply Hp. exact Hw.
  - exact Hr.
  - exact Hlim.
Qed.

Lemma gr_all : forall fuel rest limit acc pos,
  gr rest limit acc pos (decode_items fuel rest limit acc pos).
Proof.
  induction fuel as [|f IH]; intros rest limit acc pos.
  - exact I.
  - destruct rest as [|pb rest1].
    { cbn [decode_items]. unfold gr. exists [], [], []. rewrite app_nil_r. cbn [length app].
      split; [reflexivity|]. split; [apply Es_nil|]. split; [reflexivity|]. split; [lia|].
      split; [reflexivity | intros; lia]. }
    assert (limit = Some 0%nat \/ lim_open limit) as [->|Hlim].
    { destruct limit as [[|k]|]; [left; reflexivity| right; discriminate | right; discriminate]. }
    { cbn [decode_items]. unfold gr. exists [], [], (pb :: rest1). rewrite app_nil_r. cbn [length app].
      split; [reflexivity|]. split; [apply Es_nil|]. split; [reflexivity|]. split; [lia|].
      split; [discriminate | intros; lia]. }
    rewrite decode_step_unfold by exact Hlim. cbv zeta.
    pose proof (b2n_lt pb) as Hpb.
    unfold shortString, longString, shortList, longList.
    destruct (N.ltb_spec (b2n pb) 128) as [C1|C1].
    { (* single byte *)
      replace (S pos) with (pos + 1)%nat by lia.
      eapply gr_cont with (c := 1%nat) (x := Str [pb]).
      - apply IH.
      - cbn [firstn]. apply E_byte. exact C1.
      - cbn [length]; lia.
      - exact Hlim. }
    destruct (N.eqb_spec (b2n pb) 128) as [C2|C2].
    { replace (S pos) with (pos + 1)%nat by lia.
      eapply gr_cont with (c := 1%nat) (x := Str []).
      - apply IH.
      - cbn [firstn]. apply E_str_short; cbn [length]; [lia | rewrite C2; reflexivity].
      - cbn [length]; lia.
      - exact Hlim. }
    destruct (N.leb_spec (b2n pb) 183) as [C3|C3].
    { (* short string *)
      set (n := N.to_nat (b2n pb - 128)).
      destruct (Nat.ltb_spec (length rest1) n) as [Hn|Hn]; [exact I|].
      rewrite slice_ok by lia. cbn [bind]. rewrite Nat.sub_0_r. cbn [skipn].
      set (d := firstn n rest1).
      assert (Hd : length d = n) by (subst d; rewrite firstn_length; lia).
      replace (S pos + n)%nat with (pos + (1 + n))%nat by lia.
      eapply gr_cont with (c := (1 + n)%nat) (x := Str d).
      - apply IH.
      - change (firstn (1 + n) (pb :: rest1)) with (pb :: d). apply E_str_short; lia.
      - cbn [length]; lia.
      - exact Hlim. }
    destruct (N.ltb_spec (b2n pb) 192) as [C4|C4].
    { (* long string *)
      pose proof (extract_long_inv 183 (b2n pb) (pb :: rest1) ltac:(lia) ltac:(lia)) as HX.
      pose proof (extract_long_lb 183 (b2n pb) (pb :: rest1)) as HL.
      destruct (extract_long_len 183 (b2n pb) (pb :: rest1)) as [[n rest2]|e|]; cbn [bind];
        [ | exact I | exact I ].
      cbv zeta in HX. set (lol := N.to_nat (b2n pb - 183)) in *.
      specialize (HL n rest2 ltac:(lia) eq_refl). cbn [skipn] in HL.
      destruct HX as [Hl [-> [Hdl [Hmax _]]]].
      change (skipn (1 + lol) (pb :: rest1)) with (skipn lol rest1) in *.
      rewrite slice_ok by lia. cbn [bind]. rewrite Nat.sub_0_r. cbn [skipn] in *.
      set (d := firstn n (skipn lol rest1)).
      assert (Hd : length d = n) by (subst d; rewrite firstn_length; lia).
      rewrite skipn_skipn'. rewrite skipn_length in *. cbn [length] in *.
      replace (pos + (S (length rest1) - (length rest1 - lol)) + n)%nat
        with (pos + (1 + lol + n))%nat by lia.
      change (skipn (lol + n) rest1) with (skipn (1 + lol + n) (pb :: rest1)).
      eapply gr_cont with (c := (1 + lol + n)%nat) (x := Str d).
      - apply IH.
      - change (firstn (1 + lol + n) (pb :: rest1)) with (pb :: firstn (lol + n) rest1).
        rewrite firstn_add_skipn. fold d.
        apply E_str_long; rewrite ?be_value_of_be, ?firstn_length, ?Hd; unfold maxInt32 in *; try lia; try exact HL.
      - cbn [length]; lia.
      - exact Hlim. }
    destruct (N.leb_spec (b2n pb) 247) as [C5|C5].
    { (* short list *)
      set (n := N.to_nat (b2n pb - 192)).
      destruct (Nat.ltb_spec (length rest1) n) as [Hn|Hn]; [exact I|].
      rewrite slice_ok by lia. cbn [bind]. rewrite Nat.sub_0_r. cbn [skipn].
      set (d := firstn n rest1).
      assert (Hd : length d = n) by (subst d; rewrite firstn_length; lia).
      replace (S pos + n)%nat with (pos + (1 + n))%nat by lia.
      change (skipn n rest1) with (skipn (1 + n) (pb :: rest1)).
      apply gr_lst.
      - exact IH.
      - cbn [length]; lia.
      - intros child Hc. change (firstn (1 + n) (pb :: rest1)) with (pb :: d).
        apply E_lst_short; [lia | lia | exact Hc].
      - exact Hlim. }
    { (* long list *)
      pose proof (extract_long_inv 247 (b2n pb) (pb :: rest1) ltac:(lia) ltac:(lia)) as HX.
      pose proof (extract_long_lb 247 (b2n pb) (pb :: rest1)) as HL.
      destruct (extract_long_len 247 (b2n pb) (pb :: rest1)) as [[n rest2]|e|]; cbn [bind];
        [ | exact I | exact I ].
      cbv zeta in HX. set (lol := N.to_nat (b2n pb - 247)) in *.
      specialize (HL n rest2 ltac:(lia) eq_refl). cbn [skipn] in HL.
      destruct HX as [Hl [-> [Hdl [Hmax _]]]].
      change (skipn (1 + lol) (pb :: rest1)) with (skipn lol rest1) in *.
      rewrite slice_ok by lia. cbn [bind]. rewrite Nat.sub_0_r. cbn [skipn] in *.
      set (d := firstn n (skipn lol rest1)).
      assert (Hd : length d = n) by (subst d; rewrite firstn_length; lia).
      rewrite skipn_skipn'. rewrite skipn_length in *. cbn [length] in *.
      replace (pos + (S (length rest1) - (length rest1 - lol)) + n)%nat
        with (pos + (1 + lol + n))%nat by lia.
      change (skipn (lol + n) rest1) with (skipn (1 + lol + n) (pb :: rest1)).
      apply gr_lst.
      - exact IH.
      - cbn [length]; lia.
      - intros child Hc.
        change (firstn (1 + lol + n) (pb :: rest1)) with (pb :: firstn (lol + n) rest1).
        rewrite firstn_add_skipn. fold d.
        apply E_lst_long; rewrite ?be_value_of_be, ?firstn_length, ?Hd; unfold maxInt32 in *; try lia;
          try exact HL; try exact Hc.
      - exact Hlim. }
Qed.

Lemma elems_single_inv w x : elems w [x] -> elem w x.
Proof.
  intros H. inversion H as [|w0 x0 rest0 l0 Hw Hr]; subst. inversion Hr; subst. rewrite app_nil_r. exact Hw.
Qed.

Theorem grammar_sound bs t p : Decode bs = Ok (Some t, p) -> accepts bs t p.
Proof.
  unfold Decode. intros H.
  pose proof (gr_all (S (length bs)) bs (Some 1%nat) [] 0%nat) as G.
  destruct (decode_items (S (length bs)) bs (Some 1%nat) [] 0) as [[l q]|e|]; cbn [bind] in H; try discriminate.
  unfold gr in G. destruct G as [items [w [tail [E [Hw [Hr [Hp [_ Hk]]]]]]]]. cbn [rev app] in E. subst items.
  destruct l as [|x l']; [discriminate|]. injection H as -> ->.
  specialize (Hk 1%nat eq_refl). cbn [length] in Hk.
  destruct l' as [|y l'']; [|cbn [length] in Hk; lia].
  exists w, tail. split; [exact Hr|]. split; [apply elems_single_inv; exact Hw | lia].
Qed.

Theorem Decode_accepts_iff bs t p : Decode bs = Ok (Some t, p) <-> accepts bs t p.
Proof. split; [apply grammar_sound | apply grammar_complete]. Qed.

(* ================= consequences ================= *)
From FFS Require Import Rlp.Strict.

(* the result CLASS of Decode (what the correspondence run compares with pkg/rlp) in terms of the grammar alone *)
Theorem Decode_class_by_grammar bs :
  (bs = [] -> Decode bs = Ok (None, 0%nat)) /\
  ((exists e, Decode bs = Err e) <-> (bs <> [] /\ forall t p, ~ accepts bs t p)) /\
  (forall t p, Decode bs = Ok (Some t, p) <-> accepts bs t p).
Proof.
  split; [intros ->; reflexivity|]. split; [|intros t p; apply Decode_accepts_iff].
  split.
  - intros [e He]. split.
    + intros ->. rewrite Decode_empty in He. discriminate.
    + intros t p Ha. apply grammar_complete in Ha. rewrite Ha in He. discriminate.
  - intros [Hne Hno]. destruct (Decode_outcomes bs) as [[e [He _]]|[[_ Hb]|[t [p [Hd _]]]]].
    + exists e. exact He.
    + contradiction.
    + exfalso. apply (Hno t p). apply grammar_sound. exact Hd.
Qed.

Lemma firstn_prefix {A} (p t : list A) : firstn (length p) (p ++ t) = p.
Proof. induction p as [|a p IH]; [reflexivity|]. cbn [length app firstn]. rewrite IH. reflexivity. Qed.

(* the lenient grammar is unambiguous and prefix-free - no guard: a byte string has at most one prefix that
   is an element's wire form, and that prefix denotes one element *)
Theorem elem_prefix_free w t r w' t' r' :
  elem w t -> elem w' t' -> w ++ r = w' ++ r' -> w = w' /\ t = t' /\ r = r'.
Proof.
  intros H H' E.
  assert (A : Decode (w ++ r) = Ok (Some t, length w)) by (apply grammar_complete; exists w, r; auto).
  assert (A' : Decode (w' ++ r') = Ok (Some t', length w')) by (apply grammar_complete; exists w', r'; auto).
  rewrite E in A. rewrite A in A'. injection A' as Et El.
  assert (Hw : w = w').
  { rewrite <- (firstn_prefix w r), <- (firstn_prefix w' r'). rewrite E, El. reflexivity. }
  split; [exact Hw|]. split; [exact Et|]. subst w'. apply app_inv_head in E. exact E.
Qed.

(* the canonical encoding is one of the wire forms (within the region the decoder accepts), and every wire
   form is at least as long as the canonical one, with equality only for the canonical one itself *)
Theorem canonical_in_grammar t : size_ok t = true -> elem (encode t) t.
Proof.
  intros Hs. pose proof (decode_encode t [] Hs) as H. rewrite app_nil_r in H.
  apply grammar_sound in H. destruct H as [w [rest [E [Hw Hl]]]].
  assert (rest = []) as ->.
  { apply (f_equal (@length byte)) in E. rewrite app_length in E. destruct rest; [reflexivity|cbn [length] in E; lia]. }
  rewrite app_nil_r in E. rewrite E. exact Hw.
Qed.

Theorem elem_region_and_length w t : elem w t ->
  size_ok t = true /\ (length (encode t) <= length w)%nat /\ (length (encode t) = length w -> w = encode t).
Proof.
  intros H.
  assert (A : Decode w = Ok (Some t, length w)).
  { apply grammar_complete. exists w, []. rewrite app_nil_r. auto. }
  destruct (Decode_total_in_bounds w) as [_ [_ HB]]. destruct (HB t _ A) as [_ [Hs Hle]].
  split; [exact Hs|]. split; [exact Hle|].
  intros El. destruct (Decode_exact_is_canonical w t _ A (eq_sym El)) as [rest Hr].
  assert (rest = []) as ->.
  { apply (f_equal (@length byte)) in Hr. rewrite app_length in Hr. destruct rest; [reflexivity|cbn [length] in Hr; lia]. }
  rewrite app_nil_r in Hr. exact Hr.
Qed.

Theorem grammar_theorems :
  (forall bs t p, Decode bs = Ok (Some t, p) <-> accepts bs t p) /\
  (forall bs, (exists e, Decode bs = Err e) <-> (bs <> [] /\ forall t p, ~ accepts bs t p)) /\
  (forall w t r w' t' r', elem w t -> elem w' t' -> w ++ r = w' ++ r' -> w = w' /\ t = t' /\ r = r').
Proof.
  split; [exact Decode_accepts_iff|]. split; [intros bs; apply Decode_class_by_grammar|exact elem_prefix_free].
Qed.

Theorem grammar_vs_canonical :
  (forall t, size_ok t = true -> elem (encode t) t) /\
  (forall tr, tree_size_ok tr = true -> elem (RLP tr) (of_tree tr)) /\
  (forall w t, elem w t ->
     size_ok t = true /\ (length (encode t) <= length w)%nat /\ (length (encode t) = length w -> w = encode t)).
Proof.
  split; [exact canonical_in_grammar|]. split; [|exact elem_region_and_length].
  intros tr Hs. destruct (Decode_canonical_spec tr [] Hs) as [H _]. rewrite app_nil_r in H.
  apply grammar_sound in H. destruct H as [w [rest [E [Hw Hl]]]].
  assert (rest = []) as ->.
  { apply (f_equal (@length byte)) in E. rewrite app_length in E. destruct rest; [reflexivity|cbn [length] in E; lia]. }
  rewrite app_nil_r in E. rewrite E. exact Hw.
Qed.
