(* Answers to the referee report on C06 (design/reviews/C06.md):
   - the round trip and the uniqueness of canonical encodings stated on the Yellow-Paper function RLP
     itself, with a guard written on the specification side only (I2);
   - a strict decoder as a relation over the specification and the agreement of the model's lenient
     Decode with it on every canonical input (I2);
   - when the nil element is returned (I3). *)
From Coq Require Import List NArith ZArith Lia Bool Arith.
From Coq Require Import Init.Byte Strings.Byte.
From FFS Require Import Base.Res Base.Bytes Rlp.Model Rlp.Spec Rlp.Proofs.
Import ListNotations.

(* ---------- spec trees <-> model items ---------- *)
Fixpoint of_tree (t : tree) : item :=
  match t with B b => Str b | L l => Lst (map of_tree l) end.

Lemma tree_ind' (Q : tree -> Prop) :
  (forall b, Q (B b)) -> (forall l, Forall Q l -> Q (L l)) -> forall t, Q t.
Proof.
  intros HS HL. fix IH 1. intros [b|l]; [apply HS|apply HL].
  induction l as [|x l IHl]; constructor; auto.
Qed.

Lemma to_of_tree tr : to_tree (of_tree tr) = tr.
Proof.
  induction tr as [b|l IH] using tree_ind'; [reflexivity|].
  cbn [of_tree to_tree]. f_equal. rewrite map_map.
  induction IH as [|x l Hx _ IHl]; [reflexivity|]. cbn [map]. rewrite Hx, IHl. reflexivity.
Qed.

Lemma of_to_tree t : of_tree (to_tree t) = t.
Proof.
  induction t as [b|l IH] using item_ind'; [reflexivity|].
  cbn [of_tree to_tree]. f_equal. rewrite map_map.
  induction IH as [|x l Hx _ IHl]; [reflexivity|]. cbn [map]. rewrite Hx, IHl. reflexivity.
Qed.

Lemma to_tree_inj t t' : to_tree t = to_tree t' -> t = t'.
Proof. intros E. rewrite <- (of_to_tree t), <- (of_to_tree t'), E. reflexivity. Qed.

(* The guard written on the specification side only: every byte array and every concatenation of item
   encodings (the Yellow Paper's s(x)) is at most 2^31-1 bytes long. *)
Fixpoint tree_size_ok (t : tree) : bool :=
  match t with
  | B b => (len b <=? 2147483647)%N
  | L l => forallb tree_size_ok l && (len (flat_map RLP l) <=? 2147483647)%N
  end.

Lemma flat_map_encode_RLP l : forallb size_ok l = true ->
  flat_map encode l = flat_map RLP (map to_tree l).
Proof.
  induction l as [|x l IH]; [reflexivity|]. cbn [forallb flat_map map]. intros H.
  apply andb_true_iff in H as [Hx Hl]. rewrite IH by exact Hl.
  rewrite (encode_is_RLP x) by (apply size_ok_len_ok; exact Hx). reflexivity.
Qed.

Lemma tree_size_ok_to_tree t : tree_size_ok (to_tree t) = size_ok t.
Proof.
  induction t as [b|l IH] using item_ind'.
  { cbn [to_tree tree_size_ok size_ok]. unfold len, maxInt32. reflexivity. }
  cbn [to_tree tree_size_ok size_ok].
  assert (E : forallb tree_size_ok (map to_tree l) = forallb size_ok l).
  { induction IH as [|x l Hx _ IHl]; [reflexivity|]. cbn [map forallb]. rewrite Hx, IHl. reflexivity. }
  rewrite E. destruct (forallb size_ok l) eqn:Hl; [|reflexivity].
  rewrite (flat_map_encode_RLP l Hl). unfold len, maxInt32. reflexivity.
Qed.

Lemma tree_size_ok_of_tree tr : size_ok (of_tree tr) = tree_size_ok tr.
Proof. rewrite <- tree_size_ok_to_tree, to_of_tree. reflexivity. Qed.

(* ---------- I2: acceptance and uniqueness in terms of the specification ---------- *)

Theorem Decode_RLP t rest : size_ok t = true ->
  Decode (RLP (to_tree t) ++ rest) = Ok (Some t, length (RLP (to_tree t))).
Proof.
  intros Hs. rewrite <- (encode_is_RLP t) by (apply size_ok_len_ok; exact Hs).
  apply decode_encode; exact Hs.
Qed.

Theorem Decode_RLP_tree tr rest : tree_size_ok tr = true ->
  Decode (RLP tr ++ rest) = Ok (Some (of_tree tr), length (RLP tr)).
Proof.
  intros Hs. rewrite <- (to_of_tree tr) at 1 3. apply Decode_RLP.
  rewrite tree_size_ok_of_tree. exact Hs.
Qed.

Theorem RLP_prefix_free tr tr' rest rest' : tree_size_ok tr = true -> tree_size_ok tr' = true ->
  RLP tr ++ rest = RLP tr' ++ rest' -> tr = tr' /\ rest = rest'.
Proof.
  intros Hs Hs' E.
  pose proof (Decode_RLP_tree tr rest Hs) as D1. pose proof (Decode_RLP_tree tr' rest' Hs') as D2.
  rewrite E in D1. rewrite D1 in D2. injection D2 as Et El.
  assert (tr = tr') as <- by (rewrite <- (to_of_tree tr), <- (to_of_tree tr'), Et; reflexivity).
  split; [reflexivity|]. eapply app_inv_head; eauto.
Qed.

(* A strict decoder, as a relation over the specification alone: [bs] starts with the canonical encoding
   of [tr], which ends at position [p].  (No reference to the model.) *)
Definition strict (bs : bytes) (tr : tree) (p : nat) : Prop :=
  exists rest, bs = RLP tr ++ rest /\ p = length (RLP tr).

Theorem strict_Decode_agree bs tr p : tree_size_ok tr = true -> strict bs tr p ->
  Decode bs = Ok (Some (of_tree tr), p).
Proof. intros Hs [rest [-> ->]]. apply Decode_RLP_tree; exact Hs. Qed.

Theorem strict_functional bs tr tr' p p' : tree_size_ok tr = true -> tree_size_ok tr' = true ->
  strict bs tr p -> strict bs tr' p' -> tr = tr' /\ p = p'.
Proof.
  intros Hs Hs' [rest [E ->]] [rest' [E' ->]]. rewrite E in E'.
  destruct (RLP_prefix_free tr tr' rest rest' Hs Hs' E') as [<- _]. auto.
Qed.

(* whatever the lenient decoder returns on an input a strict decoder accepts is the strict answer *)
Theorem Decode_of_strict bs tr p r : tree_size_ok tr = true -> strict bs tr p ->
  Decode bs = r -> r = Ok (Some (of_tree tr), p) /\ to_tree (of_tree tr) = tr.
Proof. intros Hs S <-. split; [apply strict_Decode_agree; assumption | apply to_of_tree]. Qed.

(* the strict relation is inhabited exactly as expected: every in-region tree, any trailing bytes *)
Lemma strict_intro tr rest : strict (RLP tr ++ rest) tr (length (RLP tr)).
Proof. exists rest. split; reflexivity. Qed.

(* ---------- I3: the nil element is returned for the empty input only ---------- *)

Lemma app_cons_not_nil {A} (a : list A) x b : (a ++ [x]) ++ b <> [].
Proof. intros E. apply (f_equal (@length A)) in E. rewrite !app_length in E. simpl in E. lia. Qed.

Lemma good_ok_nonempty fuel rest x acc pos l p :
  good fuel rest (x :: acc) pos (Ok (l, p)) -> l <> [].
Proof. intros [items [-> _]]. cbn [rev]. apply app_cons_not_nil. Qed.

Ltac cont_nonempty :=
  match goal with
  | |- decode_items ?f ?r ?lim (?x :: ?acc) ?pos = Ok (?l, ?p) -> _ =>
      let H := fresh in intros H;
      pose proof (decode_items_good f r lim (x :: acc) pos) as G; rewrite H in G;
      exact (good_ok_nonempty _ _ _ _ _ _ _ G)
  end.

Lemma decode_first_nonempty f pb rest1 limit acc pos l p : lim_open limit ->
  decode_items (S f) (pb :: rest1) limit acc pos = Ok (l, p) -> l <> [].
Proof.
  intros Hlim. rewrite decode_step_unfold by exact Hlim. cbv zeta.
  destruct (b2n pb <? shortString)%N; [cont_nonempty|].
  destruct (b2n pb =? shortString)%N; [cont_nonempty|].
  destruct (b2n pb <=? longString)%N.
  { destruct (length rest1 <? _)%nat; [discriminate|].
    destruct (slice rest1 0 _) as [d|e|]; cbn [bind]; try discriminate. cont_nonempty. }
  destruct (b2n pb <? shortList)%N.
  { destruct (extract_long_len longString (b2n pb) (pb :: rest1)) as [[n rest2]|e|]; cbn [bind]; try discriminate.
    destruct (slice rest2 0 n) as [d|e|]; cbn [bind]; try discriminate. cont_nonempty. }
  destruct (b2n pb <=? longList)%N.
  { destruct (length rest1 <? _)%nat; [discriminate|].
    destruct (slice rest1 0 _) as [d|e|]; cbn [bind]; try discriminate.
    destruct (decode_items f d None [] 0) as [[child ?]|e|]; cbn [bind]; try discriminate. cont_nonempty. }
  destruct (extract_long_len longList (b2n pb) (pb :: rest1)) as [[n rest2]|e|]; cbn [bind]; try discriminate.
  destruct (slice rest2 0 n) as [d|e|]; cbn [bind]; try discriminate.
  destruct (decode_items f d None [] 0) as [[child ?]|e|]; cbn [bind]; try discriminate. cont_nonempty.
Qed.

Theorem Decode_nil_only_empty bs p : Decode bs = Ok (None, p) -> bs = [] /\ p = 0%nat.
Proof.
  destruct bs as [|pb rest1].
  - rewrite Decode_empty. intros H; injection H as <-. auto.
  - unfold Decode. cbn [length].
    destruct (decode_items (S (S (length rest1))) (pb :: rest1) (Some 1%nat) [] 0) as [[l q]|e|] eqn:E;
      cbn [bind]; try discriminate.
    apply decode_first_nonempty in E; [|discriminate].
    destruct l as [|x l']; [congruence|discriminate].
Qed.

(* every outcome of Decode, in one statement: error (never the model's out-of-fuel), or the nil element at
   position 0 exactly for the empty input, or an element with an in-bounds, non-zero position *)
Theorem Decode_outcomes bs :
  (exists e, Decode bs = Err e /\ e <> EOutOfFuel /\ bs <> []) \/
  (Decode bs = Ok (None, 0%nat) /\ bs = []) \/
  (exists t p, Decode bs = Ok (Some t, p) /\ (1 <= p <= length bs)%nat /\ size_ok t = true /\
               (length (encode t) <= p)%nat).
Proof.
  destruct (Decode_total_in_bounds bs) as [HP [HF HB]].
  destruct (Decode bs) as [[[t|] p]|e|] eqn:E.
  - right; right. exists t, p. destruct (HB t p eq_refl) as [H1 [H2 H3]].
    pose proof (encode_length_pos t). repeat split; auto; lia.
  - right; left. destruct (Decode_nil_only_empty bs p E) as [-> ->]. auto.
  - left. exists e. split; [reflexivity|]. split.
    + intros He. apply HF. rewrite He. reflexivity.
    + intros Hb. rewrite Hb in E. rewrite Decode_empty in E. discriminate.
  - contradiction.
Qed.

(* ---------- I1: a guard on the output alone ---------- *)
(* every tree whose canonical encoding is at most 2^31-1 bytes long is in the accepted region *)
Lemma encode_bytes_len_ge p il : (length p <= length (encode_bytes p il))%nat.
Proof.
  unfold encode_bytes.
  destruct p as [|b [|c t]]; destruct il; cbn [length];
  repeat match goal with |- context [if ?c then _ else _] => destruct c end;
  cbn [length]; rewrite ?app_length; cbn [length]; lia.
Qed.

Lemma flat_map_len_ge (l : list item) x : In x l -> (length (encode x) <= length (flat_map encode l))%nat.
Proof.
  induction l as [|y l IH]; [intros []|]. cbn [flat_map]. rewrite app_length.
  intros [->|H]; [lia|]. specialize (IH H). lia.
Qed.

Lemma size_ok_of_encoding_length t :
  (N.of_nat (length (encode t)) <= 2147483647)%N -> size_ok t = true.
Proof.
  induction t as [b|l IH] using item_ind'; intros H.
  - cbn [size_ok]. unfold maxInt32. apply N.leb_le.
    pose proof (encode_bytes_len_ge b false). cbn [encode] in H. lia.
  - cbn [size_ok]. unfold maxInt32. cbn [encode] in H.
    pose proof (encode_bytes_len_ge (flat_map encode l) true) as Hp.
    apply andb_true_iff. split; [|apply N.leb_le; lia].
    apply forallb_forall. intros x Hx. rewrite Forall_forall in IH. apply IH; [exact Hx|].
    pose proof (flat_map_len_ge l x Hx). lia.
Qed.

Theorem decode_encode_by_length t rest :
  (N.of_nat (length (RLP (to_tree t))) <= 2147483647)%N ->
  encode t = RLP (to_tree t) /\
  Decode (RLP (to_tree t) ++ rest) = Ok (Some t, length (RLP (to_tree t))).
Proof.
  intros H.
  assert (Hl : len_ok t).
  { (* len_ok from the bound on the specification's output: first show the bound for encode *)
    induction t as [b|l IH] using item_ind'.
    - cbn [len_ok]. cbn [to_tree RLP] in H.
      assert (length b <= length (R_b b))%nat.
      { unfold R_b. destruct b as [|c [|c2 b']]; cbn [length];
        repeat match goal with |- context [if ?c then _ else _] => destruct c end;
        cbn [length]; rewrite ?app_length; cbn [length]; lia. }
      lia.
    - cbn [len_ok]. cbn [to_tree RLP] in H.
      assert (Hp : (length (flat_map RLP (map to_tree l)) <= length (R_l (flat_map RLP (map to_tree l))))%nat).
      { unfold R_l. destruct (len _ <? 56)%N; cbn [length]; rewrite ?app_length; lia. }
      assert (Hall : forall x, In x l -> len_ok x).
      { intros x Hx. rewrite Forall_forall in IH. apply IH; [exact Hx|].
        assert (length (RLP (to_tree x)) <= length (flat_map RLP (map to_tree l)))%nat.
        { clear -Hx. induction l as [|y l IHl]; [destruct Hx|]. cbn [map flat_map]. rewrite app_length.
          destruct Hx as [->|Hx]; [lia|]. specialize (IHl Hx). lia. }
        lia. }
      assert (E : flat_map encode l = flat_map RLP (map to_tree l)).
      { clear -Hall. induction l as [|y l IHl]; [reflexivity|]. cbn [flat_map map].
        rewrite (encode_is_RLP y) by (apply Hall; left; reflexivity).
        rewrite IHl by (intros x Hx; apply Hall; right; exact Hx). reflexivity. }
      split.
      + clear -Hall. induction l as [|y l IHl]; [exact I|]. split; [apply Hall; left; reflexivity|].
        apply IHl. intros x Hx. apply Hall. right. exact Hx.
      + rewrite E. lia. }
  pose proof (encode_is_RLP t Hl) as E. split; [exact E|].
  apply Decode_RLP. apply size_ok_of_encoding_length. rewrite E. exact H.
Qed.

(* ---------- combined forms stated in Properties/C06.v ---------- *)
Theorem Decode_canonical_spec tr rest : tree_size_ok tr = true ->
  Decode (RLP tr ++ rest) = Ok (Some (of_tree tr), length (RLP tr)) /\ to_tree (of_tree tr) = tr.
Proof. intros Hs. split; [apply Decode_RLP_tree; exact Hs | apply to_of_tree]. Qed.

Theorem strict_decoder_agrees :
  (forall bs tr p, tree_size_ok tr = true -> strict bs tr p ->
     Decode bs = Ok (Some (of_tree tr), p) /\ to_tree (of_tree tr) = tr) /\
  (forall bs tr tr' p p', tree_size_ok tr = true -> tree_size_ok tr' = true ->
     strict bs tr p -> strict bs tr' p' -> tr = tr' /\ p = p') /\
  (forall tr rest, strict (RLP tr ++ rest) tr (length (RLP tr))).
Proof.
  split; [|split].
  - intros bs tr p Hs S. split; [apply strict_Decode_agree; assumption | apply to_of_tree].
  - exact strict_functional.
  - exact strict_intro.
Qed.

Theorem guards_agree :
  (forall t, tree_size_ok (to_tree t) = size_ok t) /\
  (forall tr, size_ok (of_tree tr) = tree_size_ok tr) /\
  (forall t, size_ok t = true -> len_ok t) /\
  (forall t, (N.of_nat (length (encode t)) <= 2147483647)%N -> size_ok t = true) /\
  (forall t t', to_tree t = to_tree t' -> t = t').
Proof.
  repeat split.
  - exact tree_size_ok_to_tree.
  - exact tree_size_ok_of_tree.
  - exact size_ok_len_ok.
  - exact size_ok_of_encoding_length.
  - exact to_tree_inj.
Qed.

(* ---------- I6: WrapInt on a signed argument ---------- *)
(* Go: WrapInt(i *big.Int) = Data(i.Bytes()), and big.Int.Bytes() is the big-endian magnitude: the sign
   is dropped.  (A nil pointer panics inside math/big; not modelled.) *)
Definition WrapIntZ (z : Z) : item := WrapInt (Z.abs_N z).

Theorem WrapIntZ_sign_dropped :
  (forall z : Z, DataInt (ToData (WrapIntZ z)) = Some (Z.abs_N z)) /\
  (forall z : Z, (0 <= z)%Z -> DataInt (ToData (WrapIntZ z)) = Some (Z.to_N z)) /\
  (forall z : Z, WrapIntZ (- z) = WrapIntZ z) /\
  (forall n : N, WrapIntZ (Z.of_N n) = WrapInt n).
Proof.
  split; [|split; [|split]].
  - intros z. apply WrapInt_roundtrip.
  - intros z Hz. unfold WrapIntZ. rewrite WrapInt_roundtrip. f_equal. destruct z; try reflexivity. lia.
  - intros z. unfold WrapIntZ. rewrite Zabs2N.inj_opp. reflexivity.
  - intros n. unfold WrapIntZ. rewrite Zabs2N.id. reflexivity.
Qed.
