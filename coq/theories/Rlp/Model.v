(* Executable model of pkg/rlp (encode.go, decode.go, rlp.go).  One definition per Go function,
   same case order, same guards; every Go slice expression goes through the panic-explicit
   [slice]. *)
From Coq Require Import List NArith ZArith Lia Bool Arith.
From Coq Require Import Init.Byte.
From FFS Require Import Base.Res Base.Bytes.
Import ListNotations.

(* error classes *)
Definition ELenShort := 1%nat.   (* "length mismatch in RLP for short data/list" *)
Definition ELenLong := 2%nat.    (* "length mismatch in RLP for length bytes" *)
Definition ELenData := 3%nat.    (* "length mismatch in RLP for data bytes" *)
Definition ETooMany := 4%nat.    (* "too many RLP bytes to decode" *)
Definition EOutOfFuel := 99%nat. (* model artefact; proved unreachable *)

(* rlp.Element: Data ([]byte) or List *)
Inductive item := Str (b : bytes) | Lst (l : list item).

(* ---------- encode.go ---------- *)

(* int64ToBytes: the 8 big-endian bytes of v (v >> 8k & 0xff) *)
Fixpoint be_fixed (k : nat) (n : N) : bytes :=
  match k with O => [] | S k' => n2b ((n / 256 ^ N.of_nat k') mod 256)%N :: be_fixed k' n end.

(* int64ToMinimalBytes: strip leading zero bytes *)
Fixpoint strip0 (l : bytes) : bytes :=
  match l with b :: t => if (b2n b =? 0)%N then strip0 t else l | [] => [] end.
Definition int64_to_minimal_bytes (n : N) : bytes := strip0 (be_fixed 8 n).

Definition shortString : N := 128.   (* 0x80 *)
Definition longString : N := 183.    (* 0xb7 *)
Definition shortList : N := 192.     (* 0xc0 *)
Definition longList : N := 247.      (* 0xf7 *)
Definition shortToLong : N := 55.    (* 0x37 *)

(* encodeBytes(inBytes, isList) *)
Definition encode_bytes (inb : bytes) (is_list : bool) : bytes :=
  let short_off : N := if is_list then shortList else shortString in
  match inb, is_list with
  | [b], false => if (b2n b <=? 127)%N then [b] else n2b (short_off + 1) :: inb
  | _, _ =>
    if (length inb <=? 55)%nat then n2b (short_off + N.of_nat (length inb)) :: inb
    else let lb := int64_to_minimal_bytes (N.of_nat (length inb)) in
         n2b (short_off + shortToLong + N.of_nat (length lb)) :: lb ++ inb
  end.

(* Data.Encode / List.Encode *)
Fixpoint encode (i : item) : bytes :=
  match i with
  | Str b => encode_bytes b false
  | Lst l => encode_bytes (flat_map encode l) true
  end.

(* ---------- decode.go ---------- *)
Definition maxInt32 : N := 2147483647%N.

Definition of_be (l : bytes) : N := fold_left (fun acc b => acc * 256 + b2n b)%N l 0%N.

(* minimalBytesToInt64: v += int64(data[i]) << (8*pow) wraps in int64; with len(data) <= 8 the sum is
   of_be data mod 2^64 read as a signed value; rejected when v < 0 || v > maxInt32 *)
Definition minimal_bytes_to_int64 (data : bytes) : res N :=
  let v := (of_be data mod 2 ^ 64)%N in
  if (v <? 2 ^ 63)%N && (v <=? maxInt32)%N then Ok v else Err ETooMany.

(* extractLongLen(isList, prefix, pos, data): here [rest] = data[pos:], starting AT the prefix byte.
   Returns (dataLen, data[newPos:]). *)
Definition extract_long_len (long_prefix : N) (prefix : N) (rest : bytes) : res (nat * bytes) :=
  let len_of_len := N.to_nat (prefix - long_prefix) in
  let rest1 := skipn 1 rest in
  if (length rest1 <? len_of_len)%nat then Err ELenLong else
  do lb <- slice rest1 0 len_of_len;
  do dl <- minimal_bytes_to_int64 lb;
  let rest2 := skipn len_of_len rest1 in
  (* compared in N: the declared length is converted to a nat only once it is known to fit the data *)
  if (N.of_nat (length rest2) <? dl)%N then Err ELenData else Ok (N.to_nat dl, rest2).

(* decode(data, limit): the element loop.  [rest] is data[pos:]; limit None = -1. *)
Fixpoint decode_items (fuel : nat) (rest : bytes) (limit : option nat) (acc : list item) (pos : nat)
  : res (list item * nat) :=
  match fuel with O => Err EOutOfFuel | S f =>
  match rest with
  | [] => Ok (rev acc, pos)
  | pb :: rest1 =>
    match limit with Some O => Ok (rev acc, pos) | _ =>
    let limit' := match limit with Some (S k) => Some k | _ => None end in
    let prefix := b2n pb in
    if (prefix <? shortString)%N then decode_items f rest1 limit' (Str [pb] :: acc) (S pos)
    else if (prefix =? shortString)%N then decode_items f rest1 limit' (Str [] :: acc) (S pos)
    else if (prefix <=? longString)%N then
      let n := N.to_nat (prefix - shortString) in
      if (length rest1 <? n)%nat then Err ELenShort else
      do d <- slice rest1 0 n;
      decode_items f (skipn n rest1) limit' (Str d :: acc) (S pos + n)
    else if (prefix <? shortList)%N then
      do (n, rest2) <- extract_long_len longString prefix rest;
      do d <- slice rest2 0 n;
      decode_items f (skipn n rest2) limit' (Str d :: acc) (pos + (length rest - length rest2) + n)
    else if (prefix <=? longList)%N then
      let n := N.to_nat (prefix - shortList) in
      if (length rest1 <? n)%nat then Err ELenShort else
      do payload <- slice rest1 0 n;
      do (child, _) <- decode_items f payload None [] 0;
      decode_items f (skipn n rest1) limit' (Lst child :: acc) (S pos + n)
    else
      do (n, rest2) <- extract_long_len longList prefix rest;
      do payload <- slice rest2 0 n;
      do (child, _) <- decode_items f payload None [] 0;
      decode_items f (skipn n rest2) limit' (Lst child :: acc) (pos + (length rest - length rest2) + n)
    end end end.

(* Decode(rlpData) (Element, int, error): first element only, with end position; nil element on
   empty input *)
Definition Decode (data : bytes) : res (option item * nat) :=
  do (l, p) <- decode_items (S (length data)) data (Some 1%nat) [] 0;
  match l with x :: _ => Ok (Some x, p) | [] => Ok (None, 0%nat) end.

(* ---------- rlp.go helpers ---------- *)

(* big.Int.Bytes(): minimal big-endian bytes of an unbounded natural *)
Fixpoint be_min_fuel (fuel : nat) (n : N) : bytes :=
  match fuel with O => [] | S f =>
    if (n =? 0)%N then [] else be_min_fuel f (n / 256) ++ [n2b (n mod 256)] end.
Definition big_bytes (n : N) : bytes := be_min_fuel (S (N.to_nat (N.size n))) n.

Definition WrapInt (n : N) : item := Str (big_bytes n).
(* WrapAddress(nil) = Data{}, else the 20 bytes *)
Definition WrapAddress (a : option bytes) : item := match a with None => Str [] | Some b => Str b end.

(* Element.ToData(): Data -> itself, List -> nil *)
Definition ToData (i : item) : option bytes := match i with Str b => Some b | Lst _ => None end.
(* Data.Int(): nil -> nil *)
Definition DataInt (d : option bytes) : option N := match d with None => None | Some b => Some (of_be b) end.
Definition IntOrZero (d : option bytes) : N := match d with None => 0%N | Some b => of_be b end.
Definition BytesNotNil (d : option bytes) : bytes := match d with None => [] | Some b => b end.
(* Data.Address(): nil unless exactly 20 bytes *)
Definition DataAddress (d : option bytes) : option bytes :=
  match d with Some b => if (length b =? 20)%nat then Some b else None | None => None end.
