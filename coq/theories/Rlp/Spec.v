(* RLP as defined in the Ethereum Yellow Paper, appendix B — written directly from the text,
   sharing no code with the model. *)
From Coq Require Import List NArith Lia Bool Arith.
From Coq Require Import Init.Byte.
From FFS Require Import Base.Bytes.
Import ListNotations.

(* T = L ⊎ B : a tree is a byte array or a sequence of trees *)
Inductive tree := B (b : bytes) | L (l : list tree).

(* BE(x): big-endian representation of a positive integer with no leading zero; BE(0) = () *)
Fixpoint BE_fuel (fuel : nat) (x : N) : bytes :=
  match fuel with
  | O => []
  | S f => if (x =? 0)%N then [] else BE_fuel f (x / 256) ++ [n2b (x mod 256)]
  end.
Definition BE (x : N) : bytes := BE_fuel (S (N.to_nat (N.size x))) x.

Definition len (x : bytes) : N := N.of_nat (length x).

(* (180) R_b(x) *)
Definition R_b (x : bytes) : bytes :=
  match x with
  | [b] => if (b2n b <? 128)%N then x else n2b (128 + len x) :: x
  | _ => if (len x <? 56)%N then n2b (128 + len x) :: x
         else n2b (183 + len (BE (len x))) :: BE (len x) ++ x
  end.

(* (183) R_l(x), with s(x) the concatenation of the RLP of the items *)
Definition R_l (s : bytes) : bytes :=
  if (len s <? 56)%N then n2b (192 + len s) :: s
  else n2b (247 + len (BE (len s))) :: BE (len s) ++ s.

Fixpoint RLP (t : tree) : bytes :=
  match t with
  | B b => R_b b
  | L l => R_l (flat_map RLP l)
  end.
