(* Wave 6, second part: the canonical RLP as a sub-grammar of the lenient wire grammar of Rlp/Grammar.v.
   [celem] is [elem] with three more side conditions and nothing else:
     (a) a one-byte string below 0x80 is not wrapped (81 xx needs xx >= 0x80);
     (b) the long form is used only above 55 payload bytes;
     (c) the length bytes do not start with a zero byte.
   Proved: celem w t  <->  size_ok t /\ w = encode t   (and celem is included in elem), so the inputs the
   decoder accepts beyond the canonical ones are exactly those that use one of the three relaxations somewhere. *)
From Coq Require Import List NArith ZArith Lia Bool Arith.
From Coq Require Import Init.Byte Strings.Byte.
From FFS Require Import Base.Res Base.Bytes Rlp.Model Rlp.Spec Rlp.Proofs Rlp.Exact Rlp.Grammar.
Import ListNotations.

Definition no_leading_zero (lb : bytes) : Prop := forall b t, lb = b :: t -> b2n b <> 0%N.

Inductive celem : bytes -> item -> Prop :=
| C_byte pb : (b2n pb < 128)%N -> celem [pb] (Str [pb])
| C_str_short pb d : (length d <= 55)%nat -> b2n pb = (128 + N.of_nat (length d))%N ->
    (forall b, d = [b] -> (128 <= b2n b)%N) ->                                   (* (a) *)
    celem (pb :: d) (Str d)
| C_str_long pb lb d : (1 <= length lb <= 8)%nat -> b2n pb = (183 + N.of_nat (length lb))%N ->
    be_value lb = N.of_nat (length d) -> (N.of_nat (length d) <= 2147483647)%N ->
    (55 < length d)%nat -> no_leading_zero lb ->                                  (* (b), (c) *)
    celem (pb :: lb ++ d) (Str d)
| C_lst_short pb payload l : (length payload <= 55)%nat -> b2n pb = (192 + N.of_nat (length payload))%N ->
    celems payload l -> celem (pb :: payload) (Lst l)
| C_lst_long pb lb payload l : (1 <= length lb <= 8)%nat -> b2n pb = (247 + N.of_nat (length lb))%N ->
    be_value lb = N.of_nat (length payload) -> (N.of_nat (length payload) <= 2147483647)%N ->
    (55 < length payload)%nat -> no_leading_zero lb ->                            (* (b), (c) *)
    celems payload l -> celem (pb :: lb ++ payload) (Lst l)
with celems : bytes -> list item -> Prop :=
| Cs_nil : celems [] []
| Cs_cons w x rest l : celem w x -> celems rest l -> celems (w ++ rest) (x :: l).

Scheme celem_mind := Minimality for celem Sort Prop
  with celems_mind := Minimality for celems Sort Prop.
Combined Scheme celem_celems_ind from celem_mind, celems_mind.

Lemma nlz_head lb : no_leading_zero lb -> head_nz lb.
Proof. intros H. destruct lb as [|b t]; [exact I|]. cbn. apply (H b t eq_refl). Qed.

Lemma head_nlz lb : head_nz lb -> no_leading_zero lb.
Proof. intros H b t ->. exact H. Qed.

Lemma long_header il pb lb (p : bytes) :
  (1 <= length lb <= 8)%nat -> b2n pb = (off_of il + shortToLong + N.of_nat (length lb))%N ->
  be_value lb = N.of_nat (length p) -> (N.of_nat (length p) <= 2147483647)%N ->
  (55 < length p)%nat -> no_leading_zero lb ->
  encode_bytes p il = pb :: lb ++ p.
Proof.
  intros Hl Hpb Eo Hm H55 Hnz. rewrite be_value_of_be in Eo.
  rewrite encode_bytes_gen by (left; lia).
  replace (length p <=? 55)%nat with false by (symmetry; apply Nat.leb_gt; lia).
  assert (int64_to_minimal_bytes (N.of_nat (length p)) = lb) as ->.
  { apply minimal_unique; [apply be_min_head | apply nlz_head; exact Hnz|].
    rewrite of_be_min by lia. symmetry. exact Eo. }
  rewrite <- Hpb, n2b_b2n. reflexivity.
Qed.

Lemma short_header il pb (p : bytes) :
  (length p <= 55)%nat -> b2n pb = (off_of il + N.of_nat (length p))%N ->
  (length p <> 1%nat \/ il = true) -> encode_bytes p il = pb :: p.
Proof.
  intros H55 Hpb H1. rewrite encode_bytes_gen by exact H1.
  replace (length p <=? 55)%nat with true by (symmetry; apply Nat.leb_le; lia).
  rewrite <- Hpb, n2b_b2n. reflexivity.
Qed.

Theorem celem_is_canonical :
  (forall w t, celem w t -> elem w t /\ w = encode t) /\
  (forall w l, celems w l -> elems w l /\ w = flat_map encode l).
Proof.
  apply celem_celems_ind.
  - intros pb H. split; [apply E_byte; exact H|]. cbn [encode]. unfold encode_bytes.
    replace (b2n pb <=? 127)%N with true by (symmetry; apply N.leb_le; lia). reflexivity.
  - intros pb d H55 Hpb Ha. split; [apply E_str_short; assumption|]. cbn [encode].
    destruct d as [|b [|b2 t]].
    + symmetry. apply (short_header false); [exact H55 | exact Hpb | left; cbn; lia].
    + unfold encode_bytes. specialize (Ha b eq_refl).
      replace (b2n b <=? 127)%N with false by (symmetry; apply N.leb_gt; lia).
      apply pb_eq in Hpb. rewrite Hpb. reflexivity.
    + symmetry. apply (short_header false); [exact H55 | exact Hpb | left; cbn [length]; lia].
  - intros pb lb d Hl Hpb Eo Hm H55 Hnz. split; [apply E_str_long; assumption|]. cbn [encode]. symmetry.
    apply (long_header false); try assumption; try (unfold off_of, shortString, shortToLong; lia).
  - intros pb payload l H55 Hpb _ [IH1 IH2]. split; [apply E_lst_short; assumption|]. cbn [encode].
    rewrite <- IH2. symmetry. apply (short_header true); [exact H55 | exact Hpb | right; reflexivity].
  - intros pb lb payload l Hl Hpb Eo Hm H55 Hnz _ [IH1 IH2]. split; [apply E_lst_long; assumption|].
    cbn [encode]. rewrite <- IH2. symmetry.
    apply (long_header true); try assumption; try (unfold off_of, shortList, shortToLong; lia).
  - split; [apply Es_nil | reflexivity].
  - intros w x rest l _ [Hw1 Hw2] _ [Hr1 Hr2]. split; [apply Es_cons; assumption|].
    cbn [flat_map]. rewrite <- Hw2, <- Hr2. reflexivity.
Qed.

(* ---------- converse: every canonical encoding of the region is derivable in the sub-grammar ---------- *)
Lemma enc_hdr_cases p il : (length p <> 1%nat \/ il = true) -> (N.of_nat (length p) <= maxInt32)%N ->
  ((length p <= 55)%nat /\ exists pb, encode_bytes p il = pb :: p /\ b2n pb = (off_of il + N.of_nat (length p))%N) \/
  ((55 < length p)%nat /\ exists pb lb, encode_bytes p il = pb :: lb ++ p /\ (1 <= length lb <= 8)%nat /\
      b2n pb = (off_of il + 55 + N.of_nat (length lb))%N /\ be_value lb = N.of_nat (length p) /\ no_leading_zero lb).
Proof.
  intros H1 Hm. unfold maxInt32 in Hm. rewrite encode_bytes_gen by exact H1.
  assert (Hoff : (off_of il <= 192)%N) by (destruct il; unfold off_of, shortList, shortString; lia).
  destruct (Nat.leb_spec (length p) 55) as [H|H].
  - left. split; [exact H|]. eexists. split; [reflexivity|]. apply b2n_n2b. lia.
  - right. split; [exact H|]. set (lb := int64_to_minimal_bytes (N.of_nat (length p))).
    assert (Hl : (1 <= length lb <= 8)%nat).
    { split; [apply be_min_nonempty; lia | apply be_min_length]. }
    exists (n2b (off_of il + shortToLong + N.of_nat (length lb))), lb.
    split; [reflexivity|]. split; [exact Hl|]. split.
    + unfold shortToLong. apply b2n_n2b. lia.
    + split; [rewrite be_value_of_be; apply of_be_min; lia | apply head_nlz, be_min_head].
Qed.

Theorem canonical_is_celem : forall t, size_ok t = true -> celem (encode t) t.
Proof.
  apply (item_ind' (fun t => size_ok t = true -> celem (encode t) t)).
  - intros b Hs. cbn [size_ok] in Hs. apply N.leb_le in Hs. cbn [encode].
    destruct b as [|c [|c2 t]].
    + change (encode_bytes [] false) with [n2b 128]. apply C_str_short; [cbn; lia | reflexivity | discriminate].
    + unfold encode_bytes. destruct (N.leb_spec (b2n c) 127) as [Hc|Hc].
      * apply C_byte. lia.
      * apply C_str_short; [cbn; lia | reflexivity |]. intros b E. injection E as <-. lia.
    + destruct (enc_hdr_cases (c :: c2 :: t) false) as [[H [pb [E Hpb]]]|[H [pb [lb [E [Hl [Hpb [Ev Hnz]]]]]]]];
        [left; cbn [length]; lia | exact Hs | |]; rewrite E.
      * apply C_str_short; [exact H | exact Hpb | discriminate].
      * apply C_str_long; try assumption; try (unfold off_of, shortString in Hpb; lia).
  - intros l HF Hs. cbn [size_ok] in Hs. apply andb_true_iff in Hs as [Hsl Hsp]. apply N.leb_le in Hsp.
    cbn [encode].
    assert (Hc : celems (flat_map encode l) l).
    { clear Hsp. induction HF as [|x l Hx _ IH]; [apply Cs_nil|].
      cbn [forallb] in Hsl. apply andb_true_iff in Hsl as [Hsx Hsl]. cbn [flat_map].
      apply Cs_cons; [apply Hx; exact Hsx | apply IH; exact Hsl]. }
    fold (enc_l l) in *. set (p := enc_l l) in *.
    destruct (enc_hdr_cases p true) as [[H [pb [E Hpb]]]|[H [pb [lb [E [Hl [Hpb [Ev Hnz]]]]]]]];
      [right; reflexivity | exact Hsp | |]; rewrite E.
    + apply C_lst_short; [exact H | exact Hpb | exact Hc].
    + apply C_lst_long; try assumption; try (unfold off_of, shortList in Hpb; lia).
Qed.

Theorem canonical_subgrammar :
  (forall w t, celem w t <-> (size_ok t = true /\ w = encode t)) /\
  (forall w t, celem w t -> elem w t).
Proof.
  split.
  - intros w t. split.
    + intros H. destruct (proj1 celem_is_canonical w t H) as [He Hw]. split; [|exact Hw].
      apply (Grammar.elem_region_and_length w t He).
    + intros [Hs ->]. apply canonical_is_celem. exact Hs.
  - intros w t H. apply (proj1 celem_is_canonical w t H).
Qed.
