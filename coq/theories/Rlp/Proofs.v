From Coq Require Import List NArith ZArith Lia Bool Arith.
From Coq Require Import Init.Byte Strings.Byte.
From FFS Require Import Base.Res Base.Bytes Rlp.Model Rlp.Spec.
Import ListNotations.

(* ---------- big-endian ---------- *)
Lemma fold_be_acc l acc :
  fold_left (fun acc b => acc * 256 + b2n b)%N l acc =
  (acc * 256 ^ N.of_nat (length l) + fold_left (fun acc b => acc * 256 + b2n b)%N l 0)%N.
Proof.
  revert acc. induction l as [|x l IH]; intros acc.
  - simpl. lia.
  - cbn [fold_left length]. rewrite IH, (IH (0 * 256 + b2n x)%N).
    rewrite Nat2N.inj_succ, N.pow_succ_r'. lia.
Qed.

Lemma of_be_app a b : of_be (a ++ b) = (of_be a * 256 ^ N.of_nat (length b) + of_be b)%N.
Proof. unfold of_be. rewrite fold_left_app, fold_be_acc. reflexivity. Qed.

Lemma of_be_cons x l : of_be (x :: l) = (b2n x * 256 ^ N.of_nat (length l) + of_be l)%N.
Proof. change (x :: l) with ([x] ++ l). rewrite of_be_app. unfold of_be at 1. simpl. lia. Qed.

Lemma of_be_nil : of_be [] = 0%N. Proof. reflexivity. Qed.

Lemma be_fixed_length k n : length (be_fixed k n) = k.
Proof. induction k; simpl; congruence. Qed.

Lemma of_be_fixed k n : of_be (be_fixed k n) = (n mod 256 ^ N.of_nat k)%N.
Proof.
  induction k as [|k IH].
  - simpl. unfold of_be. simpl. rewrite N.mod_1_r. reflexivity.
  - cbn [be_fixed]. rewrite of_be_cons, be_fixed_length, IH.
    rewrite b2n_n2b by (apply N.mod_lt; lia).
    rewrite Nat2N.inj_succ, N.pow_succ_r'.
    set (p := (256 ^ N.of_nat k)%N). assert (p <> 0)%N by (subst p; apply N.pow_nonzero; lia).
    rewrite (N.mul_comm 256 p), N.mod_mul_r by lia. lia.
Qed.

Lemma of_be_strip0 l : of_be (strip0 l) = of_be l.
Proof.
  induction l as [|b t IH]; simpl; auto.
  destruct (N.eqb_spec (b2n b) 0) as [E|E]; auto.
  rewrite IH, of_be_cons, E. lia.
Qed.

Lemma strip0_length l : (length (strip0 l) <= length l)%nat.
Proof. induction l as [|b t IH]; simpl; auto. destruct (b2n b =? 0)%N; simpl; lia. Qed.

Definition head_nz (l : bytes) : Prop := match l with [] => True | b :: _ => b2n b <> 0%N end.

Lemma strip0_head l : head_nz (strip0 l).
Proof.
  induction l as [|b t IH]; simpl; auto.
  destruct (N.eqb_spec (b2n b) 0); simpl; auto.
Qed.

Lemma of_be_min n : (n < 2 ^ 64)%N -> of_be (int64_to_minimal_bytes n) = n.
Proof.
  intros H. unfold int64_to_minimal_bytes. rewrite of_be_strip0, of_be_fixed.
  change (256 ^ N.of_nat 8)%N with (2 ^ 64)%N. apply N.mod_small; exact H.
Qed.

Lemma be_min_length n : (length (int64_to_minimal_bytes n) <= 8)%nat.
Proof.
  unfold int64_to_minimal_bytes. pose proof (strip0_length (be_fixed 8 n)) as H.
  rewrite be_fixed_length in H. exact H.
Qed.

Lemma be_min_head n : head_nz (int64_to_minimal_bytes n).
Proof. apply strip0_head. Qed.

Lemma of_be_lt l : (of_be l < 256 ^ N.of_nat (length l))%N.
Proof.
  induction l as [|b t IH].
  - unfold of_be; simpl; lia.
  - rewrite of_be_cons. cbn [length]. rewrite Nat2N.inj_succ, N.pow_succ_r'.
    pose proof (b2n_lt b). nia.
Qed.

Lemma of_be_lower l : l <> [] -> head_nz l -> (256 ^ N.of_nat (length l - 1) <= of_be l)%N.
Proof.
  destruct l as [|b t]; [congruence|]. intros _ H. simpl in H.
  rewrite of_be_cons. cbn [length]. replace (S (length t) - 1)%nat with (length t) by lia.
  assert (1 <= b2n b)%N by lia. nia.
Qed.

Lemma be_min_nonempty n : (0 < n < 2 ^ 64)%N -> (1 <= length (int64_to_minimal_bytes n))%nat.
Proof.
  intros [H0 H]. pose proof (of_be_min n H) as E.
  destruct (int64_to_minimal_bytes n) as [|b t]; [unfold of_be in E; simpl in E; lia | simpl; lia].
Qed.

Lemma pow256_lt_inv a b : (256 ^ N.of_nat a < 256 ^ N.of_nat b)%N -> (a < b)%nat.
Proof.
  intros H. destruct (Nat.lt_ge_cases a b) as [|G]; auto.
  assert (256 ^ N.of_nat b <= 256 ^ N.of_nat a)%N by (apply N.pow_le_mono_r; lia). lia.
Qed.

(* minimal representations are shortest *)
Lemma head_nz_shortest_le a b : head_nz a -> (of_be a <= of_be b)%N -> (length a <= length b)%nat.
Proof.
  intros Ha E. destruct a as [|x a']; [simpl; lia|].
  pose proof (of_be_lower (x :: a') ltac:(congruence) Ha) as L1.
  pose proof (of_be_lt b) as L2.
  assert (256 ^ N.of_nat (length (x :: a') - 1) < 256 ^ N.of_nat (length b))%N as L3 by lia.
  apply pow256_lt_inv in L3. simpl in *. lia.
Qed.

Lemma head_nz_shortest a b : head_nz a -> of_be a = of_be b -> (length a <= length b)%nat.
Proof.
  intros Ha E. destruct a as [|x a']; [simpl; lia|].
  pose proof (of_be_lower (x :: a') ltac:(congruence) Ha) as L1.
  pose proof (of_be_lt b) as L2. rewrite <- E in L2.
  assert (256 ^ N.of_nat (length (x :: a') - 1) < 256 ^ N.of_nat (length b))%N as L3 by lia.
  apply pow256_lt_inv in L3. simpl in *. lia.
Qed.

Lemma of_be_inj_len a b : length a = length b -> of_be a = of_be b -> a = b.
Proof.
  revert b. induction a as [|x a IH]; intros [|y b] HL E; simpl in HL; try discriminate; auto.
  injection HL as HL. rewrite !of_be_cons, HL in E.
  pose proof (of_be_lt a) as La. pose proof (of_be_lt b) as Lb. rewrite HL in La.
  set (p := (256 ^ N.of_nat (length b))%N) in *.
  assert (b2n x = b2n y) as Exy by nia.
  assert (of_be a = of_be b) as Eab by nia.
  f_equal; [apply b2n_inj; exact Exy | apply IH; auto].
Qed.

Lemma minimal_unique a b : head_nz a -> head_nz b -> of_be a = of_be b -> a = b.
Proof.
  intros Ha Hb E. apply of_be_inj_len; auto.
  pose proof (head_nz_shortest a b Ha E). pose proof (head_nz_shortest b a Hb (eq_sym E)). lia.
Qed.

(* ---------- the specification's BE ---------- *)
Lemma BE_fuel_spec fuel x : (x < 256 ^ N.of_nat fuel)%N ->
  of_be (BE_fuel fuel x) = x /\ head_nz (BE_fuel fuel x).
Proof.
  revert x. induction fuel as [|f IH]; intros x Hx.
  - simpl in *. assert (x = 0)%N by lia. subst. split; reflexivity.
  - cbn [BE_fuel]. destruct (N.eqb_spec x 0) as [->|Hnz]; [split; reflexivity|].
    rewrite Nat2N.inj_succ, N.pow_succ_r' in Hx.
    assert (x / 256 < 256 ^ N.of_nat f)%N as Hq by (apply N.div_lt_upper_bound; lia).
    destruct (IH _ Hq) as [E Hh]. split.
    + rewrite of_be_app, E. cbn [length]. unfold of_be at 1. cbn [fold_left].
      rewrite b2n_n2b by (apply N.mod_lt; lia).
      change (256 ^ N.of_nat 1)%N with 256%N. pose proof (N.div_mod x 256). lia.
    + destruct (BE_fuel f (x / 256)) as [|h t] eqn:EB.
      * cbn. rewrite of_be_nil in E. rewrite b2n_n2b by (apply N.mod_lt; lia).
        pose proof (N.div_mod x 256). lia.
      * exact Hh.
Qed.

Lemma size_bound x : (x < 256 ^ N.of_nat (S (N.to_nat (N.size x))))%N.
Proof.
  destruct x as [|p]; [cbn; lia|].
  pose proof (N.size_gt (N.pos p)) as H.
  rewrite Nat2N.inj_succ, N2Nat.id.
  assert (2 ^ N.size (N.pos p) <= 256 ^ N.succ (N.size (N.pos p)))%N.
  { change 256%N with (2 ^ 8)%N. rewrite <- N.pow_mul_r. apply N.pow_le_mono_r; lia. }
  lia.
Qed.

Lemma BE_spec x : of_be (BE x) = x /\ head_nz (BE x).
Proof. apply BE_fuel_spec, size_bound. Qed.

Lemma big_bytes_BE x : big_bytes x = BE x.
Proof. reflexivity. Qed.

Lemma be_min_is_BE n : (n < 2 ^ 64)%N -> int64_to_minimal_bytes n = BE n.
Proof.
  intros H. destruct (BE_spec n) as [E Hh].
  apply minimal_unique; [apply be_min_head | exact Hh |]. rewrite of_be_min, E; auto.
Qed.

(* ---------- encoder = Yellow Paper ---------- *)
Fixpoint to_tree (i : item) : tree :=
  match i with Str b => B b | Lst l => L (map to_tree l) end.

(* every string and list payload shorter than 2^64 bytes (Go: len fits an int) *)
Fixpoint len_ok (i : item) : Prop :=
  match i with
  | Str b => (N.of_nat (length b) < 2 ^ 64)%N
  | Lst l => (fix all (l : list item) : Prop := match l with [] => True | x :: t => len_ok x /\ all t end) l
             /\ (N.of_nat (length (flat_map encode l)) < 2 ^ 64)%N
  end.

Lemma item_ind' (P : item -> Prop) :
  (forall b, P (Str b)) -> (forall l, Forall P l -> P (Lst l)) -> forall i, P i.
Proof.
  intros HS HL. fix IH 1. intros [b|l]; [apply HS|apply HL].
  induction l as [|x l IHl]; constructor; auto.
Qed.

Lemma encode_bytes_str b : (N.of_nat (length b) < 2 ^ 64)%N -> encode_bytes b false = R_b b.
Proof.
  intros H. unfold encode_bytes, R_b, len, shortString, shortToLong.
  destruct b as [|c [|c2 t]].
  - reflexivity.
  - destruct (N.leb_spec (b2n c) 127), (N.ltb_spec (b2n c) 128); try lia; reflexivity.
  - set (b := c :: c2 :: t) in *.
    destruct (Nat.leb_spec (length b) 55), (N.ltb_spec (N.of_nat (length b)) 56); try lia.
    + reflexivity.
    + rewrite be_min_is_BE by exact H. reflexivity.
Qed.

Lemma encode_bytes_list_eq p : encode_bytes p true =
  if (length p <=? 55)%nat then n2b (192 + N.of_nat (length p)) :: p
  else n2b (192 + 55 + N.of_nat (length (int64_to_minimal_bytes (N.of_nat (length p)))))
         :: int64_to_minimal_bytes (N.of_nat (length p)) ++ p.
Proof. unfold encode_bytes. destruct p as [|? [|? ?]]; reflexivity. Qed.

Lemma encode_bytes_lst p : (N.of_nat (length p) < 2 ^ 64)%N -> encode_bytes p true = R_l p.
Proof.
  intros H. rewrite encode_bytes_list_eq. unfold R_l, len.
  destruct (Nat.leb_spec (length p) 55), (N.ltb_spec (N.of_nat (length p)) 56); try lia.
  - reflexivity.
  - rewrite be_min_is_BE by exact H. reflexivity.
Qed.

Lemma encode_is_RLP i : len_ok i -> encode i = RLP (to_tree i).
Proof.
  induction i as [b|l IH] using item_ind'; intros H.
  - apply encode_bytes_str, H.
  - destruct H as [Hall Hlen]. cbn [encode to_tree RLP].
    assert (E : flat_map encode l = flat_map RLP (map to_tree l)).
    { clear Hlen. induction IH as [|x l Hx _ IHl]; [reflexivity|].
      destruct Hall as [Hx' Hall]. cbn [flat_map map]. rewrite Hx, IHl; auto. }
    rewrite <- E. apply encode_bytes_lst, Hlen.
Qed.

(* ---------- decode (encode t ++ rest) ---------- *)
Definition enc_l (l : list item) := flat_map encode l.

(* the region the real decoder accepts: every string / list payload at most maxInt32 bytes *)
Fixpoint size_ok (i : item) : bool :=
  match i with
  | Str b => (N.of_nat (length b) <=? maxInt32)%N
  | Lst l => forallb size_ok l && (N.of_nat (length (flat_map encode l)) <=? maxInt32)%N
  end.

Lemma encode_bytes_length_pos p il : (1 <= length (encode_bytes p il))%nat.
Proof.
  unfold encode_bytes.
  destruct p as [|b [|c t]]; destruct il; simpl; try lia;
  repeat match goal with |- context [if ?c then _ else _] => destruct c end; simpl; lia.
Qed.

Lemma encode_length_pos x : (1 <= length (encode x))%nat.
Proof. destruct x; simpl; apply encode_bytes_length_pos. Qed.

Lemma min_bytes_be_min n : (N.of_nat n <= maxInt32)%N ->
  minimal_bytes_to_int64 (int64_to_minimal_bytes (N.of_nat n)) = Ok (N.of_nat n).
Proof.
  intros H. unfold minimal_bytes_to_int64. unfold maxInt32 in *.
  rewrite of_be_min by lia. rewrite N.mod_small by lia.
  replace (N.of_nat n <? 2 ^ 63)%N with true by (symmetry; apply N.ltb_lt; lia).
  replace (N.of_nat n <=? 2147483647)%N with true by (symmetry; apply N.leb_le; lia).
  simpl. reflexivity.
Qed.

Lemma extract_long_ok off (p tail : bytes) :
  (N.of_nat (length p) <=? maxInt32)%N = true -> (55 < length p)%nat ->
  let lb := int64_to_minimal_bytes (N.of_nat (length p)) in
  extract_long_len off (off + N.of_nat (length lb)) (n2b (off + N.of_nat (length lb)) :: lb ++ p ++ tail)
  = Ok (length p, p ++ tail).
Proof.
  intros Hok Hlen lb. unfold extract_long_len.
  replace (off + N.of_nat (length lb) - off)%N with (N.of_nat (length lb)) by lia.
  rewrite Nat2N.id. cbn [skipn].
  replace (length (lb ++ p ++ tail) <? length lb)%nat with false
    by (symmetry; apply Nat.ltb_ge; rewrite app_length; lia).
  rewrite slice_prefix. cbn [bind].
  apply N.leb_le in Hok.
  subst lb. rewrite min_bytes_be_min by exact Hok. cbn [bind].
  rewrite skipn_prefix.
  replace (N.of_nat (length (p ++ tail)) <? N.of_nat (length p))%N with false
    by (symmetry; apply N.ltb_ge; rewrite app_length; lia).
  rewrite Nat2N.id. reflexivity.
Qed.

Definition lim_next (limit : option nat) : option nat :=
  match limit with Some (S k) => Some k | _ => None end.
Definition lim_open (limit : option nat) : Prop := limit <> Some 0%nat.

(* one decoder iteration on [encode x ++ tail] yields x and continues on tail *)
Definition P (x : item) : Prop :=
  size_ok x = true -> forall f tail limit acc pos, lim_open limit ->
  (length (encode x) + length tail <= f)%nat ->
  decode_items (S f) (encode x ++ tail) limit acc pos
  = decode_items f tail (lim_next limit) (x :: acc) (pos + length (encode x)).

Definition PL (l : list item) : Prop :=
  forallb size_ok l = true -> forall f rest acc pos,
  (length (enc_l l) + length rest <= f)%nat ->
  exists f', (length rest <= f')%nat /\
    decode_items (S f) (enc_l l ++ rest) None acc pos
    = decode_items (S f') rest None (rev l ++ acc) (pos + length (enc_l l)).

Lemma PL_of_P l : Forall P l -> PL l.
Proof.
  induction 1 as [|x l Hx Hl IH]; unfold PL in *; intros Hs f rest acc pos Hf.
  - exists f. simpl in *. split; [lia|]. rewrite Nat.add_0_r. reflexivity.
  - simpl in Hs. apply andb_true_iff in Hs as [Hsx Hsl].
    unfold enc_l in *. cbn [flat_map] in *. rewrite app_length in Hf.
    pose proof (Hx Hsx f (flat_map encode l ++ rest) None acc pos) as E.
    rewrite <- app_assoc. rewrite E by (try discriminate; rewrite app_length; lia). clear E.
    pose proof (encode_length_pos x) as Hpos.
    destruct f as [|f0]; [lia|].
    destruct (IH Hsl f0 rest (x :: acc) (pos + length (encode x))%nat) as [f' [Hf' E]]; [lia|].
    exists f'. split; [exact Hf'|]. cbn [lim_next]. rewrite E. cbn [rev]. rewrite <- app_assoc. cbn [app].
    rewrite app_length, Nat.add_assoc. reflexivity.
Qed.

Lemma decode_nil f limit acc pos : decode_items (S f) [] limit acc pos = Ok (rev acc, pos).
Proof. reflexivity. Qed.

Ltac limcase limit Hlim :=
  destruct limit as [[|?]|]; [exfalso; apply Hlim; reflexivity| |].

Lemma decode_step_unfold f pb rest1 limit acc pos : lim_open limit ->
  decode_items (S f) (pb :: rest1) limit acc pos =
    let rest := pb :: rest1 in
    let limit' := lim_next limit in
    let prefix := b2n pb in
    if (prefix <? shortString)%N then decode_items f rest1 limit' (Str [pb] :: acc) (S pos)
    else if (prefix =? shortString)%N then decode_items f rest1 limit' (Str [] :: acc) (S pos)
    else if (prefix <=? longString)%N then
      let n := N.to_nat (prefix - shortString) in
      if (length rest1 <? n)%nat then Err ELenShort else
      do d <- slice rest1 0 n;
      decode_items f (skipn n rest1) limit' (Str d :: acc) (S pos + n)
    else if (prefix <? shortList)%N then
      do (n, rest2) <- extract_long_len longString prefix rest;
      do d <- slice rest2 0 n;
      decode_items f (skipn n rest2) limit' (Str d :: acc) (pos + (length rest - length rest2) + n)
    else if (prefix <=? longList)%N then
      let n := N.to_nat (prefix - shortList) in
      if (length rest1 <? n)%nat then Err ELenShort else
      do payload <- slice rest1 0 n;
      do (child, _) <- decode_items f payload None [] 0;
      decode_items f (skipn n rest1) limit' (Lst child :: acc) (S pos + n)
    else
      do (n, rest2) <- extract_long_len longList prefix rest;
      do payload <- slice rest2 0 n;
      do (child, _) <- decode_items f payload None [] 0;
      decode_items f (skipn n rest2) limit' (Lst child :: acc) (pos + (length rest - length rest2) + n).
Proof. intros Hlim. limcase limit Hlim; reflexivity. Qed.

Lemma P_all : forall x, P x.
Proof.
  apply item_ind'.
  - (* Str b *)
    intros b Hs f tail limit acc pos Hlim Hf. cbn [size_ok] in Hs. cbn [encode] in *.
    unfold encode_bytes, shortString, shortToLong in *.
    destruct b as [|c [|c2 t]].
    + (* empty string *)
      cbn [length Nat.leb app] in *. rewrite decode_step_unfold by exact Hlim. cbv zeta.
      rewrite b2n_n2b by (cbn; lia). cbn [length]. rewrite Nat.add_1_r. reflexivity.
    + (* single byte *)
      destruct (N.leb_spec (b2n c) 127) as [Hc|Hc].
      * cbn [app length]. rewrite decode_step_unfold by exact Hlim. cbv zeta. unfold shortString.
        replace (b2n c <? 128)%N with true by (symmetry; apply N.ltb_lt; lia).
        rewrite Nat.add_1_r. reflexivity.
      * cbn [length Nat.leb]. cbn [app]. rewrite decode_step_unfold by exact Hlim. cbv zeta.
        unfold shortString, longString.
        rewrite b2n_n2b by lia.
        replace (128 + 1 <? 128)%N with false by reflexivity.
        replace (128 + 1 =? 128)%N with false by reflexivity.
        replace (128 + 1 <=? 183)%N with true by reflexivity.
        replace (N.to_nat (128 + 1 - 128)) with 1%nat by reflexivity.
        cbn [length Nat.ltb Nat.leb].
        unfold slice. cbn [Nat.leb andb length Nat.sub firstn skipn bind]. f_equal. lia.
    + (* two or more bytes *)
      set (b := c :: c2 :: t) in *.
      assert (Hlb : (2 <= length b)%nat) by (subst b; simpl; lia).
      destruct (Nat.leb_spec (length b) 55) as [H55|H55].
      * cbn [app]. rewrite decode_step_unfold by exact Hlim. cbv zeta.
        unfold shortString, longString.
        rewrite b2n_n2b by lia.
        replace (128 + N.of_nat (length b) <? 128)%N with false by (symmetry; apply N.ltb_ge; lia).
        replace (128 + N.of_nat (length b) =? 128)%N with false by (symmetry; apply N.eqb_neq; lia).
        replace (128 + N.of_nat (length b) <=? 183)%N with true by (symmetry; apply N.leb_le; lia).
        replace (N.to_nat (128 + N.of_nat (length b) - 128)) with (length b) by lia.
        replace (length (b ++ tail) <? length b)%nat with false
          by (symmetry; apply Nat.ltb_ge; rewrite app_length; lia).
        rewrite slice_prefix. cbn [bind]. rewrite skipn_prefix. f_equal. cbn [length]. lia.
      * set (lb := int64_to_minimal_bytes (N.of_nat (length b))) in *.
        assert (Hlb8 : (1 <= length lb <= 8)%nat).
        { split; [apply be_min_nonempty|apply be_min_length].
          apply N.leb_le in Hs. unfold maxInt32 in Hs. lia. }
        cbn [app].
        replace (128 + 55 + N.of_nat (length lb))%N with (183 + N.of_nat (length lb))%N in * by lia.
        rewrite decode_step_unfold by exact Hlim. cbv zeta.
        unfold shortString, longString, shortList.
        rewrite b2n_n2b by lia.
        replace (183 + N.of_nat (length lb) <? 128)%N with false by (symmetry; apply N.ltb_ge; lia).
        replace (183 + N.of_nat (length lb) =? 128)%N with false by (symmetry; apply N.eqb_neq; lia).
        replace (183 + N.of_nat (length lb) <=? 183)%N with false by (symmetry; apply N.leb_gt; lia).
        replace (183 + N.of_nat (length lb) <? 192)%N with true by (symmetry; apply N.ltb_lt; lia).
        rewrite <- app_assoc.
        subst lb. rewrite (extract_long_ok 183 b tail Hs H55). cbn [bind].
        rewrite slice_prefix. cbn [bind]. rewrite skipn_prefix. f_equal.
        cbn [length]. rewrite !app_length. lia.
  - (* Lst l *)
    intros l HF Hs f tail limit acc pos Hlim Hf. cbn [size_ok] in Hs.
    apply andb_true_iff in Hs as [Hsl Hsp].
    cbn [encode] in *. fold (enc_l l) in *. set (p := enc_l l) in *.
    pose proof (PL_of_P l HF Hsl) as HPL. unfold PL in HPL. fold p in HPL.
    assert (Hchild : forall f0, (length p <= f0)%nat -> decode_items (S f0) p None [] 0 = Ok (l, length p)).
    { intros f0 Hf0. destruct (HPL f0 [] [] 0%nat) as [f' [_ E]]; [simpl; lia|].
      rewrite app_nil_r in E. rewrite E, decode_nil, app_nil_r, rev_involutive. reflexivity. }
    rewrite encode_bytes_list_eq in *.
    destruct (Nat.leb_spec (length p) 55) as [H55|H55].
    + cbn [app]. rewrite decode_step_unfold by exact Hlim. cbv zeta.
      unfold shortString, longString, shortList, longList.
      rewrite b2n_n2b by lia.
      replace (192 + N.of_nat (length p) <? 128)%N with false by (symmetry; apply N.ltb_ge; lia).
      replace (192 + N.of_nat (length p) =? 128)%N with false by (symmetry; apply N.eqb_neq; lia).
      replace (192 + N.of_nat (length p) <=? 183)%N with false by (symmetry; apply N.leb_gt; lia).
      replace (192 + N.of_nat (length p) <? 192)%N with false by (symmetry; apply N.ltb_ge; lia).
      replace (192 + N.of_nat (length p) <=? 247)%N with true by (symmetry; apply N.leb_le; lia).
      replace (N.to_nat (192 + N.of_nat (length p) - 192)) with (length p) by lia.
      replace (length (p ++ tail) <? length p)%nat with false
        by (symmetry; apply Nat.ltb_ge; rewrite app_length; lia).
      rewrite slice_prefix. cbn [bind].
      cbn [length] in Hf. destruct f as [|f0]; [lia|].
      rewrite Hchild by lia. cbn [bind]. rewrite skipn_prefix. f_equal. cbn [length]. lia.
    + set (lb := int64_to_minimal_bytes (N.of_nat (length p))) in *.
      assert (Hlb8 : (1 <= length lb <= 8)%nat).
      { split; [apply be_min_nonempty|apply be_min_length].
        apply N.leb_le in Hsp. unfold maxInt32 in Hsp. lia. }
      cbn [app].
      replace (192 + 55 + N.of_nat (length lb))%N with (247 + N.of_nat (length lb))%N in * by lia.
      rewrite decode_step_unfold by exact Hlim. cbv zeta.
      unfold shortString, longString, shortList, longList.
      rewrite b2n_n2b by lia.
      replace (247 + N.of_nat (length lb) <? 128)%N with false by (symmetry; apply N.ltb_ge; lia).
      replace (247 + N.of_nat (length lb) =? 128)%N with false by (symmetry; apply N.eqb_neq; lia).
      replace (247 + N.of_nat (length lb) <=? 183)%N with false by (symmetry; apply N.leb_gt; lia).
      replace (247 + N.of_nat (length lb) <? 192)%N with false by (symmetry; apply N.ltb_ge; lia).
      replace (247 + N.of_nat (length lb) <=? 247)%N with false by (symmetry; apply N.leb_gt; lia).
      rewrite <- app_assoc.
      subst lb. rewrite (extract_long_ok 247 p tail Hsp H55). cbn [bind].
      rewrite slice_prefix. cbn [bind].
      cbn [length] in Hf. rewrite !app_length in Hf. destruct f as [|f0]; [lia|].
      rewrite Hchild by lia. cbn [bind]. rewrite skipn_prefix. f_equal.
      cbn [length]. rewrite !app_length. lia.
Qed.

Theorem decode_encode t rest : size_ok t = true ->
  Decode (encode t ++ rest) = Ok (Some t, length (encode t)).
Proof.
  intros Hs. unfold Decode.
  rewrite (P_all t Hs (length (encode t ++ rest)) rest (Some 1%nat) [] 0%nat);
    [| discriminate | rewrite app_length; lia].
  cbn [lim_next]. pose proof (encode_length_pos t).
  destruct (length (encode t ++ rest)) as [|f] eqn:E; [rewrite app_length in E; lia|].
  destruct rest; reflexivity.
Qed.

(* ---------- totality, bounds, fuel, stability ---------- *)

Lemma slice_not_panic l lo hi : (lo <= hi)%nat -> (hi <= length l)%nat -> exists r, slice l lo hi = Ok r /\ length r = (hi - lo)%nat.
Proof.
  intros H1 H2. rewrite slice_ok by assumption. eexists; split; [reflexivity|].
  rewrite firstn_length, skipn_length. lia.
Qed.

Lemma minimal_bytes_ok data n : (length data <= 8)%nat -> minimal_bytes_to_int64 data = Ok n ->
  of_be data = n /\ (n <= maxInt32)%N.
Proof.
  intros Hl. unfold minimal_bytes_to_int64.
  assert (of_be data < 2 ^ 64)%N as Hb.
  { pose proof (of_be_lt data) as H.
    assert (256 ^ N.of_nat (length data) <= 256 ^ 8)%N by (apply N.pow_le_mono_r; lia).
    change (256 ^ 8)%N with (2 ^ 64)%N in *. lia. }
  rewrite N.mod_small by exact Hb.
  destruct (of_be data <? 2 ^ 63)%N eqn:E1; simpl; try discriminate.
  destruct (of_be data <=? maxInt32)%N eqn:E2; simpl; try discriminate.
  intros H; injection H as <-. apply N.leb_le in E2. split; [reflexivity|exact E2].
Qed.

Lemma minimal_bytes_not_panic data : minimal_bytes_to_int64 data <> Panic.
Proof.
  unfold minimal_bytes_to_int64.
  destruct (_ && _); discriminate.
Qed.

Lemma extract_long_inv lp prefix rest :
  (lp < prefix)%N -> (prefix <= lp + 8)%N ->
  match extract_long_len lp prefix rest with
  | Panic => False
  | Err e => e <> EOutOfFuel
  | Ok (dl, rest2) =>
      let lol := N.to_nat (prefix - lp) in
      (1 + lol <= length rest)%nat /\ rest2 = skipn (1 + lol) rest /\
      (dl <= length rest2)%nat /\ (N.of_nat dl <= maxInt32)%N /\
      exists lb, length lb = lol /\ of_be lb = N.of_nat dl
  end.
Proof.
  intros H1 H2. unfold extract_long_len.
  set (lol := N.to_nat (prefix - lp)).
  assert (1 <= lol <= 8)%nat as Hlol by (subst lol; lia).
  destruct (Nat.ltb_spec (length (skipn 1 rest)) lol) as [Hs|Hs]; [discriminate|].
  rewrite skipn_length in Hs.
  destruct (slice_not_panic (skipn 1 rest) 0 lol) as [lb [E Hlb]]; [lia|rewrite skipn_length; lia|].
  rewrite E. cbn [bind].
  destruct (minimal_bytes_to_int64 lb) as [dl|e|] eqn:Em; cbn [bind].
  - apply minimal_bytes_ok in Em; [|lia]. destruct Em as [Eo Hmax].
    destruct (N.ltb_spec (N.of_nat (length (skipn lol (skipn 1 rest)))) dl) as [Hd|Hd]; [discriminate|].
    cbv zeta. rewrite skipn_skipn' in *.
    repeat split; try lia; auto.
    exists lb. split; [lia|]. rewrite N2Nat.id. exact Eo.
  - unfold minimal_bytes_to_int64 in Em. destruct (_ && _); inversion Em. discriminate.
  - exfalso. eapply minimal_bytes_not_panic; eauto.
Qed.


Definition hdr_len (n : nat) : nat :=
  if (n <=? 55)%nat then 1 else S (length (int64_to_minimal_bytes (N.of_nat n))).

Lemma encode_bytes_len_le p il : (length (encode_bytes p il) <= hdr_len (length p) + length p)%nat.
Proof.
  unfold encode_bytes, hdr_len.
  destruct p as [|b [|c t]]; destruct il; cbn [length Nat.leb];
  repeat match goal with |- context [if ?c then _ else _] => destruct c end;
  cbn [length]; rewrite ?app_length; cbn [length]; lia.
Qed.

Lemma hdr_len_le n lb : (length lb <= 8)%nat -> (1 <= length lb)%nat -> of_be lb = N.of_nat n ->
  (hdr_len n <= 1 + length lb)%nat.
Proof.
  intros H8 H1 E. unfold hdr_len. destruct (n <=? 55)%nat; [lia|].
  assert (N.of_nat n < 2 ^ 64)%N as Hb.
  { pose proof (of_be_lt lb) as H. rewrite E in H.
    assert (256 ^ N.of_nat (length lb) <= 256 ^ 8)%N by (apply N.pow_le_mono_r; lia).
    change (256 ^ 8)%N with (2 ^ 64)%N in *. lia. }
  pose proof (head_nz_shortest (int64_to_minimal_bytes (N.of_nat n)) lb (be_min_head _)) as Hs.
  rewrite of_be_min in Hs by exact Hb. specialize (Hs (eq_sym E)). lia.
Qed.

Lemma hdr_len_short n : (n <= 55)%nat -> hdr_len n = 1%nat.
Proof. intros H. unfold hdr_len. replace (n <=? 55)%nat with true by (symmetry; apply Nat.leb_le; lia). reflexivity. Qed.

Lemma hdr_len_pos n : (1 <= hdr_len n)%nat.
Proof. unfold hdr_len. destruct (n <=? 55)%nat; lia. Qed.

Lemma hdr_len_mono m n : (m <= n)%nat -> (N.of_nat n < 2 ^ 64)%N -> (hdr_len m <= hdr_len n)%nat.
Proof.
  intros H Hb. unfold hdr_len.
  destruct (Nat.leb_spec m 55), (Nat.leb_spec n 55); try lia.
  apply le_n_S. apply head_nz_shortest_le; [apply be_min_head|].
  rewrite !of_be_min by lia. lia.
Qed.

Definition good (fuel : nat) (rest : bytes) (acc : list item) (pos : nat) (r : res (list item * nat)) : Prop :=
  match r with
  | Panic => False
  | Err e => (length rest < fuel)%nat -> e <> EOutOfFuel
  | Ok (l, p) => exists items, l = rev acc ++ items /\ forallb size_ok items = true /\
                   (pos + length (enc_l items) <= p)%nat /\ (p <= pos + length rest)%nat
  end.

Lemma good_bind_cont fuel rest acc pos fuel' rest' x c r :
  good fuel' rest' (x :: acc) (pos + c) r ->
  size_ok x = true -> (length (encode x) <= c)%nat -> (c + length rest' <= length rest)%nat ->
  (length rest < fuel -> length rest' < fuel')%nat ->
  good fuel rest acc pos r.
Proof.
  intros G Hx Hc Hr Hf. destruct r as [[l p]|e|]; simpl in *; auto.
  destruct G as [items [E [Hs [H1 H2]]]].
  exists (x :: items). rewrite <- app_assoc in E. cbn [app] in E.
  split; [exact E|]. split; [cbn [forallb]; rewrite Hx, Hs; reflexivity|].
  unfold enc_l in *. cbn [flat_map]. rewrite app_length. lia.
Qed.

(* string element of n bytes whose header occupied h bytes *)
Lemma good_str f rest limit acc pos rest' d h :
  (forall rest limit acc pos, good f rest acc pos (decode_items f rest limit acc pos)) ->
  (N.of_nat (length d) <= maxInt32)%N -> (hdr_len (length d) <= h)%nat ->
  (h + length d + length rest' <= length rest)%nat -> (1 <= h)%nat ->
  good (S f) rest acc pos (decode_items f rest' limit (Str d :: acc) (pos + (h + length d))).
Proof.
  intros IH Hmax Hh Hr H1.
  eapply good_bind_cont with (c := (h + length d)%nat) (x := Str d).
  - apply IH.
  - cbn [size_ok]. apply N.leb_le. exact Hmax.
  - cbn [encode]. pose proof (encode_bytes_len_le d false). lia.
  - lia.
  - lia.
Qed.

Lemma good_lst f rest limit acc pos rest' payload h :
  (forall rest limit acc pos, good f rest acc pos (decode_items f rest limit acc pos)) ->
  (N.of_nat (length payload) <= maxInt32)%N -> (hdr_len (length payload) <= h)%nat ->
  (h + length payload + length rest' <= length rest)%nat -> (1 <= h)%nat ->
  good (S f) rest acc pos
    (do (child, _) <- decode_items f payload None [] 0;
     decode_items f rest' limit (Lst child :: acc) (pos + (h + length payload))).
Proof.
  intros IH Hmax Hh Hr H1.
  pose proof (IH payload None [] 0%nat) as Gc.
  destruct (decode_items f payload None [] 0) as [[child pc]|e|]; cbn [bind].
  - destruct Gc as [items [Ei [Hsi [Hc1 Hc2]]]]. cbn [rev app] in Ei. subst items.
    unfold enc_l in *.
    eapply good_bind_cont with (c := (h + length payload)%nat) (x := Lst child).
    + apply IH.
    + cbn [size_ok]. rewrite Hsi. cbn [andb]. apply N.leb_le. lia.
    + cbn [encode]. pose proof (encode_bytes_len_le (flat_map encode child) true).
      pose proof (hdr_len_mono (length (flat_map encode child)) (length payload) ltac:(lia)
                    ltac:(unfold maxInt32 in *; lia)). lia.
    + lia.
    + lia.
  - simpl in *. intros Hf. apply Gc. lia.
  - exact Gc.
Qed.

Lemma decode_items_good : forall fuel rest limit acc pos,
  good fuel rest acc pos (decode_items fuel rest limit acc pos).
Proof.
  induction fuel as [|f IH]; intros rest limit acc pos.
  - simpl. intros H; lia.
  - destruct rest as [|pb rest1].
    { simpl. exists []. rewrite app_nil_r. simpl. repeat split; auto; lia. }
    assert (limit = Some 0%nat \/ lim_open limit) as [->|Hlim].
    { destruct limit as [[|k]|]; [left; reflexivity| right; discriminate | right; discriminate]. }
    { simpl. exists []. rewrite app_nil_r. simpl. repeat split; auto; lia. }
    rewrite decode_step_unfold by exact Hlim. cbv zeta.
    pose proof (b2n_lt pb) as Hpb.
    unfold shortString, longString, shortList, longList.
    destruct (N.ltb_spec (b2n pb) 128) as [C1|C1].
    { (* single byte *)
      replace (S pos) with (pos + 1)%nat by lia.
      eapply good_bind_cont with (c := 1%nat) (x := Str [pb]).
      - apply IH.
      - reflexivity.
      - cbn [encode]. unfold encode_bytes. destruct (N.leb_spec (b2n pb) 127); cbn [length]; lia.
      - cbn [length]; lia.
      - cbn [length]; lia. }
    destruct (N.eqb_spec (b2n pb) 128) as [C2|C2].
    { replace (S pos) with (pos + (1 + length (@nil byte)))%nat by (cbn; lia).
      apply good_str; auto; cbn [length]; unfold maxInt32; try lia; try (rewrite hdr_len_short; lia). }
    destruct (N.leb_spec (b2n pb) 183) as [C3|C3].
    { (* short string *)
      set (n := N.to_nat (b2n pb - 128)).
      destruct (Nat.ltb_spec (length rest1) n) as [Hn|Hn]; [simpl; intros _; discriminate|].
      destruct (slice_not_panic rest1 0 n) as [d [Ed Hd]]; [lia|lia|]. rewrite Ed. cbn [bind].
      rewrite Nat.sub_0_r in Hd.
      replace (S pos + n)%nat with (pos + (1 + length d))%nat by lia.
      apply good_str; auto; cbn [length]; unfold maxInt32; rewrite ?skipn_length; try lia; try (rewrite hdr_len_short; lia). }
    destruct (N.ltb_spec (b2n pb) 192) as [C4|C4].
    { (* long string *)
      pose proof (extract_long_inv 183 (b2n pb) (pb :: rest1) ltac:(lia) ltac:(lia)) as HX.
      destruct (extract_long_len 183 (b2n pb) (pb :: rest1)) as [[n rest2]|e|]; cbn [bind];
        [ | simpl; intros _; exact HX | exact HX ].
      cbv zeta in HX. set (lol := N.to_nat (b2n pb - 183)) in *.
      destruct HX as [Hl [-> [Hdl [Hmax [lb [Hlb Eo]]]]]].
      destruct (slice_not_panic (skipn (1 + lol) (pb :: rest1)) 0 n) as [d [Ed Hd]]; [lia|lia|].
      rewrite Ed. cbn [bind]. rewrite Nat.sub_0_r in Hd. rewrite skipn_length in *.
      replace (pos + (length (pb :: rest1) - (length (pb :: rest1) - (1 + lol))) + n)%nat
        with (pos + ((1 + lol) + length d))%nat by lia.
      apply good_str; auto; rewrite ?skipn_length; try lia.
      rewrite Hd. rewrite <- Hlb. apply (hdr_len_le n lb); try lia; exact Eo. }
    destruct (N.leb_spec (b2n pb) 247) as [C5|C5].
    { (* short list *)
      set (n := N.to_nat (b2n pb - 192)).
      destruct (Nat.ltb_spec (length rest1) n) as [Hn|Hn]; [simpl; intros _; discriminate|].
      destruct (slice_not_panic rest1 0 n) as [d [Ed Hd]]; [lia|lia|]. rewrite Ed. cbn [bind].
      rewrite Nat.sub_0_r in Hd.
      replace (S pos + n)%nat with (pos + (1 + length d))%nat by lia.
      apply good_lst; auto; cbn [length]; unfold maxInt32; rewrite ?skipn_length; try lia; try (rewrite hdr_len_short; lia). }
    { (* long list *)
      pose proof (extract_long_inv 247 (b2n pb) (pb :: rest1) ltac:(lia) ltac:(lia)) as HX.
      destruct (extract_long_len 247 (b2n pb) (pb :: rest1)) as [[n rest2]|e|]; cbn [bind];
        [ | simpl; intros _; exact HX | exact HX ].
      cbv zeta in HX. set (lol := N.to_nat (b2n pb - 247)) in *.
      destruct HX as [Hl [-> [Hdl [Hmax [lb [Hlb Eo]]]]]].
      destruct (slice_not_panic (skipn (1 + lol) (pb :: rest1)) 0 n) as [d [Ed Hd]]; [lia|lia|].
      rewrite Ed. cbn [bind]. rewrite Nat.sub_0_r in Hd. rewrite skipn_length in *.
      replace (pos + (length (pb :: rest1) - (length (pb :: rest1) - (1 + lol))) + n)%nat
        with (pos + ((1 + lol) + length d))%nat by lia.
      apply good_lst; auto; rewrite ?skipn_length; try lia.
      rewrite Hd. rewrite <- Hlb. apply (hdr_len_le n lb); try lia; exact Eo. }
Qed.

Theorem Decode_total_in_bounds bs :
  Decode bs <> Panic /\ Decode bs <> Err EOutOfFuel /\
  (forall t p, Decode bs = Ok (Some t, p) ->
     (p <= length bs)%nat /\ size_ok t = true /\ (length (encode t) <= p)%nat).
Proof.
  unfold Decode.
  pose proof (decode_items_good (S (length bs)) bs (Some 1%nat) [] 0%nat) as G.
  destruct (decode_items (S (length bs)) bs (Some 1%nat) [] 0) as [[l p]|e|]; cbn [bind].
  - destruct G as [items [E [Hs [H1 H2]]]]. cbn [rev app] in E. subst items.
    destruct l as [|x l'].
    + repeat split; try discriminate.
    + split; [discriminate|]. split; [discriminate|].
      intros t p' H. injection H as <- <-.
      cbn [forallb] in Hs. apply andb_true_iff in Hs as [Hx _].
      unfold enc_l in H1. cbn [flat_map] in H1. rewrite app_length in H1.
      repeat split; auto; lia.
  - simpl in G. repeat split; try discriminate.
    intros H; injection H as ->. apply G; [lia|reflexivity].
  - destruct G.
Qed.

Lemma Decode_empty : Decode [] = Ok (None, 0%nat).
Proof. reflexivity. Qed.

Theorem redecode_stable bs t p : Decode bs = Ok (Some t, p) ->
  Decode (encode t) = Ok (Some t, length (encode t)).
Proof.
  intros H. destruct (Decode_total_in_bounds bs) as [_ [_ Hb]].
  destruct (Hb t p H) as [_ [Hs _]].
  pose proof (decode_encode t [] Hs) as E. rewrite app_nil_r in E. exact E.
Qed.

(* canonical encodings are prefix-free: whatever follows, the tree is determined — so any strict
   decoder and this lenient one agree on canonical input *)
Theorem canonical_prefix_free t t' rest rest' : size_ok t = true -> size_ok t' = true ->
  encode t ++ rest = encode t' ++ rest' -> t = t' /\ rest = rest'.
Proof.
  intros Hs Hs' E.
  pose proof (decode_encode t rest Hs) as D1. pose proof (decode_encode t' rest' Hs') as D2.
  rewrite E in D1. rewrite D1 in D2. injection D2 as Et El. subst t'.
  split; [reflexivity|]. eapply app_inv_head; eauto.
Qed.

(* ---------- helpers ---------- *)
Lemma WrapInt_roundtrip n : DataInt (ToData (WrapInt n)) = Some n.
Proof. unfold WrapInt, ToData, DataInt. rewrite big_bytes_BE. destruct (BE_spec n) as [E _]. rewrite E. reflexivity. Qed.

Lemma WrapInt_minimal n : head_nz (big_bytes n).
Proof. rewrite big_bytes_BE. apply BE_spec. Qed.

Lemma WrapAddress_roundtrip a : length a = 20%nat -> DataAddress (ToData (WrapAddress (Some a))) = Some a.
Proof. intros H. unfold WrapAddress, ToData, DataAddress. rewrite H. reflexivity. Qed.

Lemma WrapAddress_nil : encode (WrapAddress None) = [x80].
Proof. reflexivity. Qed.

Lemma ToData_list l : ToData (Lst l) = None /\ DataInt None = None /\ IntOrZero None = 0%N /\
  BytesNotNil None = [] /\ DataAddress None = None.
Proof. repeat split. Qed.

Lemma DataAddress_len d a : DataAddress d = Some a -> length a = 20%nat /\ d = Some a.
Proof.
  unfold DataAddress. destruct d as [b|]; [|discriminate].
  destruct (Nat.eqb_spec (length b) 20); [|discriminate]. intros H; injection H as <-. auto.
Qed.

(* size_ok implies len_ok *)
Lemma size_ok_len_ok t : size_ok t = true -> len_ok t.
Proof.
  induction t as [b|l IH] using item_ind'; cbn [size_ok len_ok]; intros H.
  - apply N.leb_le in H. unfold maxInt32 in H. lia.
  - apply andb_true_iff in H as [Hl Hp]. apply N.leb_le in Hp. unfold maxInt32 in Hp.
    split; [|lia]. clear Hp. induction IH as [|x l Hx _ IHl]; [exact I|].
    cbn [forallb] in Hl. apply andb_true_iff in Hl as [Hsx Hsl].
    split; [apply Hx; exact Hsx | apply IHl; exact Hsl].
Qed.
