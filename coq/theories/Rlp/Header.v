(* Length-only view of the RLP encoder, used by the correspondence run for payloads too large to
   materialise inside [vm_compute] (2^24 .. 2^27 bytes): what [encode_bytes] (model) and R_b / R_l
   (Yellow Paper) put in front of a payload of [n] bytes, computed from [n] alone — and the proofs
   that these header functions ARE the model / the spec: the output is header ++ payload.  So a header
   returned by the implementation for an n-byte payload that differs from [enc_header_N n] differs
   from the model's encoding of every n-byte payload. *)
From Coq Require Import List NArith Lia Bool Arith ZifyN ZifyNat ZifyBool.
From Coq Require Import Init.Byte.
From FFS Require Import Base.Res Base.Bytes Rlp.Model Rlp.Spec.
Import ListNotations.

(* model side: the bytes encodeBytes writes before the copy of inBytes, for len(inBytes) = n
   (single-byte strings < 0x80 have no header and are excluded in the lemma) *)
Definition enc_header_N (n : N) (is_list : bool) : bytes :=
  let short_off : N := if is_list then shortList else shortString in
  if (n <=? 55)%N then [n2b (short_off + n)]
  else let lb := int64_to_minimal_bytes n in
       n2b (short_off + shortToLong + N.of_nat (length lb)) :: lb.

(* spec side: (180)/(183) of the Yellow Paper without the payload *)
Definition spec_header_N (n : N) (is_list : bool) : bytes :=
  let off : N := (if is_list then 192 else 128)%N in
  if (n <? 56)%N then [n2b (off + n)%N]
  else n2b (off + 55 + len (BE n))%N :: BE n.

Lemma leb_nat_N n : (n <=? 55)%nat = (N.of_nat n <=? 55)%N.
Proof. destruct (Nat.leb_spec n 55), (N.leb_spec (N.of_nat n) 55); try reflexivity; lia. Qed.

Lemma enc_header_model (inb : bytes) (is_list : bool) :
  (length inb <> 1%nat \/ is_list = true) ->
  encode_bytes inb is_list = enc_header_N (N.of_nat (length inb)) is_list ++ inb.
Proof.
  intros H. unfold encode_bytes, enc_header_N.
  assert (G : (if (length inb <=? 55)%nat
               then n2b ((if is_list then shortList else shortString) + N.of_nat (length inb)) :: inb
               else n2b ((if is_list then shortList else shortString) + shortToLong +
                         N.of_nat (length (int64_to_minimal_bytes (N.of_nat (length inb))))) ::
                    int64_to_minimal_bytes (N.of_nat (length inb)) ++ inb) =
              (if (N.of_nat (length inb) <=? 55)%N
               then [n2b ((if is_list then shortList else shortString) + N.of_nat (length inb))]
               else n2b ((if is_list then shortList else shortString) + shortToLong +
                         N.of_nat (length (int64_to_minimal_bytes (N.of_nat (length inb))))) ::
                    int64_to_minimal_bytes (N.of_nat (length inb))) ++ inb).
  { rewrite leb_nat_N. destruct (N.of_nat (length inb) <=? 55)%N; reflexivity. }
  destruct inb as [|b [|c t]]; destruct is_list; try exact G.
  exfalso. destruct H as [H|H]; [apply H; reflexivity | discriminate].
Qed.

Lemma spec_header_str (x : bytes) : length x <> 1%nat -> R_b x = spec_header_N (len x) false ++ x.
Proof.
  intros H. unfold R_b, spec_header_N.
  destruct x as [|b [|c t]]; try (exfalso; apply H; reflexivity);
    destruct (len _ <? 56)%N; reflexivity.
Qed.

Lemma spec_header_lst (s : bytes) : R_l s = spec_header_N (len s) true ++ s.
Proof. unfold R_l, spec_header_N. destruct (len s <? 56)%N; reflexivity. Qed.

(* both views in one statement: for every payload that is not a single byte string the model output is
   header ++ payload with the header a function of the length alone, likewise the Yellow Paper *)
Theorem header_evaluator_sound :
  (forall inb il, (length inb <> 1%nat \/ il = true) ->
      encode_bytes inb il = enc_header_N (N.of_nat (length inb)) il ++ inb) /\
  (forall x, length x <> 1%nat -> R_b x = spec_header_N (len x) false ++ x) /\
  (forall s, R_l s = spec_header_N (len s) true ++ s).
Proof. split; [exact enc_header_model|]. split; [exact spec_header_str | exact spec_header_lst]. Qed.

(* the header never exceeds 9 bytes and the total length follows *)
Lemma enc_header_total inb il : (length inb <> 1%nat \/ il = true) ->
  length (encode_bytes inb il) = (length (enc_header_N (N.of_nat (length inb)) il) + length inb)%nat.
Proof. intros H. rewrite (enc_header_model inb il H), app_length. reflexivity. Qed.
