(* Proofs about the model of pkg/ethtypes, part 6: the converse of ProofsBig.v section 1.
   Every text of the documented Int.SetString(s, 0) syntax ([go_int], EthTypes/SpecBig.v: sign, 0b/0o/0x
   prefixes in either case, leading-zero octal, '_' separators) is accepted by the model with the
   value it denotes - so the model of Int.SetString accepts EXACTLY the documented integer texts, and
   BigIntegerFromString returns their value without any limit on size. *)
From Coq Require Import List NArith ZArith Lia Bool Arith.
From Coq Require Import ZifyN ZifyNat ZifyBool.
From Coq Require Import Init.Byte.
From FFS Require Import Base.Res Base.Bytes EthTypes.Model EthTypes.Spec EthTypes.SpecBig
  EthTypes.Proofs EthTypes.ProofsInt EthTypes.ProofsNum EthTypes.ProofsBig.
Import ListNotations.
Local Open Scope N_scope.

Lemma scan_loop_digit_step b c d t prev inval count acc :
  b <= 36 -> b2n c <> c_us -> base_digit b c = Some d ->
  scan_loop true b (c :: t) false prev inval count None acc =
  scan_loop true b t false PDig inval (count + 1) None (acc * b + d).
Proof.
  intros Hb Hc Hd. destruct (base_digit_compat b Hb c d Hd) as [Hv Hlt].
  cbn [scan_loop]. rewrite andb_false_r, andb_true_r.
  replace (b2n c =? 95) with false by (unfold c_us in Hc; lia).
  rewrite Hv. replace (b <=? d) with false by lia. reflexivity.
Qed.

Lemma scan_loop_us_step b u s prev inval count acc :
  b2n u = c_us ->
  scan_loop true b (u :: s) false prev inval count None acc =
  scan_loop true b s false PSep (inval || negb (is_dig prev)) count None acc.
Proof. unfold c_us. intros H. cbn [scan_loop]. rewrite H. reflexivity. Qed.

Lemma scan_loop_unsep b : b <= 36 ->
  forall a s ds, unsep a s ds ->
  forall prev inval count acc v,
    digits_val b (base_digit b) ds acc = Some v -> (a = true -> prev = PDig) ->
    scan_loop true b s false prev inval count None acc =
    mkLoop [] (if is_nil ds then prev else PDig) inval (count + N.of_nat (length ds)) None v.
Proof.
  intros Hb a s ds H. induction H as [a|a c t ds Hc Hu IH|u c t ds Hu0 Hc Hu IH]; intros prev inval count acc v Hv Ha.
  - cbn in Hv. injection Hv as <-. cbn [scan_loop is_nil length]. f_equal. lia.
  - cbn [digits_val] in Hv. destruct (base_digit b c) as [d|] eqn:Ed; [|discriminate].
    rewrite (scan_loop_digit_step b c d t prev inval count acc Hb Hc Ed).
    rewrite (IH PDig inval (count + 1) (acc * b + d) v Hv (fun _ => eq_refl)).
    cbn [is_nil length]. f_equal; [destruct (is_nil ds); reflexivity|lia].
  - cbn [digits_val] in Hv. destruct (base_digit b c) as [d|] eqn:Ed; [|discriminate].
    rewrite (Ha eq_refl).
    rewrite (scan_loop_us_step b u (c :: t) PDig inval count acc Hu0). cbn [is_dig negb]. rewrite orb_false_r. rewrite (scan_loop_digit_step b c d t PSep inval count acc Hb Hc Ed).
    rewrite (IH PDig inval (count + 1) (acc * b + d) v Hv (fun _ => eq_refl)).
    cbn [is_nil length]. f_equal; [destruct (is_nil ds); reflexivity|lia].
Qed.

Lemma unsep_nonempty a s ds : unsep a s ds -> ds <> [] -> s <> [].
Proof. intros H Hne. inversion H; subst; congruence. Qed.

Lemma base_digit_code b c d : base_digit b c = Some d -> d < 10 -> 48 <= b2n c <= 57.
Proof.
  unfold base_digit, any_digit.
  destruct ((48 <=? b2n c) && (b2n c <=? 57)) eqn:E1; [lia|].
  destruct ((97 <=? b2n c) && (b2n c <=? 122)) eqn:E2.
  { destruct (b2n c - 87 <? b); [|discriminate]. intros [= <-]. lia. }
  destruct ((65 <=? b2n c) && (b2n c <=? 90)) eqn:E3; [|discriminate].
  destruct (b2n c - 55 <? b); [|discriminate]. intros [= <-]. lia.
Qed.

Lemma nat_scan_go_int_mag s n : go_int_mag s n ->
  exists bs cnt, nat_scan true false s = mkScan n bs cnt [] true.
Proof.
  intros [t ds n0 Hu Hne Hz Hv|z t ds n0 Hz Hu Hne Hv|z p base t ds n0 Hz Hp Hu Hne Hv].
  - (* decimal *)
    inversion Hu as [|a c t' ds' Hc Hu' E1 E2 E3|]; subst; [congruence|].
    destruct (N.eq_dec (b2n c) 48) as [E48|N48].
    + assert (ds' = []) by (destruct ds'; [reflexivity|cbn [no_leading_zero] in Hz; rewrite E48 in Hz; discriminate]). subst ds'.
      inversion Hu'; subst. cbn [digits_val] in Hv.
      destruct (base_digit 10 c) as [d|] eqn:Ed; [|discriminate]. injection Hv as <-.
      destruct (base_digit_compat 10 ltac:(lia) c d Ed) as [Hdv _].
      assert (d = 0) by (rewrite <- Hdv, E48; reflexivity). subst d.
      unfold nat_scan, scan_prefix. rewrite E48. cbn. eexists _, _. reflexivity.
    + unfold nat_scan. rewrite scan_prefix_nonzero by exact N48.
      rewrite (scan_loop_unsep 10 ltac:(lia) false (c :: t') (c :: ds') Hu PDot false 0 0 n0 Hv ltac:(discriminate)).
      cbn [l_count l_inval l_prev l_rest l_acc l_dp is_nil is_sep orb negb length].
      replace (0 + N.of_nat (S (length ds')) =? 0) with false by lia. eexists _, _. reflexivity.
  - (* leading-zero octal *)
    destruct t as [|y u]; [exfalso; apply (unsep_nonempty true [] ds Hu Hne); reflexivity|].
    assert (Hy : b2n y = 95 \/ 48 <= b2n y <= 57).
    { inversion Hu as [|a c t' ds' Hc Hu' E1 E2 E3|u0 c t' ds' Hu0 Hc Hu' E1 E2 E3]; subst.
      - right. cbn [digits_val] in Hv. destruct (base_digit 8 y) as [d|] eqn:Ed; [|discriminate].
        destruct (base_digit_compat 8 ltac:(lia) y d Ed) as [_ Hlt]. apply (base_digit_code 8 y d Ed). lia.
      - left. exact Hu0. }
    unfold nat_scan, scan_prefix. rewrite Hz. cbn [N.eqb Pos.eqb].
    replace ((b2n y =? 98) || (b2n y =? 66)) with false by lia.
    replace ((b2n y =? 111) || (b2n y =? 79)) with false by lia.
    replace ((b2n y =? 120) || (b2n y =? 88)) with false by lia. cbn [negb].
    rewrite (scan_loop_unsep 8 ltac:(lia) true (y :: u) ds Hu PDig false 0 0 n0 Hv (fun _ => eq_refl)).
    cbn [l_count l_inval l_prev l_rest l_acc l_dp].
    replace (0 + N.of_nat (length ds) =? 0) with false by (destruct ds; [congruence|cbn [length]; lia]).
    replace (is_nil ds) with false by (destruct ds; [congruence|reflexivity]).
    cbn [is_sep orb negb]. eexists _, _. reflexivity.
  - (* 0b / 0o / 0x *)
    assert (Hpre : scan_prefix true false (z :: p :: t) = (base, 1, PDig, 0, t) /\ base <= 36).
    { unfold scan_prefix. rewrite Hz. cbn [N.eqb Pos.eqb]. unfold prefix_base in Hp.
      destruct ((b2n p =? 98) || (b2n p =? 66)); [injection Hp as <-; split; [reflexivity|lia]|].
      destruct ((b2n p =? 111) || (b2n p =? 79)); [injection Hp as <-; split; [reflexivity|lia]|].
      destruct ((b2n p =? 120) || (b2n p =? 88)); [injection Hp as <-; split; [reflexivity|lia]|discriminate]. }
    destruct Hpre as [Hpre Hb]. unfold nat_scan. rewrite Hpre.
    rewrite (scan_loop_unsep base Hb true t ds Hu PDig false 0 0 n0 Hv (fun _ => eq_refl)).
    cbn [l_count l_inval l_prev l_rest l_acc l_dp].
    replace (0 + N.of_nat (length ds) =? 0) with false by (destruct ds; [congruence|cbn [length]; lia]).
    replace (is_nil ds) with false by (destruct ds; [congruence|reflexivity]).
    cbn [is_sep orb negb]. eexists _, _. reflexivity.
Qed.

Lemma go_int_mag_head s n : go_int_mag s n -> exists c u, s = c :: u /\ 48 <= b2n c <= 57.
Proof.
  intros [t ds n0 Hu Hne Hz Hv|z t ds n0 Hz Hu Hne Hv|z p base t ds n0 Hz Hp Hu Hne Hv].
  - inversion Hu as [|a c t' ds' Hc Hu' E1 E2 E3|]; subst; [congruence|].
    exists c, t'. split; [reflexivity|]. cbn [digits_val] in Hv. destruct (base_digit 10 c) as [d|] eqn:Ed; [|discriminate].
    destruct (base_digit_compat 10 ltac:(lia) c d Ed) as [_ Hlt]. apply (base_digit_code 10 c d Ed). exact Hlt.
  - exists z, t. split; [reflexivity|lia].
  - exists z, (p :: t). split; [reflexivity|lia].
Qed.

Theorem go_int_set_string t z : go_int t z -> int_set_string0 t = Some z.
Proof.
  intros [t0 neg body n Hs Hm].
  destruct (nat_scan_go_int_mag body n Hm) as (bs & cnt & Hn).
  destruct (go_int_mag_head body n Hm) as (c & u & Hb & Hc).
  unfold int_set_string0.
  assert (Hsign : scan_sign t0 = Some (neg, body)).
  { destruct Hs as [t1|x t1 Hx|x t1 Hx].
    - subst t1. unfold scan_sign. replace (b2n c =? 45) with false by lia. replace (b2n c =? 43) with false by lia. reflexivity.
    - unfold scan_sign. replace (b2n x =? 45) with false by lia. replace (b2n x =? 43) with true by lia. reflexivity.
    - unfold scan_sign. replace (b2n x =? 45) with true by lia. reflexivity. }
  rewrite Hsign, Hn. cbn [s_ok s_rest s_val is_nil andb]. unfold signed. destruct neg; reflexivity.
Qed.

(* the model of Int.SetString(s, 0) accepts exactly the documented integer texts *)
Theorem set_string_iff t z : int_set_string0 t = Some z <-> go_int t z.
Proof. split; [apply set_string_go_int|apply go_int_set_string]. Qed.

Theorem big_from_go_int t z : go_int t z -> BigIntegerFromString t = Ok z.
Proof. intros H. unfold BigIntegerFromString. rewrite (go_int_set_string t z H). reflexivity. Qed.
