(* Proofs about the model of pkg/ethtypes, part 5: ALL texts.
   Whatever the text, if the model of BigIntegerFromString accepts it with value q then the text is
   one math/big documents (EthTypes/SpecBig.v part B: Int.SetString base-0 syntax with sign, 0b/0o/0x
   prefixes in either case, leading-zero octal and '_' separators; or a decimal floating-point text
   with an 'e' or a binary 'p' exponent) and q is the value it denotes.  So the integer types never
   return a value for a text outside that syntax and never a value other than the denoted one. *)
From Coq Require Import List NArith ZArith Lia Bool Arith.
From Coq Require Import ZifyN ZifyNat ZifyBool.
From Coq Require Import Init.Byte.
From FFS Require Import Base.Res Base.Bytes EthTypes.Model EthTypes.Spec EthTypes.SpecBig
  EthTypes.Proofs EthTypes.ProofsInt EthTypes.ProofsNum.
Import ListNotations.
Local Open Scope N_scope.

(* ---------- digit characters of any base ---------- *)
Lemma base_digit_of_digit_val b x :
  b <= 36 -> digit_val (b2n x) < b -> base_digit b x = Some (digit_val (b2n x)).
Proof.
  intros Hb. unfold base_digit, any_digit, digit_val.
  destruct ((48 <=? b2n x) && (b2n x <=? 57)) eqn:E1.
  { intros H. replace (b2n x - 48 <? b) with true by lia. reflexivity. }
  destruct ((97 <=? b2n x) && (b2n x <=? 122)) eqn:E2.
  { intros H. replace (b2n x - 87) with (b2n x - 97 + 10) by lia. replace (b2n x - 97 + 10 <? b) with true by lia. reflexivity. }
  destruct ((65 <=? b2n x) && (b2n x <=? 90)) eqn:E3.
  { intros H. replace (b2n x - 55) with (b2n x - 65 + 10) by lia. replace (b2n x - 65 + 10 <? b) with true by lia. reflexivity. }
  lia.
Qed.

Lemma base_digit_compat b : b <= 36 -> forall c d, base_digit b c = Some d -> digit_val (b2n c) = d /\ d < b.
Proof.
  intros Hb c d. unfold base_digit, any_digit, digit_val.
  destruct ((48 <=? b2n c) && (b2n c <=? 57)) eqn:E1.
  { destruct (b2n c - 48 <? b) eqn:L; [|discriminate]. intros [= <-]. lia. }
  destruct ((97 <=? b2n c) && (b2n c <=? 122)) eqn:E2.
  { destruct (b2n c - 87 <? b) eqn:L; [|discriminate]. intros [= <-]. lia. }
  destruct ((65 <=? b2n c) && (b2n c <=? 90)) eqn:E3; [|discriminate].
  destruct (b2n c - 55 <? b) eqn:L; [|discriminate]. intros [= <-]. lia.
Qed.

(* ================================================================================================
   1. Int.SetString(s, 0): accepted => a documented integer text with that value
   ================================================================================================ *)
(* what the loop state [prev] means for the text still to be read *)
Definition tail_ok (prev : prevk) (s ds : bytes) : Prop :=
  match prev with
  | PDig => unsep true s ds
  | PDot => unsep false s ds
  | PSep => s <> [] /\ unsep false s ds
  end.

Lemma unsep_weaken a s ds : unsep false s ds -> unsep a s ds.
Proof. intros H. inversion H; subst; constructor; assumption. Qed.

Lemma tail_ok_dig prev x t ds : b2n x <> c_us -> unsep true t ds -> tail_ok prev (x :: t) (x :: ds).
Proof.
  intros Hx Hu. destruct prev; cbn [tail_ok]; [| |split; [discriminate|]]; constructor; assumption.
Qed.

Lemma scan_loop_inv b : b <= 36 ->
  forall s prev inval count acc r,
    scan_loop true b s false prev inval count None acc = r ->
    l_rest r = [] -> l_inval r = false -> is_sep (l_prev r) = false ->
    exists ds, tail_ok prev s ds /\ digits_val b (base_digit b) ds acc = Some (l_acc r) /\
               l_count r = count + N.of_nat (length ds) /\ inval = false.
Proof.
  intros Hb. induction s as [|x t IH]; intros prev inval count acc r Hr Hrest Hinv Hsep.
  - cbn [scan_loop] in Hr. subst r. cbn [l_rest l_inval l_prev l_acc l_count] in *.
    exists []. split; [|split; [reflexivity|split; [cbn [length]; lia|exact Hinv]]].
    destruct prev; cbn [tail_ok]; [constructor|constructor|cbn in Hsep; discriminate Hsep].
  - cbn [scan_loop] in Hr. rewrite andb_false_r in Hr. rewrite andb_true_r in Hr.
    destruct (b2n x =? 95) eqn:E95.
    + (* '_' *)
      destruct (IH PSep (inval || negb (is_dig prev)) count acc r Hr Hrest Hinv Hsep) as (ds & [Hne Hu] & Hv & Hc & Hi).
      apply orb_false_iff in Hi. destruct Hi as [Hi Hp]. destruct prev; try discriminate.
      exists ds. split; [|split; [exact Hv|split; [exact Hc|exact Hi]]].
      cbn [tail_ok]. inversion Hu; subst; [congruence|].
      apply unsep_us; [apply N.eqb_eq; exact E95|assumption|assumption].
    + destruct (b <=? digit_val (b2n x)) eqn:Ed.
      * subst r. cbn [l_rest] in Hrest. discriminate.
      * destruct (IH PDig inval (count + 1) (acc * b + digit_val (b2n x)) r Hr Hrest Hinv Hsep) as (ds & Hu & Hv & Hc & Hi).
        exists (x :: ds). split; [|split; [|split; [cbn [length]; lia|exact Hi]]].
        -- apply tail_ok_dig; [unfold c_us; apply N.eqb_neq; exact E95|exact Hu].
        -- cbn [digits_val]. rewrite (base_digit_of_digit_val b x Hb) by lia. exact Hv.
Qed.

Lemma unsep_nil_inv a s : unsep a s [] -> s = [].
Proof. intros H. inversion H. reflexivity. Qed.

Lemma nat_scan_int_inv s r :
  nat_scan true false s = r -> s_ok r = true -> s_rest r = [] -> go_int_mag s (s_val r).
Proof.
  unfold nat_scan. destruct (scan_prefix true false s) as [[[[b prefix] prev] count] s'] eqn:Ep.
  set (lr := scan_loop true b s' false prev false count None 0).
  assert (Hfin : forall r0, (if l_count lr =? 0
            then if prefix =? 2 then mkScan 0 10 1 (l_rest lr) (negb (l_inval lr || is_sep (l_prev lr)))
                 else mkScan 0 b 0 (l_rest lr) false
            else mkScan (l_acc lr) b (match l_dp lr with Some d => Z.of_N d - Z.of_N (l_count lr) | None => Z.of_N (l_count lr) end)%Z
                        (l_rest lr) (negb (l_inval lr || is_sep (l_prev lr)))) = r0 ->
            s_ok r0 = true -> s_rest r0 = [] ->
            l_rest lr = [] /\ l_inval lr = false /\ is_sep (l_prev lr) = false /\
            ((l_count lr = 0 /\ prefix = 2 /\ s_val r0 = 0) \/ (l_count lr <> 0 /\ s_val r0 = l_acc lr))).
  { intros r0 H0 Hok Hre. destruct (l_count lr =? 0) eqn:Ec.
    - destruct (prefix =? 2) eqn:E2; subst r0; cbn [s_ok s_rest s_val] in *; [|discriminate].
      apply negb_true_iff, orb_false_iff in Hok. destruct Hok. repeat split; try assumption. left. lia.
    - subst r0. cbn [s_ok s_rest s_val] in *.
      apply negb_true_iff, orb_false_iff in Hok. destruct Hok. repeat split; try assumption. right. lia. }
  intros Hr Hok Hre. destruct (Hfin r Hr Hok Hre) as (H1 & H2 & H3 & Hcase). clear Hfin Hr.
  unfold scan_prefix in Ep.
  destruct s as [|x t].
  { (* empty text: no digits *)
    injection Ep as <- <- <- <- <-. exfalso. subst lr. cbn in Hcase. destruct Hcase as [(_ & ? & _)|(? & _)]; lia. }
  destruct (b2n x =? 48) eqn:E48.
  2:{ (* decimal, first digit not 0 *)
    injection Ep as <- <- <- <- <-.
    destruct (scan_loop_inv 10 ltac:(lia) (x :: t) PDot false 0 0 lr eq_refl H1 H2 H3) as (ds & Hu & Hv & Hc & _).
    cbn [tail_ok] in Hu. destruct Hcase as [(_ & ? & _)|(Hc0 & ->)]; [lia|].
    apply (gim_dec (x :: t) ds (l_acc lr) Hu); [intros ->; cbn [length] in Hc; lia| |exact Hv].
    inversion Hu; subst. apply N.eqb_neq in E48. destruct ds0; [reflexivity|]. cbn [no_leading_zero].
    apply negb_true_iff. apply N.eqb_neq. exact E48. }
  apply N.eqb_eq in E48.
  destruct t as [|y u].
  { (* "0" *)
    injection Ep as <- <- <- <- <-. subst lr. cbn in Hcase. destruct Hcase as [(? & _)|(_ & ->)]; [lia|].
    apply (gim_dec [x] [x] 0).
    - constructor; [unfold c_us; lia|constructor].
    - discriminate.
    - reflexivity.
    - cbn [digits_val]. unfold base_digit, any_digit. rewrite E48. reflexivity. }
  assert (Hpre : forall base, b = base -> prev = PDig -> count = 0 -> s' = u -> prefix = 1 -> base <= 36 ->
            prefix_base y = Some base -> go_int_mag (x :: y :: u) (s_val r)).
  { intros base -> -> -> -> -> Hb Hpb.
    destruct (scan_loop_inv base Hb u PDig false 0 0 lr eq_refl H1 H2 H3) as (ds & Hu & Hv & Hc & _).
    cbn [tail_ok] in Hu. destruct Hcase as [(_ & ? & _)|(Hc0 & ->)]; [lia|].
    apply (gim_prefix x y base u ds (l_acc lr) E48 Hpb Hu); [intros ->; cbn [length] in Hc; lia|exact Hv]. }
  unfold prefix_base in Hpre.
  destruct ((b2n y =? 98) || (b2n y =? 66)) eqn:Eb.
  { injection Ep as <- <- <- <- <-. apply (Hpre 2); try reflexivity. lia. }
  destruct ((b2n y =? 111) || (b2n y =? 79)) eqn:Eo.
  { injection Ep as <- <- <- <- <-. apply (Hpre 8); try reflexivity. lia. }
  destruct ((b2n y =? 120) || (b2n y =? 88)) eqn:Ex.
  { injection Ep as <- <- <- <- <-. apply (Hpre 16); try reflexivity. lia. }
  (* "0" + octal digits *)
  cbn [negb] in Ep. injection Ep as <- <- <- <- <-. clear Hpre.
  destruct (scan_loop_inv 8 ltac:(lia) (y :: u) PDig false 0 0 lr eq_refl H1 H2 H3) as (ds & Hu & Hv & Hc & _).
  cbn [tail_ok] in Hu. destruct Hcase as [(Hc0 & _ & _)|(Hc0 & ->)].
  - exfalso. assert (ds = []) by (destruct ds; [reflexivity|cbn [length] in Hc; lia]). subst ds.
    apply unsep_nil_inv in Hu. discriminate.
  - apply (gim_oct x (y :: u) ds (l_acc lr) E48 Hu); [intros ->; cbn [length] in Hc; lia|exact Hv].
Qed.

Theorem set_string_go_int t z : int_set_string0 t = Some z -> go_int t z.
Proof.
  unfold int_set_string0. destruct (scan_sign t) as [[neg s1]|] eqn:Es; [|discriminate].
  destruct (s_ok (nat_scan true false s1) && is_nil (s_rest (nat_scan true false s1))) eqn:E; [|discriminate].
  apply andb_true_iff in E. destruct E as [E1 E2].
  assert (Hre : s_rest (nat_scan true false s1) = []) by (destruct (s_rest (nat_scan true false s1)); [reflexivity|discriminate]).
  pose proof (nat_scan_int_inv s1 _ eq_refl E1 Hre) as Hm.
  intros [= <-].
  assert (Hs : go_sign t neg s1).
  { unfold scan_sign in Es. destruct t as [|x t']; [discriminate|].
    destruct (b2n x =? 45) eqn:E45; [injection Es as <- <-; apply gs_minus; apply N.eqb_eq; exact E45|].
    destruct (b2n x =? 43) eqn:E43; injection Es as <- <-; [apply gs_plus; apply N.eqb_eq; exact E43|apply gs_none]. }
  exact (gi t neg s1 _ Hs Hm).
Qed.

(* ================================================================================================
   2. Floating-point texts: the ParseFloat gate accepts only  [sign] digits [. digits] [exponent]
   ================================================================================================ *)
Definition fracpart (fr : option bytes) : bytes := match fr with None => [] | Some d => ch 46 :: d end.
Definition fdig (fr : option bytes) : bytes := match fr with None => [] | Some d => d end.
Definition exppart (ex : option (byte * N * bytes)) : bytes :=
  match ex with None => [] | Some (c, sg, d) => c :: sign_chars sg ++ d end.

Lemma fnum_text_eq f : fnum_text f = sign_chars (f_sign f) ++ f_int f ++ fracpart (f_frac f) ++ exppart (f_exp f).
Proof. unfold fnum_text, fracpart, exppart. destruct (f_exp f) as [[[c sg] d]|]; reflexivity. Qed.

Lemma take_digits_spec s : forall d r, take_digits s = (d, r) ->
  s = d ++ r /\ all_dec d = true /\ match r with [] => True | c :: _ => dec_val c = None end.
Proof.
  induction s as [|c t IH]; intros d r H.
  - cbn in H. injection H as <- <-. split; [reflexivity|split; [reflexivity|exact I]].
  - cbn [take_digits] in H. destruct (dec_val c) eqn:Ec.
    + destruct (take_digits t) as [d' r'] eqn:Et. injection H as <- <-.
      destruct (IH d' r' eq_refl) as (-> & Hd & Hr).
      split; [reflexivity|split; [|exact Hr]]. unfold all_dec. cbn [forallb]. rewrite Ec. exact Hd.
    + injection H as <- <-. split; [reflexivity|split; [reflexivity|exact Ec]].
Qed.

Lemma dec_none_digit_val c : dec_val c = None -> 10 <= digit_val (b2n c).
Proof.
  unfold dec_val, digit_val. destruct ((48 <=? b2n c) && (b2n c <=? 57)); [discriminate|]. intros _.
  destruct ((97 <=? b2n c) && (b2n c <=? 122)); [lia|]. destruct ((65 <=? b2n c) && (b2n c <=? 90)); lia.
Qed.

(* the character that ends the mantissa in the given mode *)
Definition stops (base0 fracOk : bool) (rest : bytes) : Prop :=
  match rest with
  | [] => True
  | c :: _ => dec_val c = None /\ (fracOk = true -> b2n c <> 46) /\ (base0 = true -> b2n c <> 95)
  end.

Lemma loop_stop base0 fracOk rest prev inval count dp acc :
  stops base0 fracOk rest ->
  scan_loop base0 10 rest fracOk prev inval count dp acc = mkLoop rest prev inval count dp acc.
Proof.
  destruct rest as [|c t]; [reflexivity|]. intros (Hd & Hf & Hb). cbn [scan_loop].
  assert (E1 : (b2n c =? 46) && fracOk = false).
  { destruct fracOk; [|apply andb_false_r]. rewrite andb_true_r. apply N.eqb_neq. auto. }
  assert (E2 : (b2n c =? 95) && base0 = false).
  { destruct base0; [|apply andb_false_r]. rewrite andb_true_r. apply N.eqb_neq. auto. }
  rewrite E1, E2. pose proof (dec_none_digit_val c Hd).
  replace (10 <=? digit_val (b2n c)) with true by lia. reflexivity.
Qed.

Lemma loop_float base0 ip fr rest prev count acc :
  all_dec ip = true -> all_dec (fdig fr) = true ->
  stops base0 (match fr with None => true | Some _ => false end) rest -> is_sep prev = false ->
  exists prev',
    scan_loop base0 10 (ip ++ fracpart fr ++ rest) true prev false count None acc =
    mkLoop rest prev' false (count + N.of_nat (length ip) + N.of_nat (length (fdig fr)))
           (match fr with None => None | Some _ => Some (count + N.of_nat (length ip)) end)
           (dec_fold (ip ++ fdig fr) acc) /\ is_sep prev' = false.
Proof.
  intros Hi Hf Hs Hp.
  rewrite (scan_loop_digits base0 10 dec_val ltac:(lia) dec_compat ip (fracpart fr ++ rest) true prev false count None acc _
             (all_dec_digits_val ip acc Hi)).
  set (prev1 := if is_nil ip then prev else PDig).
  assert (Hp1 : is_sep prev1 = false) by (unfold prev1; destruct (is_nil ip); [exact Hp|reflexivity]).
  rewrite dec_fold_app.
  destruct fr as [fp|]; cbn [fracpart fdig app] in *.
  - cbn [scan_loop]. rewrite (b2n_ch 46) by lia. cbn [N.eqb Pos.eqb andb]. rewrite Hp1. cbn [orb].
    rewrite (scan_loop_digits base0 10 dec_val ltac:(lia) dec_compat fp rest false PDot false _ _ _ _
               (all_dec_digits_val fp _ Hf)).
    rewrite loop_stop by exact Hs.
    exists (if is_nil fp then PDot else PDig). split; [reflexivity|destruct (is_nil fp); reflexivity].
  - rewrite loop_stop by exact Hs. exists prev1. split; [|exact Hp1].
    cbn [length dec_fold fold_left]. f_equal. lia.
Qed.

Definition float_scanres (ip : bytes) (fr : option bytes) (rest : bytes) : scanres :=
  if (N.of_nat (length ip) + N.of_nat (length (fdig fr)) =? 0) then mkScan 0 10 0 rest false
  else mkScan (dec_fold (ip ++ fdig fr) 0) 10
              (match fr with Some fp => - Z.of_nat (length fp) | None => Z.of_nat (length ip) end)%Z rest true.

Lemma nat_scan_after_prefix base0 s ip fr rest prev count :
  all_dec ip = true -> all_dec (fdig fr) = true ->
  stops base0 (match fr with None => true | Some _ => false end) rest -> is_sep prev = false ->
  scan_prefix base0 true s = (10, 0, prev, count, ip ++ fracpart fr ++ rest) ->
  nat_scan base0 true s =
  if (count + N.of_nat (length ip) + N.of_nat (length (fdig fr)) =? 0) then mkScan 0 10 0 rest false
  else mkScan (dec_fold (ip ++ fdig fr) 0) 10
              (match fr with Some _ => - Z.of_nat (length (fdig fr)) | None => Z.of_N count + Z.of_nat (length ip) end)%Z rest true.
Proof.
  intros Hi Hf Hs Hp Hpre. unfold nat_scan. rewrite Hpre.
  destruct (loop_float base0 ip fr rest prev count 0 Hi Hf Hs Hp) as (prev' & -> & Hp').
  cbn [l_count l_inval l_prev l_rest l_acc l_dp]. rewrite Hp'. cbn [orb negb].
  destruct (count + N.of_nat (length ip) + N.of_nat (length (fdig fr)) =? 0) eqn:E0; [reflexivity|].
  f_equal. destruct fr; cbn [fdig length]; lia.
Qed.

Lemma nat_scan_float10 ip fr rest :
  all_dec ip = true -> all_dec (fdig fr) = true ->
  stops false (match fr with None => true | Some _ => false end) rest ->
  nat_scan false true (ip ++ fracpart fr ++ rest) = float_scanres ip fr rest.
Proof.
  intros Hi Hf Hs.
  rewrite (nat_scan_after_prefix false _ ip fr rest PDot 0 Hi Hf Hs eq_refl eq_refl).
  unfold float_scanres. rewrite N.add_0_l. destruct (_ =? 0); [reflexivity|].
  f_equal. destruct fr; cbn [fdig]; lia.
Qed.

(* ---------- exponent letters ---------- *)
Lemma exp_letter_code c b : exp_letter c = Some b ->
  (b = 10 /\ (b2n c = 101 \/ b2n c = 69)) \/ (b = 2 /\ (b2n c = 112 \/ b2n c = 80)).
Proof.
  unfold exp_letter. destruct ((b2n c =? 101) || (b2n c =? 69)) eqn:E1; [intros [= <-]; left; lia|].
  destruct ((b2n c =? 112) || (b2n c =? 80)) eqn:E2; [intros [= <-]; right; lia|discriminate].
Qed.

Definition exp_head (rest : bytes) : Prop :=
  match rest with [] => True | c :: _ => exists b, exp_letter c = Some b end.

Lemma exp_head_codes c t : exp_head (c :: t) -> b2n c = 101 \/ b2n c = 69 \/ b2n c = 112 \/ b2n c = 80.
Proof. intros [b Hb]. apply exp_letter_code in Hb. lia. Qed.

Lemma exp_head_stops base0 fracOk rest : exp_head rest -> stops base0 fracOk rest.
Proof.
  destruct rest as [|c t]; [exact (fun _ => I)|]. intros H. apply exp_head_codes in H. cbn [stops].
  split; [|split; intros _; lia]. unfold dec_val. replace ((48 <=? b2n c) && (b2n c <=? 57)) with false by lia. reflexivity.
Qed.

Lemma exppart_head ex : (forall c sg d, ex = Some (c, sg, d) -> exists b, exp_letter c = Some b) -> exp_head (exppart ex).
Proof. destruct ex as [[[c sg] d]|]; [|exact (fun _ => I)]. intros H. cbn [exppart exp_head]. eapply H. reflexivity. Qed.

(* the mantissa in base-0 mode (Rat.SetString): same result, a leading 0 is a decimal digit *)
Lemma nat_scan_float0 ip fr rest :
  all_dec ip = true -> all_dec (fdig fr) = true -> exp_head rest ->
  nat_scan true true (ip ++ fracpart fr ++ rest) = float_scanres ip fr rest.
Proof.
  intros Hi Hf Hh.
  pose proof (exp_head_stops true (match fr with None => true | Some _ => false end) rest Hh) as Hs.
  assert (Hgen : scan_prefix true true (ip ++ fracpart fr ++ rest) = (10, 0, PDot, 0, ip ++ fracpart fr ++ rest) ->
                 nat_scan true true (ip ++ fracpart fr ++ rest) = float_scanres ip fr rest).
  { intros Hpre. rewrite (nat_scan_after_prefix true _ ip fr rest PDot 0 Hi Hf Hs eq_refl Hpre).
    unfold float_scanres. rewrite N.add_0_l. destruct (_ =? 0); [reflexivity|]. f_equal. destruct fr; cbn [fdig]; lia. }
  destruct ip as [|c ip'].
  - apply Hgen. cbn [app]. destruct fr as [fp|]; cbn [fracpart app].
    + apply scan_prefix_nonzero. rewrite b2n_ch; lia.
    + destruct rest as [|x r]; [reflexivity|]. apply scan_prefix_nonzero. apply exp_head_codes in Hh. lia.
  - destruct (N.eq_dec (b2n c) 48) as [E48|N48]; [|apply Hgen; apply scan_prefix_nonzero; exact N48].
    apply all_dec_cons in Hi. destruct Hi as [_ Hi'].
    assert (Hpre : scan_prefix true true ((c :: ip') ++ fracpart fr ++ rest) = (10, 0, PDig, 1, ip' ++ fracpart fr ++ rest)).
    { cbn [app]. unfold scan_prefix. rewrite E48. cbn [N.eqb Pos.eqb].
      destruct (ip' ++ fracpart fr ++ rest) as [|y u] eqn:Et; [reflexivity|].
      assert (Hy : (48 <= b2n y <= 57) \/ b2n y = 46 \/ b2n y = 101 \/ b2n y = 69 \/ b2n y = 112 \/ b2n y = 80).
      { destruct ip' as [|c2 r2].
        - cbn [app] in Et. destruct fr as [fp|]; cbn [fracpart app] in Et.
          + injection Et as <- _. right. left. apply b2n_ch. lia.
          + subst rest. apply exp_head_codes in Hh. lia.
        - cbn [app] in Et. injection Et as <- _. apply all_dec_cons in Hi'. destruct Hi' as [(d & _ & _ & Hc2) _]. left. exact Hc2. }
      replace ((b2n y =? 98) || (b2n y =? 66)) with false by lia.
      replace ((b2n y =? 111) || (b2n y =? 79)) with false by lia.
      replace ((b2n y =? 120) || (b2n y =? 88)) with false by lia. reflexivity. }
    rewrite (nat_scan_after_prefix true _ ip' fr rest PDig 1 Hi' Hf Hs eq_refl Hpre).
    unfold float_scanres. cbn [length].
    replace (1 + N.of_nat (length ip') + N.of_nat (length (fdig fr)) =? 0) with false by lia.
    replace (N.of_nat (S (length ip')) + N.of_nat (length (fdig fr)) =? 0) with false by lia.
    f_equal.
    + cbn [app]. change (dec_fold (c :: ip' ++ fdig fr) 0) with (dec_fold (ip' ++ fdig fr) (0 * 10 + (b2n c - 48))).
      rewrite E48. reflexivity.
    + destruct fr; cbn [fdig]; lia.
Qed.

(* ---------- the exponent ---------- *)
Definition written (sg : N) (d : bytes) : Z := signed (sg =? 2) (dec_fold d 0).

Lemma sign_split sg d : sg <= 2 -> all_dec d = true -> d <> [] ->
  (match sign_chars sg ++ d with
   | y :: u => if b2n y =? 43 then (false, u) else if b2n y =? 45 then (true, u) else (false, sign_chars sg ++ d)
   | [] => (false, [])
   end) = ((sg =? 2), d).
Proof.
  intros Hsg Hd Hne. unfold sign_chars. assert (sg = 0 \/ sg = 1 \/ sg = 2) as [->|[->| ->]] by lia; cbn [N.eqb Pos.eqb app].
  - destruct d as [|y u]; [congruence|]. apply all_dec_cons in Hd. destruct Hd as [(? & _ & _ & Hy) _].
    replace (b2n y =? 43) with false by lia. replace (b2n y =? 45) with false by lia. reflexivity.
  - rewrite (b2n_ch 43) by lia. reflexivity.
  - rewrite (b2n_ch 45) by lia. reflexivity.
Qed.

Lemma scan_exponent_fwd sepOk c sg d base :
  exp_letter c = Some base -> sg <= 2 -> all_dec d = true -> d <> [] ->
  scan_exponent true sepOk (c :: sign_chars sg ++ d) =
  if in64 (written sg d) then mkExp (written sg d) base [] true else mkExp 0 base [] false.
Proof.
  intros Hc Hsg Hd Hne. cbn [scan_exponent]. rewrite andb_true_r.
  change (if (b2n c =? 101) || (b2n c =? 69) then Some 10 else if (b2n c =? 112) || (b2n c =? 80) then Some 2 else None)
    with (exp_letter c). rewrite Hc.
  rewrite (sign_split sg d Hsg Hd Hne). rewrite exp_loop_digits by exact Hd.
  cbn [el_has el_acc el_rest el_inval el_prev orb].
  replace (is_nil d) with false by (destruct d; [congruence|reflexivity]). cbn [negb is_sep orb].
  unfold written, signed, in64.
  destruct (sg =? 2); destruct ((minInt64 <=? _) && (_ <=? maxInt64))%Z; reflexivity.
Qed.

Lemma exp_loop_app d r3 : forall prev inval has acc,
  all_dec d = true -> (match r3 with [] => True | c :: _ => dec_val c = None end) ->
  exp_loop false (d ++ r3) prev inval has acc =
  mkELoop r3 (if is_nil d then prev else PDig) inval (has || negb (is_nil d)) (dec_fold d acc).
Proof.
  induction d as [|c d IH]; intros prev inval has acc Hd Hr.
  - cbn [app is_nil negb dec_fold fold_left]. rewrite orb_false_r. destruct r3 as [|x r]; [reflexivity|].
    cbn [exp_loop]. unfold dec_val in Hr. destruct ((48 <=? b2n x) && (b2n x <=? 57)); [discriminate|].
    rewrite andb_false_r. reflexivity.
  - apply all_dec_cons in Hd. destruct Hd as [(dd & _ & _ & Hc) Hs].
    cbn [app exp_loop]. replace ((48 <=? b2n c) && (b2n c <=? 57)) with true by lia.
    rewrite IH by assumption. cbn [is_nil negb]. rewrite orb_true_r. destruct d; reflexivity.
Qed.

(* the gate's exponent scan succeeded and consumed everything: the rest is an exponent part *)
Lemma scan_exponent_inv r2 :
  e_ok (scan_exponent true false r2) = true -> e_rest (scan_exponent true false r2) = [] ->
  exists ex, r2 = exppart ex /\
    (forall c sg d, ex = Some (c, sg, d) -> (exists b, exp_letter c = Some b) /\ sg <= 2 /\ all_dec d = true /\ d <> []).
Proof.
  destruct r2 as [|x t].
  { intros _ _. exists None. split; [reflexivity|]. intros; discriminate. }
  cbn [scan_exponent]. rewrite andb_true_r.
  change (if (b2n x =? 101) || (b2n x =? 69) then Some 10 else if (b2n x =? 112) || (b2n x =? 80) then Some 2 else None)
    with (exp_letter x).
  destruct (exp_letter x) as [base|] eqn:El; [|cbn [e_rest]; discriminate].
  assert (Hdec : exists sg t1, sg <= 2 /\ t = sign_chars sg ++ t1 /\
            (match t with
             | y :: u => if b2n y =? 43 then (false, u) else if b2n y =? 45 then (true, u) else (false, t)
             | [] => (false, [])
             end) = ((sg =? 2), t1)).
  { destruct t as [|y u]; [exists 0, []; repeat split; lia|].
    destruct (b2n y =? 43) eqn:E43.
    - exists 1, u. split; [lia|]. split; [|reflexivity]. change (sign_chars 1 ++ u) with (ch 43 :: u). f_equal. apply b2n_inj. rewrite b2n_ch by lia. apply N.eqb_eq. exact E43.
    - destruct (b2n y =? 45) eqn:E45.
      + exists 2, u. split; [lia|]. split; [|reflexivity]. change (sign_chars 2 ++ u) with (ch 45 :: u). f_equal. apply b2n_inj. rewrite b2n_ch by lia. apply N.eqb_eq. exact E45.
      + exists 0, (y :: u). split; [lia|]. split; reflexivity. }
  destruct Hdec as (sg & t1 & Hsg & -> & ->).
  destruct (take_digits t1) as [d r3] eqn:Et. destruct (take_digits_spec t1 d r3 Et) as (-> & Hd & Hr).
  rewrite (exp_loop_app d r3 PDot false false 0 Hd Hr).
  cbn [el_has el_acc el_rest el_inval el_prev orb].
  destruct (is_nil d) eqn:En; cbn [negb]; [cbn [e_ok]; discriminate|].
  intros Hok Hrest.
  assert (r3 = []).
  { destruct ((minInt64 <=? _) && (_ <=? maxInt64))%Z in Hrest; cbn [negb] in Hrest.
    - destruct (false || is_sep PDig) in Hrest; exact Hrest.
    - exact Hrest. }
  subst r3. rewrite app_nil_r.
  exists (Some (x, sg, d)). split; [reflexivity|].
  intros c sg' d' [= <- <- <-]. split; [eauto|]. split; [exact Hsg|]. split; [exact Hd|]. intros ->. discriminate.
Qed.

(* ---------- the pieces of an accepted floating-point text ---------- *)
Definition exwf (ex : option (byte * N * bytes)) : Prop :=
  forall c sg d, ex = Some (c, sg, d) -> (exists b, exp_letter c = Some b) /\ sg <= 2 /\ all_dec d = true /\ d <> [].
Definition ex_written (ex : option (byte * N * bytes)) : Z :=
  match ex with None => 0%Z | Some (_, sg, d) => written sg d end.
Definition ex_base (ex : option (byte * N * bytes)) : N :=
  match ex with None => 10 | Some (c, _, _) => match exp_letter c with Some b => b | None => 10 end end.

Lemma scan_exponent_pieces sepOk ex : exwf ex ->
  scan_exponent true sepOk (exppart ex) =
  if in64 (ex_written ex) then mkExp (ex_written ex) (ex_base ex) [] true else mkExp 0 (ex_base ex) [] false.
Proof.
  intros W. destruct ex as [[[c sg] d]|]; [|reflexivity].
  destruct (W c sg d eq_refl) as ([b Hb] & Hsg & Hd & Hne).
  cbn [exppart ex_written ex_base]. rewrite Hb. apply scan_exponent_fwd; assumption.
Qed.

Lemma gate_inv t neg s1 :
  parse_float10_ok t = true -> is_inf_text t = false -> scan_sign t = Some (neg, s1) ->
  exists ip fr ex, s1 = ip ++ fracpart fr ++ exppart ex /\ all_dec ip = true /\ all_dec (fdig fr) = true /\
                   ip ++ fdig fr <> [] /\ exwf ex.
Proof.
  unfold parse_float10_ok. intros H Hinf Hs. rewrite Hinf, Hs in H.
  destruct (take_digits s1) as [ip r1] eqn:E1. destruct (take_digits_spec s1 ip r1 E1) as (-> & Hi & Hr1).
  assert (Hdec : exists fr r2, r1 = fracpart fr ++ r2 /\ all_dec (fdig fr) = true /\
            stops false (match fr with None => true | Some _ => false end) r2).
  { destruct r1 as [|x r1'].
    - exists None, []. split; [reflexivity|split; [reflexivity|exact I]].
    - destruct (b2n x =? 46) eqn:E46.
      + destruct (take_digits r1') as [fp r2] eqn:E2. destruct (take_digits_spec r1' fp r2 E2) as (-> & Hf & Hr2).
        exists (Some fp), r2. split; [|split; [exact Hf|]].
        * cbn [fracpart app]. f_equal. apply b2n_inj. rewrite b2n_ch by lia. apply N.eqb_eq. exact E46.
        * destruct r2 as [|y r]; [exact I|]. cbn [stops]. split; [exact Hr2|split; intros; discriminate].
      + exists None, (x :: r1'). split; [reflexivity|split; [reflexivity|]].
        cbn [stops]. split; [exact Hr1|split; [intros _; apply N.eqb_neq; exact E46|intros; discriminate]]. }
  destruct Hdec as (fr & r2 & -> & Hf & Hst).
  rewrite (nat_scan_float10 ip fr r2 Hi Hf Hst) in H. unfold float_scanres in H.
  destruct (N.of_nat (length ip) + N.of_nat (length (fdig fr)) =? 0) eqn:E0; cbn [s_ok negb s_rest s_val s_count] in H; [discriminate|].
  assert (He : e_ok (scan_exponent true false r2) = true /\ e_rest (scan_exponent true false r2) = []).
  { destruct (e_ok (scan_exponent true false r2)); cbn [negb] in H; [|discriminate]. split; [reflexivity|].
    destruct (e_rest (scan_exponent true false r2)); [reflexivity|]. cbn [is_nil] in H.
    destruct (dec_fold (ip ++ fdig fr) 0 =? 0); [discriminate|].
    match type of H with (if ?c then _ else _) = _ => destruct c end; discriminate. }
  destruct He as [He1 He2]. destruct (scan_exponent_inv r2 He1 He2) as (ex & -> & Hex).
  exists ip, fr, ex. split; [reflexivity|]. split; [exact Hi|]. split; [exact Hf|]. split; [|exact Hex].
  intros Hnil. apply (f_equal (@length byte)) in Hnil. rewrite app_length in Hnil. cbn [length] in Hnil. lia.
Qed.

(* ---------- Rat.SetString on such a text ---------- *)
Lemma powN_Z (k : N) (e : Z) : Z.of_N (if (0 <? e)%Z then k ^ Z.to_N e else 1) = (Z.of_N k ^ Z.max e 0)%Z.
Proof.
  destruct (0 <? e)%Z eqn:E.
  - rewrite N2Z.inj_pow, Z2N.id by lia. f_equal. lia.
  - replace (Z.max e 0) with 0%Z by lia. reflexivity.
Qed.

Lemma powN_Z_neg (k : N) (e : Z) : Z.of_N (if (e <? 0)%Z then k ^ Z.to_N (- e) else 1) = (Z.of_N k ^ Z.max (- e) 0)%Z.
Proof.
  destruct (e <? 0)%Z eqn:E.
  - rewrite N2Z.inj_pow, Z2N.id by lia. f_equal. lia.
  - replace (Z.max (- e) 0) with 0%Z by lia. reflexivity.
Qed.

Lemma pow_balance (A B : Z) :
  (5 ^ Z.max A 0 * 2 ^ Z.max (A + B) 0 * (10 ^ Z.max (- A) 0 * 2 ^ Z.max (- B) 0) =
   5 ^ Z.max (- A) 0 * 2 ^ Z.max (- (A + B)) 0 * (10 ^ Z.max A 0 * 2 ^ Z.max B 0))%Z.
Proof.
  change 10%Z with (5 * 2)%Z. rewrite !Z.pow_mul_l.
  transitivity (5 ^ (Z.max A 0 + Z.max (- A) 0) * 2 ^ (Z.max (A + B) 0 + Z.max (- A) 0 + Z.max (- B) 0))%Z.
  - rewrite !Z.pow_add_r by lia. ring.
  - replace (Z.max (A + B) 0 + Z.max (- A) 0 + Z.max (- B) 0)%Z
      with (Z.max (- (A + B)) 0 + Z.max A 0 + Z.max B 0)%Z by lia.
    rewrite !Z.pow_add_r by lia. ring.
Qed.

Lemma balance_pos (M p5 p2 r q5 q2 s : Z) :
  (p5 * p2 * r = q5 * q2 * s -> M * p5 * p2 * r = q5 * q2 * (M * s))%Z.
Proof. intros H. transitivity (M * (p5 * p2 * r))%Z; [ring|rewrite H; ring]. Qed.
Lemma balance_neg (M p5 p2 r q5 q2 s : Z) :
  (p5 * p2 * r = q5 * q2 * s -> - (M * p5 * p2) * r = q5 * q2 * (- M * s))%Z.
Proof. intros H. transitivity (- M * (p5 * p2 * r))%Z; [ring|rewrite H; ring]. Qed.

Lemma rat_value_eq (neg : bool) (mv : N) (A B : Z) :
  let a := (mv * (if (0 <? A)%Z then 5 ^ Z.to_N A else 1) * (if (0 <? A + B)%Z then 2 ^ Z.to_N (A + B) else 1))%N in
  let b := ((if (A <? 0)%Z then 5 ^ Z.to_N (- A) else 1) * (if (A + B <? 0)%Z then 2 ^ Z.to_N (- (A + B)) else 1))%N in
  (0 < Z.of_N b)%Z /\
  ((if neg then - Z.of_N a else Z.of_N a) * (10 ^ Z.max (- A) 0 * 2 ^ Z.max (- B) 0) =
   Z.of_N b * (signed neg mv * (10 ^ Z.max A 0 * 2 ^ Z.max B 0)))%Z.
Proof.
  cbv zeta. rewrite !N2Z.inj_mul, !powN_Z, !powN_Z_neg. change (Z.of_N 5) with 5%Z. change (Z.of_N 2) with 2%Z.
  split.
  - apply Z.mul_pos_pos; apply Z.pow_pos_nonneg; lia.
  - destruct neg; unfold signed.
    + apply balance_neg. apply pow_balance.
    + apply balance_pos. apply pow_balance.
Qed.

Lemma rat_pieces t neg ip fr ex a b :
  scan_sign t = Some (neg, ip ++ fracpart fr ++ exppart ex) -> is_nil t = false -> split_slash t = None ->
  all_dec ip = true -> all_dec (fdig fr) = true -> ip ++ fdig fr <> [] -> exwf ex ->
  rat_set_string t = Some (a, b) ->
  let m := signed neg (dec_fold (ip ++ fdig fr) 0) in
  let e10 := ((if (ex_base ex =? 10)%N then ex_written ex else 0) - Z.of_nat (length (fdig fr)))%Z in
  let e2 := (if (ex_base ex =? 2)%N then ex_written ex else 0)%Z in
  (0 < Z.of_N b)%Z /\
  (a * (10 ^ Z.max (- e10) 0 * 2 ^ Z.max (- e2) 0) = Z.of_N b * (m * (10 ^ Z.max e10 0 * 2 ^ Z.max e2 0)))%Z.
Proof.
  intros Hs Hnil Hsl Hi Hf Hne Hex. unfold rat_set_string. rewrite Hnil, Hsl, Hs.
  rewrite (nat_scan_float0 ip fr (exppart ex) Hi Hf (exppart_head ex (fun c sg d E => proj1 (Hex c sg d E)))).
  unfold float_scanres.
  assert (E0 : (N.of_nat (length ip) + N.of_nat (length (fdig fr)) =? 0) = false).
  { apply N.eqb_neq. intros E. apply Hne. destruct ip; [|cbn [length] in E; lia]. destruct (fdig fr); [reflexivity|cbn [length] in E; lia]. }
  rewrite E0. cbn [s_ok negb s_rest s_val s_count s_base].
  rewrite (scan_exponent_pieces true ex Hex).
  destruct (in64 (ex_written ex)); cbn [e_ok negb e_rest e_val e_base is_nil]; [|discriminate].
  set (mv := dec_fold (ip ++ fdig fr) 0).
  destruct (mv =? 0) eqn:Em.
  { intros [= <- <-]. cbv zeta. apply N.eqb_eq in Em. rewrite Em. split; [reflexivity|].
    unfold signed. destruct neg; cbn; reflexivity. }
  set (d := (if (match fr with Some fp => - Z.of_nat (length fp) | None => Z.of_nat (length ip) end <? 0)%Z
             then match fr with Some fp => - Z.of_nat (length fp) | None => Z.of_nat (length ip) end else 0)%Z).
  assert (Hd : d = (- Z.of_nat (length (fdig fr)))%Z).
  { unfold d. destruct fr as [fp|]; cbn [fdig length].
    - destruct (- Z.of_nat (length fp) <? 0)%Z eqn:E; lia.
    - replace (Z.of_nat (length ip) <? 0)%Z with false by lia. reflexivity. }
  cbn [N.eqb Pos.eqb]. clearbody d. subst d.
  assert (Hb : ex_base ex = 10 \/ ex_base ex = 2).
  { unfold ex_base. destruct ex as [[[c sg] dd]|]; [|left; reflexivity].
    destruct (Hex c sg dd eq_refl) as ([bb Hbb] & _). rewrite Hbb. apply exp_letter_code in Hbb. lia. }
  cbv zeta.
  destruct Hb as [Hb|Hb]; rewrite Hb; cbn [N.eqb Pos.eqb].
  - (* decimal exponent: exp5 = exp2 = e10 *)
    set (A := (- Z.of_nat (length (fdig fr)) + ex_written ex)%Z).
    replace (ex_written ex - Z.of_nat (length (fdig fr)))%Z with A by (unfold A; lia).
    destruct (Z.abs A >? 1000000)%Z; [discriminate|].
    destruct ((A <? -10000000) || (A >? 10000000))%Z; [discriminate|].
    intros [= <- <-]. pose proof (rat_value_eq neg mv A 0) as HR. cbv zeta in HR.
    rewrite Z.add_0_r in HR. exact HR.
  - (* binary exponent: exp5 = -fraction digits, exp2 = exp5 + written exponent *)
    set (A := (- Z.of_nat (length (fdig fr)))%Z).
    replace (0 - Z.of_nat (length (fdig fr)))%Z with A by (unfold A; lia).
    destruct (Z.abs A >? 1000000)%Z; [discriminate|].
    destruct ((A + ex_written ex <? -10000000) || (A + ex_written ex >? 10000000))%Z; [discriminate|].
    intros [= <- <-]. exact (rat_value_eq neg mv A (ex_written ex)).
Qed.

(* ---------- no '/' in such a text ---------- *)
Lemma no_slash_app s1 s2 : no_slash (s1 ++ s2) = no_slash s1 && no_slash s2.
Proof. unfold no_slash. apply forallb_app. Qed.

Lemma no_slash_sign sg : no_slash (sign_chars sg) = true.
Proof. unfold sign_chars. destruct (sg =? 1); [vm_compute; reflexivity|]. destruct (sg =? 2); vm_compute; reflexivity. Qed.

Lemma no_slash_pieces sg ip fr ex :
  all_dec ip = true -> all_dec (fdig fr) = true -> exwf ex ->
  no_slash (sign_chars sg ++ ip ++ fracpart fr ++ exppart ex) = true.
Proof.
  intros Hi Hf Hex. rewrite !no_slash_app, no_slash_sign, (all_dec_no_slash ip Hi). cbn [andb].
  assert (H2 : no_slash (fracpart fr) = true).
  { destruct fr as [fp|]; [|reflexivity]. cbn [fracpart fdig] in *. unfold no_slash. cbn [forallb].
    rewrite (b2n_ch 46) by lia. fold (no_slash fp). rewrite (all_dec_no_slash fp Hf). reflexivity. }
  rewrite H2. cbn [andb].
  destruct ex as [[[c sg'] d]|]; [|reflexivity].
  destruct (Hex c sg' d eq_refl) as ([b Hb] & _ & Hd & _). cbn [exppart].
  change (c :: sign_chars sg' ++ d) with ([c] ++ sign_chars sg' ++ d).
  rewrite !no_slash_app, no_slash_sign, (all_dec_no_slash d Hd).
  unfold no_slash. cbn [forallb]. apply exp_letter_code in Hb.
  replace (b2n c =? 47) with false by lia. reflexivity.
Qed.

(* ---------- "Inf" passes the gate but is no rational ---------- *)
Lemma codes_eqb_eq s : forall l, codes_eqb s l = true -> s = map n2b l.
Proof.
  induction s as [|c s IH]; destruct l as [|x l]; unfold codes_eqb; cbn [length Nat.eqb andb codes map combine forallb fst snd];
    try discriminate; [reflexivity|].
  intros H. apply andb_true_iff in H. destruct H as [Hl H]. apply andb_true_iff in H. destruct H as [Hc H].
  cbn [map]. f_equal.
  - apply N.eqb_eq in Hc. rewrite <- Hc. symmetry. apply n2b_b2n.
  - apply IH. unfold codes_eqb. rewrite Hl. exact H.
Qed.

Lemma inf_rat_none t : is_inf_text t = true -> rat_set_string t = None.
Proof.
  unfold is_inf_text. intros H.
  assert (Hbody : forall s, codes_eqb s [73; 110; 102] || codes_eqb s [105; 110; 102] = true ->
                  s = map n2b [73; 110; 102] \/ s = map n2b [105; 110; 102]).
  { intros s Hs. apply orb_true_iff in Hs. destruct Hs as [Hs|Hs]; apply codes_eqb_eq in Hs; auto. }
  apply orb_true_iff in H. destruct H as [H|H].
  - destruct (Hbody t H) as [-> | ->]; vm_compute; reflexivity.
  - destruct t as [|x t']; [discriminate|].
    apply andb_true_iff in H. destruct H as [H H3]. apply andb_true_iff in H. destruct H as [Hx _].
    assert (Hx' : x = n2b 43 \/ x = n2b 45).
    { apply orb_true_iff in Hx. destruct Hx as [Hx|Hx]; apply N.eqb_eq in Hx; [left|right]; apply b2n_inj; rewrite b2n_n2b by lia; exact Hx. }
    destruct (Hbody t' H3) as [-> | ->]; destruct Hx' as [-> | ->]; vm_compute; reflexivity.
Qed.

(* ---------- a digit string Int.SetString refuses has a leading 0 and an 8 or a 9 ---------- *)
Lemma oct_digits_val s : all_dec s = true -> has_89 s = false ->
  forall acc, exists v, digits_val 8 (base_digit 8) s acc = Some v.
Proof.
  induction s as [|c s IH]; intros Hd H89 acc; [exists acc; reflexivity|].
  apply all_dec_cons in Hd. destruct Hd as [(d & _ & _ & Hc) Hs].
  unfold has_89 in H89. cbn [existsb] in H89. apply orb_false_iff in H89. destruct H89 as [H8 H89].
  cbn [digits_val].
  assert (Hb : base_digit 8 c = Some (b2n c - 48)).
  { unfold base_digit, any_digit. replace ((48 <=? b2n c) && (b2n c <=? 57)) with true by lia.
    replace (b2n c - 48 <? 8) with true by lia. reflexivity. }
  rewrite Hb. apply IH; assumption.
Qed.

Lemma nat_scan_oct c c2 r :
  b2n c = 48 -> all_dec (c2 :: r) = true -> has_89 (c2 :: r) = false ->
  exists v cnt, nat_scan true false (c :: c2 :: r) = mkScan v 8 cnt [] true.
Proof.
  intros E48 Hd H89. destruct (oct_digits_val (c2 :: r) Hd H89 0) as [v Hv].
  pose proof Hd as Hd'. apply all_dec_cons in Hd'. destruct Hd' as [(d & _ & _ & Hc2) _].
  unfold nat_scan, scan_prefix. rewrite E48. cbn [N.eqb Pos.eqb].
  replace ((b2n c2 =? 98) || (b2n c2 =? 66)) with false by lia.
  replace ((b2n c2 =? 111) || (b2n c2 =? 79)) with false by lia.
  replace ((b2n c2 =? 120) || (b2n c2 =? 88)) with false by lia. cbn [negb].
  rewrite <- (app_nil_r (c2 :: r)).
  rewrite (scan_loop_digits true 8 (base_digit 8) ltac:(lia) (base_digit_compat 8 ltac:(lia)) (c2 :: r) [] false PDig false 0 None 0 v Hv).
  cbn [scan_loop l_count l_inval l_prev l_rest l_acc l_dp is_nil is_sep orb negb length].
  replace (0 + N.of_nat (S (length r)) =? 0) with false by lia.
  eexists _, _. reflexivity.
Qed.

Lemma plain_digits_int t neg ip :
  scan_sign t = Some (neg, ip) -> all_dec ip = true -> ip <> [] -> int_set_string0 t = None ->
  match ip with c :: _ :: _ => (b2n c =? 48) && has_89 ip | _ => false end = true.
Proof.
  intros Hs Hd Hne Hnone. unfold int_set_string0 in Hnone. rewrite Hs in Hnone.
  assert (Hdv : dec_value ip = Some (dec_fold ip 0)).
  { unfold dec_value. destruct ip; [congruence|]. apply all_dec_digits_val. exact Hd. }
  destruct ip as [|c [|c2 r]]; [congruence| |].
  - rewrite (nat_scan_dec [c] _ eq_refl Hdv) in Hnone. discriminate.
  - destruct (b2n c =? 48) eqn:E48.
    + cbn [andb]. destruct (has_89 (c :: c2 :: r)) eqn:E89; [reflexivity|exfalso].
      apply N.eqb_eq in E48. pose proof Hd as Hd'. apply all_dec_cons in Hd'. destruct Hd' as [_ Hd2].
      unfold has_89 in E89. cbn [existsb] in E89. apply orb_false_iff in E89. destruct E89 as [_ E89].
      destruct (nat_scan_oct c c2 r E48 Hd2 E89) as (v & cnt & Hn). rewrite Hn in Hnone. discriminate.
    + exfalso. assert (Hz : no_leading_zero (c :: c2 :: r) = true) by (cbn [no_leading_zero]; rewrite E48; reflexivity).
      rewrite (nat_scan_dec _ _ Hz Hdv) in Hnone. discriminate.
Qed.

(* ================================================================================================
   3. BigIntegerFromString on ANY text
   ================================================================================================ *)
Lemma scan_sign_inv t neg s1 : scan_sign t = Some (neg, s1) ->
  exists sg, sg <= 2 /\ t = sign_chars sg ++ s1 /\ neg = (sg =? 2).
Proof.
  unfold scan_sign. destruct t as [|x t']; [discriminate|].
  destruct (b2n x =? 45) eqn:E45.
  { intros [= <- <-]. exists 2. split; [lia|]. split; [|reflexivity].
    change (sign_chars 2 ++ t') with (ch 45 :: t'). f_equal. apply b2n_inj. rewrite b2n_ch by lia. apply N.eqb_eq. exact E45. }
  destruct (b2n x =? 43) eqn:E43.
  { intros [= <- <-]. exists 1. split; [lia|]. split; [|reflexivity].
    change (sign_chars 1 ++ t') with (ch 43 :: t'). f_equal. apply b2n_inj. rewrite b2n_ch by lia. apply N.eqb_eq. exact E43. }
  intros [= <- <-]. exists 0. split; [lia|]. split; reflexivity.
Qed.

Theorem big_go_denotes t q : BigIntegerFromString t = Ok q -> go_denotes t q.
Proof.
  unfold BigIntegerFromString.
  destruct (int_set_string0 t) as [z|] eqn:Ei.
  { intros [= <-]. apply gd_int. apply set_string_go_int. exact Ei. }
  destruct (parse_float10_ok t) eqn:Eg; cbn [negb]; [|discriminate].
  destruct (is_inf_text t) eqn:Einf.
  { rewrite (inf_rat_none t Einf). discriminate. }
  destruct (scan_sign t) as [[neg s1]|] eqn:Es.
  2:{ unfold parse_float10_ok in Eg. rewrite Einf, Es in Eg. discriminate. }
  destruct (gate_inv t neg s1 Eg Einf Es) as (ip & fr & ex & -> & Hi & Hf & Hne & Hex).
  destruct (scan_sign_inv t neg _ Es) as (sg & Hsg & Ht & Hneg).
  destruct (rat_set_string t) as [[a b]|] eqn:Er; [|discriminate].
  destruct (a mod Z.of_N b =? 0)%Z eqn:Em; [|discriminate]. intros [= <-].
  assert (Hnil : is_nil t = false) by (destruct t; [discriminate|reflexivity]).
  assert (Hsl : split_slash t = None).
  { apply split_slash_none. rewrite Ht. apply no_slash_pieces; assumption. }
  destruct (rat_pieces t neg ip fr ex a b Es Hnil Hsl Hi Hf Hne Hex Er) as [Hbpos Heq].
  set (f := mkF sg ip fr ex).
  assert (Htext : t = fnum_text f) by (rewrite fnum_text_eq; exact Ht).
  assert (Hwf : fnum_wf f = true).
  { unfold f, fnum_wf, f_fdigits. cbn [f_sign f_int f_frac f_exp]. fold (fdig fr).
    replace (sg <=? 2) with true by lia. rewrite Hi, Hf. cbn [andb].
    replace (match ip ++ fdig fr with [] => true | _ :: _ => false end) with false by (destruct (ip ++ fdig fr); [congruence|reflexivity]).
    cbn [negb andb]. destruct ex as [[[c sg'] d]|]; [|reflexivity].
    destruct (Hex c sg' d eq_refl) as ([bb Hbb] & Hsg' & Hd & Hdne). rewrite Hbb, Hd.
    replace (sg' <=? 2) with true by lia. destruct d; [congruence|reflexivity]. }
  assert (Hfo : float_only f = true).
  { unfold f, float_only. cbn [f_frac f_exp f_int]. destruct fr; [reflexivity|]. destruct ex as [[[? ?] ?]|]; [reflexivity|].
    cbn [fracpart exppart fdig] in *. rewrite !app_nil_r in *.
    apply (plain_digits_int t neg ip Es Hi Hne Ei). }
  rewrite Htext. apply (gd_float f _ Hwf Hfo).
  (* the value *)
  assert (Hq : a = (a / Z.of_N b * Z.of_N b)%Z).
  { apply Z.eqb_eq in Em. rewrite Z.mul_comm. apply Z.div_exact; lia. }
  assert (Hm : f_mant f = signed neg (dec_fold (ip ++ fdig fr) 0)).
  { unfold f, f_mant, f_fdigits. cbn [f_sign f_int f_frac]. fold (fdig fr).
    rewrite nat_of_dec_fold by (rewrite all_dec_app, Hi, Hf; reflexivity). rewrite Hneg. reflexivity. }
  assert (Hw : f_written f = ex_written ex).
  { unfold f, f_written, ex_written, written. cbn [f_exp]. destruct ex as [[[c sg'] d]|]; [|reflexivity].
    destruct (Hex c sg' d eq_refl) as (_ & _ & Hd & _). rewrite nat_of_dec_fold by exact Hd. reflexivity. }
  assert (Hbs : f_ebase f = ex_base ex) by reflexivity.
  assert (Hfd : f_fdigits f = fdig fr) by reflexivity.
  unfold sci2_is, f_e10, f_e2. rewrite Hm, Hw, Hbs, Hfd.
  cbv zeta in Heq.
  set (P := (10 ^ Z.max ((if (ex_base ex =? 10)%N then ex_written ex else 0) - Z.of_nat (length (fdig fr))) 0 *
             2 ^ Z.max (if (ex_base ex =? 2)%N then ex_written ex else 0) 0)%Z) in *.
  set (Q := (10 ^ Z.max (- ((if (ex_base ex =? 10)%N then ex_written ex else 0) - Z.of_nat (length (fdig fr)))) 0 *
             2 ^ Z.max (- (if (ex_base ex =? 2)%N then ex_written ex else 0)) 0)%Z) in *.
  set (M := signed neg (dec_fold (ip ++ fdig fr) 0)) in *.
  rewrite Hq in Heq.
  assert (Hc : (Z.of_N b * (a / Z.of_N b * Q) = Z.of_N b * (M * P))%Z) by (rewrite <- Heq; ring).
  apply Z.mul_reg_l in Hc; [|lia].
  rewrite <- !Z.mul_assoc. fold P. fold Q. symmetry. exact Hc.
Qed.

(* the integer types over the JSON layer: ANY document, ANY lexer outcome *)
Theorem parse_sound_all lex (ty64 : bool) b q :
  parse_int ty64 lex b = Ok q ->
  exists t, (lex b = JNum t \/ lex b = JStr t) /\ go_denotes t q /\ in_range ty64 q = true.
Proof.
  unfold parse_int, HexInteger_UnmarshalJSON, HexUint64_UnmarshalJSON, UnmarshalBigInt. intros H.
  assert (Hx : exists t, (lex b = JNum t \/ lex b = JStr t) /\
             (if ty64 then (do n <- (do z <- BigIntegerFromString t; if ((0 <=? z) && (z <? 2 ^ 64))%Z then Ok (Z.to_N z) else Err EUint64); Ok (Z.of_N n))
              else (do z <- BigIntegerFromString t; if (z <? 0)%Z then Err ENegative else Ok z)) = Ok q).
  { destruct (lex b) as [|t|t|]; try (destruct ty64; discriminate); exists t; (split; [auto|exact H]). }
  destruct Hx as (t & Hl & Hv). exists t. split; [exact Hl|].
  destruct (BigIntegerFromString t) as [z| |] eqn:E; cbn [bind] in Hv; try (destruct ty64; discriminate).
  pose proof (big_go_denotes t z E) as D. unfold in_range. destruct ty64.
  - destruct ((0 <=? z) && (z <? 2 ^ 64))%Z eqn:R; cbn [bind] in Hv; [|discriminate].
    injection Hv as <-. rewrite Z2N.id by lia. split; assumption.
  - destruct (z <? 0)%Z eqn:R; [discriminate|]. injection Hv as <-. split; [exact D|lia].
Qed.
