(* Executable model of pkg/ethtypes: integer_parsing.go, hexinteger.go, hexuint64.go, address.go,
   hexbytes.go (as of /repo commit ae4eda4, i.e. after the D19a fix), together with the parts of
   math/big (Int.SetString(s,0), the syntax of ParseFloat(s,10,..), Rat.SetString), encoding/hex and
   strconv that those functions call.  One definition per Go function, same case order and guards.
   Texts are byte strings; a character is compared through its code [b2n c].

   External behaviour: the encoding/json lexer enters as a function parameter ([lex]/[lexs]), the
   Keccak-256 hash as [H].  No proofs here. *)
From Coq Require Import List NArith ZArith Lia Bool Arith.
From Coq Require Import Init.Byte.
From FFS Require Import Base.Res Base.Bytes.
Import ListNotations.
Local Open Scope N_scope.

(* error classes (never compared by the correspondence check beyond Ok/Err/Panic) *)
Definition ENumber := 1%nat.     (* FF22088 MsgInvalidNumberString *)
Definition EPrecision := 2%nat.  (* FF22089 MsgInvalidIntPrecisionLoss *)
Definition EJson := 3%nat.       (* encoding/json syntax or type error *)
Definition EType := 4%nat.       (* FF22090 MsgInvalidJSONTypeForBigInt *)
Definition ENegative := 5%nat.   (* "negative values are not supported" *)
Definition EUint64 := 6%nat.     (* FF22091 MsgInvalidUint64PrecisionLoss *)
Definition EHex := 7%nat.        (* encoding/hex: InvalidByteError or ErrLength *)
Definition EAddrLen := 8%nat.    (* "bad address - must be 20 bytes" *)

Definition is_nil {A} (l : list A) : bool := match l with [] => true | _ => false end.

(* ================================================================================================
   math/big natconv.go: nat.scan(r, base, fracOk) for base = 0 ([base0 = true]) or base = 10
   ================================================================================================ *)

(* digit value of a character for bases <= 36; 63 (= MaxBase+1) for anything else *)
Definition digit_val (c : N) : N :=
  if (48 <=? c) && (c <=? 57) then c - 48
  else if (97 <=? c) && (c <=? 122) then c - 97 + 10
  else if (65 <=? c) && (c <=? 90) then c - 65 + 10
  else 63.

(* [prev]: the previously seen char class: '.' (anything else), '0' (a digit), '_' *)
Inductive prevk := PDot | PDig | PSep.
Definition is_sep (p : prevk) : bool := match p with PSep => true | _ => false end.
Definition is_dig (p : prevk) : bool := match p with PDig => true | _ => false end.

Record loopres := mkLoop {
  l_rest : bytes;        (* unread input, starting with the char that stopped the loop *)
  l_prev : prevk;
  l_inval : bool;        (* invalSep *)
  l_count : N;           (* digits seen *)
  l_dp : option N;       (* count at the radix point *)
  l_acc : N }.           (* value of the digits *)

(* the "for err == nil" loop of nat.scan *)
Fixpoint scan_loop (base0 : bool) (b : N) (s : bytes) (fracOk : bool) (prev : prevk) (inval : bool)
         (count : N) (dp : option N) (acc : N) : loopres :=
  match s with
  | [] => mkLoop [] prev inval count dp acc
  | x :: t =>
      let c := b2n x in
      if (c =? 46) && fracOk then
        scan_loop base0 b t false PDot (inval || is_sep prev) count (Some count) acc
      else if (c =? 95) && base0 then
        scan_loop base0 b t fracOk PSep (inval || negb (is_dig prev)) count dp acc
      else
        let d := digit_val c in
        if b <=? d then mkLoop s prev inval count dp acc
        else scan_loop base0 b t fracOk PDig inval (count + 1) dp (acc * b + d)
  end%N.

Record scanres := mkScan {
  s_val : N;
  s_base : N;
  s_count : Z;       (* digit count, or minus the number of fractional digits when there is a '.' *)
  s_rest : bytes;
  s_ok : bool }.     (* err == nil *)

(* prefix kinds: 0 = none, 1 = 0b/0o/0x, 2 = bare octal '0' *)
Definition scan_prefix (base0 fracOk : bool) (s : bytes) : N * N * prevk * N * bytes :=
  if base0 then
    match s with
    | x :: t =>
        if (b2n x =? 48)%N then
          match t with
          | [] => (10, 0, PDig, 1, [])
          | y :: u =>
              let c := b2n y in
              if (c =? 98) || (c =? 66) then (2, 1, PDig, 0, u)
              else if (c =? 111) || (c =? 79) then (8, 1, PDig, 0, u)
              else if (c =? 120) || (c =? 88) then (16, 1, PDig, 0, u)
              else if negb fracOk then (8, 2, PDig, 0, t)
              else (10, 0, PDig, 1, t)
          end
        else (10, 0, PDot, 0, s)
    | [] => (10, 0, PDot, 0, [])
    end%N
  else (10, 0, PDot, 0, s)%N.

Definition nat_scan (base0 fracOk : bool) (s : bytes) : scanres :=
  let '(b, prefix, prev, count, s') := scan_prefix base0 fracOk s in
  let r := scan_loop base0 b s' fracOk prev false count None 0 in
  let seperr := l_inval r || is_sep (l_prev r) in
  if (l_count r =? 0)%N then
    if (prefix =? 2)%N then mkScan 0 10 1 (l_rest r) (negb seperr)   (* only the octal prefix 0: decimal 0 *)
    else mkScan 0 b 0 (l_rest r) false                               (* errNoDigits *)
  else
    mkScan (l_acc r) b
           (match l_dp r with Some d => Z.of_N d - Z.of_N (l_count r) | None => Z.of_N (l_count r) end)%Z
           (l_rest r) (negb seperr).

(* scanSign: None = EOF error *)
Definition scan_sign (s : bytes) : option (bool * bytes) :=
  match s with
  | [] => None
  | x :: t => if (b2n x =? 45)%N then Some (true, t)
              else if (b2n x =? 43)%N then Some (false, t)
              else Some (false, s)
  end.

(* Int.SetString(s, 0): sign, nat.scan(base 0, no fraction), whole input consumed *)
Definition int_set_string0 (s : bytes) : option Z :=
  match scan_sign s with
  | None => None
  | Some (neg, s1) =>
      let r := nat_scan true false s1 in
      if s_ok r && is_nil (s_rest r)
      then Some (if neg then - Z.of_N (s_val r) else Z.of_N (s_val r))%Z
      else None
  end.

(* ================================================================================================
   math/big floatconv.go: scanExponent(r, base2ok, sepOk)
   ================================================================================================ *)
Record expres := mkExp { e_val : Z; e_base : N; e_rest : bytes; e_ok : bool }.

Record eloopres := mkELoop { el_rest : bytes; el_prev : prevk; el_inval : bool; el_has : bool; el_acc : N }.

Fixpoint exp_loop (sepOk : bool) (s : bytes) (prev : prevk) (inval has : bool) (acc : N) : eloopres :=
  match s with
  | [] => mkELoop [] prev inval has acc
  | x :: t =>
      let c := b2n x in
      if (48 <=? c) && (c <=? 57) then exp_loop sepOk t PDig inval true (acc * 10 + (c - 48))
      else if (c =? 95) && sepOk then exp_loop sepOk t PSep (inval || negb (is_dig prev)) has acc
      else mkELoop s prev inval has acc
  end%N.

Definition minInt64 : Z := (- 2 ^ 63)%Z.
Definition maxInt64 : Z := (2 ^ 63 - 1)%Z.

Definition scan_exponent (base2ok sepOk : bool) (s : bytes) : expres :=
  match s with
  | [] => mkExp 0 10 [] true
  | x :: t =>
      let c := b2n x in
      let eb : option N :=
        if (c =? 101) || (c =? 69) then Some 10
        else if ((c =? 112) || (c =? 80)) && base2ok then Some 2
        else None in
      match eb with
      | None => mkExp 0 10 s true
      | Some base =>
          let '(neg, t1) :=
            match t with
            | y :: u => if (b2n y =? 43) then (false, u) else if (b2n y =? 45) then (true, u) else (false, t)
            | [] => (false, [])
            end in
          let r := exp_loop sepOk t1 PDot false false 0 in
          let v := (if neg then - Z.of_N (el_acc r) else Z.of_N (el_acc r))%Z in
          if negb (el_has r) then mkExp 0 base (el_rest r) false                       (* errNoDigits *)
          else if negb ((minInt64 <=? v) && (v <=? maxInt64))%Z then mkExp 0 base (el_rest r) false  (* ParseInt range *)
          else if el_inval r || is_sep (el_prev r) then mkExp v base (el_rest r) false  (* errInvalSep *)
          else mkExp v base (el_rest r) true
      end
  end%N.

(* ================================================================================================
   math/big floatconv.go: does ParseFloat(s, 10, 256, ToNearestEven) return err == nil ?
   (only the verdict is used by BigIntegerFromString after the D19a fix)
   ================================================================================================ *)
Definition MinExp : Z := (- 2 ^ 31)%Z.
Definition MaxExp : Z := (2 ^ 31 - 1)%Z.

Definition codes (s : bytes) : list N := map b2n s.
Definition codes_eqb (s : bytes) (l : list N) : bool :=
  (length s =? length l)%nat && forallb (fun p => (fst p =? snd p)%N) (combine (codes s) l).

Definition is_inf_text (s : bytes) : bool :=
  let body (t : bytes) := codes_eqb t [73; 110; 102]%N || codes_eqb t [105; 110; 102]%N in
  body s ||
  match s with
  | x :: t => ((b2n x =? 43) || (b2n x =? 45))%N && (length t =? 3)%nat && body t
  | [] => false
  end.

Definition parse_float10_ok (s : bytes) : bool :=
  if is_inf_text s then true else
  match scan_sign s with
  | None => false
  | Some (_, s1) =>
      let m := nat_scan false true s1 in
      if negb (s_ok m) then false else
      let e := scan_exponent true false (s_rest m) in
      if negb (e_ok e) then false else
      if (s_val m =? 0)%N then is_nil (e_rest e) else
      let d := (if s_count m <? 0 then s_count m else 0)%Z in
      let exp2 := (Z.of_N (N.size (s_val m)) + d + e_val e)%Z in
      if ((MinExp <=? exp2) && (exp2 <=? MaxExp))%Z then is_nil (e_rest e) else false
  end.

(* ================================================================================================
   math/big ratconv.go: Rat.SetString(s).  Result: numerator and (positive) denominator, not reduced;
   IsInt() after norm() holds iff the denominator divides the numerator.
   (int64 wrap-around of exp5/exp2 would need a text of about 2^63 bytes and is not modelled.)
   ================================================================================================ *)
Fixpoint split_slash (s : bytes) : option (bytes * bytes) :=
  match s with
  | [] => None
  | x :: t => if (b2n x =? 47)%N then Some ([], t)
              else match split_slash t with Some (l, r) => Some (x :: l, r) | None => None end
  end.

Definition rat_set_string (s : bytes) : option (Z * N) :=
  if is_nil s then None else
  match split_slash s with
  | Some (l, r) =>
      match int_set_string0 l with
      | None => None
      | Some a =>
          let d := nat_scan true false r in
          if s_ok d && is_nil (s_rest d) && negb (s_val d =? 0)%N then Some (a, s_val d) else None
      end
  | None =>
      match scan_sign s with
      | None => None
      | Some (neg, s1) =>
          let m := nat_scan true true s1 in
          if negb (s_ok m) then None else
          let e := scan_exponent true true (s_rest m) in
          if negb (e_ok e) then None else
          if negb (is_nil (e_rest e)) then None else
          if (s_val m =? 0)%N then Some (0%Z, 1%N) else
          let d := (if s_count m <? 0 then s_count m else 0)%Z in
          let '(exp5, exp2) :=
            (if (s_base m =? 10)%N then (d, d)
             else if (s_base m =? 2)%N then (0, d)
             else if (s_base m =? 8)%N then (0, d * 3)
             else (0, d * 4))%Z in
          let '(exp5, exp2) :=
            (if (e_base e =? 10)%N then (exp5 + e_val e, exp2 + e_val e) else (exp5, exp2 + e_val e))%Z in
          if (Z.abs exp5 >? 1000000)%Z then None else
          if ((exp2 <? -10000000) || (exp2 >? 10000000))%Z then None else
          let a := (s_val m * (if (0 <? exp5)%Z then 5 ^ Z.to_N exp5 else 1)
                            * (if (0 <? exp2)%Z then 2 ^ Z.to_N exp2 else 1))%N in
          let b := ((if (exp5 <? 0)%Z then 5 ^ Z.to_N (- exp5) else 1)
                    * (if (exp2 <? 0)%Z then 2 ^ Z.to_N (- exp2) else 1))%N in
          Some ((if neg then - Z.of_N a else Z.of_N a)%Z, b)
      end
  end.

(* ================================================================================================
   pkg/ethtypes/integer_parsing.go
   ================================================================================================ *)
Definition BigIntegerFromString (s : bytes) : res Z :=
  match int_set_string0 s with
  | Some z => Ok z
  | None =>
      if negb (parse_float10_ok s) then Err ENumber else
      match rat_set_string s with
      | None => Err EPrecision
      | Some (a, b) => if (a mod Z.of_N b =? 0)%Z then Ok (a / Z.of_N b)%Z else Err EPrecision
      end
  end.

(* what json.Decoder{UseNumber}.Decode(&i) yields for the input: the oracle for encoding/json *)
Inductive jtok := JErr | JNum (t : bytes) | JStr (t : bytes) | JOther.

Definition UnmarshalBigInt (lex : bytes -> jtok) (b : bytes) : res Z :=
  match lex b with
  | JErr => Err EJson
  | JNum t => BigIntegerFromString t
  | JStr t => BigIntegerFromString t
  | JOther => Err EType
  end.

(* ================================================================================================
   hex digits and big.Int.Text(16) / strconv.FormatUint(v, 16)
   ================================================================================================ *)
Definition hexchar (d : N) : byte := n2b (if d <? 10 then 48 + d else 87 + d)%N.   (* 0-9a-f *)

Fixpoint digits_fuel (fuel : nat) (n : N) : list N :=
  match fuel with
  | O => []
  | S f => if (n <? 16)%N then [n] else digits_fuel f (n / 16)%N ++ [(n mod 16)%N]
  end.
Definition hex_digits (n : N) : list N := digits_fuel (S (N.to_nat (N.size n))) n.
Definition text16 (n : N) : bytes := map hexchar (hex_digits n).

Definition c_quote : byte := n2b 34.
Definition c_minus : byte := n2b 45.
Definition prefix0x : bytes := [n2b 48; n2b 120].

(* ---------- hexinteger.go ---------- *)
Definition HexInteger_String (z : Z) : bytes :=
  prefix0x ++ (if (z <? 0)%Z then c_minus :: text16 (Z.abs_N z) else text16 (Z.abs_N z)).
Definition HexInteger_MarshalJSON (z : Z) : bytes := c_quote :: HexInteger_String z ++ [c_quote].
Definition HexInteger_UnmarshalJSON (lex : bytes -> jtok) (b : bytes) : res Z :=
  do z <- UnmarshalBigInt lex b ;
  if (z <? 0)%Z then Err ENegative else Ok z.

(* ---------- hexuint64.go ---------- *)
Definition HexUint64_String (n : N) : bytes := prefix0x ++ text16 n.
Definition HexUint64_MarshalJSON (n : N) : bytes := c_quote :: HexUint64_String n ++ [c_quote].
Definition HexUint64_UnmarshalJSON (lex : bytes -> jtok) (b : bytes) : res N :=
  do z <- UnmarshalBigInt lex b ;
  if ((0 <=? z) && (z <? 2 ^ 64))%Z then Ok (Z.to_N z) else Err EUint64.   (* bi.IsUint64() *)

(* ================================================================================================
   encoding/hex
   ================================================================================================ *)
Definition unhex_val (c : N) : option N :=
  if (48 <=? c) && (c <=? 57) then Some (c - 48)
  else if (97 <=? c) && (c <=? 102) then Some (c - 87)
  else if (65 <=? c) && (c <=? 70) then Some (c - 55)
  else None.

Definition hex_encode (l : bytes) : bytes :=
  flat_map (fun b => [hexchar (b2n b / 16); hexchar (b2n b mod 16)]%N) l.

(* hex.DecodeString: any non-hex char or an odd length is an error *)
Fixpoint hex_decode (s : bytes) : res bytes :=
  match s with
  | [] => Ok []
  | [_] => Err EHex
  | x :: y :: t =>
      match unhex_val (b2n x), unhex_val (b2n y) with
      | Some a, Some b => do r <- hex_decode t ; Ok (n2b (a * 16 + b) :: r)
      | _, _ => Err EHex
      end
  end.

(* strings.TrimPrefix(s, "0x") *)
Definition trim0x (s : bytes) : bytes :=
  match s with
  | x :: y :: t => if ((b2n x =? 48) && (b2n y =? 120))%N then t else s
  | _ => s
  end.

(* ---------- hexbytes.go ---------- *)
(* json.Unmarshal(b, &s) with s a string: Some text (the empty text for null) or None on error *)
Definition HexBytes_UnmarshalJSON (lexs : bytes -> option bytes) (b : bytes) : res bytes :=
  match lexs b with
  | None => Err EJson
  | Some s => hex_decode (trim0x s)
  end.
Definition HexBytesPlain_String (h : bytes) : bytes := hex_encode h.
Definition HexBytes0xPrefix_String (h : bytes) : bytes := prefix0x ++ hex_encode h.
Definition quote (s : bytes) : bytes := c_quote :: s ++ [c_quote].

(* ---------- address.go ---------- *)
Definition Address_SetString (s : bytes) : res bytes :=
  do b <- hex_decode (trim0x s) ;
  if (length b =? 20)%nat then Ok b else Err EAddrLen.
Definition Address_UnmarshalJSON (lexs : bytes -> option bytes) (b : bytes) : res bytes :=
  match lexs b with
  | None => Err EJson
  | Some s => Address_SetString s
  end.
Definition Address0xHex_String (a : bytes) : bytes := prefix0x ++ hex_encode a.
Definition AddressPlainHex_String (a : bytes) : bytes := hex_encode a.

(* unicode.ToUpper / ToLower on the ASCII range *)
Definition to_upper (c : N) : N := if ((97 <=? c) && (c <=? 122))%N then (c - 32)%N else c.
Definition to_lower (c : N) : N := if ((65 <=? c) && (c <=? 90))%N then (c + 32)%N else c.

(* the loop "for i := 0; i < 40; i++" over hexHash[i], hexAddr[i]; indexing is panic-explicit *)
Fixpoint checksum_loop (hexAddr hexHash : bytes) (i n : nat) : res bytes :=
  match n with
  | O => Ok []
  | S n' =>
      do h <- index hexHash i ;
      do a <- index hexAddr i ;
      (* strconv.ParseInt(string(h), 16, 64), error ignored (value 0) *)
      let hd := match unhex_val (b2n h) with Some v => v | None => 0%N end in
      let c := if (8 <=? hd)%N then to_upper (b2n a) else to_lower (b2n a) in
      do r <- checksum_loop hexAddr hexHash (S i) n' ;
      Ok (n2b c :: r)
  end.

Definition AddressWithChecksum_String (H : bytes -> bytes) (a : bytes) : res bytes :=
  let hexAddr := hex_encode a in
  let hexHash := hex_encode (H hexAddr) in
  do r <- checksum_loop hexAddr hexHash 0 40 ;
  Ok (prefix0x ++ r).
