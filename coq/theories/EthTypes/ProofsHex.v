(* Proofs about the model of pkg/ethtypes, part 4: the specification's print form [spec_hex]
   (Coq's HexString.of_N, read as bytes) is "0x" followed by the model's [text16] digits, hence
   is the canonical hex form. *)
From Coq Require Import String Ascii HexString List NArith ZArith Lia Bool Arith.
From Coq Require Import ZifyN ZifyNat ZifyBool.
From Coq Require Import Init.Byte Strings.Byte.
From FFS Require Import Base.Res Base.Bytes EthTypes.Model EthTypes.Spec EthTypes.Proofs EthTypes.ProofsInt.
Import ListNotations.
Local Open Scope N_scope.

(* ---------- hex_digits: the fuel is immaterial once sufficient ---------- *)
Lemma digits_fuel_indep f : forall f' n,
  n < 16 ^ N.of_nat f -> n < 16 ^ N.of_nat f' -> f <> O -> f' <> O ->
  digits_fuel f n = digits_fuel f' n.
Proof.
  induction f as [|f IH]; intros [|f'] n Hn Hn' Hf Hf'; try congruence.
  cbn [digits_fuel]. destruct (n <? 16) eqn:E; [reflexivity|].
  assert (Hq1 : 1 <= n / 16) by (apply N.div_le_lower_bound; lia).
  assert (Hq : n / 16 < 16 ^ N.of_nat f).
  { apply N.div_lt_upper_bound; [lia|]. replace (N.of_nat (S f)) with (N.succ (N.of_nat f)) in Hn by lia.
    rewrite N.pow_succ_r' in Hn. exact Hn. }
  assert (Hq' : n / 16 < 16 ^ N.of_nat f').
  { apply N.div_lt_upper_bound; [lia|]. replace (N.of_nat (S f')) with (N.succ (N.of_nat f')) in Hn' by lia.
    rewrite N.pow_succ_r' in Hn'. exact Hn'. }
  assert (G : f <> O) by (intros ->; cbn in Hq; lia).
  assert (G' : f' <> O) by (intros ->; cbn in Hq'; lia).
  rewrite (IH f' (n / 16) Hq Hq' G G'). reflexivity.
Qed.

Lemma hex_digits_small n : n < 16 -> hex_digits n = [n].
Proof.
  intros H. unfold hex_digits. cbn [digits_fuel]. replace (n <? 16) with true by lia. reflexivity.
Qed.

Lemma hex_digits_step n : 16 <= n -> hex_digits n = hex_digits (n / 16) ++ [n mod 16].
Proof.
  intros H. unfold hex_digits at 1. cbn [digits_fuel]. replace (n <? 16) with false by lia.
  f_equal. unfold hex_digits.
  pose proof (size_fuel_ok n) as Hn. pose proof (size_fuel_ok (n / 16)) as Hq.
  assert (Hq1 : 1 <= n / 16) by (apply N.div_le_lower_bound; lia).
  assert (Hq' : n / 16 < 16 ^ N.of_nat (N.to_nat (N.size n))).
  { apply N.div_lt_upper_bound; [lia|].
    replace (N.of_nat (S (N.to_nat (N.size n)))) with (N.succ (N.of_nat (N.to_nat (N.size n)))) in Hn by lia.
    rewrite N.pow_succ_r' in Hn. exact Hn. }
  apply digits_fuel_indep; [exact Hq'|exact Hq| |discriminate].
  intros E. rewrite E in Hq'. cbn in Hq'. lia.
Qed.

Lemma hex_digits_snoc p d : d < 16 -> hex_digits (16 * N.pos p + d) = hex_digits (N.pos p) ++ [d].
Proof.
  intros H. rewrite hex_digits_step by lia.
  replace ((16 * N.pos p + d) / 16) with (N.pos p).
  - replace ((16 * N.pos p + d) mod 16) with d; [reflexivity|].
    apply (N.mod_unique _ 16 (N.pos p)); [exact H|reflexivity].
  - apply (N.div_unique _ 16 (N.pos p) d); [exact H|reflexivity].
Qed.

(* ---------- HexString.Raw.of_pos, one digit ---------- *)
Lemma ascii_bytes_String c s : ascii_bytes (String c s) = byte_of_ascii c :: ascii_bytes s.
Proof. reflexivity. Qed.

Lemma of_pos_step d c p q rest :
  d < 16 -> hexchar d = byte_of_ascii c -> N.pos q = 16 * N.pos p + d ->
  ascii_bytes (HexString.Raw.of_pos p (String c rest)) = map hexchar (hex_digits (N.pos p)) ++ ascii_bytes (String c rest) ->
  ascii_bytes (HexString.Raw.of_pos p (String c rest)) = map hexchar (hex_digits (N.pos q)) ++ ascii_bytes rest.
Proof.
  intros Hd Hc Hq IH. rewrite IH, Hq, hex_digits_snoc by exact Hd.
  rewrite map_app, <- app_assoc, ascii_bytes_String. cbn [map app]. rewrite Hc. reflexivity.
Qed.

Ltac try_digit IH d := eapply (of_pos_step d); [lia | reflexivity | reflexivity | apply IH].

Fixpoint raw_of_pos_text16 (p : positive) (rest : string) {struct p} :
  ascii_bytes (HexString.Raw.of_pos p rest) = map hexchar (hex_digits (N.pos p)) ++ ascii_bytes rest.
Proof.
  do 4 try destruct p as [p|p|]; try reflexivity;
  cbn [HexString.Raw.of_pos];
  first [ try_digit raw_of_pos_text16 0 | try_digit raw_of_pos_text16 1 | try_digit raw_of_pos_text16 2
        | try_digit raw_of_pos_text16 3 | try_digit raw_of_pos_text16 4 | try_digit raw_of_pos_text16 5
        | try_digit raw_of_pos_text16 6 | try_digit raw_of_pos_text16 7 | try_digit raw_of_pos_text16 8
        | try_digit raw_of_pos_text16 9 | try_digit raw_of_pos_text16 10 | try_digit raw_of_pos_text16 11
        | try_digit raw_of_pos_text16 12 | try_digit raw_of_pos_text16 13 | try_digit raw_of_pos_text16 14
        | try_digit raw_of_pos_text16 15 ].
Qed.

(* ---------- the specification's print form is "0x" + text16 ---------- *)
Theorem of_N_is_text16 : forall n : N, spec_hex n = prefix0x ++ text16 n.
Proof.
  intros [|p]; [reflexivity|].
  unfold spec_hex, text16, HexString.of_N, HexString.of_pos.
  rewrite !ascii_bytes_String, raw_of_pos_text16.
  change (ascii_bytes "") with (@nil byte). rewrite app_nil_r. reflexivity.
Qed.

Theorem spec_hex_canonical : forall n : N, canonical_hex (spec_hex n) n.
Proof.
  intros n. exists (text16 n). split; [rewrite of_N_is_text16; reflexivity|]. apply text16_canonical.
Qed.

Print Assumptions of_N_is_text16.
Print Assumptions spec_hex_canonical.
