(* Wave 6 (closing `partial` items of C19):
   A. the JSON layer of addresses / byte strings characterised for EVERY lexer and EVERY document, both
      directions and the error side, without [lexs_law] and without the "quoted plain ASCII" restriction:
      the only hypothesis left is on what the lexer returned for the document;
   B. the quantifier relation extended with the signed / 0X-prefixed hex class ([spelling_x]) and the
      exactness theorem (with the exact library boundary) for the extended relation: one statement for all
      classes "decimal, negative decimal, hex of either prefix case and either sign, JSON number";
   C. the guard [n <> 0] of negative_hex_rejected replaced by the complete verdict ("-0x0" = 0 accepted,
      every other negative hex text an error). *)
From Coq Require Import List NArith ZArith Lia Bool Arith.
From Coq Require Import ZifyN ZifyNat ZifyBool.
From Coq Require Import Init.Byte.
From FFS Require Import Base.Res Base.Bytes EthTypes.Model EthTypes.Spec EthTypes.SpecBig
  EthTypes.Proofs EthTypes.ProofsInt EthTypes.ProofsNum EthTypes.ProofsLimit EthTypes.ProofsReferee.
Import ListNotations.
Local Open Scope N_scope.

(* ================= A. JSON layer, every lexer, every document ================= *)
(* [spelled s b]: the string s spells the bytes b in hex of any case, with or without the "0x" prefix *)
Definition spelled (s b : bytes) : Prop := hex_spells s b \/ exists s', s = t_0x ++ s' /\ hex_spells s' b.

Lemma hex_decode_iff s b : hex_decode (trim0x s) = Ok b <-> spelled s b.
Proof.
  split; [apply HexBytes_parse_ok_inv|].
  intros [Hs|(s' & -> & Hs)]; [exact (proj1 (HexBytes_parse_accepts s b Hs))|exact (proj2 (HexBytes_parse_accepts s' b Hs))].
Qed.

Lemma Address_SetString_iff s b : Address_SetString s = Ok b <-> length b = 20%nat /\ spelled s b.
Proof.
  split; [apply Address_SetString_ok_inv|].
  intros [Hl [Hs|(s' & -> & Hs)]]; [exact (proj1 (Address_SetString_accepts s b Hs Hl))|exact (proj2 (Address_SetString_accepts s' b Hs Hl))].
Qed.

Lemma spelled_unique s b b' : spelled s b -> spelled s b' -> b = b'.
Proof.
  intros H H'. apply hex_decode_iff in H. apply hex_decode_iff in H'. congruence.
Qed.

(* text entry points: Ok exactly for the spelled texts (of 20 bytes for an address), otherwise an error *)
Theorem text_layer_verdict (s : bytes) :
  (forall b, Address_SetString s = Ok b <-> length b = 20%nat /\ spelled s b) /\
  (forall b, hex_decode (trim0x s) = Ok b <-> spelled s b) /\
  ((forall b, length b = 20%nat -> ~ spelled s b) -> exists e, Address_SetString s = Err e) /\
  ((forall b, ~ spelled s b) -> exists e, hex_decode (trim0x s) = Err e).
Proof.
  split; [intros b; apply Address_SetString_iff|]. split; [intros b; apply hex_decode_iff|]. split.
  - intros H. destruct (Address_SetString s) as [b|e|] eqn:E; [|eauto|].
    + exfalso. apply Address_SetString_iff in E. destruct E as [Hl Hs]. exact (H b Hl Hs).
    + exfalso. exact (Address_SetString_not_panic s E).
  - intros H. destruct (hex_decode (trim0x s)) as [b|e|] eqn:E; [|eauto|].
    + exfalso. apply hex_decode_iff in E. exact (H b E).
    + exfalso. exact (hex_decode_not_panic _ E).
Qed.

(* through json.Unmarshal: whatever the lexer is and whatever the document is *)
Theorem json_layer_iff (lexs : bytes -> option bytes) (d : bytes) :
  (forall b, Address_UnmarshalJSON lexs d = Ok b <-> exists s, lexs d = Some s /\ length b = 20%nat /\ spelled s b) /\
  (forall b, HexBytes_UnmarshalJSON lexs d = Ok b <-> exists s, lexs d = Some s /\ spelled s b).
Proof.
  unfold Address_UnmarshalJSON, HexBytes_UnmarshalJSON. destruct (lexs d) as [s|].
  - split; intros b.
    + rewrite Address_SetString_iff. split; [intros H; exists s; split; [reflexivity|exact H]|].
      intros (s0 & E & H). injection E as <-. exact H.
    + rewrite hex_decode_iff. split; [intros H; exists s; split; [reflexivity|exact H]|].
      intros (s0 & E & H). injection E as <-. exact H.
  - split; intros b; (split; [discriminate|intros (s0 & E & _); discriminate]).
Qed.

(* the error side, for every lexer and document: the lexer refused the document, or it returned a string that
   is odd / has a non-hex character after TrimPrefix "0x" ([bad_hex]), or (addresses) a string that spells a
   byte string of another length than 20 *)
Theorem json_layer_rejects_any (lexs : bytes -> option bytes) (d : bytes) :
  (lexs d = None ->
     (exists e, Address_UnmarshalJSON lexs d = Err e) /\ (exists e, HexBytes_UnmarshalJSON lexs d = Err e)) /\
  (forall s, lexs d = Some s -> bad_hex (trim0x s) ->
     (exists e, Address_UnmarshalJSON lexs d = Err e) /\ (exists e, HexBytes_UnmarshalJSON lexs d = Err e)) /\
  (forall s b, lexs d = Some s -> spelled s b -> length b <> 20%nat -> exists e, Address_UnmarshalJSON lexs d = Err e) /\
  ((forall s b, lexs d = Some s -> length b = 20%nat -> ~ spelled s b) -> exists e, Address_UnmarshalJSON lexs d = Err e) /\
  ((forall s b, lexs d = Some s -> ~ spelled s b) -> exists e, HexBytes_UnmarshalJSON lexs d = Err e).
Proof.
  unfold Address_UnmarshalJSON, HexBytes_UnmarshalJSON. split; [|split; [|split; [|split]]].
  - intros ->. split; eauto.
  - intros s -> H. split; [apply address_rejects_bad_hex|apply hexbytes_rejects]; exact H.
  - intros s b -> [Hs|(s' & -> & Hs)] Hl.
    + exact (proj1 (address_rejects_wrong_length s b Hs Hl)).
    + exact (proj2 (address_rejects_wrong_length s' b Hs Hl)).
  - intros H. destruct (lexs d) as [s|]; [|eauto].
    apply (proj1 (proj2 (proj2 (text_layer_verdict s)))). intros b Hl. exact (H s b eq_refl Hl).
  - intros H. destruct (lexs d) as [s|]; [|eauto].
    apply (proj2 (proj2 (proj2 (text_layer_verdict s)))). intros b. exact (H s b eq_refl).
Qed.

(* ================= C. negative hex: the complete verdict, no guard on the value ================= *)
Theorem negative_hex_verdict lex (ty64 up : bool) s n :
  lex_law lex -> hex_value s = Some n ->
  (n = 0 -> parse_int ty64 lex (quote (hex_text true up s)) = Ok 0%Z) /\
  (n <> 0 -> exists err, parse_int ty64 lex (quote (hex_text true up s)) = Err err) /\
  (forall q, parse_int ty64 lex (quote (hex_text true up s)) = Ok q -> n = 0 /\ q = 0%Z).
Proof.
  intros L Hv. destruct (signed_hex_exact lex ty64 true up s n L Hv) as (_ & A & B). cbv zeta in A, B.
  assert (C : n <> 0 -> exists err, parse_int ty64 lex (quote (hex_text true up s)) = Err err).
  { intros Hn. apply B. unfold in_range, hex_text_value. destruct ty64; lia. }
  split; [|split; [exact C|]].
  - intros ->. apply A. destruct ty64; reflexivity.
  - intros q Hq. destruct (N.eq_dec n 0) as [->|Hn].
    + rewrite A in Hq by (destruct ty64; reflexivity). injection Hq as <-. split; reflexivity.
    + destruct (C Hn) as [err E]. congruence.
Qed.

(* ================= B. the quantifier with the signed / 0X hex class ================= *)
Inductive spelling_x : bytes -> Z -> Z -> bool -> Prop :=
| sx_quant : forall t m e l, spelling t m e l -> spelling_x t m e l
| sx_hex : forall (neg up : bool) s n, hex_value s = Some n ->
    spelling_x (hex_text neg up s) (hex_text_value neg n) 0 true.

Definition denotes_x (t : bytes) (m e : Z) : Prop :=
  denotes t m e \/ exists (neg up : bool) s n, hex_value s = Some n /\ t = hex_text neg up s /\ m = hex_text_value neg n /\ e = 0%Z.

Lemma denotes_x_spelling_x t m e : denotes_x t m e <-> exists l, spelling_x t m e l.
Proof.
  split.
  - intros [D|(neg & up & s & n & Hv & -> & -> & ->)].
    + destruct (denotes_spelling t m e D) as [l S]. exists l. apply sx_quant. exact S.
    + exists true. apply sx_hex. exact Hv.
  - intros [l S]. destruct S as [t m e l S|neg up s n Hv].
    + left. exact (spelling_denotes t m e l S).
    + right. exists neg, up, s, n. repeat split. exact Hv.
Qed.

(* a signed / prefixed hex text is not a JSON number: its only JSON form is the string *)
Lemma hex_text_not_number neg up s : is_json_number (hex_text neg up s) = false.
Proof. destruct neg, up; vm_compute; reflexivity. Qed.

Lemma sci_is_e0 m q : sci_is m 0 q <-> q = m.
Proof. unfold sci_is. cbn. lia. Qed.

Theorem parse_exact_x lex (ty64 : bool) t m e l b :
  lex_law lex -> spelling_x t m e l -> json_of t b ->
  (l = true ->
     (forall q, sci_is m e q -> in_range ty64 q = true -> parse_int ty64 lex b = Ok q) /\
     ((forall q, sci_is m e q -> in_range ty64 q = false) -> exists err, parse_int ty64 lex b = Err err)) /\
  (l = false -> exists err, parse_int ty64 lex b = Err err).
Proof.
  intros L S J. destruct S as [t m e l S|neg up s n Hv]; [exact (parse_exact_lim lex ty64 t m e l b L S J)|].
  destruct J as [->|[_ J]]; [|rewrite hex_text_not_number in J; discriminate].
  destruct (signed_hex_exact lex ty64 neg up s n L Hv) as (_ & A & B). cbv zeta in A, B.
  split; [|discriminate]. intros _. split.
  - intros q Hq Hr. apply (proj1 (sci_is_e0 _ _)) in Hq. rewrite Hq in Hr |- *. exact (A Hr).
  - intros H. apply B. apply H. apply sci_is_e0. reflexivity.
Qed.

(* safety half for the extended relation: never a value other than the in-range integer denoted *)
Theorem parse_sound_x lex (ty64 : bool) t m e b q :
  lex_law lex -> denotes_x t m e -> json_of t b ->
  parse_int ty64 lex b = Ok q -> sci_is m e q /\ in_range ty64 q = true.
Proof.
  intros L [D|(neg & up & s & n & Hv & -> & -> & ->)] J Hq; [exact (parse_sound lex ty64 t m e b q L D J Hq)|].
  destruct J as [->|[_ J]]; [|rewrite hex_text_not_number in J; discriminate].
  destruct (signed_hex_exact lex ty64 neg up s n L Hv) as (_ & A & B). cbv zeta in A, B.
  destruct (in_range ty64 (hex_text_value neg n)) eqn:Hr.
  - rewrite (A eq_refl) in Hq. injection Hq as <-. split; [apply sci_is_e0; reflexivity|exact Hr].
  - destruct (B eq_refl) as [err E]. congruence.
Qed.
