(* Proofs about the model of pkg/ethtypes, part 9: the complete characterisation over ALL texts.
   BigIntegerFromString returns q for a text exactly when the text is a documented integer text with
   value q, or a floating-point text (that is not an integer text) within the library limits whose
   value is the integer q; HexInteger / HexUint64 return q exactly when the lexer yields such a text
   and q is in the range of the type.  Everything else is an error. *)
From Coq Require Import List NArith ZArith Lia Bool Arith.
From Coq Require Import Init.Byte.
From FFS Require Import Base.Res Base.Bytes EthTypes.Model EthTypes.Spec EthTypes.SpecBig
  EthTypes.Proofs EthTypes.ProofsInt EthTypes.ProofsNum EthTypes.ProofsBig EthTypes.ProofsBigInt EthTypes.ProofsBigFloat.
Import ListNotations.

(* [accepts t q]: the specification of what is accepted, with which value *)
Definition accepts (t : bytes) (q : Z) : Prop :=
  go_int t q \/
  exists f, t = fnum_text f /\ fnum_wf f = true /\ float_only f = true /\ big_limits_float f = true /\
            sci2_is (f_mant f) (f_e10 f) (f_e2 f) q.

Theorem big_iff t q : BigIntegerFromString t = Ok q <-> accepts t q.
Proof.
  split.
  - intros H. pose proof (big_go_denotes t q H) as D. destruct D as [t z Hi|f q Hw Hfo Hs]; [left; exact Hi|].
    right. exists f. pose proof (float_text_exact f Hw Hfo) as E.
    destruct (big_limits_float f).
    + repeat (split; [first [reflexivity|assumption]|]). exact Hs.
    + destruct E as [err E]. rewrite E in H. discriminate.
  - intros [Hi|(f & -> & Hw & Hfo & Hl & Hs)]; [apply big_from_go_int; exact Hi|].
    pose proof (float_text_exact f Hw Hfo) as E. rewrite Hl in E. apply (proj1 E). exact Hs.
Qed.

Theorem parse_iff lex (ty64 : bool) b q :
  parse_int ty64 lex b = Ok q <->
  exists t, (lex b = JNum t \/ lex b = JStr t) /\ accepts t q /\ in_range ty64 q = true.
Proof.
  split.
  - intros H.
    assert (Hx : exists t, (lex b = JNum t \/ lex b = JStr t) /\ exists z, BigIntegerFromString t = Ok z /\
               (if ty64 then ((0 <=? z) && (z <? 2 ^ 64))%Z = true /\ q = Z.of_N (Z.to_N z) else (z <? 0)%Z = false /\ q = z)).
    { unfold parse_int, HexInteger_UnmarshalJSON, HexUint64_UnmarshalJSON, UnmarshalBigInt in H.
      destruct (lex b) as [|t|t|]; try (destruct ty64; discriminate); exists t; (split; [auto|]);
        (destruct (BigIntegerFromString t) as [z| |]; cbn [bind] in H; try (destruct ty64; discriminate); exists z; split; [reflexivity|]);
        (destruct ty64; [destruct ((0 <=? z) && (z <? 2 ^ 64))%Z; cbn [bind] in H; [injection H as <-; auto|discriminate]
                        |destruct (z <? 0)%Z; [discriminate|injection H as <-; auto]]). }
    destruct Hx as (t & Hl & z & Hz & Hq). exists t. split; [exact Hl|].
    destruct ty64.
    + destruct Hq as [R ->]. rewrite Z2N.id by lia. split; [apply big_iff; exact Hz|exact R].
    + destruct Hq as [R ->]. split; [apply big_iff; exact Hz|unfold in_range; lia].
  - intros (t & Hl & Ha & Hr). apply big_iff in Ha.
    unfold parse_int, HexInteger_UnmarshalJSON, HexUint64_UnmarshalJSON, UnmarshalBigInt.
    unfold in_range in Hr.
    destruct Hl as [-> | ->]; rewrite Ha; cbn [bind]; destruct ty64.
    + rewrite Hr. cbn [bind]. f_equal. lia.
    + replace (q <? 0)%Z with false by lia. reflexivity.
    + rewrite Hr. cbn [bind]. f_equal. lia.
    + replace (q <? 0)%Z with false by lia. reflexivity.
Qed.

(* the specification is unambiguous: a text is accepted with at most one value *)
Corollary accepts_unique t q q' : accepts t q -> accepts t q' -> q = q'.
Proof. intros H H'. apply big_iff in H. apply big_iff in H'. congruence. Qed.
