(* Proofs about the specifications of C19, part 7: coherence of the two specifications.
   Every spelling of the property's quantifier ([denotes], EthTypes/Spec.v) that denotes the integer q
   is a text math/big documents ([go_denotes], EthTypes/SpecBig.v part B) with the same value q.
   So the all-texts theorem (ProofsBig.v) speaks about a superset of the quantifier's classes and
   agrees with the quantifier's own denotation on them. *)
From Coq Require Import List NArith ZArith Lia Bool Arith.
From Coq Require Import ZifyN ZifyNat ZifyBool.
From Coq Require Import Init.Byte.
From FFS Require Import Base.Res Base.Bytes EthTypes.Model EthTypes.Spec EthTypes.SpecBig
  EthTypes.Proofs EthTypes.ProofsInt EthTypes.ProofsNum EthTypes.ProofsBig.
Import ListNotations.
Local Open Scope N_scope.

Lemma digits_val_ext b (dv dv' : byte -> option N) s :
  (forall c d, dv c = Some d -> dv' c = Some d) ->
  forall acc v, digits_val b dv s acc = Some v -> digits_val b dv' s acc = Some v.
Proof.
  intros H. induction s as [|c s IH]; intros acc v Hv; [exact Hv|].
  cbn [digits_val] in *. destruct (dv c) as [d|] eqn:E; [|discriminate]. rewrite (H c d E). apply IH. exact Hv.
Qed.

Lemma dec_val_base_digit c d : dec_val c = Some d -> base_digit 10 c = Some d.
Proof.
  unfold dec_val, base_digit, any_digit. destruct ((48 <=? b2n c) && (b2n c <=? 57)) eqn:E; [|discriminate].
  intros [= <-]. replace (b2n c - 48 <? 10) with true by lia. reflexivity.
Qed.

Lemma hex_val_base_digit c d : hex_val c = Some d -> base_digit 16 c = Some d.
Proof.
  unfold hex_val, base_digit, any_digit.
  destruct ((48 <=? b2n c) && (b2n c <=? 57)) eqn:E1.
  { intros [= <-]. replace (b2n c - 48 <? 16) with true by lia. reflexivity. }
  destruct ((97 <=? b2n c) && (b2n c <=? 102)) eqn:E2.
  { intros [= <-]. replace ((97 <=? b2n c) && (b2n c <=? 122)) with true by lia.
    replace (b2n c - 87 <? 16) with true by lia. reflexivity. }
  destruct ((65 <=? b2n c) && (b2n c <=? 70)) eqn:E3; [|discriminate].
  intros [= <-]. replace ((97 <=? b2n c) && (b2n c <=? 122)) with false by lia.
  replace ((65 <=? b2n c) && (b2n c <=? 90)) with true by lia.
  replace (b2n c - 55 <? 16) with true by lia. reflexivity.
Qed.

(* a text without underscores is its own digit string *)
Lemma unsep_plain s : forall a, forallb (fun c => negb (b2n c =? 95)) s = true -> unsep a s s.
Proof.
  induction s as [|c s IH]; intros a H; [constructor|].
  cbn [forallb] in H. apply andb_true_iff in H. destruct H as [Hc Hs].
  apply unsep_dig; [unfold c_us; lia|apply IH; exact Hs].
Qed.

Lemma digits_no_us b dv s acc v :
  (forall c d, dv c = Some d -> b2n c <> 95) -> digits_val b dv s acc = Some v ->
  forallb (fun c => negb (b2n c =? 95)) s = true.
Proof.
  intros H. revert acc. induction s as [|c s IH]; intros acc Hv; [reflexivity|].
  cbn [digits_val] in Hv. destruct (dv c) as [d|] eqn:E; [|discriminate].
  cbn [forallb]. rewrite (IH _ Hv). pose proof (H c d E). replace (b2n c =? 95) with false by lia. reflexivity.
Qed.

Lemma dec_not_us c d : dec_val c = Some d -> b2n c <> 95.
Proof. intros H. destruct (dec_val_digit c d H) as (_ & _ & Hc). lia. Qed.

Lemma hex_not_us c d : hex_val c = Some d -> b2n c <> 95.
Proof.
  unfold hex_val. destruct ((48 <=? b2n c) && (b2n c <=? 57)) eqn:E1; [lia|].
  destruct ((97 <=? b2n c) && (b2n c <=? 102)) eqn:E2; [lia|].
  destruct ((65 <=? b2n c) && (b2n c <=? 70)) eqn:E3; [lia|discriminate].
Qed.

Lemma go_int_mag_dec s n : no_leading_zero s = true -> dec_value s = Some n -> go_int_mag s n.
Proof.
  intros Hz Hv. unfold dec_value in Hv. destruct s as [|c s0] eqn:Es; [discriminate|]. rewrite <- Es in *.
  apply (gim_dec s s n).
  - apply unsep_plain. apply (digits_no_us 10 dec_val s 0 n dec_not_us Hv).
  - rewrite Es. discriminate.
  - exact Hz.
  - apply (digits_val_ext 10 dec_val (base_digit 10) s dec_val_base_digit 0 n Hv).
Qed.

Lemma sci_is_zero_exp m q : sci_is m 0 q -> q = m.
Proof. unfold sci_is. cbn. lia. Qed.

Theorem denotes_go_denotes t m e q : denotes t m e -> sci_is m e q -> go_denotes t q.
Proof.
  intros D S. destruct D as [s n Hz Hv|s n Hz Hv|s n Hv|j Hwf].
  - apply sci_is_zero_exp in S. subst q. apply gd_int.
    apply (gi s false s n (gs_none s) (go_int_mag_dec s n Hz Hv)).
  - apply sci_is_zero_exp in S. subst q. apply gd_int.
    apply (gi (t_minus ++ s) true s n); [|exact (go_int_mag_dec s n Hz Hv)].
    unfold t_minus. cbn [app]. apply gs_minus. apply b2n_ch. lia.
  - apply sci_is_zero_exp in S. subst q. apply gd_int.
    apply (gi (t_0x ++ s) false (t_0x ++ s) n (gs_none _)).
    unfold hex_value in Hv. destruct s as [|c s0] eqn:Es; [discriminate|]. rewrite <- Es in *.
    unfold t_0x. cbn [app].
    apply (gim_prefix (ch 48) (ch 120) 16 s s n).
    + apply b2n_ch. lia.
    + vm_compute. reflexivity.
    + apply unsep_plain. apply (digits_no_us 16 hex_val s 0 n hex_not_us Hv).
    + rewrite Es. discriminate.
    + apply (digits_val_ext 16 hex_val (base_digit 16) s hex_val_base_digit 0 n Hv).
  - pose proof (jnum_wf_jwf j Hwf) as W.
    destruct (j_frac j) as [fp|] eqn:Ef; [|destruct (j_exp j) as [[[up sg] d]|] eqn:Ee].
    3:{ (* a plain decimal integer *)
      assert (Hje : j_e j = 0%Z) by (unfold j_e; rewrite Ef, Ee; reflexivity).
      rewrite Hje in S. apply sci_is_zero_exp in S. subst q.
      assert (Hm : j_mant j = signed (j_neg j) (nat_of_dec (j_int j))).
      { unfold j_mant. rewrite Ef, app_nil_r. unfold signed. reflexivity. }
      assert (Hv : dec_value (j_int j) = Some (nat_of_dec (j_int j))).
      { unfold dec_value. pose proof (wf_nlz j W). destruct (j_int j) eqn:Ei; [discriminate|]. rewrite <- Ei.
        rewrite nat_of_dec_fold by (rewrite Ei; rewrite <- Ei; exact (wf_int j W)).
        apply all_dec_digits_val. exact (wf_int j W). }
      rewrite Hm. apply gd_int. unfold jnum_text. rewrite Ef, Ee, !app_nil_r.
      apply (gi _ (j_neg j) (j_int j) _); [|exact (go_int_mag_dec _ _ (wf_nlz j W) Hv)].
      destruct (j_neg j); [unfold t_minus; cbn [app]; apply gs_minus; apply b2n_ch; lia|apply gs_none]. }
    all: set (f := mkF (if j_neg j then 2 else 0) (j_int j) (j_frac j)
                       (match j_exp j with None => None | Some (up, sg, d) => Some (ch (if up then 69 else 101), sg, d) end)).
    all: assert (Ht : jnum_text j = fnum_text f)
           by (unfold jnum_text, fnum_text, f; cbn [f_sign f_int f_frac f_exp]; destruct (j_neg j); destruct (j_exp j) as [[[? ?] ?]|]; reflexivity).
    all: assert (Hfw : fnum_wf f = true).
    1,3: (unfold f, fnum_wf, f_fdigits; cbn [f_sign f_int f_frac f_exp];
          replace ((if j_neg j then 2 else 0) <=? 2) with true by (destruct (j_neg j); reflexivity);
          rewrite (wf_int j W); pose proof (wf_frac j W) as Hfr; unfold j_fdigits in Hfr; rewrite Hfr; cbn [andb];
          pose proof (wf_nlz j W) as Hz; destruct (j_int j) as [|c0 i0] eqn:Ei; [discriminate|]; cbn [app negb andb];
          destruct (j_exp j) as [[[up' sg'] d']|] eqn:Ee'; [|reflexivity];
          destruct (wf_exp j W up' sg' d' Ee') as (Hd & Hne & Hsg);
          replace (exp_letter (ch (if up' then 69 else 101))) with (Some 10) by (destruct up'; vm_compute; reflexivity);
          rewrite Hd; replace (sg' <=? 2) with true by lia; destruct d'; [congruence|reflexivity]).
    all: assert (Hfo : float_only f = true) by (unfold f, float_only; cbn [f_frac f_exp]; rewrite ?Ef, ?Ee; reflexivity).
    all: rewrite Ht; apply (gd_float f q Hfw Hfo).
    all: assert (Hm : f_mant f = j_mant j)
           by (unfold f, f_mant, j_mant, f_fdigits, signed; cbn [f_sign f_int f_frac]; destruct (j_neg j); reflexivity).
    all: assert (He2 : f_e2 f = 0%Z)
           by (unfold f, f_e2, f_ebase; cbn [f_exp]; destruct (j_exp j) as [[[up' ?] ?]|]; [|reflexivity];
               replace (exp_letter (ch (if up' then 69 else 101))) with (Some 10) by (destruct up'; vm_compute; reflexivity); reflexivity).
    all: assert (He10 : f_e10 f = j_e j)
           by (unfold f, f_e10, f_ebase, f_written, j_e, f_fdigits, signed; cbn [f_exp f_frac]; destruct (j_exp j) as [[[up' sg'] d']|]; [|destruct (j_frac j); reflexivity];
               replace (exp_letter (ch (if up' then 69 else 101))) with (Some 10) by (destruct up'; vm_compute; reflexivity);
               cbn [N.eqb Pos.eqb]; destruct (j_frac j); reflexivity).
    all: unfold sci2_is; rewrite Hm, He2, He10; unfold sci_is in S; cbn [Z.opp Z.max Z.compare Z.pow]; rewrite !Z.mul_1_r; exact S.
Qed.
