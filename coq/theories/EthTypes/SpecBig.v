(* Specification of what math/big documents, written from the package documentation (Int.SetString
   with base 0, Float.Parse / ParseFloat with base 10, Rat.SetString) and from the limits stated in
   the library source (big.Float exponent range MinExp..MaxExp = int32; Rat.SetString "avoid
   excessively large exponents": |exp5| <= 1e6, |exp2| <= 1e7; strconv.ParseInt(.., 10, 64) for the
   written exponent).  Shares no code with EthTypes/Model.v.

   Part A: the library limits on the JSON-number spellings of the property's quantifier - the exact
           boundary of C19_parse_exact.
   Part B: the syntax accepted through math/big outside the quantifier ('+' sign, 0X / 0b / 0o
           prefixes, leading-zero octal, '_' separators, 'p' binary exponents, leading zeros and
           empty integer / fraction parts in floating-point texts) and the value each text denotes. *)
From Coq Require Import List NArith ZArith Lia Bool Arith.
From Coq Require Import Init.Byte.
From FFS Require Import Base.Bytes EthTypes.Spec.
Import ListNotations.
Local Open Scope Z_scope.

(* ================================================================================================
   Part A.  Library limits on a JSON number text  [-] int [. frac] [e|E [+|-] digits]
   ================================================================================================ *)
(* the exponent as written (0 when there is none) *)
Definition j_written_exp (j : jnum) : Z :=
  match j_exp j with
  | None => 0
  | Some (_, sg, d) => if (sg =? 2)%N then - Z.of_N (nat_of_dec d) else Z.of_N (nat_of_dec d)
  end.

(* neither a fraction nor an exponent: the text is a plain decimal integer (Int.SetString takes it,
   no limit applies) *)
Definition j_plain (j : jnum) : bool :=
  match j_frac j, j_exp j with None, None => true | _, _ => false end.

(* number of bits of |z| (0 for 0) *)
Definition bitlen (z : Z) : Z := Z.of_N (N.size (Z.abs_N z)).

Definition int64_ok (x : Z) : bool := (- 2 ^ 63 <=? x) && (x <=? 2 ^ 63 - 1).
Definition float_exp_ok (x : Z) : bool := (- 2 ^ 31 <=? x) && (x <=? 2 ^ 31 - 1).   (* big.MinExp .. big.MaxExp *)

(* A text with a fraction or an exponent is within the library's limits iff
   - the written exponent fits int64 (strconv.ParseInt in scanExponent), and
   - the mantissa is zero, or: the binary exponent of the value's leading bit, bitlen(mantissa) + e with
     e = written exponent - number of fraction digits, is a big.Float exponent (int32), and |e| <= 10^6
     (Rat.SetString refuses to expand a larger power of five). *)
Definition big_limits_json (j : jnum) : bool :=
  j_plain j ||
  (int64_ok (j_written_exp j) &&
   ((j_mant j =? 0) ||
    (float_exp_ok (bitlen (j_mant j) + j_e j) && (Z.abs (j_e j) <=? 1000000)))).

(* [spelling t m e l]: [denotes t m e] together with the verdict l of the library limits on that text *)
Inductive spelling : bytes -> Z -> Z -> bool -> Prop :=
| sp_dec : forall s n, no_leading_zero s = true -> dec_value s = Some n -> spelling s (Z.of_N n) 0 true
| sp_neg_dec : forall s n, no_leading_zero s = true -> dec_value s = Some n -> spelling (t_minus ++ s) (- Z.of_N n) 0 true
| sp_hex : forall s n, hex_value s = Some n -> spelling (t_0x ++ s) (Z.of_N n) 0 true
| sp_json : forall j, jnum_wf j = true -> spelling (jnum_text j) (j_mant j) (j_e j) (big_limits_json j).

(* ================================================================================================
   Part B.  The texts math/big accepts, and their values
   ================================================================================================ *)
Local Open Scope N_scope.

(* digit value in bases up to 36: 0-9, a-z, A-Z *)
Definition any_digit (c : byte) : option N :=
  let n := b2n c in
  if (48 <=? n) && (n <=? 57) then Some (n - 48)
  else if (97 <=? n) && (n <=? 122) then Some (n - 87)
  else if (65 <=? n) && (n <=? 90) then Some (n - 55)
  else None.
Definition base_digit (base : N) (c : byte) : option N :=
  match any_digit c with Some d => if d <? base then Some d else None | None => None end.

Definition c_us : N := 95.   (* '_' *)

(* "underscore characters may separate a base prefix and an adjacent digit or successive digits; such
   underscores do not change the value of the number": [unsep a t ds] - the text t is the character
   string ds with single underscores put between two successive characters (and, when a = true, i.e.
   right after a base prefix, possibly before the first one).  A text never ends with an underscore. *)
Inductive unsep : bool -> bytes -> bytes -> Prop :=
| unsep_nil : forall a, unsep a [] []
| unsep_dig : forall a c t ds, b2n c <> c_us -> unsep true t ds -> unsep a (c :: t) (c :: ds)
| unsep_us : forall u c t ds, b2n u = c_us -> b2n c <> c_us -> unsep true t ds -> unsep true (u :: c :: t) (c :: ds).

(* base prefixes of Int.SetString(s, 0): 0b 0B -> 2, 0o 0O -> 8, 0x 0X -> 16 *)
Definition prefix_base (c : byte) : option N :=
  let n := b2n c in
  if (n =? 98) || (n =? 66) then Some 2
  else if (n =? 111) || (n =? 79) then Some 8
  else if (n =? 120) || (n =? 88) then Some 16
  else None.

(* magnitude of an integer text in base 0 *)
Inductive go_int_mag : bytes -> N -> Prop :=
(* decimal: no prefix, first digit not 0 (or the text "0") *)
| gim_dec : forall t ds n, unsep false t ds -> ds <> [] -> no_leading_zero ds = true ->
    digits_val 10 (base_digit 10) ds 0 = Some n -> go_int_mag t n
(* "0" + octal digits *)
| gim_oct : forall z t ds n, b2n z = 48 -> unsep true t ds -> ds <> [] ->
    digits_val 8 (base_digit 8) ds 0 = Some n -> go_int_mag (z :: t) n
(* 0b / 0o / 0x (either case) + digits of that base *)
| gim_prefix : forall z p base t ds n, b2n z = 48 -> prefix_base p = Some base -> unsep true t ds -> ds <> [] ->
    digits_val base (base_digit base) ds 0 = Some n -> go_int_mag (z :: p :: t) n.

(* optional sign *)
Inductive go_sign : bytes -> bool -> bytes -> Prop :=
| gs_none : forall t, go_sign t false t
| gs_plus : forall c t, b2n c = 43 -> go_sign (c :: t) false t
| gs_minus : forall c t, b2n c = 45 -> go_sign (c :: t) true t.

Definition signed (neg : bool) (n : N) : Z := if neg then (- Z.of_N n)%Z else Z.of_N n.

(* [go_int t z]: Int.SetString(t, 0) syntax, value z *)
Inductive go_int : bytes -> Z -> Prop :=
| gi : forall t neg body n, go_sign t neg body -> go_int_mag body n -> go_int t (signed neg n).

(* Floating-point text of Float.Parse(s, 10) (no prefix, no separators):
     [sign] digits [ "." digits ] [ (e|E|p|P) [sign] digits ]   with at least one mantissa digit;
   e/E is a decimal exponent, p/P a binary one. *)
Record fnum := mkF {
  f_sign : N;                        (* 0 none, 1 '+', 2 '-' *)
  f_int : bytes;                     (* decimal digits, possibly none, leading zeros allowed *)
  f_frac : option bytes;             (* "." followed by decimal digits, possibly none *)
  f_exp : option (byte * N * bytes)  (* exponent letter, sign 0/1/2, non-empty decimal digits *) }.

Definition f_fdigits (f : fnum) : bytes := match f_frac f with None => [] | Some d => d end.

Definition exp_letter (c : byte) : option N :=   (* the exponent's base *)
  let n := b2n c in
  if (n =? 101) || (n =? 69) then Some 10 else if (n =? 112) || (n =? 80) then Some 2 else None.

Definition fnum_wf (f : fnum) : bool :=
  (f_sign f <=? 2) && all_dec (f_int f) && all_dec (f_fdigits f) &&
  negb (match f_int f ++ f_fdigits f with [] => true | _ => false end) &&
  match f_exp f with
  | None => true
  | Some (c, sg, d) => (match exp_letter c with Some _ => true | None => false end) && (sg <=? 2) &&
                       all_dec d && negb (match d with [] => true | _ => false end)
  end.

Definition sign_chars (sg : N) : bytes := if sg =? 1 then [ch 43] else if sg =? 2 then [ch 45] else [].

Definition fnum_text (f : fnum) : bytes :=
  sign_chars (f_sign f) ++ f_int f ++
  (match f_frac f with None => [] | Some d => ch 46 :: d end) ++
  (match f_exp f with None => [] | Some (c, sg, d) => c :: sign_chars sg ++ d end).

(* value = f_mant * 10 ^ f_e10 * 2 ^ f_e2 *)
Definition f_mant (f : fnum) : Z := signed (f_sign f =? 2) (nat_of_dec (f_int f ++ f_fdigits f)).
Definition f_written (f : fnum) : Z :=
  match f_exp f with None => 0%Z | Some (_, sg, d) => signed (sg =? 2) (nat_of_dec d) end.
Definition f_ebase (f : fnum) : N :=
  match f_exp f with None => 10 | Some (c, _, _) => match exp_letter c with Some b => b | None => 10 end end.
Definition f_e10 (f : fnum) : Z :=
  ((if (f_ebase f =? 10)%N then f_written f else 0) - Z.of_nat (length (f_fdigits f)))%Z.
Definition f_e2 (f : fnum) : Z := if f_ebase f =? 2 then f_written f else 0%Z.

(* m * 10^e10 * 2^e2 is the integer q *)
Definition sci2_is (m e10 e2 q : Z) : Prop :=
  (m * 10 ^ Z.max e10 0 * 2 ^ Z.max e2 0 = q * 10 ^ Z.max (- e10) 0 * 2 ^ Z.max (- e2) 0)%Z.

(* A floating-point text is read as such only when it is not an integer text: it has a point or an
   exponent, or it is a digit string with a leading 0 that is not octal (contains 8 or 9: "08" is
   decimal 8, while "010" is the integer text for octal 8). *)
Definition has_89 (s : bytes) : bool := existsb (fun c => 56 <=? b2n c) s.
Definition float_only (f : fnum) : bool :=
  match f_frac f, f_exp f with
  | None, None => match f_int f with c :: _ :: _ => (b2n c =? 48) && has_89 (f_int f) | _ => false end
  | _, _ => true
  end.

(* [go_denotes t q]: t is a text math/big accepts as the integer q - an Int.SetString(t, 0) text, or
   (only when it is not one) a decimal floating-point text whose value is the integer q *)
Inductive go_denotes : bytes -> Z -> Prop :=
| gd_int : forall t z, go_int t z -> go_denotes t z
| gd_float : forall f q, fnum_wf f = true -> float_only f = true ->
    sci2_is (f_mant f) (f_e10 f) (f_e2 f) q -> go_denotes (fnum_text f) q.

(* The library limits on a floating-point text (same sources as part A; for a JSON number they coincide
   with [big_limits_json]): written exponent in int64 and - unless the mantissa is zero - the binary
   exponent of the leading bit in int32 (big.Float), the power of five at most 10^6 and the power of
   two at most 10^7 in absolute value (Rat.SetString: exp5 = e10, exp2 = e10 + e2). *)
Definition big_limits_float (f : fnum) : bool :=
  int64_ok (f_written f) &&
  ((f_mant f =? 0)%Z ||
   (float_exp_ok (bitlen (f_mant f) + f_e10 f + f_e2 f) &&
    (Z.abs (f_e10 f) <=? 1000000)%Z && (Z.abs (f_e10 f + f_e2 f) <=? 10000000)%Z)).
