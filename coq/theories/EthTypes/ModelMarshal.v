(* Executable model of pkg/ethtypes, part 2: MarshalJSON of the address and byte-string types
   (address.go, hexbytes.go).  Every one of the five methods is
       return []byte(fmt.Sprintf(`"%s"`, x.String())), nil
   i.e. the String() text between two double quotes, without any escaping.  (HexInteger / HexUint64
   MarshalJSON are in EthTypes/Model.v.)  No proofs here. *)
From Coq Require Import List NArith ZArith Bool Arith.
From Coq Require Import Init.Byte.
From FFS Require Import Base.Res Base.Bytes EthTypes.Model.
Import ListNotations.

Definition Address0xHex_MarshalJSON (a : bytes) : bytes := quote (Address0xHex_String a).
Definition AddressPlainHex_MarshalJSON (a : bytes) : bytes := quote (AddressPlainHex_String a).
(* String() of the checksum type indexes into the hash text: a panic there is a panic here *)
Definition AddressWithChecksum_MarshalJSON (H : bytes -> bytes) (a : bytes) : res bytes :=
  do s <- AddressWithChecksum_String H a ; Ok (quote s).
Definition HexBytesPlain_MarshalJSON (h : bytes) : bytes := quote (HexBytesPlain_String h).
Definition HexBytes0xPrefix_MarshalJSON (h : bytes) : bytes := quote (HexBytes0xPrefix_String h).
