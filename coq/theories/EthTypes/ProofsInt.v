(* Proofs about the model of pkg/ethtypes, part 2: integer parsing.  The character-level model of
   math/big's nat.scan / Int.SetString(s,0) on the spelling classes of the property: canonical
   decimal, 0x-hex of any letter case; print forms of HexInteger / HexUint64 and the print/parse
   round trip. *)
From Coq Require Import List NArith ZArith Lia Bool Arith.
From Coq Require Import ZifyN ZifyNat ZifyBool.
From Coq Require Import Init.Byte.
From FFS Require Import Base.Res Base.Bytes EthTypes.Model EthTypes.Spec EthTypes.Proofs.
Import ListNotations.
Local Open Scope N_scope.

Ltac neqb := symmetry; apply N.eqb_neq; lia.

(* ---------- digit characters ---------- *)
Lemma dec_val_digit c d : dec_val c = Some d -> digit_val (b2n c) = d /\ d < 10 /\ 48 <= b2n c <= 57.
Proof.
  unfold dec_val, digit_val. destruct ((48 <=? b2n c) && (b2n c <=? 57)) eqn:E; [|discriminate].
  intros [= <-]. lia.
Qed.

Lemma hex_val_digit c d : hex_val c = Some d -> digit_val (b2n c) = d /\ d < 16.
Proof.
  unfold hex_val, digit_val.
  destruct ((48 <=? b2n c) && (b2n c <=? 57)) eqn:E1; [intros [= <-]; lia|].
  destruct ((97 <=? b2n c) && (b2n c <=? 102)) eqn:E2.
  { intros [= <-]. replace ((97 <=? b2n c) && (b2n c <=? 122)) with true by lia. lia. }
  destruct ((65 <=? b2n c) && (b2n c <=? 70)) eqn:E3; [|discriminate].
  intros [= <-].
  replace ((97 <=? b2n c) && (b2n c <=? 122)) with false by lia.
  replace ((65 <=? b2n c) && (b2n c <=? 90)) with true by lia. lia.
Qed.

Lemma digit_val_46 : digit_val 46 = 63. Proof. reflexivity. Qed.
Lemma digit_val_95 : digit_val 95 = 63. Proof. reflexivity. Qed.

Lemma digits_val_app b dv s1 : forall s2 acc,
  digits_val b dv (s1 ++ s2) acc =
  match digits_val b dv s1 acc with Some v => digits_val b dv s2 v | None => None end.
Proof.
  induction s1 as [|c s1 IH]; intros s2 acc; [reflexivity|].
  cbn [app digits_val]. destruct (dv c); [apply IH|reflexivity].
Qed.

(* the loop of nat.scan over a run of digits of the base *)
Lemma scan_loop_digits base0 b (dv : byte -> option N) :
  b <= 36 ->
  (forall c d, dv c = Some d -> digit_val (b2n c) = d /\ d < b) ->
  forall s rest fracOk prev inval count dp acc v,
    digits_val b dv s acc = Some v ->
    scan_loop base0 b (s ++ rest) fracOk prev inval count dp acc =
    scan_loop base0 b rest fracOk (if is_nil s then prev else PDig) inval (count + N.of_nat (length s)) dp v.
Proof.
  intros Hb Hdv. induction s as [|c s IH]; intros rest fracOk prev inval count dp acc v Hv.
  - cbn in Hv. injection Hv as <-. cbn [app is_nil length]. f_equal. lia.
  - cbn [digits_val] in Hv. destruct (dv c) as [d|] eqn:Ec; [|discriminate].
    destruct (Hdv c d Ec) as [Hd Hlt].
    cbn [app scan_loop].
    assert (N46 : (b2n c =? 46) = false).
    { apply N.eqb_neq. intros E. rewrite E, digit_val_46 in Hd. lia. }
    assert (N95 : (b2n c =? 95) = false).
    { apply N.eqb_neq. intros E. rewrite E, digit_val_95 in Hd. lia. }
    rewrite N46, N95. cbn [andb]. rewrite Hd.
    replace (b <=? d) with false by lia.
    rewrite (IH rest fracOk PDig inval (count + 1) dp (acc * b + d) v Hv).
    cbn [is_nil length]. destruct s; cbn [is_nil]; f_equal; lia.
Qed.

Lemma digits_val_nonempty_length b dv s acc v : digits_val b dv s acc = Some v -> s <> [] -> (0 < N.of_nat (length s)).
Proof. destruct s; [congruence|cbn; lia]. Qed.

(* ---------- Int.SetString(s, 0) on "0x" + hex digits of any case ---------- *)
Lemma b2n_ch n : n < 256 -> b2n (ch n) = n.
Proof. apply b2n_n2b. Qed.

Theorem set_string_hex s n : hex_value s = Some n -> int_set_string0 (t_0x ++ s) = Some (Z.of_N n).
Proof.
  unfold hex_value. destruct s as [|c0 s0] eqn:Es; [discriminate|]. rewrite <- Es. intros Hv.
  unfold int_set_string0, scan_sign, t_0x. cbn [app].
  rewrite (b2n_ch 48) by lia. cbn [N.eqb Pos.eqb].
  unfold nat_scan, scan_prefix. rewrite (b2n_ch 48), (b2n_ch 120) by lia. cbn [N.eqb Pos.eqb orb negb].
  rewrite <- (app_nil_r s).
  rewrite (scan_loop_digits true 16 hex_val ltac:(lia) hex_val_digit s [] false PDig false 0 None 0 n Hv).
  cbn [scan_loop l_count l_inval l_prev l_rest l_acc l_dp].
  replace (0 + N.of_nat (length s) =? 0) with false by (rewrite Es; cbn [length]; neqb).
  rewrite Es. cbn [is_nil is_sep orb negb s_ok s_rest s_val andb]. reflexivity.
Qed.

(* ---------- Int.SetString(s, 0) on canonical decimal ---------- *)
Lemma scan_prefix_nonzero base0 fracOk c s :
  b2n c <> 48 -> scan_prefix base0 fracOk (c :: s) = (10, 0, PDot, 0, c :: s).
Proof.
  intros H. unfold scan_prefix. destruct base0; [|reflexivity].
  replace (b2n c =? 48) with false by neqb. reflexivity.
Qed.

Lemma nat_scan_dec s n :
  no_leading_zero s = true -> dec_value s = Some n ->
  nat_scan true false s = mkScan n 10 (Z.of_nat (length s)) [] true.
Proof.
  unfold dec_value. destruct s as [|c s0] eqn:Es; [discriminate|]. intros Hz Hv.
  assert (Hd : exists d, dec_val c = Some d).
  { cbn [digits_val] in Hv. destruct (dec_val c); [eauto|discriminate]. }
  destruct Hd as [d Hd]. destruct (dec_val_digit c d Hd) as (Hdv & Hd10 & Hc).
  assert (Hcompat : forall c d, dec_val c = Some d -> digit_val (b2n c) = d /\ d < 10).
  { intros c' d' H'. destruct (dec_val_digit c' d' H') as (? & ? & ?). split; assumption. }
  destruct (N.eq_dec (b2n c) 48) as [E48|N48].
  - (* "0": only a single zero is canonical *)
    destruct s0 as [|c1 s1]; [|cbn in Hz; rewrite E48 in Hz; discriminate].
    cbn [digits_val] in Hv. rewrite Hd in Hv. injection Hv as <-.
    unfold nat_scan, scan_prefix. rewrite E48. cbn.
    f_equal. unfold dec_val in Hd. rewrite E48 in Hd. cbn in Hd. congruence.
  - unfold nat_scan. rewrite scan_prefix_nonzero by exact N48. rewrite <- Es in *.
    rewrite <- (app_nil_r s).
    rewrite (scan_loop_digits true 10 dec_val ltac:(lia) Hcompat s [] false PDot false 0 None 0 n Hv).
    cbn [scan_loop l_count l_inval l_prev l_rest l_acc l_dp].
    replace (0 + N.of_nat (length s) =? 0) with false by (rewrite Es; cbn [length]; neqb).
    rewrite app_nil_r, Es. cbn [is_nil is_sep orb negb]. f_equal.
Qed.

Lemma scan_sign_digit c s d : dec_val c = Some d -> scan_sign (c :: s) = Some (false, c :: s).
Proof.
  intros H. destruct (dec_val_digit c d H) as (_ & _ & Hc). unfold scan_sign.
  replace (b2n c =? 45) with false by neqb. replace (b2n c =? 43) with false by neqb. reflexivity.
Qed.

Theorem set_string_dec s n :
  no_leading_zero s = true -> dec_value s = Some n -> int_set_string0 s = Some (Z.of_N n).
Proof.
  intros Hz Hv. unfold int_set_string0.
  destruct s as [|c s0] eqn:Es; [discriminate|].
  assert (Hd : exists d, dec_val c = Some d).
  { unfold dec_value in Hv. cbn [digits_val] in Hv. destruct (dec_val c); [eauto|discriminate]. }
  destruct Hd as [d Hd]. rewrite (scan_sign_digit c s0 d Hd).
  rewrite (nat_scan_dec (c :: s0) n Hz Hv). reflexivity.
Qed.

Theorem set_string_neg_dec s n :
  no_leading_zero s = true -> dec_value s = Some n -> int_set_string0 (t_minus ++ s) = Some (- Z.of_N n)%Z.
Proof.
  intros Hz Hv. unfold int_set_string0, t_minus. cbn [app scan_sign].
  rewrite (b2n_ch 45) by lia. cbn [N.eqb Pos.eqb].
  rewrite (nat_scan_dec s n Hz Hv). reflexivity.
Qed.

(* ---------- big.Int.Text(16) / strconv.FormatUint(_, 16): the canonical hex digits ---------- *)
Lemma hex_val_hexchar d : d < 16 -> hex_val (hexchar d) = Some d.
Proof. intros H. rewrite hex_val_unhex. apply unhex_hexchar. exact H. Qed.

Lemma is_lower_hex_hexchar d : d < 16 -> is_lower_hex (hexchar d) = true.
Proof. intros H. unfold is_lower_hex. rewrite b2n_hexchar by exact H. destruct (d <? 10) eqn:E; lia. Qed.

Lemma b2n_hexchar_48 d : d < 16 -> (b2n (hexchar d) =? 48) = (d =? 0).
Proof.
  intros H. rewrite b2n_hexchar by exact H. destruct (d <? 10) eqn:E.
  - destruct (N.eqb_spec d 0) as [->|N]; [reflexivity|]. apply N.eqb_neq. lia.
  - replace (d =? 0) with false by neqb. apply N.eqb_neq. lia.
Qed.

Lemma digits_fuel_props fuel : forall n,
  n < 16 ^ N.of_nat fuel -> fuel <> O ->
  let ds := digits_fuel fuel n in
  ds <> [] /\ Forall (fun d => d < 16) ds /\
  digits_val 16 hex_val (map hexchar ds) 0 = Some n /\
  (1 <= n -> hd 0 ds <> 0) /\ (n < 16 -> ds = [n]).
Proof.
  induction fuel as [|f IH]; intros n Hn Hf; [congruence|]. cbv zeta.
  cbn [digits_fuel]. destruct (n <? 16) eqn:E.
  - split; [discriminate|]. split; [constructor; [lia|constructor]|].
    split; [cbn [map digits_val]; rewrite hex_val_hexchar by lia; f_equal|].
    split; [cbn [hd]; lia|reflexivity].
  - assert (Hq : n / 16 < 16 ^ N.of_nat f).
    { apply N.div_lt_upper_bound; [lia|]. replace (N.of_nat (S f)) with (N.succ (N.of_nat f)) in Hn by lia.
      rewrite N.pow_succ_r' in Hn. exact Hn. }
    assert (Hq1 : 1 <= n / 16). { apply N.div_le_lower_bound; lia. }
    assert (Hf' : f <> O). { intros ->. cbn in Hq. lia. }
    destruct (IH (n / 16) Hq Hf') as (H1 & H2 & H3 & H4 & H5).
    split; [destruct (digits_fuel f (n / 16)); [congruence|discriminate]|].
    split; [apply Forall_app; split; [exact H2|]; constructor; [apply N.mod_lt; lia|constructor]|].
    split.
    { rewrite map_app, digits_val_app, H3. cbn [map digits_val].
      rewrite hex_val_hexchar by (apply N.mod_lt; lia). f_equal.
      pose proof (N.div_mod n 16). lia. }
    split; [|lia].
    intros _. destruct (digits_fuel f (n / 16)) eqn:Ed; [congruence|]. cbn [app hd]. cbn [hd] in H4. apply H4. exact Hq1.
Qed.

Lemma size_fuel_ok n : n < 16 ^ N.of_nat (S (N.to_nat (N.size n))).
Proof.
  pose proof (N.size_gt n) as H.
  eapply N.lt_le_trans; [exact H|].
  replace 16 with (2 ^ 4) by reflexivity. rewrite <- N.pow_mul_r.
  apply N.pow_le_mono_r; lia.
Qed.

Theorem text16_canonical n :
  hex_value (text16 n) = Some n /\ no_leading_zero (text16 n) = true /\ forallb is_lower_hex (text16 n) = true.
Proof.
  unfold text16, hex_digits.
  destruct (digits_fuel_props (S (N.to_nat (N.size n))) n (size_fuel_ok n) ltac:(discriminate)) as (H1 & H2 & H3 & H4 & H5).
  set (ds := digits_fuel (S (N.to_nat (N.size n))) n) in *.
  repeat split.
  - unfold hex_value. destruct (map hexchar ds) eqn:E; [destruct ds; [congruence|discriminate]|exact H3].
  - destruct ds as [|d0 [|d1 ds']]; [congruence|reflexivity|].
    cbn [map no_leading_zero]. inversion H2; subst.
    rewrite b2n_hexchar_48 by assumption.
    assert (16 <= n \/ n < 16) as [Hge|Hlt] by lia.
    + cbn [hd] in H4. replace (d0 =? 0) with false; [reflexivity|]. symmetry. apply N.eqb_neq. apply H4. lia.
    + specialize (H5 Hlt). discriminate.
  - rewrite forallb_forall. intros c Hc. apply in_map_iff in Hc. destruct Hc as (d & <- & Hd).
    rewrite Forall_forall in H2. apply is_lower_hex_hexchar. apply H2. exact Hd.
Qed.

(* ---------- the assumed fragment of encoding/json ---------- *)
Definition tok_jtok (t : tok) : jtok := match t with TNum s => JNum s | TStr s => JStr s end.
(* what the theorems assume about json.Decoder{UseNumber}.Decode: on a quoted run of plain ASCII it
   yields that string, on a text of the JSON number grammar that number (validated against
   encoding/json on every correspondence run, result code 6) *)
Definition lex_law (lex : bytes -> jtok) : Prop := forall b t, simple_lex b = Some t -> lex b = tok_jtok t.
(* json.Unmarshal into a string *)
Definition lexs_law (lexs : bytes -> option bytes) : Prop := forall b t, plain_string b = Some t -> lexs b = Some t.

(* an executable instance, used for the non-vacuity examples *)
Definition simple_lexer (b : bytes) : jtok := match simple_lex b with Some t => tok_jtok t | None => JErr end.
Lemma simple_lexer_law : lex_law simple_lexer.
Proof. intros b t H. unfold simple_lexer. rewrite H. reflexivity. Qed.
Lemma plain_string_law : lexs_law plain_string.
Proof. intros b t H. exact H. Qed.

Lemma lex_quote lex t : lex_law lex -> forallb plain_char t = true -> lex (quote t) = JStr t.
Proof.
  intros L H. rewrite (L (quote t) (TStr t)); [reflexivity|].
  unfold simple_lex. rewrite quote_eq, plain_string_quote by exact H. reflexivity.
Qed.

Lemma lexs_quote lexs t : lexs_law lexs -> forallb plain_char t = true -> lexs (quote t) = Some t.
Proof. intros L H. apply L. rewrite quote_eq. apply plain_string_quote. exact H. Qed.

Lemma is_lower_hex_plain c : is_lower_hex c = true -> plain_char c = true.
Proof. unfold is_lower_hex, plain_char. lia. Qed.

Lemma forallb_impl {A} (P Q : A -> bool) l : (forall x, P x = true -> Q x = true) -> forallb P l = true -> forallb Q l = true.
Proof. intros H. rewrite !forallb_forall. intros HP x Hx. apply H, HP, Hx. Qed.

(* ---------- print form and print/parse round trip ---------- *)
Lemma HexInteger_String_nonneg n : HexInteger_String (Z.of_N n) = t_0x ++ text16 n.
Proof.
  unfold HexInteger_String. replace (Z.of_N n <? 0)%Z with false by lia.
  replace (Z.abs_N (Z.of_N n)) with n by lia. reflexivity.
Qed.

Theorem HexInteger_print n :
  exists s, HexInteger_MarshalJSON (Z.of_N n) = dquote :: s ++ [dquote] /\ canonical_hex s n.
Proof.
  exists (t_0x ++ text16 n). split.
  - unfold HexInteger_MarshalJSON. rewrite HexInteger_String_nonneg. reflexivity.
  - exists (text16 n). split; [reflexivity|]. apply text16_canonical.
Qed.

Theorem HexUint64_print n :
  exists s, HexUint64_MarshalJSON n = dquote :: s ++ [dquote] /\ canonical_hex s n.
Proof.
  exists (t_0x ++ text16 n). split; [reflexivity|].
  exists (text16 n). split; [reflexivity|]. apply text16_canonical.
Qed.

Lemma big_from_hex ds n : hex_value ds = Some n -> BigIntegerFromString (t_0x ++ ds) = Ok (Z.of_N n).
Proof. intros H. unfold BigIntegerFromString. rewrite (set_string_hex ds n H). reflexivity. Qed.

Lemma canonical_plain n : forallb plain_char (t_0x ++ text16 n) = true.
Proof.
  rewrite forallb_app. apply andb_true_iff. split; [vm_compute; reflexivity|].
  apply (forallb_impl is_lower_hex); [exact is_lower_hex_plain|]. apply text16_canonical.
Qed.

Theorem HexInteger_roundtrip lex n :
  lex_law lex -> HexInteger_UnmarshalJSON lex (HexInteger_MarshalJSON (Z.of_N n)) = Ok (Z.of_N n).
Proof.
  intros L. unfold HexInteger_MarshalJSON. rewrite HexInteger_String_nonneg.
  change (c_quote :: (t_0x ++ text16 n) ++ [c_quote]) with (quote (t_0x ++ text16 n)).
  unfold HexInteger_UnmarshalJSON, UnmarshalBigInt. rewrite (lex_quote lex _ L (canonical_plain n)).
  rewrite (big_from_hex _ n (proj1 (text16_canonical n))). cbn [bind].
  replace (Z.of_N n <? 0)%Z with false by lia. reflexivity.
Qed.

Theorem HexUint64_roundtrip lex n :
  lex_law lex -> n < 2 ^ 64 -> HexUint64_UnmarshalJSON lex (HexUint64_MarshalJSON n) = Ok n.
Proof.
  intros L Hn. unfold HexUint64_MarshalJSON, HexUint64_String.
  change (c_quote :: (prefix0x ++ text16 n) ++ [c_quote]) with (quote (t_0x ++ text16 n)).
  unfold HexUint64_UnmarshalJSON, UnmarshalBigInt. rewrite (lex_quote lex _ L (canonical_plain n)).
  rewrite (big_from_hex _ n (proj1 (text16_canonical n))). cbn [bind].
  replace ((0 <=? Z.of_N n) && (Z.of_N n <? 2 ^ 64))%Z with true by lia.
  rewrite N2Z.id. reflexivity.
Qed.

Lemma json_string_layer lexs (s b : bytes) :
  lexs_law lexs -> hex_spells s b ->
  HexBytes_UnmarshalJSON lexs (quote s) = Ok b /\ HexBytes_UnmarshalJSON lexs (quote (t_0x ++ s)) = Ok b /\
  (length b = 20%nat -> Address_UnmarshalJSON lexs (quote s) = Ok b /\ Address_UnmarshalJSON lexs (quote (t_0x ++ s)) = Ok b).
Proof. exact (json_string_layer_local lexs s b). Qed.

(* ---------- the canonical form is unique ---------- *)
Lemma hex_digits_bounds s : forall acc n,
  digits_val 16 hex_val s acc = Some n ->
  acc * 16 ^ N.of_nat (length s) <= n /\ n < (acc + 1) * 16 ^ N.of_nat (length s).
Proof.
  induction s as [|c s IH]; intros acc n H.
  - cbn in H. injection H as <-. cbn. lia.
  - cbn [digits_val] in H. destruct (hex_val c) as [d|] eqn:Ec; [|discriminate].
    destruct (hex_val_digit c d Ec) as [_ Hd]. destruct (IH _ _ H) as [L U].
    replace (N.of_nat (length (c :: s))) with (N.succ (N.of_nat (length s))) by (cbn [length]; lia).
    rewrite N.pow_succ_r'. nia.
Qed.

Lemma lower_hex_char_inj c c' d :
  is_lower_hex c = true -> is_lower_hex c' = true -> hex_val c = Some d -> hex_val c' = Some d -> c = c'.
Proof.
  unfold is_lower_hex, hex_val. intros L L' H H'. apply b2n_inj.
  destruct ((48 <=? b2n c) && (b2n c <=? 57)) eqn:E1; destruct ((48 <=? b2n c') && (b2n c' <=? 57)) eqn:E1';
  destruct ((97 <=? b2n c) && (b2n c <=? 102)) eqn:E2; destruct ((97 <=? b2n c') && (b2n c' <=? 102)) eqn:E2';
  try (injection H as <-); try (injection H' as H'); try lia;
  destruct ((65 <=? b2n c) && (b2n c <=? 70)) eqn:E3; destruct ((65 <=? b2n c') && (b2n c' <=? 70)) eqn:E3'; try discriminate; lia.
Qed.

Lemma same_length_inj s : forall s' acc acc' n,
  length s = length s' -> forallb is_lower_hex s = true -> forallb is_lower_hex s' = true ->
  digits_val 16 hex_val s acc = Some n -> digits_val 16 hex_val s' acc' = Some n -> acc = acc' /\ s = s'.
Proof.
  induction s as [|c s IH]; intros [|c' s'] acc acc' n Hl L L' H H'; try discriminate.
  - cbn in H, H'. split; congruence.
  - cbn [digits_val] in H, H'. cbn [forallb] in L, L'.
    apply andb_true_iff in L, L'. destruct L as [Lc L], L' as [Lc' L'].
    destruct (hex_val c) as [d|] eqn:Ec; [|discriminate]. destruct (hex_val c') as [d'|] eqn:Ec'; [|discriminate].
    destruct (hex_val_digit c d Ec) as [_ Hd]. destruct (hex_val_digit c' d' Ec') as [_ Hd'].
    injection Hl as Hl. destruct (IH s' _ _ n Hl L L' H H') as [Ha ->].
    assert (acc = acc' /\ d = d') as [-> ->] by lia.
    split; [reflexivity|]. f_equal. eapply lower_hex_char_inj; eassumption.
Qed.

Lemma canonical_length_bounds s n :
  s <> [] -> no_leading_zero s = true -> digits_val 16 hex_val s 0 = Some n ->
  n < 16 ^ N.of_nat (length s) /\ ((2 <= length s)%nat -> 16 ^ N.of_nat (length s - 1) <= n).
Proof.
  intros Hne Hz H. split.
  - destruct (hex_digits_bounds s 0 n H) as [_ U]. lia.
  - intros H2. destruct s as [|c [|c1 s1]]; cbn [length] in H2; try lia.
    cbn [no_leading_zero] in Hz. cbn [digits_val] in H.
    destruct (hex_val c) as [d|] eqn:Ec; [|discriminate].
    assert (Hd : 1 <= d).
    { unfold hex_val in Ec. apply negb_true_iff in Hz. apply N.eqb_neq in Hz.
      destruct ((48 <=? b2n c) && (b2n c <=? 57)) eqn:E1; [injection Ec as <-; lia|].
      destruct ((97 <=? b2n c) && (b2n c <=? 102)) eqn:E2; [injection Ec as <-; lia|].
      destruct ((65 <=? b2n c) && (b2n c <=? 70)) eqn:E3; [injection Ec as <-; lia|discriminate]. }
    destruct (hex_digits_bounds (c1 :: s1) (0 * 16 + d) n H) as [Lb _].
    replace (length (c :: c1 :: s1) - 1)%nat with (length (c1 :: s1)) by (cbn [length]; lia).
    nia.
Qed.

Theorem canonical_hex_unique s s' n : canonical_hex s n -> canonical_hex s' n -> s = s'.
Proof.
  intros (ds & -> & Hv & Hz & Hl) (ds' & -> & Hv' & Hz' & Hl'). f_equal.
  unfold hex_value in Hv, Hv'.
  assert (Hne : ds <> []) by (destruct ds; [discriminate|discriminate]).
  assert (Hne' : ds' <> []) by (destruct ds'; [discriminate|discriminate]).
  assert (Hv1 : digits_val 16 hex_val ds 0 = Some n) by (destruct ds; [congruence|exact Hv]).
  assert (Hv1' : digits_val 16 hex_val ds' 0 = Some n) by (destruct ds'; [congruence|exact Hv']).
  destruct (canonical_length_bounds ds n Hne Hz Hv1) as [U Lb].
  destruct (canonical_length_bounds ds' n Hne' Hz' Hv1') as [U' Lb'].
  assert (Hlen : length ds = length ds').
  { destruct (Nat.lt_trichotomy (length ds) (length ds')) as [Lt|[E|Gt]]; [exfalso|exact E|exfalso].
    - assert (H2 : (2 <= length ds')%nat) by (destruct ds; [congruence|cbn [length] in *; lia]).
      specialize (Lb' H2).
      assert (16 ^ N.of_nat (length ds) <= 16 ^ N.of_nat (length ds' - 1)) by (apply N.pow_le_mono_r; lia). lia.
    - assert (H2 : (2 <= length ds)%nat) by (destruct ds'; [congruence|cbn [length] in *; lia]).
      specialize (Lb H2).
      assert (16 ^ N.of_nat (length ds') <= 16 ^ N.of_nat (length ds - 1)) by (apply N.pow_le_mono_r; lia). lia. }
  apply (same_length_inj ds ds' 0 0 n Hlen Hl Hl' Hv1 Hv1').
Qed.
