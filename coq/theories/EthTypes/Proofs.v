(* Proofs about the model of pkg/ethtypes, part 1: hex digits, encoding/hex, byte strings and
   addresses (parse/print round trips for every byte string, casing and prefix; rejections). *)
From Coq Require Import List NArith ZArith Lia Bool Arith.
From Coq Require Import ZifyN ZifyNat ZifyBool.
From Coq Require Import Init.Byte.
From FFS Require Import Base.Res Base.Bytes EthTypes.Model EthTypes.Spec.
Import ListNotations.
Local Open Scope N_scope.

(* ---------- characters ---------- *)
Lemma b2n_hexchar d : d < 16 -> b2n (hexchar d) = if d <? 10 then 48 + d else 87 + d.
Proof. intros H. unfold hexchar. apply b2n_n2b. destruct (d <? 10) eqn:E; lia. Qed.

Lemma unhex_hexchar d : d < 16 -> unhex_val (b2n (hexchar d)) = Some d.
Proof.
  intros H. rewrite b2n_hexchar by exact H. unfold unhex_val.
  destruct (d <? 10) eqn:E.
  - replace ((48 <=? 48 + d) && (48 + d <=? 57)) with true by lia. f_equal. lia.
  - replace ((48 <=? 87 + d) && (87 + d <=? 57)) with false by lia.
    replace ((97 <=? 87 + d) && (87 + d <=? 102)) with true by lia. f_equal. lia.
Qed.

Lemma unhex_val_lt c d : unhex_val c = Some d -> d < 16.
Proof.
  unfold unhex_val. destruct ((48 <=? c) && (c <=? 57)) eqn:E1; [intros [= <-]; lia|].
  destruct ((97 <=? c) && (c <=? 102)) eqn:E2; [intros [= <-]; lia|].
  destruct ((65 <=? c) && (c <=? 70)) eqn:E3; [intros [= <-]; lia|]. discriminate.
Qed.

(* ---------- hex.EncodeToString / hex.DecodeString ---------- *)
Lemma hex_decode_encode (b : bytes) : hex_decode (hex_encode b) = Ok b.
Proof.
  induction b as [|x b IH]; [reflexivity|].
  unfold hex_encode in *. cbn [flat_map app hex_decode].
  pose proof (b2n_lt x) as Hx.
  rewrite !unhex_hexchar by (try apply N.mod_lt; try (apply N.div_lt_upper_bound); lia).
  rewrite IH. cbn [bind]. f_equal. f_equal.
  rewrite <- (n2b_b2n x) at 3. f_equal.
  rewrite N.mul_comm. symmetry. apply N.div_mod. lia.
Qed.

Lemma hex_val_unhex c : hex_val c = unhex_val (b2n c).
Proof. reflexivity. Qed.

(* hex.DecodeString succeeds exactly on the texts that spell a byte string, with exactly those bytes *)
Lemma hex_decode_spells s : forall b, hex_spells s b -> hex_decode s = Ok b.
Proof.
  induction s as [s IH] using (well_founded_induction (Wf_nat.well_founded_ltof _ (@length byte))).
  intros b Hs. destruct s as [|c1 [|c2 s']]; destruct b as [|x b']; cbn [hex_spells] in Hs; try contradiction; [reflexivity|].
  destruct Hs as [(h & l & H1 & H2 & H3) Hs].
  cbn [hex_decode]. rewrite <- !hex_val_unhex, H1, H2.
  rewrite (IH s' ltac:(unfold ltof; cbn; lia) b' Hs). cbn [bind].
  rewrite <- H3, n2b_b2n. reflexivity.
Qed.

Lemma hex_decode_ok_spells s : forall b, hex_decode s = Ok b -> hex_spells s b.
Proof.
  induction s as [s IH] using (well_founded_induction (Wf_nat.well_founded_ltof _ (@length byte))).
  intros b Hd. destruct s as [|c1 [|c2 s']]; cbn [hex_decode] in Hd.
  - injection Hd as <-. exact I.
  - discriminate.
  - rewrite <- !hex_val_unhex in Hd.
    destruct (hex_val c1) as [h|] eqn:E1; [|discriminate].
    destruct (hex_val c2) as [l|] eqn:E2; [|discriminate].
    destruct (hex_decode s') as [r| |] eqn:E3; cbn [bind] in Hd; try discriminate.
    injection Hd as <-. cbn [hex_spells]. split.
    + exists h, l. repeat split; try assumption.
      rewrite hex_val_unhex in E1, E2. apply unhex_val_lt in E1, E2. apply b2n_n2b. lia.
    + apply IH; [unfold ltof; cbn; lia|exact E3].
Qed.

Lemma hex_decode_not_panic s : hex_decode s <> Panic.
Proof.
  induction s as [s IH] using (well_founded_induction (Wf_nat.well_founded_ltof _ (@length byte))).
  destruct s as [|c1 [|c2 s']]; cbn [hex_decode]; try discriminate.
  destruct (unhex_val (b2n c1)); [|discriminate]. destruct (unhex_val (b2n c2)); [|discriminate].
  pose proof (IH s') as H. destruct (hex_decode s'); cbn [bind]; try discriminate.
  apply H. unfold ltof; cbn; lia.
Qed.

Lemma hex_spells_length s : forall b, hex_spells s b -> length s = (2 * length b)%nat.
Proof.
  induction s as [s IH] using (well_founded_induction (Wf_nat.well_founded_ltof _ (@length byte))).
  intros b Hs. destruct s as [|c1 [|c2 s']]; destruct b as [|x b']; cbn [hex_spells] in Hs; try contradiction; [reflexivity|].
  destruct Hs as [_ Hs]. cbn [length]. rewrite (IH s' ltac:(unfold ltof; cbn; lia) b' Hs). lia.
Qed.

(* a spelled text does not start with "0x", so TrimPrefix leaves it alone *)
Lemma trim0x_spelled s b : hex_spells s b -> trim0x s = s.
Proof.
  destruct s as [|c1 [|c2 s']]; try reflexivity. destruct b as [|x b']; cbn [hex_spells]; [contradiction|].
  intros [(h & l & _ & H2 & _) _]. unfold trim0x.
  destruct ((b2n c1 =? 48) && (b2n c2 =? 120)) eqn:E; [|reflexivity].
  exfalso. unfold hex_val in H2. replace (b2n c2) with 120 in H2 by lia. cbn in H2. discriminate.
Qed.

Lemma trim0x_prefixed s : trim0x (t_0x ++ s) = s.
Proof. reflexivity. Qed.

Lemma trim0x_cases s : trim0x s = s \/ s = t_0x ++ trim0x s.
Proof.
  destruct s as [|c1 [|c2 s']]; try (left; reflexivity). unfold trim0x.
  destruct ((b2n c1 =? 48) && (b2n c2 =? 120)) eqn:E; [right|left; reflexivity].
  unfold t_0x, ch. cbn [app]. f_equal; [|f_equal].
  - rewrite <- (n2b_b2n c1). f_equal. lia.
  - rewrite <- (n2b_b2n c2). f_equal. lia.
Qed.

(* ---------- address.go: SetString ---------- *)
Lemma Address_SetString_accepts s b :
  hex_spells s b -> length b = 20%nat ->
  Address_SetString s = Ok b /\ Address_SetString (t_0x ++ s) = Ok b.
Proof.
  intros Hs Hl. unfold Address_SetString. rewrite trim0x_prefixed, (trim0x_spelled s b Hs).
  rewrite (hex_decode_spells s b Hs). cbn [bind]. rewrite Hl. split; reflexivity.
Qed.

Lemma Address_SetString_ok_inv s b :
  Address_SetString s = Ok b ->
  length b = 20%nat /\ (hex_spells s b \/ exists s', s = t_0x ++ s' /\ hex_spells s' b).
Proof.
  unfold Address_SetString. intros H.
  destruct (hex_decode (trim0x s)) as [r| |] eqn:E; cbn [bind] in H; try discriminate.
  destruct (length r =? 20)%nat eqn:El; [|discriminate]. injection H as <-.
  split; [apply Nat.eqb_eq; exact El|].
  apply hex_decode_ok_spells in E. destruct (trim0x_cases s) as [T|T].
  - left. rewrite T in E. exact E.
  - right. exists (trim0x s). split; assumption.
Qed.

Lemma Address_SetString_not_panic s : Address_SetString s <> Panic.
Proof.
  unfold Address_SetString. pose proof (hex_decode_not_panic (trim0x s)).
  destruct (hex_decode (trim0x s)); cbn [bind]; try congruence.
  destruct (length a =? 20)%nat; discriminate.
Qed.

(* wrong length (any number of bytes other than 20) and non-hex text are errors *)
Lemma Address_SetString_rejects s :
  (forall b, length b = 20%nat -> ~ hex_spells s b /\ (forall s', s = t_0x ++ s' -> ~ hex_spells s' b)) ->
  exists e, Address_SetString s = Err e.
Proof.
  intros H. destruct (Address_SetString s) as [b|e|] eqn:E.
  - exfalso. apply Address_SetString_ok_inv in E. destruct E as [Hl [Hs|(s' & -> & Hs)]].
    + apply (proj1 (H b Hl)); exact Hs.
    + apply (proj2 (H b Hl) s' eq_refl); exact Hs.
  - eauto.
  - exfalso. apply (Address_SetString_not_panic s E).
Qed.

(* ---------- hexbytes.go ---------- *)
Lemma HexBytes_parse_accepts s b :
  hex_spells s b -> hex_decode (trim0x s) = Ok b /\ hex_decode (trim0x (t_0x ++ s)) = Ok b.
Proof.
  intros Hs. rewrite trim0x_prefixed, (trim0x_spelled s b Hs). split; apply hex_decode_spells; exact Hs.
Qed.

Lemma HexBytes_parse_ok_inv s b :
  hex_decode (trim0x s) = Ok b -> hex_spells s b \/ exists s', s = t_0x ++ s' /\ hex_spells s' b.
Proof.
  intros E. apply hex_decode_ok_spells in E. destruct (trim0x_cases s) as [T|T].
  - left. rewrite T in E. exact E.
  - right. exists (trim0x s). split; assumption.
Qed.

(* ---------- the json layer for strings: a quoted run of plain characters ---------- *)
Lemma split_last_app (t : bytes) (z : byte) : split_last (t ++ [z]) = Some (t, z).
Proof.
  induction t as [|c t IH]; [reflexivity|]. cbn [app split_last]. rewrite IH.
  destruct (t ++ [z]) eqn:E; [destruct t; discriminate|reflexivity].
Qed.

Lemma plain_string_quote (t : bytes) : forallb plain_char t = true -> plain_string (dquote :: t ++ [dquote]) = Some t.
Proof.
  intros H. unfold plain_string. change (b2n dquote =? 34) with true. cbv iota.
  rewrite split_last_app. change (b2n dquote =? 34) with true. rewrite H. reflexivity.
Qed.

Lemma quote_eq t : quote t = dquote :: t ++ [dquote].
Proof. reflexivity. Qed.

(* every character of a spelled text, and of "0x", is plain *)
Lemma hex_val_plain c d : hex_val c = Some d -> plain_char c = true.
Proof.
  unfold hex_val, plain_char.
  destruct ((48 <=? b2n c) && (b2n c <=? 57)) eqn:E1; [intros _; lia|].
  destruct ((97 <=? b2n c) && (b2n c <=? 102)) eqn:E2; [intros _; lia|].
  destruct ((65 <=? b2n c) && (b2n c <=? 70)) eqn:E3; [intros _; lia|]. discriminate.
Qed.

Lemma hex_spells_plain s : forall b, hex_spells s b -> forallb plain_char s = true.
Proof.
  induction s as [s IH] using (well_founded_induction (Wf_nat.well_founded_ltof _ (@length byte))).
  intros b Hs. destruct s as [|c1 [|c2 s']]; destruct b as [|x b']; cbn [hex_spells] in Hs; try contradiction; [reflexivity|].
  destruct Hs as [(h & l & H1 & H2 & _) Hs]. cbn [forallb].
  rewrite (hex_val_plain _ _ H1), (hex_val_plain _ _ H2), (IH s' ltac:(unfold ltof; cbn; lia) b' Hs). reflexivity.
Qed.

(* ---------- print forms ---------- *)
Lemma forall_lt16 (P : N -> bool) :
  forallb P (map N.of_nat (seq 0 16)) = true -> forall d, d < 16 -> P d = true.
Proof.
  intros H d Hd. rewrite forallb_forall in H. apply H.
  apply in_map_iff. exists (N.to_nat d). split; [lia|]. apply in_seq. lia.
Qed.

Lemma lower_digit_hexchar d : d < 16 -> lower_digit d = hexchar d.
Proof.
  intros Hd. apply (reflect_iff _ _ (byte_eqb_spec _ _)).
  revert d Hd. apply forall_lt16. vm_compute. reflexivity.
Qed.

Lemma nibble_lt a i : nibble a i < 16.
Proof.
  unfold nibble. pose proof (b2n_lt (nth (Nat.div2 i) a x00)).
  destruct (Nat.even i); [apply N.div_lt_upper_bound; lia|apply N.mod_lt; lia].
Qed.

Lemma nibble_SS x a i : nibble (x :: a) (S (S i)) = nibble a i.
Proof. reflexivity. Qed.

Lemma hex_encode_lower_hex a : hex_encode a = lower_hex a.
Proof.
  unfold lower_hex. induction a as [|x a IH]; [reflexivity|].
  replace (2 * length (x :: a))%nat with (S (S (2 * length a))) by (cbn [length]; lia).
  cbn [seq map]. rewrite <- seq_shift, map_map, <- seq_shift, map_map.
  unfold hex_encode in *. cbn [flat_map app]. rewrite IH.
  f_equal; [|f_equal].
  - symmetry. apply lower_digit_hexchar. apply (nibble_lt (x :: a) 0).
  - symmetry. apply lower_digit_hexchar. apply (nibble_lt (x :: a) 1).
Qed.

Lemma hex_encode_length a : length (hex_encode a) = (2 * length a)%nat.
Proof. rewrite hex_encode_lower_hex. unfold lower_hex. rewrite map_length, seq_length. reflexivity. Qed.

Lemma Address0xHex_String_form a : Address0xHex_String a = t_0x ++ lower_hex a.
Proof. unfold Address0xHex_String. rewrite hex_encode_lower_hex. reflexivity. Qed.
Lemma AddressPlainHex_String_form a : AddressPlainHex_String a = lower_hex a.
Proof. apply hex_encode_lower_hex. Qed.
Lemma HexBytes0xPrefix_String_form a : HexBytes0xPrefix_String a = t_0x ++ lower_hex a.
Proof. unfold HexBytes0xPrefix_String. rewrite hex_encode_lower_hex. reflexivity. Qed.
Lemma HexBytesPlain_String_form a : HexBytesPlain_String a = lower_hex a.
Proof. apply hex_encode_lower_hex. Qed.

(* the printed form spells the bytes (so it parses back, by the lemmas above) *)
Lemma hex_encode_spells a : hex_spells (hex_encode a) a.
Proof. apply hex_decode_ok_spells. apply hex_decode_encode. Qed.

(* ---------- EIP-55 ---------- *)
Lemma nth_lower_hex a k : (k < 2 * length a)%nat -> nth k (lower_hex a) x00 = lower_digit (nibble a k).
Proof.
  intros Hk. unfold lower_hex.
  rewrite (nth_indep _ x00 (lower_digit (nibble a 0))) by (rewrite map_length, seq_length; exact Hk).
  rewrite (map_nth (fun i => lower_digit (nibble a i)) (seq 0 (2 * length a)) 0%nat k).
  rewrite seq_nth by exact Hk. reflexivity.
Qed.

Lemma index_nth (l : bytes) i : (i < length l)%nat -> index l i = Ok (nth i l x00).
Proof.
  intros H. unfold index. destruct (nth_error l i) eqn:E.
  - rewrite (nth_error_nth _ _ _ E). reflexivity.
  - apply nth_error_None in E. lia.
Qed.

Definition checksum_char (hexAddr hexHash : bytes) (k : nat) : byte :=
  let hd := match unhex_val (b2n (nth k hexHash x00)) with Some v => v | None => 0 end in
  n2b (if 8 <=? hd then to_upper (b2n (nth k hexAddr x00)) else to_lower (b2n (nth k hexAddr x00))).

Lemma checksum_loop_ok hexAddr hexHash n : forall i,
  (i + n <= length hexAddr)%nat -> (i + n <= length hexHash)%nat ->
  checksum_loop hexAddr hexHash i n = Ok (map (checksum_char hexAddr hexHash) (seq i n)).
Proof.
  induction n as [|n IH]; intros i H1 H2; [reflexivity|].
  cbn [checksum_loop seq map]. rewrite !index_nth by lia. cbn [bind].
  rewrite IH by lia. reflexivity.
Qed.

(* bits of a big-endian value *)
Lemma be_value_snoc l x : be_value (l ++ [x]) = be_value l * 256 + b2n x.
Proof. unfold be_value. rewrite fold_left_app. reflexivity. Qed.

Lemma testbit_hi v x m : x < 256 -> N.testbit (v * 256 + x) (8 + m) = N.testbit v m.
Proof.
  intros Hx. rewrite !N.testbit_eqb. rewrite N.pow_add_r. change (2 ^ 8) with 256.
  rewrite <- N.div_div by (try apply N.pow_nonzero; lia).
  replace ((v * 256 + x) / 256) with v; [reflexivity|].
  rewrite N.div_add_l by lia. rewrite N.div_small by lia. lia.
Qed.

Lemma nibble_app_l l x k : (k < 2 * length l)%nat -> nibble (l ++ [x]) k = nibble l k.
Proof.
  intros Hk. unfold nibble. rewrite app_nth1; [reflexivity|].
  pose proof (Nat.div2_decr k (2 * length l - 1)). 
  assert (Nat.div2 k < length l)%nat; [|assumption].
  rewrite Nat.div2_div. apply Nat.div_lt_upper_bound; lia.
Qed.

Lemma nibble_high_bit l : forall k, (k < 2 * length l)%nat ->
  N.testbit (be_value l) (4 * N.of_nat (2 * length l - 1 - k) + 3) = (8 <=? nibble l k).
Proof.
  induction l as [|x l IH] using rev_ind; intros k Hk; [cbn in Hk; lia|].
  rewrite app_length in Hk |- *. cbn [length] in Hk |- *.
  rewrite be_value_snoc. pose proof (b2n_lt x) as Hx.
  destruct (Nat.lt_ge_cases k (2 * length l)) as [Hlt|Hge].
  - rewrite nibble_app_l by exact Hlt.
    replace (4 * N.of_nat (2 * (length l + 1) - 1 - k) + 3) with (8 + (4 * N.of_nat (2 * length l - 1 - k) + 3)) by lia.
    rewrite testbit_hi by exact Hx. apply IH. exact Hlt.
  - assert (Hd : Nat.div2 k = length l).
    { rewrite Nat.div2_div. symmetry. apply Nat.div_unique with (r := (k - 2 * length l)%nat); lia. }
    unfold nibble. rewrite Hd, app_nth2, Nat.sub_diag by lia. cbn [nth].
    assert (k = (2 * length l)%nat \/ k = S (2 * length l)) as [->| ->] by lia.
    + replace (Nat.even (2 * length l)) with true by (symmetry; apply Nat.even_spec; exists (length l); lia).
      replace (4 * N.of_nat (2 * (length l + 1) - 1 - 2 * length l) + 3) with 7 by lia.
      rewrite N.testbit_eqb. change (2 ^ 7) with 128. lia.
    + replace (Nat.even (S (2 * length l))) with false.
      2:{ symmetry. rewrite Nat.even_succ. apply Bool.not_true_iff_false. intros E. apply Nat.odd_spec in E. destruct E as [m E]. lia. }
      replace (4 * N.of_nat (2 * (length l + 1) - 1 - S (2 * length l)) + 3) with 3 by lia.
      rewrite N.testbit_eqb. change (2 ^ 3) with 8. lia.
Qed.

Lemma upper_lower_digit d : d < 16 ->
  n2b (to_upper (b2n (lower_digit d))) = (if 10 <=? d then upper_digit d else lower_digit d) /\
  n2b (to_lower (b2n (lower_digit d))) = lower_digit d.
Proof.
  intros Hd.
  assert (H : (byte_eqb (n2b (to_upper (b2n (lower_digit d)))) (if 10 <=? d then upper_digit d else lower_digit d)
               && byte_eqb (n2b (to_lower (b2n (lower_digit d)))) (lower_digit d)) = true).
  { revert d Hd. apply forall_lt16. vm_compute. reflexivity. }
  apply andb_true_iff in H. destruct H as [H1 H2].
  split; apply (reflect_iff _ _ (byte_eqb_spec _ _)); assumption.
Qed.

Lemma unhex_lower_digit d : d < 16 -> unhex_val (b2n (lower_digit d)) = Some d.
Proof. intros Hd. rewrite lower_digit_hexchar by exact Hd. apply unhex_hexchar. exact Hd. Qed.

(* AddressWithChecksum.String() is EIP-55, for every 20-byte address and every 32-byte hash function *)
Theorem checksum_is_eip55 (H : bytes -> bytes) :
  (forall x, length (H x) = 32%nat) ->
  forall a, length a = 20%nat -> AddressWithChecksum_String H a = Ok (eip55 H a).
Proof.
  intros HH a Ha. unfold AddressWithChecksum_String.
  rewrite checksum_loop_ok by (rewrite hex_encode_length; try rewrite HH; lia).
  cbn [bind]. unfold eip55. f_equal. change prefix0x with t_0x. f_equal.
  apply map_ext_in. intros k Hk. apply in_seq in Hk.
  unfold checksum_char. rewrite !hex_encode_lower_hex.
  rewrite !nth_lower_hex by (try rewrite HH; lia).
  rewrite unhex_lower_digit by apply nibble_lt.
  pose proof (nibble_high_bit (H (lower_hex a)) k ltac:(rewrite HH; lia)) as Hb.
  rewrite HH in Hb. replace (4 * N.of_nat (2 * 32 - 1 - k) + 3) with (255 - 4 * N.of_nat k) in Hb by lia.
  rewrite Hb. destruct (upper_lower_digit (nibble a k) (nibble_lt a k)) as [U L].
  destruct (8 <=? nibble (H (lower_hex a)) k).
  - rewrite U, andb_true_r. reflexivity.
  - rewrite L, andb_false_r. reflexivity.
Qed.

Lemma checksum_not_panic (H : bytes -> bytes) :
  (forall x, length (H x) = 32%nat) -> forall a, length a = 20%nat -> AddressWithChecksum_String H a <> Panic.
Proof. intros HH a Ha. rewrite (checksum_is_eip55 H HH a Ha). discriminate. Qed.

(* the checksum form parses back to the address (EIP-55 only changes letter case) *)
Lemma upper_digit_hex_val d : d < 16 -> hex_val (upper_digit d) = Some d /\ hex_val (lower_digit d) = Some d.
Proof.
  intros Hd.
  assert (H : (match hex_val (upper_digit d) with Some v => v =? d | None => false end
               && match hex_val (lower_digit d) with Some v => v =? d | None => false end) = true).
  { revert d Hd. apply forall_lt16. vm_compute. reflexivity. }
  apply andb_true_iff in H. destruct H as [H1 H2].
  destruct (hex_val (upper_digit d)); [|discriminate]. destruct (hex_val (lower_digit d)); [|discriminate].
  split; f_equal; lia.
Qed.

Lemma spells_of_nibbles a : forall (f : nat -> byte),
  (forall k, (k < 2 * length a)%nat -> hex_val (f k) = Some (nibble a k)) ->
  hex_spells (map f (seq 0 (2 * length a))) a.
Proof.
  induction a as [|x a IH]; intros f Hf; [exact I|].
  replace (2 * length (x :: a))%nat with (S (S (2 * length a))) by (cbn [length]; lia).
  cbn [seq map]. rewrite <- seq_shift, map_map, <- seq_shift, map_map. cbn [hex_spells]. split.
  - exists (nibble (x :: a) 0), (nibble (x :: a) 1). repeat split; try (apply Hf; cbn [length]; lia).
    unfold nibble. cbn. pose proof (N.div_mod (b2n x) 16). lia.
  - apply (IH (fun k => f (S (S k)))). intros k Hk. rewrite Hf by (cbn [length]; lia). rewrite nibble_SS. reflexivity.
Qed.

Theorem eip55_parses_back (H : bytes -> bytes) a :
  length a = 20%nat -> Address_SetString (eip55 H a) = Ok a.
Proof.
  intros Ha. unfold eip55.
  replace 40%nat with (2 * length a)%nat by lia.
  refine (proj2 (Address_SetString_accepts _ a _ Ha)).
  apply spells_of_nibbles. intros k Hk. cbv zeta.
  destruct (upper_digit_hex_val (nibble a k) (nibble_lt a k)) as [U L].
  destruct ((10 <=? nibble a k) && N.testbit (be_value (H (lower_hex a))) (255 - 4 * N.of_nat k)); assumption.
Qed.

(* the lower-case forms spell the bytes, so they parse back too *)
Lemma lower_hex_spells a : hex_spells (lower_hex a) a.
Proof. rewrite <- hex_encode_lower_hex. apply hex_encode_spells. Qed.

(* ---------- through the JSON layer ---------- *)
Definition lexs_law_local (lexs : bytes -> option bytes) : Prop := forall b t, plain_string b = Some t -> lexs b = Some t.

Lemma t_0x_plain : forallb plain_char t_0x = true.
Proof. vm_compute. reflexivity. Qed.

Lemma json_string_layer_local lexs (s b : bytes) :
  lexs_law_local lexs -> hex_spells s b ->
  HexBytes_UnmarshalJSON lexs (quote s) = Ok b /\ HexBytes_UnmarshalJSON lexs (quote (t_0x ++ s)) = Ok b /\
  (length b = 20%nat -> Address_UnmarshalJSON lexs (quote s) = Ok b /\ Address_UnmarshalJSON lexs (quote (t_0x ++ s)) = Ok b).
Proof.
  intros L Hs. pose proof (hex_spells_plain s b Hs) as Hp.
  assert (Hp2 : forallb plain_char (t_0x ++ s) = true) by (rewrite forallb_app, t_0x_plain, Hp; reflexivity).
  unfold HexBytes_UnmarshalJSON, Address_UnmarshalJSON.
  rewrite (L (quote s) s) by (rewrite quote_eq; apply plain_string_quote; exact Hp).
  rewrite (L (quote (t_0x ++ s)) (t_0x ++ s)) by (rewrite quote_eq; apply plain_string_quote; exact Hp2).
  destruct (HexBytes_parse_accepts s b Hs) as [A B]. split; [exact A|]. split; [exact B|].
  intros Hl. apply Address_SetString_accepts; assumption.
Qed.
