(* Proofs about the model of pkg/ethtypes, part 1: hex digits, encoding/hex, byte strings and
   addresses (parse/print round trips for every byte string, casing and prefix; rejections). *)
From Coq Require Import List NArith ZArith Lia Bool Arith.
From Coq Require Import ZifyN ZifyNat ZifyBool.
From Coq Require Import Init.Byte.
From FFS Require Import Base.Res Base.Bytes EthTypes.Model.
Import ListNotations.
Local Open Scope N_scope.

(* ---------- characters ---------- *)
Lemma b2n_hexchar d : d < 16 -> b2n (hexchar d) = if d <? 10 then 48 + d else 87 + d.
Proof. intros H. unfold hexchar. apply b2n_n2b. destruct (d <? 10) eqn:E; lia. Qed.

Lemma unhex_hexchar d : d < 16 -> unhex_val (b2n (hexchar d)) = Some d.
Proof.
  intros H. rewrite b2n_hexchar by exact H. unfold unhex_val.
  destruct (d <? 10) eqn:E.
  - replace ((48 <=? 48 + d) && (48 + d <=? 57)) with true by lia. f_equal. lia.
  - replace ((48 <=? 87 + d) && (87 + d <=? 57)) with false by lia.
    replace ((97 <=? 87 + d) && (87 + d <=? 102)) with true by lia. f_equal. lia.
Qed.

Lemma unhex_val_lt c d : unhex_val c = Some d -> d < 16.
Proof.
  unfold unhex_val. destruct ((48 <=? c) && (c <=? 57)) eqn:E1; [intros [= <-]; lia|].
  destruct ((97 <=? c) && (c <=? 102)) eqn:E2; [intros [= <-]; lia|].
  destruct ((65 <=? c) && (c <=? 70)) eqn:E3; [intros [= <-]; lia|]. discriminate.
Qed.

(* ---------- hex.EncodeToString / hex.DecodeString ---------- *)
Lemma hex_decode_encode (b : bytes) : hex_decode (hex_encode b) = Ok b.
Proof.
  induction b as [|x b IH]; [reflexivity|].
  unfold hex_encode in *. cbn [flat_map app hex_decode].
  pose proof (b2n_lt x) as Hx.
  rewrite !unhex_hexchar by (try apply N.mod_lt; try (apply N.div_lt_upper_bound); lia).
  rewrite IH. cbn [bind]. f_equal. f_equal.
  rewrite <- (n2b_b2n x) at 3. f_equal.
  rewrite N.mul_comm. symmetry. apply N.div_mod. lia.
Qed.
