(* Proofs about the model of pkg/ethtypes, part 8: the converse of ProofsBig.v for floating-point
   texts.  A floating-point text of the documented syntax that is not an integer text ([float_only]) is
   accepted by BigIntegerFromString exactly when it is within the library limits
   ([big_limits_float], EthTypes/SpecBig.v) and denotes an integer - with that integer as the value;
   within the limits a text that denotes no integer is an error, beyond the limits every text is. *)
From Coq Require Import List NArith ZArith Lia Bool Arith.
From Coq Require Import ZifyN ZifyNat ZifyBool.
From Coq Require Import Init.Byte.
From FFS Require Import Base.Res Base.Bytes EthTypes.Model EthTypes.Spec EthTypes.SpecBig
  EthTypes.Proofs EthTypes.ProofsInt EthTypes.ProofsNum EthTypes.ProofsBig.
Import ListNotations.
Local Open Scope N_scope.

(* ---------- the parts of a well-formed floating-point text ---------- *)
Lemma fnum_wf_parts f : fnum_wf f = true ->
  f_sign f <= 2 /\ all_dec (f_int f) = true /\ all_dec (fdig (f_frac f)) = true /\
  f_int f ++ fdig (f_frac f) <> [] /\ exwf (f_exp f).
Proof.
  unfold fnum_wf, f_fdigits. fold (fdig (f_frac f)). intros H.
  repeat (apply andb_true_iff in H; destruct H as [H ?]).
  split; [lia|]. split; [assumption|]. split; [assumption|]. split.
  - intros E. rewrite E in *. discriminate.
  - intros c sg d E. rewrite E in *. repeat (apply andb_true_iff in H0; destruct H0 as [H0 ?]).
    split; [destruct (exp_letter c); [eauto|discriminate]|]. split; [lia|]. split; [assumption|].
    intros ->. discriminate.
Qed.

Definition fbody (f : fnum) : bytes := f_int f ++ fracpart (f_frac f) ++ exppart (f_exp f).

(* the first character after the sign is a decimal digit or the point *)
Lemma fbody_head f : fnum_wf f = true -> exists c u, fbody f = c :: u /\ (48 <= b2n c <= 57 \/ b2n c = 46).
Proof.
  intros W. destruct (fnum_wf_parts f W) as (_ & Hi & _ & Hne & _). unfold fbody.
  destruct (f_int f) as [|c ip] eqn:Ei.
  - destruct (f_frac f) as [fp|]; [|cbn [fdig app] in Hne; congruence].
    cbn [fracpart app]. eexists _, _. split; [reflexivity|]. right. apply b2n_ch. lia.
  - apply all_dec_cons in Hi. destruct Hi as [(d & _ & _ & Hc) _]. cbn [app]. eexists _, _. split; [reflexivity|]. left. exact Hc.
Qed.

Lemma fnum_text_body f : fnum_text f = sign_chars (f_sign f) ++ fbody f.
Proof. rewrite fnum_text_eq. reflexivity. Qed.

Lemma scan_sign_fnum f : fnum_wf f = true -> scan_sign (fnum_text f) = Some ((f_sign f =? 2), fbody f).
Proof.
  intros W. destruct (fnum_wf_parts f W) as (Hs & _). destruct (fbody_head f W) as (c & u & Hb & Hc).
  rewrite fnum_text_body. unfold sign_chars.
  assert (f_sign f = 0 \/ f_sign f = 1 \/ f_sign f = 2) as [->|[->| ->]] by lia; cbn [N.eqb Pos.eqb app].
  - rewrite Hb. unfold scan_sign. replace (b2n c =? 45) with false by lia. replace (b2n c =? 43) with false by lia. reflexivity.
  - unfold scan_sign. rewrite (b2n_ch 43) by lia. reflexivity.
  - unfold scan_sign. rewrite (b2n_ch 45) by lia. reflexivity.
Qed.

Lemma is_inf_text_fnum f : fnum_wf f = true -> is_inf_text (fnum_text f) = false.
Proof.
  intros W. destruct (fnum_wf_parts f W) as (Hs & _). destruct (fbody_head f W) as (c & u & Hb & Hc).
  rewrite fnum_text_body, Hb. unfold sign_chars, is_inf_text.
  assert (f_sign f = 0 \/ f_sign f = 1 \/ f_sign f = 2) as [->|[->| ->]] by lia; cbn [N.eqb Pos.eqb app].
  - rewrite !codes_eqb_head_ne by lia. cbn [orb].
    replace (b2n c =? 43) with false by lia. replace (b2n c =? 45) with false by lia. reflexivity.
  - rewrite !codes_eqb_head_ne by (rewrite b2n_ch; lia). rewrite !codes_eqb_head_ne by lia. cbn [orb]. apply andb_false_r.
  - rewrite !codes_eqb_head_ne by (rewrite b2n_ch; lia). rewrite !codes_eqb_head_ne by lia. cbn [orb]. apply andb_false_r.
Qed.

(* ---------- Int.SetString refuses a text that is only a floating-point text ---------- *)
Lemma loop_rest_nonempty b s rest :
  all_dec s = true -> (b = 10 \/ b = 8) ->
  ((b = 8 /\ has_89 s = true) \/ exists h r, rest = h :: r /\ b <= digit_val (b2n h) /\ b2n h <> 95) ->
  forall prev inval count acc, l_rest (scan_loop true b (s ++ rest) false prev inval count None acc) <> [].
Proof.
  intros Hd Hb. induction s as [|c s IH]; intros Hc prev inval count acc.
  - destruct Hc as [[_ H]|(h & r & -> & Hh & H95)]; [discriminate|].
    cbn [app scan_loop]. rewrite andb_false_r. replace (b2n h =? 95) with false by lia. cbn [andb].
    replace (b <=? digit_val (b2n h)) with true by lia. cbn [l_rest]. discriminate.
  - apply all_dec_cons in Hd. destruct Hd as [(d & _ & _ & Hcc) Hs].
    cbn [app scan_loop]. rewrite andb_false_r. replace (b2n c =? 95) with false by lia. cbn [andb].
    assert (Hdv : digit_val (b2n c) = b2n c - 48) by (unfold digit_val; replace ((48 <=? b2n c) && (b2n c <=? 57)) with true by lia; reflexivity).
    rewrite Hdv. destruct (b <=? b2n c - 48) eqn:Eb; [cbn [l_rest]; discriminate|].
    apply IH; [exact Hs|].
    destruct Hc as [[Hb8 H89]|Hr]; [left|right; exact Hr]. split; [exact Hb8|].
    unfold has_89 in H89. cbn [existsb] in H89. apply orb_true_iff in H89. destruct H89 as [H|H]; [lia|exact H].
Qed.

Lemma nat_scan_rest b prefix prev count s' s :
  scan_prefix true false s = (b, prefix, prev, count, s') ->
  s_rest (nat_scan true false s) = l_rest (scan_loop true b s' false prev false count None 0).
Proof.
  intros H. unfold nat_scan. rewrite H.
  destruct (l_count _ =? 0); [destruct (prefix =? 2)|]; reflexivity.
Qed.

Lemma float_only_int_none f : fnum_wf f = true -> float_only f = true -> int_set_string0 (fnum_text f) = None.
Proof.
  intros W Hfo. destruct (fnum_wf_parts f W) as (_ & Hi & Hf & Hne & Hex).
  unfold int_set_string0. rewrite (scan_sign_fnum f W).
  assert (Hrest : s_rest (nat_scan true false (fbody f)) <> []).
  { unfold fbody. set (rest := fracpart (f_frac f) ++ exppart (f_exp f)).
    (* the character after the integer digits, when there is one *)
    assert (Hstop : forall h r, rest = h :: r -> 10 <= digit_val (b2n h) /\ b2n h <> 95 /\ b2n h <> 98 /\ b2n h <> 66 /\
                                b2n h <> 111 /\ b2n h <> 79 /\ b2n h <> 120 /\ b2n h <> 88 /\ b2n h <> 48).
    { intros h r E. unfold rest in E. destruct (f_frac f) as [fp|]; cbn [fracpart app] in E.
      - injection E as <- _. rewrite b2n_ch by lia. cbn. lia.
      - pose proof (exppart_head (f_exp f) (fun c sg d E0 => proj1 (Hex c sg d E0))) as Hh. rewrite E in Hh.
        apply exp_head_codes in Hh. destruct Hh as [->|[->|[->| ->]]]; cbn; lia. }
    destruct (f_int f) as [|c ip] eqn:Ei.
    - (* no integer digits: the text starts with the point *)
      destruct rest as [|h r] eqn:Er.
      { exfalso. unfold rest in Er. destruct (f_frac f); [discriminate|]. cbn [fdig app] in Hne. congruence. }
      destruct (Hstop h r eq_refl) as (Hh & H95 & _ & _ & _ & _ & _ & _ & H48).
      cbn [app]. rewrite (nat_scan_rest 10 0 PDot 0 (h :: r) (h :: r) (scan_prefix_nonzero true false h r H48)).
      apply (loop_rest_nonempty 10 [] (h :: r) eq_refl (or_introl eq_refl)). right. exists h, r. repeat split; assumption.
    - pose proof Hi as Hi'. apply all_dec_cons in Hi'. destruct Hi' as [(d & _ & _ & Hc) Hip].
      destruct (N.eq_dec (b2n c) 48) as [E48|N48].
      + (* leading 0: base 8 *)
        assert (Hcond : (has_89 ip = true) \/ exists h r, rest = h :: r).
        { destruct rest as [|h r] eqn:Er; [|right; eauto]. left.
          unfold rest in Er. unfold float_only in Hfo.
          destruct (f_frac f); [discriminate|]. destruct (f_exp f) as [[[? ?] ?]|]; [discriminate|].
          rewrite Ei in Hfo. destruct ip as [|c2 ip']; [discriminate|].
          apply andb_true_iff in Hfo. destruct Hfo as [_ H89]. unfold has_89 in *. cbn [existsb] in H89.
          apply orb_true_iff in H89. destruct H89 as [H|H]; [lia|exact H]. }
        destruct (ip ++ rest) as [|y u] eqn:Et.
        { exfalso. destruct ip; [|discriminate]. cbn [app] in Et. destruct Hcond as [H|(h & r & H)]; [discriminate|congruence]. }
        assert (Hy : b2n y <> 98 /\ b2n y <> 66 /\ b2n y <> 111 /\ b2n y <> 79 /\ b2n y <> 120 /\ b2n y <> 88).
        { destruct ip as [|c2 ip'].
          - cbn [app] in Et. destruct (Hstop y u Et) as (_ & _ & ? & ? & ? & ? & ? & ? & _). repeat split; assumption.
          - cbn [app] in Et. injection Et as <- _. apply all_dec_cons in Hip. destruct Hip as [(? & _ & _ & Hc2) _]. lia. }
        assert (Hpre : scan_prefix true false ((c :: ip) ++ rest) = (8, 2, PDig, 0, ip ++ rest)).
        { cbn [app]. unfold scan_prefix. rewrite E48. cbn [N.eqb Pos.eqb]. rewrite Et.
          replace ((b2n y =? 98) || (b2n y =? 66)) with false by lia.
          replace ((b2n y =? 111) || (b2n y =? 79)) with false by lia.
          replace ((b2n y =? 120) || (b2n y =? 88)) with false by lia. reflexivity. }
        rewrite (nat_scan_rest 8 2 PDig 0 (ip ++ rest) _ Hpre).
        apply (loop_rest_nonempty 8 ip rest Hip (or_intror eq_refl)).
        destruct Hcond as [H|(h & r & H)]; [left; split; [reflexivity|exact H]|right].
        destruct (Hstop h r H) as (Hh & H95 & _). exists h, r. repeat split; [exact H|lia|exact H95].
      + (* decimal *)
        assert (Hr : exists h r, rest = h :: r).
        { destruct rest as [|h r] eqn:Er; [|eauto]. exfalso.
          unfold rest in Er. unfold float_only in Hfo.
          destruct (f_frac f); [discriminate|]. destruct (f_exp f) as [[[? ?] ?]|]; [discriminate|].
          rewrite Ei in Hfo. destruct ip; [discriminate|]. apply andb_true_iff in Hfo. destruct Hfo as [H _]. lia. }
        destruct Hr as (h & r & Hr). destruct (Hstop h r Hr) as (Hh & H95 & _).
        cbn [app]. rewrite (nat_scan_rest 10 0 PDot 0 _ _ (scan_prefix_nonzero true false c (ip ++ rest) N48)).
        change (c :: ip ++ rest) with ((c :: ip) ++ rest).
        apply (loop_rest_nonempty 10 (c :: ip) rest Hi (or_introl eq_refl)). right. exists h, r. repeat split; assumption. }
  destruct (s_rest (nat_scan true false (fbody f))); [congruence|]. cbn [is_nil]. rewrite andb_false_r. reflexivity.
Qed.

(* ---------- the gate and Rat.SetString on a floating-point text ---------- *)
Definition f_mv (f : fnum) : N := dec_fold (f_int f ++ fdig (f_frac f)) 0.

Lemma f_mant_mv f : fnum_wf f = true -> f_mant f = signed (f_sign f =? 2) (f_mv f).
Proof.
  intros W. destruct (fnum_wf_parts f W) as (_ & Hi & Hf & _). unfold f_mant, f_mv, f_fdigits. fold (fdig (f_frac f)).
  rewrite nat_of_dec_fold by (rewrite all_dec_app, Hi, Hf; reflexivity). reflexivity.
Qed.

Lemma f_written_ex f : fnum_wf f = true -> f_written f = ex_written (f_exp f).
Proof.
  intros W. destruct (fnum_wf_parts f W) as (_ & _ & _ & _ & Hex). unfold f_written, ex_written, written.
  destruct (f_exp f) as [[[c sg] d]|]; [|reflexivity].
  destruct (Hex c sg d eq_refl) as (_ & _ & Hd & _). rewrite nat_of_dec_fold by exact Hd. reflexivity.
Qed.

Lemma ex_base_cases ex : exwf ex -> ex_base ex = 10 \/ ex_base ex = 2.
Proof.
  intros Hex. unfold ex_base. destruct ex as [[[c sg] dd]|]; [|left; reflexivity].
  destruct (Hex c sg dd eq_refl) as ([bb Hbb] & _). rewrite Hbb. apply exp_letter_code in Hbb. lia.
Qed.

Lemma digits_count_nonzero (ip : bytes) (fr : option bytes) : ip ++ fdig fr <> [] -> (N.of_nat (length ip) + N.of_nat (length (fdig fr)) =? 0) = false.
Proof.
  intros Hne. apply N.eqb_neq. intros E. apply Hne. destruct ip; [|cbn [length] in E; lia].
  destruct (fdig fr); [reflexivity|cbn [length] in E; lia].
Qed.

Lemma frac_d (ip : bytes) (fr : option bytes) :
  (if (match fr with Some fp => - Z.of_nat (length fp) | None => Z.of_nat (length ip) end <? 0)%Z
   then match fr with Some fp => - Z.of_nat (length fp) | None => Z.of_nat (length ip) end else 0)%Z
  = (- Z.of_nat (length (fdig fr)))%Z.
Proof.
  destruct fr as [fp|]; cbn [fdig length].
  - destruct (- Z.of_nat (length fp) <? 0)%Z eqn:E; lia.
  - replace (Z.of_nat (length ip) <? 0)%Z with false by lia. reflexivity.
Qed.

Lemma gate_fnum f : fnum_wf f = true ->
  parse_float10_ok (fnum_text f) =
  in64 (f_written f) &&
  ((f_mv f =? 0) || float_exp_ok (Z.of_N (N.size (f_mv f)) + f_e10 f + f_e2 f)).
Proof.
  intros W. destruct (fnum_wf_parts f W) as (_ & Hi & Hf & Hne & Hex).
  unfold parse_float10_ok. rewrite (is_inf_text_fnum f W), (scan_sign_fnum f W). unfold fbody.
  rewrite (nat_scan_float10 (f_int f) (f_frac f) (exppart (f_exp f)) Hi Hf
             (exp_head_stops false _ _ (exppart_head (f_exp f) (fun c sg d E => proj1 (Hex c sg d E))))).
  unfold float_scanres. rewrite (digits_count_nonzero _ _ Hne). cbn [s_ok negb s_rest s_val s_count].
  rewrite (scan_exponent_pieces false (f_exp f) Hex). rewrite (f_written_ex f W).
  destruct (in64 (ex_written (f_exp f))); cbn [e_ok negb e_rest e_val is_nil andb]; [|reflexivity].
  fold (f_mv f). destruct (f_mv f =? 0); [reflexivity|]. cbn [orb].
  rewrite (frac_d (f_int f) (f_frac f)).
  assert (Hsum : (- Z.of_nat (length (fdig (f_frac f))) + ex_written (f_exp f) = f_e10 f + f_e2 f)%Z).
  { unfold f_e10, f_e2, f_ebase, f_fdigits. fold (fdig (f_frac f)). rewrite (f_written_ex f W).
    fold (ex_base (f_exp f)). destruct (ex_base_cases (f_exp f) Hex) as [-> | ->]; cbn [N.eqb Pos.eqb]; lia. }
  rewrite <- Z.add_assoc, Hsum, Z.add_assoc. unfold float_exp_ok, MinExp, MaxExp.
  match goal with |- (if ?c then _ else _) = _ => destruct c end; reflexivity.
Qed.

Lemma rat_fnum_some f : fnum_wf f = true ->
  in64 (f_written f) = true ->
  (f_mv f <> 0 -> (Z.abs (f_e10 f) <= 1000000 /\ Z.abs (f_e10 f + f_e2 f) <= 10000000)%Z) ->
  exists a b, rat_set_string (fnum_text f) = Some (a, b).
Proof.
  intros W H64 Hlim. destruct (fnum_wf_parts f W) as (Hsg & Hi & Hf & Hne & Hex).
  unfold rat_set_string.
  assert (Hnil : is_nil (fnum_text f) = false).
  { rewrite fnum_text_body. destruct (fbody_head f W) as (c & u & -> & _). destruct (sign_chars (f_sign f)); reflexivity. }
  rewrite Hnil. rewrite split_slash_none by (rewrite fnum_text_eq; apply no_slash_pieces; assumption).
  rewrite (scan_sign_fnum f W). unfold fbody.
  rewrite (nat_scan_float0 (f_int f) (f_frac f) (exppart (f_exp f)) Hi Hf (exppart_head (f_exp f) (fun c sg d E => proj1 (Hex c sg d E)))).
  unfold float_scanres. rewrite (digits_count_nonzero _ _ Hne). cbn [s_ok negb s_rest s_val s_count s_base].
  rewrite (scan_exponent_pieces true (f_exp f) Hex). rewrite (f_written_ex f W) in H64. rewrite H64.
  cbn [e_ok negb e_rest e_val e_base is_nil]. fold (f_mv f).
  destruct (f_mv f =? 0) eqn:Em; [eauto|].
  rewrite (frac_d (f_int f) (f_frac f)). cbn [N.eqb Pos.eqb].
  assert (Hm : f_mv f <> 0) by (apply N.eqb_neq; exact Em). destruct (Hlim Hm) as [L5 L2].
  unfold f_e10, f_e2, f_ebase, f_fdigits in L5, L2. fold (fdig (f_frac f)) in L5, L2. rewrite (f_written_ex f W) in L5, L2.
  fold (ex_base (f_exp f)) in L5, L2.
  destruct (ex_base_cases (f_exp f) Hex) as [Hb|Hb]; rewrite Hb in *; cbn [N.eqb Pos.eqb] in *.
  - match goal with |- context [(Z.abs ?x >? 1000000)%Z] => replace (Z.abs x >? 1000000)%Z with false by lia end.
    match goal with |- context [((?x <? -10000000) || (?x >? 10000000))%Z] => replace ((x <? -10000000) || (x >? 10000000))%Z with false by lia end.
    eauto.
  - match goal with |- context [(Z.abs ?x >? 1000000)%Z] => replace (Z.abs x >? 1000000)%Z with false by lia end.
    match goal with |- context [((?x <? -10000000) || (?x >? 10000000))%Z] => replace ((x <? -10000000) || (x >? 10000000))%Z with false by lia end.
    eauto.
Qed.

Lemma rat_fnum_none f : fnum_wf f = true ->
  in64 (f_written f) = true -> f_mv f <> 0 ->
  ~ (Z.abs (f_e10 f) <= 1000000 /\ Z.abs (f_e10 f + f_e2 f) <= 10000000)%Z ->
  rat_set_string (fnum_text f) = None.
Proof.
  intros W H64 Hm Hlim. destruct (fnum_wf_parts f W) as (Hsg & Hi & Hf & Hne & Hex).
  unfold rat_set_string.
  assert (Hnil : is_nil (fnum_text f) = false).
  { rewrite fnum_text_body. destruct (fbody_head f W) as (c & u & -> & _). destruct (sign_chars (f_sign f)); reflexivity. }
  rewrite Hnil. rewrite split_slash_none by (rewrite fnum_text_eq; apply no_slash_pieces; assumption).
  rewrite (scan_sign_fnum f W). unfold fbody.
  rewrite (nat_scan_float0 (f_int f) (f_frac f) (exppart (f_exp f)) Hi Hf (exppart_head (f_exp f) (fun c sg d E => proj1 (Hex c sg d E)))).
  unfold float_scanres. rewrite (digits_count_nonzero _ _ Hne). cbn [s_ok negb s_rest s_val s_count s_base].
  rewrite (scan_exponent_pieces true (f_exp f) Hex). rewrite (f_written_ex f W) in H64. rewrite H64.
  cbn [e_ok negb e_rest e_val e_base is_nil]. fold (f_mv f).
  replace (f_mv f =? 0) with false by lia.
  rewrite (frac_d (f_int f) (f_frac f)). cbn [N.eqb Pos.eqb].
  unfold f_e10, f_e2, f_ebase, f_fdigits in Hlim. fold (fdig (f_frac f)) in Hlim. rewrite (f_written_ex f W) in Hlim.
  fold (ex_base (f_exp f)) in Hlim.
  destruct (ex_base_cases (f_exp f) Hex) as [Hb|Hb]; rewrite Hb in *; cbn [N.eqb Pos.eqb] in *.
  - match goal with |- context [(Z.abs ?x >? 1000000)%Z] => destruct (Z.abs x >? 1000000)%Z eqn:E5; [reflexivity|] end.
    match goal with |- context [((?x <? -10000000) || (?x >? 10000000))%Z] => destruct ((x <? -10000000) || (x >? 10000000))%Z eqn:E2; [reflexivity|] end.
    exfalso. apply Hlim. lia.
  - match goal with |- context [(Z.abs ?x >? 1000000)%Z] => destruct (Z.abs x >? 1000000)%Z eqn:E5; [reflexivity|] end.
    match goal with |- context [((?x <? -10000000) || (?x >? 10000000))%Z] => destruct ((x <? -10000000) || (x >? 10000000))%Z eqn:E2; [reflexivity|] end.
    exfalso. apply Hlim. lia.
Qed.

(* ---------- the verdict ---------- *)
Theorem float_text_exact f :
  fnum_wf f = true -> float_only f = true ->
  if big_limits_float f
  then (forall q, sci2_is (f_mant f) (f_e10 f) (f_e2 f) q -> BigIntegerFromString (fnum_text f) = Ok q) /\
       ((forall q, ~ sci2_is (f_mant f) (f_e10 f) (f_e2 f) q) -> exists err, BigIntegerFromString (fnum_text f) = Err err)
  else exists err, BigIntegerFromString (fnum_text f) = Err err.
Proof.
  intros W Hfo. destruct (fnum_wf_parts f W) as (Hsg & Hi & Hf & Hne & Hex).
  unfold BigIntegerFromString. rewrite (float_only_int_none f W Hfo), (gate_fnum f W).
  unfold big_limits_float. change (int64_ok (f_written f)) with (in64 (f_written f)).
  assert (Hz : (f_mant f =? 0)%Z = (f_mv f =? 0)).
  { rewrite (f_mant_mv f W). unfold signed. destruct (f_sign f =? 2); lia. }
  assert (Hbl : bitlen (f_mant f) = Z.of_N (N.size (f_mv f))).
  { unfold bitlen. rewrite (f_mant_mv f W). unfold signed. f_equal. f_equal. destruct (f_sign f =? 2); lia. }
  rewrite Hz, Hbl.
  destruct (in64 (f_written f)) eqn:H64; cbn [andb negb]; [|eauto].
  (* what an accepted pair (a, b) means *)
  assert (Hval : forall a b, rat_set_string (fnum_text f) = Some (a, b) ->
            (forall q, sci2_is (f_mant f) (f_e10 f) (f_e2 f) q ->
               (if (a mod Z.of_N b =? 0)%Z then Ok (a / Z.of_N b)%Z else Err EPrecision) = Ok q) /\
            ((forall q, ~ sci2_is (f_mant f) (f_e10 f) (f_e2 f) q) ->
               exists err, (if (a mod Z.of_N b =? 0)%Z then Ok (a / Z.of_N b)%Z else Err EPrecision) = Err err)).
  { intros a b Er.
    assert (Hnil : is_nil (fnum_text f) = false).
    { rewrite fnum_text_body. destruct (fbody_head f W) as (c & u & -> & _). destruct (sign_chars (f_sign f)); reflexivity. }
    assert (Hsl : split_slash (fnum_text f) = None) by (apply split_slash_none; rewrite fnum_text_eq; apply no_slash_pieces; assumption).
    destruct (rat_pieces (fnum_text f) (f_sign f =? 2) (f_int f) (f_frac f) (f_exp f) a b (scan_sign_fnum f W) Hnil Hsl Hi Hf Hne Hex Er) as [Hbpos Heq].
    cbv zeta in Heq. fold (f_mv f) in Heq. rewrite <- (f_mant_mv f W) in Heq.
    assert (He10 : ((if (ex_base (f_exp f) =? 10)%N then ex_written (f_exp f) else 0) - Z.of_nat (length (fdig (f_frac f))))%Z = f_e10 f).
    { unfold f_e10, f_ebase, f_fdigits. fold (fdig (f_frac f)). rewrite (f_written_ex f W). reflexivity. }
    assert (He2 : (if (ex_base (f_exp f) =? 2)%N then ex_written (f_exp f) else 0)%Z = f_e2 f).
    { unfold f_e2, f_ebase. rewrite (f_written_ex f W). reflexivity. }
    rewrite He10, He2 in Heq.
    set (P := (10 ^ Z.max (f_e10 f) 0 * 2 ^ Z.max (f_e2 f) 0)%Z) in *.
    set (Q := (10 ^ Z.max (- f_e10 f) 0 * 2 ^ Z.max (- f_e2 f) 0)%Z) in *.
    assert (HQ : (0 < Q)%Z) by (unfold Q; apply Z.mul_pos_pos; apply Z.pow_pos_nonneg; lia).
    assert (Hsci : forall q, sci2_is (f_mant f) (f_e10 f) (f_e2 f) q <-> (f_mant f * P = q * Q)%Z).
    { intros q. unfold sci2_is, P, Q. rewrite <- !Z.mul_assoc. reflexivity. }
    split.
    - intros q Hq. apply Hsci in Hq.
      assert (Ha : a = (q * Z.of_N b)%Z).
      { apply (Z.mul_reg_r _ _ Q); [lia|]. rewrite Heq, Hq. ring. }
      rewrite Ha, Z.mod_mul by lia. cbn [Z.eqb]. rewrite Z.div_mul by lia. reflexivity.
    - intros Hn. destruct (a mod Z.of_N b =? 0)%Z eqn:Em; [exfalso|eauto].
      apply Z.eqb_eq in Em. apply (Hn (a / Z.of_N b)%Z). apply Hsci.
      assert (Ha : a = (a / Z.of_N b * Z.of_N b)%Z) by (rewrite Z.mul_comm; apply Z.div_exact; lia).
      apply (Z.mul_reg_l _ _ (Z.of_N b)); [lia|]. rewrite <- Heq. rewrite Ha at 1. ring. }
  destruct (f_mv f =? 0) eqn:Em; cbn [orb negb].
  - destruct (rat_fnum_some f W H64 ltac:(intros H; apply N.eqb_eq in Em; congruence)) as (a & b & Er).
    rewrite Er. apply Hval. exact Er.
  - destruct (float_exp_ok (Z.of_N (N.size (f_mv f)) + f_e10 f + f_e2 f)); cbn [andb negb]; [|eauto].
    destruct ((Z.abs (f_e10 f) <=? 1000000)%Z && (Z.abs (f_e10 f + f_e2 f) <=? 10000000)%Z) eqn:El.
    + destruct (rat_fnum_some f W H64 ltac:(intros _; lia)) as (a & b & Er). rewrite Er. apply Hval. exact Er.
    + rewrite (rat_fnum_none f W H64 ltac:(apply N.eqb_neq; exact Em) ltac:(lia)). eauto.
Qed.
