(* Proofs about the model of pkg/ethtypes, part 3: JSON-number / exponent spellings.
   For every text of the JSON number grammar (sign, integer part, optional fraction, optional
   exponent) BigIntegerFromString returns the integer the text denotes exactly, or an error when it
   denotes no integer — through the models of Int.SetString(s,0) (fails on '.', 'e'), the ParseFloat
   syntax gate and Rat.SetString.  Then the combined exactness theorem over all spelling classes for
   HexInteger and HexUint64. *)
From Coq Require Import List NArith ZArith Lia Bool Arith.
From Coq Require Import ZifyN ZifyNat ZifyBool.
From Coq Require Import Init.Byte.
From FFS Require Import Base.Res Base.Bytes EthTypes.Model EthTypes.Spec EthTypes.Proofs EthTypes.ProofsInt.
Import ListNotations.
Local Open Scope N_scope.

Ltac neqb := symmetry; apply N.eqb_neq; lia.

(* ---------- decimal digit strings ---------- *)
Definition dec_fold (s : bytes) (acc : N) : N := fold_left (fun a c => a * 10 + (b2n c - 48)) s acc.

Lemma all_dec_cons c s : all_dec (c :: s) = true -> (exists d, dec_val c = Some d /\ d = b2n c - 48 /\ 48 <= b2n c <= 57) /\ all_dec s = true.
Proof.
  unfold all_dec. cbn [forallb]. intros H. apply andb_true_iff in H. destruct H as [H1 H2]. split; [|exact H2].
  unfold dec_val in *. destruct ((48 <=? b2n c) && (b2n c <=? 57)) eqn:E; [|discriminate].
  eexists. split; [reflexivity|]. lia.
Qed.

Lemma all_dec_digits_val s : forall acc, all_dec s = true -> digits_val 10 dec_val s acc = Some (dec_fold s acc).
Proof.
  induction s as [|c s IH]; intros acc H; [reflexivity|].
  apply all_dec_cons in H. destruct H as [(d & Hd & Hde & _) Hs].
  cbn [digits_val]. rewrite Hd, Hde. apply IH. exact Hs.
Qed.

Lemma nat_of_dec_fold s : all_dec s = true -> nat_of_dec s = dec_fold s 0.
Proof. intros H. unfold nat_of_dec. rewrite all_dec_digits_val by exact H. reflexivity. Qed.

Lemma dec_fold_app s1 s2 acc : dec_fold (s1 ++ s2) acc = dec_fold s2 (dec_fold s1 acc).
Proof. unfold dec_fold. apply fold_left_app. Qed.

Lemma all_dec_app s1 s2 : all_dec (s1 ++ s2) = all_dec s1 && all_dec s2.
Proof. unfold all_dec. apply forallb_app. Qed.

Lemma dec_fold_bound s : forall acc, all_dec s = true -> dec_fold s acc + 1 <= (acc + 1) * 10 ^ N.of_nat (length s).
Proof.
  induction s as [|c s IH]; intros acc H.
  - cbn. lia.
  - apply all_dec_cons in H. destruct H as [(d & _ & _ & Hc) Hs].
    change (dec_fold (c :: s) acc) with (dec_fold s (acc * 10 + (b2n c - 48))).
    specialize (IH (acc * 10 + (b2n c - 48)) Hs).
    replace (N.of_nat (length (c :: s))) with (N.succ (N.of_nat (length s))) by (cbn [length]; lia).
    rewrite N.pow_succ_r'. nia.
Qed.

Lemma size_le_of_lt n k : n < 2 ^ k -> N.size n <= k.
Proof.
  intros H. destruct (N.le_gt_cases (N.size n) k) as [L|G]; [exact L|exfalso].
  pose proof (N.size_le n) as S1.
  assert (2 ^ N.succ k <= 2 ^ N.size n) by (apply N.pow_le_mono_r; lia).
  rewrite N.pow_succ_r' in H0. rewrite N.succ_double_spec in S1. lia.
Qed.

Lemma dec_fold_size s : all_dec s = true -> N.size (dec_fold s 0) <= 4 * N.of_nat (length s).
Proof.
  intros H. apply size_le_of_lt. pose proof (dec_fold_bound s 0 H) as B.
  assert (10 ^ N.of_nat (length s) <= 2 ^ (4 * N.of_nat (length s))).
  { rewrite N.pow_mul_r. change (2 ^ 4) with 16. apply N.pow_le_mono_l. lia. }
  lia.
Qed.

Lemma dec_compat : forall c d, dec_val c = Some d -> digit_val (b2n c) = d /\ d < 10.
Proof. intros c d H. destruct (dec_val_digit c d H) as (? & ? & ?). split; assumption. Qed.

(* ---------- the pieces of a JSON number text ---------- *)
Definition j_sign (j : jnum) : bytes := if j_neg j then t_minus else [].
Definition j_fracpart (j : jnum) : bytes := match j_frac j with None => [] | Some f => ch 46 :: f end.
Definition j_signchars (sg : N) : bytes := if sg =? 1 then [ch 43] else if sg =? 2 then [ch 45] else [].
Definition j_exppart (j : jnum) : bytes :=
  match j_exp j with None => [] | Some (up, sg, d) => ch (if up then 69 else 101) :: j_signchars sg ++ d end.
Definition j_fdigits (j : jnum) : bytes := match j_frac j with None => [] | Some f => f end.
Definition j_expo (j : jnum) : Z :=
  match j_exp j with None => 0 | Some (_, sg, d) => if (sg =? 2)%N then - Z.of_N (dec_fold d 0) else Z.of_N (dec_fold d 0) end%Z.

Lemma jnum_text_eq j : jnum_text j = j_sign j ++ j_int j ++ j_fracpart j ++ j_exppart j.
Proof. reflexivity. Qed.

(* a text that is empty or starts with 'e' / 'E' *)
Definition exp_start (s : bytes) : Prop := s = [] \/ exists c t, s = c :: t /\ (b2n c = 101 \/ b2n c = 69).

Lemma j_exppart_start j : exp_start (j_exppart j).
Proof.
  unfold j_exppart. destruct (j_exp j) as [[[up sg] d]|]; [|left; reflexivity].
  right. eexists _, _. split; [reflexivity|]. destruct up; [right|left]; apply b2n_ch; lia.
Qed.

Record jwf (j : jnum) : Prop := {
  wf_int : all_dec (j_int j) = true;
  wf_nlz : no_leading_zero (j_int j) = true;
  wf_frac : all_dec (j_fdigits j) = true;
  wf_frac_ne : forall f, j_frac j = Some f -> f <> [];
  wf_exp : forall up sg d, j_exp j = Some (up, sg, d) -> all_dec d = true /\ d <> [] /\ sg <= 2 }.

Lemma jnum_wf_jwf j : jnum_wf j = true -> jwf j.
Proof.
  unfold jnum_wf. intros H. repeat (apply andb_true_iff in H; destruct H as [H ?]).
  constructor; try assumption.
  - unfold j_fdigits. destruct (j_frac j); [|reflexivity]. apply andb_true_iff in H1. tauto.
  - intros f E. rewrite E in H1. apply andb_true_iff in H1. destruct H1 as [_ H1]. destruct f; [discriminate|discriminate].
  - intros up sg d E. rewrite E in H0. repeat (apply andb_true_iff in H0; destruct H0 as [H0 ?]).
    split; [assumption|]. split; [destruct d; [discriminate|discriminate]|lia].
Qed.

(* the end of the mantissa: the loop stops at 'e' / 'E' in base 10 (and in base 8) *)
Lemma scan_loop_stop base0 b s fracOk prev inval count dp acc :
  b <= 14 -> exp_start s ->
  scan_loop base0 b s fracOk prev inval count dp acc = mkLoop s prev inval count dp acc.
Proof.
  intros Hb [->|(c & t & -> & Hc)]; [reflexivity|].
  cbn [scan_loop].
  replace (b2n c =? 46) with false by (destruct Hc as [-> | ->]; reflexivity).
  replace (b2n c =? 95) with false by (destruct Hc as [-> | ->]; reflexivity).
  cbn [andb]. replace (digit_val (b2n c)) with 14 by (destruct Hc as [-> | ->]; reflexivity).
  replace (b <=? 14) with true by lia. reflexivity.
Qed.

(* fraction part and stop *)
Lemma scan_loop_tail base0 j n0 v0 :
  jwf j ->
  scan_loop base0 10 (j_fracpart j ++ j_exppart j) true PDig false n0 None v0 =
  mkLoop (j_exppart j) PDig false (n0 + N.of_nat (length (j_fdigits j)))
         (match j_frac j with None => None | Some _ => Some n0 end) (dec_fold (j_fdigits j) v0).
Proof.
  intros W. unfold j_fracpart, j_fdigits. destruct (j_frac j) as [f|] eqn:Ef.
  - cbn [app scan_loop]. rewrite (b2n_ch 46) by lia. cbn [N.eqb Pos.eqb andb is_sep orb].
    pose proof (wf_frac j W) as Hf. unfold j_fdigits in Hf. rewrite Ef in Hf.
    rewrite (scan_loop_digits base0 10 dec_val ltac:(lia) dec_compat f (j_exppart j) false PDot false n0 (Some n0) v0 _
               (all_dec_digits_val f v0 Hf)).
    rewrite scan_loop_stop by (try lia; apply j_exppart_start).
    pose proof (wf_frac_ne j W f Ef). destruct f; [congruence|reflexivity].
  - cbn [app length]. rewrite scan_loop_stop by (try lia; apply j_exppart_start).
    f_equal. lia.
Qed.

(* integer part, in base-0 mode ("0" is first taken as a possible prefix) and in base-10 mode *)
Lemma fracpart_exppart_head j c t :
  j_fracpart j ++ j_exppart j = c :: t -> b2n c = 46 \/ b2n c = 101 \/ b2n c = 69.
Proof.
  unfold j_fracpart. destruct (j_frac j).
  - cbn [app]. intros [= <- _]. left. apply b2n_ch. lia.
  - cbn [app]. intros E. destruct (j_exppart_start j) as [E0|(c' & t' & E' & Hc)]; rewrite E in *; [discriminate|].
    injection E' as <- _. tauto.
Qed.

Lemma scan_mantissa base0 j :
  jwf j ->
  nat_scan base0 true (j_int j ++ j_fracpart j ++ j_exppart j) =
  mkScan (dec_fold (j_int j ++ j_fdigits j) 0) 10
         (match j_frac j with None => Z.of_nat (length (j_int j)) | Some f => - Z.of_nat (length f) end)
         (j_exppart j) true.
Proof.
  intros W. pose proof (wf_int j W) as Hi. pose proof (wf_nlz j W) as Hz.
  set (rest := j_fracpart j ++ j_exppart j).
  assert (Hstate : exists prev0 count0 s',
             scan_prefix base0 true (j_int j ++ rest) = (10, 0, prev0, count0, s') /\
             scan_loop base0 10 s' true prev0 false count0 None 0 =
             scan_loop base0 10 rest true PDig false (N.of_nat (length (j_int j))) None (dec_fold (j_int j) 0)).
  { destruct (j_int j) as [|c ip] eqn:Ei; [discriminate|].
    apply all_dec_cons in Hi. destruct Hi as [(d & Hd & Hde & Hc) Hip].
    destruct (N.eq_dec (b2n c) 48) as [E48|N48].
    - destruct ip as [|c1 ip1]; [|cbn in Hz; rewrite E48 in Hz; discriminate].
      destruct base0.
      + (* base 0: "0" then '.', 'e', 'E' or the end *)
        unfold scan_prefix. cbn [app]. rewrite E48. cbn [N.eqb Pos.eqb].
        destruct rest as [|y u] eqn:Er.
        * exists PDig, 1, []. split; [reflexivity|]. cbn. rewrite E48. reflexivity.
        * exists PDig, 1, (y :: u). split.
          { pose proof (fracpart_exppart_head j y u Er) as Hy.
            replace (b2n y =? 98) with false by neqb. replace (b2n y =? 66) with false by neqb.
            replace (b2n y =? 111) with false by neqb. replace (b2n y =? 79) with false by neqb.
            replace (b2n y =? 120) with false by neqb. replace (b2n y =? 88) with false by neqb.
            reflexivity. }
          cbn [length dec_fold fold_left]. rewrite E48. reflexivity.
      + exists PDot, 0, ([c] ++ rest). split; [reflexivity|].
        rewrite (scan_loop_digits false 10 dec_val ltac:(lia) dec_compat [c] rest true PDot false 0 None 0 _
                   (all_dec_digits_val [c] 0 ltac:(unfold all_dec; cbn [forallb]; rewrite Hd; reflexivity))).
        reflexivity.
    - exists PDot, 0, ((c :: ip) ++ rest). split; [apply scan_prefix_nonzero; exact N48|].
      assert (Hall : all_dec (c :: ip) = true) by (unfold all_dec in *; cbn [forallb]; rewrite Hd, Hip; reflexivity).
      rewrite (scan_loop_digits base0 10 dec_val ltac:(lia) dec_compat (c :: ip) rest true PDot false 0 None 0 _
                 (all_dec_digits_val (c :: ip) 0 Hall)).
      reflexivity. }
  destruct Hstate as (prev0 & count0 & s' & Hp & Hl).
  unfold nat_scan. rewrite Hp, Hl. unfold rest. rewrite (scan_loop_tail base0 j _ _ W).
  cbn [l_count l_inval l_prev l_rest l_acc l_dp is_sep orb negb].
  assert (Hlen : (0 < length (j_int j))%nat) by (destruct (j_int j); [discriminate|cbn; lia]).
  replace (N.of_nat (length (j_int j)) + N.of_nat (length (j_fdigits j)) =? 0) with false by neqb.
  rewrite dec_fold_app. f_equal.
  unfold j_fdigits. destruct (j_frac j); cbn [length]; lia.
Qed.

(* ---------- the exponent ---------- *)
Lemma exp_loop_digits sepOk s : forall prev inval has acc,
  all_dec s = true ->
  exp_loop sepOk s prev inval has acc =
  mkELoop [] (if is_nil s then prev else PDig) inval (has || negb (is_nil s)) (dec_fold s acc).
Proof.
  induction s as [|c s IH]; intros prev inval has acc H.
  - cbn. rewrite orb_false_r. reflexivity.
  - apply all_dec_cons in H. destruct H as [(d & _ & _ & Hc) Hs].
    cbn [exp_loop]. replace ((48 <=? b2n c) && (b2n c <=? 57)) with true by lia.
    rewrite IH by exact Hs. cbn [is_nil negb]. rewrite orb_true_r.
    destruct s; reflexivity.
Qed.

Lemma scan_exponent_json base2ok sepOk j :
  jwf j -> (minInt64 <= j_expo j <= maxInt64)%Z ->
  scan_exponent base2ok sepOk (j_exppart j) = mkExp (j_expo j) 10 [] true.
Proof.
  intros W R. unfold j_exppart, j_expo in *. destruct (j_exp j) as [[[up sg] d]|] eqn:Ee; [|reflexivity].
  destruct (wf_exp j W up sg d Ee) as (Hd & Hne & Hsg).
  cbn [scan_exponent].
  assert (Hc : b2n (ch (if up then 69 else 101)) = (if up then 69 else 101)) by (destruct up; apply b2n_ch; lia).
  rewrite Hc.
  replace (((if up then 69 else 101) =? 101) || ((if up then 69 else 101) =? 69)) with true by (destruct up; reflexivity).
  assert (Hsplit : (match j_signchars sg ++ d with
                    | y :: u => if b2n y =? 43 then (false, u) else if b2n y =? 45 then (true, u) else (false, j_signchars sg ++ d)
                    | [] => (false, [])
                    end) = ((sg =? 2), d)).
  { unfold j_signchars. assert (sg = 0 \/ sg = 1 \/ sg = 2) as [->|[->| ->]] by lia; cbn [N.eqb Pos.eqb app].
    - destruct d as [|y u]; [congruence|]. apply all_dec_cons in Hd. destruct Hd as [(? & _ & _ & Hy) _].
      replace (b2n y =? 43) with false by neqb. replace (b2n y =? 45) with false by neqb. reflexivity.
    - rewrite (b2n_ch 43) by lia. reflexivity.
    - rewrite (b2n_ch 45) by lia. reflexivity. }
  rewrite Hsplit. rewrite exp_loop_digits by exact Hd.
  cbn [el_has el_acc el_rest el_inval el_prev orb].
  replace (negb (is_nil d)) with true by (destruct d; [congruence|reflexivity]).
  cbn [negb].
  replace (is_nil d) with false by (destruct d; [congruence|reflexivity]).
  cbn [is_sep orb].
  destruct (sg =? 2) eqn:E2.
  - replace ((minInt64 <=? - Z.of_N (dec_fold d 0)) && (- Z.of_N (dec_fold d 0) <=? maxInt64))%Z with true by lia.
    reflexivity.
  - replace ((minInt64 <=? Z.of_N (dec_fold d 0)) && (Z.of_N (dec_fold d 0) <=? maxInt64))%Z with true by lia.
    reflexivity.
Qed.

(* ---------- Int.SetString(s, 0) refuses a fraction or an exponent ---------- *)
Lemma scan_sign_json j :
  jwf j -> scan_sign (jnum_text j) = Some (j_neg j, j_int j ++ j_fracpart j ++ j_exppart j).
Proof.
  intros W. rewrite jnum_text_eq. unfold j_sign. destruct (j_neg j).
  - unfold t_minus. cbn [app scan_sign]. rewrite (b2n_ch 45) by lia. reflexivity.
  - cbn [app]. pose proof (wf_int j W) as Hi. pose proof (wf_nlz j W) as Hz.
    destruct (j_int j) as [|c ip]; [discriminate|]. apply all_dec_cons in Hi. destruct Hi as [(d & Hd & _) _].
    cbn [app]. apply (scan_sign_digit c _ d Hd).
Qed.

Lemma set_string_json_none j :
  jwf j -> j_fracpart j ++ j_exppart j <> [] -> int_set_string0 (jnum_text j) = None.
Proof.
  intros W Hne. unfold int_set_string0. rewrite (scan_sign_json j W).
  set (rest := j_fracpart j ++ j_exppart j) in *.
  assert (Hr : exists c t, rest = c :: t /\ (b2n c = 46 \/ b2n c = 101 \/ b2n c = 69)).
  { destruct rest as [|c t] eqn:Er; [congruence|]. exists c, t. split; [reflexivity|].
    apply (fracpart_exppart_head j c t Er). }
  destruct Hr as (c & t & Er & Hc).
  assert (Hstop : forall b prev inval count dp acc, b <= 14 ->
            scan_loop true b rest false prev inval count dp acc = mkLoop rest prev inval count dp acc).
  { intros b prev inval count dp acc Hb. rewrite Er. cbn [scan_loop]. rewrite andb_false_r.
    replace (b2n c =? 95) with false by neqb. cbn [andb].
    assert (Hdv : 14 <= digit_val (b2n c)) by (destruct Hc as [-> |[-> | ->]]; cbn; lia).
    replace (b <=? digit_val (b2n c)) with true by lia. reflexivity. }
  assert (Hrest : (s_ok (nat_scan true false (j_int j ++ rest)) && is_nil (s_rest (nat_scan true false (j_int j ++ rest)))) = false).
  { pose proof (wf_int j W) as Hi. pose proof (wf_nlz j W) as Hz.
    destruct (j_int j) as [|c0 ip] eqn:Ei; [discriminate|].
    pose proof Hi as Hi'. apply all_dec_cons in Hi'. destruct Hi' as [(d & Hd & _ & Hc0) Hip].
    destruct (N.eq_dec (b2n c0) 48) as [E48|N48].
    - destruct ip as [|c1 ip1]; [|cbn in Hz; rewrite E48 in Hz; discriminate].
      unfold nat_scan, scan_prefix. cbn [app]. rewrite E48. cbn [N.eqb Pos.eqb]. rewrite Er.
      replace (b2n c =? 98) with false by neqb. replace (b2n c =? 66) with false by neqb.
      replace (b2n c =? 111) with false by neqb. replace (b2n c =? 79) with false by neqb.
      replace (b2n c =? 120) with false by neqb. replace (b2n c =? 88) with false by neqb.
      cbn [orb negb]. rewrite <- Er. rewrite Hstop by lia.
      cbn [l_count l_rest l_inval l_prev N.eqb is_sep orb negb s_ok s_rest]. rewrite Er. reflexivity.
    - unfold nat_scan. cbn [app]. rewrite scan_prefix_nonzero by exact N48.
      change (c0 :: ip ++ rest) with ((c0 :: ip) ++ rest).
      rewrite (scan_loop_digits true 10 dec_val ltac:(lia) dec_compat (c0 :: ip) rest false PDot false 0 None 0 _
                 (all_dec_digits_val (c0 :: ip) 0 Hi)).
      rewrite Hstop by lia. cbn [l_count l_rest l_inval l_prev l_acc l_dp length].
      replace (0 + N.of_nat (S (length ip)) =? 0) with false by neqb.
      cbn [s_ok s_rest]. rewrite Er. cbn [is_nil]. apply andb_false_r. }
  rewrite Hrest. reflexivity.
Qed.

(* ---------- "Inf" ---------- *)
Lemma codes_eqb_head_ne c s x l : b2n c <> x -> codes_eqb (c :: s) (x :: l) = false.
Proof.
  intros H. unfold codes_eqb, codes. cbn [map combine forallb fst snd].
  replace (b2n c =? x) with false by neqb. cbn [andb]. apply andb_false_r.
Qed.

Lemma is_inf_text_json j : jwf j -> is_inf_text (jnum_text j) = false.
Proof.
  intros W. rewrite jnum_text_eq. pose proof (wf_int j W) as Hi.
  destruct (j_int j) as [|c ip] eqn:Ei; [pose proof (wf_nlz j W) as Hz; rewrite Ei in Hz; discriminate|].
  apply all_dec_cons in Hi. destruct Hi as [(d & _ & _ & Hc) _].
  unfold j_sign, is_inf_text. destruct (j_neg j); cbn [app t_minus].
  - rewrite !codes_eqb_head_ne by (rewrite b2n_ch; lia). cbn [orb].
    rewrite (b2n_ch 45) by lia. cbn [N.eqb Pos.eqb orb andb].
    rewrite !codes_eqb_head_ne by lia. cbn [orb]. apply andb_false_r.
  - rewrite !codes_eqb_head_ne by lia. cbn [orb].
    replace (b2n c =? 43) with false by neqb. replace (b2n c =? 45) with false by neqb. reflexivity.
Qed.

(* ---------- value bookkeeping ---------- *)
Definition j_m (j : jnum) : N := dec_fold (j_int j ++ j_fdigits j) 0.

Lemma j_mant_eq j : jwf j -> j_mant j = (if j_neg j then - Z.of_N (j_m j) else Z.of_N (j_m j))%Z.
Proof.
  intros W.
  change (j_mant j) with (let m := Z.of_N (nat_of_dec (j_int j ++ j_fdigits j)) in if j_neg j then (- m)%Z else m).
  cbv zeta. unfold j_m.
  rewrite nat_of_dec_fold by (rewrite all_dec_app, (wf_int j W), (wf_frac j W); reflexivity). reflexivity.
Qed.

Lemma j_e_eq j : jwf j -> j_e j = (j_expo j - Z.of_nat (length (j_fdigits j)))%Z.
Proof.
  intros W. unfold j_e, j_expo, j_fdigits. f_equal.
  destruct (j_exp j) as [[[up sg] d]|] eqn:Ee; [|reflexivity].
  destruct (wf_exp j W up sg d Ee) as (Hd & _ & _). rewrite nat_of_dec_fold by exact Hd. reflexivity.
  destruct (j_frac j); reflexivity.
Qed.

(* guard of the exponent theorems: decimal exponent (after the fraction digits) within math/big's
   10^6 limit for exact rationals, text shorter than 2^28 characters *)
Definition jguard (j : jnum) : Prop :=
  (Z.abs (j_e j) <= 1000000)%Z /\ (Z.of_nat (length (jnum_text j)) < 2 ^ 28)%Z.

Lemma jguard_lengths j : jwf j -> jguard j ->
  (Z.of_nat (length (j_int j)) + Z.of_nat (length (j_fdigits j)) < 2 ^ 28)%Z /\
  (minInt64 <= j_expo j <= maxInt64)%Z.
Proof.
  intros W [G1 G2]. rewrite jnum_text_eq in G2. rewrite !app_length in G2.
  assert (length (j_fdigits j) <= length (j_fracpart j))%nat.
  { unfold j_fdigits, j_fracpart. destruct (j_frac j); cbn [length]; lia. }
  rewrite (j_e_eq j W) in G1. unfold minInt64, maxInt64. split; lia.
Qed.

(* ---------- the ParseFloat gate accepts every JSON number within the guard ---------- *)
Lemma frac_count_d j : jwf j ->
  (if match j_frac j with None => Z.of_nat (length (j_int j)) | Some f => - Z.of_nat (length f) end <? 0
   then match j_frac j with None => Z.of_nat (length (j_int j)) | Some f => - Z.of_nat (length f) end
   else 0)%Z = (- Z.of_nat (length (j_fdigits j)))%Z.
Proof.
  intros W. unfold j_fdigits. destruct (j_frac j) as [f|] eqn:Ef.
  - pose proof (wf_frac_ne j W f Ef). destruct f; [congruence|]. cbn [length].
    replace (- Z.of_nat (S (length f)) <? 0)%Z with true by lia. reflexivity.
  - replace (Z.of_nat (length (j_int j)) <? 0)%Z with false by lia. reflexivity.
Qed.

Lemma parse_float_json j : jwf j -> jguard j -> parse_float10_ok (jnum_text j) = true.
Proof.
  intros W G. destruct (jguard_lengths j W G) as [GL GE]. destruct G as [G1 G2].
  unfold parse_float10_ok. rewrite (is_inf_text_json j W), (scan_sign_json j W), (scan_mantissa false j W).
  cbn [s_ok negb s_rest s_val s_count]. rewrite (scan_exponent_json true false j W GE).
  cbn [e_ok negb e_rest e_val is_nil]. fold (j_m j).
  destruct (j_m j =? 0) eqn:E0; [reflexivity|].
  rewrite (frac_count_d j W).
  pose proof (dec_fold_size (j_int j ++ j_fdigits j)) as Hs. fold (j_m j) in Hs.
  rewrite all_dec_app, (wf_int j W), (wf_frac j W) in Hs. specialize (Hs eq_refl).
  rewrite app_length in Hs. rewrite (j_e_eq j W) in G1.
  unfold MinExp, MaxExp.
  match goal with |- (if ?c then _ else _) = _ => replace c with true by lia end. reflexivity.
Qed.

(* ---------- Rat.SetString ---------- *)
Definition no_slash (s : bytes) : bool := forallb (fun c => negb (b2n c =? 47)) s.

Lemma split_slash_none s : no_slash s = true -> split_slash s = None.
Proof.
  induction s as [|c s IH]; [reflexivity|]. unfold no_slash. cbn [forallb]. intros H.
  apply andb_true_iff in H. destruct H as [H1 H2]. cbn [split_slash].
  destruct (b2n c =? 47); [discriminate|]. rewrite IH by exact H2. reflexivity.
Qed.

Lemma all_dec_no_slash s : all_dec s = true -> no_slash s = true.
Proof.
  unfold all_dec, no_slash. apply forallb_impl. intros c. unfold dec_val.
  destruct ((48 <=? b2n c) && (b2n c <=? 57)) eqn:E; [|discriminate]. intros _.
  replace (b2n c =? 47) with false by neqb. reflexivity.
Qed.

Lemma no_slash_json j : jwf j -> no_slash (jnum_text j) = true.
Proof.
  intros W. rewrite jnum_text_eq. unfold no_slash. rewrite !forallb_app.
  fold (no_slash (j_int j)). rewrite (all_dec_no_slash _ (wf_int j W)).
  assert (H1 : forallb (fun c => negb (b2n c =? 47)) (j_sign j) = true).
  { unfold j_sign. destruct (j_neg j); [|reflexivity]. vm_compute. reflexivity. }
  assert (H2 : forallb (fun c => negb (b2n c =? 47)) (j_fracpart j) = true).
  { unfold j_fracpart. pose proof (wf_frac j W) as Hf. unfold j_fdigits in Hf. destruct (j_frac j); [|reflexivity].
    cbn [forallb]. rewrite (b2n_ch 46) by lia. fold (no_slash b). rewrite (all_dec_no_slash _ Hf). reflexivity. }
  assert (H3 : forallb (fun c => negb (b2n c =? 47)) (j_exppart j) = true).
  { unfold j_exppart. destruct (j_exp j) as [[[up sg] d]|] eqn:Ee; [|reflexivity].
    destruct (wf_exp j W up sg d Ee) as (Hd & _ & Hsg).
    cbn [forallb]. rewrite forallb_app. fold (no_slash d). rewrite (all_dec_no_slash _ Hd).
    replace (b2n (ch (if up then 69 else 101)) =? 47) with false by (destruct up; vm_compute; reflexivity).
    unfold j_signchars. assert (sg = 0 \/ sg = 1 \/ sg = 2) as [->|[->| ->]] by lia; vm_compute; reflexivity. }
  rewrite H1, H2, H3. reflexivity.
Qed.

Lemma jnum_text_nonempty j : jwf j -> is_nil (jnum_text j) = false.
Proof.
  intros W. rewrite jnum_text_eq. pose proof (wf_nlz j W). destruct (j_int j); [discriminate|].
  destruct (j_sign j); reflexivity.
Qed.

Lemma rat_json j : jwf j -> jguard j ->
  rat_set_string (jnum_text j) =
  if j_m j =? 0 then Some (0%Z, 1) else
  let E := j_e j in
  let a := j_m j * (if (0 <? E)%Z then 5 ^ Z.to_N E else 1) * (if (0 <? E)%Z then 2 ^ Z.to_N E else 1) in
  let b := (if (E <? 0)%Z then 5 ^ Z.to_N (- E) else 1) * (if (E <? 0)%Z then 2 ^ Z.to_N (- E) else 1) in
  Some ((if j_neg j then - Z.of_N a else Z.of_N a)%Z, b).
Proof.
  intros W G. destruct (jguard_lengths j W G) as [GL GE]. destruct G as [G1 G2].
  unfold rat_set_string. rewrite (jnum_text_nonempty j W), (split_slash_none _ (no_slash_json j W)).
  rewrite (scan_sign_json j W), (scan_mantissa true j W).
  cbn [s_ok negb s_rest s_val s_count s_base]. rewrite (scan_exponent_json true true j W GE).
  cbn [e_ok negb e_rest e_val e_base is_nil]. fold (j_m j).
  destruct (j_m j =? 0) eqn:E0; [reflexivity|].
  rewrite (frac_count_d j W). cbn [N.eqb Pos.eqb].
  replace (- Z.of_nat (length (j_fdigits j)) + j_expo j)%Z with (j_e j) by (rewrite (j_e_eq j W); lia).
  replace (Z.abs (j_e j) >? 1000000)%Z with false by lia.
  replace ((j_e j <? -10000000) || (j_e j >? 10000000))%Z with false by lia.
  reflexivity.
Qed.

(* ---------- BigIntegerFromString on a JSON number: the exact integer, or an error ---------- *)
Lemma pow10_split (n : N) : 5 ^ n * 2 ^ n = 10 ^ n.
Proof. rewrite <- N.pow_mul_l. reflexivity. Qed.

Theorem big_json j :
  jnum_wf j = true -> jguard j ->
  BigIntegerFromString (jnum_text j) =
  match sci_int (j_mant j) (j_e j) with Some q => Ok q | None => Err EPrecision end.
Proof.
  intros Hwf G. pose proof (jnum_wf_jwf j Hwf) as W.
  destruct (j_fracpart j ++ j_exppart j) as [|c0 t0] eqn:Erest.
  - (* a plain integer: Int.SetString takes it *)
    assert (Hf : j_frac j = None) by (unfold j_fracpart in Erest; destruct (j_frac j); [discriminate|reflexivity]).
    assert (He : j_exp j = None).
    { unfold j_fracpart, j_exppart in Erest. rewrite Hf in Erest. destruct (j_exp j) as [[[? ?] ?]|]; [discriminate|reflexivity]. }
    assert (Hv : dec_value (j_int j) = Some (dec_fold (j_int j) 0)).
    { unfold dec_value. pose proof (wf_nlz j W). destruct (j_int j) eqn:Ei; [discriminate|]. rewrite <- Ei.
      apply all_dec_digits_val. rewrite Ei. rewrite <- Ei. exact (wf_int j W). }
    assert (Hje : j_e j = 0%Z) by (unfold j_e; rewrite Hf, He; reflexivity).
    assert (Hm : j_m j = dec_fold (j_int j) 0) by (unfold j_m, j_fdigits; rewrite Hf, app_nil_r; reflexivity).
    rewrite Hje, (j_mant_eq j W), Hm. unfold BigIntegerFromString.
    rewrite jnum_text_eq, Erest, app_nil_r. unfold j_sign. destruct (j_neg j).
    + rewrite (set_string_neg_dec _ _ (wf_nlz j W) Hv). unfold sci_int. cbn [Z.leb Z.compare]. f_equal. cbn. lia.
    + cbn [app]. rewrite (set_string_dec _ _ (wf_nlz j W) Hv). unfold sci_int. cbn [Z.leb Z.compare]. f_equal. cbn. lia.
  - unfold BigIntegerFromString.
    rewrite (set_string_json_none j W) by (rewrite Erest; discriminate).
    rewrite (parse_float_json j W G). cbn [negb]. rewrite (rat_json j W G).
    rewrite (j_mant_eq j W).
    destruct (j_m j =? 0) eqn:E0.
    + apply N.eqb_eq in E0. rewrite E0. replace (if j_neg j then (- Z.of_N 0)%Z else Z.of_N 0) with 0%Z by (destruct (j_neg j); reflexivity).
      cbn [Z.modulo Z.div_eucl Z.eqb Z.div]. unfold sci_int.
      destruct (0 <=? j_e j)%Z eqn:Ep; [f_equal; lia|].
      rewrite Z.mod_0_l by (apply Z.pow_nonzero; lia). cbn [Z.eqb]. rewrite Z.div_0_l by (apply Z.pow_nonzero; lia). reflexivity.
    + cbv zeta. set (E := j_e j). set (m := j_m j). unfold sci_int. fold E.
      destruct (0 <=? E)%Z eqn:Epos.
      * replace (E <? 0)%Z with false by lia. rewrite N.mul_1_l.
        assert (Ha : (Z.of_N (m * (if (0 <? E)%Z then 5 ^ Z.to_N E else 1) * (if (0 <? E)%Z then 2 ^ Z.to_N E else 1)) = Z.of_N m * 10 ^ E)%Z).
        { destruct (0 <? E)%Z eqn:E1.
          - rewrite <- N.mul_assoc, pow10_split, N2Z.inj_mul, N2Z.inj_pow, Z2N.id by lia. reflexivity.
          - assert (E = 0%Z) by lia. rewrite H. cbn. lia. }
        change (Z.of_N 1) with 1%Z. rewrite Z.mod_1_r. cbn [Z.eqb]. rewrite Z.div_1_r.
        destruct (j_neg j); rewrite Ha; f_equal; lia.
      * replace (0 <? E)%Z with false by lia. replace (E <? 0)%Z with true by lia.
        rewrite !N.mul_1_r, pow10_split, N2Z.inj_pow, Z2N.id by lia.
        change (Z.of_N 10) with 10%Z.
        destruct (j_neg j).
        -- destruct (- Z.of_N m mod 10 ^ (- E) =? 0)%Z; reflexivity.
        -- destruct (Z.of_N m mod 10 ^ (- E) =? 0)%Z; reflexivity.
Qed.

(* ---------- the specification's "denotes the integer q" ---------- *)
Lemma sci_int_spec m e q : sci_int m e = Some q <-> sci_is m e q.
Proof.
  unfold sci_int, sci_is. destruct (0 <=? e)%Z eqn:E.
  - rewrite Z.max_l by lia. rewrite Z.max_r by lia. rewrite Z.pow_0_r, Z.mul_1_r.
    split; [intros [= <-]; reflexivity|intros ->; reflexivity].
  - rewrite Z.max_r by lia. rewrite Z.max_l by lia. rewrite Z.pow_0_r, Z.mul_1_r.
    assert (Hp : (0 < 10 ^ (- e))%Z) by (apply Z.pow_pos_nonneg; lia).
    destruct (m mod 10 ^ (- e) =? 0)%Z eqn:Em.
    + apply Z.eqb_eq in Em. split.
      * intros [= <-]. rewrite Z.mul_comm. apply Z.div_exact; lia.
      * intros ->. f_equal. apply Z.div_mul. lia.
    + apply Z.eqb_neq in Em. split; [discriminate|].
      intros ->. exfalso. apply Em. apply Z.mod_mul. lia.
Qed.

Lemma sci_int_none m e : sci_int m e = None <-> forall q, ~ sci_is m e q.
Proof.
  split.
  - intros H q Hq. apply sci_int_spec in Hq. congruence.
  - intros H. destruct (sci_int m e) as [q|] eqn:E; [|reflexivity]. exfalso. apply (H q). apply sci_int_spec. exact E.
Qed.

(* ---------- all spelling classes of the quantifier ---------- *)
Definition guard (t : bytes) (e : Z) : Prop := (Z.abs e <= 1000000)%Z /\ (Z.of_nat (length t) < 2 ^ 28)%Z.

Theorem big_exact t m e :
  denotes t m e -> guard t e ->
  BigIntegerFromString t = match sci_int m e with Some q => Ok q | None => Err EPrecision end.
Proof.
  intros D G. destruct D as [s n Hz Hv|s n Hz Hv|s n Hv|j Hwf].
  - unfold BigIntegerFromString. rewrite (set_string_dec s n Hz Hv). unfold sci_int. cbn [Z.leb Z.compare Z.pow Z.pow_pos Pos.iter].
    rewrite Z.mul_1_r. reflexivity.
  - unfold BigIntegerFromString. rewrite (set_string_neg_dec s n Hz Hv). unfold sci_int. cbn [Z.leb Z.compare Z.pow].
    rewrite Z.mul_1_r. reflexivity.
  - rewrite (big_from_hex s n Hv). unfold sci_int. cbn [Z.leb Z.compare Z.pow]. rewrite Z.mul_1_r. reflexivity.
  - apply big_json; assumption.
Qed.

(* every character of such a text is plain ASCII, so the text can travel inside a JSON string *)
Lemma digits_val_chars b dv s : forall acc v, digits_val b dv s acc = Some v -> forallb (fun c => match dv c with Some _ => true | None => false end) s = true.
Proof.
  induction s as [|c s IH]; intros acc v H; [reflexivity|].
  cbn [digits_val] in H. cbn [forallb]. destruct (dv c); [|discriminate]. cbn [andb]. eapply IH. exact H.
Qed.

Lemma dec_val_plain c d : dec_val c = Some d -> plain_char c = true.
Proof. intros H. destruct (dec_val_digit c d H) as (_ & _ & Hc). unfold plain_char. lia. Qed.

Lemma all_dec_plain s : all_dec s = true -> forallb plain_char s = true.
Proof.
  unfold all_dec. apply forallb_impl. intros c. destruct (dec_val c) eqn:E; [|discriminate]. intros _. eapply dec_val_plain. exact E.
Qed.

Lemma dec_value_plain s n : dec_value s = Some n -> forallb plain_char s = true.
Proof.
  unfold dec_value. destruct s; [discriminate|]. intros H. apply digits_val_chars in H.
  revert H. apply forallb_impl. intros c. destruct (dec_val c) eqn:E; [|discriminate]. intros _. eapply dec_val_plain. exact E.
Qed.

Lemma hex_value_plain s n : hex_value s = Some n -> forallb plain_char s = true.
Proof.
  unfold hex_value. destruct s; [discriminate|]. intros H. apply digits_val_chars in H.
  revert H. apply forallb_impl. intros c. destruct (hex_val c) eqn:E; [|discriminate]. intros _. eapply hex_val_plain. exact E.
Qed.

Lemma json_plain j : jwf j -> forallb plain_char (jnum_text j) = true.
Proof.
  intros W. rewrite jnum_text_eq. rewrite !forallb_app. rewrite (all_dec_plain _ (wf_int j W)).
  assert (H1 : forallb plain_char (j_sign j) = true) by (unfold j_sign; destruct (j_neg j); vm_compute; reflexivity).
  assert (H2 : forallb plain_char (j_fracpart j) = true).
  { unfold j_fracpart. pose proof (wf_frac j W) as Hf. unfold j_fdigits in Hf. destruct (j_frac j); [|reflexivity].
    cbn [forallb]. rewrite (all_dec_plain _ Hf). vm_compute. reflexivity. }
  assert (H3 : forallb plain_char (j_exppart j) = true).
  { unfold j_exppart. destruct (j_exp j) as [[[up sg] d]|] eqn:Ee; [|reflexivity].
    destruct (wf_exp j W up sg d Ee) as (Hd & _ & Hsg).
    cbn [forallb]. rewrite forallb_app, (all_dec_plain _ Hd).
    replace (plain_char (ch (if up then 69 else 101))) with true by (destruct up; vm_compute; reflexivity).
    unfold j_signchars. assert (sg = 0 \/ sg = 1 \/ sg = 2) as [->|[->| ->]] by lia; vm_compute; reflexivity. }
  rewrite H1, H2, H3. reflexivity.
Qed.

Lemma denotes_plain t m e : denotes t m e -> forallb plain_char t = true.
Proof.
  intros [s n Hz Hv|s n Hz Hv|s n Hv|j Hwf].
  - eapply dec_value_plain; exact Hv.
  - rewrite forallb_app, (dec_value_plain s n Hv). vm_compute. reflexivity.
  - rewrite forallb_app, (hex_value_plain s n Hv). vm_compute. reflexivity.
  - apply json_plain. apply jnum_wf_jwf. exact Hwf.
Qed.

(* a text of the JSON number grammar is not a JSON string *)
Lemma is_json_number_not_string t : is_json_number t = true -> plain_string t = None.
Proof.
  destruct t as [|c t]; [reflexivity|]. unfold plain_string. destruct (b2n c =? 34) eqn:E; [|reflexivity].
  intros H. exfalso. apply N.eqb_eq in E. unfold is_json_number, strip_minus in H. rewrite E in H. cbn [N.eqb Pos.eqb] in H.
  cbn [take_digits] in H. unfold dec_val in H. rewrite E in H. cbn in H. discriminate.
Qed.

(* ---------- HexInteger and HexUint64 over the JSON layer ---------- *)
Definition parse_int (ty64 : bool) (lex : bytes -> jtok) (b : bytes) : res Z :=
  if ty64 then (do n <- HexUint64_UnmarshalJSON lex b ; Ok (Z.of_N n)) else HexInteger_UnmarshalJSON lex b.

(* the JSON document is the text as a JSON string, or the text itself when it is a JSON number *)
Definition json_of (t b : bytes) : Prop := b = quote t \/ (b = t /\ is_json_number t = true).

Lemma unmarshal_big lex t m e b :
  lex_law lex -> denotes t m e -> json_of t b -> UnmarshalBigInt lex b = BigIntegerFromString t.
Proof.
  intros L D [->|[-> Hn]]; unfold UnmarshalBigInt.
  - rewrite (lex_quote lex t L (denotes_plain t m e D)). reflexivity.
  - rewrite (L t (TNum t)); [reflexivity|]. unfold simple_lex. rewrite (is_json_number_not_string t Hn), Hn. reflexivity.
Qed.

Theorem parse_exact lex (ty64 : bool) t m e b :
  lex_law lex -> denotes t m e -> guard t e -> json_of t b ->
  (forall q, sci_is m e q -> in_range ty64 q = true -> parse_int ty64 lex b = Ok q) /\
  ((forall q, sci_is m e q -> in_range ty64 q = false) -> exists err, parse_int ty64 lex b = Err err).
Proof.
  intros L D G J.
  assert (HU : UnmarshalBigInt lex b = match sci_int m e with Some q => Ok q | None => Err EPrecision end).
  { rewrite (unmarshal_big lex t m e b L D J). apply big_exact; assumption. }
  unfold parse_int, HexInteger_UnmarshalJSON, HexUint64_UnmarshalJSON. rewrite HU.
  destruct (sci_int m e) as [q0|] eqn:E.
  - assert (Hq0 : sci_is m e q0) by (apply sci_int_spec; exact E).
    split.
    + intros q Hq Hr. apply sci_int_spec in Hq. assert (q = q0) by congruence. subst q0.
      cbn [bind]. unfold in_range in Hr. destruct ty64.
      * rewrite Hr. cbn [bind]. f_equal. lia.
      * replace (q <? 0)%Z with false by lia. reflexivity.
    + intros Hall. specialize (Hall q0 Hq0). cbn [bind]. unfold in_range in Hall. destruct ty64.
      * rewrite Hall. cbn [bind]. eauto.
      * replace (q0 <? 0)%Z with true by lia. eauto.
  - split.
    + intros q Hq _. apply sci_int_spec in Hq. congruence.
    + intros _. cbn [bind]. destruct ty64; cbn [bind]; eauto.
Qed.

(* never a panic, whatever the bytes and whatever the lexer says *)
Theorem parse_total (ty64 : bool) lex b : parse_int ty64 lex b <> Panic.
Proof.
  assert (HB : forall s, BigIntegerFromString s <> Panic).
  { intros s. unfold BigIntegerFromString. destruct (int_set_string0 s); [discriminate|].
    destruct (negb (parse_float10_ok s)); [discriminate|].
    destruct (rat_set_string s) as [[a d]|]; [|discriminate].
    destruct (a mod Z.of_N d =? 0)%Z; discriminate. }
  assert (HU : UnmarshalBigInt lex b <> Panic) by (unfold UnmarshalBigInt; destruct (lex b); try discriminate; apply HB).
  unfold parse_int, HexInteger_UnmarshalJSON, HexUint64_UnmarshalJSON.
  destruct (UnmarshalBigInt lex b) as [z| |]; [|destruct ty64; discriminate|congruence].
  cbn [bind]. destruct ty64.
  - destruct ((0 <=? z) && (z <? 2 ^ 64))%Z; discriminate.
  - destruct (z <? 0)%Z; discriminate.
Qed.

(* ---------- the recogniser of the JSON number grammar accepts every well-formed number ---------- *)
Lemma take_digits_app ds rest :
  all_dec ds = true -> (match rest with [] => True | c :: _ => dec_val c = None end) ->
  take_digits (ds ++ rest) = (ds, rest).
Proof.
  intros Hd Hr. induction ds as [|c ds IH].
  - cbn [app]. destruct rest as [|c t]; [reflexivity|]. cbn [take_digits]. rewrite Hr. reflexivity.
  - apply all_dec_cons in Hd. destruct Hd as [(d & Hd & _) Hs]. cbn [app take_digits]. rewrite Hd, (IH Hs). reflexivity.
Qed.

Lemma dec_val_none_of c : b2n c < 48 \/ 57 < b2n c -> dec_val c = None.
Proof. intros H. unfold dec_val. replace ((48 <=? b2n c) && (b2n c <=? 57)) with false by lia. reflexivity. Qed.

Lemma exppart_head_nondigit j : match j_exppart j with [] => True | c :: _ => dec_val c = None end.
Proof.
  destruct (j_exppart_start j) as [->|(c & t & -> & Hc)]; [exact I|]. apply dec_val_none_of. lia.
Qed.

Lemma strip_minus_json j : jwf j -> strip_minus (jnum_text j) = j_int j ++ j_fracpart j ++ j_exppart j.
Proof.
  intros W. rewrite jnum_text_eq. unfold j_sign. destruct (j_neg j).
  - unfold t_minus, strip_minus. cbn [app]. rewrite (b2n_ch 45) by lia. reflexivity.
  - cbn [app]. pose proof (wf_int j W) as Hi. pose proof (wf_nlz j W) as Hz.
    destruct (j_int j) as [|c ip]; [discriminate|]. apply all_dec_cons in Hi. destruct Hi as [(d & _ & _ & Hc) _].
    unfold strip_minus. cbn [app]. replace (b2n c =? 45) with false by neqb. reflexivity.
Qed.

Lemma strip_sign_exp sg d : all_dec d = true -> d <> [] -> sg <= 2 -> strip_sign (j_signchars sg ++ d) = d.
Proof.
  intros Hd Hne Hsg. unfold j_signchars, strip_sign.
  assert (sg = 0 \/ sg = 1 \/ sg = 2) as [->|[->| ->]] by lia; cbn [N.eqb Pos.eqb app].
  - destruct d as [|y u]; [congruence|]. apply all_dec_cons in Hd. destruct Hd as [(? & _ & _ & Hy) _].
    replace (b2n y =? 43) with false by neqb. replace (b2n y =? 45) with false by neqb. reflexivity.
  - rewrite (b2n_ch 43) by lia. reflexivity.
  - rewrite (b2n_ch 45) by lia. reflexivity.
Qed.

Lemma exp_tail_ok j :
  jwf j ->
  match j_exppart j with
  | [] => true
  | c :: t =>
      if (b2n c =? 101) || (b2n c =? 69) then
        let '(d, r) := take_digits (strip_sign t) in
        match d, r with _ :: _, [] => true | _, _ => false end
      else false
  end = true.
Proof.
  intros W. unfold j_exppart. destruct (j_exp j) as [[[up sg] d]|] eqn:Ee; [|reflexivity].
  destruct (wf_exp j W up sg d Ee) as (Hd & Hne & Hsg).
  replace ((b2n (ch (if up then 69 else 101)) =? 101) || (b2n (ch (if up then 69 else 101)) =? 69)) with true
    by (destruct up; vm_compute; reflexivity).
  rewrite (strip_sign_exp sg d Hd Hne Hsg).
  rewrite <- (app_nil_r d), (take_digits_app d [] Hd I). destruct d; [congruence|reflexivity].
Qed.

Theorem json_text_is_number j : jnum_wf j = true -> is_json_number (jnum_text j) = true.
Proof.
  intros Hwf. pose proof (jnum_wf_jwf j Hwf) as W. unfold is_json_number. cbv zeta.
  rewrite (strip_minus_json j W).
  assert (Hhead : match j_fracpart j ++ j_exppart j with [] => True | c :: _ => dec_val c = None end).
  { destruct (j_fracpart j ++ j_exppart j) as [|c t] eqn:E; [exact I|].
    apply dec_val_none_of. destruct (fracpart_exppart_head j c t E) as [->|[->| ->]]; lia. }
  rewrite (take_digits_app _ _ (wf_int j W) Hhead). rewrite (wf_nlz j W). cbn [negb].
  pose proof (exp_tail_ok j W) as Ht.
  unfold j_fracpart. destruct (j_frac j) as [f|] eqn:Ef.
  - cbn [app]. rewrite (b2n_ch 46) by lia. cbn [N.eqb Pos.eqb].
    pose proof (wf_frac j W) as Hf. unfold j_fdigits in Hf. rewrite Ef in Hf.
    rewrite (take_digits_app f _ Hf (exppart_head_nondigit j)).
    pose proof (wf_frac_ne j W f Ef). destruct f as [|f0 f']; [congruence|]. exact Ht.
  - cbn [app]. destruct (j_exppart j) as [|c t] eqn:Ex; [reflexivity|].
    destruct (j_exppart_start j) as [E0|(c' & t' & E' & Hc)]; rewrite Ex in *; [discriminate|]. injection E' as <- <-.
    replace (b2n c =? 46) with false by neqb. exact Ht.
Qed.

(* ================================================================================================
   Soundness without any guard: whatever the size of the exponent or of the text, a text of the
   quantified classes is never accepted with a value other than the integer it denotes.
   ================================================================================================ *)
Definition in64 (z : Z) : bool := ((minInt64 <=? z) && (z <=? maxInt64))%Z.

Lemma scan_exponent_json_gen base2ok sepOk j :
  jwf j ->
  scan_exponent base2ok sepOk (j_exppart j) =
  if in64 (j_expo j) then mkExp (j_expo j) 10 [] true else mkExp 0 10 [] false.
Proof.
  intros W. destruct (in64 (j_expo j)) eqn:R.
  - apply scan_exponent_json; [exact W|]. unfold in64 in R. lia.
  - unfold j_exppart, j_expo in *. destruct (j_exp j) as [[[up sg] d]|] eqn:Ee; [|discriminate].
    destruct (wf_exp j W up sg d Ee) as (Hd & Hne & Hsg).
    cbn [scan_exponent].
    assert (Hc : b2n (ch (if up then 69 else 101)) = (if up then 69 else 101)) by (destruct up; apply b2n_ch; lia).
    rewrite Hc.
    replace (((if up then 69 else 101) =? 101) || ((if up then 69 else 101) =? 69)) with true by (destruct up; reflexivity).
    assert (Hsplit : (match j_signchars sg ++ d with
                      | y :: u => if b2n y =? 43 then (false, u) else if b2n y =? 45 then (true, u) else (false, j_signchars sg ++ d)
                      | [] => (false, [])
                      end) = ((sg =? 2), d)).
    { unfold j_signchars. assert (sg = 0 \/ sg = 1 \/ sg = 2) as [->|[->| ->]] by lia; cbn [N.eqb Pos.eqb app].
      - destruct d as [|y u]; [congruence|]. apply all_dec_cons in Hd. destruct Hd as [(? & _ & _ & Hy) _].
        replace (b2n y =? 43) with false by neqb. replace (b2n y =? 45) with false by neqb. reflexivity.
      - rewrite (b2n_ch 43) by lia. reflexivity.
      - rewrite (b2n_ch 45) by lia. reflexivity. }
    rewrite Hsplit. rewrite exp_loop_digits by exact Hd.
    cbn [el_has el_acc el_rest el_inval el_prev orb].
    replace (negb (is_nil d)) with true by (destruct d; [congruence|reflexivity]).
    cbn [negb]. unfold in64 in R.
    destruct (sg =? 2) eqn:E2; rewrite R; reflexivity.
Qed.

Lemma rat_json_gen j : jwf j ->
  rat_set_string (jnum_text j) =
  if negb (in64 (j_expo j)) then None else
  if j_m j =? 0 then Some (0%Z, 1) else
  if (Z.abs (j_e j) >? 1000000)%Z then None else
  let E := j_e j in
  let a := j_m j * (if (0 <? E)%Z then 5 ^ Z.to_N E else 1) * (if (0 <? E)%Z then 2 ^ Z.to_N E else 1) in
  let b := (if (E <? 0)%Z then 5 ^ Z.to_N (- E) else 1) * (if (E <? 0)%Z then 2 ^ Z.to_N (- E) else 1) in
  Some ((if j_neg j then - Z.of_N a else Z.of_N a)%Z, b).
Proof.
  intros W.
  unfold rat_set_string. rewrite (jnum_text_nonempty j W), (split_slash_none _ (no_slash_json j W)).
  rewrite (scan_sign_json j W), (scan_mantissa true j W).
  cbn [s_ok negb s_rest s_val s_count s_base]. rewrite (scan_exponent_json_gen true true j W).
  destruct (in64 (j_expo j)); cbn [e_ok negb e_rest e_val e_base is_nil]; [|reflexivity].
  fold (j_m j). destruct (j_m j =? 0) eqn:E0; [reflexivity|].
  rewrite (frac_count_d j W). cbn [N.eqb Pos.eqb].
  replace (- Z.of_nat (length (j_fdigits j)) + j_expo j)%Z with (j_e j) by (rewrite (j_e_eq j W); lia).
  destruct (Z.abs (j_e j) >? 1000000)%Z eqn:Eb; [reflexivity|].
  replace ((j_e j <? -10000000) || (j_e j >? 10000000))%Z with false by lia.
  reflexivity.
Qed.

Lemma sci_int_zero e : sci_int 0 e = Some 0%Z.
Proof.
  unfold sci_int. destruct (0 <=? e)%Z eqn:E; [f_equal; lia|].
  rewrite Z.mod_0_l by (apply Z.pow_nonzero; lia). cbn [Z.eqb]. rewrite Z.div_0_l by (apply Z.pow_nonzero; lia). reflexivity.
Qed.

Lemma rat_result_sci (neg : bool) (m : N) (E : Z) :
  let a := m * (if (0 <? E)%Z then 5 ^ Z.to_N E else 1) * (if (0 <? E)%Z then 2 ^ Z.to_N E else 1) in
  let b := (if (E <? 0)%Z then 5 ^ Z.to_N (- E) else 1) * (if (E <? 0)%Z then 2 ^ Z.to_N (- E) else 1) in
  let z := (if neg then - Z.of_N a else Z.of_N a)%Z in
  (if (z mod Z.of_N b =? 0)%Z then Ok (z / Z.of_N b)%Z else Err EPrecision) =
  match sci_int (if neg then - Z.of_N m else Z.of_N m)%Z E with Some q => Ok q | None => Err EPrecision end.
Proof.
  cbv zeta. unfold sci_int. destruct (0 <=? E)%Z eqn:Epos.
  - replace (E <? 0)%Z with false by lia. rewrite N.mul_1_l.
    assert (Ha : (Z.of_N (m * (if (0 <? E)%Z then 5 ^ Z.to_N E else 1) * (if (0 <? E)%Z then 2 ^ Z.to_N E else 1)) = Z.of_N m * 10 ^ E)%Z).
    { destruct (0 <? E)%Z eqn:E1.
      - rewrite <- N.mul_assoc, pow10_split, N2Z.inj_mul, N2Z.inj_pow, Z2N.id by lia. reflexivity.
      - assert (E = 0%Z) by lia. rewrite H. cbn. lia. }
    change (Z.of_N 1) with 1%Z. rewrite Z.mod_1_r. cbn [Z.eqb]. rewrite Z.div_1_r.
    destruct neg; rewrite Ha; f_equal; lia.
  - replace (0 <? E)%Z with false by lia. replace (E <? 0)%Z with true by lia.
    rewrite !N.mul_1_r, pow10_split, N2Z.inj_pow, Z2N.id by lia.
    change (Z.of_N 10) with 10%Z.
    destruct neg.
    + destruct (- Z.of_N m mod 10 ^ (- E) =? 0)%Z; reflexivity.
    + destruct (Z.of_N m mod 10 ^ (- E) =? 0)%Z; reflexivity.
Qed.

Theorem big_json_sound j q :
  jnum_wf j = true -> BigIntegerFromString (jnum_text j) = Ok q -> sci_int (j_mant j) (j_e j) = Some q.
Proof.
  intros Hwf. pose proof (jnum_wf_jwf j Hwf) as W.
  destruct (j_fracpart j ++ j_exppart j) as [|c0 t0] eqn:Erest.
  - (* plain integer: no guard is involved *)
    assert (Hf : j_frac j = None) by (unfold j_fracpart in Erest; destruct (j_frac j); [discriminate|reflexivity]).
    assert (He : j_exp j = None).
    { unfold j_fracpart, j_exppart in Erest. rewrite Hf in Erest. destruct (j_exp j) as [[[? ?] ?]|]; [discriminate|reflexivity]. }
    assert (Hv : dec_value (j_int j) = Some (dec_fold (j_int j) 0)).
    { unfold dec_value. pose proof (wf_nlz j W). destruct (j_int j) eqn:Ei; [discriminate|]. rewrite <- Ei.
      apply all_dec_digits_val. exact (wf_int j W). }
    assert (Hje : j_e j = 0%Z) by (unfold j_e; rewrite Hf, He; reflexivity).
    assert (Hm : j_m j = dec_fold (j_int j) 0) by (unfold j_m, j_fdigits; rewrite Hf, app_nil_r; reflexivity).
    rewrite Hje, (j_mant_eq j W), Hm. unfold BigIntegerFromString.
    rewrite jnum_text_eq, Erest, app_nil_r. unfold j_sign. destruct (j_neg j).
    + rewrite (set_string_neg_dec _ _ (wf_nlz j W) Hv). intros [= <-]. unfold sci_int. cbn [Z.leb Z.compare]. f_equal. cbn. lia.
    + cbn [app]. rewrite (set_string_dec _ _ (wf_nlz j W) Hv). intros [= <-]. unfold sci_int. cbn [Z.leb Z.compare]. f_equal. cbn. lia.
  - unfold BigIntegerFromString.
    rewrite (set_string_json_none j W) by (rewrite Erest; discriminate).
    destruct (parse_float10_ok (jnum_text j)); cbn [negb]; [|discriminate].
    rewrite (rat_json_gen j W). rewrite (j_mant_eq j W).
    destruct (in64 (j_expo j)); cbn [negb]; [|discriminate].
    destruct (j_m j =? 0) eqn:E0.
    + apply N.eqb_eq in E0. rewrite E0.
      replace (if j_neg j then (- Z.of_N 0)%Z else Z.of_N 0) with 0%Z by (destruct (j_neg j); reflexivity).
      cbn [Z.modulo Z.div_eucl Z.eqb Z.div]. intros [= <-]. apply sci_int_zero.
    + destruct (Z.abs (j_e j) >? 1000000)%Z; [discriminate|].
      cbv zeta. rewrite (rat_result_sci (j_neg j) (j_m j) (j_e j)).
      destruct (sci_int (if j_neg j then (- Z.of_N (j_m j))%Z else Z.of_N (j_m j)) (j_e j)); [intros [= <-]; reflexivity|discriminate].
Qed.

Theorem big_sound t m e q : denotes t m e -> BigIntegerFromString t = Ok q -> sci_is m e q.
Proof.
  intros D H. apply sci_int_spec. destruct D as [s n Hz Hv|s n Hz Hv|s n Hv|j Hwf].
  - unfold BigIntegerFromString in H. rewrite (set_string_dec s n Hz Hv) in H. injection H as <-.
    unfold sci_int. cbn [Z.leb Z.compare Z.pow]. rewrite Z.mul_1_r. reflexivity.
  - unfold BigIntegerFromString in H. rewrite (set_string_neg_dec s n Hz Hv) in H. injection H as <-.
    unfold sci_int. cbn [Z.leb Z.compare Z.pow]. rewrite Z.mul_1_r. reflexivity.
  - rewrite (big_from_hex s n Hv) in H. injection H as <-.
    unfold sci_int. cbn [Z.leb Z.compare Z.pow]. rewrite Z.mul_1_r. reflexivity.
  - apply big_json_sound; assumption.
Qed.

(* accepted => the value is the denoted integer and it is in range; no guard on exponent or length *)
Theorem parse_sound lex (ty64 : bool) t m e b q :
  lex_law lex -> denotes t m e -> json_of t b ->
  parse_int ty64 lex b = Ok q -> sci_is m e q /\ in_range ty64 q = true.
Proof.
  intros L D J H. unfold parse_int, HexInteger_UnmarshalJSON, HexUint64_UnmarshalJSON in H.
  rewrite (unmarshal_big lex t m e b L D J) in H.
  destruct (BigIntegerFromString t) as [z| |] eqn:E; cbn [bind] in H; try (destruct ty64; discriminate).
  pose proof (big_sound t m e z D E) as S. unfold in_range. destruct ty64.
  - destruct ((0 <=? z) && (z <? 2 ^ 64))%Z eqn:R; cbn [bind] in H; [|discriminate].
    injection H as <-. rewrite Z2N.id by lia. split; assumption.
  - destruct (z <? 0)%Z eqn:R; [discriminate|]. injection H as <-. split; [exact S|lia].
Qed.
