(* Answers to the referee report on the C19 statements (design/reviews/C19.md):
   I3  signed / 0X hex texts: exact verdict, negative hex is an error for the JSON integer types;
   I4  the JSON layer of addresses and byte strings: unfolding, inversion for every lexer and document,
       explicit rejection of wrong length / odd length / non-hex texts;
   I5  MarshalJSON of the five address / byte-string types (EthTypes/ModelMarshal.v): forms, round trips;
   I2  EIP-55 with the executable Keccak-256 of Base/Keccak.v;
   I1  the model can panic (checksum_loop with a short hash), so [= Ok] in C19_eip55 is not by construction;
   I6  a negative HexInteger prints "0x-.." and that text does not parse back. *)
From Coq Require Import List NArith ZArith Lia Bool Arith.
From Coq Require Import ZifyN ZifyNat ZifyBool.
From Coq Require Import Init.Byte.
From FFS Require Import Base.Res Base.Bytes Base.Keccak EthTypes.Model EthTypes.ModelMarshal EthTypes.Spec
  EthTypes.Proofs EthTypes.ProofsInt EthTypes.ProofsNum.
Import ListNotations.
Local Open Scope N_scope.

Ltac neqb := symmetry; apply N.eqb_neq; lia.

(* ================= I3: signed hex texts, either prefix case ================= *)
(* [-] 0 (x|X) hexdigits : the text Int.SetString(s, 0) documents for base 16 *)
Definition hex_text (neg up : bool) (s : bytes) : bytes :=
  (if neg then t_minus else []) ++ [ch 48; ch (if up then 88 else 120)] ++ s.
Definition hex_text_value (neg : bool) (n : N) : Z := if neg then (- Z.of_N n)%Z else Z.of_N n.

Lemma hex_text_plain_is_den_hex s : hex_text false false s = t_0x ++ s.
Proof. reflexivity. Qed.

Lemma nat_scan_hex_prefixed (x : byte) s n :
  b2n x = 120 \/ b2n x = 88 -> hex_value s = Some n ->
  let r := nat_scan true false (ch 48 :: x :: s) in s_ok r = true /\ s_rest r = [] /\ s_val r = n.
Proof.
  intros Hx. unfold hex_value. destruct s as [|c0 s0] eqn:Es; [discriminate|]. rewrite <- Es. intros Hv.
  cbv zeta. unfold nat_scan, scan_prefix. rewrite (b2n_ch 48) by lia. cbn [N.eqb Pos.eqb].
  replace ((b2n x =? 98) || (b2n x =? 66)) with false by (destruct Hx as [-> | ->]; reflexivity).
  replace ((b2n x =? 111) || (b2n x =? 79)) with false by (destruct Hx as [-> | ->]; reflexivity).
  replace ((b2n x =? 120) || (b2n x =? 88)) with true by (destruct Hx as [-> | ->]; reflexivity).
  rewrite <- (app_nil_r s).
  rewrite (scan_loop_digits true 16 hex_val ltac:(lia) hex_val_digit s [] false PDig false 0 None 0 n Hv).
  cbn [scan_loop l_count l_inval l_prev l_rest l_acc l_dp].
  replace (0 + N.of_nat (length s) =? 0) with false by (rewrite Es; cbn [length]; neqb).
  cbn [is_nil is_sep orb negb s_ok s_rest s_val andb]. repeat split. destruct (is_nil s); reflexivity.
Qed.

Theorem set_string_hex_text neg up s n :
  hex_value s = Some n -> int_set_string0 (hex_text neg up s) = Some (hex_text_value neg n).
Proof.
  intros Hv.
  assert (Hx : b2n (ch (if up then 88 else 120)) = 120 \/ b2n (ch (if up then 88 else 120)) = 88).
  { destruct up; [right|left]; apply b2n_ch; lia. }
  destruct (nat_scan_hex_prefixed _ s n Hx Hv) as (A & B & C).
  unfold int_set_string0, hex_text, hex_text_value, t_minus. destruct neg; cbn [app scan_sign].
  - rewrite (b2n_ch 45) by lia. cbn [N.eqb Pos.eqb]. rewrite A, B, C. reflexivity.
  - rewrite (b2n_ch 48) by lia. cbn [N.eqb Pos.eqb]. rewrite A, B, C. reflexivity.
Qed.

Lemma hex_text_plain neg up s n : hex_value s = Some n -> forallb plain_char (hex_text neg up s) = true.
Proof.
  intros Hv. unfold hex_text. rewrite forallb_app. apply andb_true_iff. split; [destruct neg; vm_compute; reflexivity|].
  change ([ch 48; ch (if up then 88 else 120)] ++ s) with (ch 48 :: ch (if up then 88 else 120) :: s).
  cbn [forallb]. rewrite (hex_value_plain s n Hv). destruct up; vm_compute; reflexivity.
Qed.

Theorem signed_hex_exact lex (ty64 neg up : bool) s n :
  lex_law lex -> hex_value s = Some n ->
  let t := hex_text neg up s in
  let q := hex_text_value neg n in
  BigIntegerFromString t = Ok q /\
  (in_range ty64 q = true -> parse_int ty64 lex (quote t) = Ok q) /\
  (in_range ty64 q = false -> exists err, parse_int ty64 lex (quote t) = Err err).
Proof.
  intros L Hv. cbv zeta.
  assert (HB : BigIntegerFromString (hex_text neg up s) = Ok (hex_text_value neg n)).
  { unfold BigIntegerFromString. rewrite (set_string_hex_text neg up s n Hv). reflexivity. }
  split; [exact HB|].
  assert (HU : UnmarshalBigInt lex (quote (hex_text neg up s)) = Ok (hex_text_value neg n)).
  { unfold UnmarshalBigInt. rewrite (lex_quote lex _ L (hex_text_plain neg up s n Hv)). exact HB. }
  unfold parse_int, HexInteger_UnmarshalJSON, HexUint64_UnmarshalJSON. rewrite HU. cbn [bind].
  set (q := hex_text_value neg n). unfold in_range. split; intros Hr; destruct ty64.
  - rewrite Hr. cbn [bind]. f_equal. lia.
  - replace (q <? 0)%Z with false by lia. reflexivity.
  - rewrite Hr. cbn [bind]. eauto.
  - replace (q <? 0)%Z with true by lia. eauto.
Qed.

(* the corollary the property names: a negative integer written in hex is an error for both JSON types *)
Corollary negative_hex_rejected lex (ty64 up : bool) s n :
  lex_law lex -> hex_value s = Some n -> n <> 0 ->
  exists err, parse_int ty64 lex (quote (hex_text true up s)) = Err err.
Proof.
  intros L Hv Hn. apply (proj2 (proj2 (signed_hex_exact lex ty64 true up s n L Hv))).
  unfold in_range, hex_text_value. destruct ty64; lia.
Qed.

(* ================= I4: the JSON layer of addresses and byte strings ================= *)
(* a quoted plain text reaches SetString / hex.DecodeString unchanged *)
Lemma Address_UnmarshalJSON_quote lexs s :
  lexs_law lexs -> forallb plain_char s = true -> Address_UnmarshalJSON lexs (quote s) = Address_SetString s.
Proof. intros L P. unfold Address_UnmarshalJSON. rewrite (lexs_quote lexs s L P). reflexivity. Qed.

Lemma HexBytes_UnmarshalJSON_quote lexs s :
  lexs_law lexs -> forallb plain_char s = true -> HexBytes_UnmarshalJSON lexs (quote s) = hex_decode (trim0x s).
Proof. intros L P. unfold HexBytes_UnmarshalJSON. rewrite (lexs_quote lexs s L P). reflexivity. Qed.

(* acceptance only of spelled texts, for EVERY lexer and EVERY document (no law needed): bytes are returned
   only when the lexer produced a string that spells exactly those bytes (with or without "0x") *)
Theorem json_layer_inv (lexs : bytes -> option bytes) (d b : bytes) :
  (Address_UnmarshalJSON lexs d = Ok b ->
     exists s, lexs d = Some s /\ length b = 20%nat /\ (hex_spells s b \/ exists s', s = t_0x ++ s' /\ hex_spells s' b)) /\
  (HexBytes_UnmarshalJSON lexs d = Ok b ->
     exists s, lexs d = Some s /\ (hex_spells s b \/ exists s', s = t_0x ++ s' /\ hex_spells s' b)) /\
  Address_UnmarshalJSON lexs d <> Panic /\ HexBytes_UnmarshalJSON lexs d <> Panic.
Proof.
  unfold Address_UnmarshalJSON, HexBytes_UnmarshalJSON. destruct (lexs d) as [s|].
  - split; [|split; [|split]].
    + intros H. exists s. split; [reflexivity|]. apply Address_SetString_ok_inv. exact H.
    + intros H. exists s. split; [reflexivity|]. apply HexBytes_parse_ok_inv. exact H.
    + apply Address_SetString_not_panic.
    + apply hex_decode_not_panic.
  - repeat split; discriminate.
Qed.

Lemma pair_ind (P : list byte -> Prop) :
  P [] -> (forall x, P [x]) -> (forall x y t, P t -> P (x :: y :: t)) -> forall s : list byte, P s.
Proof. intros H0 H1 H2. fix IH 1. intros [|x [|y t]]; [exact H0|apply H1|apply H2, IH]. Qed.

(* encoding/hex: an odd number of characters is an error *)
Lemma hex_decode_odd (s : list byte) : Nat.odd (length s) = true -> exists e, hex_decode s = Err e.
Proof.
  induction s as [| x | x y t IH] using pair_ind; intros H.
  - discriminate.
  - cbn [hex_decode]. eauto.
  - cbn [hex_decode]. destruct (unhex_val (b2n x)); [|eauto]. destruct (unhex_val (b2n y)); [|eauto].
    destruct IH as [e E]; [exact H|]. rewrite E. cbn [bind]. eauto.
Qed.

(* encoding/hex: a character that is not a hex digit anywhere in the text is an error *)
Lemma hex_decode_nonhex (s : list byte) c : In c s -> hex_val c = None -> exists e, hex_decode s = Err e.
Proof.
  intros Hin Hc. rewrite hex_val_unhex in Hc. revert Hin.
  induction s as [| x | x y t IH] using pair_ind; intros Hin.
  - destruct Hin.
  - cbn [hex_decode]. eauto.
  - cbn [hex_decode]. destruct Hin as [->|[->|Hin]].
    + rewrite Hc. eauto.
    + rewrite Hc. destruct (unhex_val (b2n x)); eauto.
    + destruct (unhex_val (b2n x)); [|eauto]. destruct (unhex_val (b2n y)); [|eauto].
      destruct (IH Hin) as [e E]. rewrite E. cbn [bind]. eauto.
Qed.

(* the three rejection classes of the property, explicitly.  [body] is the text after strings.TrimPrefix(s, "0x") *)
Definition bad_hex (body : bytes) : Prop :=
  Nat.odd (length body) = true \/ exists c, In c body /\ hex_val c = None.

Lemma bad_hex_decode body : bad_hex body -> exists e, hex_decode body = Err e.
Proof. intros [H|(c & Hin & Hc)]; [apply hex_decode_odd; exact H|apply (hex_decode_nonhex body c Hin Hc)]. Qed.

Theorem hexbytes_rejects s : bad_hex (trim0x s) -> exists e, hex_decode (trim0x s) = Err e.
Proof. apply bad_hex_decode. Qed.

Theorem address_rejects_bad_hex s : bad_hex (trim0x s) -> exists e, Address_SetString s = Err e.
Proof. intros H. destruct (bad_hex_decode _ H) as [e E]. unfold Address_SetString. rewrite E. cbn [bind]. eauto. Qed.

(* a well-spelled byte string of any length other than 20 (the 19- and 21-byte neighbours included) *)
Theorem address_rejects_wrong_length s b :
  hex_spells s b -> length b <> 20%nat ->
  (exists e, Address_SetString s = Err e) /\ (exists e, Address_SetString (t_0x ++ s) = Err e).
Proof.
  intros Hs Hl. unfold Address_SetString. rewrite trim0x_prefixed, (trim0x_spelled s b Hs), (hex_decode_spells s b Hs).
  cbn [bind]. replace (length b =? 20)%nat with false by (symmetry; apply Nat.eqb_neq; exact Hl). eauto.
Qed.

(* the same three classes through json.Unmarshal, for a quoted plain text *)
Theorem json_layer_rejects lexs s :
  lexs_law lexs -> forallb plain_char s = true ->
  (bad_hex (trim0x s) ->
     (exists e, Address_UnmarshalJSON lexs (quote s) = Err e) /\ (exists e, HexBytes_UnmarshalJSON lexs (quote s) = Err e)) /\
  (forall b, hex_spells s b -> length b <> 20%nat ->
     (exists e, Address_UnmarshalJSON lexs (quote s) = Err e) /\ (exists e, Address_UnmarshalJSON lexs (quote (t_0x ++ s)) = Err e)).
Proof.
  intros L P. rewrite (Address_UnmarshalJSON_quote lexs s L P), (HexBytes_UnmarshalJSON_quote lexs s L P). split.
  - intros H. split; [apply address_rejects_bad_hex|apply hexbytes_rejects]; exact H.
  - intros b Hs Hl. rewrite (Address_UnmarshalJSON_quote lexs (t_0x ++ s) L).
    + apply (address_rejects_wrong_length s b Hs Hl).
    + rewrite forallb_app, P. reflexivity.
Qed.

(* ================= I5: MarshalJSON of the address / byte-string types ================= *)
Theorem marshal_forms (a : bytes) :
  Address0xHex_MarshalJSON a = quote (t_0x ++ lower_hex a) /\
  AddressPlainHex_MarshalJSON a = quote (lower_hex a) /\
  HexBytes0xPrefix_MarshalJSON a = quote (t_0x ++ lower_hex a) /\
  HexBytesPlain_MarshalJSON a = quote (lower_hex a).
Proof.
  unfold Address0xHex_MarshalJSON, AddressPlainHex_MarshalJSON, HexBytes0xPrefix_MarshalJSON, HexBytesPlain_MarshalJSON.
  rewrite Address0xHex_String_form, AddressPlainHex_String_form, HexBytes0xPrefix_String_form, HexBytesPlain_String_form.
  repeat split.
Qed.

Theorem checksum_marshal_form (H : bytes -> bytes) :
  (forall x, length (H x) = 32%nat) -> forall a, length a = 20%nat ->
  AddressWithChecksum_MarshalJSON H a = Ok (quote (eip55 H a)).
Proof. intros HH a Ha. unfold AddressWithChecksum_MarshalJSON. rewrite (checksum_is_eip55 H HH a Ha). reflexivity. Qed.

(* the EIP-55 text is "0x" followed by a spelling of the address *)
Lemma eip55_spells (H : bytes -> bytes) a :
  length a = 20%nat -> exists s, eip55 H a = t_0x ++ s /\ hex_spells s a.
Proof.
  intros Ha. eexists. split; [unfold eip55; reflexivity|].
  replace 40%nat with (2 * length a)%nat by lia.
  apply spells_of_nibbles. intros k Hk. cbv zeta.
  destruct (upper_digit_hex_val (nibble a k) (nibble_lt a k)) as [U L].
  destruct ((10 <=? nibble a k) && N.testbit (be_value (H (lower_hex a))) (255 - 4 * N.of_nat k)); assumption.
Qed.

(* Unmarshal (Marshal x) = x for all five types, for every lexer satisfying the law *)
Theorem marshal_roundtrip lexs (H : bytes -> bytes) :
  lexs_law lexs -> (forall x, length (H x) = 32%nat) ->
  (forall h, HexBytes_UnmarshalJSON lexs (HexBytes0xPrefix_MarshalJSON h) = Ok h /\
             HexBytes_UnmarshalJSON lexs (HexBytesPlain_MarshalJSON h) = Ok h) /\
  (forall a, length a = 20%nat ->
     Address_UnmarshalJSON lexs (Address0xHex_MarshalJSON a) = Ok a /\
     Address_UnmarshalJSON lexs (AddressPlainHex_MarshalJSON a) = Ok a /\
     exists j, AddressWithChecksum_MarshalJSON H a = Ok j /\ Address_UnmarshalJSON lexs j = Ok a).
Proof.
  intros L HH. split.
  - intros h. destruct (marshal_forms h) as (_ & _ & -> & ->).
    destruct (json_string_layer lexs _ h L (lower_hex_spells h)) as (A & B & _). split; assumption.
  - intros a Ha. destruct (marshal_forms a) as (-> & -> & _ & _).
    destruct (json_string_layer lexs _ a L (lower_hex_spells a)) as (_ & _ & C). destruct (C Ha) as [C1 C2].
    split; [exact C2|]. split; [exact C1|].
    exists (quote (eip55 H a)). split; [apply checksum_marshal_form; assumption|].
    destruct (eip55_spells H a Ha) as (s & -> & Hs).
    destruct (json_string_layer lexs s a L Hs) as (_ & _ & D). exact (proj2 (D Ha)).
Qed.

(* ================= I2: EIP-55 with the executable Keccak-256 ================= *)
Theorem eip55_keccak (a : bytes) :
  length a = 20%nat ->
  AddressWithChecksum_String keccak256 a = Ok (eip55 keccak256 a) /\ Address_SetString (eip55 keccak256 a) = Ok a /\
  AddressWithChecksum_MarshalJSON keccak256 a = Ok (quote (eip55 keccak256 a)).
Proof.
  intros Ha. split; [apply checksum_is_eip55; [exact keccak256_length|exact Ha]|].
  split; [apply eip55_parses_back; exact Ha|apply checksum_marshal_form; [exact keccak256_length|exact Ha]].
Qed.

(* ================= I6: negative HexInteger values (outside the property: "non-negative") ================= *)
(* big.Int.Text(16) of a negative value is "-" + digits, so String() is "0x-.." : not a canonical form *)
Lemma HexInteger_negative_print p :
  HexInteger_MarshalJSON (Z.neg p) = quote (t_0x ++ t_minus ++ text16 (N.pos p)).
Proof. reflexivity. Qed.

Lemma big_0x_minus_err tail : BigIntegerFromString (t_0x ++ t_minus ++ tail) = Err ENumber.
Proof. destruct tail as [|a tail]; [vm_compute; reflexivity|]. timeout 30 (vm_compute). reflexivity. Qed.

(* ... and that text is refused by the parser: no round trip for negative values *)
Theorem HexInteger_negative_no_roundtrip lex p :
  lex_law lex -> exists err, HexInteger_UnmarshalJSON lex (HexInteger_MarshalJSON (Z.neg p)) = Err err.
Proof.
  intros L. rewrite HexInteger_negative_print.
  unfold HexInteger_UnmarshalJSON, UnmarshalBigInt. rewrite (lex_quote lex _ L).
  - rewrite big_0x_minus_err. cbn [bind]. eauto.
  - pose proof (canonical_plain (N.pos p)) as C. rewrite forallb_app in C. apply andb_true_iff in C. destruct C as [C1 C2].
    rewrite !forallb_app, C1, C2. reflexivity.
Qed.
