(* Independent specification for C19, written from the property text, RFC 8259 (JSON number and
   plain string grammar) and EIP-55 — shares no code with EthTypes/Model.v.

   1. What a text denotes: spelling classes of the property's quantifier (canonical decimal, 0x-hex of
      any letter case, JSON number with fraction and exponent), each with its exact value.
   2. The canonical print form of an integer ("0x" + lower-case hex without leading zeros), taken
      from Coq's own Strings.HexString.
   3. The fragment of encoding/json the theorems rely on, as an executable recogniser: a quoted run
      of plain printable ASCII is that string, a text matching the JSON number grammar is that number.
   4. EIP-55. *)
From Coq Require Import String Ascii HexString.
From Coq Require Import List NArith ZArith Lia Bool Arith.
From Coq Require Import Init.Byte.
From FFS Require Import Base.Bytes.
Import ListNotations.
Local Open Scope N_scope.

(* ---------- characters ---------- *)
Definition dec_val (c : byte) : option N :=
  let n := b2n c in if (48 <=? n) && (n <=? 57) then Some (n - 48) else None.
Definition hex_val (c : byte) : option N :=
  let n := b2n c in
  if (48 <=? n) && (n <=? 57) then Some (n - 48)          (* 0-9 *)
  else if (97 <=? n) && (n <=? 102) then Some (n - 87)    (* a-f *)
  else if (65 <=? n) && (n <=? 70) then Some (n - 55)     (* A-F *)
  else None.

(* value of a digit string, most significant digit first; None when a character is not a digit *)
Fixpoint digits_val (base : N) (dv : byte -> option N) (s : bytes) (acc : N) : option N :=
  match s with
  | [] => Some acc
  | c :: t => match dv c with Some d => digits_val base dv t (acc * base + d) | None => None end
  end.
Definition dec_value (s : bytes) : option N := match s with [] => None | _ => digits_val 10 dec_val s 0 end.
Definition hex_value (s : bytes) : option N := match s with [] => None | _ => digits_val 16 hex_val s 0 end.

(* "without leading zeros": a single 0, or a first digit 1..9 *)
Definition no_leading_zero (s : bytes) : bool :=
  match s with
  | [] => false
  | [c] => true
  | c :: _ => negb (b2n c =? 48)
  end.

Definition ch (n : N) : byte := n2b n.
Definition t_0x : bytes := [ch 48; ch 120].
Definition t_minus : bytes := [ch 45].

(* the text s spells the byte string b in hex, in any letter case: two digits per byte, high one first *)
Fixpoint hex_spells (s : bytes) (b : bytes) : Prop :=
  match s, b with
  | [], [] => True
  | c1 :: c2 :: s', x :: b' =>
      (exists h l, hex_val c1 = Some h /\ hex_val c2 = Some l /\ b2n x = h * 16 + l) /\ hex_spells s' b'
  | _, _ => False
  end.

(* ---------- what a text denotes ---------- *)
(* A number in scientific form denotes  m * 10^e  (m : Z, e : Z).  It is the integer q iff
   m * 10^max(e,0) = q * 10^max(-e,0). *)
Definition sci_is (m e q : Z) : Prop := (m * 10 ^ Z.max e 0 = q * 10 ^ Z.max (- e) 0)%Z.

(* executable form: the integer denoted by m * 10^e, if it is one *)
Definition sci_int (m e : Z) : option Z :=
  if (0 <=? e)%Z then Some (m * 10 ^ e)%Z
  else if (m mod 10 ^ (- e) =? 0)%Z then Some (m / 10 ^ (- e))%Z else None.

(* JSON number (RFC 8259 section 6):  [-] int [. frac] [e|E [+|-] digits]  *)
Record jnum := mkJ {
  j_neg : bool;
  j_int : bytes;             (* "0" or a digit string not starting with 0 *)
  j_frac : option bytes;     (* non-empty digit string *)
  j_exp : option (bool * N * bytes) }.  (* upper-case E?, sign: 0 none 1 '+' 2 '-', non-empty digit string *)

Definition all_dec (s : bytes) : bool := forallb (fun c => match dec_val c with Some _ => true | None => false end) s.

Definition jnum_wf (j : jnum) : bool :=
  all_dec (j_int j) && no_leading_zero (j_int j) &&
  match j_frac j with None => true | Some f => all_dec f && negb (match f with [] => true | _ => false end) end &&
  match j_exp j with None => true
  | Some (_, sg, d) => all_dec d && negb (match d with [] => true | _ => false end) && (sg <=? 2) end.

Definition jnum_text (j : jnum) : bytes :=
  (if j_neg j then t_minus else []) ++ j_int j ++
  (match j_frac j with None => [] | Some f => ch 46 :: f end) ++
  (match j_exp j with None => []
   | Some (up, sg, d) => ch (if up then 69 else 101) :: (if sg =? 1 then [ch 43] else if sg =? 2 then [ch 45] else []) ++ d end).

(* mantissa and decimal exponent:  value = j_mant * 10 ^ j_e  *)
Definition nat_of_dec (s : bytes) : N := match digits_val 10 dec_val s 0 with Some n => n | None => 0 end.
Definition j_mant (j : jnum) : Z :=
  let m := Z.of_N (nat_of_dec (j_int j ++ match j_frac j with None => [] | Some f => f end)) in
  if j_neg j then (- m)%Z else m.
Definition j_e (j : jnum) : Z :=
  ((match j_exp j with None => 0 | Some (_, sg, d) => if (sg =? 2)%N then - Z.of_N (nat_of_dec d) else Z.of_N (nat_of_dec d) end)
   - Z.of_nat (match j_frac j with None => 0%nat | Some f => length f end))%Z.

(* The spelling classes of the quantifier.  [denotes t m e]: text t denotes m * 10^e. *)
Inductive denotes : bytes -> Z -> Z -> Prop :=
| den_dec : forall s n, no_leading_zero s = true -> dec_value s = Some n -> denotes s (Z.of_N n) 0
| den_neg_dec : forall s n, no_leading_zero s = true -> dec_value s = Some n -> denotes (t_minus ++ s) (- Z.of_N n) 0
| den_hex : forall s n, hex_value s = Some n -> denotes (t_0x ++ s) (Z.of_N n) 0
| den_json : forall j, jnum_wf j = true -> denotes (jnum_text j) (j_mant j) (j_e j).

(* the ranges of the two integer types *)
Definition in_range (ty64 : bool) (q : Z) : bool :=
  if ty64 then ((0 <=? q) && (q <? 2 ^ 64))%Z else (0 <=? q)%Z.

(* ---------- canonical print form ---------- *)
(* lower-case hex digit character *)
Definition is_lower_hex (c : byte) : bool :=
  let n := b2n c in ((48 <=? n) && (n <=? 57)) || ((97 <=? n) && (n <=? 102)).
(* [canonical_hex s n]: s is "0x" followed by lower-case hex digits without leading zeros whose value is n *)
Definition canonical_hex (s : bytes) (n : N) : Prop :=
  exists ds, s = t_0x ++ ds /\ hex_value ds = Some n /\ no_leading_zero ds = true /\ forallb is_lower_hex ds = true.

(* "0x" followed by lower-case hex digits without leading zeros ("0x0" for zero) *)
Definition spec_hex (n : N) : bytes := ascii_bytes (HexString.of_N n).
Definition dquote : byte := ch 34.
Definition spec_json_hex (n : N) : bytes := dquote :: spec_hex n ++ [dquote].

(* ---------- the fragment of encoding/json that is relied upon ---------- *)
Inductive tok := TNum (t : bytes) | TStr (t : bytes).

(* plain string character: printable ASCII except the quote and the backslash *)
Definition plain_char (c : byte) : bool :=
  let n := b2n c in (32 <=? n) && (n <=? 126) && negb (n =? 34) && negb (n =? 92).

Fixpoint split_last (s : bytes) : option (bytes * byte) :=
  match s with
  | [] => None
  | [c] => Some ([], c)
  | c :: t => match split_last t with Some (l, z) => Some (c :: l, z) | None => None end
  end.

(* "…": Some body when the text is a quoted run of plain characters *)
Definition plain_string (b : bytes) : option bytes :=
  match b with
  | q :: t =>
      if b2n q =? 34 then
        match split_last t with
        | Some (body, z) => if (b2n z =? 34) && forallb plain_char body then Some body else None
        | None => None
        end
      else None
  | [] => None
  end.

(* JSON number grammar recogniser *)
Fixpoint take_digits (s : bytes) : bytes * bytes :=
  match s with
  | c :: t => match dec_val c with
              | Some _ => let '(d, r) := take_digits t in (c :: d, r)
              | None => ([], s)
              end
  | [] => ([], [])
  end.

Definition strip_minus (b : bytes) : bytes := match b with c :: t => if b2n c =? 45 then t else b | [] => b end.
Definition strip_sign (b : bytes) : bytes :=
  match b with y :: u => if (b2n y =? 43) || (b2n y =? 45) then u else b | [] => b end.

Definition is_json_number (b : bytes) : bool :=
  let s := strip_minus b in
  let '(ip, r1) := take_digits s in
  if negb (no_leading_zero ip) then false else
  let r2 :=
    match r1 with
    | c :: t => if b2n c =? 46 then
                  let '(f, r) := take_digits t in
                  match f with [] => None | _ => Some r end
                else Some r1
    | [] => Some []
    end in
  match r2 with
  | None => false
  | Some r2 =>
      match r2 with
      | [] => true
      | c :: t =>
          if (b2n c =? 101) || (b2n c =? 69) then
            let t' := strip_sign t in
            let '(d, r) := take_digits t' in
            match d, r with
            | _ :: _, [] => true
            | _, _ => false
            end
          else false
      end
  end.

Definition simple_lex (b : bytes) : option tok :=
  match plain_string b with
  | Some s => Some (TStr s)
  | None => if is_json_number b then Some (TNum b) else None
  end.

(* ---------- EIP-55 ----------
   "convert the address to hex, but if the i-th digit is a letter (ie. it's one of abcdef) print it
    in uppercase if the 4*i-th bit of the hash of the lowercase hexadecimal address is 1 otherwise
    print it in lowercase"  (bits counted from the most significant bit of the 256-bit hash) *)
Section Eip55.
  Variable H : bytes -> bytes.

  Definition be_value (l : bytes) : N := fold_left (fun a b => a * 256 + b2n b) l 0.

  (* the i-th hex digit (4-bit value) of a byte string *)
  Definition nibble (a : bytes) (i : nat) : N :=
    let b := b2n (nth (Nat.div2 i) a x00) in if Nat.even i then b / 16 else b mod 16.

  Definition lower_digit (d : N) : byte :=
    match nth_error (list_ascii_of_string "0123456789abcdef") (N.to_nat d) with
    | Some a => byte_of_ascii a | None => x00 end.
  Definition upper_digit (d : N) : byte :=
    match nth_error (list_ascii_of_string "0123456789ABCDEF") (N.to_nat d) with
    | Some a => byte_of_ascii a | None => x00 end.

  Definition lower_hex (a : bytes) : bytes := map (fun i => lower_digit (nibble a i)) (seq 0 (2 * length a)).

  Definition eip55 (a : bytes) : bytes :=
    let h := be_value (H (lower_hex a)) in
    t_0x ++ map (fun i => let d := nibble a i in
                          if (10 <=? d) && N.testbit h (255 - 4 * N.of_nat i) then upper_digit d else lower_digit d)
                (seq 0 40).
End Eip55.
