(* Proofs about the model of pkg/ethtypes, part 4: the exact boundary of C19_parse_exact.
   For every JSON-number spelling the model of BigIntegerFromString returns the exact denoted
   integer (or FF22089 when the text denotes no integer) exactly when the text is within math/big's
   library limits [big_limits_json] (EthTypes/SpecBig.v), and an error for every text beyond them.
   The old guard (|e| <= 10^6 and |text| < 2^28) implies the limits. *)
From Coq Require Import List NArith ZArith Lia Bool Arith.
From Coq Require Import ZifyN ZifyNat ZifyBool.
From Coq Require Import Init.Byte.
From FFS Require Import Base.Res Base.Bytes EthTypes.Model EthTypes.Spec EthTypes.SpecBig
  EthTypes.Proofs EthTypes.ProofsInt EthTypes.ProofsNum.
Import ListNotations.
Local Open Scope N_scope.

(* ---------- the specification's quantities in terms of the proof's bookkeeping ---------- *)
Lemma j_written_exp_eq j : jwf j -> j_written_exp j = j_expo j.
Proof.
  intros W. unfold j_written_exp, j_expo. destruct (j_exp j) as [[[up sg] d]|] eqn:Ee; [|reflexivity].
  destruct (wf_exp j W up sg d Ee) as (Hd & _ & _). rewrite nat_of_dec_fold by exact Hd. reflexivity.
Qed.

Lemma int64_ok_in64 x : int64_ok x = in64 x.
Proof. reflexivity. Qed.

Lemma j_mant_zero j : jwf j -> (j_mant j =? 0)%Z = (j_m j =? 0).
Proof. intros W. rewrite (j_mant_eq j W). destruct (j_neg j); lia. Qed.

Lemma bitlen_mant j : jwf j -> bitlen (j_mant j) = Z.of_N (N.size (j_m j)).
Proof.
  intros W. unfold bitlen. rewrite (j_mant_eq j W). f_equal. f_equal. destruct (j_neg j); lia.
Qed.

Lemma j_plain_rest j : j_plain j = is_nil (j_fracpart j ++ j_exppart j).
Proof.
  unfold j_plain, j_fracpart, j_exppart. destruct (j_frac j); [reflexivity|].
  destruct (j_exp j) as [[[? ?] ?]|]; reflexivity.
Qed.

(* ---------- the ParseFloat gate on a JSON number text, no guard ---------- *)
Lemma parse_float_json_gen j : jwf j ->
  parse_float10_ok (jnum_text j) =
  in64 (j_expo j) && ((j_m j =? 0) || float_exp_ok (Z.of_N (N.size (j_m j)) + j_e j)).
Proof.
  intros W.
  unfold parse_float10_ok. rewrite (is_inf_text_json j W), (scan_sign_json j W), (scan_mantissa false j W).
  cbn [s_ok negb s_rest s_val s_count]. rewrite (scan_exponent_json_gen true false j W).
  destruct (in64 (j_expo j)); cbn [e_ok negb e_rest e_val is_nil andb]; [|reflexivity].
  fold (j_m j). destruct (j_m j =? 0) eqn:E0; [reflexivity|].
  rewrite (frac_count_d j W). cbn [orb].
  replace (Z.of_N (N.size (j_m j)) + - Z.of_nat (length (j_fdigits j)) + j_expo j)%Z
    with (Z.of_N (N.size (j_m j)) + j_e j)%Z by (rewrite (j_e_eq j W); lia).
  unfold float_exp_ok, MinExp, MaxExp.
  destruct ((- 2 ^ 31 <=? Z.of_N (N.size (j_m j)) + j_e j)%Z && (Z.of_N (N.size (j_m j)) + j_e j <=? 2 ^ 31 - 1)%Z); reflexivity.
Qed.

(* ---------- BigIntegerFromString on a JSON number, by the library limits ---------- *)
Theorem big_json_lim j :
  jnum_wf j = true ->
  if big_limits_json j
  then BigIntegerFromString (jnum_text j) = match sci_int (j_mant j) (j_e j) with Some q => Ok q | None => Err EPrecision end
  else exists err, BigIntegerFromString (jnum_text j) = Err err.
Proof.
  intros Hwf. pose proof (jnum_wf_jwf j Hwf) as W.
  unfold big_limits_json. rewrite (j_plain_rest j).
  destruct (j_fracpart j ++ j_exppart j) as [|c0 t0] eqn:Erest; cbn [is_nil orb].
  - (* a plain integer: Int.SetString takes it, no limit *)
    assert (Hf : j_frac j = None) by (unfold j_fracpart in Erest; destruct (j_frac j); [discriminate|reflexivity]).
    assert (He : j_exp j = None).
    { unfold j_fracpart, j_exppart in Erest. rewrite Hf in Erest. destruct (j_exp j) as [[[? ?] ?]|]; [discriminate|reflexivity]. }
    assert (Hv : dec_value (j_int j) = Some (dec_fold (j_int j) 0)).
    { unfold dec_value. pose proof (wf_nlz j W). destruct (j_int j) eqn:Ei; [discriminate|]. rewrite <- Ei.
      apply all_dec_digits_val. exact (wf_int j W). }
    assert (Hje : j_e j = 0%Z) by (unfold j_e; rewrite Hf, He; reflexivity).
    assert (Hm : j_m j = dec_fold (j_int j) 0) by (unfold j_m, j_fdigits; rewrite Hf, app_nil_r; reflexivity).
    rewrite Hje, (j_mant_eq j W), Hm. unfold BigIntegerFromString.
    rewrite jnum_text_eq, Erest, app_nil_r. unfold j_sign. destruct (j_neg j).
    + rewrite (set_string_neg_dec _ _ (wf_nlz j W) Hv). unfold sci_int. cbn [Z.leb Z.compare]. f_equal. cbn. lia.
    + cbn [app]. rewrite (set_string_dec _ _ (wf_nlz j W) Hv). unfold sci_int. cbn [Z.leb Z.compare]. f_equal. cbn. lia.
  - rewrite (j_written_exp_eq j W), int64_ok_in64, (j_mant_zero j W), (bitlen_mant j W).
    unfold BigIntegerFromString.
    rewrite (set_string_json_none j W) by (rewrite Erest; discriminate).
    rewrite (parse_float_json_gen j W), (rat_json_gen j W).
    destruct (in64 (j_expo j)); cbn [andb negb]; [|eauto].
    destruct (j_m j =? 0) eqn:E0; cbn [orb negb].
    + rewrite (j_mant_eq j W). apply N.eqb_eq in E0. rewrite E0.
      replace (if j_neg j then (- Z.of_N 0)%Z else Z.of_N 0) with 0%Z by (destruct (j_neg j); reflexivity).
      cbn [Z.modulo Z.div_eucl Z.eqb Z.div]. rewrite sci_int_zero. reflexivity.
    + destruct (float_exp_ok (Z.of_N (N.size (j_m j)) + j_e j)); cbn [andb negb]; [|eauto].
      destruct (Z.abs (j_e j) <=? 1000000)%Z eqn:Eb.
      * replace (Z.abs (j_e j) >? 1000000)%Z with false by lia.
        cbv zeta. rewrite (rat_result_sci (j_neg j) (j_m j) (j_e j)). rewrite (j_mant_eq j W). reflexivity.
      * replace (Z.abs (j_e j) >? 1000000)%Z with true by lia. eauto.
Qed.

(* ---------- all spelling classes ---------- *)
Lemma spelling_denotes t m e l : spelling t m e l -> denotes t m e.
Proof. intros [s n Hz Hv|s n Hz Hv|s n Hv|j Hwf]; constructor; assumption. Qed.

Lemma denotes_spelling t m e : denotes t m e -> exists l, spelling t m e l.
Proof. intros [s n Hz Hv|s n Hz Hv|s n Hv|j Hwf]; eexists; constructor; eassumption. Qed.

Theorem big_exact_lim t m e l :
  spelling t m e l ->
  if l then BigIntegerFromString t = match sci_int m e with Some q => Ok q | None => Err EPrecision end
  else exists err, BigIntegerFromString t = Err err.
Proof.
  intros [s n Hz Hv|s n Hz Hv|s n Hv|j Hwf].
  - unfold BigIntegerFromString. rewrite (set_string_dec s n Hz Hv). unfold sci_int. cbn [Z.leb Z.compare Z.pow Z.pow_pos Pos.iter].
    rewrite Z.mul_1_r. reflexivity.
  - unfold BigIntegerFromString. rewrite (set_string_neg_dec s n Hz Hv). unfold sci_int. cbn [Z.leb Z.compare Z.pow].
    rewrite Z.mul_1_r. reflexivity.
  - rewrite (big_from_hex s n Hv). unfold sci_int. cbn [Z.leb Z.compare Z.pow]. rewrite Z.mul_1_r. reflexivity.
  - apply big_json_lim. exact Hwf.
Qed.

(* the old guard is inside the limits *)
Lemma guard_within_limits t m e l : spelling t m e l -> guard t e -> l = true.
Proof.
  intros [s n Hz Hv|s n Hz Hv|s n Hv|j Hwf] G; try reflexivity.
  pose proof (jnum_wf_jwf j Hwf) as W.
  destruct (jguard_lengths j W G) as [GL GE]. destruct G as [G1 G2].
  unfold big_limits_json. rewrite (j_written_exp_eq j W), int64_ok_in64, (j_mant_zero j W), (bitlen_mant j W).
  replace (in64 (j_expo j)) with true by (unfold in64; lia).
  replace (Z.abs (j_e j) <=? 1000000)%Z with true by lia.
  pose proof (dec_fold_size (j_int j ++ j_fdigits j)) as Hs. fold (j_m j) in Hs.
  rewrite all_dec_app, (wf_int j W), (wf_frac j W) in Hs. specialize (Hs eq_refl).
  rewrite app_length in Hs.
  replace (float_exp_ok (Z.of_N (N.size (j_m j)) + j_e j)) with true by (unfold float_exp_ok; lia).
  cbn [andb]. rewrite !orb_true_r. reflexivity.
Qed.

(* ---------- HexInteger / HexUint64 over the JSON layer, exact boundary ---------- *)
Theorem parse_exact_lim lex (ty64 : bool) t m e l b :
  lex_law lex -> spelling t m e l -> json_of t b ->
  (l = true ->
     (forall q, sci_is m e q -> in_range ty64 q = true -> parse_int ty64 lex b = Ok q) /\
     ((forall q, sci_is m e q -> in_range ty64 q = false) -> exists err, parse_int ty64 lex b = Err err)) /\
  (l = false -> exists err, parse_int ty64 lex b = Err err).
Proof.
  intros L S J. pose proof (spelling_denotes t m e l S) as D.
  pose proof (big_exact_lim t m e l S) as HB.
  pose proof (unmarshal_big lex t m e b L D J) as HU.
  split.
  - intros ->. rewrite <- HU in HB.
    unfold parse_int, HexInteger_UnmarshalJSON, HexUint64_UnmarshalJSON. rewrite HB.
    destruct (sci_int m e) as [q0|] eqn:E.
    + assert (Hq0 : sci_is m e q0) by (apply sci_int_spec; exact E).
      split.
      * intros q Hq Hr. apply sci_int_spec in Hq. assert (q = q0) by congruence. subst q0.
        cbn [bind]. unfold in_range in Hr. destruct ty64.
        -- rewrite Hr. cbn [bind]. f_equal. lia.
        -- replace (q <? 0)%Z with false by lia. reflexivity.
      * intros Hall. specialize (Hall q0 Hq0). cbn [bind]. unfold in_range in Hall. destruct ty64.
        -- rewrite Hall. cbn [bind]. eauto.
        -- replace (q0 <? 0)%Z with true by lia. eauto.
    + split.
      * intros q Hq _. apply sci_int_spec in Hq. congruence.
      * intros _. cbn [bind]. destruct ty64; cbn [bind]; eauto.
  - intros ->. destruct HB as [err HB]. rewrite <- HU in HB.
    unfold parse_int, HexInteger_UnmarshalJSON, HexUint64_UnmarshalJSON. rewrite HB.
    destruct ty64; cbn [bind]; eauto.
Qed.
