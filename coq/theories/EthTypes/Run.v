(* Evaluator for the correspondence check of C19: runs the model of pkg/ethtypes (and the spec
   oracles of EthTypes/Spec.v, with the executable Keccak-256 plugged in for the hash) on the cases
   written by the Go harness and reports where they differ from what the implementation did.

   result codes: 0 agree; 1..9 the model differs from the implementation (or from the library it
   models); >= 10 the implementation fails a property oracle on that input. *)
From Coq Require Import String.
From Coq Require Import List NArith ZArith Lia Bool Arith.
From Coq Require Import Init.Byte.
From FFS Require Import Base.Res Base.Bytes Base.Lit Base.Keccak EthTypes.Model EthTypes.ModelMarshal EthTypes.Spec.
Import ListNotations.
Local Open Scope N_scope.

(* lexer oracle as written by the harness (filled by calling encoding/json directly) *)
Inductive otok := OErr | ONum (t : bdsl) | OStr (t : bdsl) | OOther.
Definition tok_of (o : otok) : jtok :=
  match o with OErr => JErr | ONum t => JNum (bexpand t) | OStr t => JStr (bexpand t) | OOther => JOther end.

Inductive case :=
(* integer parse.  ty: 0 = BigIntegerFromString(text) (tok unused), 1 = HexInteger.UnmarshalJSON(json),
   2 = HexUint64.UnmarshalJSON(json).  den = Some (m, e): the generator wrote the text as a spelling
   (one of the classes of the quantifier) of m * 10^e.  cls/val: what the implementation returned. *)
| CParse (ty : N) (input : bdsl) (tok : otok) (den : option (Z * Z)) (cls : nat) (val : Z)
(* integer print.  ty 1/2; MarshalJSON output; Unmarshal(Marshal(z)): class and value *)
| CPrint (ty : N) (z : Z) (out : bdsl) (back_cls : nat) (back : Z)
(* address parse: json = input bytes, lexs = what json.Unmarshal into a string gives, implementation
   class and bytes; expect: 0 nothing known, 1 generator rendered [exp] (20 bytes) so must be Ok exp, 2 must be Err *)
| CAddr (direct : bool) (input : bdsl) (lexs : option bdsl) (cls : nat) (out : bdsl) (expect : N) (exp : bdsl)
(* address print: the three String() forms *)
| CAddrPrint (a : bdsl) (s0x schk splain : bdsl)
(* hex bytes parse / print *)
| CBytes (input : bdsl) (lexs : option bdsl) (cls : nat) (out : bdsl) (expect : N) (exp : bdsl)
| CBytesPrint (h : bdsl) (splain s0x : bdsl)
(* MarshalJSON of the five address / byte-string types called directly (wave 6): cls 0 = all returned a text,
   1 = one of them returned an error, 2 = panic; the texts of Address0xHex, AddressWithChecksum, AddressPlainHex /
   HexBytesPlain, HexBytes0xPrefix *)
| CAddrMarshal (a : bdsl) (cls : nat) (j0x jchk jplain : bdsl)
| CBytesMarshal (h : bdsl) (cls : nat) (jplain j0x : bdsl)
(* the modelled library functions themselves (math/big called directly by the harness) *)
| CLibInt (s : bdsl) (ok : bool) (v : Z)
| CLibFloat (s : bdsl) (ok : bool)
| CLibRat (s : bdsl) (ok isint : bool) (num : Z)
(* the assumed fragment of encoding/json: Decoder{UseNumber}.Decode and Unmarshal into a string *)
| CLex (input : bdsl) (tok : otok) (lexs : option bdsl).

Definition res_matches_Z (r : res Z) (cls : nat) (val : Z) : bool :=
  match r with
  | Ok z => (cls =? 0)%nat && (z =? val)%Z
  | Err _ => (cls =? 1)%nat
  | Panic => (cls =? 2)%nat
  end.
Definition res_matches_bytes (r : res bytes) (cls : nat) (out : bytes) : bool :=
  match r with
  | Ok b => (cls =? 0)%nat && bytes_eqb b out
  | Err _ => (cls =? 1)%nat
  | Panic => (cls =? 2)%nat
  end.

Definition parse_model (ty : N) (input : bytes) (t : jtok) : res Z :=
  if ty =? 0 then BigIntegerFromString input
  else if ty =? 1 then HexInteger_UnmarshalJSON (fun _ => t) input
  else do n <- HexUint64_UnmarshalJSON (fun _ => t) input ; Ok (Z.of_N n).

(* the specification's verdict for a spelling of m*10^e: Some q = must be accepted with q, None = must be rejected *)
Definition spec_verdict (ty : N) (m e : Z) : option Z :=
  match sci_int m e with
  | Some q => if ty =? 0 then Some q else if in_range (ty =? 2) q then Some q else None
  | None => None
  end.

Definition lexs_of (o : option bdsl) : bytes -> option bytes := fun _ => option_map bexpand o.

Definition check_case (c : case) : N :=
  match c with
  | CParse ty input tk den cls val =>
      let inp := bexpand input in
      if (cls =? 2)%nat then 12 else
      let bad_spec :=
        match den with
        | None => false
        | Some (m, e) =>
            match spec_verdict ty m e with
            | Some q => negb ((cls =? 0)%nat && (val =? q)%Z)
            | None => negb (cls =? 1)%nat
            end
        end in
      if bad_spec then 10 else
      if res_matches_Z (parse_model ty inp (tok_of tk)) cls val then 0 else 1
  | CPrint ty z out bcls back =>
      let o := bexpand out in
      if (bcls =? 2)%nat then 12 else
      if negb (bytes_eqb o (spec_json_hex (Z.to_N z))) then 11 else
      if negb ((bcls =? 0)%nat && (back =? z)%Z) then 13 else
      let m := if ty =? 1 then HexInteger_MarshalJSON z else HexUint64_MarshalJSON (Z.to_N z) in
      if bytes_eqb o m then 0 else 2
  | CAddr direct input lexs cls out expect exp =>
      let inp := bexpand input in
      if (cls =? 2)%nat then 12 else
      if (expect =? 1) && negb ((cls =? 0)%nat && bytes_eqb (bexpand out) (bexpand exp)) then 14 else
      if (expect =? 2) && negb (cls =? 1)%nat then 14 else
      let r := if direct then Address_SetString inp else Address_UnmarshalJSON (lexs_of lexs) inp in
      if res_matches_bytes r cls (bexpand out) then 0 else 3
  | CAddrPrint a s0x schk splain =>
      let ab := bexpand a in
      if negb (bytes_eqb (bexpand schk) (eip55 keccak256 ab)) then 15 else
      if negb (bytes_eqb (bexpand s0x) (t_0x ++ lower_hex ab)) then 15 else
      if negb (bytes_eqb (bexpand splain) (lower_hex ab)) then 15 else
      if negb (res_matches_bytes (AddressWithChecksum_String keccak256 ab) 0 (bexpand schk)) then 4 else
      if negb (bytes_eqb (Address0xHex_String ab) (bexpand s0x)) then 4 else
      if negb (bytes_eqb (AddressPlainHex_String ab) (bexpand splain)) then 4 else 0
  | CBytes input lexs cls out expect exp =>
      let inp := bexpand input in
      if (cls =? 2)%nat then 12 else
      if (expect =? 1) && negb ((cls =? 0)%nat && bytes_eqb (bexpand out) (bexpand exp)) then 14 else
      if (expect =? 2) && negb (cls =? 1)%nat then 14 else
      if res_matches_bytes (HexBytes_UnmarshalJSON (lexs_of lexs) inp) cls (bexpand out) then 0 else 3
  | CBytesPrint h splain s0x =>
      let hb := bexpand h in
      if negb (bytes_eqb (bexpand splain) (lower_hex hb)) then 15 else
      if negb (bytes_eqb (bexpand s0x) (t_0x ++ lower_hex hb)) then 15 else
      if negb (bytes_eqb (HexBytesPlain_String hb) (bexpand splain)) then 4 else
      if negb (bytes_eqb (HexBytes0xPrefix_String hb) (bexpand s0x)) then 4 else 0
  | CAddrMarshal a cls j0x jchk jplain =>
      let ab := bexpand a in
      if (cls =? 2)%nat then 12 else
      if negb (cls =? 0)%nat then 15 else
      (* documented form: the String() text between double quotes; the checksum one is EIP-55 (spec side) *)
      if negb (bytes_eqb (bexpand jchk) (quote (eip55 keccak256 ab))) then 15 else
      if negb (bytes_eqb (bexpand j0x) (quote (t_0x ++ lower_hex ab))) then 15 else
      if negb (bytes_eqb (bexpand jplain) (quote (lower_hex ab))) then 15 else
      (* model side (EthTypes/ModelMarshal.v) *)
      if negb (res_matches_bytes (AddressWithChecksum_MarshalJSON keccak256 ab) 0 (bexpand jchk)) then 2 else
      if negb (bytes_eqb (Address0xHex_MarshalJSON ab) (bexpand j0x)) then 2 else
      if negb (bytes_eqb (AddressPlainHex_MarshalJSON ab) (bexpand jplain)) then 2 else 0
  | CBytesMarshal h cls jplain j0x =>
      let hb := bexpand h in
      if (cls =? 2)%nat then 12 else
      if negb (cls =? 0)%nat then 15 else
      if negb (bytes_eqb (bexpand jplain) (quote (lower_hex hb))) then 15 else
      if negb (bytes_eqb (bexpand j0x) (quote (t_0x ++ lower_hex hb))) then 15 else
      if negb (bytes_eqb (HexBytesPlain_MarshalJSON hb) (bexpand jplain)) then 2 else
      if negb (bytes_eqb (HexBytes0xPrefix_MarshalJSON hb) (bexpand j0x)) then 2 else 0
  | CLibInt s ok v =>
      match int_set_string0 (bexpand s) with
      | Some z => if ok && (z =? v)%Z then 0 else 5
      | None => if ok then 5 else 0
      end
  | CLibFloat s ok => if Bool.eqb (parse_float10_ok (bexpand s)) ok then 0 else 5
  | CLibRat s ok isint num =>
      match rat_set_string (bexpand s) with
      | Some (a, b) =>
          if negb ok then 5 else
          let i := (a mod Z.of_N b =? 0)%Z in
          if negb (Bool.eqb i isint) then 5 else
          if i && negb (a / Z.of_N b =? num)%Z then 5 else 0
      | None => if ok then 5 else 0
      end
  | CLex input tk lexs =>
      let inp := bexpand input in
      let a :=
        match simple_lex inp, tk with
        | Some (TNum t), ONum t' => bytes_eqb t (bexpand t')
        | Some (TStr t), OStr t' => bytes_eqb t (bexpand t')
        | Some _, _ => false
        | None, _ => true
        end in
      let b :=
        match plain_string inp, lexs with
        | Some t, Some t' => bytes_eqb t (bexpand t')
        | Some _, None => false
        | None, _ => true
        end in
      if a && b then 0 else 6
  end.

Fixpoint mismatches_go (i : N) (l : list case) : list (N * N) :=
  match l with
  | [] => []
  | c :: t => let r := check_case c in
              if (r =? 0)%N then mismatches_go (i + 1) t else (i, r) :: mismatches_go (i + 1) t
  end.
Definition mismatches (l : list case) : list (N * N) := firstn 20 (mismatches_go 0 l).
