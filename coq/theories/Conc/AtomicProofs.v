(* C17 — soundness of the atomicity checker of Conc/Atomic.v: a body accepted by [callf] satisfies,
   on EVERY complete control-flow path (calls expanded, deferred items run), that the event automaton
   does not get stuck — every watched access is made with the mutex held and exactly one Lock of it
   executed since the entry of the method — and all paths leave the body in the state computed. *)
From Coq Require Import List String Bool Arith Lia.
From FFS Require Import Conc.Lockset Conc.LocksetProofs Conc.Atomic.
Import ListNotations.
Open Scope string_scope.
Open Scope list_scope.

Lemma rst_eqb_eq : forall x y, rst_eqb x y = true -> x = y.
Proof.
  intros [h1 n1] [h2 n2] H. unfold rst_eqb in H. cbn in H. apply andb_true_iff in H. destruct H as [A B].
  apply eqb_prop in A. apply Nat.eqb_eq in B. subst. reflexivity.
Qed.

Lemma s_map_in : forall f A A' s, s_map f A = Some A' -> In s A -> exists s', f s = Some s' /\ In s' A'.
Proof.
  induction A as [|x A IH]; intros A' s H Hin; [contradiction|].
  cbn [s_map] in H. destruct (f x) as [x'|] eqn:Ex; [|discriminate].
  destruct (s_map f A) as [t'|] eqn:Et; [|discriminate]. inversion H; subst A'.
  destruct Hin as [->|Hin].
  - exists x'. split; [exact Ex|left; reflexivity].
  - destruct (IH t' s eq_refl Hin) as (s' & E & I). exists s'. split; [exact E|right; exact I].
Qed.

Lemma s_bind_in : forall f A A' s, s_bind f A = Some A' -> In s A -> exists B, f s = Some B /\ incl B A'.
Proof.
  induction A as [|x A IH]; intros A' s H Hin; [contradiction|].
  cbn [s_bind] in H. destruct (f x) as [B|] eqn:Ex; [|discriminate].
  destruct (s_bind f A) as [t'|] eqn:Et; [|discriminate]. inversion H; subst A'.
  destruct Hin as [->|Hin].
  - exists B. split; [exact Ex|apply incl_appl, incl_refl].
  - destruct (IH t' s eq_refl Hin) as (B' & E & I). exists B'. split; [exact E|apply incl_appr; exact I].
Qed.

Lemma s_subset_incl : forall A B, s_subset A B = true -> incl A B.
Proof.
  intros A B H s Hin. unfold s_subset in H. rewrite forallb_forall in H. specialize (H s Hin).
  unfold s_mem in H. apply existsb_exists in H. destruct H as (y & Hy & E). apply rst_eqb_eq in E. subst. exact Hy.
Qed.

Lemma app_self_nil : forall A (a b : list A), a ++ b = b -> a = [].
Proof.
  intros A a b H. apply (f_equal (@List.length A)) in H. rewrite app_length in H.
  destruct a; [reflexivity|cbn in H; lia].
Qed.

Section Sound.
  Variable p : prog.
  Variable m : mutex.
  Variable L : list loc.

  Notation run := (ev_run m L).
  Notation cf := (callf p m L).

  Lemma run_app : forall a b s, run s (a ++ b) = match run s a with Some s' => run s' b | None => None end.
  Proof.
    induction a as [|e a IH]; intros b s; [reflexivity|].
    cbn [app ev_run]. destruct (ev_step m L s e); [apply IH|reflexivity].
  Qed.

  (* what an accepted piece of code guarantees for one of its paths, started in a state of the set *)
  Definition G (n : nat) (res : cres) (A : sset) (s : rst) (d0 : list ditem) (tr : list ev) (ds : list ditem) (r : bool) : Prop :=
    In s A -> forall e f, res = CR e f ->
      exists s', run s tr = Some s' /\
        if r then exists As E, In s' As /\ run_defers m L (cf n) (ds ++ d0) As = Some E /\ incl E e
        else exists A', f = Some (A', ds ++ d0) /\ In s' A'.

  Definition Pi (i : instr) (tr : list ev) (ds : list ditem) (r : bool) : Prop :=
    forall n A s d0, G n (chk_i m L (cf n) (A, d0) i) A s d0 tr ds r.
  Definition Pl (k : list instr) (tr : list ev) (ds : list ditem) (r : bool) : Prop :=
    forall n A s d0, G n (chk_l m L (cf n) (A, d0) k) A s d0 tr ds r.
  Definition Pb (body : list instr) (tr : list ev) : Prop :=
    forall n s E, finish m L (cf n) (chk_l m L (cf n) ([s], []) body) = Some E ->
      exists se, run s tr = Some se /\ In se E.
  Definition Pd (ds : list ditem) (tr : list ev) : Prop :=
    forall n A s E, In s A -> run_defers m L (cf n) ds A = Some E -> exists se, run s tr = Some se /\ In se E.

  Lemma cf_body : forall n f s E body,
    cf n f s = Some E -> lookup_body p f = Some body ->
    exists n', n = S n' /\ finish m L (cf n') (chk_l m L (cf n') ([s], []) body) = Some E.
  Proof.
    intros n f s E body H Hl. destruct n as [|n']; [discriminate|].
    cbn [callf] in H. rewrite Hl in H. exists n'. split; [reflexivity|exact H].
  Qed.

  (* an accepted loop: the invariant set found *)
  Lemma loop_inv_spec : forall bc ds k I0 e f,
    loop_inv bc ds k I0 = CR e f ->
    exists I fb, incl I0 I /\ f = Some (I, ds) /\ bc I = CR e fb /\
      (fb = None \/ exists A', fb = Some (A', ds) /\ incl A' I).
  Proof.
    induction k as [|k IH]; intros I0 e f H; cbn [loop_inv] in H;
      destruct (bc I0) as [|e1 [[A' ds']|]] eqn:Eb; try discriminate.
    - destruct (deq ds ds') eqn:Ed; [|discriminate]. apply deq_eq in Ed. subst ds'.
      destruct (s_subset A' I0) eqn:Es; [|discriminate]. inversion H; subst.
      exists I0, (Some (A', ds)). split; [apply incl_refl|]. split; [reflexivity|]. split; [exact Eb|].
      right. exists A'. split; [reflexivity|apply s_subset_incl; exact Es].
    - inversion H; subst. exists I0, None. split; [apply incl_refl|]. split; [reflexivity|]. split; [exact Eb|left; reflexivity].
    - destruct (deq ds ds') eqn:Ed; [|discriminate]. apply deq_eq in Ed. subst ds'.
      destruct (s_subset A' I0) eqn:Es.
      + inversion H; subst.
        exists I0, (Some (A', ds)). split; [apply incl_refl|]. split; [reflexivity|]. split; [exact Eb|].
        right. exists A'. split; [reflexivity|apply s_subset_incl; exact Es].
      + destruct (IH (I0 ++ A') e f H) as (I & fb & Hi & Hf & Hb & Hs).
        exists I, fb. split; [intros x Hx; apply Hi, in_or_app; left; exact Hx|]. split; [exact Hf|]. split; [exact Hb|exact Hs].
    - inversion H; subst. exists I0, None. split; [apply incl_refl|]. split; [reflexivity|]. split; [exact Eb|left; reflexivity].
  Qed.

  Lemma incl_subset : forall A B : sset, incl A B -> s_subset A B = true.
  Proof.
    intros A B H. unfold s_subset. apply forallb_forall. intros s Hs. unfold s_mem. apply existsb_exists.
    exists s. split; [apply H; exact Hs|]. unfold rst_eqb. rewrite eqb_reflx, Nat.eqb_refl. reflexivity.
  Qed.

  (* ... and started from the invariant set itself the loop is accepted with the same answer *)
  Lemma loop_inv_stable : forall bc ds k I e fb,
    bc I = CR e fb -> (fb = None \/ exists A', fb = Some (A', ds) /\ incl A' I) ->
    loop_inv bc ds k I = CR e (Some (I, ds)).
  Proof.
    intros bc ds k I e fb Hb Hs. destruct k; cbn [loop_inv]; rewrite Hb.
    - destruct Hs as [->|(A' & -> & Hi)]; [reflexivity|]. rewrite deq_refl, (incl_subset _ _ Hi). reflexivity.
    - destruct Hs as [->|(A' & -> & Hi)]; [reflexivity|]. rewrite deq_refl, (incl_subset _ _ Hi). reflexivity.
  Qed.

  Ltac ev_case H Hin :=
    unfold ev1 in H; cbn [fst snd] in H;
    match type of H with
    | match s_map ?f ?A with _ => _ end = _ =>
        let E := fresh "E" in let A1 := fresh "A1" in
        destruct (s_map f A) as [A1|] eqn:E; [|discriminate];
        inversion H; subst;
        let s1 := fresh "s1" in let E1 := fresh "E1" in let I1 := fresh "I1" in
        destruct (s_map_in _ _ _ _ E Hin) as (s1 & E1 & I1);
        exists s1; split; [cbn [ev_run]; rewrite E1; reflexivity|exists A1; split; [reflexivity|exact I1]]
    end.

  Ltac skip_case H Hin := inversion H; subst; eexists; split; [reflexivity|eexists; split; [reflexivity|exact Hin]].

  Lemma paths_sound :
    (forall i tr ds r, ipath p i tr ds r -> Pi i tr ds r) /\
    (forall k tr ds r, lpath p k tr ds r -> Pl k tr ds r) /\
    (forall body tr, bpath p body tr -> Pb body tr) /\
    (forall ds tr, dpath p ds tr -> Pd ds tr).
  Proof.
    apply (paths_mutind p
             (fun i tr ds r _ => Pi i tr ds r) (fun k tr ds r _ => Pl k tr ds r)
             (fun body tr _ => Pb body tr) (fun ds tr _ => Pd ds tr));
      unfold Pi, Pl, Pb, Pd, G.
    - (* lock *) intros m0 n A s d0 Hin e f H. rewrite chk_i_eq in H. cbn [chk1] in H. ev_case H Hin.
    - (* unlock *) intros m0 n A s d0 Hin e f H. rewrite chk_i_eq in H. cbn [chk1] in H. ev_case H Hin.
    - (* defer unlock *) intros m0 n A s d0 Hin e f H. rewrite chk_i_eq in H. cbn [chk1 fst snd] in H. skip_case H Hin.
    - (* defer call *) intros f0 n A s d0 Hin e f H. rewrite chk_i_eq in H. cbn [chk1 fst snd] in H. skip_case H Hin.
    - (* read *) intros l n A s d0 Hin e f H. rewrite chk_i_eq in H. cbn [chk1] in H. ev_case H Hin.
    - (* write *) intros l n A s d0 Hin e f H. rewrite chk_i_eq in H. cbn [chk1] in H. ev_case H Hin.
    - (* go *) intros b n A s d0 Hin e f H. rewrite chk_i_eq in H. cbn [chk1] in H.
      destruct (go_clean (watched L) b); [|discriminate]. skip_case H Hin.
    - (* chan *) intros o c n A s d0 Hin e f H. rewrite chk_i_eq in H. cbn [chk1] in H. skip_case H Hin.
    - (* wait *) intros w n A s d0 Hin e f H. rewrite chk_i_eq in H. cbn [chk1] in H. skip_case H Hin.
    - (* ext *) intros f0 n A s d0 Hin e f H. rewrite chk_i_eq in H. cbn [chk1] in H. skip_case H Hin.
    - (* call *) intros f0 body tr Hl _ IH n A s d0 Hin e f H. rewrite chk_i_eq in H. cbn [chk1 fst snd] in H.
      destruct (s_bind (cf n f0) A) as [A1|] eqn:E; [|discriminate].
      destruct (s_bind_in _ _ _ _ E Hin) as (B & Ec & Hi).
      destruct (cf_body _ _ _ _ _ Ec Hl) as (n' & -> & Hf).
      destruct (IH n' s B Hf) as (se & Hr & Hse).
      inversion H; subst. exists se. split; [exact Hr|]. exists A1. split; [reflexivity|apply Hi; exact Hse].
    - (* return *) intros n A s d0 Hin e f H. rewrite chk_i_eq in H. cbn [chk1 fst snd] in H.
      destruct (run_defers m L (cf n) d0 A) as [E1|] eqn:E; [|discriminate].
      inversion H; subst. exists s. split; [reflexivity|]. exists A, e. split; [exact Hin|]. split; [exact E|apply incl_refl].
    - (* if, left *) intros a b tr ds r _ IH n A s d0 Hin e f H. rewrite chk_i_eq in H. cbn [chk1] in H.
      unfold cjoin in H.
      destruct (chk_l m L (cf n) (A, d0) a) as [|e1 f1] eqn:Ea; [discriminate|].
      destruct (chk_l m L (cf n) (A, d0) b) as [|e2 f2] eqn:Eb; [discriminate|].
      destruct (fjoin f1 f2) as [f'|] eqn:Mf; [|discriminate].
      inversion H; subst e f'.
      destruct (IH n A s d0 Hin e1 f1 Ea) as (s' & Hr & Hx). exists s'. split; [exact Hr|].
      destruct r.
      + destruct Hx as (As & E & I1 & Hd & Hi). exists As, E. split; [exact I1|]. split; [exact Hd|].
        apply incl_appl. exact Hi.
      + destruct Hx as (A' & -> & I1). unfold fjoin in Mf. destruct f2 as [[A2 d2]|].
        * destruct (deq (ds ++ d0) d2); [|discriminate]. inversion Mf; subst.
          exists (A' ++ A2). split; [reflexivity|apply in_or_app; left; exact I1].
        * inversion Mf; subst. exists A'. split; [reflexivity|exact I1].
    - (* if, right *) intros a b tr ds r _ IH n A s d0 Hin e f H. rewrite chk_i_eq in H. cbn [chk1] in H.
      unfold cjoin in H.
      destruct (chk_l m L (cf n) (A, d0) a) as [|e1 f1] eqn:Ea; [discriminate|].
      destruct (chk_l m L (cf n) (A, d0) b) as [|e2 f2] eqn:Eb; [discriminate|].
      destruct (fjoin f1 f2) as [f'|] eqn:Mf; [|discriminate].
      inversion H; subst e f'.
      destruct (IH n A s d0 Hin e2 f2 Eb) as (s' & Hr & Hx). exists s'. split; [exact Hr|].
      destruct r.
      + destruct Hx as (As & E & I1 & Hd & Hi). exists As, E. split; [exact I1|]. split; [exact Hd|].
        apply incl_appr. exact Hi.
      + destruct Hx as (A' & -> & I1). unfold fjoin in Mf. destruct f1 as [[A1 d1]|].
        * destruct (deq d1 (ds ++ d0)) eqn:Ed; [|discriminate]. apply deq_eq in Ed. inversion Mf; subst.
          exists (A1 ++ A'). split; [reflexivity|apply in_or_app; right; exact I1].
        * inversion Mf; subst. exists A'. split; [reflexivity|exact I1].
    - (* loop exit *) intros b n A s d0 Hin e f H. rewrite chk_i_eq in H. cbn [chk1 fst snd] in H.
      destruct (loop_inv_spec _ _ _ _ _ _ H) as (I & fb & Hi & -> & _ & _).
      exists s. split; [reflexivity|]. exists I. split; [reflexivity|apply Hi; exact Hin].
    - (* loop iteration *) intros b tr1 ds1 tr2 ds2 r _ IH1 _ IH2 n A s d0 Hin e f H.
      rewrite chk_i_eq in H. cbn [chk1 fst snd] in H.
      destruct (loop_inv_spec _ _ _ _ _ _ H) as (I & fb & Hi & -> & Hb & Hs).
      destruct (IH1 n I s d0 (Hi s Hin) e fb Hb) as (s1 & Hr1 & A' & Hf1 & I1).
      destruct Hs as [->|(A'' & -> & Hi2)]; [discriminate|].
      inversion Hf1 as [[HA Hd]]. subst A''. symmetry in Hd. apply app_self_nil in Hd. subst ds1.
      assert (Hst : chk_i m L (cf n) (I, d0) (ILoop b) = CR e (Some (I, d0))).
      { rewrite chk_i_eq. cbn [chk1 fst snd].
        apply (loop_inv_stable _ d0 loop_rounds I e (Some (A', d0)) Hb).
        right. exists A'. split; [reflexivity|exact Hi2]. }
      destruct (IH2 n I s1 d0 (Hi2 s1 I1) e (Some (I, d0)) Hst) as (s2 & Hr2 & Hx2).
      exists s2. split; [rewrite run_app, Hr1; exact Hr2|]. rewrite app_nil_r. exact Hx2.
    - (* loop, returning iteration *) intros b tr ds _ IH n A s d0 Hin e f H.
      rewrite chk_i_eq in H. cbn [chk1 fst snd] in H.
      destruct (loop_inv_spec _ _ _ _ _ _ H) as (I & fb & Hi & -> & Hb & Hs).
      exact (IH n I s d0 (Hi s Hin) e fb Hb).
    - (* nil *) intros n A s d0 Hin e f H. cbn [chk_l] in H. inversion H; subst.
      exists s. split; [reflexivity|]. exists A. split; [reflexivity|exact Hin].
    - (* cons, head returns *) intros i k tr ds _ IH n A s d0 Hin e f H. cbn [chk_l] in H. unfold cseq in H.
      destruct (chk_i m L (cf n) (A, d0) i) as [|e1 f1] eqn:Ei; [discriminate|].
      destruct (IH n A s d0 Hin e1 f1 Ei) as (s1 & Hr1 & As & E & I1 & Hd & Hie).
      exists s1. split; [exact Hr1|]. exists As, E. split; [exact I1|]. split; [exact Hd|].
      destruct f1 as [a'|].
      + destruct (chk_l m L (cf n) a' k) as [|e2 f2]; [discriminate|].
        inversion H; subst. apply incl_appl. exact Hie.
      + inversion H; subst. exact Hie.
    - (* cons, sequence *) intros i k tr1 ds1 tr2 ds2 r _ IH1 _ IH2 n A s d0 Hin e f H. cbn [chk_l] in H. unfold cseq in H.
      destruct (chk_i m L (cf n) (A, d0) i) as [|e1 f1] eqn:Ei; [discriminate|].
      destruct (IH1 n A s d0 Hin e1 f1 Ei) as (s1 & Hr1 & A1 & -> & I1).
      destruct (chk_l m L (cf n) (A1, ds1 ++ d0) k) as [|e2 f2] eqn:Ek; [discriminate|].
      inversion H; subst e f2.
      destruct (IH2 n A1 s1 (ds1 ++ d0) I1 e2 f Ek) as (s2 & Hr2 & Hx2).
      exists s2. split; [rewrite run_app, Hr1; exact Hr2|].
      rewrite <- app_assoc. destruct r.
      + destruct Hx2 as (As & E & I2 & Hd & Hie). exists As, E. split; [exact I2|]. split; [exact Hd|].
        apply incl_appr. exact Hie.
      + exact Hx2.
    - (* body *) intros body tr ds r dtr _ IHl _ IHd n s E H.
      unfold finish in H.
      destruct (chk_l m L (cf n) ([s], []) body) as [|e1 f1] eqn:Eb; [discriminate|].
      destruct (IHl n [s] s [] (or_introl eq_refl) e1 f1 Eb) as (s1 & Hr1 & Hx). rewrite app_nil_r in Hx.
      rewrite run_app, Hr1. destruct r.
      + destruct Hx as (As & E1 & I1 & Hd & Hie).
        destruct (IHd n As s1 E1 I1 Hd) as (se & Hrd & Hse). exists se. split; [exact Hrd|].
        destruct f1 as [a'|].
        * destruct (run_defers m L (cf n) (snd a') (fst a')) as [E2|]; [|discriminate].
          inversion H; subst. apply in_or_app. left. apply Hie. exact Hse.
        * inversion H; subst. apply Hie. exact Hse.
      + destruct Hx as (A' & -> & I1). cbn [fst snd] in H.
        destruct (run_defers m L (cf n) ds A') as [E2|] eqn:Ed; [|discriminate].
        destruct (IHd n A' s1 E2 I1 Ed) as (se & Hrd & Hse). exists se. split; [exact Hrd|].
        inversion H; subst. apply in_or_app. right. exact Hse.
    - (* no deferred item *) intros n A s E Hin H. cbn in H. inversion H; subst. exists s. split; [reflexivity|exact Hin].
    - (* deferred unlock *) intros m0 ds tr _ IH n A s E Hin H. cbn [run_defers] in H.
      destruct (s_map (fun s0 => ev_step m L s0 (EUnlock m0)) A) as [A1|] eqn:Em; [|discriminate].
      destruct (s_map_in _ _ _ _ Em Hin) as (s1 & E1 & I1).
      cbn [ev_run]. rewrite E1. exact (IH n A1 s1 E I1 H).
    - (* deferred call *) intros f0 body ds tr1 tr2 Hl _ IHb _ IHd n A s E Hin H. cbn [run_defers] in H.
      destruct (s_bind (cf n f0) A) as [A1|] eqn:Eb; [|discriminate].
      destruct (s_bind_in _ _ _ _ Eb Hin) as (B & Ec & Hi).
      destruct (cf_body _ _ _ _ _ Ec Hl) as (n' & -> & Hf).
      destruct (IHb n' s B Hf) as (s1 & Hr1 & Hs1).
      destruct (IHd (S n') A1 s1 E (Hi s1 Hs1) H) as (se & Hr2 & Hse).
      exists se. split; [rewrite run_app, Hr1; exact Hr2|exact Hse].
  Qed.

  (* The reflective theorem: a method accepted by the decidable check runs, on every complete
     control-flow path, with all its watched accesses inside the critical section opened by its first
     Lock of m, and returns with m released. *)
  Theorem atomic_sound : forall fuel f body tr,
    atomic_body_ok p m L fuel f = true ->
    lookup_body p f = Some body -> bpath p body tr ->
    tr_atomic m L tr /\ exists s, ev_run m L (mkR false 0) tr = Some s /\ r_held s = false.
  Proof.
    intros fuel f body tr H Hl Hp. unfold atomic_body_ok in H.
    destruct (cf fuel f (mkR false 0)) as [E|] eqn:Ec; [|discriminate].
    destruct (cf_body _ _ _ _ _ Ec Hl) as (n' & -> & Hf).
    destruct (proj1 (proj2 (proj2 paths_sound)) body tr Hp n' _ _ Hf) as (se & Hr & Hse).
    split.
    - unfold tr_atomic. rewrite Hr. discriminate.
    - exists se. split; [exact Hr|]. rewrite forallb_forall in H. specialize (H se Hse).
      destruct (r_held se); [discriminate|reflexivity].
  Qed.

  (* what [tr_atomic] says, spelled out: split a trace at any watched access; in front of it there is
     exactly one Lock of m, and m is held (the last Lock/Unlock of m in front of it is that Lock) *)
  Lemma run_counts : forall tr s s', run s tr = Some s' ->
    r_locks s' = r_locks s + List.length (filter (is_lock m) tr) /\
    r_held s' = held_after m (r_held s) tr.
  Proof.
    induction tr as [|e tr IH]; intros s s' H.
    - inversion H; subst. cbn. split; [lia|reflexivity].
    - cbn [ev_run] in H. destruct (ev_step m L s e) as [s1|] eqn:E; [|discriminate].
      destruct (IH s1 s' H) as [A B]. cbn [filter held_after].
      destruct e as [m'|m'|l w]; cbn [ev_step is_lock is_unlock] in *.
      + destruct (String.eqb m' m); inversion E; subst; cbn [r_locks r_held List.length] in *; split; try lia; exact B.
      + destruct (String.eqb m' m); inversion E; subst; cbn [r_locks r_held List.length] in *; split; try lia; exact B.
      + destruct (watched L l); [destruct (r_held s && Nat.eqb (r_locks s) 1); [|discriminate]|];
          inversion E; subst; split; try lia; exact B.
  Qed.

  Theorem tr_atomic_spelled_out : forall tr pre l w post,
    tr_atomic m L tr -> tr = pre ++ EAcc l w :: post -> watched L l = true ->
    List.length (filter (is_lock m) pre) = 1 /\ held_after m false pre = true.
  Proof.
    intros tr pre l w post H -> Hw. unfold tr_atomic in H. rewrite run_app in H.
    destruct (run (mkR false 0) pre) as [s1|] eqn:E; [|contradiction].
    destruct (run_counts _ _ _ E) as [A B]. cbn [r_locks r_held] in A, B.
    cbn [ev_run ev_step] in H. rewrite Hw in H.
    destruct (r_held s1 && Nat.eqb (r_locks s1) 1) eqn:C; [|contradiction].
    apply andb_true_iff in C. destruct C as [C1 C2]. apply Nat.eqb_eq in C2.
    split; [lia|rewrite <- B; exact C1].
  Qed.
End Sound.
