(* C17 — a reflective path finder over the translated structure.

   Question answered: does the body of method f (calls expanded, deferred items run — the path
   semantics [bpath] of Conc/Atomic.v) have, for EVERY word of a given pattern, a complete
   control-flow path whose trace, projected onto the events that concern one mutex and a set of
   watched locations ([relevant]), is that word?  A pattern is a sequence of single events and
   starred sets of words:   Lock (w1 | w2 | ...)* e1 e2 Unlock.
   [covers p m L fuel f pat = true] decides it (sufficient condition) by walking the code with the
   remaining pattern, exploring both branches of every `if`, inlining calls, and matching a starred
   item against a loop each of whose words is consumed by one iteration.  [covers_sound] is the
   reflective theorem.  The point of deciding this by computation instead of constructing the
   paths by hand: a behaviour-preserving refactor of the source (explicit Unlock instead of defer,
   an early return in front of the Lock, the loop moved into a helper, `continue`) changes the
   translated body but not the answer. *)
From Coq Require Import List String Bool Arith Lia.
From FFS Require Import Conc.Lockset Conc.Atomic.
Import ListNotations.
Open Scope list_scope.

Definition ev_eq_dec : forall x y : ev, {x = y} + {x <> y}.
Proof. decide equality; try apply string_dec; try apply Bool.bool_dec; apply (list_eq_dec string_dec). Defined.

Section Relevant.
  Variable m : mutex.
  Variable L : list loc.

  Definition relevant (e : ev) : bool :=
    match e with
    | ELock m' => String.eqb m' m
    | EUnlock m' => String.eqb m' m
    | EAcc l _ => watched L l
    end.

  Lemma ev_run_filter : forall tr s, ev_run m L s (filter relevant tr) = ev_run m L s tr.
  Proof.
    induction tr as [|e tr IH]; intros s; [reflexivity|]. cbn [filter].
    destruct (relevant e) eqn:R.
    - cbn [ev_run]. destruct (ev_step m L s e); [apply IH|reflexivity].
    - cbn [ev_run]. rewrite IH.
      assert (ev_step m L s e = Some s) as ->; [|reflexivity].
      destruct e as [m'|m'|l w]; cbn [relevant ev_step] in *; rewrite R; reflexivity.
  Qed.
End Relevant.

(* [sub_acc w t]: w is t with some READ events left out (all Lock / Unlock events and all WRITES
   kept: a write the source makes and the word does not contain is a mismatch — referee issue I3).
   The automaton of Atomic.v accepts w whenever it accepts t: an access does not change its state. *)
Inductive sub_acc : list ev -> list ev -> Prop :=
| SA_nil : sub_acc [] []
| SA_keep : forall e w t, sub_acc w t -> sub_acc (e :: w) (e :: t)
| SA_skip : forall l w t, sub_acc w t -> sub_acc w (EAcc l false :: t).

Lemma sub_acc_refl : forall t, sub_acc t t.
Proof. induction t; constructor; auto. Qed.

Lemma sub_acc_app : forall w1 t1 w2 t2, sub_acc w1 t1 -> sub_acc w2 t2 -> sub_acc (w1 ++ w2) (t1 ++ t2).
Proof. induction 1; intros H2; cbn [app]; try constructor; auto. Qed.

Lemma ev_run_sub : forall m L w t, sub_acc w t -> forall s, ev_run m L s t <> None -> ev_run m L s w <> None.
Proof.
  induction 1 as [|e w t H IH|l w t H IH]; intros s Hr.
  - exact Hr.
  - cbn [ev_run] in *. destruct (ev_step m L s e); [apply IH; exact Hr|exact Hr].
  - cbn [ev_run ev_step] in Hr. apply IH.
    destruct (watched L l); [|exact Hr].
    destruct (r_held s && Nat.eqb (r_locks s) 1); [exact Hr|congruence].
Qed.

(* ---------------------------------------------------------------------------------------------- *)
(* patterns *)
Inductive pitem := PEv (e : ev) | PStar (alts : list (list ev)).
Definition pat := list pitem.

Inductive pmatch : pat -> list ev -> Prop :=
| PM_nil : pmatch [] []
| PM_ev : forall e c w, pmatch c w -> pmatch (PEv e :: c) (e :: w)
| PM_done : forall alts c w, pmatch c w -> pmatch (PStar alts :: c) w
| PM_iter : forall alts c a w, In a alts -> pmatch (PStar alts :: c) w -> pmatch (PStar alts :: c) (a ++ w).

Lemma pmatch_nil_inv : forall w, pmatch [] w -> w = [].
Proof. intros w H. inversion H; reflexivity. Qed.

Lemma pmatch_ev_inv : forall e c w, pmatch (PEv e :: c) w -> exists w', w = e :: w' /\ pmatch c w'.
Proof. intros e c w H. inversion H; subst. eauto. Qed.

Lemma pmatch_word : forall w, pmatch (map PEv w) w.
Proof. induction w; cbn; constructor; auto. Qed.

Lemma pmatch_split : forall c w, pmatch c w -> forall c1 c2, c = c1 ++ c2 ->
  exists w1 w2, w = w1 ++ w2 /\ pmatch c1 w1 /\ pmatch c2 w2.
Proof.
  induction 1 as [|e c w H IH|alts c w H IH|alts c a w Ha H IH]; intros c1 c2 E.
  - destruct c1; [|discriminate]. cbn in E. subst. exists [], []. repeat split; constructor.
  - destruct c1 as [|x c1]; cbn in E.
    + subst c2. exists [], (e :: w). repeat split; constructor; auto.
    + injection E as <- E. destruct (IH _ _ E) as (w1 & w2 & -> & H1 & H2).
      exists (e :: w1), w2. repeat split; auto. constructor; auto.
  - destruct c1 as [|x c1]; cbn in E.
    + subst c2. exists [], w. repeat split; constructor; auto.
    + injection E as <- E. destruct (IH _ _ E) as (w1 & w2 & -> & H1 & H2).
      exists w1, w2. repeat split; auto. constructor; auto.
  - destruct c1 as [|x c1]; cbn in E.
    + subst c2. exists [], (a ++ w). split; [reflexivity|]. split; [constructor|]. apply PM_iter; auto.
    + destruct (IH (x :: c1) c2 E) as (w1 & w2 & -> & H1 & H2).
      injection E as <- E.
      exists (a ++ w1), w2. rewrite app_assoc. split; [reflexivity|]. split; [apply PM_iter; auto|exact H2].
  Qed.

(* ---------------------------------------------------------------------------------------------- *)
(* nested induction over instructions *)
Section InstrInd.
  Variable Pi : instr -> Prop.
  Variable Pl : list instr -> Prop.
  Hypothesis Hnil : Pl [].
  Hypothesis Hcons : forall i k, Pi i -> Pl k -> Pl (i :: k).
  Hypothesis Hlock : forall m, Pi (ILock m).
  Hypothesis Hunlock : forall m, Pi (IUnlock m).
  Hypothesis Hdefu : forall m, Pi (IDeferUnlock m).
  Hypothesis Hdefc : forall f, Pi (IDeferCall f).
  Hypothesis Hread : forall l, Pi (IRead l).
  Hypothesis Hwrite : forall l, Pi (IWrite l).
  Hypothesis Hgo : forall b, Pi (IGo b).
  Hypothesis Hchan : forall o c, Pi (IChan o c).
  Hypothesis Hwait : forall w, Pi (IWait w).
  Hypothesis Hcall : forall f, Pi (ICall f).
  Hypothesis Hext : forall f, Pi (IExt f).
  Hypothesis Hif : forall a b, Pl a -> Pl b -> Pi (IIf a b).
  Hypothesis Hloop : forall b, Pl b -> Pi (ILoop b).
  Hypothesis Hret : Pi IReturn.

  Fixpoint instr_nind (i : instr) : Pi i :=
    let lind := fix lind (l : list instr) : Pl l :=
      match l with [] => Hnil | x :: t => Hcons x t (instr_nind x) (lind t) end in
    match i with
    | ILock m => Hlock m
    | IUnlock m => Hunlock m
    | IDeferUnlock m => Hdefu m
    | IDeferCall f => Hdefc f
    | IRead l => Hread l
    | IWrite l => Hwrite l
    | IGo b => Hgo b
    | IChan o c => Hchan o c
    | IWait w => Hwait w
    | ICall f => Hcall f
    | IExt f => Hext f
    | IIf a b => Hif a b (lind a) (lind b)
    | ILoop b => Hloop b (lind b)
    | IReturn => Hret
    end.

  Fixpoint list_nind (l : list instr) : Pl l :=
    match l with [] => Hnil | x :: t => Hcons x t (instr_nind x) (list_nind t) end.
End InstrInd.

(* ---------------------------------------------------------------------------------------------- *)
Definition out := (pat * bool * list ditem)%type.   (* remaining pattern, returned?, deferred items *)

Definition is_done (o : out) : bool :=
  match o with ([], false, []) => true | _ => false end.

Section Finder.
  Variable p : prog.
  Variable m : mutex.
  Variable L : list loc.
  Notation rel := (relevant m L).

  (* consume the event e; a READ the pattern does not ask for may be passed over (never a write) *)
  Definition eat (e : ev) (pt : pat) : list pat :=
    if rel e then
      match pt with
      | PEv e' :: r => if ev_eq_dec e e' then [r] else []
      | _ => []
      end ++
      match e with EAcc _ false => [pt] | _ => [] end
    else [pt].

  Definition plain (qs : list pat) : list out := map (fun q => (q, false, [])) qs.

  Definition seq_out (o1 : list out) (k : pat -> list out) : list out :=
    flat_map (fun o : out =>
      let '(p1, r1, d1) := o in
      if r1 then [(p1, true, d1)]
      else map (fun o2 : out => let '(p2, r2, d2) := o2 in (p2, r2, d2 ++ d1)) (k p1)) o1.

  Section Body.
    Variable callf : string -> pat -> list pat.

    Definition loop_out (ml : list instr -> pat -> list out) (b : list instr) (pt : pat) : list out :=
      (pt, false, []) ::
      match pt with
      | PStar alts :: rest =>
          if forallb (fun w => existsb is_done (ml b (map PEv w))) alts then [(rest, false, [])] else []
      | _ => []
      end.

    Definition mt1 (ml : list instr -> pat -> list out) (i : instr) (pt : pat) : list out :=
      match i with
      | ILock m' => plain (eat (ELock m') pt)
      | IUnlock m' => plain (eat (EUnlock m') pt)
      | IDeferUnlock m' => [(pt, false, [DUnlock m'])]
      | IDeferCall f => [(pt, false, [DCall f])]
      | IRead l => plain (eat (EAcc l false) pt)
      | IWrite l => plain (eat (EAcc l true) pt)
      | IGo _ => [(pt, false, [])]
      | IChan _ _ => [(pt, false, [])]
      | IWait _ => [(pt, false, [])]
      | IExt _ => [(pt, false, [])]
      | ICall f => plain (callf f pt)
      | IIf a b => ml a pt ++ ml b pt
      | ILoop b => loop_out ml b pt
      | IReturn => [(pt, true, [])]
      end.

    Fixpoint mt_i (i : instr) (pt : pat) {struct i} : list out :=
      let ml := fix mt_l (code : list instr) (pt : pat) {struct code} : list out :=
        match code with
        | [] => [(pt, false, [])]
        | i :: k => seq_out (mt_i i pt) (mt_l k)
        end in
      match i with
      | ILock m' => plain (eat (ELock m') pt)
      | IUnlock m' => plain (eat (EUnlock m') pt)
      | IDeferUnlock m' => [(pt, false, [DUnlock m'])]
      | IDeferCall f => [(pt, false, [DCall f])]
      | IRead l => plain (eat (EAcc l false) pt)
      | IWrite l => plain (eat (EAcc l true) pt)
      | IGo _ => [(pt, false, [])]
      | IChan _ _ => [(pt, false, [])]
      | IWait _ => [(pt, false, [])]
      | IExt _ => [(pt, false, [])]
      | ICall f => plain (callf f pt)
      | IIf a b => ml a pt ++ ml b pt
      | ILoop b => loop_out ml b pt
      | IReturn => [(pt, true, [])]
      end.

    Fixpoint mt_l (code : list instr) (pt : pat) {struct code} : list out :=
      match code with
      | [] => [(pt, false, [])]
      | i :: k => seq_out (mt_i i pt) (mt_l k)
      end.

    Lemma mt_i_eq : forall i pt, mt_i i pt = mt1 mt_l i pt.
    Proof. intros i pt. destruct i; reflexivity. Qed.

    Fixpoint run_ds (ds : list ditem) (pt : pat) : list pat :=
      match ds with
      | [] => [pt]
      | DUnlock m' :: t => flat_map (run_ds t) (eat (EUnlock m') pt)
      | DCall f :: t => flat_map (run_ds t) (callf f pt)
      end.

    Definition finish (outs : list out) : list pat :=
      flat_map (fun o : out => let '(q, _, ds) := o in run_ds ds q) outs.
  End Body.

  Fixpoint callf (fuel : nat) (f : string) (pt : pat) : list pat :=
    match fuel with
    | O => []
    | S n => match lookup_body p f with
             | Some body => finish (callf n) (mt_l (callf n) body pt)
             | None => []
             end
    end.

  Definition covers (fuel : nat) (f : string) (pt : pat) : bool :=
    existsb (fun q => match q with [] => true | _ => false end) (callf fuel f pt).

  (* ------------------------------------------------------------------------------------------ *)
  (* soundness *)
  Definition good_call (cf : string -> pat -> list pat) : Prop :=
    forall f pt q, In q (cf f pt) ->
      exists c, pt = c ++ q /\
        forall w, pmatch c w -> exists body tr, lookup_body p f = Some body /\ bpath p body tr /\ sub_acc w (filter rel tr).

  Lemma eat_sound : forall e pt q, In q (eat e pt) ->
    exists c, pt = c ++ q /\ forall w, pmatch c w -> sub_acc w (filter rel [e]).
  Proof.
    intros e pt q H. unfold eat in H. cbn [filter]. destruct (rel e) eqn:R.
    - apply in_app_iff in H. destruct H as [H|H].
      + destruct pt as [|[e'|alts] r]; try contradiction.
        destruct (ev_eq_dec e e') as [<-|]; [|contradiction]. destruct H as [<-|[]].
        exists [PEv e]. split; [reflexivity|]. intros w Hw.
        apply pmatch_ev_inv in Hw. destruct Hw as [w' [-> Hw]]. apply pmatch_nil_inv in Hw. subst w'.
        apply sub_acc_refl.
      + destruct e as [m'|m'|l [|]]; try contradiction. destruct H as [<-|[]].
        exists []. split; [reflexivity|]. intros w Hw. apply pmatch_nil_inv in Hw. subst w.
        constructor. constructor.
    - destruct H as [<-|[]]. exists []. split; [reflexivity|]. intros w Hw.
      apply pmatch_nil_inv in Hw. subst w. constructor.
  Qed.

  Section BodySound.
    Variable cf : string -> pat -> list pat.
    Hypothesis Hcf : good_call cf.

    Definition Pi (i : instr) : Prop :=
      forall pt q r ds, In (q, r, ds) (mt_i cf i pt) ->
        exists c, pt = c ++ q /\ forall w, pmatch c w -> exists tr, ipath p i tr ds r /\ sub_acc w (filter rel tr).
    Definition Pl (code : list instr) : Prop :=
      forall pt q r ds, In (q, r, ds) (mt_l cf code pt) ->
        exists c, pt = c ++ q /\ forall w, pmatch c w -> exists tr, lpath p code tr ds r /\ sub_acc w (filter rel tr).

    Lemma plain_in : forall qs q r ds, In (q, r, ds) (plain qs) -> In q qs /\ r = false /\ ds = [].
    Proof.
      intros qs q r ds H. unfold plain in H. apply in_map_iff in H. destruct H as [q' [E H]].
      inversion E; subst. auto.
    Qed.

    Lemma eps_case : forall i pt q r ds, In (q, r, ds) [(pt, false, [])] ->
      ipath p i [] [] false ->
      exists c, pt = c ++ q /\ forall w, pmatch c w -> exists tr, ipath p i tr ds r /\ sub_acc w (filter rel tr).
    Proof.
      intros i pt q r ds [E|[]] Hp. inversion E; subst. exists []. split; [reflexivity|].
      intros w Hw. inversion Hw; subst. exists []. split; [exact Hp|constructor].
    Qed.

    Lemma ev_case : forall i e pt q r ds, In (q, r, ds) (plain (eat e pt)) ->
      ipath p i [e] [] false ->
      exists c, pt = c ++ q /\ forall w, pmatch c w -> exists tr, ipath p i tr ds r /\ sub_acc w (filter rel tr).
    Proof.
      intros i e pt q r ds H Hp. apply plain_in in H. destruct H as [H [-> ->]].
      destruct (eat_sound _ _ _ H) as [c [E Hc]]. exists c. split; [exact E|].
      intros w Hw. exists [e]. split; [exact Hp|apply Hc; exact Hw].
    Qed.

    Lemma star_loop : forall b alts, Pl b ->
      forallb (fun w => existsb is_done (mt_l cf b (map PEv w))) alts = true ->
      forall c w, pmatch c w -> c = [PStar alts] ->
        exists tr, ipath p (ILoop b) tr [] false /\ sub_acc w (filter rel tr).
    Proof.
      intros b alts Hb Hall c w H.
      induction H as [|e c w H IH|alts' c w H IH|alts' c a w Ha H IH]; intros E; try discriminate.
      - injection E as -> ->. inversion H; subst. exists []. split; [constructor|constructor].
      - injection E as -> ->. destruct (IH eq_refl) as [tr2 [Hp2 Hf2]].
        rewrite forallb_forall in Hall. specialize (Hall a Ha). apply existsb_exists in Hall.
        destruct Hall as [[[q r] ds] [Hin Hd]].
        destruct q; [|discriminate]. destruct r; [discriminate|]. destruct ds; [|discriminate].
        destruct (Hb _ _ _ _ Hin) as [c1 [E1 Hc1]]. rewrite app_nil_r in E1. subst c1.
        destruct (Hc1 a (pmatch_word a)) as [tr1 [Hp1 Hf1]].
        exists (tr1 ++ tr2). split.
        + change (@nil ditem) with (@nil ditem ++ []). eapply IP_loop_iter; eassumption.
        + rewrite filter_app. apply sub_acc_app; assumption.
    Qed.

    Lemma seq_sound : forall i k, Pi i -> Pl k -> Pl (i :: k).
    Proof.
      intros i k Hi Hk pt q r ds H. cbn [mt_l] in H. unfold seq_out in H.
      apply in_flat_map in H. destruct H as [[[p1 r1] d1] [H1 H2]].
      destruct (Hi _ _ _ _ H1) as [c1 [E1 Hc1]].
      destruct r1.
      - destruct H2 as [E|[]]. inversion E; subst. exists c1. split; [reflexivity|].
        intros w Hw. destruct (Hc1 w Hw) as [tr [Hp Hf]]. exists tr. split; [|exact Hf].
        apply LP_ret. exact Hp.
      - apply in_map_iff in H2. destruct H2 as [[[p2 r2] d2] [E H2]]. inversion E; subst.
        destruct (Hk _ _ _ _ H2) as [c2 [E2 Hc2]]. subst p1.
        exists (c1 ++ c2). split; [rewrite app_assoc; reflexivity|].
        intros w Hw. destruct (pmatch_split _ _ Hw c1 c2 eq_refl) as (w1 & w2 & -> & Hw1 & Hw2).
        destruct (Hc1 w1 Hw1) as [tr1 [Hp1 Hf1]]. destruct (Hc2 w2 Hw2) as [tr2 [Hp2 Hf2]].
        exists (tr1 ++ tr2). split; [|rewrite filter_app; apply sub_acc_app; assumption].
        apply LP_seq; assumption.
    Qed.

    Lemma body_sound : (forall i, Pi i) /\ (forall l, Pl l).
    Proof.
      assert (Hnil : Pl []).
      { intros pt q r ds [E|[]]. inversion E; subst. exists []. split; [reflexivity|].
        intros w Hw. inversion Hw; subst. exists []. split; [constructor|constructor]. }
      assert (HI : forall i, Pi i).
      { apply (instr_nind Pi Pl Hnil seq_sound); unfold Pi; intros; rewrite mt_i_eq in *; cbn [mt1] in *.
        - eapply ev_case; [eassumption|constructor].
        - eapply ev_case; [eassumption|constructor].
        - destruct H as [E|[]]. inversion E; subst. exists []. split; [reflexivity|].
          intros w Hw. inversion Hw; subst. exists []. split; [constructor|constructor].
        - destruct H as [E|[]]. inversion E; subst. exists []. split; [reflexivity|].
          intros w Hw. inversion Hw; subst. exists []. split; [constructor|constructor].
        - eapply ev_case; [eassumption|constructor].
        - eapply ev_case; [eassumption|constructor].
        - eapply eps_case; [eassumption|constructor].
        - eapply eps_case; [eassumption|constructor].
        - eapply eps_case; [eassumption|constructor].
        - (* call *)
          apply plain_in in H. destruct H as [H [-> ->]].
          destruct (Hcf _ _ _ H) as [c [E Hc]]. exists c. split; [exact E|].
          intros w Hw. destruct (Hc w Hw) as (body & tr & Hl & Hb & Hf).
          exists tr. split; [|exact Hf]. eapply IP_call; eassumption.
        - eapply eps_case; [eassumption|constructor].
        - (* if *)
          apply in_app_iff in H1. destruct H1 as [H1|H1].
          + destruct (H _ _ _ _ H1) as [c [E Hc]]. exists c. split; [exact E|].
            intros w Hw. destruct (Hc w Hw) as [tr [Hp Hf]]. exists tr. split; [|exact Hf]. apply IP_if_l; exact Hp.
          + destruct (H0 _ _ _ _ H1) as [c [E Hc]]. exists c. split; [exact E|].
            intros w Hw. destruct (Hc w Hw) as [tr [Hp Hf]]. exists tr. split; [|exact Hf]. apply IP_if_r; exact Hp.
        - (* loop *)
          unfold loop_out in H0. destruct H0 as [E|H0].
          + inversion E; subst. exists []. split; [reflexivity|].
            intros w Hw. inversion Hw; subst. exists []. split; [constructor|constructor].
          + destruct pt as [|[e|alts] rest]; try contradiction.
            destruct (forallb _ alts) eqn:Hall; [|contradiction].
            destruct H0 as [E|[]]. inversion E; subst.
            exists [PStar alts]. split; [reflexivity|].
            intros w Hw. exact (star_loop b alts H Hall _ _ Hw eq_refl).
        - destruct H as [E|[]]. inversion E; subst. exists []. split; [reflexivity|].
          intros w Hw. inversion Hw; subst. exists []. split; [constructor|constructor]. }
      split; [exact HI|]. intros l. induction l as [|i k IH]; [exact Hnil|]. apply seq_sound; auto.
    Qed.

    Lemma run_ds_sound : forall ds pt q, In q (run_ds cf ds pt) ->
      exists c, pt = c ++ q /\ forall w, pmatch c w -> exists tr, dpath p ds tr /\ sub_acc w (filter rel tr).
    Proof.
      induction ds as [|[m'|f] t IH]; intros pt q H; cbn [run_ds] in H.
      - destruct H as [<-|[]]. exists []. split; [reflexivity|].
        intros w Hw. inversion Hw; subst. exists []. split; [constructor|constructor].
      - apply in_flat_map in H. destruct H as [p1 [H1 H2]].
        destruct (eat_sound _ _ _ H1) as [c1 [E1 Hc1]]. destruct (IH _ _ H2) as [c2 [E2 Hc2]]. subst.
        exists (c1 ++ c2). split; [rewrite app_assoc; reflexivity|].
        intros w Hw. destruct (pmatch_split _ _ Hw c1 c2 eq_refl) as (w1 & w2 & -> & Hw1 & Hw2).
        destruct (Hc2 w2 Hw2) as [tr2 [Hp2 Hf2]].
        exists (EUnlock m' :: tr2). split; [constructor; exact Hp2|].
        change (EUnlock m' :: tr2) with ([EUnlock m'] ++ tr2). rewrite filter_app. apply sub_acc_app; [apply Hc1; exact Hw1|exact Hf2].
      - apply in_flat_map in H. destruct H as [p1 [H1 H2]].
        destruct (Hcf _ _ _ H1) as [c1 [E1 Hc1]]. destruct (IH _ _ H2) as [c2 [E2 Hc2]]. subst.
        exists (c1 ++ c2). split; [rewrite app_assoc; reflexivity|].
        intros w Hw. destruct (pmatch_split _ _ Hw c1 c2 eq_refl) as (w1 & w2 & -> & Hw1 & Hw2).
        destruct (Hc1 w1 Hw1) as (body & tr1 & Hl & Hb & Hf1). destruct (Hc2 w2 Hw2) as [tr2 [Hp2 Hf2]].
        exists (tr1 ++ tr2). split; [econstructor; eassumption|].
        rewrite filter_app. apply sub_acc_app; assumption.
    Qed.

    Lemma finish_sound : forall body pt q, In q (finish cf (mt_l cf body pt)) ->
      exists c, pt = c ++ q /\ forall w, pmatch c w -> exists tr, bpath p body tr /\ sub_acc w (filter rel tr).
    Proof.
      intros body pt q H. unfold finish in H. apply in_flat_map in H. destruct H as [[[p1 r1] d1] [H1 H2]].
      destruct (proj2 body_sound body _ _ _ _ H1) as [c1 [E1 Hc1]].
      destruct (run_ds_sound _ _ _ H2) as [c2 [E2 Hc2]]. subst.
      exists (c1 ++ c2). split; [rewrite app_assoc; reflexivity|].
      intros w Hw. destruct (pmatch_split _ _ Hw c1 c2 eq_refl) as (w1 & w2 & -> & Hw1 & Hw2).
      destruct (Hc1 w1 Hw1) as [tr1 [Hp1 Hf1]]. destruct (Hc2 w2 Hw2) as [tr2 [Hp2 Hf2]].
      exists (tr1 ++ tr2). split; [econstructor; eassumption|].
      rewrite filter_app. apply sub_acc_app; assumption.
    Qed.
  End BodySound.

  Lemma callf_good : forall fuel, good_call (callf fuel).
  Proof.
    induction fuel as [|n IH]; intros f pt q H; cbn [callf] in H; [contradiction|].
    destruct (lookup_body p f) as [body|] eqn:El; [|contradiction].
    destruct (finish_sound (callf n) IH body pt q H) as [c [E Hc]].
    exists c. split; [exact E|]. intros w Hw. destruct (Hc w Hw) as [tr [Hp Hf]].
    exists body, tr. auto.
  Qed.

  Theorem covers_sound : forall fuel f pt, covers fuel f pt = true ->
    forall w, pmatch pt w ->
      exists body tr, lookup_body p f = Some body /\ bpath p body tr /\ sub_acc w (filter rel tr).
  Proof.
    intros fuel f pt H w Hw. unfold covers in H. apply existsb_exists in H. destruct H as [q [Hin Hq]].
    destruct q; [|discriminate].
    destruct (callf_good fuel f pt [] Hin) as [c [E Hc]]. rewrite app_nil_r in E. subst c.
    exact (Hc w Hw).
  Qed.
End Finder.
