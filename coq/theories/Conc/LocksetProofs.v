(* C17 — soundness of the lockset checker of Conc/Lockset.v (see the header there). *)
From Coq Require Import List String Bool Arith Lia.
From FFS Require Import Conc.Lockset.
Import ListNotations.
Open Scope string_scope.

(* ---------------------------------------------------------------------------------------------- *)
(* boolean equalities *)

Lemma meq_eq : forall a b, meq a b = true -> a = b.
Proof.
  induction a as [|x a IH]; destruct b as [|y b]; simpl; intros H; try discriminate; auto.
  apply andb_true_iff in H. destruct H as [H1 H2]. apply String.eqb_eq in H1. subst. f_equal. auto.
Qed.
Lemma meq_refl : forall a, meq a a = true.
Proof. induction a; simpl; auto. rewrite String.eqb_refl. auto. Qed.

Lemma ditem_eqb_eq : forall x y, ditem_eqb x y = true -> x = y.
Proof. destruct x, y; simpl; intros H; try discriminate; apply String.eqb_eq in H; subst; auto. Qed.
Lemma deq_eq : forall a b, deq a b = true -> a = b.
Proof.
  induction a as [|x a IH]; destruct b as [|y b]; simpl; intros H; try discriminate; auto.
  apply andb_true_iff in H. destruct H as [H1 H2]. apply ditem_eqb_eq in H1. subst. f_equal. auto.
Qed.
Lemma ast_eqb_eq : forall x y, ast_eqb x y = true -> x = y.
Proof.
  intros [s1 e1 h1 d1] [s2 e2 h2 d2]. unfold ast_eqb. simpl. intros H.
  apply andb_true_iff in H. destruct H as [H Hd].
  apply andb_true_iff in H. destruct H as [H Hh].
  apply andb_true_iff in H. destruct H as [Hs He].
  apply Bool.eqb_prop in Hs. apply meq_eq in He. apply meq_eq in Hh. apply deq_eq in Hd. subst. reflexivity.
Qed.

Lemma deq_refl : forall a, deq a a = true.
Proof. induction a as [|[m|f] a IH]; simpl; auto; rewrite String.eqb_refl; auto. Qed.
Lemma ast_eqb_refl : forall a, ast_eqb a a = true.
Proof. intros [s e h d]. unfold ast_eqb. simpl. rewrite Bool.eqb_reflx, !meq_refl, deq_refl. reflexivity. Qed.

Lemma mem_remove_same : forall m h, mem m (remove_m m h) = false.
Proof.
  induction h as [|x h IH]; simpl; auto.
  destruct (String.eqb x m) eqn:E; simpl; auto. rewrite E. auto.
Qed.
Lemma mem_remove_other : forall m m' h, m <> m' -> mem m' (remove_m m h) = mem m' h.
Proof.
  induction h as [|x h IH]; simpl; intros Hne; auto.
  destruct (String.eqb x m) eqn:E.
  - apply String.eqb_eq in E. subst x.
    destruct (String.eqb m m') eqn:E2; [apply String.eqb_eq in E2; contradiction|]. simpl. auto.
  - simpl. rewrite IH; auto.
Qed.
Lemma remove_notin : forall m h, mem m h = false -> remove_m m h = h.
Proof.
  induction h as [|x h IH]; simpl; intros H; auto.
  apply orb_false_iff in H. destruct H as [H1 H2]. rewrite H1. f_equal. auto.
Qed.
Lemma mem_remove_true : forall m m' h, mem m' (remove_m m h) = true -> mem m' h = true.
Proof.
  intros m m' h H. destruct (string_dec m m') as [->|Hne].
  - rewrite mem_remove_same in H. discriminate.
  - rewrite mem_remove_other in H; auto.
Qed.

(* ---------------------------------------------------------------------------------------------- *)

Section Sound.
  Variable p : prog.
  Variable allowed : loc -> bool -> list mutex -> bool.
  Variable nb : bool.

  Notation CF := (callf p allowed nb).
  Notation CHK fuel := (chk_l allowed nb (callf p allowed nb fuel)).
  Notation GOOD fuel := (good (callf p allowed nb fuel)).

  Definition bindr (r : res) (K : ast -> res) : res :=
    match r with Falls a => K a | Exits => Exits | Fail => Fail end.

  Lemma chk_cons : forall cf a i k,
    chk_l allowed nb cf a (i :: k) = bindr (chk1 allowed nb cf (chk_l allowed nb cf) a i) (fun a' => chk_l allowed nb cf a' k).
  Proof. intros. rewrite chk_l_cons. destruct (chk1 allowed nb cf (chk_l allowed nb cf) a i); reflexivity. Qed.

  Lemma chk_app : forall cf x k a,
    chk_l allowed nb cf a (x ++ k) = bindr (chk_l allowed nb cf a x) (fun a' => chk_l allowed nb cf a' k).
  Proof.
    induction x as [|i x IH]; intros k a.
    - reflexivity.
    - rewrite <- app_comm_cons. rewrite !chk_cons.
      destruct (chk1 allowed nb cf (chk_l allowed nb cf) a i); simpl; auto.
  Qed.

  Lemma join_good_l : forall cf ra rb K,
    good cf (bindr (join ra rb) K) = true -> good cf (bindr ra K) = true.
  Proof.
    intros cf ra rb K. destruct ra, rb; simpl; auto; try discriminate.
    destruct (ast_eqb a a0); simpl; auto; discriminate.
  Qed.
  Lemma join_good_r : forall cf ra rb K,
    good cf (bindr (join ra rb) K) = true -> good cf (bindr rb K) = true.
  Proof.
    intros cf ra rb K. destruct ra, rb; simpl; auto; try discriminate.
    destruct (ast_eqb a a0) eqn:E; simpl; try discriminate.
    apply ast_eqb_eq in E. subst. auto.
  Qed.

  Lemma run_defers_chk : forall cf ds E h h',
    run_defers cf ds h = Some h' ->
    chk_l allowed nb cf (mkA false E h []) (map ditem_instr ds) = Falls (mkA false E h' []).
  Proof.
    induction ds as [|d ds IH]; intros E h h' H; simpl in H.
    - inversion H. reflexivity.
    - cbn [map]. rewrite chk_cons. destruct d as [m|f]; cbn [ditem_instr chk1 a_held].
      + destruct (mem m h) eqn:Em; try discriminate. cbn [bindr set_held a_solo a_entry a_defers]. apply IH; auto.
      + destruct (cf f h) eqn:Ef; try discriminate. cbn [bindr set_solo a_entry a_held a_defers]. apply IH; auto.
  Qed.

  (* ---- invariant ---- *)

  Definition frame_ok (so : bool) (E H : list mutex) (fr : frame) : Prop :=
    exists fuel solo, (solo = true -> so = true) /\
      GOOD fuel (CHK fuel (mkA solo E H (f_defers fr)) (f_code fr)) = true.

  Fixpoint stack_ok (so : bool) (H : list mutex) (stk : list frame) : Prop :=
    match stk with
    | [] => H = []       (* a finished goroutine holds nothing *)
    | fr :: rest => exists E, frame_ok so E H fr /\ stack_ok false E rest
    end.

  Definition excl (s : state) : Prop :=
    forall t1 t2 th1 th2 m, t1 <> t2 -> threads s t1 = Some th1 -> threads s t2 = Some th2 ->
      mem m (t_held th1) = true -> mem m (t_held th2) = false.
  Definition fresh (s : state) : Prop := forall t th, threads s t = Some th -> t < next_tid s.
  Definition so_of (s : state) : bool := Nat.eqb (next_tid s) 1.

  Definition Inv (s : state) : Prop :=
    fresh s /\ excl s /\
    forall t th, threads s t = Some th -> stack_ok (so_of s) (t_held th) (t_stack th).

  Lemma frame_ok_weaken : forall so E H fr, frame_ok false E H fr -> frame_ok so E H fr.
  Proof.
    intros so E H fr (fuel & solo & Hs & Hg). exists fuel, solo. split; auto.
    intros Ht. apply Hs in Ht. discriminate.
  Qed.
  Lemma stack_ok_weaken : forall so H stk, stack_ok false H stk -> stack_ok so H stk.
  Proof.
    intros so H [|fr rest]; simpl; auto. intros (E & Hf & Hr). exists E. split; auto.
    apply frame_ok_weaken; auto.
  Qed.

  Lemma upd_same : forall ts t th, upd ts t th t = Some th.
  Proof. intros. unfold upd. rewrite Nat.eqb_refl. auto. Qed.
  Lemma upd_other : forall ts t th x, x <> t -> upd ts t th x = ts x.
  Proof. intros. unfold upd. destruct (Nat.eqb_spec x t); congruence. Qed.

  (* a step of thread t that keeps its held list and spawns nothing *)
  Lemma inv_local : forall s t th th',
    Inv s -> threads s t = Some th -> t_held th' = t_held th ->
    stack_ok (so_of s) (t_held th') (t_stack th') ->
    Inv (mkSt (upd (threads s) t th') (next_tid s)).
  Proof.
    intros s t th th' (Hf & He & Hs) Ht Hh Hok. split; [|split].
    - intros x thx Hx. cbn [threads next_tid] in *. destruct (Nat.eq_dec x t) as [->|Hne].
      + eapply Hf; eauto.
      + rewrite upd_other in Hx; auto. eapply Hf; eauto.
    - intros t1 t2 th1 th2 m Hne H1 H2 Hm. cbn [threads next_tid] in *.
      destruct (Nat.eq_dec t1 t) as [->|N1]; destruct (Nat.eq_dec t2 t) as [->|N2]; try congruence.
      + rewrite upd_same in H1. inversion H1; subst th1. rewrite upd_other in H2; auto.
        rewrite Hh in Hm. eapply (He t t2 th th2 m); eauto.
      + rewrite upd_same in H2. inversion H2; subst th2. rewrite upd_other in H1; auto.
        rewrite Hh. eapply (He t1 t th1 th m); eauto.
      + rewrite upd_other in H1, H2; auto. eapply (He t1 t2); eauto.
    - intros x thx Hx. unfold so_of in *; cbn [threads next_tid] in *.
      destruct (Nat.eq_dec x t) as [->|Hne].
      + rewrite upd_same in Hx. inversion Hx; subst. auto.
      + rewrite upd_other in Hx; auto. apply (Hs _ _ Hx).
  Qed.

  Lemma callf_true : forall fuel f h,
    CF fuel f h = true ->
    exists n body, fuel = S n /\ lookup_body p f = Some body /\
                   GOOD n (CHK n (mkA false h h []) body) = true.
  Proof.
    intros [|n] f h H; simpl in H; try discriminate.
    destruct (lookup_body p f) as [body|] eqn:E; try discriminate. eauto.
  Qed.

  (* top frame at an exit point (end of body or return): the exit check holds *)
  Lemma exit_point : forall fuel a c,
    (c = [] \/ exists k, c = IReturn :: k) ->
    GOOD fuel (CHK fuel a c) = true -> exit_ok (CF fuel) a = true.
  Proof.
    intros fuel a c [->|[k ->]] H.
    - simpl in H. auto.
    - rewrite chk_cons in H. cbn [chk1] in H. destruct (exit_ok (CF fuel) a); auto.
  Qed.

  Ltac top_frame Hs Ht E fuel solo Hso Hg Hrest :=
    let Hst := fresh "Hst" in
    pose proof (Hs _ _ Ht) as Hst; cbn [t_held t_stack stack_ok] in Hst;
    destruct Hst as (E & (fuel & solo & Hso & Hg) & Hrest);
    cbn [f_code f_defers] in Hg.

  Lemma step_inv : forall s t c s', step p s t c s' -> Inv s -> Inv s'.
  Proof.
    intros s t c s' Hstep HI. pose proof HI as (Hf & He & Hs).
    destruct Hstep.
    - (* pop *)
      top_frame Hs H E fuel solo Hso Hg Hrest.
      apply exit_point in Hg; auto. unfold exit_ok in Hg. cbn in Hg. apply meq_eq in Hg. subst E.
      eapply inv_local; eauto. cbn. apply stack_ok_weaken. auto.
    - (* defers *)
      top_frame Hs H E fuel solo Hso Hg Hrest.
      apply exit_point in Hg; auto. unfold exit_ok in Hg. cbn [a_defers a_held a_entry] in Hg.
      destruct (run_defers (CF fuel) (d :: ds) h) as [h'|] eqn:Er; try discriminate.
      eapply inv_local; eauto. cbn [t_held t_stack stack_ok]. exists E. split; auto.
      exists fuel, false. split; [discriminate|]. cbn [f_code f_defers].
      erewrite run_defers_chk; eauto. cbn. auto.
    - (* lock *)
      top_frame Hs H E fuel solo Hso Hg Hrest.
      rewrite chk_cons in Hg. cbn [chk1 a_held] in Hg.
      destruct (mem m h || negb (may_block nb h)) eqn:Eb; [discriminate|]. cbn [bindr set_held a_solo a_entry a_defers] in Hg.
      split; [unfold fresh|split; [unfold excl|]]; cbn [threads next_tid].
      + intros x thx Hx. destruct (Nat.eq_dec x t) as [->|Hne]; [eapply Hf; eauto|].
        rewrite upd_other in Hx; auto. eapply Hf; eauto.
      + intros t1 t2 th1 th2 m' Hne H1 H2 Hm.
        destruct (Nat.eq_dec t1 t) as [->|N1]; destruct (Nat.eq_dec t2 t) as [->|N2]; try congruence.
        * rewrite upd_same in H1. inversion H1; subst th1. rewrite upd_other in H2; auto.
          cbn in Hm. apply orb_true_iff in Hm. destruct Hm as [Hm|Hm].
          -- apply String.eqb_eq in Hm. subst m'. eapply H0; eauto.
          -- exact (He t t2 _ _ m' Hne H H2 Hm).
        * rewrite upd_same in H2. inversion H2; subst th2. rewrite upd_other in H1; auto.
          cbn. apply orb_false_iff. split.
          -- destruct (String.eqb m m') eqn:Em; auto. apply String.eqb_eq in Em. subst m'.
             rewrite (H0 _ _ H1) in Hm. discriminate.
          -- exact (He t1 t _ _ m' N1 H1 H Hm).
        * rewrite upd_other in H1, H2; auto. eapply (He t1 t2); eauto.
      + intros x thx Hx. unfold so_of in *; cbn [threads next_tid] in *. destruct (Nat.eq_dec x t) as [->|Hne].
        * rewrite upd_same in Hx. inversion Hx; subst. cbn [t_held t_stack stack_ok].
          exists E. split; auto. exists fuel, solo. split; auto.
        * rewrite upd_other in Hx; auto. apply (Hs _ _ Hx).
    - (* unlock *)
      top_frame Hs H E fuel solo Hso Hg Hrest.
      rewrite chk_cons in Hg. cbn [chk1 a_held] in Hg.
      destruct (mem m h) eqn:Em; [|discriminate]. cbn [bindr set_held a_solo a_entry a_defers] in Hg.
      assert (Hoth : forall x thx, x <> t -> threads s x = Some thx -> remove_m m (t_held thx) = t_held thx).
      { intros x thx Hne Hx. apply remove_notin. apply (He t x _ _ m (not_eq_sym Hne) H Hx). exact Em. }
      split; [unfold fresh|split; [unfold excl|]]; cbn [threads next_tid].
      + intros x thx Hx. unfold release_all in Hx. destruct (Nat.eq_dec x t) as [->|Hne].
        * eapply Hf; eauto.
        * rewrite upd_other in Hx; auto. destruct (threads s x) eqn:Ex; try discriminate. eapply Hf; eauto.
      + intros t1 t2 th1 th2 m' Hne H1 H2 Hm. unfold release_all in H1, H2.
        destruct (upd (threads s) t {| t_held := h; t_stack := {| f_code := k; f_defers := d |} :: rest |} t1) as [o1|] eqn:E1; try discriminate.
        destruct (upd (threads s) t {| t_held := h; t_stack := {| f_code := k; f_defers := d |} :: rest |} t2) as [o2|] eqn:E2; try discriminate.
        inversion H1; subst th1. inversion H2; subst th2. cbn [t_held] in *.
        destruct (string_dec m m') as [->|Hmm]; [apply mem_remove_same|].
        rewrite mem_remove_other in *; auto.
        destruct (Nat.eq_dec t1 t) as [->|N1]; destruct (Nat.eq_dec t2 t) as [->|N2]; try congruence.
        * rewrite upd_same in E1. inversion E1; subst o1. rewrite upd_other in E2; auto.
          exact (He t t2 _ _ m' Hne H E2 Hm).
        * rewrite upd_same in E2. inversion E2; subst o2. rewrite upd_other in E1; auto.
          exact (He t1 t _ _ m' N1 E1 H Hm).
        * rewrite upd_other in E1, E2; auto. eapply (He t1 t2); eauto.
      + intros x thx Hx. unfold so_of in *; cbn [threads next_tid] in *. unfold release_all in Hx.
        destruct (Nat.eq_dec x t) as [->|Hne].
        * rewrite upd_same in Hx. inversion Hx; subst. cbn [t_held t_stack stack_ok].
          exists E. split; auto. exists fuel, solo. split; auto.
        * rewrite upd_other in Hx; auto. destruct (threads s x) as [thx0|] eqn:Ex; try discriminate.
          inversion Hx; subst thx. cbn [t_held t_stack]. rewrite (Hoth _ _ Hne Ex). eapply Hs; eauto.
    - (* defer unlock *)
      top_frame Hs H E fuel solo Hso Hg Hrest.
      rewrite chk_cons in Hg. cbn [chk1 bindr push_defer a_solo a_entry a_held a_defers] in Hg.
      eapply inv_local; eauto. cbn [t_held t_stack stack_ok]. exists E. split; auto.
      exists fuel, solo. split; auto.
    - (* defer call *)
      top_frame Hs H E fuel solo Hso Hg Hrest.
      rewrite chk_cons in Hg. cbn [chk1 bindr push_defer a_solo a_entry a_held a_defers] in Hg.
      eapply inv_local; eauto. cbn [t_held t_stack stack_ok]. exists E. split; auto.
      exists fuel, solo. split; auto.
    - (* read *)
      top_frame Hs H E fuel solo Hso Hg Hrest.
      rewrite chk_cons in Hg. cbn [chk1 a_solo a_held] in Hg.
      destruct (solo || allowed l false h); [|discriminate]. cbn [bindr] in Hg.
      eapply inv_local; eauto. cbn [t_held t_stack stack_ok]. exists E. split; auto.
      exists fuel, solo. split; auto.
    - (* write *)
      top_frame Hs H E fuel solo Hso Hg Hrest.
      rewrite chk_cons in Hg. cbn [chk1 a_solo a_held] in Hg.
      destruct (solo || allowed l true h); [|discriminate]. cbn [bindr] in Hg.
      eapply inv_local; eauto. cbn [t_held t_stack stack_ok]. exists E. split; auto.
      exists fuel, solo. split; auto.
    - (* go *)
      top_frame Hs H E fuel solo Hso Hg Hrest.
      rewrite chk_cons in Hg. cbn [chk1] in Hg.
      destruct (GOOD fuel (CHK fuel (mkA false [] [] []) body)) eqn:Eg; [|discriminate].
      cbn [bindr set_solo a_entry a_held a_defers] in Hg.
      assert (Hlt : t < next_tid s) by (eapply Hf; eauto).
      assert (Hne : t <> next_tid s) by lia.
      assert (Hso' : Nat.eqb (S (next_tid s)) 1 = false) by (apply Nat.eqb_neq; lia).
      assert (Hothers : forall x thx, x <> t -> threads s x = Some thx -> so_of s = false).
      { intros x thx Hx Hth. unfold so_of. apply Nat.eqb_neq. pose proof (Hf _ _ Hth). lia. }
      split; [unfold fresh|split; [unfold excl|]]; cbn [threads next_tid].
      + intros x thx Hx. destruct (Nat.eq_dec x (next_tid s)) as [->|N1]; [lia|].
        rewrite upd_other in Hx; auto. destruct (Nat.eq_dec x t) as [->|N2]; [lia|].
        rewrite upd_other in Hx; auto. pose proof (Hf _ _ Hx). lia.
      + intros t1 t2 th1 th2 m' Hn H1 H2 Hm.
        destruct (Nat.eq_dec t1 (next_tid s)) as [->|A1].
        { rewrite upd_same in H1. inversion H1; subst th1. cbn in Hm. discriminate. }
        destruct (Nat.eq_dec t2 (next_tid s)) as [->|A2].
        { rewrite upd_same in H2. inversion H2; subst th2. reflexivity. }
        rewrite upd_other in H1, H2; auto.
        destruct (Nat.eq_dec t1 t) as [->|N1]; destruct (Nat.eq_dec t2 t) as [->|N2]; try congruence.
        * rewrite upd_same in H1. inversion H1; subst th1. rewrite upd_other in H2; auto. exact (He t t2 _ _ m' Hn H H2 Hm).
        * rewrite upd_same in H2. inversion H2; subst th2. rewrite upd_other in H1; auto. exact (He t1 t _ _ m' N1 H1 H Hm).
        * rewrite upd_other in H1, H2; auto. eapply (He t1 t2); eauto.
      + intros x thx Hx. unfold so_of; cbn [threads next_tid] in *. rewrite Hso'.
        destruct (Nat.eq_dec x (next_tid s)) as [->|A1].
        { rewrite upd_same in Hx. inversion Hx; subst thx. cbn [t_held t_stack stack_ok].
          exists []. split; auto. exists fuel, false. split; [discriminate|]. auto. }
        rewrite upd_other in Hx; auto. destruct (Nat.eq_dec x t) as [->|N2].
        * rewrite upd_same in Hx. inversion Hx; subst thx. cbn [t_held t_stack stack_ok].
          exists E. split; auto. exists fuel, false. split; [discriminate|]. auto.
        * rewrite upd_other in Hx; auto. pose proof (Hs _ _ Hx) as Hx'.
          rewrite (Hothers _ _ N2 Hx) in Hx'. auto.
    - (* chan *)
      top_frame Hs H E fuel solo Hso Hg Hrest.
      rewrite chk_cons in Hg. cbn [chk1 a_held] in Hg.
      destruct (may_block nb h); [|discriminate]. cbn [bindr] in Hg.
      eapply inv_local; eauto. cbn [t_held t_stack stack_ok]. exists E. split; auto.
      exists fuel, solo. split; auto.
    - (* wait *)
      top_frame Hs H E fuel solo Hso Hg Hrest.
      rewrite chk_cons in Hg. cbn [chk1 a_held] in Hg.
      destruct (may_block nb h); [|discriminate]. cbn [bindr] in Hg.
      eapply inv_local; eauto. cbn [t_held t_stack stack_ok]. exists E. split; auto.
      exists fuel, solo. split; auto.
    - (* call *)
      top_frame Hs H E fuel solo Hso Hg Hrest.
      rewrite chk_cons in Hg. cbn [chk1 a_held] in Hg.
      destruct (CF fuel f h) eqn:Ec; [|discriminate]. cbn [bindr set_solo a_entry a_held a_defers] in Hg.
      apply callf_true in Ec. destruct Ec as (n & body' & -> & Hl & Hb).
      rewrite H0 in Hl. inversion Hl; subst body'.
      eapply inv_local; eauto. cbn [t_held t_stack stack_ok]. exists h. split.
      + exists n, false. split; [discriminate|]. auto.
      + exists E. split; auto. exists (S n), false. split; [discriminate|]. auto.
    - (* ext *)
      top_frame Hs H E fuel solo Hso Hg Hrest.
      rewrite chk_cons in Hg. cbn [chk1 bindr] in Hg.
      eapply inv_local; eauto. cbn [t_held t_stack stack_ok]. exists E. split; auto.
      exists fuel, solo. split; auto.
    - (* if *)
      top_frame Hs H E fuel solo Hso Hg Hrest.
      rewrite chk_cons in Hg. cbn [chk1] in Hg.
      eapply inv_local; eauto. cbn [t_held t_stack stack_ok]. exists E. split; auto.
      exists fuel, solo. split; auto. cbn [f_code f_defers]. rewrite chk_app.
      destruct c; [eapply join_good_l|eapply join_good_r]; eauto.
    - (* loop *)
      top_frame Hs H E fuel solo Hso Hg Hrest.
      rewrite chk_cons in Hg. cbn [chk1] in Hg. unfold set_solo in Hg. cbn [a_entry a_held a_defers] in Hg.
      eapply inv_local; eauto. cbn [t_held t_stack stack_ok]. exists E. split; auto.
      exists fuel, false. split; [discriminate|]. cbn [f_code f_defers].
      destruct (CHK fuel (mkA false E h d) body) as [| |a'] eqn:Eb; [cbn [bindr good] in Hg; discriminate| |].
      + (* body always returns *)
        cbn [bindr] in Hg. destruct c; auto.
        rewrite chk_app, Eb. reflexivity.
      + destruct (ast_eqb (mkA false E h d) a') eqn:Ea; [|cbn [bindr good] in Hg; discriminate].
        apply ast_eqb_eq in Ea. subst a'. cbn [bindr] in Hg. destruct c; auto.
        rewrite chk_app, Eb. cbn [bindr]. rewrite chk_cons. cbn [chk1]. unfold set_solo. cbn [a_entry a_held a_defers].
        rewrite Eb. rewrite ast_eqb_refl. auto.
  Qed.
End Sound.

(* ---------------------------------------------------------------------------------------------- *)
(* the theorems *)

Lemma reach_inv : forall p allowed nb main fuel,
  check p allowed nb fuel main = true ->
  forall s, reach p (init_state main) s -> Inv p allowed nb s.
Proof.
  intros p allowed nb main fuel Hc s Hr. induction Hr.
  - split; [|split].
    + intros t th Ht. cbn in *. destruct (Nat.eqb_spec t 0); [lia|discriminate].
    + intros t1 t2 th1 th2 m Hne H1 H2 _. cbn in *.
      destruct (Nat.eqb_spec t1 0); destruct (Nat.eqb_spec t2 0); try discriminate. lia.
    + intros t th Ht. cbn in Ht. destruct (Nat.eqb_spec t 0); [|discriminate].
      inversion Ht; subst th. cbn. exists []. split; auto.
      exists fuel, true. split; auto.
  - eapply step_inv; eauto.
Qed.

(* what the checker guarantees about the instruction a thread is about to execute *)
Lemma next_checked : forall p allowed nb s t th i,
  Inv p allowed nb s -> threads s t = Some th -> next_instr th = Some i ->
  exists fuel solo E d, (solo = true -> so_of s = true) /\
    chk1 allowed nb (callf p allowed nb fuel) (chk_l allowed nb (callf p allowed nb fuel))
         (mkA solo E (t_held th) d) i <> Fail.
Proof.
  intros p allowed nb s t th i (Hf & He & Hs) Ht Hn.
  pose proof (Hs _ _ Ht) as Hst. destruct th as [h stk]. unfold next_instr in Hn. cbn [t_stack t_held] in *.
  destruct stk as [|[code d] rest]; [discriminate|]. destruct code as [|i' k]; [discriminate|].
  inversion Hn; subst i'. cbn [stack_ok] in Hst. destruct Hst as (E & (fuel & solo & Hso & Hg) & _).
  cbn [f_code f_defers] in Hg. rewrite chk_cons in Hg.
  exists fuel, solo, E, d. split; auto.
  intros Hfail. rewrite Hfail in Hg. cbn in Hg. discriminate.
Qed.

Lemma acc_eqb_eq : forall x y, acc_eqb x y = true -> x = y.
Proof.
  intros [[l1 w1] h1] [[l2 w2] h2]. unfold acc_eqb. intros H.
  apply andb_true_iff in H. destruct H as [H Hh]. apply andb_true_iff in H. destruct H as [Hl Hw].
  apply meq_eq in Hl. apply meq_eq in Hh. apply Bool.eqb_prop in Hw. subst. reflexivity.
Qed.

Lemma pairwise_common : forall accs l1 w1 h1 l2 w2 h2,
  pairwise_ok accs = true ->
  allowed_of accs l1 w1 h1 = true -> allowed_of accs l2 w2 h2 = true ->
  overlap l1 l2 = true -> (w1 || w2) = true ->
  exists m, mem m h1 = true /\ mem m h2 = true.
Proof.
  intros accs l1 w1 h1 l2 w2 h2 Hp H1 H2 Ho Hw.
  unfold allowed_of in *. apply existsb_exists in H1. destruct H1 as (x & Hx & Ex).
  apply existsb_exists in H2. destruct H2 as (y & Hy & Ey).
  apply acc_eqb_eq in Ex. apply acc_eqb_eq in Ey. subst x y.
  unfold pairwise_ok in Hp. rewrite forallb_forall in Hp. specialize (Hp _ Hx).
  rewrite forallb_forall in Hp. specialize (Hp _ Hy). unfold compat in Hp.
  rewrite Ho, Hw in Hp. cbn in Hp. unfold intersects in Hp. apply existsb_exists in Hp.
  destruct Hp as (m & Hm1 & Hm2). exists m. split; auto.
  clear -Hm1. induction h1 as [|x h1 IH]; [contradiction|]. cbn. destruct Hm1 as [->|Hin].
  - rewrite String.eqb_refl. reflexivity.
  - rewrite IH; auto. apply orb_true_r.
Qed.

(* THE lockset theorem: an accepted program has no data race under any schedule *)
Theorem lockset_sound : forall p fuel main,
  lockset_ok p fuel main = true ->
  forall s, reach p (init_state main) s -> ~ race s.
Proof.
  intros p fuel main Hok s Hr Hrace. unfold lockset_ok in Hok.
  apply andb_true_iff in Hok. destruct Hok as [Hp Hc].
  set (accs := collect p fuel main) in *.
  pose proof (reach_inv _ _ _ _ _ Hc _ Hr) as HI.
  destruct Hrace as (t1 & t2 & th1 & th2 & l1 & w1 & l2 & w2 & Hne & Ht1 & Ht2 & Ha1 & Ha2 & Ho & Hw).
  pose proof HI as (Hf & He & Hs).
  assert (Hnot_solo : so_of s = false).
  { unfold so_of. apply Nat.eqb_neq. pose proof (Hf _ _ Ht1). pose proof (Hf _ _ Ht2). lia. }
  assert (Hal : forall t th l w, threads s t = Some th -> next_access th = Some (l, w) ->
                                allowed_of accs l w (t_held th) = true).
  { intros t th l w Ht Ha. unfold next_access in Ha.
    destruct (next_instr th) as [i|] eqn:En; [|discriminate].
    destruct (next_checked _ _ _ _ _ _ _ HI Ht En) as (fu & solo & E & d & Hso & Hnf).
    assert (solo = false) by (destruct solo; auto; rewrite Hso in Hnot_solo; auto; discriminate). subst solo.
    destruct i; try discriminate; inversion Ha; subst; cbn [chk1 a_solo a_held orb] in Hnf.
    - destruct (allowed_of accs l false (t_held th)); [reflexivity | exfalso; apply Hnf; reflexivity].
    - destruct (allowed_of accs l true (t_held th)); [reflexivity | exfalso; apply Hnf; reflexivity]. }
  pose proof (Hal _ _ _ _ Ht1 Ha1) as A1. pose proof (Hal _ _ _ _ Ht2 Ha2) as A2.
  destruct (pairwise_common _ _ _ _ _ _ _ Hp A1 A2 Ho Hw) as (m & M1 & M2).
  rewrite (He _ _ _ _ m Hne Ht1 Ht2 M1) in M2. discriminate.
Qed.

(* no thread is ever about to block (Lock, channel operation, wait) while it holds a mutex *)
Theorem nonblocking_sound : forall p fuel main,
  nonblocking_ok p fuel main = true ->
  forall s, reach p (init_state main) s -> ~ blocks_holding s.
Proof.
  intros p fuel main Hok s Hr (t & th & Ht & Hb & Hh). unfold nonblocking_ok in Hok.
  pose proof (reach_inv _ _ _ _ _ Hok _ Hr) as HI.
  unfold about_to_block in Hb. destruct (next_instr th) as [i|] eqn:En; [|discriminate].
  destruct (next_checked _ _ _ _ _ _ _ HI Ht En) as (fu & solo & E & d & Hso & Hnf).
  destruct i; try discriminate; cbn [chk1 a_held may_block] in Hnf;
    destruct (t_held th) eqn:Eh; try contradiction; cbn in Hnf;
    try rewrite orb_true_r in Hnf; contradiction.
Qed.

(* the mutual-exclusion invariant itself, for use by clients *)
Theorem mutex_exclusive : forall p fuel main,
  nonblocking_ok p fuel main = true \/ lockset_ok p fuel main = true ->
  forall s, reach p (init_state main) s ->
  forall t1 t2 th1 th2 m, t1 <> t2 -> threads s t1 = Some th1 -> threads s t2 = Some th2 ->
    mem m (t_held th1) = true -> mem m (t_held th2) = false.
Proof.
  intros p fuel main [H|H] s Hr.
  - unfold nonblocking_ok in H. destruct (reach_inv _ _ _ _ _ H _ Hr) as (_ & He & _). exact He.
  - unfold lockset_ok in H. apply andb_true_iff in H. destruct H as [_ H].
    destruct (reach_inv _ _ _ _ _ H _ Hr) as (_ & He & _). exact He.
Qed.

(* a goroutine that has finished holds no mutex *)
Theorem finished_holds_nothing : forall p fuel main,
  nonblocking_ok p fuel main = true \/ lockset_ok p fuel main = true ->
  forall s, reach p (init_state main) s ->
  forall t th, threads s t = Some th -> t_stack th = [] -> t_held th = [].
Proof.
  intros p fuel main [H|H] s Hr t th Ht Hs.
  - unfold nonblocking_ok in H. destruct (reach_inv _ _ _ _ _ H _ Hr) as (_ & _ & Hst).
    specialize (Hst _ _ Ht). rewrite Hs in Hst. exact Hst.
  - unfold lockset_ok in H. apply andb_true_iff in H. destruct H as [_ H].
    destruct (reach_inv _ _ _ _ _ H _ Hr) as (_ & _ & Hst).
    specialize (Hst _ _ Ht). rewrite Hs in Hst. exact Hst.
Qed.

(* no hold-and-wait, constructively: under any schedule, a goroutine that holds a mutex can take
   its next step right now (it is not finished, not at a Lock, channel operation or wait, and the
   callee of a call exists) — so a mutex is never held by a goroutine that cannot move *)
Theorem lock_holder_progress : forall p fuel main,
  nonblocking_ok p fuel main = true ->
  forall s, reach p (init_state main) s ->
  forall t th, threads s t = Some th -> t_held th <> [] ->
  exists c s', step p s t c s'.
Proof.
  intros p fuel main Hok s Hr t th Ht Hh. unfold nonblocking_ok in Hok.
  pose proof (reach_inv _ _ _ _ _ Hok _ Hr) as HI. pose proof HI as (Hf & He & Hst).
  destruct th as [h stk]. cbn [t_held] in Hh.
  pose proof (Hst _ _ Ht) as Hs. cbn [t_held t_stack] in Hs.
  destruct stk as [|[code d] rest]; [cbn in Hs; contradiction|].
  destruct code as [|i k].
  - (* end of body *) exists true. destruct d as [|d0 ds]; eexists.
    + eapply S_pop; eauto.
    + eapply S_defers; eauto.
  - destruct (next_checked _ _ _ _ _ _ _ HI Ht (eq_refl : next_instr (mkThread h (mkFrame (i :: k) d :: rest)) = Some i))
      as (fu & solo & E & d' & Hso & Hnf). cbn [t_held] in Hnf.
    exists true. destruct i.
    + (* Lock: impossible while holding *) exfalso. cbn [chk1 a_held may_block] in Hnf.
      destruct h; [contradiction|]. rewrite orb_true_r in Hnf. contradiction.
    + eexists. eapply S_unlock; eauto.
    + eexists. eapply S_defer_unlock; eauto.
    + eexists. eapply S_defer_call; eauto.
    + eexists. eapply S_read; eauto.
    + eexists. eapply S_write; eauto.
    + eexists. eapply S_go; eauto.
      destruct (threads s (next_tid s)) as [x|] eqn:Ex; auto.
      pose proof (Hf _ _ Ex). exfalso. apply (PeanoNat.Nat.lt_irrefl _ H).
    + exfalso. cbn [chk1 a_held may_block] in Hnf. destruct h; contradiction.
    + exfalso. cbn [chk1 a_held may_block] in Hnf. destruct h; contradiction.
    + (* call: the checker has looked the callee up *)
      cbn [chk1 a_held] in Hnf.
      destruct (callf p (fun _ _ _ => true) true fu f h) eqn:Ec; [|contradiction].
      apply callf_true in Ec. destruct Ec as (n & body & _ & Hl & _).
      eexists. eapply S_call; eauto.
    + eexists. eapply S_ext; eauto.
    + eexists. eapply S_if; eauto.
    + eexists. eapply S_loop; eauto.
    + destruct d as [|d0 ds]; eexists.
      * eapply S_pop; eauto.
      * eapply S_defers; eauto.
Qed.
