(* C17 — the wallet as a goroutine system: the generated synchronisation structure of pkg/fswallet
   (Gen/FsWalletSync.v, written by harness/cmd/gen_locks from the Go source on every run) put under
   the most general client.

   [fswallet_main] is the creating goroutine: it runs the constructor and the init methods
   (Initialize) — ASSUMPTION: these run once, in one goroutine, before the wallet value is handed
   to anybody else — and then starts an arbitrary number of client goroutines (the hand-over is by
   `go` statements, i.e. with a happens-before edge), each of which calls the exported methods
   (Sign, SignTypedDataV4, GetWalletFile, AddListener, GetAccounts, Refresh, Close) any number of
   times in any order.  Goroutines started by the wallet itself (file-system listener loop,
   notifier goroutines) run concurrently with all of them. *)
From Coq Require Import List String Bool.
From FFS Require Import Conc.Lockset Conc.LocksetProofs Gen.FsWalletSync.
Import ListNotations.
Open Scope string_scope.

(* nondeterministic choice of one call among [ms] (or none) *)
Fixpoint one_of (ms : list string) : list instr :=
  match ms with
  | [] => []
  | m :: t => [IIf [ICall m] (one_of t)]
  end.

Definition client (api : list string) : list instr := [ILoop (one_of api)].

Definition inline_bodies (p : prog) (ms : list string) : list instr :=
  flat_map (fun m => match lookup_body p m with
                     | Some b => b
                     | None => [ICall m]     (* unknown: rejected by the checker *)
                     end) ms.

Definition system (p : prog) (constructor : list instr) (inits api : list string) : list instr :=
  constructor ++ inline_bodies p inits ++ [ILoop [IGo (client api)]].

Definition fswallet_main : list instr :=
  system fswallet_prog fswallet_constructor fswallet_init fswallet_api.

Definition fuel : nat := 24.   (* bound on the call depth explored by the checker *)


(* ---------------------------------------------------------------------------------------------- *)
(* Shape of the shutdown handshake (Close waits for the listener loop's done channel).  A purely
   syntactic check of the translated control flow; what it does NOT give (hence "partial" in
   C17_close_returns_partial): that the Go scheduler eventually runs the listener goroutine, that
   fsnotify's channels behave, and that the critical sections the loop may wait for terminate. *)

Fixpoint any_i (f : instr -> bool) (i : instr) {struct i} : bool :=
  f i ||
  match i with
  | IGo b => existsb (any_i f) b
  | IIf a b => existsb (any_i f) a || existsb (any_i f) b
  | ILoop b => existsb (any_i f) b
  | _ => false
  end.
Definition any_l (f : instr -> bool) (code : list instr) : bool := existsb (any_i f) code.

Definition is_chan (op : chanop) (c : string) (i : instr) : bool :=
  match i with
  | IChan op' c' => String.eqb c c' &&
      match op, op' with ChSend, ChSend | ChRecv, ChRecv | ChClose, ChClose | ChSelect, ChSelect => true | _, _ => false end
  | _ => false
  end.
Definition is_blocking (i : instr) : bool :=
  match i with ILock _ | IChan ChSend _ | IChan ChRecv _ | IChan ChSelect _ | IWait _ => true | _ => false end.
Definition is_ext (f : string) (i : instr) : bool :=
  match i with IExt g => String.eqb f g | _ => false end.
Definition is_return (i : instr) : bool := match i with IReturn => true | _ => false end.

(* [closes p c fuel code]: every way of running [code] to its end or to a return has executed
   close(c) or has started a goroutine that is bound to close it on exit *)
Definition closer_body (p : prog) (c : string) (body : list instr) : bool :=
  match body with
  | IDeferCall d :: rest =>
      match lookup_body p d with
      | Some db => any_l (is_chan ChClose c) db && negb (any_l is_blocking db) &&
                   negb (any_l (fun i => match i with ICall _ | IGo _ | IReturn => true | _ => false end) db)
      | None => false
      end
  | _ => false
  end.
Definition spawns_closer (p : prog) (c : string) (i : instr) : bool :=
  match i with
  | IGo [ICall l] => match lookup_body p l with Some lb => closer_body p c lb | None => false end
  | _ => false
  end.

(* must-analysis on structured code: [Some true] = on every path reaching the end the channel is
   taken care of, [Some false] = some path reaches the end without; [None] = a path RETURNS without *)
Section Must.
  Variable p : prog.
  Variable c : string.

  Fixpoint must_i (done : bool) (i : instr) {struct i} : option bool :=
    let must_l := fix must_l (done : bool) (code : list instr) {struct code} : option bool :=
      match code with
      | [] => Some done
      | i :: k => match must_i done i with Some d => must_l d k | None => None end
      end in
    match i with
    | IChan ChClose c' => Some (done || String.eqb c c')
    | IGo _ => Some (done || spawns_closer p c i)
    | IIf a b => match must_l done a, must_l done b with
                 | Some x, Some y => Some (x && y)
                 | _, _ => None
                 end
    | ILoop b => match must_l done b with Some _ => Some done | None => None end
    | IReturn => if done then Some true else None
    | _ => Some done
    end.

  Fixpoint must_l (done : bool) (code : list instr) {struct code} : option bool :=
    match code with
    | [] => Some done
    | i :: k => match must_i done i with Some d => must_l d k | None => None end
    end.
End Must.

Definition close_shape_ok (p : prog) : bool :=
  let c := "w.fsListenerDone" in
  match lookup_body p "Close" with
  | None => false
  | Some b =>
    (* a Close that waits for nothing trivially returns *)
    negb (any_l (fun i => is_blocking i || match i with ICall _ | IGo _ => true | _ => false end) b) ||
    ((* otherwise: it cancels the listener context, then waits for the done channel and for nothing else *)
     any_l (is_ext "w.fsListenerCancel") b && any_l (is_chan ChRecv c) b &&
     negb (any_l (fun i => is_blocking i && negb (is_chan ChRecv c i)) b) &&
     negb (any_l (fun i => match i with ICall _ | IGo _ => true | _ => false end) b) &&
     (* starting the listener: on every path, also the failing ones, the done channel is closed or a
        goroutine that closes it on exit has been started *)
     match lookup_body p "startFilesystemListener" with
     | Some sb => match must_l p c false sb with Some true => true | _ => false end
     | None => false
     end &&
     (* the listener loop can leave: its select has a returning branch fed by ctx.Done() *)
     existsb (fun nb => let '(_, lb) := nb in closer_body p c lb) p &&
     forallb (fun nb => let '(_, lb) := nb in
                if closer_body p c lb
                then any_l (fun i => match i with
                                     | ILoop body => any_l (is_ext "ctx.Done") body &&
                                                     any_l (is_chan ChSelect "select") body &&
                                                     any_l is_return body
                                     | _ => false end) lb
                else true) p)
  end.
