(* C17 — a generic monitor check over the translated synchronisation structure (referee issue I3:
   the REVERSE inclusion).  Given any deterministic event automaton [delta : Q -> ev -> option Q]
   (None = the event is not allowed here), [mon_ok fuel f q0 fin] decides a sufficient condition for:
   EVERY complete control-flow path of body f ([Atomic.bpath]: any branch outcomes, any number of loop
   iterations, calls expanded, deferred items run) is accepted by the automaton started in q0 and ends
   in a state satisfying [fin].  The checker and its soundness proof are those of Conc/Atomic.v /
   Conc/AtomicProofs.v with the two-counter automaton replaced by an arbitrary one (a collecting
   analysis: the set of automaton states in which some path can arrive at each program point; a loop
   needs an invariant set). *)
From Coq Require Import List String Bool Arith Lia.
From FFS Require Import Conc.Lockset Conc.LocksetProofs Conc.Atomic.
Import ListNotations.
Open Scope string_scope.
Open Scope list_scope.

Module Mon.
Section Monitor.
  Variable Q : Type.
  Variable qeqb : Q -> Q -> bool.
  Hypothesis qeqb_eq : forall x y, qeqb x y = true -> x = y.
  Hypothesis qeqb_refl : forall x, qeqb x x = true.
  Variable delta : Q -> ev -> option Q.
  (* which goroutine bodies a method may start (their events are not on the method's own trace) *)
  Variable goq : list instr -> bool.

  Fixpoint mrun (s : Q) (tr : list ev) : option Q :=
    match tr with
    | [] => Some s
    | e :: t => match delta s e with Some s' => mrun s' t | None => None end
    end.

Definition sset := list Q.
Definition cst := (sset * list ditem)%type.
Inductive cres := CFail | CR (exits : sset) (fall : option cst).
   (* exits: the states in which the paths that return leave the body (after their deferred items);
      fall: the states in which the paths that reach the end of this piece of code continue *)

Definition s_mem (s : Q) (A : sset) : bool := existsb (qeqb s) A.
Definition s_subset (A B : sset) : bool := forallb (fun s => s_mem s B) A.

(* all-or-nothing map over a set *)
Fixpoint s_map (f : Q -> option Q) (A : sset) : option sset :=
  match A with
  | [] => Some []
  | s :: t => match f s, s_map f t with Some s', Some t' => Some (s' :: t') | _, _ => None end
  end.
Fixpoint s_bind (f : Q -> option sset) (A : sset) : option sset :=
  match A with
  | [] => Some []
  | s :: t => match f s, s_bind f t with Some B, Some t' => Some (B ++ t') | _, _ => None end
  end.

Definition fjoin (f1 f2 : option cst) : option (option cst) :=
  match f1, f2 with
  | None, z => Some z
  | z, None => Some z
  | Some (A1, d1), Some (A2, d2) => if deq d1 d2 then Some (Some (A1 ++ A2, d1)) else None
  end.

Definition cjoin (ra rb : cres) : cres :=
  match ra, rb with
  | CR e1 f1, CR e2 f2 => match fjoin f1 f2 with Some f => CR (e1 ++ e2) f | None => CFail end
  | _, _ => CFail
  end.


Definition loop_rounds : nat := 3.   (* attempts to find the invariant set of a loop *)

  Variable p : prog.

  Section Body.
    (* [callf f s]: every complete run of body f started in state s is accepted and ends in one of these *)
    Variable callf : string -> Q -> option sset.

    Fixpoint run_defers (ds : list ditem) (A : sset) : option sset :=
      match ds with
      | [] => Some A
      | DUnlock m' :: t => match s_map (fun s => delta s (EUnlock m')) A with Some A' => run_defers t A' | None => None end
      | DCall f :: t => match s_bind (callf f) A with Some A' => run_defers t A' | None => None end
      end.

    Definition ev1 (a : cst) (e : ev) : cres :=
      match s_map (fun s => delta s e) (fst a) with Some A' => CR [] (Some (A', snd a)) | None => CFail end.

    (* the loop: find a set I containing the entry states that the body maps into itself *)
    Fixpoint loop_inv (body_chk : sset -> cres) (ds : list ditem) (k : nat) (I : sset) : cres :=
      match body_chk I with
      | CFail => CFail
      | CR e None => CR e (Some (I, ds))
      | CR e (Some (A', ds')) =>
          if deq ds ds' then
            if s_subset A' I then CR e (Some (I, ds))
            else match k with O => CFail | S k' => loop_inv body_chk ds k' (I ++ A') end
          else CFail
      end.

    Definition chk1 (rec : cst -> list instr -> cres) (a : cst) (i : instr) : cres :=
      match i with
      | ILock m' => ev1 a (ELock m')
      | IUnlock m' => ev1 a (EUnlock m')
      | IDeferUnlock m' => CR [] (Some (fst a, DUnlock m' :: snd a))
      | IDeferCall f => CR [] (Some (fst a, DCall f :: snd a))
      | IRead l => ev1 a (EAcc l false)
      | IWrite l => ev1 a (EAcc l true)
      | IGo body => if goq body then CR [] (Some a) else CFail
      | IChan _ _ => CR [] (Some a)
      | IWait _ => CR [] (Some a)
      | IExt _ => CR [] (Some a)
      | ICall f => match s_bind (callf f) (fst a) with Some A' => CR [] (Some (A', snd a)) | None => CFail end
      | IIf x y => cjoin (rec a x) (rec a y)
      | ILoop body => loop_inv (fun I => rec (I, snd a) body) (snd a) loop_rounds (fst a)
      | IReturn => match run_defers (snd a) (fst a) with Some E => CR E None | None => CFail end
      end.

    Definition cseq (r : cres) (k : cst -> cres) : cres :=
      match r with
      | CFail => CFail
      | CR e None => CR e None
      | CR e (Some a') =>
          match k a' with
          | CFail => CFail
          | CR e' f' => CR (e ++ e') f'
          end
      end.

    Fixpoint chk_i (a : cst) (i : instr) {struct i} : cres :=
      let rec := fix chk_l (a : cst) (code : list instr) {struct code} : cres :=
        match code with
        | [] => CR [] (Some a)
        | i :: k => cseq (chk_i a i) (fun a' => chk_l a' k)
        end in
      match i with
      | ILock m' => ev1 a (ELock m')
      | IUnlock m' => ev1 a (EUnlock m')
      | IDeferUnlock m' => CR [] (Some (fst a, DUnlock m' :: snd a))
      | IDeferCall f => CR [] (Some (fst a, DCall f :: snd a))
      | IRead l => ev1 a (EAcc l false)
      | IWrite l => ev1 a (EAcc l true)
      | IGo body => if goq body then CR [] (Some a) else CFail
      | IChan _ _ => CR [] (Some a)
      | IWait _ => CR [] (Some a)
      | IExt _ => CR [] (Some a)
      | ICall f => match s_bind (callf f) (fst a) with Some A' => CR [] (Some (A', snd a)) | None => CFail end
      | IIf x y => cjoin (rec a x) (rec a y)
      | ILoop body => loop_inv (fun I => rec (I, snd a) body) (snd a) loop_rounds (fst a)
      | IReturn => match run_defers (snd a) (fst a) with Some E => CR E None | None => CFail end
      end.

    Fixpoint chk_l (a : cst) (code : list instr) {struct code} : cres :=
      match code with
      | [] => CR [] (Some a)
      | i :: k => cseq (chk_i a i) (fun a' => chk_l a' k)
      end.

    Lemma chk_i_eq : forall a i, chk_i a i = chk1 chk_l a i.
    Proof. intros a i. destruct i; reflexivity. Qed.

    (* the states in which a whole body, analysed to [r], can leave *)
    Definition finish (r : cres) : option sset :=
      match r with
      | CFail => None
      | CR e None => Some e
      | CR e (Some a') =>
          match run_defers (snd a') (fst a') with
          | None => None
          | Some E => Some (e ++ E)
          end
      end.
  End Body.

  Fixpoint callf (fuel : nat) (f : string) (s : Q) : option sset :=
    match fuel with
    | O => None
    | S n => match lookup_body p f with
             | Some body => finish (callf n) (chk_l (callf n) ([s], []) body)
             | None => None
             end
    end.


Lemma s_map_in : forall f A A' s, s_map f A = Some A' -> In s A -> exists s', f s = Some s' /\ In s' A'.
Proof.
  induction A as [|x A IH]; intros A' s H Hin; [contradiction|].
  cbn [s_map] in H. destruct (f x) as [x'|] eqn:Ex; [|discriminate].
  destruct (s_map f A) as [t'|] eqn:Et; [|discriminate]. inversion H; subst A'.
  destruct Hin as [->|Hin].
  - exists x'. split; [exact Ex|left; reflexivity].
  - destruct (IH t' s eq_refl Hin) as (s' & E & I). exists s'. split; [exact E|right; exact I].
Qed.

Lemma s_bind_in : forall f A A' s, s_bind f A = Some A' -> In s A -> exists B, f s = Some B /\ incl B A'.
Proof.
  induction A as [|x A IH]; intros A' s H Hin; [contradiction|].
  cbn [s_bind] in H. destruct (f x) as [B|] eqn:Ex; [|discriminate].
  destruct (s_bind f A) as [t'|] eqn:Et; [|discriminate]. inversion H; subst A'.
  destruct Hin as [->|Hin].
  - exists B. split; [exact Ex|apply incl_appl, incl_refl].
  - destruct (IH t' s eq_refl Hin) as (B' & E & I). exists B'. split; [exact E|apply incl_appr; exact I].
Qed.

Lemma s_subset_incl : forall A B, s_subset A B = true -> incl A B.
Proof.
  intros A B H s Hin. unfold s_subset in H. rewrite forallb_forall in H. specialize (H s Hin).
  unfold s_mem in H. apply existsb_exists in H. destruct H as (y & Hy & E). apply qeqb_eq in E. subst. exact Hy.
Qed.

Lemma app_self_nil : forall A (a b : list A), a ++ b = b -> a = [].
Proof.
  intros A a b H. apply (f_equal (@List.length A)) in H. rewrite app_length in H.
  destruct a; [reflexivity|cbn in H; lia].
Qed.
  Notation run := mrun.
  Notation cf := callf.

  Lemma run_app : forall a b s, run s (a ++ b) = match run s a with Some s' => run s' b | None => None end.
  Proof.
    induction a as [|e a IH]; intros b s; [reflexivity|].
    cbn [app mrun]. destruct (delta s e); [apply IH|reflexivity].
  Qed.

  (* what an accepted piece of code guarantees for one of its paths, started in a state of the set *)
  Definition G (n : nat) (res : cres) (A : sset) (s : Q) (d0 : list ditem) (tr : list ev) (ds : list ditem) (r : bool) : Prop :=
    In s A -> forall e f, res = CR e f ->
      exists s', run s tr = Some s' /\
        if r then exists As E, In s' As /\ run_defers (cf n) (ds ++ d0) As = Some E /\ incl E e
        else exists A', f = Some (A', ds ++ d0) /\ In s' A'.

  Definition Pi (i : instr) (tr : list ev) (ds : list ditem) (r : bool) : Prop :=
    forall n A s d0, G n (chk_i (cf n) (A, d0) i) A s d0 tr ds r.
  Definition Pl (k : list instr) (tr : list ev) (ds : list ditem) (r : bool) : Prop :=
    forall n A s d0, G n (chk_l (cf n) (A, d0) k) A s d0 tr ds r.
  Definition Pb (body : list instr) (tr : list ev) : Prop :=
    forall n s E, finish (cf n) (chk_l (cf n) ([s], []) body) = Some E ->
      exists se, run s tr = Some se /\ In se E.
  Definition Pd (ds : list ditem) (tr : list ev) : Prop :=
    forall n A s E, In s A -> run_defers (cf n) ds A = Some E -> exists se, run s tr = Some se /\ In se E.

  Lemma cf_body : forall n f s E body,
    cf n f s = Some E -> lookup_body p f = Some body ->
    exists n', n = S n' /\ finish (cf n') (chk_l (cf n') ([s], []) body) = Some E.
  Proof.
    intros n f s E body H Hl. destruct n as [|n']; [discriminate|].
    cbn [callf] in H. rewrite Hl in H. exists n'. split; [reflexivity|exact H].
  Qed.

  (* an accepted loop: the invariant set found *)
  Lemma loop_inv_spec : forall bc ds k I0 e f,
    loop_inv bc ds k I0 = CR e f ->
    exists I fb, incl I0 I /\ f = Some (I, ds) /\ bc I = CR e fb /\
      (fb = None \/ exists A', fb = Some (A', ds) /\ incl A' I).
  Proof.
    induction k as [|k IH]; intros I0 e f H; cbn [loop_inv] in H;
      destruct (bc I0) as [|e1 [[A' ds']|]] eqn:Eb; try discriminate.
    - destruct (deq ds ds') eqn:Ed; [|discriminate]. apply deq_eq in Ed. subst ds'.
      destruct (s_subset A' I0) eqn:Es; [|discriminate]. inversion H; subst.
      exists I0, (Some (A', ds)). split; [apply incl_refl|]. split; [reflexivity|]. split; [exact Eb|].
      right. exists A'. split; [reflexivity|apply s_subset_incl; exact Es].
    - inversion H; subst. exists I0, None. split; [apply incl_refl|]. split; [reflexivity|]. split; [exact Eb|left; reflexivity].
    - destruct (deq ds ds') eqn:Ed; [|discriminate]. apply deq_eq in Ed. subst ds'.
      destruct (s_subset A' I0) eqn:Es.
      + inversion H; subst.
        exists I0, (Some (A', ds)). split; [apply incl_refl|]. split; [reflexivity|]. split; [exact Eb|].
        right. exists A'. split; [reflexivity|apply s_subset_incl; exact Es].
      + destruct (IH (I0 ++ A') e f H) as (I & fb & Hi & Hf & Hb & Hs).
        exists I, fb. split; [intros x Hx; apply Hi, in_or_app; left; exact Hx|]. split; [exact Hf|]. split; [exact Hb|exact Hs].
    - inversion H; subst. exists I0, None. split; [apply incl_refl|]. split; [reflexivity|]. split; [exact Eb|left; reflexivity].
  Qed.

  Lemma incl_subset : forall A B : sset, incl A B -> s_subset A B = true.
  Proof.
    intros A B H. unfold s_subset. apply forallb_forall. intros s Hs. unfold s_mem. apply existsb_exists.
    exists s. split; [apply H; exact Hs|]. apply qeqb_refl.
  Qed.

  (* ... and started from the invariant set itself the loop is accepted with the same answer *)
  Lemma loop_inv_stable : forall bc ds k I e fb,
    bc I = CR e fb -> (fb = None \/ exists A', fb = Some (A', ds) /\ incl A' I) ->
    loop_inv bc ds k I = CR e (Some (I, ds)).
  Proof.
    intros bc ds k I e fb Hb Hs. destruct k; cbn [loop_inv]; rewrite Hb.
    - destruct Hs as [->|(A' & -> & Hi)]; [reflexivity|]. rewrite deq_refl, (incl_subset _ _ Hi). reflexivity.
    - destruct Hs as [->|(A' & -> & Hi)]; [reflexivity|]. rewrite deq_refl, (incl_subset _ _ Hi). reflexivity.
  Qed.

  Ltac ev_case H Hin :=
    unfold ev1 in H; cbn [fst snd] in H;
    match type of H with
    | match s_map ?f ?A with _ => _ end = _ =>
        let E := fresh "E" in let A1 := fresh "A1" in
        destruct (s_map f A) as [A1|] eqn:E; [|discriminate];
        inversion H; subst;
        let s1 := fresh "s1" in let E1 := fresh "E1" in let I1 := fresh "I1" in
        destruct (s_map_in _ _ _ _ E Hin) as (s1 & E1 & I1);
        exists s1; split; [cbn [mrun]; rewrite E1; reflexivity|exists A1; split; [reflexivity|exact I1]]
    end.

  Ltac skip_case H Hin := inversion H; subst; eexists; split; [reflexivity|eexists; split; [reflexivity|exact Hin]].

  Lemma paths_sound :
    (forall i tr ds r, ipath p i tr ds r -> Pi i tr ds r) /\
    (forall k tr ds r, lpath p k tr ds r -> Pl k tr ds r) /\
    (forall body tr, bpath p body tr -> Pb body tr) /\
    (forall ds tr, dpath p ds tr -> Pd ds tr).
  Proof.
    apply (paths_mutind p
             (fun i tr ds r _ => Pi i tr ds r) (fun k tr ds r _ => Pl k tr ds r)
             (fun body tr _ => Pb body tr) (fun ds tr _ => Pd ds tr));
      unfold Pi, Pl, Pb, Pd, G.
    - (* lock *) intros m0 n A s d0 Hin e f H. rewrite chk_i_eq in H. cbn [chk1] in H. ev_case H Hin.
    - (* unlock *) intros m0 n A s d0 Hin e f H. rewrite chk_i_eq in H. cbn [chk1] in H. ev_case H Hin.
    - (* defer unlock *) intros m0 n A s d0 Hin e f H. rewrite chk_i_eq in H. cbn [chk1 fst snd] in H. skip_case H Hin.
    - (* defer call *) intros f0 n A s d0 Hin e f H. rewrite chk_i_eq in H. cbn [chk1 fst snd] in H. skip_case H Hin.
    - (* read *) intros l n A s d0 Hin e f H. rewrite chk_i_eq in H. cbn [chk1] in H. ev_case H Hin.
    - (* write *) intros l n A s d0 Hin e f H. rewrite chk_i_eq in H. cbn [chk1] in H. ev_case H Hin.
    - (* go *) intros b n A s d0 Hin e f H. rewrite chk_i_eq in H. cbn [chk1] in H.
      destruct (goq b); [|discriminate]. skip_case H Hin.
    - (* chan *) intros o c n A s d0 Hin e f H. rewrite chk_i_eq in H. cbn [chk1] in H. skip_case H Hin.
    - (* wait *) intros w n A s d0 Hin e f H. rewrite chk_i_eq in H. cbn [chk1] in H. skip_case H Hin.
    - (* ext *) intros f0 n A s d0 Hin e f H. rewrite chk_i_eq in H. cbn [chk1] in H. skip_case H Hin.
    - (* call *) intros f0 body tr Hl _ IH n A s d0 Hin e f H. rewrite chk_i_eq in H. cbn [chk1 fst snd] in H.
      destruct (s_bind (cf n f0) A) as [A1|] eqn:E; [|discriminate].
      destruct (s_bind_in _ _ _ _ E Hin) as (B & Ec & Hi).
      destruct (cf_body _ _ _ _ _ Ec Hl) as (n' & -> & Hf).
      destruct (IH n' s B Hf) as (se & Hr & Hse).
      inversion H; subst. exists se. split; [exact Hr|]. exists A1. split; [reflexivity|apply Hi; exact Hse].
    - (* return *) intros n A s d0 Hin e f H. rewrite chk_i_eq in H. cbn [chk1 fst snd] in H.
      destruct (run_defers (cf n) d0 A) as [E1|] eqn:E; [|discriminate].
      inversion H; subst. exists s. split; [reflexivity|]. exists A, e. split; [exact Hin|]. split; [exact E|apply incl_refl].
    - (* if, left *) intros a b tr ds r _ IH n A s d0 Hin e f H. rewrite chk_i_eq in H. cbn [chk1] in H.
      unfold cjoin in H.
      destruct (chk_l (cf n) (A, d0) a) as [|e1 f1] eqn:Ea; [discriminate|].
      destruct (chk_l (cf n) (A, d0) b) as [|e2 f2] eqn:Eb; [discriminate|].
      destruct (fjoin f1 f2) as [f'|] eqn:Mf; [|discriminate].
      inversion H; subst e f'.
      destruct (IH n A s d0 Hin e1 f1 Ea) as (s' & Hr & Hx). exists s'. split; [exact Hr|].
      destruct r.
      + destruct Hx as (As & E & I1 & Hd & Hi). exists As, E. split; [exact I1|]. split; [exact Hd|].
        apply incl_appl. exact Hi.
      + destruct Hx as (A' & -> & I1). unfold fjoin in Mf. destruct f2 as [[A2 d2]|].
        * destruct (deq (ds ++ d0) d2); [|discriminate]. inversion Mf; subst.
          exists (A' ++ A2). split; [reflexivity|apply in_or_app; left; exact I1].
        * inversion Mf; subst. exists A'. split; [reflexivity|exact I1].
    - (* if, right *) intros a b tr ds r _ IH n A s d0 Hin e f H. rewrite chk_i_eq in H. cbn [chk1] in H.
      unfold cjoin in H.
      destruct (chk_l (cf n) (A, d0) a) as [|e1 f1] eqn:Ea; [discriminate|].
      destruct (chk_l (cf n) (A, d0) b) as [|e2 f2] eqn:Eb; [discriminate|].
      destruct (fjoin f1 f2) as [f'|] eqn:Mf; [|discriminate].
      inversion H; subst e f'.
      destruct (IH n A s d0 Hin e2 f2 Eb) as (s' & Hr & Hx). exists s'. split; [exact Hr|].
      destruct r.
      + destruct Hx as (As & E & I1 & Hd & Hi). exists As, E. split; [exact I1|]. split; [exact Hd|].
        apply incl_appr. exact Hi.
      + destruct Hx as (A' & -> & I1). unfold fjoin in Mf. destruct f1 as [[A1 d1]|].
        * destruct (deq d1 (ds ++ d0)) eqn:Ed; [|discriminate]. apply deq_eq in Ed. inversion Mf; subst.
          exists (A1 ++ A'). split; [reflexivity|apply in_or_app; right; exact I1].
        * inversion Mf; subst. exists A'. split; [reflexivity|exact I1].
    - (* loop exit *) intros b n A s d0 Hin e f H. rewrite chk_i_eq in H. cbn [chk1 fst snd] in H.
      destruct (loop_inv_spec _ _ _ _ _ _ H) as (I & fb & Hi & -> & _ & _).
      exists s. split; [reflexivity|]. exists I. split; [reflexivity|apply Hi; exact Hin].
    - (* loop iteration *) intros b tr1 ds1 tr2 ds2 r _ IH1 _ IH2 n A s d0 Hin e f H.
      rewrite chk_i_eq in H. cbn [chk1 fst snd] in H.
      destruct (loop_inv_spec _ _ _ _ _ _ H) as (I & fb & Hi & -> & Hb & Hs).
      destruct (IH1 n I s d0 (Hi s Hin) e fb Hb) as (s1 & Hr1 & A' & Hf1 & I1).
      destruct Hs as [->|(A'' & -> & Hi2)]; [discriminate|].
      inversion Hf1 as [[HA Hd]]. subst A''. symmetry in Hd. apply app_self_nil in Hd. subst ds1.
      assert (Hst : chk_i (cf n) (I, d0) (ILoop b) = CR e (Some (I, d0))).
      { rewrite chk_i_eq. cbn [chk1 fst snd].
        apply (loop_inv_stable _ d0 loop_rounds I e (Some (A', d0)) Hb).
        right. exists A'. split; [reflexivity|exact Hi2]. }
      destruct (IH2 n I s1 d0 (Hi2 s1 I1) e (Some (I, d0)) Hst) as (s2 & Hr2 & Hx2).
      exists s2. split; [rewrite run_app, Hr1; exact Hr2|]. rewrite app_nil_r. exact Hx2.
    - (* loop, returning iteration *) intros b tr ds _ IH n A s d0 Hin e f H.
      rewrite chk_i_eq in H. cbn [chk1 fst snd] in H.
      destruct (loop_inv_spec _ _ _ _ _ _ H) as (I & fb & Hi & -> & Hb & Hs).
      exact (IH n I s d0 (Hi s Hin) e fb Hb).
    - (* nil *) intros n A s d0 Hin e f H. cbn [chk_l] in H. inversion H; subst.
      exists s. split; [reflexivity|]. exists A. split; [reflexivity|exact Hin].
    - (* cons, head returns *) intros i k tr ds _ IH n A s d0 Hin e f H. cbn [chk_l] in H. unfold cseq in H.
      destruct (chk_i (cf n) (A, d0) i) as [|e1 f1] eqn:Ei; [discriminate|].
      destruct (IH n A s d0 Hin e1 f1 Ei) as (s1 & Hr1 & As & E & I1 & Hd & Hie).
      exists s1. split; [exact Hr1|]. exists As, E. split; [exact I1|]. split; [exact Hd|].
      destruct f1 as [a'|].
      + destruct (chk_l (cf n) a' k) as [|e2 f2]; [discriminate|].
        inversion H; subst. apply incl_appl. exact Hie.
      + inversion H; subst. exact Hie.
    - (* cons, sequence *) intros i k tr1 ds1 tr2 ds2 r _ IH1 _ IH2 n A s d0 Hin e f H. cbn [chk_l] in H. unfold cseq in H.
      destruct (chk_i (cf n) (A, d0) i) as [|e1 f1] eqn:Ei; [discriminate|].
      destruct (IH1 n A s d0 Hin e1 f1 Ei) as (s1 & Hr1 & A1 & -> & I1).
      destruct (chk_l (cf n) (A1, ds1 ++ d0) k) as [|e2 f2] eqn:Ek; [discriminate|].
      inversion H; subst e f2.
      destruct (IH2 n A1 s1 (ds1 ++ d0) I1 e2 f Ek) as (s2 & Hr2 & Hx2).
      exists s2. split; [rewrite run_app, Hr1; exact Hr2|].
      rewrite <- app_assoc. destruct r.
      + destruct Hx2 as (As & E & I2 & Hd & Hie). exists As, E. split; [exact I2|]. split; [exact Hd|].
        apply incl_appr. exact Hie.
      + exact Hx2.
    - (* body *) intros body tr ds r dtr _ IHl _ IHd n s E H.
      unfold finish in H.
      destruct (chk_l (cf n) ([s], []) body) as [|e1 f1] eqn:Eb; [discriminate|].
      destruct (IHl n [s] s [] (or_introl eq_refl) e1 f1 Eb) as (s1 & Hr1 & Hx). rewrite app_nil_r in Hx.
      rewrite run_app, Hr1. destruct r.
      + destruct Hx as (As & E1 & I1 & Hd & Hie).
        destruct (IHd n As s1 E1 I1 Hd) as (se & Hrd & Hse). exists se. split; [exact Hrd|].
        destruct f1 as [a'|].
        * destruct (run_defers (cf n) (snd a') (fst a')) as [E2|]; [|discriminate].
          inversion H; subst. apply in_or_app. left. apply Hie. exact Hse.
        * inversion H; subst. apply Hie. exact Hse.
      + destruct Hx as (A' & -> & I1). cbn [fst snd] in H.
        destruct (run_defers (cf n) ds A') as [E2|] eqn:Ed; [|discriminate].
        destruct (IHd n A' s1 E2 I1 Ed) as (se & Hrd & Hse). exists se. split; [exact Hrd|].
        inversion H; subst. apply in_or_app. right. exact Hse.
    - (* no deferred item *) intros n A s E Hin H. cbn in H. inversion H; subst. exists s. split; [reflexivity|exact Hin].
    - (* deferred unlock *) intros m0 ds tr _ IH n A s E Hin H. cbn [run_defers] in H.
      destruct (s_map (fun s0 => delta s0 (EUnlock m0)) A) as [A1|] eqn:Em; [|discriminate].
      destruct (s_map_in _ _ _ _ Em Hin) as (s1 & E1 & I1).
      cbn [mrun]. rewrite E1. exact (IH n A1 s1 E I1 H).
    - (* deferred call *) intros f0 body ds tr1 tr2 Hl _ IHb _ IHd n A s E Hin H. cbn [run_defers] in H.
      destruct (s_bind (cf n f0) A) as [A1|] eqn:Eb; [|discriminate].
      destruct (s_bind_in _ _ _ _ Eb Hin) as (B & Ec & Hi).
      destruct (cf_body _ _ _ _ _ Ec Hl) as (n' & -> & Hf).
      destruct (IHb n' s B Hf) as (s1 & Hr1 & Hs1).
      destruct (IHd (S n') A1 s1 E (Hi s1 Hs1) H) as (se & Hr2 & Hse).
      exists se. split; [rewrite run_app, Hr1; exact Hr2|exact Hse].
  Qed.

  Definition mon_ok (fuel : nat) (f : string) (q0 : Q) (fin : Q -> bool) : bool :=
    match callf fuel f q0 with
    | Some E => forallb fin E
    | None => false
    end.

  Theorem mon_sound : forall fuel f q0 fin body tr,
    mon_ok fuel f q0 fin = true ->
    lookup_body p f = Some body -> bpath p body tr ->
    exists q, mrun q0 tr = Some q /\ fin q = true.
  Proof.
    intros fuel f q0 fin body tr H Hl Hp. unfold mon_ok in H.
    destruct (callf fuel f q0) as [E|] eqn:Ec; [|discriminate].
    destruct (cf_body _ _ _ _ _ Ec Hl) as (n' & -> & Hf).
    destruct (proj1 (proj2 (proj2 paths_sound)) body tr Hp n' _ _ Hf) as (se & Hr & Hse).
    exists se. split; [exact Hr|]. rewrite forallb_forall in H. exact (H se Hse).
  Qed.
End Monitor.
End Mon.
