(* C17 — the atomicity obligations of the discovery / notification model (Wallet/Notify.v) checked on
   the translated source (Gen/FsWalletSync.v, regenerated from pkg/fswallet on every run).

   The Notify model has the atomic steps
     "discover"     [notify_new_files]: scan + insert into addressToFileMap / addressList + snapshot of
                    the listeners  (one call of notifyNewFiles: from Refresh or from the fs event loop)
     [AddListener]  append to the listeners
     [GetAccounts]  read of the address list.
   Its exactly-once theorems quantify over all interleavings of THESE steps.  They speak about the
   Go code only if each step is one critical section there.  Obligation, per method below: every
   access to listeners / addressToFileMap / addressList made by the calling goroutine lies in the
   critical section of "mux" opened by the method's first Lock (checker [atomic_body_ok], proved
   sound for all control-flow paths in Conc/AtomicProofs.v), goroutines it starts touch none of
   them, and the accesses the step consists of are really there ([mentions]: so that moving the
   snapshot out of the method is not accepted vacuously). *)
From Coq Require Import List String Bool.
From FFS Require Import Conc.Lockset Conc.Atomic Conc.AtomicProofs Gen.FsWalletSync Conc.FsWallet.
Import ListNotations.
Open Scope string_scope.
Open Scope list_scope.

Definition discovery_mutex : mutex := "mux".
Definition discovery_locs : list loc := [["listeners"]; ["addressToFileMap"]; ["addressList"]].

(* does the code, calls of wallet methods followed (not the goroutines it starts), contain an
   instruction satisfying t *)
Fixpoint mentions (p : prog) (fuel : nat) (t : instr -> bool) {struct fuel} : instr -> bool :=
  fix mi (i : instr) {struct i} : bool :=
    t i ||
    match i with
    | IIf a b => existsb mi a || existsb mi b
    | ILoop b => existsb mi b
    | ICall f => match fuel with
                 | O => false
                 | S n => match lookup_body p f with
                          | Some body => existsb (mentions p n t) body
                          | None => false
                          end
                 end
    | _ => false
    end.

Definition is_read (l : loc) (i : instr) : bool := match i with IRead l' => meq l l' | _ => false end.
Definition is_write (l : loc) (i : instr) : bool := match i with IWrite l' => meq l l' | _ => false end.

(* the steps of the model and the accesses each consists of *)
Definition atomic_steps : list (string * list (instr -> bool)) := [
  ("notifyNewFiles", [is_read ["listeners"]; is_read ["addressToFileMap"]; is_write ["addressToFileMap"];
                      is_write ["addressList"]]);
  ("Refresh",        [is_read ["listeners"]; is_write ["addressList"]]);
  ("AddListener",    [is_write ["listeners"]]);
  ("GetAccounts",    [is_read ["addressList"]])
].

Definition step_ok (p : prog) (fuel : nat) (st : string * list (instr -> bool)) : bool :=
  let '(f, needs) := st in
  atomic_body_ok p discovery_mutex discovery_locs fuel f &&
  match lookup_body p f with
  | Some body => forallb (fun t => existsb (mentions p fuel t) body) needs
  | None => false
  end.

(* The callers of the discovery step (Refresh, the fs event loop — whatever body contains a call of
   notifyNewFiles) do no part of it themselves: outside notifyNewFiles they, the methods they call
   and the goroutines they start make no access to a watched location.  (Refresh calls the step
   conditionally, so it is not itself a path-independent critical section; this is the obligation
   that hoisting the snapshot or the insertion into a caller would break.) *)
Fixpoint mentions_out (p : prog) (fuel : nat) (stop : list string) (t : instr -> bool) {struct fuel} : instr -> bool :=
  fix mi (i : instr) {struct i} : bool :=
    t i ||
    match i with
    | IIf a b => existsb mi a || existsb mi b
    | ILoop b => existsb mi b
    | IGo b => existsb mi b
    | ICall f | IDeferCall f =>
        if existsb (String.eqb f) stop then false else
        match fuel with
        | O => true                                     (* not explored: not accepted *)
        | S n => match lookup_body p f with
                 | Some body => existsb (mentions_out p n stop t) body
                 | None => true
                 end
        end
    | _ => false
    end.

Definition is_call (f : string) (i : instr) : bool := match i with ICall g => String.eqb f g | _ => false end.
Definition watched_access (i : instr) : bool :=
  match i with IRead l | IWrite l => watched discovery_locs l | _ => false end.

Definition caller_ok (p : prog) (fuel : nat) (nb : string * list instr) : bool :=
  let '(name, body) := nb in
  if negb (String.eqb name "notifyNewFiles") && any_l (is_call "notifyNewFiles") body
  then negb (existsb (mentions_out p fuel ["notifyNewFiles"] watched_access) body)
  else true.

Definition steps_atomic_ok (p : prog) (fuel : nat) : bool :=
  forallb (step_ok p fuel) atomic_steps && forallb (caller_ok p fuel) p.

(* which obligations fail (for the message of the check; [] when all hold) *)
Definition steps_broken (p : prog) (fuel : nat) : list string :=
  map fst (filter (fun st => negb (step_ok p fuel st)) atomic_steps) ++
  map (fun nb => String.append "caller " (fst nb)) (filter (fun nb => negb (caller_ok p fuel nb)) p).

Lemma filter_negb_nil : forall A (f : A -> bool) l, filter (fun x => negb (f x)) l = [] -> forallb f l = true.
Proof.
  induction l as [|x l IH]; intros H; [reflexivity|].
  cbn [filter forallb] in *. destruct (f x); cbn in H; [exact (IH H)|discriminate].
Qed.

(* the check is run in this form, so that a failure names the broken obligations *)
Lemma steps_broken_nil : forall p fuel, steps_broken p fuel = [] -> steps_atomic_ok p fuel = true.
Proof.
  intros p fuel H. unfold steps_broken in H. apply app_eq_nil in H. destruct H as [A B].
  apply map_eq_nil in A. apply map_eq_nil in B.
  unfold steps_atomic_ok. rewrite (filter_negb_nil _ _ _ A), (filter_negb_nil _ _ _ B). reflexivity.
Qed.

Theorem steps_atomic_sound : forall p fuel,
  steps_atomic_ok p fuel = true ->
  forall f needs body tr, In (f, needs) atomic_steps ->
    lookup_body p f = Some body -> bpath p body tr ->
    tr_atomic discovery_mutex discovery_locs tr /\
    (exists s, ev_run discovery_mutex discovery_locs (mkR false 0) tr = Some s /\ r_held s = false) /\
    (forall pre l w post, tr = pre ++ EAcc l w :: post -> watched discovery_locs l = true ->
       List.length (filter (is_lock discovery_mutex) pre) = 1 /\ held_after discovery_mutex false pre = true).
Proof.
  intros p fuel H f needs body tr Hin Hl Hp.
  unfold steps_atomic_ok in H. apply andb_true_iff in H. destruct H as [H _]. rewrite forallb_forall in H. specialize (H _ Hin).
  unfold step_ok in H. apply andb_true_iff in H. destruct H as [Ha _].
  destruct (atomic_sound p discovery_mutex discovery_locs fuel f body tr Ha Hl Hp) as [A B].
  split; [exact A|]. split; [exact B|].
  intros pre l w post Ht Hw.
  exact (tr_atomic_spelled_out discovery_mutex discovery_locs tr pre l w post A Ht Hw).
Qed.
