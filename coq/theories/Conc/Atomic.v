(* C17 — atomicity obligations over the translated synchronisation structure.

   The exactly-once theorems of Wallet/NotifyProofs.v are about a model whose step "discover"
   ([Notify.notify_new_files]: scan the files, insert the new addresses into the map and the list,
   snapshot the listeners) and whose steps [AddListener] / [GetAccounts] are ATOMIC.  The lockset
   theorem (no data race) does not justify that: a method may take the mutex twice — snapshot the
   listeners in one critical section and insert the addresses in another — without any race, and
   an AddListener landing between the two is then registered before the address appears yet is not
   in the snapshot (seed C17-2).  What justifies the model's atomic steps is stated here as a
   property of every control-flow path of the translated method, calls of other wallet methods
   expanded, deferred unlocks run at the end of each body:

     every access to a watched location (listeners, addressToFileMap, addressList) made by the
     goroutine running the method happens while the mutex is held and after exactly ONE Lock of it
     since the method was entered

   i.e. all of them lie in the critical section opened by the method's first Lock (held + one Lock
   so far = that section has not been closed: to hold the mutex again after an Unlock takes a
   second Lock).  [atomic_body_ok] is the decidable check, [atomic_sound] the reflective theorem:
   accepted => the property holds on EVERY path (any branch outcomes, any number of loop iterations,
   any depth of calls).  Goroutines started by the method contribute no events to its own trace; the
   checker additionally requires them not to touch the watched locations nor call back into the
   wallet ([go_clean]: the snapshot they use was taken by the method itself).

   The check is a collecting analysis: at each program point the SET of automaton states (mutex held?
   number of Locks so far) in which some path can arrive, so that an early return in front of the
   Lock, a critical section under a condition or a conditional call of the step are accepted; a loop
   needs an invariant set (found by at most [loop_rounds] rounds of accumulation); the deferred items
   registered have to be the same on all paths that meet. *)
From Coq Require Import List String Bool Arith Lia.
From FFS Require Import Conc.Lockset Conc.LocksetProofs.
Import ListNotations.
Open Scope string_scope.
Open Scope list_scope.

(* ---------------------------------------------------------------------------------------------- *)
(* events of one goroutine, and the automaton that reads them *)

Inductive ev := ELock (m : mutex) | EUnlock (m : mutex) | EAcc (l : loc) (w : bool).

Record rst := mkR { r_held : bool; r_locks : nat }.   (* mutex held?  Locks of it executed so far *)

Definition rst_eqb (x y : rst) : bool := Bool.eqb (r_held x) (r_held y) && Nat.eqb (r_locks x) (r_locks y).

Section Automaton.
  Variable m : mutex.            (* the mutex whose critical sections are considered *)
  Variable L : list loc.         (* the watched locations *)

  Definition watched (l : loc) : bool := existsb (overlap l) L.

  Definition ev_step (s : rst) (e : ev) : option rst :=
    match e with
    | ELock m' => if String.eqb m' m then Some (mkR true (S (r_locks s))) else Some s
    | EUnlock m' => if String.eqb m' m then Some (mkR false (r_locks s)) else Some s
    | EAcc l _ => if watched l then (if r_held s && Nat.eqb (r_locks s) 1 then Some s else None) else Some s
    end.

  Fixpoint ev_run (s : rst) (tr : list ev) : option rst :=
    match tr with
    | [] => Some s
    | e :: t => match ev_step s e with Some s' => ev_run s' t | None => None end
    end.

  (* the property of a complete trace of a method *)
  Definition tr_atomic (tr : list ev) : Prop := ev_run (mkR false 0) tr <> None.

  (* ... spelled out: in front of every watched access there is exactly one Lock of m, and no
     Unlock of m after it *)
  Definition is_lock (e : ev) : bool := match e with ELock m' => String.eqb m' m | _ => false end.
  Definition is_unlock (e : ev) : bool := match e with EUnlock m' => String.eqb m' m | _ => false end.
  Fixpoint held_after (h : bool) (tr : list ev) : bool :=
    match tr with
    | [] => h
    | e :: t => held_after (if is_lock e then true else if is_unlock e then false else h) t
    end.
End Automaton.

(* ---------------------------------------------------------------------------------------------- *)
(* complete control-flow paths of a body, calls expanded: events, deferred items registered (latest
   first), and whether the path ended in a return *)

Section Paths.
  Variable p : prog.

  Inductive ipath : instr -> list ev -> list ditem -> bool -> Prop :=
  | IP_lock : forall m, ipath (ILock m) [ELock m] [] false
  | IP_unlock : forall m, ipath (IUnlock m) [EUnlock m] [] false
  | IP_defu : forall m, ipath (IDeferUnlock m) [] [DUnlock m] false
  | IP_defc : forall f, ipath (IDeferCall f) [] [DCall f] false
  | IP_read : forall l, ipath (IRead l) [EAcc l false] [] false
  | IP_write : forall l, ipath (IWrite l) [EAcc l true] [] false
  | IP_go : forall b, ipath (IGo b) [] [] false                 (* another goroutine's events *)
  | IP_chan : forall o c, ipath (IChan o c) [] [] false
  | IP_wait : forall w, ipath (IWait w) [] [] false
  | IP_ext : forall f, ipath (IExt f) [] [] false
  | IP_call : forall f body tr, lookup_body p f = Some body -> bpath body tr -> ipath (ICall f) tr [] false
  | IP_ret : ipath IReturn [] [] true
  | IP_if_l : forall a b tr ds r, lpath a tr ds r -> ipath (IIf a b) tr ds r
  | IP_if_r : forall a b tr ds r, lpath b tr ds r -> ipath (IIf a b) tr ds r
  | IP_loop_exit : forall b, ipath (ILoop b) [] [] false
  | IP_loop_iter : forall b tr1 ds1 tr2 ds2 r,
      lpath b tr1 ds1 false -> ipath (ILoop b) tr2 ds2 r -> ipath (ILoop b) (tr1 ++ tr2) (ds2 ++ ds1) r
  | IP_loop_ret : forall b tr ds, lpath b tr ds true -> ipath (ILoop b) tr ds true
  with lpath : list instr -> list ev -> list ditem -> bool -> Prop :=
  | LP_nil : lpath [] [] [] false
  | LP_ret : forall i k tr ds, ipath i tr ds true -> lpath (i :: k) tr ds true
  | LP_seq : forall i k tr1 ds1 tr2 ds2 r,
      ipath i tr1 ds1 false -> lpath k tr2 ds2 r -> lpath (i :: k) (tr1 ++ tr2) (ds2 ++ ds1) r
  (* a complete run of a body: a path to its end or to a return, then the deferred items, last first *)
  with bpath : list instr -> list ev -> Prop :=
  | BP : forall body tr ds r dtr, lpath body tr ds r -> dpath ds dtr -> bpath body (tr ++ dtr)
  with dpath : list ditem -> list ev -> Prop :=
  | DP_nil : dpath [] []
  | DP_unlock : forall m ds tr, dpath ds tr -> dpath (DUnlock m :: ds) (EUnlock m :: tr)
  | DP_call : forall f body ds tr1 tr2,
      lookup_body p f = Some body -> bpath body tr1 -> dpath ds tr2 -> dpath (DCall f :: ds) (tr1 ++ tr2).

  Scheme ipath_mut := Induction for ipath Sort Prop
  with lpath_mut := Induction for lpath Sort Prop
  with bpath_mut := Induction for bpath Sort Prop
  with dpath_mut := Induction for dpath Sort Prop.
  Combined Scheme paths_mutind from ipath_mut, lpath_mut, bpath_mut, dpath_mut.
End Paths.

(* ---------------------------------------------------------------------------------------------- *)
(* the checker: a collecting analysis.  At each program point it holds the SET of automaton states
   in which some path can arrive (an early return in front of the Lock, a critical section under a
   condition, a conditional call make the state path dependent), and the deferred items registered
   (which have to be the same on all paths). *)

Definition sset := list rst.
Definition cst := (sset * list ditem)%type.
Inductive cres := CFail | CR (exits : sset) (fall : option cst).
   (* exits: the states in which the paths that return leave the body (after their deferred items);
      fall: the states in which the paths that reach the end of this piece of code continue *)

Definition s_mem (s : rst) (A : sset) : bool := existsb (rst_eqb s) A.
Definition s_subset (A B : sset) : bool := forallb (fun s => s_mem s B) A.

(* all-or-nothing map over a set *)
Fixpoint s_map (f : rst -> option rst) (A : sset) : option sset :=
  match A with
  | [] => Some []
  | s :: t => match f s, s_map f t with Some s', Some t' => Some (s' :: t') | _, _ => None end
  end.
Fixpoint s_bind (f : rst -> option sset) (A : sset) : option sset :=
  match A with
  | [] => Some []
  | s :: t => match f s, s_bind f t with Some B, Some t' => Some (B ++ t') | _, _ => None end
  end.

Definition fjoin (f1 f2 : option cst) : option (option cst) :=
  match f1, f2 with
  | None, z => Some z
  | z, None => Some z
  | Some (A1, d1), Some (A2, d2) => if deq d1 d2 then Some (Some (A1 ++ A2, d1)) else None
  end.

Definition cjoin (ra rb : cres) : cres :=
  match ra, rb with
  | CR e1 f1, CR e2 f2 => match fjoin f1 f2 with Some f => CR (e1 ++ e2) f | None => CFail end
  | _, _ => CFail
  end.

(* accesses to watched locations, calls and deferred calls anywhere in a piece of code *)
Fixpoint touches_i (wl : loc -> bool) (i : instr) {struct i} : bool :=
  match i with
  | IRead l | IWrite l => wl l
  | ICall _ | IDeferCall _ => true
  | IGo b => existsb (touches_i wl) b
  | IIf a b => existsb (touches_i wl) a || existsb (touches_i wl) b
  | ILoop b => existsb (touches_i wl) b
  | _ => false
  end.
Definition go_clean (wl : loc -> bool) (body : list instr) : bool := negb (existsb (touches_i wl) body).

Definition loop_rounds : nat := 3.   (* attempts to find the invariant set of a loop *)

Section Checker.
  Variable p : prog.
  Variable m : mutex.
  Variable L : list loc.

  Section Body.
    (* [callf f s]: every complete run of body f started in state s is accepted and ends in one of these *)
    Variable callf : string -> rst -> option sset.

    Fixpoint run_defers (ds : list ditem) (A : sset) : option sset :=
      match ds with
      | [] => Some A
      | DUnlock m' :: t => match s_map (fun s => ev_step m L s (EUnlock m')) A with Some A' => run_defers t A' | None => None end
      | DCall f :: t => match s_bind (callf f) A with Some A' => run_defers t A' | None => None end
      end.

    Definition ev1 (a : cst) (e : ev) : cres :=
      match s_map (fun s => ev_step m L s e) (fst a) with Some A' => CR [] (Some (A', snd a)) | None => CFail end.

    (* the loop: find a set I containing the entry states that the body maps into itself *)
    Fixpoint loop_inv (body_chk : sset -> cres) (ds : list ditem) (k : nat) (I : sset) : cres :=
      match body_chk I with
      | CFail => CFail
      | CR e None => CR e (Some (I, ds))
      | CR e (Some (A', ds')) =>
          if deq ds ds' then
            if s_subset A' I then CR e (Some (I, ds))
            else match k with O => CFail | S k' => loop_inv body_chk ds k' (I ++ A') end
          else CFail
      end.

    Definition chk1 (rec : cst -> list instr -> cres) (a : cst) (i : instr) : cres :=
      match i with
      | ILock m' => ev1 a (ELock m')
      | IUnlock m' => ev1 a (EUnlock m')
      | IDeferUnlock m' => CR [] (Some (fst a, DUnlock m' :: snd a))
      | IDeferCall f => CR [] (Some (fst a, DCall f :: snd a))
      | IRead l => ev1 a (EAcc l false)
      | IWrite l => ev1 a (EAcc l true)
      | IGo body => if go_clean (watched L) body then CR [] (Some a) else CFail
      | IChan _ _ => CR [] (Some a)
      | IWait _ => CR [] (Some a)
      | IExt _ => CR [] (Some a)
      | ICall f => match s_bind (callf f) (fst a) with Some A' => CR [] (Some (A', snd a)) | None => CFail end
      | IIf x y => cjoin (rec a x) (rec a y)
      | ILoop body => loop_inv (fun I => rec (I, snd a) body) (snd a) loop_rounds (fst a)
      | IReturn => match run_defers (snd a) (fst a) with Some E => CR E None | None => CFail end
      end.

    Definition cseq (r : cres) (k : cst -> cres) : cres :=
      match r with
      | CFail => CFail
      | CR e None => CR e None
      | CR e (Some a') =>
          match k a' with
          | CFail => CFail
          | CR e' f' => CR (e ++ e') f'
          end
      end.

    Fixpoint chk_i (a : cst) (i : instr) {struct i} : cres :=
      let rec := fix chk_l (a : cst) (code : list instr) {struct code} : cres :=
        match code with
        | [] => CR [] (Some a)
        | i :: k => cseq (chk_i a i) (fun a' => chk_l a' k)
        end in
      match i with
      | ILock m' => ev1 a (ELock m')
      | IUnlock m' => ev1 a (EUnlock m')
      | IDeferUnlock m' => CR [] (Some (fst a, DUnlock m' :: snd a))
      | IDeferCall f => CR [] (Some (fst a, DCall f :: snd a))
      | IRead l => ev1 a (EAcc l false)
      | IWrite l => ev1 a (EAcc l true)
      | IGo body => if go_clean (watched L) body then CR [] (Some a) else CFail
      | IChan _ _ => CR [] (Some a)
      | IWait _ => CR [] (Some a)
      | IExt _ => CR [] (Some a)
      | ICall f => match s_bind (callf f) (fst a) with Some A' => CR [] (Some (A', snd a)) | None => CFail end
      | IIf x y => cjoin (rec a x) (rec a y)
      | ILoop body => loop_inv (fun I => rec (I, snd a) body) (snd a) loop_rounds (fst a)
      | IReturn => match run_defers (snd a) (fst a) with Some E => CR E None | None => CFail end
      end.

    Fixpoint chk_l (a : cst) (code : list instr) {struct code} : cres :=
      match code with
      | [] => CR [] (Some a)
      | i :: k => cseq (chk_i a i) (fun a' => chk_l a' k)
      end.

    Lemma chk_i_eq : forall a i, chk_i a i = chk1 chk_l a i.
    Proof. intros a i. destruct i; reflexivity. Qed.

    (* the states in which a whole body, analysed to [r], can leave *)
    Definition finish (r : cres) : option sset :=
      match r with
      | CFail => None
      | CR e None => Some e
      | CR e (Some a') =>
          match run_defers (snd a') (fst a') with
          | None => None
          | Some E => Some (e ++ E)
          end
      end.
  End Body.

  Fixpoint callf (fuel : nat) (f : string) (s : rst) : option sset :=
    match fuel with
    | O => None
    | S n => match lookup_body p f with
             | Some body => finish (callf n) (chk_l (callf n) ([s], []) body)
             | None => None
             end
    end.

  (* method f, entered without the mutex, is accepted, and leaves without it whichever way it takes *)
  Definition atomic_body_ok (fuel : nat) (f : string) : bool :=
    match callf fuel f (mkR false 0) with
    | Some E => forallb (fun s => negb (r_held s)) E
    | None => false
    end.
End Checker.
