(* C17 — the must-analysis of Conc/FsWallet.v ([must_l]) is sound for ALL control-flow paths of a
   structured body (any number of loop iterations, any branch outcomes): if it answers [Some true]
   then every complete path — one that falls off the end or returns — contains an instruction that
   closes the channel or starts the goroutine bound to close it. *)
From Coq Require Import List String Bool.
From FFS Require Import Conc.Lockset Conc.FsWallet.
Import ListNotations.
Open Scope string_scope.
Open Scope list_scope.

(* complete paths through structured code: the sequence of non-control instructions executed, and
   whether the path ended in a return *)
Inductive ipath : instr -> list instr -> bool -> Prop :=
| IP_ret : ipath IReturn [IReturn] true
| IP_if_l : forall a b tr r, lpath a tr r -> ipath (IIf a b) tr r
| IP_if_r : forall a b tr r, lpath b tr r -> ipath (IIf a b) tr r
| IP_loop_exit : forall b, ipath (ILoop b) [] false
| IP_loop_iter : forall b tr1 tr2 r, lpath b tr1 false -> ipath (ILoop b) tr2 r -> ipath (ILoop b) (tr1 ++ tr2) r
| IP_loop_ret : forall b tr, lpath b tr true -> ipath (ILoop b) tr true
| IP_simple : forall i, (match i with IReturn | IIf _ _ | ILoop _ => False | _ => True end) -> ipath i [i] false
with lpath : list instr -> list instr -> bool -> Prop :=
| LP_nil : lpath [] [] false
| LP_ret : forall i k tr, ipath i tr true -> lpath (i :: k) tr true
| LP_seq : forall i k tr1 tr2 r, ipath i tr1 false -> lpath k tr2 r -> lpath (i :: k) (tr1 ++ tr2) r.

Scheme ipath_mut := Induction for ipath Sort Prop
with lpath_mut := Induction for lpath Sort Prop.

Section Sound.
  Variable p : prog.
  Variable c : string.

  Definition closes (i : instr) : bool := is_chan ChClose c i || spawns_closer p c i.
  Definition tr_done (tr : list instr) : bool := existsb closes tr.

  Lemma tr_done_app : forall a b, tr_done (a ++ b) = tr_done a || tr_done b.
  Proof. intros. unfold tr_done. apply existsb_app. Qed.

  Lemma must_l_cons : forall d i k,
    must_l p c d (i :: k) = match must_i p c d i with Some d' => must_l p c d' k | None => None end.
  Proof. reflexivity. Qed.

  (* the local fixpoint inside must_i is must_l *)
  Lemma must_i_if : forall d a b,
    must_i p c d (IIf a b) = match must_l p c d a, must_l p c d b with
                             | Some x, Some y => Some (x && y) | _, _ => None end.
  Proof. reflexivity. Qed.
  Lemma must_i_loop : forall d b,
    must_i p c d (ILoop b) = match must_l p c d b with Some _ => Some d | None => None end.
  Proof. reflexivity. Qed.

  Lemma must_i_simple : forall d i,
    (match i with IReturn | IIf _ _ | ILoop _ => False | _ => True end) ->
    exists d', must_i p c d i = Some d' /\ (d' = true -> d || closes i = true).
  Proof.
    intros d i Hs. destruct i; try contradiction; cbn [must_i];
      try (exists d; split; [reflexivity|intros ->; reflexivity]).
    - (* IGo *) eexists. split; [reflexivity|]. unfold closes. intros H. cbn [is_chan]. exact H.
    - (* IChan *) destruct op; try (exists d; split; [reflexivity|intros ->; reflexivity]).
      eexists. split; [reflexivity|]. unfold closes. cbn [is_chan spawns_closer].
      intros H. rewrite orb_false_r. rewrite andb_true_r. exact H.
  Qed.

  Definition goal (d : bool) (res : option bool) (tr : list instr) (r : bool) : Prop :=
    forall d', res = Some d' ->
      if r then d || tr_done tr = true else (d' = true -> d || tr_done tr = true).

  Lemma must_sound_mut :
    (forall i tr r, ipath i tr r -> forall d, goal d (must_i p c d i) tr r) /\
    (forall k tr r, lpath k tr r -> forall d, goal d (must_l p c d k) tr r).
  Proof.
    split.
    - apply (ipath_mut
               (fun i tr r _ => forall d, goal d (must_i p c d i) tr r)
               (fun k tr r _ => forall d, goal d (must_l p c d k) tr r)); unfold goal.
      + (* return *) intros d d' H. cbn [must_i] in H. destruct d; [reflexivity|discriminate].
      + (* if left *) intros a b tr r _ IH d d' H. rewrite must_i_if in H.
        destruct (must_l p c d a) as [x|] eqn:Ea; [|discriminate].
        destruct (must_l p c d b) as [y|] eqn:Eb; [|discriminate]. inversion H; subst d'.
        specialize (IH d x Ea). destruct r; auto.
        intros Hxy. apply andb_true_iff in Hxy. apply IH. tauto.
      + (* if right *) intros a b tr r _ IH d d' H. rewrite must_i_if in H.
        destruct (must_l p c d a) as [x|] eqn:Ea; [|discriminate].
        destruct (must_l p c d b) as [y|] eqn:Eb; [|discriminate]. inversion H; subst d'.
        specialize (IH d y Eb). destruct r; auto.
        intros Hxy. apply andb_true_iff in Hxy. apply IH. tauto.
      + (* loop exit *) intros b d d' H. rewrite must_i_loop in H.
        destruct (must_l p c d b); [|discriminate]. inversion H; subst d'.
        intros ->. reflexivity.
      + (* loop iteration *) intros b tr1 tr2 r _ IH1 _ IH2 d d' H.
        specialize (IH2 d d' H). rewrite tr_done_app.
        destruct r.
        * rewrite orb_assoc. rewrite (orb_comm (d || tr_done tr1)). rewrite orb_assoc.
          rewrite (orb_comm (tr_done tr2)). rewrite IH2. reflexivity.
        * intros Hd. specialize (IH2 Hd). rewrite orb_assoc. rewrite (orb_comm (d || tr_done tr1)).
          rewrite orb_assoc. rewrite (orb_comm (tr_done tr2)). rewrite IH2. reflexivity.
      + (* loop, returning iteration *) intros b tr _ IH d d' H. rewrite must_i_loop in H.
        destruct (must_l p c d b) as [x|] eqn:Eb; [|discriminate].
        exact (IH d x Eb).
      + (* simple *) intros i Hs d d' H.
        destruct (must_i_simple d i Hs) as (d2 & E & Hd2). rewrite E in H. inversion H; subst d2.
        intros Hd. unfold tr_done. cbn [existsb]. rewrite orb_false_r. auto.
      + (* nil *) intros d d' H. cbn in H. inversion H; subst. intros ->. reflexivity.
      + (* cons, head returns *) intros i k tr _ IH d d' H. rewrite must_l_cons in H.
        destruct (must_i p c d i) as [x|] eqn:Ei; [|discriminate].
        exact (IH d x Ei).
      + (* cons, sequence *) intros i k tr1 tr2 r _ IH1 _ IH2 d d' H. rewrite must_l_cons in H.
        destruct (must_i p c d i) as [x|] eqn:Ei; [|discriminate].
        specialize (IH1 d x Ei). cbn beta iota in IH1.
        specialize (IH2 x d' H). rewrite tr_done_app.
        destruct r.
        * destruct x.
          -- rewrite orb_assoc. rewrite (IH1 eq_refl). reflexivity.
          -- cbn [orb] in IH2. rewrite IH2. rewrite !orb_true_r. reflexivity.
        * intros Hd. specialize (IH2 Hd). destruct x.
          -- rewrite orb_assoc. rewrite (IH1 eq_refl). reflexivity.
          -- cbn [orb] in IH2. rewrite IH2. rewrite !orb_true_r. reflexivity.
    - apply (lpath_mut
               (fun i tr r _ => forall d, goal d (must_i p c d i) tr r)
               (fun k tr r _ => forall d, goal d (must_l p c d k) tr r)); unfold goal.
      + intros d d' H. cbn [must_i] in H. destruct d; [reflexivity|discriminate].
      + intros a b tr r _ IH d d' H. rewrite must_i_if in H.
        destruct (must_l p c d a) as [x|] eqn:Ea; [|discriminate].
        destruct (must_l p c d b) as [y|] eqn:Eb; [|discriminate]. inversion H; subst d'.
        specialize (IH d x Ea). destruct r; auto.
        intros Hxy. apply andb_true_iff in Hxy. apply IH. tauto.
      + intros a b tr r _ IH d d' H. rewrite must_i_if in H.
        destruct (must_l p c d a) as [x|] eqn:Ea; [|discriminate].
        destruct (must_l p c d b) as [y|] eqn:Eb; [|discriminate]. inversion H; subst d'.
        specialize (IH d y Eb). destruct r; auto.
        intros Hxy. apply andb_true_iff in Hxy. apply IH. tauto.
      + intros b d d' H. rewrite must_i_loop in H.
        destruct (must_l p c d b); [|discriminate]. inversion H; subst d'.
        intros ->. reflexivity.
      + intros b tr1 tr2 r _ IH1 _ IH2 d d' H.
        specialize (IH2 d d' H). rewrite tr_done_app.
        destruct r.
        * rewrite orb_assoc. rewrite (orb_comm (d || tr_done tr1)). rewrite orb_assoc.
          rewrite (orb_comm (tr_done tr2)). rewrite IH2. reflexivity.
        * intros Hd. specialize (IH2 Hd). rewrite orb_assoc. rewrite (orb_comm (d || tr_done tr1)).
          rewrite orb_assoc. rewrite (orb_comm (tr_done tr2)). rewrite IH2. reflexivity.
      + intros b tr _ IH d d' H. rewrite must_i_loop in H.
        destruct (must_l p c d b) as [x|] eqn:Eb; [|discriminate].
        exact (IH d x Eb).
      + intros i Hs d d' H.
        destruct (must_i_simple d i Hs) as (d2 & E & Hd2). rewrite E in H. inversion H; subst d2.
        intros Hd. unfold tr_done. cbn [existsb]. rewrite orb_false_r. auto.
      + intros d d' H. cbn in H. inversion H; subst. intros ->. reflexivity.
      + intros i k tr _ IH d d' H. rewrite must_l_cons in H.
        destruct (must_i p c d i) as [x|] eqn:Ei; [|discriminate].
        exact (IH d x Ei).
      + intros i k tr1 tr2 r _ IH1 _ IH2 d d' H. rewrite must_l_cons in H.
        destruct (must_i p c d i) as [x|] eqn:Ei; [|discriminate].
        specialize (IH1 d x Ei). cbn beta iota in IH1.
        specialize (IH2 x d' H). rewrite tr_done_app.
        destruct r.
        * destruct x.
          -- rewrite orb_assoc. rewrite (IH1 eq_refl). reflexivity.
          -- cbn [orb] in IH2. rewrite IH2. rewrite !orb_true_r. reflexivity.
        * intros Hd. specialize (IH2 Hd). destruct x.
          -- rewrite orb_assoc. rewrite (IH1 eq_refl). reflexivity.
          -- cbn [orb] in IH2. rewrite IH2. rewrite !orb_true_r. reflexivity.
  Qed.

  (* every complete control-flow path of an accepted body takes care of the channel *)
  Theorem must_sound : forall body tr r,
    must_l p c false body = Some true -> lpath body tr r -> tr_done tr = true.
  Proof.
    intros body tr r Hm Hp. pose proof (proj2 must_sound_mut body tr r Hp false true Hm) as G.
    destruct r; cbn [orb] in G; auto.
  Qed.
End Sound.
