(* C17 — lockset discipline for goroutine programs, once and for all.

   A program is a table of named bodies (methods / closures), made of the synchronisation-relevant
   instructions that harness/cmd/gen_locks extracts from Go source: Lock / Unlock / defer Unlock /
   defer call, receiver-field Read / Write, go (spawn), channel operations, calls, with branches and
   loops kept (both nondeterministic here: every outcome of every condition is explored).

   [run] is a small-step interleaving semantics for any number of threads under an arbitrary
   schedule.  [chk] is a static checker computing the lockset at every program point (calls are
   analysed in the context of the caller's lockset, branches must rejoin with equal locksets, a
   loop body must preserve it).  [lockset_sound]: if the checker accepts, then for EVERY schedule
   no reachable state has two distinct threads about to access overlapping locations with one of
   them writing (a data race), and (non-blocking variant) no thread is ever about to block
   (channel operation, Lock) while holding a mutex.

   Invariants of the proof: (i) each thread's dynamically held list equals the statically computed
   lockset at its program point, frame by frame ([stack_ok]); (ii) a mutex is held by at most one
   thread ([excl]).  *)
From Coq Require Import List String Bool Arith Lia.
Import ListNotations.
Open Scope string_scope.
Open Scope list_scope.

Definition mutex := string.
Definition loc := list string.        (* receiver-field path: w.conf.Metadata.Format = ["conf";"Metadata";"Format"] *)

Inductive chanop := ChSend | ChRecv | ChClose | ChSelect.

Inductive instr :=
| ILock (m : mutex)
| IUnlock (m : mutex)
| IDeferUnlock (m : mutex)
| IDeferCall (f : string)              (* defer <closure or method>() *)
| IRead (l : loc)
| IWrite (l : loc)
| IGo (body : list instr)              (* go func(){...}()  /  go w.m(...) *)
| IChan (op : chanop) (c : string)     (* may block *)
| IWait (what : string)                (* other blocking wait (WaitGroup, Cond, time.Sleep ...) *)
| ICall (f : string)                   (* call of a body of the program *)
| IExt (f : string)                    (* call into a library / non-receiver function: no shared wallet state *)
| IIf (a b : list instr)
| ILoop (body : list instr)
| IReturn.

Definition prog := list (string * list instr).

Fixpoint lookup_body (p : prog) (f : string) : option (list instr) :=
  match p with
  | [] => None
  | (g, b) :: t => if String.eqb g f then Some b else lookup_body t f
  end.

(* ---------------------------------------------------------------------------------------------- *)
(* lists of mutexes as sets *)

Fixpoint mem (m : mutex) (h : list mutex) : bool :=
  match h with [] => false | x :: t => String.eqb x m || mem m t end.
Fixpoint remove_m (m : mutex) (h : list mutex) : list mutex :=
  match h with [] => [] | x :: t => if String.eqb x m then remove_m m t else x :: remove_m m t end.
Fixpoint meq (a b : list mutex) : bool :=
  match a, b with
  | [], [] => true
  | x :: a', y :: b' => String.eqb x y && meq a' b'
  | _, _ => false
  end.

Fixpoint prefix (a b : loc) : bool :=
  match a, b with
  | [], _ => true
  | x :: a', y :: b' => String.eqb x y && prefix a' b'
  | _ :: _, [] => false
  end.
(* two paths denote overlapping memory when one is a prefix of the other *)
Definition overlap (a b : loc) : bool := prefix a b || prefix b a.

(* ---------------------------------------------------------------------------------------------- *)
(* semantics *)

Inductive ditem := DUnlock (m : mutex) | DCall (f : string).
Definition ditem_instr (d : ditem) : instr :=
  match d with DUnlock m => IUnlock m | DCall f => ICall f end.

Record frame := mkFrame { f_code : list instr; f_defers : list ditem }.
Record thread := mkThread { t_held : list mutex; t_stack : list frame }.
Record state := mkSt { threads : nat -> option thread; next_tid : nat }.

Definition upd (ts : nat -> option thread) (t : nat) (th : thread) : nat -> option thread :=
  fun x => if Nat.eqb x t then Some th else ts x.

(* no thread holds m *)
Definition is_free (s : state) (m : mutex) : Prop :=
  forall t th, threads s t = Some th -> mem m (t_held th) = false.

(* Unlock releases the mutex whoever holds it (sync.Mutex is not owner-bound) *)
Definition release_all (ts : nat -> option thread) (m : mutex) : nat -> option thread :=
  fun x => match ts x with
           | Some th => Some (mkThread (remove_m m (t_held th)) (t_stack th))
           | None => None
           end.

(* [step p s t choice s']: thread t takes one step; [choice] resolves branches and loop exits *)
Inductive step (p : prog) (s : state) (t : nat) (choice : bool) : state -> Prop :=
| S_pop : forall h c rest,                       (* end of body or return, no defers left: pop *)
    threads s t = Some (mkThread h (mkFrame c [] :: rest)) ->
    (c = [] \/ exists k, c = IReturn :: k) ->
    step p s t choice (mkSt (upd (threads s) t (mkThread h rest)) (next_tid s))
| S_defers : forall h c d ds rest,                 (* end of body or return: run the deferred items, last first *)
    threads s t = Some (mkThread h (mkFrame c (d :: ds) :: rest)) ->
    (c = [] \/ exists k, c = IReturn :: k) ->
    step p s t choice (mkSt (upd (threads s) t (mkThread h (mkFrame (map ditem_instr (d :: ds)) [] :: rest))) (next_tid s))
| S_lock : forall h m k d rest,
    threads s t = Some (mkThread h (mkFrame (ILock m :: k) d :: rest)) ->
    is_free s m ->
    step p s t choice (mkSt (upd (threads s) t (mkThread (m :: h) (mkFrame k d :: rest))) (next_tid s))
| S_unlock : forall h m k d rest,
    threads s t = Some (mkThread h (mkFrame (IUnlock m :: k) d :: rest)) ->
    step p s t choice (mkSt (release_all (upd (threads s) t (mkThread h (mkFrame k d :: rest))) m) (next_tid s))
| S_defer_unlock : forall h m k d rest,
    threads s t = Some (mkThread h (mkFrame (IDeferUnlock m :: k) d :: rest)) ->
    step p s t choice (mkSt (upd (threads s) t (mkThread h (mkFrame k (DUnlock m :: d) :: rest))) (next_tid s))
| S_defer_call : forall h f k d rest,
    threads s t = Some (mkThread h (mkFrame (IDeferCall f :: k) d :: rest)) ->
    step p s t choice (mkSt (upd (threads s) t (mkThread h (mkFrame k (DCall f :: d) :: rest))) (next_tid s))
| S_read : forall h l k d rest,
    threads s t = Some (mkThread h (mkFrame (IRead l :: k) d :: rest)) ->
    step p s t choice (mkSt (upd (threads s) t (mkThread h (mkFrame k d :: rest))) (next_tid s))
| S_write : forall h l k d rest,
    threads s t = Some (mkThread h (mkFrame (IWrite l :: k) d :: rest)) ->
    step p s t choice (mkSt (upd (threads s) t (mkThread h (mkFrame k d :: rest))) (next_tid s))
| S_go : forall h body k d rest,
    threads s t = Some (mkThread h (mkFrame (IGo body :: k) d :: rest)) ->
    threads s (next_tid s) = None ->
    step p s t choice (mkSt (upd (upd (threads s) t (mkThread h (mkFrame k d :: rest)))
                                 (next_tid s) (mkThread [] [mkFrame body []]))
                            (S (next_tid s)))
| S_chan : forall h op c k d rest,
    threads s t = Some (mkThread h (mkFrame (IChan op c :: k) d :: rest)) ->
    step p s t choice (mkSt (upd (threads s) t (mkThread h (mkFrame k d :: rest))) (next_tid s))
| S_wait : forall h w k d rest,
    threads s t = Some (mkThread h (mkFrame (IWait w :: k) d :: rest)) ->
    step p s t choice (mkSt (upd (threads s) t (mkThread h (mkFrame k d :: rest))) (next_tid s))
| S_call : forall h f body k d rest,
    threads s t = Some (mkThread h (mkFrame (ICall f :: k) d :: rest)) ->
    lookup_body p f = Some body ->
    step p s t choice (mkSt (upd (threads s) t (mkThread h (mkFrame body [] :: mkFrame k d :: rest))) (next_tid s))
| S_ext : forall h f k d rest,
    threads s t = Some (mkThread h (mkFrame (IExt f :: k) d :: rest)) ->
    step p s t choice (mkSt (upd (threads s) t (mkThread h (mkFrame k d :: rest))) (next_tid s))
| S_if : forall h a b k d rest,
    threads s t = Some (mkThread h (mkFrame (IIf a b :: k) d :: rest)) ->
    step p s t choice (mkSt (upd (threads s) t (mkThread h (mkFrame ((if choice then a else b) ++ k) d :: rest))) (next_tid s))
| S_loop : forall h body k d rest,
    threads s t = Some (mkThread h (mkFrame (ILoop body :: k) d :: rest)) ->
    step p s t choice (mkSt (upd (threads s) t (mkThread h (mkFrame (if choice then body ++ ILoop body :: k else k) d :: rest))) (next_tid s)).

(* all states reachable from [s] under some schedule = any finite sequence of (thread, choice) *)
Inductive reach (p : prog) (s : state) : state -> Prop :=
| R_refl : reach p s s
| R_step : forall s1 t c s2, reach p s s1 -> step p s1 t c s2 -> reach p s s2.

(* one thread running [main] with no mutex held *)
Definition init_state (main : list instr) : state :=
  mkSt (fun x => if Nat.eqb x 0 then Some (mkThread [] [mkFrame main []]) else None) 1.

(* what a thread is about to do *)
Definition next_instr (th : thread) : option instr :=
  match t_stack th with
  | mkFrame (i :: _) _ :: _ => Some i
  | _ => None
  end.
Definition next_access (th : thread) : option (loc * bool) :=
  match next_instr th with
  | Some (IRead l) => Some (l, false)
  | Some (IWrite l) => Some (l, true)
  | _ => None
  end.
Definition about_to_block (th : thread) : bool :=
  match next_instr th with
  | Some (ILock _) | Some (IChan _ _) | Some (IWait _) => true
  | _ => false
  end.

Definition race (s : state) : Prop :=
  exists t1 t2 th1 th2 l1 w1 l2 w2,
    t1 <> t2 /\ threads s t1 = Some th1 /\ threads s t2 = Some th2 /\
    next_access th1 = Some (l1, w1) /\ next_access th2 = Some (l2, w2) /\
    overlap l1 l2 = true /\ (w1 || w2) = true.

Definition blocks_holding (s : state) : Prop :=
  exists t th, threads s t = Some th /\ about_to_block th = true /\ t_held th <> [].

(* ---------------------------------------------------------------------------------------------- *)
(* static checker *)

(* abstract state at a program point: [a_solo] = this is the initial thread and no goroutine has
   been started yet on any path to here (accesses cannot race: nobody else exists);
   [a_entry] = lockset on entry of the current body (to be restored on exit);
   [a_held] = lockset here; [a_defers] = deferred items registered so far in this body *)
Record ast := mkA { a_solo : bool; a_entry : list mutex; a_held : list mutex; a_defers : list ditem }.
Inductive res := Fail | Exits | Falls (a : ast).

Definition ditem_eqb (x y : ditem) : bool :=
  match x, y with
  | DUnlock a, DUnlock b => String.eqb a b
  | DCall a, DCall b => String.eqb a b
  | _, _ => false
  end.
Fixpoint deq (a b : list ditem) : bool :=
  match a, b with
  | [], [] => true
  | x :: a', y :: b' => ditem_eqb x y && deq a' b'
  | _, _ => false
  end.
Definition ast_eqb (x y : ast) : bool :=
  Bool.eqb (a_solo x) (a_solo y) && meq (a_entry x) (a_entry y) && meq (a_held x) (a_held y) &&
  deq (a_defers x) (a_defers y).

Definition join (ra rb : res) : res :=
  match ra, rb with
  | Fail, _ => Fail
  | _, Fail => Fail
  | Exits, r => r
  | r, Exits => r
  | Falls x, Falls y => if ast_eqb x y then Falls x else Fail
  end.

Definition set_solo (b : bool) (a : ast) : ast := mkA b (a_entry a) (a_held a) (a_defers a).
Definition set_held (h : list mutex) (a : ast) : ast := mkA (a_solo a) (a_entry a) h (a_defers a).
Definition push_defer (d : ditem) (a : ast) : ast := mkA (a_solo a) (a_entry a) (a_held a) (d :: a_defers a).

Section Checker.
  Variable p : prog.
  (* is an access to location l (write?) with lockset h acceptable *)
  Variable allowed : loc -> bool -> list mutex -> bool.
  (* also require that nothing blocks while a mutex is held *)
  Variable nb : bool.

  Definition may_block (h : list mutex) : bool :=
    if nb then match h with [] => true | _ => false end else true.

  Section Body.
    (* [callf f h]: body f, analysed from lockset h, is accepted and returns with lockset h *)
    Variable callf : string -> list mutex -> bool.

    Fixpoint run_defers (ds : list ditem) (h : list mutex) : option (list mutex) :=
      match ds with
      | [] => Some h
      | DUnlock m :: t => if mem m h then run_defers t (remove_m m h) else None
      | DCall f :: t => if callf f h then run_defers t h else None
      end.
    Definition exit_ok (a : ast) : bool :=
      match run_defers (a_defers a) (a_held a) with
      | Some h => meq h (a_entry a)
      | None => false
      end.
    Definition good (r : res) : bool :=
      match r with Fail => false | Exits => true | Falls a => exit_ok a end.

    Definition chk1 (rec : ast -> list instr -> res) (a : ast) (i : instr) : res :=
      match i with
      | ILock m => if mem m (a_held a) || negb (may_block (a_held a)) then Fail else Falls (set_held (m :: a_held a) a)
      | IUnlock m => if mem m (a_held a) then Falls (set_held (remove_m m (a_held a)) a) else Fail
      | IDeferUnlock m => Falls (push_defer (DUnlock m) a)
      | IDeferCall f => Falls (push_defer (DCall f) a)
      | IRead l => if a_solo a || allowed l false (a_held a) then Falls a else Fail
      | IWrite l => if a_solo a || allowed l true (a_held a) then Falls a else Fail
      | IGo body => if good (rec (mkA false [] [] []) body) then Falls (set_solo false a) else Fail
      | IChan _ _ => if may_block (a_held a) then Falls a else Fail
      | IWait _ => if may_block (a_held a) then Falls a else Fail
      | ICall f => if callf f (a_held a) then Falls (set_solo false a) else Fail
      | IExt _ => Falls a
      | IIf x y => join (rec a x) (rec a y)
      | ILoop body =>
          match rec (set_solo false a) body with
          | Fail => Fail
          | Exits => Falls (set_solo false a)
          | Falls a' => if ast_eqb (set_solo false a) a' then Falls (set_solo false a) else Fail
          end
      | IReturn => if exit_ok a then Exits else Fail
      end.

    Fixpoint chk_i (a : ast) (i : instr) {struct i} : res :=
      let rec := fix chk_l (a : ast) (code : list instr) {struct code} : res :=
        match code with
        | [] => Falls a
        | i :: k => match chk_i a i with Falls a' => chk_l a' k | r => r end
        end in
      match i with
      | ILock m => if mem m (a_held a) || negb (may_block (a_held a)) then Fail else Falls (set_held (m :: a_held a) a)
      | IUnlock m => if mem m (a_held a) then Falls (set_held (remove_m m (a_held a)) a) else Fail
      | IDeferUnlock m => Falls (push_defer (DUnlock m) a)
      | IDeferCall f => Falls (push_defer (DCall f) a)
      | IRead l => if a_solo a || allowed l false (a_held a) then Falls a else Fail
      | IWrite l => if a_solo a || allowed l true (a_held a) then Falls a else Fail
      | IGo body => if good (rec (mkA false [] [] []) body) then Falls (set_solo false a) else Fail
      | IChan _ _ => if may_block (a_held a) then Falls a else Fail
      | IWait _ => if may_block (a_held a) then Falls a else Fail
      | ICall f => if callf f (a_held a) then Falls (set_solo false a) else Fail
      | IExt _ => Falls a
      | IIf x y => join (rec a x) (rec a y)
      | ILoop body =>
          match rec (set_solo false a) body with
          | Fail => Fail
          | Exits => Falls (set_solo false a)
          | Falls a' => if ast_eqb (set_solo false a) a' then Falls (set_solo false a) else Fail
          end
      | IReturn => if exit_ok a then Exits else Fail
      end.

    Fixpoint chk_l (a : ast) (code : list instr) {struct code} : res :=
      match code with
      | [] => Falls a
      | i :: k => match chk_i a i with Falls a' => chk_l a' k | r => r end
      end.

    Lemma chk_i_eq : forall a i, chk_i a i = chk1 chk_l a i.
    Proof. intros a i. destruct i; reflexivity. Qed.

    Lemma chk_l_cons : forall a i k,
      chk_l a (i :: k) = match chk1 chk_l a i with Falls a' => chk_l a' k | r => r end.
    Proof. intros a i k. cbn [chk_l]. rewrite chk_i_eq. reflexivity. Qed.
  End Body.

  Fixpoint callf (fuel : nat) (f : string) (h : list mutex) : bool :=
    match fuel with
    | O => false
    | S n => match lookup_body p f with
             | Some body => good (callf n) (chk_l (callf n) (mkA false h h []) body)
             | None => false
             end
    end.

  Definition check (fuel : nat) (main : list instr) : bool :=
    good (callf fuel) (chk_l (callf fuel) (mkA true [] [] []) main).
End Checker.

(* ---------------------------------------------------------------------------------------------- *)
(* the table of accesses with their locksets, and the pairwise condition *)

Definition access := (loc * bool * list mutex)%type.   (* location, is-write, lockset *)
Definition acc_eqb (x y : access) : bool :=
  let '(l1, w1, h1) := x in let '(l2, w2, h2) := y in meq l1 l2 && Bool.eqb w1 w2 && meq h1 h2.
Definition allowed_of (accs : list access) (l : loc) (w : bool) (h : list mutex) : bool :=
  existsb (acc_eqb (l, w, h)) accs.
Definition intersects (a b : list mutex) : bool := existsb (fun m => mem m b) a.
Definition compat (x y : access) : bool :=
  let '(l1, w1, h1) := x in let '(l2, w2, h2) := y in
  negb (overlap l1 l2 && (w1 || w2)) || intersects h1 h2.
Definition pairwise_ok (accs : list access) : bool :=
  forallb (fun x => forallb (compat x) accs) accs.

(* Untrusted helper: enumerate the accesses of a program with the lockset each is made under (the
   soundness theorem does not depend on it: a table that misses an access makes [check] fail). *)
Section Collect.
  Variable p : prog.
  Definition cst := (bool * list mutex)%type.     (* solo, held *)

  Definition coll_list (ci : cst -> instr -> list access * option cst) :=
    fix cl (c : cst) (code : list instr) {struct code} : list access * option cst :=
      match code with
      | [] => ([], Some c)
      | i :: k => match ci c i with
                  | (acc, Some c') => let (acc2, r) := cl c' k in (acc ++ acc2, r)
                  | (acc, None) => (acc, None)
                  end
      end.

  Fixpoint coll (fuel : nat) : cst -> instr -> list access * option cst :=
    fix ci (c : cst) (i : instr) {struct i} : list access * option cst :=
      let cl := fix cl (c : cst) (code : list instr) {struct code} : list access * option cst :=
        match code with
        | [] => ([], Some c)
        | i :: k => match ci c i with
                    | (acc, Some c') => let (acc2, r) := cl c' k in (acc ++ acc2, r)
                    | (acc, None) => (acc, None)
                    end
        end in
      let '(solo, h) := c in
      let callee f := match fuel with
                      | O => []
                      | S n => match lookup_body p f with
                               | Some body => fst (coll_list (coll n) (false, h) body)
                               | None => []
                               end
                      end in
      match i with
      | ILock m => ([], Some (solo, m :: h))
      | IUnlock m => ([], Some (solo, remove_m m h))
      | IRead l => (if solo then [] else [(l, false, h)], Some c)
      | IWrite l => (if solo then [] else [(l, true, h)], Some c)
      | IGo body => (fst (cl (false, []) body), Some (false, h))
      | ICall f => (callee f, Some (false, h))
      | IDeferCall f => (callee f, Some c)
      | IIf x y => let (a1, r1) := cl c x in let (a2, r2) := cl c y in
                   (a1 ++ a2, match r1 with Some _ => r1 | None => r2 end)
      | ILoop body => (fst (cl (false, h) body), Some (false, h))
      | IReturn => ([], None)
      | _ => ([], Some c)
      end.

  Fixpoint dedupe (l : list access) : list access :=
    match l with
    | [] => []
    | x :: t => if existsb (acc_eqb x) t then dedupe t else x :: dedupe t
    end.

  Definition collect (fuel : nat) (main : list instr) : list access :=
    dedupe (fst (coll_list (coll fuel) (true, []) main)).
End Collect.

Definition lockset_ok (p : prog) (fuel : nat) (main : list instr) : bool :=
  let accs := collect p fuel main in
  pairwise_ok accs && check p (allowed_of accs) false fuel main.

Definition nonblocking_ok (p : prog) (fuel : nat) (main : list instr) : bool :=
  check p (fun _ _ _ => true) true fuel main.
