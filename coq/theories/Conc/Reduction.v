(* C17 — reduction: fine-grained interleavings of lock-disciplined threads are equivalent to
   interleavings in which critical sections execute without interruption.

   Part A ([Lipton]): the abstract lemma, for any labelled transition system with a "holder" of the
   mutex: if a step of the holder can be moved to the left over a preceding step of another thread
   ([mover]), every execution that ends with the mutex free can be reordered — same initial state,
   same final state, a permutation of the schedule that keeps the order of each thread's own
   steps — into a SERIAL one: whenever somebody holds the mutex, the next step is the holder's.

   Part B ([Sem]): a data-carrying interleaving semantics.  Global state: protected data [P] (the
   fields that may only be touched inside a critical section), environment data [E] (everything
   else that is shared), the holder of the one mutex, and the threads.  A thread is a tree of
   actions [code] — the continuation after a read depends on the value read, so data-dependent
   control flow (loops over a listing, branches on a map lookup) is expressible:
       CLock / CUnlock              the mutex (Lock enabled only when it is free; Unlock only by
                                    the holder)
       CAcc l w upd k               an access to the protected field named [l] (a write when [w]):
                                    P := upd P, continue with [k] applied to the value of P read
       CIn b k                      an environment action that occurs inside a critical section
                                    (the `go` of the notifier)
       COut a k                     an environment action outside critical sections, possibly
                                    nondeterministic (ReadDir, file creation, a channel send)
       CTau k                       a thread-local step
       Done o                       finished, with the thread's observation [o].
   [wl]: the lock discipline of a tree (accesses to P and In-actions only while holding the mutex,
   Out-actions only while not holding it).  [reduction]: if every thread is disciplined and the
   Out-actions commute to the right of the In-actions ([out_in_comm]), every execution ending
   with the mutex free is equivalent to a serial one (same final protected data, environment,
   threads — hence the same observations of every thread).

   Part C ([Traces]): where the discipline comes from.  [paths c tr]: [tr] is the sequence of events
   (ELock m / EUnlock m / EAcc l w, the events of Conc/Atomic.v) along a complete branch of the tree
   [c].  If every such sequence is accepted by the automaton of Atomic.v ([tr_atomic]: every access
   to a watched location is made while the mutex is held, after exactly one Lock) — which is what
   [steps_atomic_sound] gives for the paths of the translated methods — and the tree is
   [shape_ok] (accesses to P carry watched locations, Unlock only after Lock, environment actions on
   the right side of the lock: properties of the decoration, not of the source), then the tree is
   disciplined ([paths_wl]). *)
From Coq Require Import List Arith Lia Permutation Bool String.
From FFS Require Import Conc.Lockset Conc.Atomic.
Import ListNotations.
Open Scope list_scope.

(* ---------------------------------------------------------------------------------------------- *)
Section Lipton.
  Variable St : Type.
  Variable step : St -> nat -> St -> Prop.
  Variable holder : St -> option nat.
  Variable Inv : St -> Prop.

  Hypothesis inv_step : forall s t s', Inv s -> step s t s' -> Inv s'.
  Hypothesis frame : forall s u s' h,
    Inv s -> step s u s' -> holder s = Some h -> h <> u -> holder s' = Some h.
  Hypothesis mover : forall s u s1 h s2,
    Inv s -> step s u s1 -> step s1 h s2 -> h <> u -> holder s = Some h ->
    exists s1', step s h s1' /\ step s1' u s2.

  Inductive exec : St -> list nat -> St -> Prop :=
  | E_nil : forall s, exec s [] s
  | E_cons : forall s t s1 sch s', step s t s1 -> exec s1 sch s' -> exec s (t :: sch) s'.

  (* serial: whoever holds the mutex is the one who moves *)
  Inductive sexec : St -> list nat -> St -> Prop :=
  | SE_nil : forall s, sexec s [] s
  | SE_cons : forall s t s1 sch s',
      (forall h, holder s = Some h -> h = t) -> step s t s1 -> sexec s1 sch s' -> sexec s (t :: sch) s'.

  Lemma sexec_exec : forall s sch s', sexec s sch s' -> exec s sch s'.
  Proof. induction 1; econstructor; eauto. Qed.

  Lemma insert_step : forall s1 sch sn, sexec s1 sch sn -> holder sn = None ->
    forall s0 t, Inv s0 -> step s0 t s1 ->
    exists sch', Permutation (t :: sch) sch' /\ sexec s0 sch' sn.
  Proof.
    induction 1 as [s1|s1 t1 s2 sch sn Hc Hst Hse IH]; intros Hfin s0 t Hinv Hs0.
    - exists [t]. split; [apply Permutation_refl|].
      destruct (holder s0) as [h|] eqn:Eh.
      + destruct (Nat.eq_dec h t) as [->|Hne].
        * eapply SE_cons; [|exact Hs0|constructor]. intros h' Hh'. rewrite Eh in Hh'. congruence.
        * pose proof (frame _ _ _ _ Hinv Hs0 Eh Hne) as F. congruence.
      + eapply SE_cons; [|exact Hs0|constructor]. intros h' Hh'. rewrite Eh in Hh'. discriminate.
    - destruct (holder s0) as [h|] eqn:Eh.
      + destruct (Nat.eq_dec h t) as [->|Hne].
        * exists (t :: t1 :: sch). split; [apply Permutation_refl|].
          eapply SE_cons; [|exact Hs0|eapply SE_cons; eauto]. intros h' Hh'. rewrite Eh in Hh'. congruence.
        * pose proof (frame _ _ _ _ Hinv Hs0 Eh Hne) as F.
          pose proof (Hc _ F) as ->.
          destruct (mover _ _ _ _ _ Hinv Hs0 Hst Hne Eh) as [s1' [Ha Hb]].
          destruct (IH Hfin s1' t (inv_step _ _ _ Hinv Ha) Hb) as [sch' [Hp Hs]].
          exists (t1 :: sch'). split.
          -- eapply Permutation_trans; [apply perm_swap|]. apply perm_skip. exact Hp.
          -- eapply SE_cons; [|exact Ha|exact Hs]. intros h' Hh'. rewrite Eh in Hh'. congruence.
      + exists (t :: t1 :: sch). split; [apply Permutation_refl|].
        eapply SE_cons; [|exact Hs0|eapply SE_cons; eauto]. intros h' Hh'. rewrite Eh in Hh'. discriminate.
  Qed.

  Theorem lipton_reduction : forall s0 sch sn,
    Inv s0 -> exec s0 sch sn -> holder sn = None ->
    exists sch', Permutation sch sch' /\ sexec s0 sch' sn.
  Proof.
    intros s0 sch sn Hinv He. revert Hinv.
    induction He as [s|s t s1 sch s' Hst He IH]; intros Hinv Hfin.
    - exists []. split; constructor.
    - destruct (IH (inv_step _ _ _ Hinv Hst) Hfin) as [sch1 [Hp Hs]].
      destruct (insert_step _ _ _ Hs Hfin _ _ Hinv Hst) as [sch2 [Hp2 Hs2]].
      exists sch2. split; [|exact Hs2].
      eapply Permutation_trans; [apply perm_skip; exact Hp|exact Hp2].
  Qed.

  (* the reordering keeps each thread's own steps in their order: trivially, as a schedule is a
     list of thread ids — the content is in "same final state", which contains every thread's
     local state and observations *)
  Lemma exec_inv : forall s sch s', Inv s -> exec s sch s' -> Inv s'.
  Proof. intros s sch s' Hi He. induction He; eauto. Qed.
End Lipton.

(* ---------------------------------------------------------------------------------------------- *)
(* list update *)
Fixpoint set_nth {A} (n : nat) (x : A) (l : list A) : list A :=
  match l, n with
  | [], _ => []
  | _ :: t, O => x :: t
  | y :: t, S n' => y :: set_nth n' x t
  end.

Lemma nth_set_same {A} : forall (l : list A) n x y, nth_error l n = Some y -> nth_error (set_nth n x l) n = Some x.
Proof. induction l as [|z l IH]; intros [|n] x y H; cbn in *; try discriminate; eauto. Qed.

Lemma nth_set_other {A} : forall (l : list A) n m x, n <> m -> nth_error (set_nth n x l) m = nth_error l m.
Proof.
  induction l as [|z l IH]; intros [|n] [|m] x H; cbn; try reflexivity; try congruence.
  apply IH. congruence.
Qed.

Lemma set_nth_comm {A} : forall (l : list A) n m x y, n <> m ->
  set_nth n x (set_nth m y l) = set_nth m y (set_nth n x l).
Proof.
  induction l as [|z l IH]; intros [|n] [|m] x y H; cbn; try reflexivity; try congruence.
  f_equal. apply IH. congruence.
Qed.

(* ---------------------------------------------------------------------------------------------- *)
Section Sem.
  Variables P E Ch Obs OutA InA : Type.
  Variable out_en : OutA -> E -> Ch -> Prop.      (* Out-action a can happen in e with outcome x *)
  Variable out_upd : OutA -> E -> Ch -> E.
  Variable in_upd : InA -> E -> E.

  Inductive code :=
  | Done (o : Obs)
  | CLock (k : code)
  | CUnlock (k : code)
  | CAcc (l : loc) (w : bool) (upd : P -> P) (k : P -> code)
  | CIn (b : InA) (k : code)
  | COut (a : OutA) (k : Ch -> code)
  | CTau (k : code).

  Record cfg := mkCfg { c_p : P; c_e : E; c_holder : option nat; c_thr : list code }.

  (* one step of thread t on (holder, P, E, its own code) *)
  Inductive tstep (t : nat) : option nat -> P -> E -> code -> option nat -> P -> E -> code -> Prop :=
  | TS_lock : forall k p e, tstep t None p e (CLock k) (Some t) p e k
  | TS_unlock : forall k p e, tstep t (Some t) p e (CUnlock k) None p e k
  | TS_acc : forall l w upd k h p e, tstep t h p e (CAcc l w upd k) h (upd p) e (k p)
  | TS_in : forall b k h p e, tstep t h p e (CIn b k) h p (in_upd b e) k
  | TS_out : forall a k h p e x, out_en a e x -> tstep t h p e (COut a k) h p (out_upd a e x) (k x)
  | TS_tau : forall k h p e, tstep t h p e (CTau k) h p e k.

  Definition cstep (s : cfg) (t : nat) (s' : cfg) : Prop :=
    exists c h' p' e' c',
      nth_error (c_thr s) t = Some c /\
      tstep t (c_holder s) (c_p s) (c_e s) c h' p' e' c' /\
      s' = mkCfg p' e' h' (set_nth t c' (c_thr s)).

  (* the lock discipline of a tree; h: does the thread hold the mutex *)
  Fixpoint wl (h : bool) (c : code) : Prop :=
    match c with
    | Done _ => h = false
    | CLock k => wl true k
    | CUnlock k => wl false k
    | CAcc _ _ _ k => h = true /\ forall p, wl h (k p)
    | CIn _ k => h = true /\ wl h k
    | COut _ k => h = false /\ forall x, wl h (k x)
    | CTau k => wl h k
    end.

  Definition holds (s : cfg) (t : nat) : bool :=
    match c_holder s with Some h => Nat.eqb h t | None => false end.

  Definition CInv (s : cfg) : Prop :=
    forall t c, nth_error (c_thr s) t = Some c -> wl (holds s t) c.

  Hypothesis out_in_comm : forall a b e x,
    out_en a e x -> out_en a (in_upd b e) x /\ out_upd a (in_upd b e) x = in_upd b (out_upd a e x).

  Lemma cinv_step : forall s t s', CInv s -> cstep s t s' -> CInv s'.
  Proof.
    intros [p e ho thr] t s' Hinv (c & h' & p' & e' & c' & Hn & Hst & ->) u cu Hu.
    unfold CInv, holds in Hinv. cbn [c_thr c_holder c_p c_e] in *. unfold holds. cbn [c_holder].
    destruct (Nat.eq_dec t u) as [<-|Hne].
    - rewrite (nth_set_same _ _ _ _ Hn) in Hu. injection Hu as <-.
      pose proof (Hinv t c Hn) as W.
      inversion Hst; subst; cbn [wl] in W.
      + rewrite Nat.eqb_refl. exact W.
      + exact W.
      + destruct W as [_ W]. apply W.
      + destruct W as [_ W]. exact W.
      + destruct W as [_ W]. apply W.
      + exact W.
    - rewrite (nth_set_other _ _ _ _ Hne) in Hu.
      pose proof (Hinv u cu Hu) as W.
      inversion Hst; subst; try exact W.
      + (* lock by t: u did not hold *)
        destruct (Nat.eqb t u) eqn:Et; [apply Nat.eqb_eq in Et; congruence|exact W].
      + (* unlock by t *)
        destruct (Nat.eqb t u) eqn:Et; [apply Nat.eqb_eq in Et; congruence|exact W].
  Qed.

  Lemma cframe : forall s u s' h,
    CInv s -> cstep s u s' -> c_holder s = Some h -> h <> u -> c_holder s' = Some h.
  Proof.
    intros s u s' h Hinv (c & h' & p' & e' & c' & Hn & Hst & ->) Hh Hne. cbn [c_holder].
    inversion Hst; subst; try congruence.
  Qed.

  Lemma cmover : forall s u s1 h s2,
    CInv s -> cstep s u s1 -> cstep s1 h s2 -> h <> u -> c_holder s = Some h ->
    exists s1', cstep s h s1' /\ cstep s1' u s2.
  Proof.
    intros s u s1 h s2 Hinv (cu & h1 & p1 & e1 & cu' & Hnu & Hsu & ->)
           (ch & h2 & p2 & e2 & ch' & Hnh & Hsh & ->) Hne Hh.
    cbn [c_thr c_holder c_p c_e] in *.
    assert (Hnu' : u <> h) by congruence.
    rewrite (nth_set_other _ _ _ _ Hnu') in Hnh.
    pose proof (Hinv u cu Hnu) as Wu. pose proof (Hinv h ch Hnh) as Wh.
    unfold holds in Wu, Wh. rewrite Hh in Wu, Wh. rewrite Nat.eqb_refl in Wh.
    assert (Eu : Nat.eqb h u = false) by (apply Nat.eqb_neq; exact Hne). rewrite Eu in Wu.
    destruct s as [p e ho thr]. cbn [c_thr c_holder c_p c_e] in *. subst ho.
    inversion Hsu; subst; cbn [wl] in Wu; try (destruct Wu as [Wu _]; discriminate); try congruence.
    - (* u: Out *)
      inversion Hsh; subst; cbn [wl] in Wh; try (destruct Wh as [Wh _]; discriminate); try congruence.
      + (* h: Unlock *)
        eexists. split.
        * exists (CUnlock ch'), None, p2, e, ch'. split; [exact Hnh|]. split; [constructor|reflexivity].
        * eexists (COut a k), None, p2, _, (k x). cbn [c_thr c_holder c_p c_e].
          split; [rewrite (nth_set_other _ _ _ _ Hne); exact Hnu|]. split; [constructor; eassumption|].
          f_equal. apply set_nth_comm; congruence.
      + (* h: Acc *)
        eexists. split.
        * eexists (CAcc l w upd k0), (Some h), (upd p1), e, (k0 p1). split; [exact Hnh|]. split; [constructor|reflexivity].
        * eexists (COut a k), (Some h), (upd p1), _, (k x). cbn [c_thr c_holder c_p c_e].
          split; [rewrite (nth_set_other _ _ _ _ Hne); exact Hnu|]. split; [constructor; eassumption|].
          f_equal. apply set_nth_comm; congruence.
      + (* h: In *)
        destruct (out_in_comm a b e x H) as [Hen Heq].
        eexists. split.
        * eexists (CIn b ch'), (Some h), p2, (in_upd b e), ch'. split; [exact Hnh|]. split; [constructor|reflexivity].
        * eexists (COut a k), (Some h), p2, _, (k x). cbn [c_thr c_holder c_p c_e].
          split; [rewrite (nth_set_other _ _ _ _ Hne); exact Hnu|]. split; [constructor; exact Hen|].
          rewrite Heq. f_equal. apply set_nth_comm; congruence.
      + (* h: Tau *)
        eexists. split.
        * eexists (CTau ch'), (Some h), p2, e, ch'. split; [exact Hnh|]. split; [constructor|reflexivity].
        * eexists (COut a k), (Some h), p2, _, (k x). cbn [c_thr c_holder c_p c_e].
          split; [rewrite (nth_set_other _ _ _ _ Hne); exact Hnu|]. split; [constructor; eassumption|].
          f_equal. apply set_nth_comm; congruence.
    - (* u: Tau *)
      inversion Hsh; subst; cbn [wl] in Wh; try (destruct Wh as [Wh _]; discriminate); try congruence.
      + eexists. split.
        * exists (CUnlock ch'), None, p2, e2, ch'. split; [exact Hnh|]. split; [constructor|reflexivity].
        * eexists (CTau cu'), None, p2, e2, cu'. cbn [c_thr c_holder c_p c_e].
          split; [rewrite (nth_set_other _ _ _ _ Hne); exact Hnu|]. split; [constructor|].
          f_equal. apply set_nth_comm; congruence.
      + eexists. split.
        * eexists (CAcc l w upd k), (Some h), (upd p1), e2, (k p1). split; [exact Hnh|]. split; [constructor|reflexivity].
        * eexists (CTau cu'), (Some h), (upd p1), e2, cu'. cbn [c_thr c_holder c_p c_e].
          split; [rewrite (nth_set_other _ _ _ _ Hne); exact Hnu|]. split; [constructor|].
          f_equal. apply set_nth_comm; congruence.
      + eexists. split.
        * eexists (CIn b ch'), (Some h), p2, (in_upd b e1), ch'. split; [exact Hnh|]. split; [constructor|reflexivity].
        * eexists (CTau cu'), (Some h), p2, _, cu'. cbn [c_thr c_holder c_p c_e].
          split; [rewrite (nth_set_other _ _ _ _ Hne); exact Hnu|]. split; [constructor|].
          f_equal. apply set_nth_comm; congruence.
      + eexists. split.
        * eexists (CTau ch'), (Some h), p2, e2, ch'. split; [exact Hnh|]. split; [constructor|reflexivity].
        * eexists (CTau cu'), (Some h), p2, e2, cu'. cbn [c_thr c_holder c_p c_e].
          split; [rewrite (nth_set_other _ _ _ _ Hne); exact Hnu|]. split; [constructor|].
          f_equal. apply set_nth_comm; congruence.
  Qed.

  (* THE REDUCTION LEMMA for the data-carrying semantics *)
  Theorem reduction : forall s0 sch sn,
    CInv s0 -> exec cfg cstep s0 sch sn -> c_holder sn = None ->
    exists sch', Permutation sch sch' /\ sexec cfg cstep c_holder s0 sch' sn.
  Proof.
    intros s0 sch sn Hinv He Hfin.
    exact (lipton_reduction cfg cstep c_holder CInv cinv_step cframe cmover s0 sch sn Hinv He Hfin).
  Qed.

  (* ------------------------------------------------------------------------------------------ *)
  (* Part C: the discipline from the event sequences of the tree *)
  Variable m : mutex.
  Variable L : list loc.
  Variable p0 : P.       (* P, Ch inhabited: a complete branch exists below every node *)
  Variable x0 : Ch.

  Inductive paths : code -> list ev -> Prop :=
  | PA_done : forall o, paths (Done o) []
  | PA_lock : forall k tr, paths k tr -> paths (CLock k) (ELock m :: tr)
  | PA_unlock : forall k tr, paths k tr -> paths (CUnlock k) (EUnlock m :: tr)
  | PA_acc : forall l w upd k p tr, paths (k p) tr -> paths (CAcc l w upd k) (EAcc l w :: tr)
  | PA_in : forall b k tr, paths k tr -> paths (CIn b k) tr
  | PA_out : forall a k x tr, paths (k x) tr -> paths (COut a k) tr
  | PA_tau : forall k tr, paths k tr -> paths (CTau k) tr.

  Lemma paths_exist : forall c, exists tr, paths c tr.
  Proof.
    induction c as [o|k IH|k IH|l w upd k IH|b k IH|a k IH|k IH].
    - eexists; constructor.
    - destruct IH as [tr H]. eexists; constructor; eauto.
    - destruct IH as [tr H]. eexists; constructor; eauto.
    - destruct (IH p0) as [tr H]. eexists; econstructor; eauto.
    - destruct IH as [tr H]. eexists; constructor; eauto.
    - destruct (IH x0) as [tr H]. eexists; econstructor; eauto.
    - destruct IH as [tr H]. eexists; constructor; eauto.
  Qed.

  (* what the decoration itself has to satisfy (h: inside a critical section of m) *)
  Fixpoint shape_ok (h : bool) (c : code) : Prop :=
    match c with
    | Done _ => h = false
    | CLock k => h = false /\ shape_ok true k
    | CUnlock k => h = true /\ shape_ok false k
    | CAcc l _ _ k => watched L l = true /\ forall p, shape_ok h (k p)
    | CIn _ k => h = true /\ shape_ok h k
    | COut _ k => h = false /\ forall x, shape_ok h (k x)
    | CTau k => shape_ok h k
    end.

  (* every event sequence of the tree is accepted by the automaton of Atomic.v from state s, and the
     decoration is well shaped => the tree is disciplined *)
  Lemma paths_wl : forall c s,
    (forall tr, paths c tr -> ev_run m L s tr <> None) ->
    shape_ok (r_held s) c -> wl (r_held s) c.
  Proof.
    induction c as [o|k IH|k IH|l w upd k IH|b k IH|a k IH|k IH]; intros s Hp Hs; cbn [wl shape_ok] in *.
    - exact Hs.
    - destruct Hs as [_ Hs].
      apply (IH (mkR true (S (r_locks s)))); [|exact Hs].
      intros tr Ht. specialize (Hp _ (PA_lock _ _ Ht)). cbn [ev_run ev_step] in Hp.
      rewrite String.eqb_refl in Hp. exact Hp.
    - destruct Hs as [_ Hs].
      apply (IH (mkR false (r_locks s))); [|exact Hs].
      intros tr Ht. specialize (Hp _ (PA_unlock _ _ Ht)). cbn [ev_run ev_step] in Hp.
      rewrite String.eqb_refl in Hp. exact Hp.
    - destruct Hs as [Hw Hs].
      assert (Hheld : r_held s && Nat.eqb (r_locks s) 1 = true).
      { destruct (paths_exist (k p0)) as [tr Ht].
        specialize (Hp _ (PA_acc l w upd k p0 tr Ht)). cbn [ev_run ev_step] in Hp. rewrite Hw in Hp.
        destruct (r_held s && Nat.eqb (r_locks s) 1); [reflexivity|congruence]. }
      split; [apply andb_true_iff in Hheld; tauto|].
      intros p. apply IH; [|apply Hs].
      intros tr Ht. specialize (Hp _ (PA_acc l w upd k p tr Ht)). cbn [ev_run ev_step] in Hp.
      rewrite Hw, Hheld in Hp. exact Hp.
    - destruct Hs as [Hh Hs]. split; [exact Hh|]. apply IH; [|exact Hs].
      intros tr Ht. apply Hp. constructor. exact Ht.
    - destruct Hs as [Hh Hs]. split; [exact Hh|]. intros x. apply IH; [|apply Hs].
      intros tr Ht. apply Hp. econstructor. exact Ht.
    - apply IH; [|exact Hs]. intros tr Ht. apply Hp. constructor. exact Ht.
  Qed.

  Corollary atomic_paths_wl : forall c,
    (forall tr, paths c tr -> tr_atomic m L tr) -> shape_ok false c -> wl false c.
  Proof. intros c Hp Hs. exact (paths_wl c (mkR false 0) Hp Hs). Qed.
End Sem.
