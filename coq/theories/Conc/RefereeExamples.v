(* C17 — non-vacuity examples asked for by the statement review (design/reviews/C17.md, I2 and I6):
   library pseudo-locations (the D17d shape), a goroutine blocking while it holds a mutex, and the
   D17c shape of the shutdown handshake. *)
From Coq Require Import List String Bool Arith.
From FFS Require Import Conc.Lockset Conc.LocksetProofs Gen.FsWalletSync Conc.FsWallet.
Import ListNotations.
Open Scope string_scope.
Open Scope list_scope.

(* ---- I2: a library object has a location.  Cache.Get reads the item's expiry, Item.Extend writes it. *)
Definition expires : loc := ["*signerCache"; "item.expires"].
Definition hit_unlocked : list instr := [IRead ["signerCache"]; IExt "w.signerCache.Get"; IRead expires; IExt "cached.Extend"; IWrite expires].
Definition hit_locked : list instr := [ILock "signerCacheMux"] ++ hit_unlocked ++ [IUnlock "signerCacheMux"].
Definition two_signers (hit : list instr) : list instr := [IWrite ["signerCache"]; IGo hit] ++ hit.

Lemma d17d_shape :
  lockset_ok [] 3 (two_signers hit_unlocked) = false /\
  lockset_ok [] 3 (two_signers hit_locked) = true /\
  exists s, reach [] (init_state (two_signers hit_unlocked)) s /\ race s.
Proof.
  split; [vm_compute; reflexivity|]. split; [vm_compute; reflexivity|].
  (* main: constructor write, go; main passes its reads up to the write (Extend); the other signer is at
     its read of the expiry (Get) *)
  eexists. split.
  - eapply R_step; [eapply R_step; [eapply R_step; [eapply R_step; [eapply R_step; [eapply R_step; [eapply R_step; [eapply R_step; [apply R_refl|]|]|]|]|]|]|]|].
    + eapply (S_write [] _ 0 true); reflexivity.
    + eapply (S_go [] _ 0 true); reflexivity.
    + eapply (S_read [] _ 0 true); reflexivity.
    + eapply (S_ext [] _ 0 true); reflexivity.
    + eapply (S_read [] _ 0 true); reflexivity.
    + eapply (S_ext [] _ 0 true); reflexivity.
    + eapply (S_read [] _ 1 true); reflexivity.
    + eapply (S_ext [] _ 1 true); reflexivity.
  - exists 0, 1. do 6 eexists. cbn.
    split; [discriminate|]. split; [reflexivity|]. split; [reflexivity|].
    split; [reflexivity|]. split; [reflexivity|]. split; reflexivity.
Qed.

(* the translated wallet really makes both accesses, under signerCacheMux, and with the Lock / Unlock of
   every mutex other than mux removed from the translated bodies the checker rejects the program — the
   regression of defect D17d breaks C17_race_free *)
Fixpoint strip_i (keep : mutex) (i : instr) {struct i} : list instr :=
  let sl := fix sl (c : list instr) : list instr := match c with [] => [] | x :: t => strip_i keep x ++ sl t end in
  match i with
  | ILock m | IUnlock m | IDeferUnlock m => if String.eqb m keep then [i] else []
  | IGo b => [IGo (sl b)]
  | IIf a b => [IIf (sl a) (sl b)]
  | ILoop b => [ILoop (sl b)]
  | _ => [i]
  end.
Definition strip_l (keep : mutex) (c : list instr) : list instr := flat_map (strip_i keep) c.
Definition strip_prog (keep : mutex) (p : prog) : prog := map (fun nb => (fst nb, strip_l keep (snd nb))) p.

Lemma cache_item_is_guarded :
  existsb (fun a => acc_eqb a (expires, true, ["signerCacheMux"])) (collect fswallet_prog fuel fswallet_main) &&
  existsb (fun a => acc_eqb a (expires, false, ["signerCacheMux"])) (collect fswallet_prog fuel fswallet_main) = true /\
  lockset_ok (strip_prog "mux" fswallet_prog) fuel
    (system (strip_prog "mux" fswallet_prog) fswallet_constructor fswallet_init fswallet_api) = false.
Proof. split; vm_compute; reflexivity. Qed.

(* ---- I6: a goroutine about to block while holding a mutex is reachable, and rejected *)
Lemma blocks_holding_nonvacuous :
  let main := [ILock "m"; IChan ChSend "c"] in
  nonblocking_ok [] 3 main = false /\ exists s, reach [] (init_state main) s /\ blocks_holding s.
Proof.
  cbv zeta. split; [vm_compute; reflexivity|].
  eexists. split.
  - eapply R_step; [apply R_refl|].
    eapply (S_lock [] _ 0 true); [reflexivity|].
    intros t th H. unfold init_state in H. cbn in H. destruct (Nat.eqb t 0); inversion H; reflexivity.
  - exists 0. eexists. cbn. split; [reflexivity|]. split; [reflexivity|discriminate].
Qed.

(* ---- I6: the D17c shape — watcher creation fails and the done channel is neither closed nor handed
        to a goroutine that closes it — is rejected by the close-shape check; with the close it passes *)
Definition d17c_prog (on_error : list instr) : prog :=
  [("Close", [IRead ["fsListenerCancel"]; IIf [IExt "w.fsListenerCancel"; IChan ChRecv "w.fsListenerDone"] []]);
   ("startFilesystemListener",
      [IExt "fsnotify.NewWatcher"; IIf on_error [IGo [ICall "loop"]; IExt "watcher.Add"]; IIf [IReturn] []]);
   ("loop", [IDeferCall "done"; ILoop [IExt "ctx.Done"; IChan ChSelect "select"; IIf [IReturn] [ICall "notifyNewFiles"]]]);
   ("done", [IExt "watcher.Close"; IChan ChClose "w.fsListenerDone"]);
   ("notifyNewFiles", [])].

Lemma d17c_shape :
  close_shape_ok (d17c_prog []) = false /\
  close_shape_ok (d17c_prog [IChan ChClose "w.fsListenerDone"]) = true.
Proof. split; vm_compute; reflexivity. Qed.
