(* C18, answers to the referee's review of the statements (design/reviews/C18.md).

   (a) Unsubscribe decodes the eth_unsubscribe result into a Go bool (waitResponse, wsbackend.go:411-415): the
       step [EUnsubAfterCall s dec] now carries that outcome.  Here: the step characterised, and "to none after it
       is unsubscribed" for the new exit (ParseError returned, notifications channel left OPEN): from the moment
       the eth_unsubscribe has been answered by a non-error frame - in fact from any moment at which Unsubscribe s
       has begun and the receive loop is not holding a notification for s - no notification is ever handed to s
       again, however Unsubscribe ends.
   (b) delivery lemmas for calls the referee asked to export (ISSUE 2): a reply frame whose id is registered IS
       delivered, with the content of the frame; what CallRPC returns as success is the content of a frame of
       the history. *)
From Coq Require Import List NArith Lia Bool Arith.
From FFS Require Import WsClient.Model WsClient.Spec WsClient.ProofsWsBase WsClient.ProofsWsPairing
  WsClient.ProofsWsReconnect WsClient.ProofsWsResub WsClient.ProofsWsRouting
  WsClient.ProofsWsRoutingGen WsClient.ProofsWsRoutingGenQuiet WsClient.ProofsWsRoutingGenNotify
  WsClient.ProofsWsRoutingGenThm.
Import ListNotations.

(* ---------- the decode step of Unsubscribe ---------- *)
Theorem ws_unsub_decode_step : forall w s k i f res,
  w_upc w s = UCall k -> w_cpc w k = CDone i (COk f res) ->
  wstep w (EUnsubAfterCall s false) = Some (add_log (set_upc w s (UDone false)) (LUnsubFail s)) /\
  wstep w (EUnsubAfterCall s true) = match res with Some _ => None | None => Some (set_upc w s UClosing) end.
Proof. intros w s k i f res H H0. unfold wstep. rewrite H, H0. destruct res; split; reflexivity. Qed.

(* ---------- none after Unsubscribe has begun and the receive loop is off s ---------- *)
(* the notifications handed to s, newest first: (server id, tag) *)
Fixpoint notifs_to (s : nat) (log : list obs) : list (N * N) :=
  match log with
  | [] => []
  | LNotify s' x _ t :: r => if (s' =? s)%nat then (x, t) :: notifs_to s r else notifs_to s r
  | _ :: r => notifs_to s r
  end.

(* the receive loop is not between getActiveSub and the hand-over select of a notification for s *)
Definition off_loop (w : wstate) (s : nat) : Prop := forall x t, w_rpc w <> RNotify s x t.

Lemma quiet_unsub_step w e w' s :
  invG w -> wstep w e = Some w' -> w_upc w s <> UNew -> off_loop w s ->
  w_upc w' s <> UNew /\ off_loop w' s /\ notifs_to s (w_log w') = notifs_to s (w_log w) /\
  (w_upc w s = UDone false -> w_upc w' s = UDone false).
Proof.
  intros D H Hu Hoff. pose proof (g_act _ D) as Dact. unfold off_loop in *.
  destruct e; step_cases H; wsimp;
    (split; [|split; [|split]]);
    try solve [assumption | reflexivity | intros; assumption
              | split_upd; congruence
              | intros ? ?; discriminate
              | intros; split_upd; congruence
              | intros ? ? Hc; rewrite Hc in *; discriminate
              | intros ? ? Hc; eapply Hoff; rewrite <- Hc; eassumption ].
  - intros x0 t0 Hc. inversion Hc; subst. apply alookup_In in E0. destruct (Dact _ _ E0) as [_ U]. exact (Hu U).
  - cbn [notifs_to]. destruct (Nat.eqb_spec s0 s); [subst; exfalso; exact (Hoff _ _ eq_refl)|reflexivity].
Qed.

Lemma notif_straddle_app evs1 : forall evs2 w w1,
  wrun evs1 w = Some w1 -> notif_straddle (evs1 ++ evs2) w = false ->
  notif_straddle evs1 w = false /\ notif_straddle evs2 w1 = false.
Proof.
  induction evs1 as [|e evs1 IH]; intros evs2 w w1 H F; cbn in H.
  - inversion H; subst. split; [reflexivity|exact F].
  - destruct (wstep w e) as [w'|] eqn:E; [|discriminate].
    cbn [app notif_straddle] in *. rewrite E in *.
    apply orb_false_elim in F. destruct F as [F1 F2].
    destruct (IH _ _ _ H F2) as [A B]. rewrite F1, A. split; [reflexivity|exact B].
Qed.

Lemma quiet_unsub_run evs : forall w w' s,
  invA w -> invC0 w -> invG w -> wrun evs w = Some w' ->
  notif_straddle evs w = false -> w_substraddle w' = false ->
  w_upc w s <> UNew -> off_loop w s ->
  w_upc w' s <> UNew /\ off_loop w' s /\ notifs_to s (w_log w') = notifs_to s (w_log w) /\
  (w_upc w s = UDone false -> w_upc w' s = UDone false) /\ invG w'.
Proof.
  induction evs as [|e evs IH]; intros w w' s IA IC D H F1 F2 Hu Hoff; cbn in H.
  - inversion H; subst. split; [exact Hu|split; [exact Hoff|split; [reflexivity|split; [auto|exact D]]]].
  - cbn [notif_straddle] in F1. destruct (wstep w e) as [w1|] eqn:E; [|discriminate].
    apply orb_false_elim in F1. destruct F1 as [F1 F1'].
    pose proof (substraddle_mono_run _ _ _ H F2) as G2.
    destruct (quiet_unsub_step _ _ _ s D E Hu Hoff) as [Hu1 [Hoff1 [Hn1 Hd1]]].
    assert (D1 : invG w1) by (apply (invG_step w e w1 IA IC); [intros ->; exact F1|exact G2|exact D|exact E]).
    assert (IA1 : invA w1) by (eapply invA_step; eauto).
    assert (IC1 : invC0 w1) by (eapply invC0_step; eauto).
    destruct (IH w1 w' s IA1 IC1 D1 H F1' F2 Hu1 Hoff1) as [A [B [C [Dd G]]]].
    split; [exact A|split; [exact B|split; [congruence|split; [auto|exact G]]]].
Qed.

(* Clause "to none after it is unsubscribed", for EVERY way Unsubscribe can end (nil, the backend's error, a
   cancelled context, the reconnect error, the ParseError of an undecodable result - after which the channel stays
   open): once Unsubscribe s has begun (removeSubscription has run: w_upc <> UNew) and the receive loop is not
   holding a notification for s, no notification is handed to s in any continuation, s never owns a server id
   again and the receive loop never picks s again.  Same two guards as C18_ws_routing_partial. *)
Theorem ws_none_after_unsub_begun :
  forall evs1 w1 evs2 w2 s,
    wrun evs1 winit = Some w1 -> wrun evs2 w1 = Some w2 ->
    notif_straddle (evs1 ++ evs2) winit = false -> w_substraddle w2 = false ->
    w_upc w1 s <> UNew -> off_loop w1 s ->
    notifs_to s (w_log w2) = notifs_to s (w_log w1) /\ owns_nothing (w_act w2) s /\ off_loop w2 s /\
    w_upc w2 s <> UNew /\ (w_upc w1 s = UDone false -> w_upc w2 s = UDone false /\ s_closed (w_sub w2 s) = false).
Proof.
  intros evs1 w1 evs2 w2 s H1 H2 F1 F2 Hu Hoff.
  destruct (notif_straddle_app _ _ _ _ H1 F1) as [Fa Fb].
  pose proof (substraddle_mono_run _ _ _ H2 F2) as G1.
  destruct (invACG_run _ _ _ invA_init invC0_init invG_init H1 Fa G1) as [IA [IC D]].
  destruct (quiet_unsub_run _ _ _ s IA IC D H2 Fb F2 Hu Hoff) as [A [B [C [Dd G]]]].
  split; [exact C|]. split; [|split; [exact B|split; [exact A|]]].
  - intros x Hf. apply alookup_In' in Hf. destruct (g_act w2 G _ _ Hf) as [_ Hn]. exact (A Hn).
  - intros U. specialize (Dd U). split; [exact Dd|].
    destruct (s_closed (w_sub w2 s)) eqn:Ec; [|reflexivity].
    pose proof (g_closed w2 G _ Ec). congruence.
Qed.

(* ... and the premise "the receive loop is off s" holds as soon as the eth_unsubscribe call of Unsubscribe s has
   been answered by a non-error frame (the reply came through the same sequential receive loop), in particular
   in the state in which Unsubscribe decodes the result *)
Theorem ws_answered_unsub_off_loop :
  forall evs w s k,
    wrun evs winit = Some w -> notif_straddle evs winit = false -> w_substraddle w = false ->
    w_upc w s = UCall k -> cpc_succ (w_cpc w k) = true -> off_loop w s /\ owns_nothing (w_act w) s.
Proof.
  intros evs w s k H F1 F2 Hu Hs.
  destruct (invACG_run _ _ _ invA_init invC0_init invG_init H F1 F2) as [IA [IC D]].
  split.
  - intros x t Hr. pose proof (g_notify w D _ _ _ Hr) as N.
    destruct N as [[U _]|[[k0 [U [_ Hc]]]|U]]; try congruence.
  - intros x Hf. apply alookup_In' in Hf. destruct (g_act w D _ _ Hf) as [_ Hn]. congruence.
Qed.

(* the ParseError exit put together: the eth_unsubscribe was answered by a non-error frame whose result does not
   decode into a Go bool; Unsubscribe returns the error and leaves the channel open; in every continuation no
   notification reaches s *)
Theorem ws_none_after_undecodable_unsubscribe :
  forall evs1 w1 s k i f res w1' evs2 w2,
    wrun evs1 winit = Some w1 -> w_upc w1 s = UCall k -> w_cpc w1 k = CDone i (COk f res) ->
    wstep w1 (EUnsubAfterCall s false) = Some w1' -> wrun evs2 w1' = Some w2 ->
    notif_straddle (evs1 ++ EUnsubAfterCall s false :: evs2) winit = false -> w_substraddle w2 = false ->
    w_upc w2 s = UDone false /\ s_closed (w_sub w2 s) = false /\
    notifs_to s (w_log w2) = notifs_to s (w_log w1) /\ owns_nothing (w_act w2) s /\ off_loop w2 s.
Proof.
  intros evs1 w1 s k i f res w1' evs2 w2 H1 Hu Hc Hst H2 F1 F2.
  assert (H12 : wrun (EUnsubAfterCall s false :: evs2) w1 = Some w2) by (cbn [wrun]; rewrite Hst; exact H2).
  destruct (notif_straddle_app _ _ _ _ H1 F1) as [Fa _].
  pose proof (substraddle_mono_run _ _ _ H12 F2) as G1.
  assert (Hs : cpc_succ (w_cpc w1 k) = true) by (rewrite Hc; reflexivity).
  destruct (ws_answered_unsub_off_loop _ _ _ _ H1 Fa G1 Hu Hs) as [Hoff _].
  assert (Hn : w_upc w1 s <> UNew) by congruence.
  (* first the step itself, then the continuation from w1' *)
  assert (H1' : wrun (evs1 ++ [EUnsubAfterCall s false]) winit = Some w1') by (eapply wrun_snoc; eauto).
  assert (F1' : notif_straddle ((evs1 ++ [EUnsubAfterCall s false]) ++ evs2) winit = false)
    by (rewrite <- app_assoc; exact F1).
  destruct (ws_unsub_decode_step _ _ _ _ _ _ Hu Hc) as [St _]. rewrite St in Hst. inversion Hst; subst w1'.
  assert (Hu' : w_upc (add_log (set_upc w1 s (UDone false)) (LUnsubFail s)) s = UDone false)
    by (wsimp; apply upd_same).
  assert (Hoff' : off_loop (add_log (set_upc w1 s (UDone false)) (LUnsubFail s)) s)
    by (intros x t; wsimp; apply Hoff).
  assert (Hn' : w_upc (add_log (set_upc w1 s (UDone false)) (LUnsubFail s)) s <> UNew) by congruence.
  destruct (ws_none_after_unsub_begun _ _ _ _ s H1' H2 F1' F2 Hn' Hoff') as [A [B [C [_ Dd]]]].
  destruct (Dd Hu') as [U Cl].
  repeat split; auto.
Qed.

(* ---------- ISSUE 2: a reply IS delivered, with the content of the frame ---------- *)
Theorem ws_reply_is_delivered :
  forall evs w, wrun evs winit = Some w ->
    forall i k e v, w_rpc w = RIdle -> alookup i (w_calls w) = Some k ->
      exists w1 w2,
        wstep w (EFrame (FReply (Some i) e v)) = Some w1 /\
        w_rpc w1 = RDeliver k (RespFrame i e v) /\
        wstep w1 ERDeliver = Some w2 /\
        alookup i (w_calls w2) = None /\
        (w_chan w k = None ->
           w_chan w2 k = Some (RespFrame i e v) /\ w_log w2 = LDeliver k (RespFrame i e v) :: w_log w).
Proof.
  intros evs w H i k e v Hr Hc.
  pose proof (invA_run _ _ _ invA_init H) as IA.
  assert (Hp : alookup i (w_pend w) = None).
  { apply notin_alookup_none. intros s Hin. apply alookup_In in Hc. exact (a_disj _ IA _ _ _ Hc Hin). }
  eexists. eexists.
  unfold wstep at 1. rewrite Hr. unfold popInflight. rewrite Hp, Hc.
  split; [reflexivity|]. split; [reflexivity|].
  unfold wstep. wsimp. split; [reflexivity|].
  split.
  - unfold deliverCallResponse. wsimp. destruct (w_chan w k); wsimp; apply alookup_adel_same.
  - intros Hn. unfold deliverCallResponse. wsimp. rewrite Hn. wsimp. split; [apply upd_same|reflexivity].
Qed.

(* ... and what a call holds / returns as the content of a frame IS the content of a frame of the history (same id,
   same error flag, same result) *)
Definition frame_of_resp (r : resp) : option frame :=
  match r with RespFrame i e v => Some (FReply (Some i) e v) | RespReconn => None end.
Definition frame_of_cout (o : cout) : option frame :=
  match o with COk f v => Some (FReply (Some f) false v) | CErrFrame f v => Some (FReply (Some f) true v) | _ => None end.
Definition frame_of_cpc (p : cpc) : option frame :=
  match p with CGot _ o | CDone _ o => frame_of_cout o | _ => None end.

Definition sourced (evs : list wev) (w : wstate) : Prop :=
  (forall k r f, w_chan w k = Some r -> frame_of_resp r = Some f -> In (EFrame f) evs) /\
  (forall k r f, w_rpc w = RDeliver k r -> frame_of_resp r = Some f -> In (EFrame f) evs) /\
  (forall k f, frame_of_cpc (w_cpc w k) = Some f -> In (EFrame f) evs).

Lemma frame_of_cout_of r : frame_of_cout (cout_of r) = frame_of_resp r.
Proof. destruct r as [i [] v|]; reflexivity. Qed.

Lemma sourced_step pre w e w' : sourced pre w -> wstep w e = Some w' -> sourced (pre ++ [e]) w'.
Proof.
  intros [S1 [S2 S3]] H.
  assert (M : forall f, In (EFrame f) pre -> In (EFrame f) (pre ++ [e])) by (intros; apply in_or_app; left; assumption).
  assert (L : In e (pre ++ [e])) by (apply in_or_app; right; left; reflexivity).
  destruct e; step_cases H; wsimp; (split; [|split]); intros;
    split_upd; wsimp; cbn [frame_of_cpc frame_of_cout frame_of_resp] in *;
    try discriminate;
    try solve [ eauto
              | apply M; eauto
              | match goal with Hr : RDeliver _ _ = RDeliver _ _ |- _ => inversion Hr; subst end;
                cbn [frame_of_resp] in *;
                match goal with Hf : Some _ = Some _ |- _ => inversion Hf; subst end; exact L ].
  all: split_upd; wsimp; cbn [frame_of_cpc frame_of_cout frame_of_resp] in *; try discriminate;
    try solve [ apply M; eauto ].
  all: try rewrite frame_of_cout_of in *.
  all: try solve [ apply M; first [ eapply S1; eassumption | eapply S2; eassumption
                                  | match goal with E : w_cpc ?w ?k = _ |- _ => apply (S3 k); rewrite E; assumption end ] ].
  all: try solve [ apply M; match goal with H : w_cpc ?w ?k = _ |- _ => apply (S3 k); rewrite H; cbn [frame_of_cpc frame_of_cout]; assumption end ].
  all: try congruence.
  - inversion H; subst. apply M. eapply S2; [reflexivity|exact H0].
  - inversion H; subst. cbn in H0. discriminate.
Qed.

Lemma sourced_run evs : forall pre w w', sourced pre w -> wrun evs w = Some w' -> sourced (pre ++ evs) w'.
Proof.
  induction evs as [|e evs IH]; intros pre w w' S H; cbn in H.
  - inversion H; subst. rewrite app_nil_r. exact S.
  - destruct (wstep w e) as [w1|] eqn:E; [|discriminate].
    replace (pre ++ e :: evs) with ((pre ++ [e]) ++ evs) by (rewrite <- app_assoc; reflexivity).
    eapply IH; [eapply sourced_step; eauto|exact H].
Qed.

Lemma sourced_init : sourced [] winit.
Proof. repeat split; cbn; intros; discriminate. Qed.

(* what CallRPC k holds or has returned as the content of a reply frame, what lies in k's response channel and what
   the receive loop is about to hand over, is the content (id, error flag, result) of a reply frame the server
   actually sent in this history *)
Theorem ws_call_outcome_from_history :
  forall evs w, wrun evs winit = Some w ->
    (forall k i f v, (w_cpc w k = CGot i (COk f v) \/ w_cpc w k = CDone i (COk f v)) ->
        f = i /\ In (EFrame (FReply (Some i) false v)) evs) /\
    (forall k i f v, (w_cpc w k = CGot i (CErrFrame f v) \/ w_cpc w k = CDone i (CErrFrame f v)) ->
        f = i /\ In (EFrame (FReply (Some i) true v)) evs) /\
    (forall k i e v, w_chan w k = Some (RespFrame i e v) -> In (EFrame (FReply (Some i) e v)) evs) /\
    (forall k i e v, w_rpc w = RDeliver k (RespFrame i e v) -> In (EFrame (FReply (Some i) e v)) evs).
Proof.
  intros evs w H.
  pose proof (sourced_run _ _ _ _ sourced_init H) as [S1 [S2 S3]]. cbn [app] in *.
  pose proof (invA_run _ _ _ invA_init H) as IA. pose proof (a_cout _ IA) as Co.
  split; [|split; [|split]].
  - intros k i f v Hk. specialize (Co k). assert (f = i) by (destruct Hk as [Hk|Hk]; rewrite Hk in Co; exact Co).
    subst f. split; [reflexivity|]. apply (S3 k). destruct Hk as [Hk|Hk]; rewrite Hk; reflexivity.
  - intros k i f v Hk. specialize (Co k). assert (f = i) by (destruct Hk as [Hk|Hk]; rewrite Hk in Co; exact Co).
    subst f. split; [reflexivity|]. apply (S3 k). destruct Hk as [Hk|Hk]; rewrite Hk; reflexivity.
  - intros k i e v Hk. eapply S1; [exact Hk|reflexivity].
  - intros k i e v Hk. eapply S2; [exact Hk|reflexivity].
Qed.


(* ---------- ISSUE 3, completeness half: the ownership table does get filled, and an owner does get its
   notification ---------- *)
(* a confirmation frame for a pending request of a configured subscription s, result x, taken on the current
   connection, makes s the owner of x; the next notification for x is then handed to s with x as its current id *)
Theorem ws_confirmation_activates :
  forall w i s x, w_rpc w = RIdle -> alookup i (w_pend w) = Some s -> nmem s (w_conf w) = true ->
    exists w1 w2,
      wstep w (EFrame (FReply (Some i) false (Some x))) = Some w1 /\
      wstep w1 ERAddActive = Some w2 /\
      w_rpc w2 = RIdle /\ spec_route (w_act w2) x = Some s /\ s_cur (w_sub w2 s) = Some x /\
      (forall t, exists w3,
         wstep w2 (EFrame (FNotif (Some x) t)) = Some w3 /\ w_rpc w3 = RNotify s x t /\
         (s_closed (w_sub w s) = false ->
            exists w4, wstep w3 ERNotifySend = Some w4 /\ w_log w4 = LNotify s x (Some x) t :: w_log w)).
Proof.
  intros w i s x Hr Hp Hc.
  eexists. eexists.
  split. { unfold wstep. rewrite Hr. unfold popInflight. rewrite Hp. wsimp. reflexivity. }
  split. { unfold wstep. wsimp. rewrite N.eqb_refl. unfold addActiveSub. wsimp. rewrite Hc. reflexivity. }
  rewrite !upd_same. wsimp.
  assert (Ha : forall l, alookup x (aset x s l) = Some s) by (intros l; unfold aset; cbn [alookup]; rewrite N.eqb_refl; reflexivity).
  destruct (s_new (w_sub w s)); wsimp; rewrite ?upd_same; wsimp;
    (split; [reflexivity|]); unfold spec_route; rewrite <- alookup_tab_find, Ha;
    (split; [reflexivity|]); (split; [reflexivity|]); intros t; eexists;
    (split; [unfold wstep, getActiveSub; wsimp; rewrite Ha; reflexivity|]); wsimp;
    (split; [reflexivity|]); intros Hcl; eexists; unfold wstep; wsimp; rewrite ?upd_same; wsimp; rewrite Hcl; wsimp;
    (split; [reflexivity|]); rewrite ?upd_same; wsimp; reflexivity.
Qed.

(* ---------- ISSUE 5b: buildRequest failing inside sendSubscribe (events ESubBuildFail / ERcBuildFail) ---------- *)
(* inside Subscribe(): after addConfiguredSub and before addInflightSub; no id is consumed, nothing becomes
   pending; Subscribe then removes the configured subscription and returns (nil, err) *)
Theorem ws_sub_build_fail_steps :
  forall w s, w_spc w s = SNew ->
    exists w1 w2 w3,
      wstep w (ESubCfg s) = Some w1 /\ wstep w1 (ESubBuildFail s) = Some w2 /\ wstep w2 (ESubRemoveCfg s) = Some w3 /\
      w_spc w3 s = SDone None /\ w_ctr w3 = w_ctr w /\ w_pend w3 = w_pend w /\ w_act w3 = w_act w /\
      w_calls w3 = w_calls w /\ w_log w3 = w_log w /\ ~ In s (w_conf w3).
Proof.
  intros w s Hn. eexists. eexists. eexists.
  split. { unfold wstep. rewrite Hn. reflexivity. }
  split. { unfold wstep. wsimp. rewrite upd_same. reflexivity. }
  split. { unfold wstep. wsimp. rewrite upd_same. reflexivity. }
  wsimp. rewrite upd_same. repeat split; try reflexivity.
  intros Hin. apply In_nremove in Hin. destruct Hin as [_ Hne]. exact (Hne eq_refl).
Qed.

(* inside handleReconnect: the hook gives up BEFORE addInflightSub - no id is consumed, no request is sent or
   pending for s - and (like 5b for a failing send) every call that was outstanding before the reconnect is
   already settled when it does so *)
Theorem ws_reconnect_calls_before_build_fail :
  forall evs1 w1 w1' evs2 w2 s w3,
    wrun evs1 winit = Some w1 -> wstep w1 EClear = Some w1' -> wrun evs2 w1' = Some w2 ->
    wstep w2 (ERcBuildFail s) = Some w3 ->
    (forall k i, waiting_id (w_cpc w1 k) = Some i -> call_settled w2 k i /\ call_settled w3 k i) /\
    w_hpc w3 = HIdle /\ w_ctr w3 = w_ctr w2 /\ w_pend w3 = w_pend w2 /\ w_log w3 = w_log w2.
Proof.
  intros evs1 w1 w1' evs2 w2 s w3 H1 Hc H2 H3.
  assert (N2 : forall cs ss, w_hpc w2 <> HCalls cs ss).
  { intros cs ss Eh. unfold wstep in H3; rewrite Eh in H3; discriminate. }
  assert (E3 : w3 = set_hpc w2 HIdle).
  { unfold wstep in H3. destruct (w_hpc w2); try discriminate. destruct (nmem s ss); [|discriminate].
    inversion H3; reflexivity. }
  assert (N3 : forall cs ss, w_hpc w3 <> HCalls cs ss) by (intros cs ss Eh; subst w3; cbn in Eh; discriminate).
  split; [|subst w3; cbn; repeat split; reflexivity].
  intros k i Hw. split.
  - exact (ws_reconnect_completes _ _ _ _ _ H1 Hc H2 N2 k i Hw).
  - exact (ws_reconnect_completes _ _ _ _ _ H1 Hc (wrun_snoc _ _ _ _ _ H2 H3) N3 k i Hw).
Qed.
