(* What C18 asks of the two RPC clients, written without reference to the code: a counting semaphore,
   an injective id allocator, and two abstract tables
       request id  |->  the caller waiting for that reply
       server id   |->  the subscription that currently owns it
   with the operations a correct client performs on them. *)
From Coq Require Import List NArith Lia Bool Arith.
Import ListNotations.

(* ---------- counting semaphore ---------- *)
(* [held] permits are out; a semaphore of capacity [cap] never has more than [cap] out *)
Definition sem_ok (cap held : N) : Prop := (held <= cap)%N.

(* ---------- id allocator ---------- *)
(* the list of ids handed out so far contains no id twice *)
Definition alloc_injective (handed : list N) : Prop := NoDup handed.

(* ---------- request table ---------- *)
(* An abstract client: [waiting] maps a request id to the caller that sent it and still waits. *)
Definition reqtab := list (N * nat).

Fixpoint tab_find (i : N) (t : reqtab) : option nat :=
  match t with [] => None | (j, c) :: r => if (i =? j)%N then Some c else tab_find i r end.
Fixpoint tab_remove (i : N) (t : reqtab) : reqtab :=
  match t with [] => [] | (j, c) :: r => if (i =? j)%N then tab_remove i r else (j, c) :: tab_remove i r end.

(* what the abstract client hands to a caller *)
Inductive delivery := DReply (fid : N) | DConnectionLost.

(* a reply frame with id [i]: delivered to the caller registered under [i], which stops waiting;
   nobody is registered (unknown id, or a duplicate of an answered one) -> dropped *)
Definition spec_reply (t : reqtab) (i : N) : reqtab * option (nat * delivery) :=
  match tab_find i t with
  | Some c => (tab_remove i t, Some (c, DReply i))
  | None => (t, None)
  end.

(* the connection is re-established: every waiting caller gets an error, nobody keeps waiting *)
Definition spec_reconnect (t : reqtab) : reqtab * list (nat * delivery) :=
  ([], map (fun '(_, c) => (c, DConnectionLost)) t).

(* a delivery is correctly paired when the reply carries the id allocated to that caller's request *)
Definition paired (alloc : nat -> option N) (c : nat) (d : delivery) : Prop :=
  match d with DReply fid => alloc c = Some fid | DConnectionLost => True end.

(* ---------- subscription ownership ---------- *)
(* [owner] maps a server subscription id to the local subscription it was confirmed for on the current
   connection.  A notification goes to the owner of its id, and to nobody when the id has no owner. *)
Definition owntab := list (N * nat).
Definition spec_route (o : owntab) (x : N) : option nat := tab_find x o.
(* unsubscribing s removes every id it owns; a reconnect removes everything *)
Definition spec_unsubscribe (o : owntab) (s : nat) : owntab := filter (fun '(_, s') => negb (s' =? s)%nat) o.
Definition owns_nothing (o : owntab) (s : nat) : Prop := forall x, tab_find x o <> Some s.

Lemma spec_unsubscribe_owns_nothing o s : owns_nothing (spec_unsubscribe o s) s.
Proof.
  unfold owns_nothing, spec_unsubscribe. induction o as [|[y s'] o IH]; intros x; cbn; [discriminate|].
  destruct (Nat.eqb_spec s' s); cbn; [apply IH|].
  destruct (x =? y)%N; [intros H; inversion H; contradiction|apply IH].
Qed.
