(* Executable model of pkg/rpcbackend: the HTTP client (backend.go: SyncRequest, allocateRequestID)
   and the WebSocket client (wsbackend.go) as labelled transition systems.

   A goroutine system is modelled by a deterministic [step : state -> event -> option state]; the
   event names the thread that moves and carries the environment's choice (which frame arrives, whether
   a send succeeds, which map element a Go `range` visits next).  [None] = the step is not enabled in
   that state.  Each mutex-protected region, channel operation or atomic add of the Go code is ONE
   event, so every interleaving of the Go code (at that granularity) is an event list and vice versa.
   No proofs in this file. *)
From Coq Require Import List NArith Lia Bool Arith.
Import ListNotations.

(* ---------- small association-list toolkit (Go maps; keys N) ---------- *)
Section Assoc.
  Context {V : Type}.
  Fixpoint alookup (k : N) (l : list (N * V)) : option V :=
    match l with [] => None | (k', v) :: t => if (k =? k')%N then Some v else alookup k t end.
  Fixpoint adel (k : N) (l : list (N * V)) : list (N * V) :=
    match l with [] => [] | (k', v) :: t => if (k =? k')%N then adel k t else (k', v) :: adel k t end.
  (* m[k] = v *)
  Definition aset (k : N) (v : V) (l : list (N * V)) : list (N * V) := (k, v) :: adel k l.
End Assoc.

Fixpoint nmem (x : nat) (l : list nat) : bool :=
  match l with [] => false | y :: t => (x =? y)%nat || nmem x t end.
Fixpoint nremove (x : nat) (l : list nat) : list nat :=
  match l with [] => [] | y :: t => if (x =? y)%nat then nremove x t else y :: nremove x t end.

Definition upd {A} (f : nat -> A) (k : nat) (v : A) : nat -> A :=
  fun x => if (x =? k)%nat then v else f x.

(* =====================================================================================
   HTTP client: RPCClient.SyncRequest
   ===================================================================================== *)

(* what the backend did with one request *)
Inductive hreply :=
| HRResult (echo : N) (res : N)      (* 2xx, JSON body with a result; [echo] = whatever id it carried *)
| HRNoResult (echo : N)              (* 2xx, JSON object without result and without error code *)
| HRRpcError (echo : N) (code : N)   (* any status, JSON body carrying an error with code <> 0 *)
| HRStatus                           (* error status without a JSON-RPC error code (empty/HTML/{} body) *)
| HRNullBody                         (* 2xx, body `null` *)
| HRBadJSON                          (* 2xx, unparseable body *)
| HRTransport.                       (* connection failed / context cancelled during the exchange *)

(* what SyncRequest returned: error?, response id, result (None = none), error code (0 = none) *)
Record hout := { ho_err : bool; ho_id : N; ho_res : option N; ho_code : N }.

Definition codeInternal : N := 32603.   (* RPCCodeInternalError = -32603, magnitude *)
Definition resNull : N := 0.            (* the JSON null result is reported as result value 0 *)

Inductive hpc :=
| HNew
| HWait                                   (* blocked in select { slots <- true | <-ctx.Done() } *)
| HHold (slot : bool)                     (* past the select; [slot] = holds a concurrency slot *)
| HSent (slot : bool) (beid : N)          (* id allocated, request at the backend *)
| HGot (slot : bool) (beid : N) (r : hreply)
| HRet (slot : bool) (o : hout)           (* response built (id restored), deferred release pending *)
| HDone (o : hout).

Record hstate := {
  h_limit : N;                 (* MaxConcurrentRequest; 0 = no semaphore (nil channel) *)
  h_slots : N;                 (* len(concurrencySlots) *)
  h_ctr : N;                   (* requestCounter *)
  h_pc : nat -> hpc;
  h_orig : nat -> N;           (* the caller's own request id *)
  h_started : list nat;        (* callers, newest first *)
  h_sent : list N;             (* ghost: every id put on a backend request, newest first *)
}.

Definition hinit (limit : N) : hstate :=
  {| h_limit := limit; h_slots := 0; h_ctr := 0; h_pc := fun _ => HNew; h_orig := fun _ => 0%N;
     h_started := []; h_sent := [] |}.

Inductive hev :=
| HEStart (c : nat) (orig : N)
| HEAcquire (c : nat)
| HECancel (c : nat)              (* ctx.Done() wins the select *)
| HEAlloc (c : nat)               (* allocateRequestID: atomic.AddInt64 *)
| HEReply (c : nat) (r : hreply)  (* the exchange completes *)
| HERestore (c : nat)             (* rpcRes.ID = rpcReq.ID and classification *)
| HERelease (c : nat).            (* deferred <-concurrencySlots *)

Definition err_out (orig : N) (code : N) : hout :=
  {| ho_err := true; ho_id := orig; ho_res := None; ho_code := code |}.

(* the part of SyncRequest after Post returned *)
Definition hclassify (orig : N) (r : hreply) : hout :=
  match r with
  | HRResult _ v => {| ho_err := false; ho_id := orig; ho_res := Some v; ho_code := 0 |}
  | HRNoResult _ => {| ho_err := false; ho_id := orig; ho_res := Some resNull; ho_code := 0 |}
  | HRRpcError _ c => {| ho_err := true; ho_id := orig; ho_res := None; ho_code := c |}
  | HRStatus => err_out orig codeInternal
  | HRNullBody => err_out orig codeInternal
  | HRBadJSON => err_out orig codeInternal
  | HRTransport => err_out orig codeInternal
  end.

Definition hset_pc (s : hstate) (c : nat) (p : hpc) : hstate :=
  {| h_limit := h_limit s; h_slots := h_slots s; h_ctr := h_ctr s; h_pc := upd (h_pc s) c p;
     h_orig := h_orig s; h_started := h_started s; h_sent := h_sent s |}.
Definition hset_slots (s : hstate) (n : N) : hstate :=
  {| h_limit := h_limit s; h_slots := n; h_ctr := h_ctr s; h_pc := h_pc s;
     h_orig := h_orig s; h_started := h_started s; h_sent := h_sent s |}.

Definition hstep (s : hstate) (e : hev) : option hstate :=
  match e with
  | HEStart c orig =>
      match h_pc s c with
      | HNew =>
          Some {| h_limit := h_limit s; h_slots := h_slots s; h_ctr := h_ctr s;
                  h_pc := upd (h_pc s) c (if (h_limit s =? 0)%N then HHold false else HWait);
                  h_orig := upd (h_orig s) c orig; h_started := c :: h_started s; h_sent := h_sent s |}
      | _ => None
      end
  | HEAcquire c =>
      match h_pc s c with
      | HWait => if (h_slots s <? h_limit s)%N
                 then Some (hset_pc (hset_slots s (h_slots s + 1)) c (HHold true)) else None
      | _ => None
      end
  | HECancel c =>
      match h_pc s c with
      | HWait => Some (hset_pc s c (HDone (err_out (h_orig s c) codeInternal)))
      | _ => None
      end
  | HEAlloc c =>
      match h_pc s c with
      | HHold b =>
          let id := (h_ctr s + 1)%N in
          Some {| h_limit := h_limit s; h_slots := h_slots s; h_ctr := id;
                  h_pc := upd (h_pc s) c (HSent b id); h_orig := h_orig s;
                  h_started := h_started s; h_sent := id :: h_sent s |}
      | _ => None
      end
  | HEReply c r =>
      match h_pc s c with HSent b id => Some (hset_pc s c (HGot b id r)) | _ => None end
  | HERestore c =>
      match h_pc s c with
      | HGot b id r => Some (hset_pc s c (HRet b (hclassify (h_orig s c) r)))
      | _ => None
      end
  | HERelease c =>
      match h_pc s c with
      | HRet b o => Some (hset_pc (if b then hset_slots s (h_slots s - 1) else s) c (HDone o))
      | _ => None
      end
  end.

Fixpoint hrun (evs : list hev) (s : hstate) : option hstate :=
  match evs with
  | [] => Some s
  | e :: t => match hstep s e with Some s' => hrun t s' | None => None end
  end.

Definition h_is_sent (p : hpc) : bool := match p with HSent _ _ => true | _ => false end.
Definition h_holds (p : hpc) : bool :=
  match p with HHold b | HSent b _ | HGot b _ _ | HRet b _ => b | _ => false end.
(* number of requests outstanding at the backend *)
Definition h_outstanding (s : hstate) : nat :=
  length (filter (fun c => h_is_sent (h_pc s c)) (h_started s)).
Definition h_holding (s : hstate) : nat :=
  length (filter (fun c => h_holds (h_pc s c)) (h_started s)).

(* =====================================================================================
   WebSocket client: wsRPCClient
   ===================================================================================== *)

(* what a waiting CallRPC finds in its response channel *)
Inductive resp :=
| RespFrame (fid : N) (iserr : bool) (res : option N)   (* a reply frame matched by id *)
| RespReconn.                                           (* the error handleReconnect delivers *)

(* what CallRPC returned *)
Inductive cout :=
| COk (fid : N) (res : option N)
| CErrFrame (fid : N) (res : option N)     (* the backend's JSON-RPC error ([res] codes its error code) *)
| CErrReconn | CErrCancel | CErrSend.

Definition cout_of (r : resp) : cout :=
  match r with
  | RespFrame i true v => CErrFrame i v
  | RespFrame i false v => COk i v
  | RespReconn => CErrReconn
  end.

Inductive cpc :=
| CNew
| CReg (id : N)              (* addInflightRequest done *)
| CWait (id : N)             (* request sent; in waitResponse's select *)
| CGot (id : N) (o : cout)   (* outcome decided; deferred removeInflightRequest pending *)
| CDone (id : N) (o : cout).

(* the *sub object *)
Record sub := {
  s_pend : option N;        (* pendingReqID ("" = None) *)
  s_cur : option N;         (* currentSubID ("" = None) *)
  s_new : bool;             (* newSubResponse not yet nilled *)
  s_respq : option bool;    (* content of the newSubResponse channel: Some true = nil error *)
  s_cancel : bool;          (* s.ctx cancelled *)
  s_closed : bool;          (* notifications channel closed *)
}.
Definition sub0 : sub :=
  {| s_pend := None; s_cur := None; s_new := true; s_respq := None; s_cancel := false; s_closed := false |}.

(* Subscribe() thread *)
Inductive spc :=
| SNew | SCfg | SInfl (id : N) | SWaiting (id : N) | SSendFailed | SCancelled
| SDone (r : option bool).   (* Some true = (s, nil); Some false = (s, err); None = (nil, err) *)

(* Unsubscribe() thread *)
Inductive upc := UNew | UCall (k : nat) | UClosing | UDone (ok : bool).

(* frames from the server *)
Inductive frame :=
| FBad                                                   (* not JSON *)
| FNotif (x : option N) (tag : N)                        (* method eth_subscription; None = no usable subscription id *)
| FReply (fid : option N) (iserr : bool) (res : option N).
   (* fid: Some i = the JSON string that is exactly the 9-digit form of i, None = anything else;
      res: Some v = result is a non-empty JSON string (coded v), None = missing/empty/not a string *)

(* receive loop *)
Inductive rpc :=
| RIdle
| RConfirm (s : nat) (x : N) (tell : bool) (g : N)
     (* between popInflight and addActiveSub; g = s.confirmedGen, the connection generation popInflight saw
        (kept here rather than in the sub record: the receive loop is sequential, nothing else reads it) *)
| RDeliver (k : nat) (r : resp)              (* between popInflight and deliverCallResponse *)
| RNotify (s : nat) (x : N) (tag : N).       (* after getActiveSub, at the select that hands it over *)

(* handleReconnect *)
Inductive rcpc :=
| HIdle
| HCalls (cs : list (N * nat)) (ss : list nat)   (* delivering the error to the snapshot of calls *)
| HSubs (ss : list nat)                          (* resubscribing the snapshot of configured subs *)
| HSend (s : nat) (id : N) (ss : list nat).      (* addInflightSub done, frame not yet sent *)

(* ghost log of observable actions, newest first *)
Inductive obs :=
| LSendCall (id : N) (k : nat)
| LSendSub (id : N) (s : nat)
| LClear
| LDeliver (k : nat) (r : resp)
| LNotify (s : nat) (x : N) (cur : option N) (tag : N)
| LUnsubRet (s : nat)      (* Unsubscribe returned nil (notifications channel closed) *)
| LUnsubFail (s : nat).    (* Unsubscribe returned an error *)

Record wstate := {
  w_ctr : N;                        (* requestCounter *)
  w_calls : list (N * nat);         (* calls: request id -> channel (= call handle) *)
  w_conf : list nat;                (* configuredSubs (local ids = sub handles) *)
  w_pend : list (N * nat);          (* pendingSubsByReqID *)
  w_act : list (N * nat);           (* activeSubsBySubID *)
  w_sub : nat -> sub;               (* heap of sub objects *)
  w_chan : nat -> option resp;      (* the capacity-1 response channel of each call *)
  w_cpc : nat -> cpc;
  w_spc : nat -> spc;
  w_upc : nat -> upc;
  w_rpc : rpc;
  w_hpc : rcpc;
  w_log : list obs;
  w_panic : bool;                   (* a send on a closed channel / close of a closed channel happened *)
  w_straddle : bool;                (* ghost: a reconnect began while the receive loop was inside a frame *)
  w_substraddle : bool;             (* ghost: a reconnect began while a Subscribe was between
                                       addConfiguredSub and the completion of its send *)
  w_subs_seen : list nat;           (* ghost: every sub handle ever created *)
  w_gen : N;                        (* connGeneration: number of times the active state was cleared *)
}.

Definition winit : wstate :=
  {| w_ctr := 0; w_calls := []; w_conf := []; w_pend := []; w_act := [];
     w_sub := fun _ => sub0; w_chan := fun _ => None;
     w_cpc := fun _ => CNew; w_spc := fun _ => SNew; w_upc := fun _ => UNew;
     w_rpc := RIdle; w_hpc := HIdle; w_log := []; w_panic := false;
     w_straddle := false; w_substraddle := false; w_subs_seen := []; w_gen := 0 |}.

Inductive wev :=
(* CallRPC k *)
| ECallReg (k : nat) | ECallSend (k : nat) (ok : bool) | ECallRecv (k : nat) | ECallCancel (k : nat)
| ECallRemove (k : nat)
(* Subscribe s *)
| ESubCfg (s : nat) | ESubInflight (s : nat) | ESubSend (s : nat) (ok : bool) | ESubWait (s : nat)
| ESubCancel (s : nat) | ESubRemoveCfg (s : nat)
| ESubBuildFail (s : nat)
    (* sendSubscribe inside Subscribe(): buildRequest fails (a parameter cannot be marshalled) after
       addConfiguredSub and BEFORE addInflightSub: no id allocated, nothing pending; Subscribe then removes the
       configured subscription and returns (nil, err) like after a failed send *)
(* Unsubscribe s; k = the handle of the CallRPC("eth_unsubscribe") it may issue *)
| EUnsubRemove (s : nat) (k : nat)
| EUnsubAfterCall (s : nat) (dec : bool)
    (* dec = the environment's choice: did json.Unmarshal of the eth_unsubscribe result into Unsubscribe's
       *bool succeed (waitResponse, wsbackend.go:411-415)?  true/false/null/absent decode; "", numbers, objects,
       arrays and every non-empty string do not.  The frame alphabet only separates "non-empty string" (Some v)
       from everything else (None), so for None the choice is the event's; for Some v it must be false. *)
| EUnsubClose (s : nat)
(* receive loop *)
| EFrame (f : frame) | ERAddActive | ERDeliver | ERNotifySend | ERNotifyDrop
(* handleReconnect *)
| EClear | ERcDeliver (k : nat) | ERcInflight (s : nat) | ERcSend (ok : bool)
| ERcBuildFail (s : nat).
    (* sendSubscribe inside handleReconnect: buildRequest fails for s, BEFORE addInflightSub (no id allocated);
       the hook returns the error and gives up on s and on everything still on its list *)

(* ---- record updates ---- *)
Definition set_sub (w : wstate) (s : nat) (o : sub) : wstate :=
  {| w_ctr := w_ctr w; w_calls := w_calls w; w_conf := w_conf w; w_pend := w_pend w; w_act := w_act w;
     w_sub := upd (w_sub w) s o; w_chan := w_chan w; w_cpc := w_cpc w; w_spc := w_spc w; w_upc := w_upc w;
     w_rpc := w_rpc w; w_hpc := w_hpc w; w_log := w_log w; w_panic := w_panic w;
     w_straddle := w_straddle w; w_substraddle := w_substraddle w; w_subs_seen := w_subs_seen w; w_gen := w_gen w |}.
Definition set_tables (w : wstate) (ctr : N) (calls : list (N * nat)) (conf : list nat)
  (pend act : list (N * nat)) : wstate :=
  {| w_ctr := ctr; w_calls := calls; w_conf := conf; w_pend := pend; w_act := act;
     w_sub := w_sub w; w_chan := w_chan w; w_cpc := w_cpc w; w_spc := w_spc w; w_upc := w_upc w;
     w_rpc := w_rpc w; w_hpc := w_hpc w; w_log := w_log w; w_panic := w_panic w;
     w_straddle := w_straddle w; w_substraddle := w_substraddle w; w_subs_seen := w_subs_seen w; w_gen := w_gen w |}.
Definition set_chan (w : wstate) (k : nat) (v : option resp) : wstate :=
  {| w_ctr := w_ctr w; w_calls := w_calls w; w_conf := w_conf w; w_pend := w_pend w; w_act := w_act w;
     w_sub := w_sub w; w_chan := upd (w_chan w) k v; w_cpc := w_cpc w; w_spc := w_spc w; w_upc := w_upc w;
     w_rpc := w_rpc w; w_hpc := w_hpc w; w_log := w_log w; w_panic := w_panic w;
     w_straddle := w_straddle w; w_substraddle := w_substraddle w; w_subs_seen := w_subs_seen w; w_gen := w_gen w |}.
Definition set_cpc (w : wstate) (k : nat) (p : cpc) : wstate :=
  {| w_ctr := w_ctr w; w_calls := w_calls w; w_conf := w_conf w; w_pend := w_pend w; w_act := w_act w;
     w_sub := w_sub w; w_chan := w_chan w; w_cpc := upd (w_cpc w) k p; w_spc := w_spc w; w_upc := w_upc w;
     w_rpc := w_rpc w; w_hpc := w_hpc w; w_log := w_log w; w_panic := w_panic w;
     w_straddle := w_straddle w; w_substraddle := w_substraddle w; w_subs_seen := w_subs_seen w; w_gen := w_gen w |}.
Definition set_spc (w : wstate) (s : nat) (p : spc) : wstate :=
  {| w_ctr := w_ctr w; w_calls := w_calls w; w_conf := w_conf w; w_pend := w_pend w; w_act := w_act w;
     w_sub := w_sub w; w_chan := w_chan w; w_cpc := w_cpc w; w_spc := upd (w_spc w) s p; w_upc := w_upc w;
     w_rpc := w_rpc w; w_hpc := w_hpc w; w_log := w_log w; w_panic := w_panic w;
     w_straddle := w_straddle w; w_substraddle := w_substraddle w; w_subs_seen := w_subs_seen w; w_gen := w_gen w |}.
Definition set_upc (w : wstate) (s : nat) (p : upc) : wstate :=
  {| w_ctr := w_ctr w; w_calls := w_calls w; w_conf := w_conf w; w_pend := w_pend w; w_act := w_act w;
     w_sub := w_sub w; w_chan := w_chan w; w_cpc := w_cpc w; w_spc := w_spc w; w_upc := upd (w_upc w) s p;
     w_rpc := w_rpc w; w_hpc := w_hpc w; w_log := w_log w; w_panic := w_panic w;
     w_straddle := w_straddle w; w_substraddle := w_substraddle w; w_subs_seen := w_subs_seen w; w_gen := w_gen w |}.
Definition set_rpc (w : wstate) (p : rpc) : wstate :=
  {| w_ctr := w_ctr w; w_calls := w_calls w; w_conf := w_conf w; w_pend := w_pend w; w_act := w_act w;
     w_sub := w_sub w; w_chan := w_chan w; w_cpc := w_cpc w; w_spc := w_spc w; w_upc := w_upc w;
     w_rpc := p; w_hpc := w_hpc w; w_log := w_log w; w_panic := w_panic w;
     w_straddle := w_straddle w; w_substraddle := w_substraddle w; w_subs_seen := w_subs_seen w; w_gen := w_gen w |}.
Definition set_hpc (w : wstate) (p : rcpc) : wstate :=
  {| w_ctr := w_ctr w; w_calls := w_calls w; w_conf := w_conf w; w_pend := w_pend w; w_act := w_act w;
     w_sub := w_sub w; w_chan := w_chan w; w_cpc := w_cpc w; w_spc := w_spc w; w_upc := w_upc w;
     w_rpc := w_rpc w; w_hpc := p; w_log := w_log w; w_panic := w_panic w;
     w_straddle := w_straddle w; w_substraddle := w_substraddle w; w_subs_seen := w_subs_seen w; w_gen := w_gen w |}.
Definition add_log (w : wstate) (o : obs) : wstate :=
  {| w_ctr := w_ctr w; w_calls := w_calls w; w_conf := w_conf w; w_pend := w_pend w; w_act := w_act w;
     w_sub := w_sub w; w_chan := w_chan w; w_cpc := w_cpc w; w_spc := w_spc w; w_upc := w_upc w;
     w_rpc := w_rpc w; w_hpc := w_hpc w; w_log := o :: w_log w; w_panic := w_panic w;
     w_straddle := w_straddle w; w_substraddle := w_substraddle w; w_subs_seen := w_subs_seen w; w_gen := w_gen w |}.
Definition set_panic (w : wstate) : wstate :=
  {| w_ctr := w_ctr w; w_calls := w_calls w; w_conf := w_conf w; w_pend := w_pend w; w_act := w_act w;
     w_sub := w_sub w; w_chan := w_chan w; w_cpc := w_cpc w; w_spc := w_spc w; w_upc := w_upc w;
     w_rpc := w_rpc w; w_hpc := w_hpc w; w_log := w_log w; w_panic := true;
     w_straddle := w_straddle w; w_substraddle := w_substraddle w; w_subs_seen := w_subs_seen w; w_gen := w_gen w |}.
Definition set_flags (w : wstate) (a b : bool) (seen : list nat) : wstate :=
  {| w_ctr := w_ctr w; w_calls := w_calls w; w_conf := w_conf w; w_pend := w_pend w; w_act := w_act w;
     w_sub := w_sub w; w_chan := w_chan w; w_cpc := w_cpc w; w_spc := w_spc w; w_upc := w_upc w;
     w_rpc := w_rpc w; w_hpc := w_hpc w; w_log := w_log w; w_panic := w_panic w;
     w_straddle := a; w_substraddle := b; w_subs_seen := seen; w_gen := w_gen w |}.

Definition sub_set_pend (o : sub) (p : option N) : sub :=
  {| s_pend := p; s_cur := s_cur o; s_new := s_new o; s_respq := s_respq o; s_cancel := s_cancel o; s_closed := s_closed o |}.
Definition sub_set_cur (o : sub) (c : option N) : sub :=
  {| s_pend := s_pend o; s_cur := c; s_new := s_new o; s_respq := s_respq o; s_cancel := s_cancel o; s_closed := s_closed o |}.
Definition sub_set_new (o : sub) (n : bool) (q : option bool) : sub :=
  {| s_pend := s_pend o; s_cur := s_cur o; s_new := n; s_respq := q; s_cancel := s_cancel o; s_closed := s_closed o |}.
Definition sub_set_cancel (o : sub) : sub :=
  {| s_pend := s_pend o; s_cur := s_cur o; s_new := s_new o; s_respq := s_respq o; s_cancel := true; s_closed := s_closed o |}.
Definition sub_set_closed (o : sub) : sub :=
  {| s_pend := s_pend o; s_cur := s_cur o; s_new := s_new o; s_respq := s_respq o; s_cancel := s_cancel o; s_closed := true |}.

(* ---- the mutex-protected regions of wsbackend.go ---- *)

(* addInflightRequest: counter++, calls[id] = channel *)
Definition addInflightRequest (w : wstate) (k : nat) : wstate * N :=
  let id := (w_ctr w + 1)%N in
  (set_tables w id (aset id k (w_calls w)) (w_conf w) (w_pend w) (w_act w), id).

(* addInflightSub: counter++, s.pendingReqID = id, s.currentSubID = "", pendingSubsByReqID[id] = s *)
Definition addInflightSub (w : wstate) (s : nat) : wstate * N :=
  let id := (w_ctr w + 1)%N in
  let o := sub_set_cur (sub_set_pend (w_sub w s) (Some id)) None in
  (set_sub (set_tables w id (w_calls w) (w_conf w) (aset id s (w_pend w)) (w_act w)) s o, id).

Inductive popped := PSub (s : nat) | PCall (k : nat) | PNone.
(* popInflight *)
Definition popInflight (w : wstate) (id : N) : wstate * popped :=
  match alookup id (w_pend w) with
  | Some s =>
      (set_sub (set_tables w (w_ctr w) (w_calls w) (w_conf w) (adel id (w_pend w)) (w_act w))
               s (sub_set_pend (w_sub w s) None), PSub s)
  | None =>
      match alookup id (w_calls w) with
      | Some k => (set_tables w (w_ctr w) (adel id (w_calls w)) (w_conf w) (w_pend w) (w_act w), PCall k)
      | None => (w, PNone)
      end
  end.

(* addActiveSub (with the membership re-check of the repaired code) *)
Definition addActiveSub (w : wstate) (s : nat) (x : N) : wstate :=
  if nmem s (w_conf w)
  then set_sub (set_tables w (w_ctr w) (w_calls w) (w_conf w) (w_pend w) (aset x s (w_act w)))
               s (sub_set_cur (w_sub w s) (Some x))
  else w.

Definition getActiveSub (w : wstate) (x : N) : option nat := alookup x (w_act w).

(* removeSubscription: returns s.currentSubID *)
Definition removeSubscription (w : wstate) (s : nat) : wstate * option N :=
  let o := w_sub w s in
  let act := match s_cur o with Some x => adel x (w_act w) | None => w_act w end in
  let pend := match s_pend o with Some i => adel i (w_pend w) | None => w_pend w end in
  (set_sub (set_tables w (w_ctr w) (w_calls w) (nremove s (w_conf w)) pend act) s (sub_set_cancel o),
   s_cur o).

Definition addConfiguredSub (w : wstate) (s : nat) : wstate :=
  set_sub (set_tables w (w_ctr w) (w_calls w) (s :: nremove s (w_conf w)) (w_pend w) (w_act w)) s sub0.

Definition removeConfiguredSub (w : wstate) (s : nat) : wstate :=
  set_tables w (w_ctr w) (w_calls w) (nremove s (w_conf w)) (w_pend w) (w_act w).

Definition removeInflightRequest (w : wstate) (id : N) : wstate :=
  set_tables w (w_ctr w) (adel id (w_calls w)) (w_conf w) (w_pend w) (w_act w).

(* clearActiveReturnConfiguredSubs (connGeneration++) *)
Definition clear_subs (f : nat -> sub) (conf : list nat) : nat -> sub :=
  fun s => if nmem s conf then sub_set_cur (sub_set_pend (f s) None) None else f s.
Definition clearActiveReturnConfiguredSubs (w : wstate) : wstate * list (N * nat) * list nat :=
  let w1 := set_tables w (w_ctr w) [] (w_conf w) [] [] in
  ({| w_ctr := w_ctr w1; w_calls := w_calls w1; w_conf := w_conf w1; w_pend := w_pend w1; w_act := w_act w1;
      w_sub := clear_subs (w_sub w) (w_conf w); w_chan := w_chan w1; w_cpc := w_cpc w1; w_spc := w_spc w1;
      w_upc := w_upc w1; w_rpc := w_rpc w1; w_hpc := w_hpc w1; w_log := w_log w1; w_panic := w_panic w1;
      w_straddle := w_straddle w1; w_substraddle := w_substraddle w1; w_subs_seen := w_subs_seen w1;
      w_gen := (w_gen w + 1)%N |},
   w_calls w, w_conf w).

(* deliverCallResponse: non-blocking send into the capacity-1 channel *)
Definition deliverCallResponse (w : wstate) (k : nat) (r : resp) : wstate :=
  match w_chan w k with
  | None => add_log (set_chan w k (Some r)) (LDeliver k r)
  | Some _ => w
  end.

Definition hnorm (cs : list (N * nat)) (ss : list nat) : rcpc :=
  match cs, ss with
  | _ :: _, _ => HCalls cs ss
  | [], _ :: _ => HSubs ss
  | [], [] => HIdle
  end.

Definition in_sub_window (p : spc) : bool :=
  match p with SCfg | SInfl _ => true | _ => false end.
Definition r_busy (p : rpc) : bool := match p with RIdle => false | _ => true end.

Fixpoint remove_val (k : nat) (cs : list (N * nat)) : list (N * nat) :=
  match cs with [] => [] | (i, k') :: t => if (k =? k')%nat then t else (i, k') :: remove_val k t end.
Fixpoint has_val (k : nat) (cs : list (N * nat)) : bool :=
  match cs with [] => false | (_, k') :: t => (k =? k')%nat || has_val k t end.

(* one atomic step *)
Definition wstep (w : wstate) (e : wev) : option wstate :=
  match e with
  (* ---------------- CallRPC ---------------- *)
  | ECallReg k =>
      match w_cpc w k with
      | CNew => let '(w1, id) := addInflightRequest w k in Some (set_cpc w1 k (CReg id))
      | _ => None
      end
  | ECallSend k ok =>
      match w_cpc w k with
      | CReg id => if ok then Some (add_log (set_cpc w k (CWait id)) (LSendCall id k))
                   else Some (set_cpc w k (CGot id CErrSend))
      | _ => None
      end
  | ECallRecv k =>
      match w_cpc w k, w_chan w k with
      | CWait id, Some r => Some (set_cpc (set_chan w k None) k (CGot id (cout_of r)))
      | _, _ => None
      end
  | ECallCancel k =>
      match w_cpc w k with
      | CWait id => Some (set_cpc w k (CGot id CErrCancel))
      | _ => None
      end
  | ECallRemove k =>
      match w_cpc w k with
      | CGot id o => Some (set_cpc (removeInflightRequest w id) k (CDone id o))
      | _ => None
      end
  (* ---------------- Subscribe ---------------- *)
  | ESubCfg s =>
      match w_spc w s with
      | SNew => let w1 := addConfiguredSub w s in
                Some (set_flags (set_spc w1 s SCfg) (w_straddle w1) (w_substraddle w1) (s :: w_subs_seen w1))
      | _ => None
      end
  | ESubInflight s =>
      match w_spc w s with
      | SCfg => let '(w1, id) := addInflightSub w s in Some (set_spc w1 s (SInfl id))
      | _ => None
      end
  | ESubSend s ok =>
      match w_spc w s with
      | SInfl id => if ok then Some (add_log (set_spc w s (SWaiting id)) (LSendSub id s))
                    else Some (set_spc w s SSendFailed)
      | _ => None
      end
  | ESubWait s =>
      match w_spc w s, s_respq (w_sub w s) with
      | SWaiting _, Some b =>
          Some (set_spc (set_sub w s (sub_set_new (w_sub w s) (s_new (w_sub w s)) None)) s (SDone (Some b)))
      | _, _ => None
      end
  | ESubCancel s =>
      (* the caller's context is the parent of s.ctx *)
      match w_spc w s with
      | SWaiting _ => Some (set_spc (set_sub w s (sub_set_cancel (w_sub w s))) s SCancelled)
      | _ => None
      end
  | ESubBuildFail s =>
      match w_spc w s with
      | SCfg => Some (set_spc w s SSendFailed)
      | _ => None
      end
  | ESubRemoveCfg s =>
      match w_spc w s with
      | SSendFailed | SCancelled => Some (set_spc (removeConfiguredSub w s) s (SDone None))
      | _ => None
      end
  (* ---------------- Unsubscribe ---------------- *)
  | EUnsubRemove s k =>
      match w_upc w s, w_spc w s with
      | UNew, SNew => None
      | UNew, _ =>
          let '(w1, cur) := removeSubscription w s in
          match cur with
          | Some _ => match w_cpc w k with
                      | CNew => Some (set_upc w1 s (UCall k))
                      | _ => None
                      end
          | None => Some (set_upc w1 s UClosing)
          end
      | _, _ => None
      end
  | EUnsubAfterCall s dec =>
      match w_upc w s with
      | UCall k =>
          match w_cpc w k with
          | CDone _ (COk _ res) =>
              (* CallRPC(ctx, &resultBool, ...): a reply that is not an error is decoded into a Go bool; when
                 that fails CallRPC returns a ParseError, Unsubscribe returns it and does NOT close the channel *)
              match res, dec with
              | Some _, true => None
              | _, true => Some (set_upc w s UClosing)
              | _, false => Some (add_log (set_upc w s (UDone false)) (LUnsubFail s))
              end
          | CDone _ _ => Some (add_log (set_upc w s (UDone false)) (LUnsubFail s))
          | _ => None
          end
      | _ => None
      end
  | EUnsubClose s =>
      match w_upc w s with
      | UClosing =>
          let w1 := if s_closed (w_sub w s) then set_panic w else set_sub w s (sub_set_closed (w_sub w s)) in
          Some (add_log (set_upc w1 s (UDone true)) (LUnsubRet s))
      | _ => None
      end
  (* ---------------- receive loop ---------------- *)
  | EFrame f =>
      match w_rpc w with
      | RIdle =>
          match f with
          | FBad => Some w
          | FNotif None _ => Some w
          | FNotif (Some x) t =>
              match getActiveSub w x with
              | Some s => Some (set_rpc w (RNotify s x t))
              | None => Some w
              end
          | FReply None _ _ => Some w
          | FReply (Some i) iserr res =>
              let '(w1, p) := popInflight w i in
              match p with
              | PSub s =>
                  (* handleSubscriptionConfirm up to addActiveSub; newSubResponse is nilled and, on the
                     failure paths, written (capacity 1, written once: never blocks) *)
                  let o := w_sub w1 s in
                  let tell := s_new o in
                  match iserr, res with
                  | false, Some x => Some (set_rpc (set_sub w1 s (sub_set_new o false (s_respq o))) (RConfirm s x tell (w_gen w1)))
                  | _, _ => Some (set_sub w1 s (sub_set_new o false (if tell then Some false else s_respq o)))
                  end
              | PCall k => Some (set_rpc w1 (RDeliver k (RespFrame i iserr res)))
              | PNone => Some w1
              end
          end
      | _ => None
      end
  | ERAddActive =>
      match w_rpc w with
      | RConfirm s x tell g =>
          (* addActiveSub refuses a confirmation matched on an earlier connection *)
          let w1 := if (g =? w_gen w)%N then addActiveSub w s x else w in
          let o := w_sub w1 s in
          Some (set_rpc (if tell then set_sub w1 s (sub_set_new o (s_new o) (Some true)) else w1) RIdle)
      | _ => None
      end
  | ERDeliver =>
      match w_rpc w with
      | RDeliver k r => Some (set_rpc (deliverCallResponse w k r) RIdle)
      | _ => None
      end
  | ERNotifySend =>
      match w_rpc w with
      | RNotify s x t =>
          if s_closed (w_sub w s) then Some (set_rpc (set_panic w) RIdle)
          else Some (set_rpc (add_log w (LNotify s x (s_cur (w_sub w s)) t)) RIdle)
      | _ => None
      end
  | ERNotifyDrop =>
      match w_rpc w with
      | RNotify s x t => if s_cancel (w_sub w s) then Some (set_rpc w RIdle) else None
      | _ => None
      end
  (* ---------------- handleReconnect ---------------- *)
  | EClear =>
      match w_hpc w with
      | HIdle =>
          let '(w1, cs, ss) := clearActiveReturnConfiguredSubs w in
          let w2 := set_flags w1 (w_straddle w || r_busy (w_rpc w))
                      (w_substraddle w || existsb (fun s => in_sub_window (w_spc w s)) (w_subs_seen w))
                      (w_subs_seen w) in
          Some (add_log (set_hpc w2 (hnorm cs ss)) LClear)
      | _ => None
      end
  | ERcDeliver k =>
      match w_hpc w with
      | HCalls cs ss =>
          if has_val k cs
          then Some (set_hpc (deliverCallResponse w k RespReconn) (hnorm (remove_val k cs) ss))
          else None
      | _ => None
      end
  | ERcInflight s =>
      match w_hpc w with
      | HSubs ss =>
          if nmem s ss
          then let '(w1, id) := addInflightSub w s in Some (set_hpc w1 (HSend s id (nremove s ss)))
          else None
      | _ => None
      end
  | ERcSend ok =>
      match w_hpc w with
      | HSend s id ss =>
          if ok then Some (add_log (set_hpc w (hnorm [] ss)) (LSendSub id s))
          else Some (set_hpc w HIdle)
      | _ => None
      end
  | ERcBuildFail s =>
      match w_hpc w with
      | HSubs ss => if nmem s ss then Some (set_hpc w HIdle) else None
      | _ => None
      end
  end.

Fixpoint wrun (evs : list wev) (w : wstate) : option wstate :=
  match evs with
  | [] => Some w
  | e :: t => match wstep w e with Some w' => wrun t w' | None => None end
  end.
