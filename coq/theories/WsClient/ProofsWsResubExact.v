(* C18, WebSocket client: "per reconnect each configured subscription is re-requested exactly once" - the
   EXACT count, for every history, without guards.  ProofsWsResub.v proves the clause under two global
   guards (no Subscribe() inside its registration window when ANY reconnect began: sticky flag w_substraddle;
   no failed send inside handleReconnect anywhere in the history: no_rc_abort) and refutes it without the
   first.  Here the two circumstances are made per subscription and relative to the LAST reconnect
   (functions of the history, the model is unchanged), and the count is shown to be
        [s was in its window when the last reconnect began] + [handleReconnect did not give up on s],
   so "exactly one" holds iff the two coincide; each of the other combinations is witnessed.  The partial
   theorem is the instance (false, false). *)
From Coq Require Import List NArith Lia Bool Arith.
From FFS Require Import WsClient.Model WsClient.ProofsWsBase WsClient.ProofsWsResub.
Import ListNotations.

(* ---------- the two ghost predicates, as functions of the history ---------- *)
(* gh_win s  : s was inside its Subscribe() window (between addConfiguredSub and the completion of its own
               send) at the moment the LAST reconnect began;
   gh_drop s : since the last reconnect began, handleReconnect gave up (a websocket send failed) while s was
               still on its list. *)
Record ghost := { gh_win : nat -> bool; gh_drop : nat -> bool }.
Definition ghost0 : ghost := {| gh_win := fun _ => false; gh_drop := fun _ => false |}.
Definition gstep (w : wstate) (e : wev) (g : ghost) : ghost :=
  match e with
  | EClear => {| gh_win := fun s => in_sub_window (w_spc w s); gh_drop := fun _ => false |}
  | ERcSend false | ERcBuildFail _ =>
      {| gh_win := gh_win g; gh_drop := fun s => gh_drop g s || nmem s (todo (w_hpc w)) |}
  | _ => g
  end.
Fixpoint grun (evs : list wev) (w : wstate) (g : ghost) : ghost :=
  match evs with
  | [] => g
  | e :: t => match wstep w e with Some w' => grun t w' (gstep w e g) | None => g end
  end.
Definition win_at_last_clear (evs : list wev) (s : nat) : bool := gh_win (grun evs winit ghost0) s.
Definition dropped_since_clear (evs : list wev) (s : nat) : bool := gh_drop (grun evs winit ghost0) s.

Definition b2n (b : bool) : nat := if b then 1 else 0.

(* the invariant speaks about four projections of the state only *)
Record invX (conf td : list nat) (pc : nat -> spc) (snd : nat -> nat) (g : ghost) : Prop := {
  x_nd_conf : NoDup conf;
  x_nd_todo : NoDup td;
  x_new : forall s, pc s = SNew ->
            ~ In s conf /\ ~ In s td /\ snd s = 0 /\ gh_win g s = false /\ gh_drop g s = false;
  x_todo_win : forall s, In s td -> in_sub_window (pc s) = true -> gh_win g s = true;
  x_todo_drop : forall s, In s td -> gh_drop g s = false;
  x_drop : forall s, gh_drop g s = true -> in_sub_window (pc s) = true -> gh_win g s = true;
  x_win : forall s, In s conf -> in_sub_window (pc s) = true ->
            snd s + cnt_in s td = b2n (gh_win g s && negb (gh_drop g s));
  x_one : forall s, In s conf -> settled (pc s) = true ->
            snd s + cnt_in s td = b2n (gh_win g s) + b2n (negb (gh_drop g s));
}.

Definition invXw (w : wstate) (g : ghost) : Prop :=
  invX (w_conf w) (todo (w_hpc w)) (w_spc w) (fun s => sends_since_clear s (w_log w)) g.

Ltac open_x X :=
  destruct X as [Xndc Xndt Xnew Xtw Xtd Xdr Xwin Xone].
Ltac inst_x x :=
  try (match goal with A : forall s, _ = SNew -> _ |- _ => pose proof (A x) end);
  try (match goal with A : forall s, In s _ -> in_sub_window _ = true -> gh_win _ s = true |- _ => pose proof (A x) end);
  try (match goal with A : forall s, In s _ -> gh_drop _ s = false |- _ => pose proof (A x) end);
  try (match goal with A : forall s, gh_drop _ s = true -> _ |- _ => pose proof (A x) end);
  try (match goal with A : forall s, In s _ -> in_sub_window _ = true -> _ + _ = _ |- _ => pose proof (A x) end);
  try (match goal with A : forall s, In s _ -> settled _ = true -> _ |- _ => pose proof (A x) end).
Ltac bools :=
  repeat match goal with
  | |- context [gh_win ?g ?x] => destruct (gh_win g x) eqn:?
  | |- context [gh_drop ?g ?x] => destruct (gh_drop g x) eqn:?
  | H : context [gh_win ?g ?x] |- _ =>
      lazymatch type of H with gh_win g x = _ => fail | _ => destruct (gh_win g x) eqn:? end
  | H : context [gh_drop ?g ?x] |- _ =>
      lazymatch type of H with gh_drop g x = _ => fail | _ => destruct (gh_drop g x) eqn:? end
  end; cbn [b2n andb negb orb] in *.
Ltac xfin := solve [ assumption | discriminate | congruence | lia | tauto
                   | intuition (first [discriminate | congruence | lia]) ].

Lemma cnt_in_le s l : cnt_in s l <= 1.
Proof. unfold cnt_in. destruct (nmem s l); lia. Qed.
Lemma cnt_in_pos_In s l : cnt_in s l = 1 -> In s l.
Proof. unfold cnt_in. destruct (nmem s l) eqn:E; [intros _; apply nmem_In; exact E|discriminate]. Qed.

(* ---- one lemma per kind of transition ---- *)
Section Trans.
  Variables (conf td : list nat) (pc : nat -> spc) (snd : nat -> nat) (g : ghost).
  Hypothesis X : invX conf td pc snd g.

  Lemma X_subcfg s : pc s = SNew -> invX (s :: nremove s conf) td (upd pc s SCfg) snd g.
  Proof.
    intros E. open_x X. pose proof (Xnew s E) as [N1 [N2 [N3 [N4 N5]]]].
    constructor; auto.
    - constructor; [rewrite In_nremove; tauto|apply NoDup_nremove; assumption].
    - intros x. upd_cases s x; [discriminate|]. intros Hx. specialize (Xnew x Hx).
      cbn [In]. rewrite In_nremove. intuition.
    - intros x. upd_cases s x; [contradiction|auto].
    - intros x. upd_cases s x; [congruence|auto].
    - intros x. upd_cases s x.
      + intros _ _. rewrite N3, N4, (cnt_in_notin s td N2). reflexivity.
      + intros [->|Hin]; [contradiction|]. apply In_nremove in Hin. apply Xwin. tauto.
    - intros x. upd_cases s x; [discriminate|].
      intros [->|Hin]; [contradiction|]. apply In_nremove in Hin. apply Xone. tauto.
  Qed.

  Lemma X_spc_same s p :
    pc s <> SNew -> p <> SNew ->
    (in_sub_window p = true -> in_sub_window (pc s) = true) -> (settled p = true -> settled (pc s) = true) ->
    invX conf td (upd pc s p) snd g.
  Proof.
    intros E1 E2 Ew Es. open_x X.
    constructor; auto.
    - intros x. upd_cases s x; [contradiction|auto].
    - intros x. upd_cases s x; auto.
    - intros x. upd_cases s x; auto.
    - intros x. upd_cases s x; auto.
    - intros x. upd_cases s x; auto.
  Qed.

  (* Subscribe()'s own send succeeds *)
  Lemma X_subsend_ok s id i :
    pc s = SInfl i -> invX conf td (upd pc s (SWaiting id)) (fun x => (if (s =? x)%nat then 1 else 0) + snd x) g.
  Proof.
    intros E. open_x X.
    constructor; auto.
    - intros x. upd_cases s x; [discriminate|]. intros Hx. specialize (Xnew x Hx).
      destruct (Nat.eqb_spec s x); [congruence|]. cbn. tauto.
    - intros x. upd_cases s x; [discriminate|auto].
    - intros x. upd_cases s x; [discriminate|auto].
    - intros x. upd_cases s x; [discriminate|]. destruct (Nat.eqb_spec s x); [congruence|]. cbn. auto.
    - intros x. upd_cases s x.
      + intros Hin _. rewrite Nat.eqb_refl. inst_x s. rewrite E in *. cbn [in_sub_window] in *.
        specialize (H3 Hin eq_refl). bools; xfin.
      + destruct (Nat.eqb_spec s x); [congruence|]. cbn. auto.
  Qed.

  Lemma X_conf_remove s :
    invX (nremove s conf) td pc snd g.
  Proof.
    open_x X. constructor; auto.
    - apply NoDup_nremove; assumption.
    - intros x Hx. specialize (Xnew x Hx). rewrite In_nremove. tauto.
    - intros x Hin. apply In_nremove in Hin. apply Xwin; tauto.
    - intros x Hin. apply In_nremove in Hin. apply Xone; tauto.
  Qed.

  Lemma X_clear : invX conf conf pc (fun _ => 0)
                    {| gh_win := fun s => in_sub_window (pc s); gh_drop := fun _ => false |}.
  Proof.
    open_x X. constructor; cbn [gh_win gh_drop]; auto.
    - intros x Hx. specialize (Xnew x Hx). rewrite Hx. cbn. tauto.
    - intros x Hin Hw. rewrite Hw, (cnt_in_In x conf Hin). reflexivity.
    - intros x Hin Hs. rewrite (cnt_in_In x conf Hin).
      destruct (pc x); cbn in *; try discriminate; reflexivity.
  Qed.

  Lemma X_rcinfl s : In s td -> invX conf (s :: nremove s td) pc snd g.
  Proof.
    intros Hin. open_x X. constructor; auto.
    - constructor; [rewrite In_nremove; tauto|apply NoDup_nremove; assumption].
    - intros x Hx. specialize (Xnew x Hx). cbn [In]. rewrite In_nremove.
      intuition. subst. contradiction.
    - intros x [->|Hx]; [auto|]. apply In_nremove in Hx. apply Xtw; tauto.
    - intros x [->|Hx]; [auto|]. apply In_nremove in Hx. apply Xtd; tauto.
    - intros x. rewrite cnt_in_move by assumption. auto.
    - intros x. rewrite cnt_in_move by assumption. auto.
  Qed.
End Trans.

Lemma cnt_in_nodup_head s ss : NoDup (s :: ss) -> cnt_in s ss = 0.
Proof. intros H. inversion H; subst. apply cnt_in_notin. assumption. Qed.

Section Trans2.
  Variables (conf : list nat) (pc : nat -> spc) (snd : nat -> nat) (g : ghost).

  (* handleReconnect's send for s succeeds *)
  Lemma X_rcsend_ok s ss :
    invX conf (s :: ss) pc snd g ->
    invX conf ss pc (fun x => (if (s =? x)%nat then 1 else 0) + snd x) g.
  Proof.
    intros X. open_x X. pose proof (cnt_in_nodup_head _ _ Xndt) as Z.
    constructor; auto.
    - inversion Xndt; assumption.
    - intros x Hx. specialize (Xnew x Hx). cbn [In] in Xnew.
      destruct (Nat.eqb_spec s x); [subst; tauto|]. cbn. tauto.
    - intros x Hin. apply Xtw. right; assumption.
    - intros x Hin. apply Xtd. right; assumption.
    - intros x Hin Hw. specialize (Xwin x Hin Hw). destruct (Nat.eqb_spec s x).
      + subst. rewrite cnt_in_cons_same in Xwin. rewrite Z. lia.
      + rewrite cnt_in_cons_other in Xwin by congruence. cbn. exact Xwin.
    - intros x Hin Hs. specialize (Xone x Hin Hs). destruct (Nat.eqb_spec s x).
      + subst. rewrite cnt_in_cons_same in Xone. rewrite Z. lia.
      + rewrite cnt_in_cons_other in Xone by congruence. cbn. exact Xone.
  Qed.

  (* handleReconnect's send for s fails: it returns, s and the rest of its list are not re-requested *)
  Lemma X_rcsend_fail td :
    invX conf td pc snd g ->
    invX conf [] pc snd {| gh_win := gh_win g; gh_drop := fun x => gh_drop g x || nmem x td |}.
  Proof.
    intros X. open_x X.
    constructor; cbn [gh_win gh_drop]; auto.
    - constructor.
    - intros x Hx. specialize (Xnew x Hx). destruct Xnew as [N1 [N2 [N3 [N4 N5]]]].
      rewrite N5. cbn. repeat split; auto; try (intros []).
      destruct (nmem x td) eqn:E; [apply nmem_In in E; contradiction|reflexivity].
    - intros x [].
    - intros x Hd Hw. apply orb_true_iff in Hd. destruct Hd as [Hd|Hd]; [auto|].
      apply nmem_In in Hd. auto.
    - intros x Hin Hw. specialize (Xwin x Hin Hw). unfold cnt_in in *. cbn [nmem].
      destruct (nmem x td) eqn:E.
      + apply nmem_In in E. rewrite (Xtd x E) in *. rewrite (Xtw x E Hw) in *. cbn in *. lia.
      + rewrite orb_false_r. lia.
    - intros x Hin Hs. specialize (Xone x Hin Hs). unfold cnt_in in *. cbn [nmem].
      destruct (nmem x td) eqn:E.
      + apply nmem_In in E. rewrite (Xtd x E) in *. cbn in *. destruct (gh_win g x); cbn in *; lia.
      + rewrite orb_false_r. lia.
  Qed.
End Trans2.

Lemma invX_ext conf td pc snd snd' g :
  (forall s, snd s = snd' s) -> invX conf td pc snd g -> invX conf td pc snd' g.
Proof.
  intros E X. open_x X. constructor; auto.
  - intros s Hs. rewrite <- E. auto.
  - intros s. rewrite <- E. auto.
  - intros s. rewrite <- E. auto.
Qed.

Lemma invXw_init : invXw winit ghost0.
Proof.
  constructor; cbn; intros; try constructor; try discriminate; try contradiction; auto.
Qed.

Lemma invXw_step w e w' g : invXw w g -> wstep w e = Some w' -> invXw w' (gstep w e g).
Proof.
  unfold invXw. intros X H.
  destruct e; step_cases H; wsimp; cbn [gstep]; rewrite ?todo_hnorm; cbn [todo];
    try exact X.
  all: try (eapply invX_ext; [|first [ exact X ]]; intros; reflexivity).
  all: try solve [apply X_conf_remove; exact X].
  all: try solve [apply X_subcfg; assumption].
  all: try solve [apply X_spc_same; [first [exact X|apply X_conf_remove; exact X]| rewrite E; discriminate | discriminate | rewrite E; cbn; congruence | rewrite E; cbn; congruence]].
  all: try solve [eapply invX_ext; [|eapply X_subsend_ok; eassumption]; intros; reflexivity].
  - eapply invX_ext; [|eapply X_clear; exact X]. intros; reflexivity.
  - try rewrite E in X. cbn [todo] in X. eapply X_rcinfl; [exact X|]. apply nmem_In. assumption.
  - rewrite todo_match. try rewrite E in X. cbn [todo] in X.
    eapply invX_ext; [|eapply X_rcsend_ok; exact X]. intros; reflexivity.
  - rewrite E. eapply X_rcsend_fail. exact X.
  - rewrite E. eapply X_rcsend_fail. exact X.
Qed.

Lemma invXw_run evs : forall w g w', invXw w g -> wrun evs w = Some w' -> invXw w' (grun evs w g).
Proof.
  induction evs as [|e evs IH]; intros w g w' X H; cbn in H |- *; [inversion H; subst; exact X|].
  destruct (wstep w e) as [w1|] eqn:E; [|discriminate].
  eapply IH; [|exact H]. eapply invXw_step; eauto.
Qed.

(* EXACT count, no guard: for every history and every configured, settled subscription s, the number of
   eth_subscribe frames sent for s since the last reconnect began, plus 1 while handleReconnect still has s
   on its list, is   [s was inside its Subscribe() window when that reconnect began]
                   + [handleReconnect has NOT given up with s still on its list]. *)
Theorem ws_resubscribe_exact :
  forall evs w, wrun evs winit = Some w ->
    forall s, In s (w_conf w) -> settled (w_spc w s) = true ->
      sends_since_clear s (w_log w) + cnt_in s (todo (w_hpc w)) =
        b2n (win_at_last_clear evs s) + b2n (negb (dropped_since_clear evs s)).
Proof.
  intros evs w H s Hin Hs.
  pose proof (invXw_run _ _ _ _ invXw_init H) as X.
  exact (x_one _ _ _ _ _ X s Hin Hs).
Qed.

(* ... hence, once handleReconnect is done: exactly one request iff the two exceptional circumstances
   coincide (neither - the normal case - or both, where the two defects cancel); two requests iff only the
   first holds, none iff only the second. *)
Theorem ws_resubscribe_once_iff :
  forall evs w, wrun evs winit = Some w -> w_hpc w = HIdle ->
    forall s, In s (w_conf w) -> settled (w_spc w s) = true ->
      (sends_since_clear s (w_log w) = 1 <-> win_at_last_clear evs s = dropped_since_clear evs s) /\
      (sends_since_clear s (w_log w) = 2 <-> win_at_last_clear evs s = true /\ dropped_since_clear evs s = false) /\
      (sends_since_clear s (w_log w) = 0 <-> win_at_last_clear evs s = false /\ dropped_since_clear evs s = true).
Proof.
  intros evs w H Hh s Hin Hs. pose proof (ws_resubscribe_exact evs w H s Hin Hs) as E.
  rewrite Hh in E. cbn [todo] in E. unfold cnt_in in E. cbn [nmem] in E.
  destruct (win_at_last_clear evs s), (dropped_since_clear evs s); cbn in E;
    repeat split; intros; try lia; try congruence; try tauto;
    try (match goal with H : _ /\ _ |- _ => destruct H; congruence end).
Qed.

(* ---------- the guards of the partial theorem imply the two circumstances are absent ---------- *)
Lemma win_implies_substraddle evs : forall w g w',
  invC0 w -> (forall s, gh_win g s = true -> w_substraddle w = true) ->
  wrun evs w = Some w' -> forall s, gh_win (grun evs w g) s = true -> w_substraddle w' = true.
Proof.
  induction evs as [|e evs IH]; intros w g w' C G H s Hw; cbn in H, Hw; [inversion H; subst; eauto|].
  destruct (wstep w e) as [w1|] eqn:E; [|discriminate].
  eapply IH; [eapply invC0_step; eauto| |exact H|exact Hw].
  intros s' Hs'.
  assert (M : w_substraddle w = true -> w_substraddle w1 = true) by (eapply substraddle_mono_step; eauto).
  pose proof (c0_seen w C) as Seen.
  destruct e; cbn [gstep] in Hs'; eauto.
  - (* EClear *) cbn [gh_win] in Hs'. specialize (Seen _ Hs').
    step_cases E; wsimp. apply orb_true_iff. right. apply existsb_exists. exists s'. auto.
  - (* ERcSend *) destruct ok; cbn [gh_win] in Hs'; eauto.
Qed.

Lemma substraddle_false_win_false evs w :
  wrun evs winit = Some w -> w_substraddle w = false -> forall s, win_at_last_clear evs s = false.
Proof.
  intros H F s. unfold win_at_last_clear. destruct (gh_win (grun evs winit ghost0) s) eqn:E; [|reflexivity].
  pose proof (win_implies_substraddle evs winit ghost0 w invC0_init ltac:(cbn; discriminate) H s E). congruence.
Qed.

Lemma no_abort_drop_false evs : forall w g,
  no_rc_abort evs -> (forall s, gh_drop g s = false) -> forall s, gh_drop (grun evs w g) s = false.
Proof.
  induction evs as [|e evs IH]; intros w g Hn G s; cbn; [auto|].
  inversion Hn; subst. destruct (wstep w e) as [w1|]; [|auto].
  apply IH; [assumption|]. intros s'. destruct e; cbn [gstep]; auto.
  - destruct ok; [auto|]. match goal with Hg : rc_gives_up _ = false |- _ => cbn in Hg; discriminate Hg end.
  - match goal with Hg : rc_gives_up _ = false |- _ => cbn in Hg; discriminate Hg end.
Qed.

Lemma no_abort_not_dropped evs : no_rc_abort evs -> forall s, dropped_since_clear evs s = false.
Proof. intros Hn s. apply no_abort_drop_false; auto. Qed.

(* the partial theorem of ProofsWsResub.v is the instance "neither circumstance" of the exact one *)
Corollary ws_resubscribe_once_partial_from_exact :
  forall evs w,
    wrun evs winit = Some w -> no_rc_abort evs -> w_substraddle w = false ->
    forall s, In s (w_conf w) -> settled (w_spc w s) = true ->
      sends_since_clear s (w_log w) + cnt_in s (todo (w_hpc w)) = 1.
Proof.
  intros evs w H Hn Hf s Hin Hs. rewrite (ws_resubscribe_exact evs w H s Hin Hs).
  rewrite (substraddle_false_win_false evs w H Hf s), (no_abort_not_dropped evs Hn s). reflexivity.
Qed.

(* ---------- witnesses: each of the three other combinations occurs ---------- *)
Definition resub_obs (evs : list wev) (s : nat) : option (bool * bool * bool * nat * bool * bool) :=
  match wrun evs winit with
  | Some w => Some (nmem s (w_conf w) && settled (w_spc w s),
                    match w_hpc w with HIdle => true | _ => false end,
                    w_substraddle w,
                    sends_since_clear s (w_log w),
                    win_at_last_clear evs s, dropped_since_clear evs s)
  | None => None
  end.

(* inside the window, no give-up: two requests (the witness of ws_resubscribe_once_refuted) *)
Example resub_two : resub_obs resub_witness 0 = Some (true, true, true, 2, true, false).
Proof. vm_compute. reflexivity. Qed.

(* handleReconnect gives up, subscription settled long before: NO request - the clause fails also without
   any Subscribe() straddling the reconnect (w_substraddle = false) *)
Definition resub_abort_witness : list wev :=
  [ESubCfg 0; ESubInflight 0; ESubSend 0 true; EFrame (FReply (Some 1%N) false (Some 5%N)); ERAddActive;
   ESubWait 0; EClear; ERcInflight 0; ERcSend false].
Example resub_none : resub_obs resub_abort_witness 0 = Some (true, true, false, 0, false, true).
Proof. vm_compute. reflexivity. Qed.

(* both: Subscribe()'s own send is the only one - one request, by accident *)
Definition resub_both_witness : list wev :=
  [ESubCfg 0; EClear; ESubInflight 0; ERcInflight 0; ERcSend false; ESubSend 0 true].
Example resub_both : resub_obs resub_both_witness 0 = Some (true, true, true, 1, true, true).
Proof. vm_compute. reflexivity. Qed.

(* the global flags of the partial theorem are broader than the circumstances: subscription 1 straddles the
   first reconnect (w_substraddle stays true for ever), subscription 0 and the second reconnect are
   unaffected: one request for 0, and the exact theorem says so *)
Definition resub_other_straddles : list wev :=
  [ESubCfg 0; ESubInflight 0; ESubSend 0 true; EFrame (FReply (Some 1%N) false (Some 5%N)); ERAddActive; ESubWait 0;
   ESubCfg 1; EClear; ERcInflight 0; ERcSend true; ERcInflight 1; ERcSend true;
   ESubInflight 1; ESubSend 1 true;
   EClear; ERcInflight 1; ERcSend true; ERcInflight 0; ERcSend true].
Example resub_flag_too_broad :
  resub_obs resub_other_straddles 0 = Some (true, true, true, 1, false, false) /\
  resub_obs resub_other_straddles 1 = Some (true, true, true, 1, false, false).
Proof. vm_compute. split; reflexivity. Qed.

Definition resub_abort_ok : bool :=
  match wrun resub_abort_witness winit with
  | Some w => negb (w_substraddle w) && nmem 0 (w_conf w) && settled (w_spc w 0) &&
              match w_hpc w with HIdle => true | _ => false end && (sends_since_clear 0 (w_log w) =? 0)%nat
  | None => false
  end.
Lemma resub_abort_ok_true : resub_abort_ok = true.
Proof. vm_compute. reflexivity. Qed.

Theorem ws_resubscribe_once_refuted_abort :
  exists evs w s,
    wrun evs winit = Some w /\ w_substraddle w = false /\ In s (w_conf w) /\ settled (w_spc w s) = true /\
    w_hpc w = HIdle /\ sends_since_clear s (w_log w) = 0.
Proof.
  exists resub_abort_witness.
  pose proof resub_abort_ok_true as X. unfold resub_abort_ok in X.
  destruct (wrun resub_abort_witness winit) as [w|]; [|discriminate X].
  exists w, 0. split; [reflexivity|].
  repeat (apply andb_prop in X; destruct X as [X ?]).
  repeat split.
  - destruct (w_substraddle w); [discriminate|reflexivity].
  - apply nmem_In. assumption.
  - assumption.
  - destruct (w_hpc w); try discriminate. reflexivity.
  - apply Nat.eqb_eq. assumption.
Qed.
