(* C18, WebSocket client: notifications go to the subscription that owns their server id, and to none
   after it is unsubscribed — proved for every event sequence in which no reconnect begins while the
   receive loop is inside a frame (ghost flag w_straddle) or a Subscribe() is registering
   (w_substraddle); refuted without the first hypothesis (receive loop between getActiveSub and the
   hand-over of a notification; the confirmation window D18c is closed by the generation check). *)
From Coq Require Import List NArith Lia Bool Arith.
From FFS Require Import WsClient.Model WsClient.Spec WsClient.ProofsWsBase WsClient.ProofsWsPairing
  WsClient.ProofsWsResub.
Import ListNotations.

Definition no_act (w : wstate) (s : nat) : Prop := forall x, ~ In (x, s) (w_act w).
Definition no_pend (w : wstate) (s : nat) : Prop := forall i, ~ In (i, s) (w_pend w).
Definition r_on (p : rpc) (s : nat) : bool :=
  match p with RConfirm s' _ _ _ | RNotify s' _ _ => (s' =? s)%nat | _ => false end.
Definition quiet (w : wstate) (s : nat) : Prop := no_act w s /\ no_pend w s /\ r_on (w_rpc w) s = false.
Definition todo' (h : rcpc) : list nat :=
  match h with HCalls _ ss | HSubs ss | HSend _ _ ss => ss | HIdle => [] end.
Definition early (p : spc) : bool := match p with SNew | SCfg => true | _ => false end.
Definition is_succ (r : option resp) : bool := match r with Some (RespFrame _ false _) => true | _ => false end.
Definition cpc_succ (p : cpc) : bool := match p with CGot _ (COk _ _) | CDone _ (COk _ _) => true | _ => false end.
Definition no_success (w : wstate) (k : nat) : Prop := is_succ (w_chan w k) = false /\ cpc_succ (w_cpc w k) = false.
Definition notify_ok (w : wstate) (s : nat) : Prop :=
  (w_upc w s = UNew /\ s_cur (w_sub w s) <> None) \/
  (exists k, w_upc w s = UCall k /\ no_success w k) \/
  w_upc w s = UDone false.

(* no notification for s is logged after Unsubscribe s returned nil *)
Definition no_late (log : list obs) : Prop :=
  forall post pre s, log = post ++ LUnsubRet s :: pre -> forall x c t, ~ In (LNotify s x c t) post.

Record invD (w : wstate) : Prop := {
  d_act : forall x s, In (x, s) (w_act w) -> s_cur (w_sub w s) = Some x /\ w_upc w s = UNew;
  d_pend_noact : forall i s, In (i, s) (w_pend w) -> no_act w s;
  d_early : forall s, early (w_spc w s) = true -> quiet w s;
  d_todo : forall s, In s (todo' (w_hpc w)) -> quiet w s;
  d_conf : forall s x t g, w_rpc w = RConfirm s x t g -> no_act w s /\ no_pend w s;
  d_uniq : forall i i' s, In (i, s) (w_pend w) -> In (i', s) (w_pend w) -> i = i';
  d_confU : forall s, In s (w_conf w) -> w_upc w s = UNew;
  d_newU : forall s, w_spc w s = SNew -> w_upc w s = UNew;
  d_notify : forall s x t, w_rpc w = RNotify s x t -> notify_ok w s;
  d_closed : forall s, s_closed (w_sub w s) = true -> w_upc w s = UDone true;
  d_log : forall s, In (LUnsubRet s) (w_log w) -> w_upc w s = UDone true;
  d_panic : w_panic w = false;
  d_late : no_late (w_log w);
}.

Lemma alookup_In' (i : N) (l : list (N * nat)) v : tab_find i l = Some v -> In (i, v) l.
Proof.
  induction l as [|[j u] l IH]; cbn; [discriminate|].
  destruct (N.eqb_spec i j); intros H; [inversion H; subst; left; reflexivity|right; auto].
Qed.

Lemma todo'_hnorm cs ss : todo' (hnorm cs ss) = ss.
Proof. destruct cs, ss; reflexivity. Qed.
Lemma todo'_match ss : todo' (match ss with [] => HIdle | _ :: _ => HSubs ss end) = ss.
Proof. destruct ss; reflexivity. Qed.
Lemma todo'_sub h s : In s (todo' h) -> In s (todo h).
Proof. destruct h; cbn; auto. Qed.

Lemma no_late_cons e log :
  no_late log -> (forall s x c t, e = LNotify s x c t -> ~ In (LUnsubRet s) log) -> no_late (e :: log).
Proof.
  intros NL He post pre s Heq x c t Hin.
  destruct post as [|e' post]; [destruct Hin|].
  cbn in Heq. inversion Heq; subst. destruct Hin as [Hin|Hin].
  - eapply He; [exact Hin|]. apply in_or_app. right. left. reflexivity.
  - eapply NL; eauto.
Qed.
Lemma no_late_cons_other e log :
  no_late log -> (forall s x c t, e <> LNotify s x c t) -> no_late (e :: log).
Proof. intros NL He. apply no_late_cons; [exact NL|]. intros s x c t E. exfalso. eapply He; eauto. Qed.

Ltac split_upd :=
  repeat match goal with
  | |- context [upd _ ?k _ ?x] =>
      destruct (Nat.eq_dec x k) as [->|?]; [rewrite ?upd_same in *|rewrite ?upd_other in * by assumption]
  | H : context [upd _ ?k _ ?x] |- _ =>
      destruct (Nat.eq_dec x k) as [->|?]; [rewrite ?upd_same in *|rewrite ?upd_other in * by assumption]
  end.
Ltac use_in :=
  repeat match goal with
  | H : In (_, _) (adel _ _) |- _ => apply In_adel in H; destruct H
  | H : In (_, _) (aset _ _ _) |- _ => apply In_aset in H; destruct H as [[? ?]|[? ?]]; subst
  | H : In _ (nremove _ _) |- _ => apply In_nremove in H; destruct H
  | H : In _ (_ :: _) |- _ => destruct H as [H|H]; [try discriminate H; try (inversion H; subst; clear H)|]
  | H : In _ [] |- _ => destruct H
  | H : Some _ = Some _ |- _ => inversion H; subst; clear H
  | H : RConfirm _ _ _ _ = RConfirm _ _ _ _ |- _ => inversion H; subst; clear H
  | H : RNotify _ _ _ = RNotify _ _ _ |- _ => inversion H; subst; clear H
  | H : alookup _ _ = Some _ |- _ => apply alookup_In in H
  | H : nmem _ _ = true |- _ => apply nmem_In in H
  end.

Ltac upose t := let T := type of t in lazymatch goal with | _ : T |- _ => fail | _ => pose proof t end.

Definition seen_mark (x : nat) : Prop := True.

Ltac open_inv IA IC D :=
  pose proof (d_act _ D) as Dact; pose proof (d_pend_noact _ D) as Dpn; pose proof (d_early _ D) as Dearly;
  pose proof (d_todo _ D) as Dtodo; pose proof (d_conf _ D) as Dconf; pose proof (d_uniq _ D) as Duniq;
  pose proof (d_confU _ D) as DconfU; pose proof (d_newU _ D) as DnewU; pose proof (d_notify _ D) as Dnotify;
  pose proof (d_closed _ D) as Dclosed; pose proof (d_log _ D) as Dlog; pose proof (d_panic _ D) as Dpanic;
  pose proof (d_late _ D) as Dlate;
  pose proof (a_chan _ IA) as Achan; pose proof (a_pend_le _ IA) as Aple;
  pose proof (c0_new _ IC) as Cnew; pose proof (c0_win _ IC) as Cwin;
  unfold quiet, no_act, no_pend in *.

Ltac sat_nat :=
  repeat match goal with
  | x : nat |- _ =>
      lazymatch goal with
      | _ : seen_mark x |- _ => fail
      | _ =>
        assert (seen_mark x) by exact I;
        try (match goal with A : forall s, early _ = true -> _ |- _ => pose proof (A x) end);
        try (match goal with A : forall s, In s (todo' _) -> _ |- _ => pose proof (A x) end);
        try (match goal with A : forall s, In s (w_conf _) -> w_upc _ s = UNew |- _ => pose proof (A x) end);
        try (match goal with A : forall s, w_spc _ s = SNew -> w_upc _ s = UNew |- _ => pose proof (A x) end);
        try (match goal with A : forall s, s_closed _ = true -> _ |- _ => pose proof (A x) end);
        try (match goal with A : forall s, In (LUnsubRet s) _ -> _ |- _ => pose proof (A x) end);
        try (match goal with A : forall s, w_spc _ s = SNew -> ~ In s _ /\ _ |- _ => pose proof (A x) end);
        try (match goal with A : w_substraddle _ = false -> forall s, _, Hf : w_substraddle _ = false |- _ => pose proof (A Hf x) end)
      end
  end.

Ltac sat_in :=
  repeat match goal with
  | A : forall x s, In (x, s) (w_act ?w) -> _ /\ _, H : In (?x, ?s) (w_act ?w) |- _ => upose (A x s H)
  | A : forall i s, In (i, s) (w_pend ?w) -> forall x, ~ In (x, s) (w_act ?w), H : In (?i, ?s) (w_pend ?w) |- _ => upose (A i s H)
  | A : forall i s, In (i, s) (w_pend ?w) -> (i <= _)%N, H : In (?i, ?s) (w_pend ?w) |- _ => upose (A i s H)
  | A : forall s x t g, w_rpc ?w = RConfirm s x t g -> _, H : w_rpc ?w = RConfirm ?s ?x ?t ?g |- _ => upose (A s x t g H)
  | A : forall s x t, w_rpc ?w = RNotify s x t -> _, H : w_rpc ?w = RNotify ?s ?x ?t |- _ => upose (A s x t H)
  | A : forall s x t g, RConfirm ?s0 ?x0 ?t0 ?g0 = RConfirm s x t g -> _ |- _ => upose (A s0 x0 t0 g0 eq_refl)
  | A : forall s x t, RNotify ?s0 ?x0 ?t0 = RNotify s x t -> _ |- _ => upose (A s0 x0 t0 eq_refl)
  end.

Ltac rew_all :=
  repeat match goal with
  | E : w_spc ?w ?s = _ |- _ => rewrite E in *; clear E
  | E : w_upc ?w ?s = _ |- _ => rewrite E in *; clear E
  | E : w_rpc ?w = _ |- _ => rewrite E in *; clear E
  | E : w_hpc ?w = _ |- _ => rewrite E in *; clear E
  end.

Ltac simp_hyps :=
  cbn [early r_on todo' todo in_sub_window is_succ cpc_succ cout_of] in *;
  repeat match goal with
  | H : ?a = ?a -> _ |- _ => specialize (H eq_refl)
  | H : true = true -> _ |- _ => specialize (H eq_refl)
  | H : false = true -> _ |- _ => clear H
  | H : In ?a ?b -> _, H' : In ?a ?b |- _ => specialize (H H')
  | H : ?a = ?b -> _, H' : ?a = ?b |- _ => specialize (H H')
  | H : (_ =? _)%nat = false |- _ => apply Nat.eqb_neq in H
  | H : _ /\ _ |- _ => destruct H
  | H : (?a =? ?a)%nat = false |- _ => rewrite Nat.eqb_refl in H; discriminate H
  end.

Ltac start IA IC D H e :=
  open_inv IA IC D; clear D;
  destruct e; step_cases H; wsimp.

Ltac flags Hs1 Hs2 :=
  try (apply orb_false_elim in Hs1; destruct Hs1 as [Hs1 Hbusy]);
  try (apply orb_false_elim in Hs2; destruct Hs2 as [Hs2 Hex]).

Ltac noact :=
  exfalso; match goal with A : forall x, ~ In (x, ?s) ?l, H : In (_, ?s) ?l |- _ => exact (A _ H) end.
Ltac fin := solve [ assumption | congruence | discriminate | contradiction | noact | eauto 3
                  | intuition (first [congruence | noact | eauto 3]) ].

(* ---- fields about the Unsubscribe program counter ---- *)
Lemma d_newU_step w e w' :
  invD w -> wstep w e = Some w' -> forall s, w_spc w' s = SNew -> w_upc w' s = UNew.
Proof.
  intros D H. pose proof (d_newU w D) as N.
  destruct e; step_cases H; wsimp; intros s0 Hs; split_upd; try discriminate; auto; try congruence.
  all: specialize (N _ Hs); congruence.
Qed.

Lemma d_confU_step w e w' :
  invD w -> wstep w e = Some w' -> forall s, In s (w_conf w') -> w_upc w' s = UNew.
Proof.
  intros D H. pose proof (d_confU w D) as N. pose proof (d_newU w D) as N2.
  destruct e; step_cases H; wsimp; intros s0 Hs; use_in; split_upd; try discriminate; auto; try congruence.
  all: specialize (N _ Hs); congruence.
Qed.

Lemma d_closed_step w e w' :
  invD w -> wstep w e = Some w' -> forall s, s_closed (w_sub w' s) = true -> w_upc w' s = UDone true.
Proof.
  intros D H. pose proof (d_closed w D) as N.
  destruct e; step_cases H; wsimp; intros s0 Hs; unfold clear_subs in *; split_upd; wsimp;
    try discriminate; auto; try congruence;
    try (specialize (N _ Hs); congruence).
  all: try (destruct (nmem s0 (w_conf w)); wsimp; specialize (N _ Hs); congruence).
Qed.

Lemma d_log_step w e w' :
  invD w -> wstep w e = Some w' -> forall s, In (LUnsubRet s) (w_log w') -> w_upc w' s = UDone true.
Proof.
  intros D H. pose proof (d_log w D) as N.
  destruct e; step_cases H; wsimp; intros s0 Hs; use_in; split_upd;
    try discriminate; auto; try congruence;
    try (specialize (N _ Hs); congruence).
  all: rewrite upd_same; reflexivity.
Qed.

(* ---- the table fields ---- *)
Lemma d_act_step w e w' :
  invA w -> invC0 w -> w_straddle w' = false -> w_substraddle w' = false -> invD w -> wstep w e = Some w' ->
  forall x s, In (x, s) (w_act w') -> s_cur (w_sub w' s) = Some x /\ w_upc w' s = UNew.
Proof.
  intros IA IC Hs1 Hs2 D H. start IA IC D H e; flags Hs1 Hs2;
    intros x0 s0 Hin; unfold clear_subs in *; use_in; split_upd; wsimp; sat_in; sat_nat; rew_all; simp_hyps;
    try fin.
  all: rewrite ?upd_same in *; wsimp; try fin.
Qed.

Lemma d_pend_noact_step w e w' :
  invA w -> invC0 w -> w_straddle w' = false -> w_substraddle w' = false -> invD w -> wstep w e = Some w' ->
  forall i s, In (i, s) (w_pend w') -> no_act w' s.
Proof.
  intros IA IC Hs1 Hs2 D H. start IA IC D H e; flags Hs1 Hs2;
    intros i0 s0 Hin x0 Hact; unfold clear_subs in *; use_in; split_upd; wsimp; sat_in; sat_nat; rew_all; simp_hyps;
    try fin.
  all: rewrite ?upd_same in *; wsimp; try fin.
Qed.

Lemma d_uniq_step w e w' :
  invA w -> invC0 w -> w_straddle w' = false -> w_substraddle w' = false -> invD w -> wstep w e = Some w' ->
  forall i i' s, In (i, s) (w_pend w') -> In (i', s) (w_pend w') -> i = i'.
Proof.
  intros IA IC Hs1 Hs2 D H. start IA IC D H e; flags Hs1 Hs2;
    intros i0 i1 s0 Hin Hin'; unfold clear_subs in *; use_in; split_upd; wsimp; sat_in; sat_nat; rew_all; simp_hyps;
    try fin.
  all: rewrite ?upd_same in *; wsimp; try fin.
Qed.

Lemma d_conf_step w e w' :
  invA w -> invC0 w -> w_straddle w' = false -> w_substraddle w' = false -> invD w -> wstep w e = Some w' ->
  forall s x t g, w_rpc w' = RConfirm s x t g -> no_act w' s /\ no_pend w' s.
Proof.
  intros IA IC Hs1 Hs2 D H. start IA IC D H e; flags Hs1 Hs2;
    intros s0 x0 t0 g0 Hr; try discriminate Hr; unfold clear_subs in *;
    (split; [intros x1 Hin|intros i1 Hin]);
    use_in; split_upd; wsimp; sat_in; sat_nat; rew_all; simp_hyps;
    try fin.
  all: rewrite ?upd_same in *; wsimp; try fin.
Qed.

Lemma d_early_step w e w' :
  invA w -> invC0 w -> w_straddle w' = false -> w_substraddle w' = false -> invD w -> wstep w e = Some w' ->
  forall s, early (w_spc w' s) = true -> quiet w' s.
Proof.
  intros IA IC Hs1 Hs2 D H. start IA IC D H e; flags Hs1 Hs2;
    intros s0 He; unfold clear_subs in *;
    (split; [intros x1 Hin|split; [intros i1 Hin|]]);
    use_in; split_upd; wsimp; sat_in; sat_nat; rew_all; simp_hyps;
    try fin.
  all: rewrite ?upd_same in *; wsimp; try fin.
  all: try (match goal with |- (?a =? ?b)%nat = false => apply Nat.eqb_neq; intro; subst end; simp_hyps; try fin).
  all: try solve [match goal with He : early (w_spc ?w ?s) = true |- _ =>
         destruct (w_spc w s); cbn in *; try discriminate; intuition end].
Qed.

Lemma d_todo_step w e w' :
  invA w -> invC0 w -> w_straddle w' = false -> w_substraddle w' = false -> invD w -> wstep w e = Some w' ->
  forall s, In s (todo' (w_hpc w')) -> quiet w' s.
Proof.
  intros IA IC Hs1 Hs2 D H. start IA IC D H e; flags Hs1 Hs2; rewrite ?todo'_hnorm;
    intros s0 He; unfold clear_subs in *;
    (split; [intros x1 Hin|split; [intros i1 Hin|]]);
    rewrite ?todo'_match in *; cbn [todo'] in He;
    use_in; split_upd; wsimp; sat_in; sat_nat; rew_all; simp_hyps;
    try fin.
  all: rewrite ?upd_same in *; wsimp; try fin.
  all: try (match goal with |- (?a =? ?b)%nat = false => apply Nat.eqb_neq; intro; subst end; simp_hyps; try fin).
  all: try solve [match goal with He : In ?s (todo' ?h), H7 : ~ In ?s (todo ?h) |- _ =>
         apply H7; apply todo'_sub; exact He end].
  destruct (w_rpc w); cbn in *; congruence.
Qed.

(* ---- the receive loop at a notification vs. Unsubscribe ---- *)
Lemma d_notify_step w e w' :
  invA w -> invC0 w -> w_straddle w' = false -> w_substraddle w' = false -> invD w -> wstep w e = Some w' ->
  forall s x t, w_rpc w' = RNotify s x t -> notify_ok w' s.
Proof.
  intros IA IC Hs1 Hs2 D H. start IA IC D H e; flags Hs1 Hs2;
    intros s0 x0 t0 Hr; try discriminate Hr; unfold clear_subs, notify_ok, no_success in *;
    use_in; sat_in; sat_nat; simp_hyps; wsimp.
  all: try (match goal with H : _ \/ _ |- _ => destruct H as [[Hu Hc]|[[k0 [Hu [Hsu Hpc]]]|Hu]] end;
       [ try solve [left; split_upd; wsimp; rew_all; split; first [congruence|assumption|discriminate]]
       | try solve [right; left; exists k0; split_upd; wsimp;
                    repeat match goal with E : w_cpc _ _ = _ |- _ => rewrite E in *; clear E end;
                    repeat match goal with E : w_chan _ _ = _ |- _ => rewrite E in *; clear E end;
                    cbn [is_succ cpc_succ cout_of] in *;
                    repeat split; first [congruence|assumption|discriminate|reflexivity]]
       | try solve [right; right; split_upd; wsimp; congruence] ]).
  all: try solve [
    split_upd; wsimp;
    repeat match goal with E : w_cpc _ _ = _ |- _ => rewrite E in *; clear E end;
    repeat match goal with E : w_chan _ _ = _ |- _ => rewrite E in *; clear E end;
    rew_all; simp_hyps;
    repeat match goal with r : resp |- _ => destruct r as [? [] ?|] end;
    cbn [is_succ cpc_succ cout_of] in *; try congruence;
    first [ solve [left; split; first [congruence | assumption | discriminate]]
          | solve [right; right; first [congruence | assumption | reflexivity]]
          | solve [right; left; eexists; repeat split; first [eassumption | congruence | reflexivity]] ] ].
  all: try solve [
    match goal with Hu : w_upc _ _ = UCall ?k0 |- _ => right; left; exists k0 end;
    split_upd; wsimp;
    repeat match goal with E : w_cpc _ _ = _ |- _ => rewrite E in *; clear E end;
    repeat match goal with E : w_chan _ _ = _ |- _ => rewrite E in *; clear E end;
    repeat match goal with r : resp |- _ => destruct r as [? [] ?|] end;
    cbn [is_succ cpc_succ cout_of] in *; repeat split; first [assumption | congruence | reflexivity | discriminate] ].
  (* removeSubscription while the receive loop holds s *)
  all: try solve [
    split_upd; wsimp;
    [ (* s0 = s: it was still UNew with a server id, so an eth_unsubscribe call follows *)
      match goal with E : w_upc _ _ = UNew |- _ => rewrite E in * end;
      first [ right; left; eexists; split; [reflexivity|]; split;
              [ match goal with Ek : w_cpc ?w ?k = CNew |- is_succ (w_chan ?w ?k) = false =>
                  destruct (w_chan w k) as [[? [] ?|]|] eqn:Ec; cbn; try reflexivity; exfalso;
                  specialize (Achan _ _ Ec); rewrite Ek in Achan; cbn in Achan; discriminate end
              | match goal with Ek : w_cpc ?w ?k = CNew |- _ => rewrite Ek; reflexivity end ]
            | exfalso; repeat match goal with H : _ \/ _ |- _ => destruct H as [[? ?]|[[? [? ?]]|?]] end; congruence ]
    | (* another subscription *)
      repeat match goal with H : _ \/ _ |- _ => destruct H as [[? ?]|[[? [? [? ?]]]|?]] end;
      first [ solve [left; split; first [congruence | assumption]]
            | solve [right; right; assumption]
            | solve [right; left; eexists; repeat split; eassumption] ] ] ].
  (* EUnsubAfterCall on a successful call: then the receive loop cannot be holding s *)
  destruct (Nat.eq_dec s0 s) as [->|Hne].
  - exfalso. rewrite E in Hu. inversion Hu; subst. rewrite E0 in Hpc. cbn in Hpc. discriminate.
  - rewrite upd_other by assumption. right; left. exists k0. auto.
Qed.

Lemma d_panic_step w e w' :
  invA w -> invC0 w -> w_straddle w' = false -> w_substraddle w' = false -> invD w -> wstep w e = Some w' ->
  w_panic w' = false.
Proof.
  intros IA IC Hs1 Hs2 D H. start IA IC D H e; auto; exfalso.
  - specialize (Dclosed _ E0). congruence.
  - specialize (Dclosed _ E0). specialize (Dnotify _ _ _ eq_refl).
    destruct Dnotify as [[Hu _]|[[k0 [Hu _]]|Hu]]; congruence.
Qed.

Lemma d_late_step w e w' :
  invA w -> invC0 w -> w_straddle w' = false -> w_substraddle w' = false -> invD w -> wstep w e = Some w' ->
  no_late (w_log w').
Proof.
  intros IA IC Hs1 Hs2 D H. start IA IC D H e; auto;
    try (apply no_late_cons_other; [assumption|intros; discriminate]).
  (* ERNotifySend: the sub the receive loop holds has not been unsubscribed *)
  apply no_late_cons; [assumption|]. intros s0 x0 c0 t0 Heq Hin. inversion Heq; subst.
  specialize (Dlog _ Hin). specialize (Dnotify _ _ _ eq_refl).
  destruct Dnotify as [[Hu _]|[[k0 [Hu _]]|Hu]]; congruence.
Qed.

(* ---- assembling ---- *)
Lemma invD_step w e w' :
  invA w -> invC0 w -> w_straddle w' = false -> w_substraddle w' = false ->
  invD w -> wstep w e = Some w' -> invD w'.
Proof.
  intros IA IC Hs1 Hs2 D H. constructor.
  - eapply d_act_step; eauto.
  - eapply d_pend_noact_step; eauto.
  - eapply d_early_step; eauto.
  - eapply d_todo_step; eauto.
  - eapply d_conf_step; eauto.
  - eapply d_uniq_step; eauto.
  - eapply d_confU_step; eauto.
  - eapply d_newU_step; eauto.
  - eapply d_notify_step; eauto.
  - eapply d_closed_step; eauto.
  - eapply d_log_step; eauto.
  - eapply d_panic_step; eauto.
  - eapply d_late_step; eauto.
Qed.

Lemma invD_init : invD winit.
Proof.
  constructor; cbn; unfold quiet, no_act, no_pend; cbn; intros; try contradiction; try discriminate; auto.
  intros post pre s Heq. destruct post; discriminate.
Qed.

Lemma straddle_mono_step w e w' : wstep w e = Some w' -> w_straddle w' = false -> w_straddle w = false.
Proof.
  intros H Hs. destruct e; step_cases H; wsimp; try assumption.
  apply orb_false_elim in Hs. tauto.
Qed.
Lemma substraddle_mono_step' w e w' : wstep w e = Some w' -> w_substraddle w' = false -> w_substraddle w = false.
Proof.
  intros H Hs. destruct e; step_cases H; wsimp; try assumption.
  apply orb_false_elim in Hs. tauto.
Qed.
Lemma flags_mono_run evs : forall w w', wrun evs w = Some w' ->
  w_straddle w' = false -> w_substraddle w' = false -> w_straddle w = false /\ w_substraddle w = false.
Proof.
  induction evs as [|e evs IH]; intros w w' H F1 F2; cbn in H; [inversion H; subst; auto|].
  destruct (wstep w e) eqn:E; [|discriminate]. destruct (IH _ _ H F1 F2) as [G1 G2].
  split; [eapply straddle_mono_step; eauto|eapply substraddle_mono_step'; eauto].
Qed.

Lemma invACD_run evs : forall w w',
  invA w -> invC0 w -> invD w -> wrun evs w = Some w' ->
  w_straddle w' = false -> w_substraddle w' = false -> invA w' /\ invC0 w' /\ invD w'.
Proof.
  induction evs as [|e evs IH]; intros w w' IA IC D H F1 F2; cbn in H; [inversion H; subst; auto|].
  destruct (wstep w e) as [w1|] eqn:E; [|discriminate].
  destruct (flags_mono_run _ _ _ H F1 F2) as [G1 G2].
  eapply IH; [| | |exact H|assumption|assumption].
  - eapply invA_step; eauto.
  - eapply invC0_step; eauto.
  - eapply invD_step; eauto.
Qed.

(* ---- the routing theorem ---- *)
Theorem ws_routing_partial :
  forall evs w,
    wrun evs winit = Some w ->
    w_straddle w = false ->        (* no reconnect began while the receive loop was inside a frame *)
    w_substraddle w = false ->     (* ... or while a Subscribe() was registering *)
    (* (a) a notification is handed to s only when the active table maps its server id to s, and then
           that table entry is the one the abstract ownership table of Spec.v would route by *)
    (forall s x t, w_rpc w = RNotify s x t -> w_upc w s <> UDone true /\ w_upc w s <> UClosing) /\
    (forall x s, In (x, s) (w_act w) -> s_cur (w_sub w s) = Some x /\ w_upc w s = UNew) /\
    (* (b) once Unsubscribe s has returned nil, s owns no server id ... *)
    (forall s, w_upc w s = UDone true -> owns_nothing (w_act w) s) /\
    (* ... and no notification was delivered to s after that return, in the whole history *)
    no_late (w_log w) /\
    (* (c) no send on / close of a closed notifications channel happened *)
    w_panic w = false.
Proof.
  intros evs w H F1 F2.
  destruct (invACD_run _ _ _ invA_init invC0_init invD_init H F1 F2) as [IA [IC D]].
  repeat split.
  - pose proof (d_notify w D _ _ _ H0) as N. destruct N as [[Hu _]|[[k0 [Hu _]]|Hu]]; congruence.
  - pose proof (d_notify w D _ _ _ H0) as N. destruct N as [[Hu _]|[[k0 [Hu _]]|Hu]]; congruence.
  - apply (d_act w D _ _ H0).
  - apply (d_act w D _ _ H0).
  - intros s Hu x Hf. unfold spec_route in *. apply alookup_In' in Hf.
    destruct (d_act w D _ _ Hf) as [_ Hn]. congruence.
  - exact (d_late w D).
  - exact (d_panic w D).
Qed.

(* The dispatch itself, in every state (reachable or not): a notification frame carrying server id x is
   handed to exactly the subscription the abstract ownership table of Spec.v ([spec_route]) gives for
   x when read off the active table, and is dropped (the state does not change) when x has no owner. *)
Lemma alookup_tab_find (i : N) (l : list (N * nat)) : alookup i l = tab_find i l.
Proof. induction l as [|[j u] l IH]; cbn; [reflexivity|]. destruct (i =? j)%N; [reflexivity|exact IH]. Qed.

Theorem ws_notification_dispatch :
  forall w x t, w_rpc w = RIdle ->
    wstep w (EFrame (FNotif (Some x) t)) =
      Some (match spec_route (w_act w) x with Some s => set_rpc w (RNotify s x t) | None => w end) /\
    (forall t', wstep w (EFrame (FNotif None t')) = Some w).
Proof.
  intros w x t H. split.
  - unfold wstep. rewrite H. unfold getActiveSub, spec_route. rewrite alookup_tab_find.
    destruct (tab_find x (w_act w)); reflexivity.
  - intros t'. unfold wstep. rewrite H. reflexivity.
Qed.

(* Without the first hypothesis the statement is false of the model: the receive loop has looked up the owner
   of a notification (getActiveSub: subscription 0, server id 7) and has not yet entered the select that
   hands it over when the connection drops; handleReconnect clears the tables (currentSubID = "") and
   re-requests 0; Unsubscribe then finds no current id, so it sends no eth_unsubscribe (nothing it would
   have to wait for the receive loop for) and closes the notifications channel; the receive loop now
   enters the select: a send on a closed channel is one of its ready cases. *)
Definition routing_witness : list wev :=
  [ESubCfg 0; ESubInflight 0; ESubSend 0 true;
   EFrame (FReply (Some 1%N) false (Some 7%N)); ERAddActive; ESubWait 0;
   EFrame (FNotif (Some 7%N) 99%N);                     (* getActiveSub ... *)
   EClear; ERcInflight 0; ERcSend true;                 (* ... the reconnect runs in between ... *)
   EUnsubRemove 0 1; EUnsubClose 0;                     (* ... and an Unsubscribe that needs no reply *)
   ERNotifySend].

(* evaluated as one boolean, so that the kernel re-checks a single vm_compute and no state is printed *)
Definition routing_witness_ok : bool :=
  match wrun routing_witness winit with
  | Some w => negb (w_substraddle w) && match w_upc w 0 with UDone true => true | _ => false end && w_panic w
  | None => false
  end.
Lemma routing_witness_ok_true : routing_witness_ok = true.
Proof. vm_compute. reflexivity. Qed.

Theorem ws_routing_refuted :
  exists evs w, wrun evs winit = Some w /\ w_substraddle w = false /\ w_upc w 0 = UDone true /\
                w_panic w = true.
Proof.
  exists routing_witness.
  pose proof routing_witness_ok_true as X. unfold routing_witness_ok in X.
  destruct (wrun routing_witness winit) as [w|]; [|discriminate X].
  exists w. split; [reflexivity|].
  apply andb_prop in X. destruct X as [X P]. apply andb_prop in X. destruct X as [S U].
  repeat split.
  - destruct (w_substraddle w); [discriminate|reflexivity].
  - destruct (w_upc w 0) as [| | |[]]; try discriminate. reflexivity.
  - exact P.
Qed.

(* The interleaving D18c (popInflight ; reconnect ; addActiveSub) is harmless in the repaired code (connection
   generation checked in addActiveSub): the old connection's server id 7 is not recorded, after the new
   confirmation (8) and the Unsubscribe nothing is routed to subscription 0, a notification carrying 7 is dropped. *)
Example d18c_trace_is_safe :
  match wrun [ESubCfg 0; ESubInflight 0; ESubSend 0 true;
              EFrame (FReply (Some 1%N) false (Some 7%N));
              EClear; ERcInflight 0; ERcSend true;
              ERAddActive; ESubWait 0;
              EFrame (FReply (Some 2%N) false (Some 8%N)); ERAddActive;
              EUnsubRemove 0 1; ECallReg 1; ECallSend 1 true;
              EFrame (FReply (Some 3%N) false None); ERDeliver; ECallRecv 1; ECallRemove 1;
              EUnsubAfterCall 0 true; EUnsubClose 0;
              EFrame (FNotif (Some 7%N) 99%N)] winit with
  | Some w => negb (w_panic w) && w_straddle w &&
              match w_act w, w_rpc w, w_upc w 0 with [], RIdle, UDone true => true | _, _, _ => false end
  | None => false
  end = true.
Proof. vm_compute. reflexivity. Qed.

(* The interleaving D18a (popInflight ; Unsubscribe ; addActiveSub) is harmless in the repaired code:
   the subscription is not re-activated and the later notification is dropped. *)
Example d18a_trace_is_safe :
  match wrun [ESubCfg 0; ESubInflight 0; ESubSend 0 true;
              EFrame (FReply (Some 1%N) false (Some 7%N));
              EUnsubRemove 0 1; EUnsubClose 0;
              ERAddActive;
              EFrame (FNotif (Some 7%N) 99%N)] winit with
  | Some w => negb (w_panic w) && negb (w_straddle w) &&
              match w_act w, w_rpc w with [], RIdle => true | _, _ => false end
  | None => false
  end = true.
Proof. vm_compute. reflexivity. Qed.
