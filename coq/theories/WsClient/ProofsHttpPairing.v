(* HTTP client model: request/reply PAIRING.  ProofsHttp.v shows that the ids put on backend requests are
   pairwise distinct (NoDup (h_sent s)) and that a finished caller gets its own id back.  Here: each caller
   gets the classification of the backend's answer on ITS OWN exchange, the backend id of that exchange is
   held by no other caller and answered on no other exchange, and the "original id" of the statements is the
   one the caller passed in.  The backend's view of a history (the exchange log) is a pure function of the
   event list; the model is unchanged.  For every event list, every limit (0 included), any number of
   callers. *)
From Coq Require Import List NArith Lia Bool Arith.
From FFS Require Import WsClient.Model WsClient.Spec WsClient.ProofsHttp.
Import ListNotations.

(* ---------- the exchange log (ghost, a function of the event list) ---------- *)

(* one completed exchange: (backend id on the request frame, caller whose HTTP exchange it was, what the
   backend answered) *)
Definition hxe : Type := (N * nat * hreply)%type.
Definition xid (x : hxe) : N := fst (fst x).
Definition xc (x : hxe) : nat := snd (fst x).

(* what event [e], taken in state [s], adds to the log *)
Definition xlog (s : hstate) (e : hev) (xl : list hxe) : list hxe :=
  match e with
  | HEReply c r => match h_pc s c with HSent _ id => (id, c, r) :: xl | _ => xl end
  | _ => xl
  end.

(* the exchanges the backend completed along [hrun evs s], newest first, on top of [xl]; stops with what
   was collected at the first step that is not enabled *)
Fixpoint hexch (evs : list hev) (s : hstate) (xl : list hxe) : list hxe :=
  match evs with
  | [] => xl
  | e :: t => match hstep s e with Some s' => hexch t s' (xlog s e xl) | None => xl end
  end.

Definition hexchanges (limit : N) (evs : list hev) : list hxe := hexch evs (hinit limit) [].

(* the backend id a caller's request carries while it is at the backend / answered and not yet restored *)
Definition beid (p : hpc) : option N :=
  match p with HSent _ i | HGot _ i _ => Some i | _ => None end.

Definition is_pre (p : hpc) : bool :=
  match p with HNew | HWait | HHold _ => true | _ => false end.
Definition fin_out (p : hpc) : option hout :=
  match p with HDone o | HRet _ o => Some o | _ => None end.

(* ---------- the invariant over (state, log) ---------- *)
Record pinv (s : hstate) (xl : list hxe) : Prop := {
  pi_pre : forall c, is_pre (h_pc s c) = true -> ~ In c (map xc xl);
  pi_sent : forall c b i, h_pc s c = HSent b i -> ~ In i (map xid xl) /\ ~ In c (map xc xl);
  pi_got : forall c b i r, h_pc s c = HGot b i r -> In (i, c, r) xl;
  pi_fin : forall c o, fin_out (h_pc s c) = Some o ->
             (exists i r, In (i, c, r) xl /\ o = hclassify (h_orig s c) r) \/
             (~ In c (map xc xl) /\ o = err_out (h_orig s c) codeInternal);
  pi_ids : forall x, In x xl -> In (xid x) (h_sent s);
  pi_nd_id : NoDup (map xid xl);
  pi_nd_c : NoDup (map xc xl);
  pi_dist : forall c1 c2 i, beid (h_pc s c1) = Some i -> beid (h_pc s c2) = Some i -> c1 = c2;
}.

Lemma pinv_init limit : pinv (hinit limit) [].
Proof.
  constructor; cbn; intros; try discriminate; try constructor; try contradiction; auto.
Qed.

Lemma beid_sent s c i : hinv s -> beid (h_pc s c) = Some i -> In i (h_sent s).
Proof.
  intros HI H. destruct (h_pc s c) eqn:Ep; cbn in H; try discriminate; inversion H; subst.
  - eapply (hi_sent_pc s HI). left. exact Ep.
  - eapply (hi_sent_pc s HI). right. eexists. exact Ep.
Qed.

(* replacing c's pc by one that carries no backend id, or the same one, keeps the ids distinct *)
Lemma dist_upd (pc : nat -> hpc) c p :
  (forall c1 c2 i, beid (pc c1) = Some i -> beid (pc c2) = Some i -> c1 = c2) ->
  beid p = None \/ beid p = beid (pc c) ->
  forall c1 c2 i, beid (upd pc c p c1) = Some i -> beid (upd pc c p c2) = Some i -> c1 = c2.
Proof.
  intros D Hp c1 c2 i. upd_cases c c1; upd_cases c c2; auto.
  - destruct Hp as [Hp|Hp]; rewrite Hp; [discriminate|]. intros H1 H2. symmetry. eapply D; eauto.
  - destruct Hp as [Hp|Hp]; rewrite Hp; [discriminate|]. intros H1 H2. eapply D; eauto.
  - apply D.
Qed.

Ltac kill := cbn; intros; discriminate.

Lemma pinv_step s e s' xl : hinv s -> pinv s xl -> hstep s e = Some s' -> pinv s' (xlog s e xl).
Proof.
  intros HI I H. destruct I. destruct e as [c orig|c|c|c|c r|c|c]; cbn [hstep] in H.
  - (* start *)
    destruct (h_pc s c) eqn:Ep; try discriminate. inversion H; subst s'; clear H. cbn [xlog].
    constructor; simp_rec.
    + intros c'. upd_cases c c'; [|apply pi_pre0]. intros _. apply pi_pre0. rewrite Ep. reflexivity.
    + intros c' b i. upd_cases c c'; [|apply pi_sent0]. destruct (h_limit s =? 0)%N; discriminate.
    + intros c' b i r. upd_cases c c'; [|apply pi_got0]. destruct (h_limit s =? 0)%N; discriminate.
    + intros c' o. upd_cases c c'; [|apply pi_fin0]. destruct (h_limit s =? 0)%N; kill.
    + assumption.
    + assumption.
    + assumption.
    + apply dist_upd; [assumption|]. left. destruct (h_limit s =? 0)%N; reflexivity.
  - (* acquire *)
    destruct (h_pc s c) eqn:Ep; try discriminate.
    destruct (h_slots s <? h_limit s)%N; try discriminate. inversion H; subst s'; clear H. cbn [xlog].
    constructor; simp_rec.
    + intros c'. upd_cases c c'; [|apply pi_pre0]. intros _. apply pi_pre0. rewrite Ep. reflexivity.
    + intros c' b i. upd_cases c c'; [|apply pi_sent0]. discriminate.
    + intros c' b i r. upd_cases c c'; [|apply pi_got0]. discriminate.
    + intros c' o. upd_cases c c'; [|apply pi_fin0]. kill.
    + assumption.
    + assumption.
    + assumption.
    + apply dist_upd; [assumption|]. left. reflexivity.
  - (* cancel while waiting *)
    destruct (h_pc s c) eqn:Ep; try discriminate. inversion H; subst s'; clear H. cbn [xlog].
    constructor; simp_rec.
    + intros c'. upd_cases c c'; [|apply pi_pre0]. kill.
    + intros c' b i. upd_cases c c'; [|apply pi_sent0]. discriminate.
    + intros c' b i r. upd_cases c c'; [|apply pi_got0]. discriminate.
    + intros c' o. upd_cases c c'; [|apply pi_fin0].
      cbn [fin_out]. intros Ho; inversion Ho; subst o. right. split; [|reflexivity].
      apply pi_pre0. rewrite Ep. reflexivity.
    + assumption.
    + assumption.
    + assumption.
    + apply dist_upd; [assumption|]. left. reflexivity.
  - (* alloc *)
    destruct (h_pc s c) eqn:Ep; try discriminate. inversion H; subst s'; clear H. cbn [xlog].
    constructor; simp_rec.
    + intros c'. upd_cases c c'; [|apply pi_pre0]. kill.
    + intros c' b i. upd_cases c c'; [|apply pi_sent0].
      intros E; inversion E; subst. split.
      * intros Hin. apply in_map_iff in Hin. destruct Hin as [x [Ex Hx]].
        apply pi_ids0 in Hx. rewrite Ex in Hx. apply (hi_sent_le s HI) in Hx. lia.
      * apply pi_pre0. rewrite Ep. reflexivity.
    + intros c' b i r. upd_cases c c'; [|apply pi_got0]. discriminate.
    + intros c' o. upd_cases c c'; [|apply pi_fin0]. kill.
    + intros x Hx. right. auto.
    + assumption.
    + assumption.
    + intros c1 c2 i. upd_cases c c1; upd_cases c c2; cbn [beid]; intros H1 H2; try reflexivity.
      * inversion H1; subst i. apply (beid_sent s _ _ HI) in H2. apply (hi_sent_le s HI) in H2. lia.
      * inversion H2; subst i. apply (beid_sent s _ _ HI) in H1. apply (hi_sent_le s HI) in H1. lia.
      * eapply pi_dist0; eauto.
  - (* reply: the exchange (beid, c, r) completes *)
    destruct (h_pc s c) eqn:Ep; try discriminate. inversion H; subst s'; clear H.
    cbn [xlog]. rewrite Ep.
    destruct (pi_sent0 c _ _ Ep) as [Hni Hnc].
    constructor; simp_rec.
    + intros c'. upd_cases c c'; [kill|].
      intros Hp. cbn [map In xc xid fst snd]. intros [X|X]; [congruence|]. eapply pi_pre0; eauto.
    + intros c' b i. upd_cases c c'; [discriminate|].
      intros E. destruct (pi_sent0 _ _ _ E) as [A B].
      split; cbn [map In xc xid fst snd]; (intros [X|X]; [|contradiction]).
      * subst i. apply n. apply (pi_dist0 c' c beid0); [rewrite E|rewrite Ep]; reflexivity.
      * congruence.
    + intros c' b i r'. upd_cases c c'.
      * intros E; inversion E; subst. left; reflexivity.
      * intros E. right. eapply pi_got0; eauto.
    + intros c' o. upd_cases c c'; [kill|].
      intros Ho. destruct (pi_fin0 _ _ Ho) as [[i [r0 [A B]]]|[A B]].
      * left. exists i, r0. split; [right; exact A|exact B].
      * right. split; [|exact B]. cbn [map In xc xid fst snd]. intros [X|X]; [congruence|contradiction].
    + intros x [<-|Hx]; [|auto]. cbn [xid fst]. eapply (hi_sent_pc s HI). left. exact Ep.
    + cbn [map xc xid fst snd]. constructor; assumption.
    + cbn [map xc xid fst snd]. constructor; assumption.
    + apply dist_upd; [assumption|]. right. rewrite Ep. reflexivity.
  - (* restore *)
    destruct (h_pc s c) eqn:Ep; try discriminate. inversion H; subst s'; clear H. cbn [xlog].
    constructor; simp_rec.
    + intros c'. upd_cases c c'; [|apply pi_pre0]. kill.
    + intros c' b i. upd_cases c c'; [|apply pi_sent0]. discriminate.
    + intros c' b i r'. upd_cases c c'; [|apply pi_got0]. discriminate.
    + intros c' o. upd_cases c c'; [|apply pi_fin0].
      cbn [fin_out]. intros Ho; inversion Ho; subst o. left. exists beid0, r. split; [|reflexivity].
      eapply pi_got0; eauto.
    + assumption.
    + assumption.
    + assumption.
    + apply dist_upd; [assumption|]. left. reflexivity.
  - (* release *)
    destruct (h_pc s c) eqn:Ep; try discriminate. inversion H; subst s'; clear H. cbn [xlog].
    assert (Hf : (exists i r, In (i, c, r) xl /\ o = hclassify (h_orig s c) r) \/
                 (~ In c (map xc xl) /\ o = err_out (h_orig s c) codeInternal))
      by (apply pi_fin0; rewrite Ep; reflexivity).
    destruct slot; (constructor; simp_rec;
      [ intros c'; upd_cases c c'; [|apply pi_pre0]; kill
      | intros c' b i; upd_cases c c'; [|apply pi_sent0]; discriminate
      | intros c' b i r'; upd_cases c c'; [|apply pi_got0]; discriminate
      | intros c' o'; upd_cases c c'; [|apply pi_fin0];
          cbn [fin_out]; intros Ho; inversion Ho; subst o'; exact Hf
      | assumption | assumption | assumption
      | apply dist_upd; [assumption|]; left; reflexivity ]).
Qed.

Lemma pinv_run evs : forall s xl s',
  hinv s -> pinv s xl -> hrun evs s = Some s' -> pinv s' (hexch evs s xl).
Proof.
  induction evs as [|e evs IH]; intros s xl s' HI I H; cbn [hrun hexch] in *.
  - inversion H; subst; exact I.
  - destruct (hstep s e) as [s1|] eqn:E; [|discriminate].
    eapply IH; [eapply hinv_step; eauto|eapply pinv_step; eauto|exact H].
Qed.

Lemma pinv_reach limit evs s :
  hrun evs (hinit limit) = Some s -> hinv s /\ pinv s (hexchanges limit evs).
Proof.
  intros Hr. split.
  - eapply hinv_run; [apply hinv_init|exact Hr].
  - unfold hexchanges. eapply pinv_run; [apply hinv_init|apply pinv_init|exact Hr].
Qed.

Lemma notin_xc c (xl : list hxe) : ~ In c (map xc xl) -> forall id r, ~ In (id, c, r) xl.
Proof. intros Hn id r Hin. apply Hn. apply (in_map xc) in Hin. exact Hin. Qed.
Lemma notin_xid id (xl : list hxe) : ~ In id (map xid xl) -> forall c r, ~ In (id, c, r) xl.
Proof. intros Hn c r Hin. apply Hn. apply (in_map xid) in Hin. exact Hin. Qed.

Lemma nodup_map_inj {A B} (f : A -> B) (l : list A) x y :
  NoDup (map f l) -> In x l -> In y l -> f x = f y -> x = y.
Proof.
  induction l as [|a l IH]; intros Hnd Hx Hy E; [destruct Hx|].
  cbn [map] in Hnd. inversion Hnd as [|? ? Hna Hnd']; subst.
  destruct Hx as [->|Hx], Hy as [->|Hy]; auto.
  - exfalso. apply Hna. rewrite E. apply in_map. exact Hy.
  - exfalso. apply Hna. rewrite <- E. apply in_map. exact Hx.
Qed.

(* ---------- the theorems ---------- *)

(* (a) two callers whose requests are at the backend, or answered and not yet restored, never carry the
   same backend id *)
Theorem http_ids_distinct_across_callers :
  forall (limit : N) (evs : list hev) (s : hstate),
    hrun evs (hinit limit) = Some s ->
    forall c1 c2 i, beid (h_pc s c1) = Some i -> beid (h_pc s c2) = Some i -> c1 = c2.
Proof.
  intros limit evs s Hr. destruct (pinv_reach _ _ _ Hr) as [_ I]. exact (pi_dist _ _ I).
Qed.

(* (b) in the exchange log no backend id occurs twice, no caller occurs twice, every id in it was
   allocated (is in h_sent, which ProofsHttp.http_unique_ids shows duplicate free) *)
Theorem http_exchange_log_unique :
  forall (limit : N) (evs : list hev) (s : hstate),
    hrun evs (hinit limit) = Some s ->
    let xl := hexchanges limit evs in
    NoDup (map (fun x => fst (fst x)) xl) /\
    NoDup (map (fun x => snd (fst x)) xl) /\
    (forall id c r, In (id, c, r) xl -> In id (h_sent s)).
Proof.
  intros limit evs s Hr xl. destruct (pinv_reach _ _ _ Hr) as [_ I]. fold xl in I.
  split; [exact (pi_nd_id _ _ I)|]. split; [exact (pi_nd_c _ _ I)|].
  intros id c r Hin. exact (pi_ids _ _ I _ Hin).
Qed.

(* (b') hence the log is a partial function both ways: an id names one exchange (one caller, one answer),
   a caller has one exchange *)
Theorem http_exchange_log_functional :
  forall (limit : N) (evs : list hev) (s : hstate),
    hrun evs (hinit limit) = Some s ->
    let xl := hexchanges limit evs in
    (forall id c1 r1 c2 r2, In (id, c1, r1) xl -> In (id, c2, r2) xl -> c1 = c2 /\ r1 = r2) /\
    (forall c id1 r1 id2 r2, In (id1, c, r1) xl -> In (id2, c, r2) xl -> id1 = id2 /\ r1 = r2).
Proof.
  intros limit evs s Hr xl. destruct (pinv_reach _ _ _ Hr) as [_ I]. fold xl in I. split.
  - intros id c1 r1 c2 r2 H1 H2.
    pose proof (nodup_map_inj xid xl _ _ (pi_nd_id _ _ I) H1 H2 eq_refl) as E. inversion E. auto.
  - intros c id1 r1 id2 r2 H1 H2.
    pose proof (nodup_map_inj xc xl _ _ (pi_nd_c _ _ I) H1 H2 eq_refl) as E. inversion E. auto.
Qed.

(* (c) what a caller gets back is the classification (with its own original id) of the backend's answer
   on the caller's own exchange, or the caller was cancelled before it sent anything *)
Theorem http_reply_paired :
  forall (limit : N) (evs : list hev) (s : hstate) (c : nat) (o : hout),
    hrun evs (hinit limit) = Some s ->
    (h_pc s c = HDone o \/ exists b, h_pc s c = HRet b o) ->
    let xl := hexchanges limit evs in
    (exists id r, In (id, c, r) xl /\ o = hclassify (h_orig s c) r) \/
    ((forall id r, ~ In (id, c, r) xl) /\ o = err_out (h_orig s c) codeInternal).
Proof.
  intros limit evs s c o Hr H xl. destruct (pinv_reach _ _ _ Hr) as [_ I]. fold xl in I.
  assert (Hf : fin_out (h_pc s c) = Some o) by (destruct H as [H|[b H]]; rewrite H; reflexivity).
  destruct (pi_fin _ _ I c o Hf) as [Hl|[Hn Ho]]; [left; exact Hl|right].
  split; [apply notin_xc; exact Hn|exact Ho].
Qed.

(* (d) an answered caller holds the answer of its own exchange; the id of an outstanding request has not
   been answered to anybody, and its caller has no exchange yet *)
Theorem http_got_paired :
  forall (limit : N) (evs : list hev) (s : hstate) (c : nat) (b : bool) (id : N),
    hrun evs (hinit limit) = Some s ->
    let xl := hexchanges limit evs in
    (forall r, h_pc s c = HGot b id r -> In (id, c, r) xl) /\
    (h_pc s c = HSent b id ->
       (forall c' r, ~ In (id, c', r) xl) /\ (forall id' r, ~ In (id', c, r) xl)).
Proof.
  intros limit evs s c b id Hr xl. destruct (pinv_reach _ _ _ Hr) as [_ I]. fold xl in I. split.
  - intros r H. exact (pi_got _ _ I _ _ _ _ H).
  - intros H. destruct (pi_sent _ _ I _ _ _ H) as [A B].
    split; [apply notin_xid; exact A|apply notin_xc; exact B].
Qed.

(* (e) the original id of the statements above is the one the caller passed in *)
Lemma hstep_started s e s' c :
  hstep s e = Some s' -> h_pc s c <> HNew -> h_pc s' c <> HNew /\ h_orig s' c = h_orig s c.
Proof.
  intros H Hn. destruct e as [c0 orig|c0|c0|c0|c0 r|c0|c0]; cbn [hstep] in H;
    destruct (h_pc s c0) eqn:Ep; try discriminate;
    try (destruct (h_slots s <? h_limit s)%N; try discriminate);
    try (destruct slot); inversion H; subst s'; clear H; simp_rec;
    (upd_cases c0 c; [|split; [assumption|reflexivity]]);
    try (split; [discriminate|reflexivity]).
  all: contradiction.
Qed.

Lemma hrun_started evs : forall s s' c,
  hrun evs s = Some s' -> h_pc s c <> HNew -> h_orig s' c = h_orig s c.
Proof.
  induction evs as [|e evs IH]; intros s s' c H Hn; cbn [hrun] in H.
  - inversion H; reflexivity.
  - destruct (hstep s e) as [s1|] eqn:E; [|discriminate].
    destruct (hstep_started _ _ _ c E Hn) as [Hn1 Ho]. rewrite (IH _ _ _ H Hn1). exact Ho.
Qed.

Lemma hrun_orig evs : forall s s' c orig,
  hrun evs s = Some s' -> In (HEStart c orig) evs -> h_orig s' c = orig.
Proof.
  induction evs as [|e evs IH]; intros s s' c orig H Hin; [destruct Hin|].
  cbn [hrun] in H. destruct (hstep s e) as [s1|] eqn:E; [|discriminate].
  destruct Hin as [->|Hin]; [|eapply IH; eauto].
  cbn [hstep] in E. destruct (h_pc s c) eqn:Ep; try discriminate. inversion E; subst s1; clear E.
  rewrite (hrun_started _ _ _ c H); simp_rec; rewrite upd_same; [reflexivity|].
  destruct (h_limit s =? 0)%N; discriminate.
Qed.

Theorem http_orig_is_callers :
  forall (limit : N) (evs : list hev) (s : hstate) (c : nat) (orig : N),
    hrun evs (hinit limit) = Some s -> In (HEStart c orig) evs -> h_orig s c = orig.
Proof. intros limit evs s c orig Hr Hin. eapply hrun_orig; eauto. Qed.

(* a caller starts at most once: no enabled history contains two starts of the same caller *)
Corollary http_start_once :
  forall (limit : N) (evs : list hev) (s : hstate) (c : nat) (o1 o2 : N),
    hrun evs (hinit limit) = Some s -> In (HEStart c o1) evs -> In (HEStart c o2) evs -> o1 = o2.
Proof.
  intros limit evs s c o1 o2 Hr H1 H2.
  rewrite <- (http_orig_is_callers _ _ _ _ _ Hr H1). exact (http_orig_is_callers _ _ _ _ _ Hr H2).
Qed.

(* (f) not vacuous: limit 1, callers 0 and 1 with own ids 7 and 9; the backend echoes foreign ids (555 to
   caller 0; caller 0's backend id 1 to caller 1).  Each caller ends with its own id and its own result,
   and the log pairs backend id 1 with caller 0, backend id 2 with caller 1. *)
Example http_pairing_nonvacuous :
  let evs := [HEStart 0 7; HEStart 1 9; HEAcquire 0; HEAlloc 0; HEReply 0 (HRResult 555 42);
              HERestore 0; HERelease 0; HEAcquire 1; HEAlloc 1; HEReply 1 (HRRpcError 1 33);
              HERestore 1; HERelease 1]%N in
  match hrun evs (hinit 1) with
  | Some s =>
      h_pc s 0 = HDone {| ho_err := false; ho_id := 7; ho_res := Some 42%N; ho_code := 0 |} /\
      h_pc s 1 = HDone {| ho_err := true; ho_id := 9; ho_res := None; ho_code := 33 |} /\
      h_sent s = [2; 1]%N
  | None => False
  end /\
  hexchanges 1 evs = [(2%N, 1, HRRpcError 1 33); (1%N, 0, HRResult 555 42)].
Proof. vm_compute. repeat split; reflexivity. Qed.
