(* C18, narrowed routing guard, file 3 of 4: the receive loop at a notification vs. Unsubscribe, no panic,
   no late notification (see ProofsWsRoutingGen.v). *)
From Coq Require Import List NArith Lia Bool Arith.
From FFS Require Import WsClient.Model WsClient.Spec WsClient.ProofsWsBase WsClient.ProofsWsPairing
  WsClient.ProofsWsResub WsClient.ProofsWsRouting WsClient.ProofsWsRoutingGen.
Import ListNotations.

Lemma g_notify_step w e w' :
  invA w -> invC0 w -> (e = EClear -> is_notify (w_rpc w) = false) -> w_substraddle w' = false -> invG w -> wstep w e = Some w' ->
  forall s x t, w_rpc w' = RNotify s x t -> notify_ok w' s.
Proof.
  intros IA IC Hs1 Hs2 D H. startG IA IC D H e; flagsG Hs1 Hs2; gen_eqs;
    intros s0 x0 t0 Hr; try discriminate Hr; unfold clear_subs, notify_ok, no_success in *;
    use_in; sat_in; sat_nat; simp_hyps; wsimp.
  all: try (match goal with H : _ \/ _ |- _ => destruct H as [[Hu Hc]|[[k0 [Hu [Hsu Hpc]]]|Hu]] end;
       [ try solve [left; split_upd; wsimp; rew_all; split; first [congruence|assumption|discriminate]]
       | try solve [right; left; exists k0; split_upd; wsimp;
                    repeat match goal with E : w_cpc _ _ = _ |- _ => rewrite E in *; clear E end;
                    repeat match goal with E : w_chan _ _ = _ |- _ => rewrite E in *; clear E end;
                    cbn [is_succ cpc_succ cout_of] in *;
                    repeat split; first [congruence|assumption|discriminate|reflexivity]]
       | try solve [right; right; split_upd; wsimp; congruence] ]).
  all: try solve [
    split_upd; wsimp;
    repeat match goal with E : w_cpc _ _ = _ |- _ => rewrite E in *; clear E end;
    repeat match goal with E : w_chan _ _ = _ |- _ => rewrite E in *; clear E end;
    rew_all; simp_hyps;
    repeat match goal with r : resp |- _ => destruct r as [? [] ?|] end;
    cbn [is_succ cpc_succ cout_of] in *; try congruence;
    first [ solve [left; split; first [congruence | assumption | discriminate]]
          | solve [right; right; first [congruence | assumption | reflexivity]]
          | solve [right; left; eexists; repeat split; first [eassumption | congruence | reflexivity]] ] ].
  all: try solve [
    match goal with Hu : w_upc _ _ = UCall ?k0 |- _ => right; left; exists k0 end;
    split_upd; wsimp;
    repeat match goal with E : w_cpc _ _ = _ |- _ => rewrite E in *; clear E end;
    repeat match goal with E : w_chan _ _ = _ |- _ => rewrite E in *; clear E end;
    repeat match goal with r : resp |- _ => destruct r as [? [] ?|] end;
    cbn [is_succ cpc_succ cout_of] in *; repeat split; first [assumption | congruence | reflexivity | discriminate] ].
  (* removeSubscription while the receive loop holds s *)
  all: try solve [
    split_upd; wsimp;
    [ (* s0 = s: it was still UNew with a server id, so an eth_unsubscribe call follows *)
      match goal with E : w_upc _ _ = UNew |- _ => rewrite E in * end;
      first [ right; left; eexists; split; [reflexivity|]; split;
              [ match goal with Ek : w_cpc ?w ?k = CNew |- is_succ (w_chan ?w ?k) = false =>
                  destruct (w_chan w k) as [[? [] ?|]|] eqn:Ec; cbn; try reflexivity; exfalso;
                  specialize (Achan _ _ Ec); rewrite Ek in Achan; cbn in Achan; discriminate end
              | match goal with Ek : w_cpc ?w ?k = CNew |- _ => rewrite Ek; reflexivity end ]
            | exfalso; repeat match goal with H : _ \/ _ |- _ => destruct H as [[? ?]|[[? [? ?]]|?]] end; congruence ]
    | (* another subscription *)
      repeat match goal with H : _ \/ _ |- _ => destruct H as [[? ?]|[[? [? [? ?]]]|?]] end;
      first [ solve [left; split; first [congruence | assumption]]
            | solve [right; right; assumption]
            | solve [right; left; eexists; repeat split; eassumption] ] ] ].
  all: try solve [
    split_upd; wsimp; rew_all; simp_hyps; simp_g; simp_hyps;
    try solve [exfalso; fin];
    first [ solve [left; split; first [congruence | assumption]]
          | solve [right; right; first [congruence | assumption]]
          | solve [right; left; eexists; repeat split; first [eassumption | congruence]] ] ].
  (* EUnsubAfterCall on a successful call: then the receive loop cannot be holding s *)
  destruct (Nat.eq_dec s0 s) as [->|Hne].
  - exfalso. rewrite E in Hu. inversion Hu; subst. rewrite E0 in Hpc. cbn in Hpc. discriminate.
  - rewrite upd_other by assumption. right; left. exists k0. auto.
Qed.

Lemma g_panic_step w e w' :
  invA w -> invC0 w -> (e = EClear -> is_notify (w_rpc w) = false) -> w_substraddle w' = false -> invG w -> wstep w e = Some w' ->
  w_panic w' = false.
Proof.
  intros IA IC Hs1 Hs2 D H. startG IA IC D H e; auto; exfalso.
  - specialize (Dclosed _ E0). congruence.
  - specialize (Dclosed _ E0). specialize (Dnotify _ _ _ eq_refl).
    destruct Dnotify as [[Hu _]|[[k0 [Hu _]]|Hu]]; congruence.
Qed.

Lemma g_late_step w e w' :
  invA w -> invC0 w -> (e = EClear -> is_notify (w_rpc w) = false) -> w_substraddle w' = false -> invG w -> wstep w e = Some w' ->
  no_late (w_log w').
Proof.
  intros IA IC Hs1 Hs2 D H. startG IA IC D H e; auto;
    try (apply no_late_cons_other; [assumption|intros; discriminate]).
  (* ERNotifySend: the sub the receive loop holds has not been unsubscribed *)
  apply no_late_cons; [assumption|]. intros s0 x0 c0 t0 Heq Hin. inversion Heq; subst.
  specialize (Dlog _ Hin). specialize (Dnotify _ _ _ eq_refl).
  destruct Dnotify as [[Hu _]|[[k0 [Hu _]]|Hu]]; congruence.
Qed.
