(* C18, narrowed routing guard, file 2 of 4: the fields about subscriptions that are registering / on the
   reconnect list (see ProofsWsRoutingGen.v). *)
From Coq Require Import List NArith Lia Bool Arith.
From FFS Require Import WsClient.Model WsClient.Spec WsClient.ProofsWsBase WsClient.ProofsWsPairing
  WsClient.ProofsWsResub WsClient.ProofsWsRouting WsClient.ProofsWsRoutingGen.
Import ListNotations.

Lemma g_early_step w e w' :
  invA w -> invC0 w -> (e = EClear -> is_notify (w_rpc w) = false) -> w_substraddle w' = false -> invG w -> wstep w e = Some w' ->
  forall s, early (w_spc w' s) = true -> quietG w' s.
Proof.
  intros IA IC Hs1 Hs2 D H. startG IA IC D H e; flagsG Hs1 Hs2; gen_eqs;
    intros s0 He; unfold clear_subs in *;
    (split; [intros x1 Hin|split; [intros i1 Hin|]]);
    use_in; split_upd; wsimp; sat_in; sat_nat; rew_all; simp_hyps; simp_g; simp_hyps;
    try fin.
  all: rewrite ?upd_same in *; wsimp; try fin.
  all: try (match goal with |- (?a =? ?b)%nat = false => apply Nat.eqb_neq; intro; subst end; simp_hyps; try fin).
  all: try solve [match goal with He : early (w_spc ?w ?s) = true |- _ =>
         destruct (w_spc w s); cbn in *; try discriminate; intuition end].

Qed.

Lemma g_todo_step w e w' :
  invA w -> invC0 w -> (e = EClear -> is_notify (w_rpc w) = false) -> w_substraddle w' = false -> invG w -> wstep w e = Some w' ->
  forall s, In s (todo' (w_hpc w')) -> quietG w' s.
Proof.
  intros IA IC Hs1 Hs2 D H. startG IA IC D H e; flagsG Hs1 Hs2; gen_eqs; rewrite ?todo'_hnorm;
    intros s0 He; unfold clear_subs in *;
    (split; [intros x1 Hin|split; [intros i1 Hin|]]);
    rewrite ?todo'_match in *; cbn [todo'] in He;
    use_in; split_upd; wsimp; sat_in; sat_nat; rew_all; simp_hyps; simp_g; simp_hyps;
    try fin.
  all: rewrite ?upd_same in *; wsimp; try fin.
  all: try (match goal with |- (?a =? ?b)%nat = false => apply Nat.eqb_neq; intro; subst end; simp_hyps; try fin).
  all: try solve [match goal with He : In ?s (todo' ?h), H7 : ~ In ?s (todo ?h) |- _ =>
         apply H7; apply todo'_sub; exact He end].

Qed.
