(* C18, wave 6: a call is handed AT MOST ONE response, and no response is ever dropped.

   The four places a registered call's response can come from / be in - the table [w_calls], the snapshot
   handleReconnect is working through, the receive loop's hand ([RDeliver]), the delivery log - are mutually
   exclusive for every call in every reachable state.  Consequences: the capacity-1 channel of a call that is still
   registered (or in the snapshot, or being handed a reply) is EMPTY, so the non-blocking send of
   deliverCallResponse never takes its default (drop) branch; the guard [w_chan w k = None] of
   ws_reply_is_delivered is removed; a call that was in the table when a reconnect began can only end with an
   error (the reconnect error, or its own cancel / failed send), never with a reply. *)
From Coq Require Import List NArith Lia Bool Arith.
From FFS Require Import WsClient.Model WsClient.Spec WsClient.ProofsWsBase WsClient.ProofsWsPairing
  WsClient.ProofsWsReconnect WsClient.ProofsWsReferee.
Import ListNotations.

Record invE (w : wstate) : Prop := {
  e_calls : forall i k, In (i, k) (w_calls w) ->
      (forall r, w_rpc w <> RDeliver k r) /\ (forall j, ~ In (j, k) (hcalls (w_hpc w))) /\
      (forall r, ~ In (LDeliver k r) (w_log w));
  e_hc : forall i k, In (i, k) (hcalls (w_hpc w)) ->
      (forall r, w_rpc w <> RDeliver k r) /\ (forall r, ~ In (LDeliver k r) (w_log w));
  e_rdel : forall k r, w_rpc w = RDeliver k r -> forall r', ~ In (LDeliver k r') (w_log w);
  e_chan : forall k r, w_chan w k = Some r -> In (LDeliver k r) (w_log w);
  e_hc_nd : NoDup (map fst (hcalls (w_hpc w)));
  e_new : forall k r, In (LDeliver k r) (w_log w) -> w_cpc w k <> CNew;
  e_rnew : forall k r, w_rpc w = RDeliver k r -> w_cpc w k <> CNew;
}.

Lemma remove_val_gone k i cs :
  NoDup (map fst cs) -> (forall j, In (j, k) cs -> j = i) -> forall j, ~ In (j, k) (remove_val k cs).
Proof.
  induction cs as [|[j0 k0] cs IH]; cbn; intros ND A j; [intros []|].
  inversion ND; subst.
  destruct (Nat.eqb_spec k k0).
  - subst k0. intros Hin. assert (j0 = i) by (apply A; left; reflexivity). assert (j = i) by (apply A; right; exact Hin).
    subst. apply H1. eapply In_keys; eauto.
  - intros [E|Hin]; [inversion E; congruence|]. eapply IH; eauto.
Qed.

Lemma keys_remove_val_subset k cs j : In j (map fst (remove_val k cs)) -> In j (map fst cs).
Proof.
  induction cs as [|[j0 k0] cs IH]; cbn; [intros []|].
  destruct (Nat.eqb_spec k k0); [right; assumption|]. cbn. intros [H|H]; [left; assumption|right; auto].
Qed.
Lemma NoDup_keys_remove_val k cs : NoDup (map fst cs) -> NoDup (map fst (remove_val k cs)).
Proof.
  induction cs as [|[j0 k0] cs IH]; cbn; [constructor|]. intros H. inversion H; subst.
  destruct (Nat.eqb_spec k k0); [assumption|]. cbn. constructor; [|auto].
  intros Hin. apply H2. eapply keys_remove_val_subset; eauto.
Qed.

Lemma invE_init : invE winit.
Proof. constructor; cbn; intros; try contradiction; try discriminate; try constructor. Qed.

Definition keep (P : Prop) : Prop := P.
Ltac esat1 :=
  repeat match goal with
  | H : In (?i, ?k) ?l, A : forall i k, In (i, k) ?l -> _ /\ _ /\ _,
    B : forall i k, In (i, k) ?l -> call_id _ = _ |- _ =>
      destruct (A i k H) as [? [? ?]]; pose proof (B i k H); clear H
  | H : w_chan ?w ?k = Some ?r, A : forall k r, w_chan ?w k = Some r -> In _ _ |- _ =>
      pose proof (A k r H); clear H
  end.
Ltac esat2 :=
  repeat match goal with
  | H : In (?i, ?k) ?l, A : forall i k, In (i, k) ?l -> _ /\ _,
    B : forall i k, In (i, k) ?l -> call_id _ = _ |- _ =>
      destruct (A i k H) as [? ?]; pose proof (B i k H); pose proof (H : keep (In (i, k) l)); clear H
  end.
Ltac econtra :=
  try match goal with X : In (?i, ?k) ?cs, H1 : forall j, ~ In (j, ?k) ?cs |- _ => exfalso; exact (H1 _ X) end;
  try match goal with X : keep (In (?i, ?k) ?cs), H1 : forall j, ~ In (j, ?k) ?cs |- _ => exfalso; exact (H1 _ X) end.
Ltac esat := esat1; econtra; esat2.

Lemma rv_other w cs ss k j k' :
  invA w -> w_hpc w = HCalls cs ss -> NoDup (map fst cs) -> In (j, k') (remove_val k cs) -> k' <> k.
Proof.
  intros I E ND Hin ->. pose proof (In_remove_val _ _ _ _ Hin) as Hin0.
  eapply (remove_val_gone k j cs ND); [|exact Hin]. intros j' Hj'.
  pose proof (a_hc_id w I) as A. rewrite E in A. cbn in A.
  pose proof (A _ _ Hj'). pose proof (A _ _ Hin0). congruence.
Qed.

Ltac efin :=
  solve [ eauto 3
        | right; eauto 3
        | left; congruence
        | cbn [call_id] in *; congruence
        | match goal with H : w_cpc ?w ?k = CNew, A : forall k r, In _ _ -> w_cpc ?w k <> CNew |- _ => eapply (A k); [eassumption|exact H] end
        | match goal with H : w_cpc ?w ?k = CNew, A : forall k r, w_rpc ?w = _ -> w_cpc ?w k <> CNew |- _ => eapply (A k); [eassumption|exact H] end
        | match goal with H : w_cpc ?w ?k = _, H2 : call_id (w_cpc ?w ?k) = _ |- _ => rewrite H in H2; cbn in H2; congruence end
        | match goal with A : forall k r, w_rpc _ = _ -> forall r', ~ In _ _, H : w_rpc _ = RDeliver _ _ |- _ => eapply (A _ _ H); eassumption end
        | match goal with H : In _ (hcalls match ?ss with _ => _ end) |- _ => destruct ss; cbn [hcalls] in H; contradiction end
        | match goal with H : forall j, ~ In (j, ?k) ?cs, H2 : In (_, ?k) ?cs |- _ => eapply H; exact H2 end
        | match goal with H : forall r, ~ In (LDeliver ?k r) _ |- _ => eapply H; eassumption end
        | match goal with H : forall r, _ <> RDeliver ?k r |- _ => eapply H; eassumption end
        | match goal with H : forall r, _ <> RDeliver ?k r |- _ => eapply H; reflexivity end
        | match goal with H : forall j, ~ In (j, ?k) _ |- _ => eapply H; eassumption end ].

Lemma invE_step w e w' : invA w -> invE w -> wstep w e = Some w' -> invE w'.
Proof.
  intros I E H.
  pose proof (a_calls_id w I) as Aid. pose proof (a_hc_id w I) as Ahid.
  destruct E as [Ec Eh Er Ech End Enew Ernew].
  destruct e; step_cases H; constructor; wsimp; rewrite ?hcalls_hnorm; cbn [hcalls] in *; auto.
  all: try solve [constructor].
  all: try solve [destruct ss; cbn; constructor].
  all: try (apply NoDup_keys_remove_val; assumption).
  all: try (apply (a_calls_nd w I)).
  all: intros;
       try match goal with Hr : In (_, _) (remove_val _ _), E0 : w_hpc _ = HCalls _ _ |- _ =>
             pose proof (rv_other _ _ _ _ _ _ I E0 End Hr) end;
       try match goal with E1 : has_val ?k ?cs = true |- _ =>
             let X := fresh "X" in pose proof (proj1 (has_val_In k cs) E1) as X; destruct X as [? X] end;
       use_in; split_upd; try discriminate;
       esat;
       try (specialize (Er _ _ eq_refl)); try (specialize (Ernew _ _ eq_refl));
       repeat match goal with |- _ /\ _ => split end; intros;
       try (intro; use_in; esat); try efin.
Qed.

Lemma invAE_run evs : forall w w', invA w -> invE w -> wrun evs w = Some w' -> invA w' /\ invE w'.
Proof.
  induction evs as [|e evs IH]; intros w w' I E H; cbn in H; [inversion H; subst; auto|].
  destruct (wstep w e) eqn:St; [|discriminate]. eapply IH; [| |exact H].
  - eapply invA_step; eauto.
  - eapply invE_step; eauto.
Qed.

Lemma chan_free w k : invE w -> (forall r, ~ In (LDeliver k r) (w_log w)) -> w_chan w k = None.
Proof.
  intros E Hn. destruct (w_chan w k) as [r|] eqn:Ec; [|reflexivity].
  exfalso. exact (Hn r (e_chan w E _ _ Ec)).
Qed.

(* In every reachable state: a call that is still in the table, or in the snapshot handleReconnect is working
   through, or that the receive loop is about to hand a reply, has been handed NOTHING so far and its capacity-1
   channel is empty; whatever lies in a channel is in the delivery log. *)
Theorem ws_single_response :
  forall evs w, wrun evs winit = Some w ->
    (forall i k, In (i, k) (w_calls w) ->
        w_chan w k = None /\ (forall r, ~ In (LDeliver k r) (w_log w)) /\
        (forall r, w_rpc w <> RDeliver k r) /\ (forall j, ~ In (j, k) (hcalls (w_hpc w)))) /\
    (forall i k, In (i, k) (hcalls (w_hpc w)) ->
        w_chan w k = None /\ (forall r, ~ In (LDeliver k r) (w_log w)) /\ (forall r, w_rpc w <> RDeliver k r)) /\
    (forall k r, w_rpc w = RDeliver k r -> w_chan w k = None /\ (forall r', ~ In (LDeliver k r') (w_log w))) /\
    (forall k r, w_chan w k = Some r -> In (LDeliver k r) (w_log w)).
Proof.
  intros evs w H. destruct (invAE_run _ _ _ invA_init invE_init H) as [I E].
  split; [|split; [|split]].
  - intros i k Hin. destruct (e_calls w E _ _ Hin) as [A [B C]].
    split; [apply chan_free; assumption|]. split; [exact C|]. split; assumption.
  - intros i k Hin. destruct (e_hc w E _ _ Hin) as [A B].
    split; [apply chan_free; assumption|]. split; assumption.
  - intros k r Hr. pose proof (e_rdel w E _ _ Hr) as A. split; [apply chan_free; assumption|exact A].
  - exact (e_chan w E).
Qed.

(* deliverCallResponse never takes its default branch: both senders - the receive loop and handleReconnect - find
   the channel empty, the response goes in and is the FIRST one handed to that call *)
Theorem ws_response_never_dropped :
  forall evs w, wrun evs winit = Some w ->
    (forall k r w', w_rpc w = RDeliver k r -> wstep w ERDeliver = Some w' ->
        w_chan w' k = Some r /\ w_log w' = LDeliver k r :: w_log w /\ (forall r', ~ In (LDeliver k r') (w_log w))) /\
    (forall k w', wstep w (ERcDeliver k) = Some w' ->
        w_chan w' k = Some RespReconn /\ w_log w' = LDeliver k RespReconn :: w_log w /\
        (forall r', ~ In (LDeliver k r') (w_log w))).
Proof.
  intros evs w H. destruct (ws_single_response _ _ H) as [_ [Hh [Hr _]]]. split.
  - intros k r w' Er St. destruct (Hr _ _ Er) as [Cn Nl].
    unfold wstep in St. rewrite Er in St. unfold deliverCallResponse in St. rewrite Cn in St.
    inversion St; subst. wsimp. split; [apply upd_same|]. split; [reflexivity|exact Nl].
  - intros k w' St. unfold wstep in St. destruct (w_hpc w) as [|cs ss| |] eqn:Eh; try discriminate.
    destruct (has_val k cs) eqn:Ev; [|discriminate].
    apply has_val_In in Ev. destruct Ev as [i Hin]. destruct (Hh i k Hin) as [Cn [Nl _]].
    unfold deliverCallResponse in St. rewrite Cn in St.
    inversion St; subst. wsimp. split; [apply upd_same|]. split; [reflexivity|exact Nl].
Qed.

(* ws_reply_is_delivered without its guard "k's channel is free" *)
Theorem ws_reply_is_delivered_unguarded :
  forall evs w, wrun evs winit = Some w ->
    forall i k e v, w_rpc w = RIdle -> alookup i (w_calls w) = Some k ->
      exists w1 w2,
        wstep w (EFrame (FReply (Some i) e v)) = Some w1 /\
        w_rpc w1 = RDeliver k (RespFrame i e v) /\
        wstep w1 ERDeliver = Some w2 /\
        alookup i (w_calls w2) = None /\
        w_chan w2 k = Some (RespFrame i e v) /\ w_log w2 = LDeliver k (RespFrame i e v) :: w_log w /\
        (forall r, ~ In (LDeliver k r) (w_log w)).
Proof.
  intros evs w H i k e v Hr Hc.
  destruct (ws_single_response _ _ H) as [Hcalls _].
  destruct (Hcalls i k (alookup_In _ _ _ Hc)) as [Cn [Nl _]].
  destruct (ws_reply_is_delivered _ _ H i k e v Hr Hc) as [w1 [w2 [A [B [C [D F]]]]]].
  destruct (F Cn) as [F1 F2].
  exists w1, w2. repeat split; assumption.
Qed.

(* non-vacuity: a reply and a reconnect error, each delivered into an empty channel *)
Definition once_witness : list wev :=
  [ECallReg 0; ECallSend 0 true; ECallReg 1; ECallSend 1 true;
   EFrame (FReply (Some 1%N) false (Some 7%N)); ERDeliver; EClear; ERcDeliver 1].
Example once_witness_ok :
  match wrun once_witness winit with
  | Some w =>
      match w_chan w 0, w_chan w 1 with
      | Some (RespFrame 1%N false (Some 7%N)), Some RespReconn => (length (w_log w) =? 5)%nat
      | _, _ => false
      end
  | None => false
  end = true.
Proof. vm_compute. reflexivity. Qed.
