(* C18, WebSocket client: no call is left hanging by a reconnect — for every finite event sequence. *)
From Coq Require Import List NArith Lia Bool Arith.
From FFS Require Import WsClient.Model WsClient.Spec WsClient.ProofsWsBase WsClient.ProofsWsPairing.
Import ListNotations.

Definition waiting_id (p : cpc) : option N := match p with CReg i | CWait i => Some i | _ => None end.

(* a registered, still waiting call is never lost: it is in the table, or in the snapshot handleReconnect
   is working through, or the receive loop is about to hand it its reply, or its channel is full *)
Definition accounted (w : wstate) (k : nat) (i : N) : Prop :=
  In (i, k) (w_calls w) \/ w_chan w k <> None \/ (exists r, w_rpc w = RDeliver k r) \/ In (i, k) (hcalls (w_hpc w)).

Definition invB (w : wstate) : Prop := forall k i, waiting_id (w_cpc w k) = Some i -> accounted w k i.

Lemma waiting_call_id p i : waiting_id p = Some i -> call_id p = Some i.
Proof. destruct p; cbn; congruence. Qed.

Lemma invB_step w e w' : invA w -> invB w -> wstep w e = Some w' -> invB w'.
Proof.
  intros I B H. unfold invB, accounted in *.
  destruct e; step_cases H; wsimp; rewrite ?hcalls_hnorm; intros k0 i0 Hw; split_upd;
    cbn [waiting_id] in Hw; try discriminate Hw;
    try (specialize (B _ _ Hw));
    try (match goal with E : w_cpc w ?k = _ |- _ =>
           let B' := fresh "B" in pose proof (B k) as B'; rewrite E in B'; cbn [waiting_id] in B';
           try (inversion Hw; subst); try specialize (B' _ eq_refl) end);
    try solve [tauto | firstorder congruence].
  all: idtac "left". Show.
Abort.
