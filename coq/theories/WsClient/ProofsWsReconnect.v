(* C18, WebSocket client: no call is left hanging by a reconnect — for every finite event sequence. *)
From Coq Require Import List NArith Lia Bool Arith.
From FFS Require Import WsClient.Model WsClient.Spec WsClient.ProofsWsBase WsClient.ProofsWsPairing.
Import ListNotations.

Definition waiting_id (p : cpc) : option N := match p with CReg i | CWait i => Some i | _ => None end.

(* a registered, still waiting call is never lost: it is in the table, or in the snapshot handleReconnect
   is working through, or the receive loop is about to hand it its reply, or its channel is full *)
Definition accounted (w : wstate) (k : nat) (i : N) : Prop :=
  In (i, k) (w_calls w) \/ w_chan w k <> None \/ (exists r, w_rpc w = RDeliver k r) \/ In (i, k) (hcalls (w_hpc w)).

Definition invB (w : wstate) : Prop := forall k i, waiting_id (w_cpc w k) = Some i -> accounted w k i.

Lemma waiting_call_id p i : waiting_id p = Some i -> call_id p = Some i.
Proof. destruct p; cbn; congruence. Qed.

Ltac closers I :=
  first
  [ solve [left; assumption]
  | solve [left; unfold aset; left; reflexivity]
  | solve [left; unfold aset; right; apply In_adel_other; [assumption|
           match goal with H : In (?i, _) (w_calls ?w) |- _ => pose proof (a_calls_le w I _ _ H); lia end]]
  | solve [right; left; assumption]
  | solve [right; left; rewrite ?upd_same, ?upd_other by assumption; first [assumption|discriminate]]
  | solve [right; right; left; eexists; eassumption]
  | solve [right; right; left; eexists; reflexivity]
  | solve [right; right; right; assumption]
  | solve [right; right; right; apply In_remove_val_other; assumption]
  | solve [congruence]
  | solve [exfalso; cbn [hcalls] in *; assumption]
  | solve [match goal with E : w_hpc _ = _ |- _ => rewrite E in *; cbn [hcalls] in *; first [contradiction|tauto] end]
  ].

Lemma invB_step w e w' : invA w -> invB w -> wstep w e = Some w' -> invB w'.
Proof.
  intros I B H. unfold invB, accounted in *.
  destruct e; step_cases H; wsimp; rewrite ?hcalls_hnorm; intros k0 i0 Hw; split_upd;
    cbn [waiting_id] in Hw; try discriminate Hw;
    try (specialize (B _ _ Hw));
    try (match goal with E : w_cpc w ?k = _ |- _ =>
           let B' := fresh "B" in pose proof (B k) as B'; rewrite E in B'; cbn [waiting_id] in B';
           try (inversion Hw; subst); try specialize (B' _ eq_refl) end);
    try assumption; try solve [tauto].
  all: try closers I.
  all: try (match goal with B : _ \/ _ |- _ => destruct B as [B|[B|[[? B]|B]]] end; closers I).
  - (* ECallRemove: another waiting call keeps its entry, ids being distinct *)
    destruct B as [B|[B|[[r B]|B]]]; [|tauto|right; right; left; eauto|tauto].
    left. apply In_adel_other; [assumption|]. intros ->.
    apply n. eapply (a_inj w I); [apply waiting_call_id; eassumption|rewrite E; reflexivity].
  - (* popInflight found the call: it is now with the receive loop *)
    destruct B as [B|[B|[[r B]|B]]]; [|tauto|congruence|tauto].
    destruct (N.eq_dec i0 n) as [->|Hne].
    + apply alookup_In in E1. pose proof (NoDup_keys_unique _ _ _ _ (a_calls_nd w I) B E1). subst.
      right; right; left. eexists; reflexivity.
    + left. apply In_adel_other; assumption.
  - (* deliverCallResponse finds the channel already full *)
    destruct B as [B|[B|[[r1 B]|B]]]; [tauto|tauto| |tauto].
    inversion B; subst. right; left. congruence.
  - (* handleReconnect delivers to k: every other call stays in the snapshot *)
    destruct B as [B|[B|[[r1 B]|B]]]; [tauto|tauto|right; right; left; eauto|].
    destruct (Nat.eq_dec k0 k) as [->|Hne].
    + right; left. congruence.
    + right; right; right. cbn [hcalls] in B. apply In_remove_val_other; assumption.
Qed.

Lemma invB_init : invB winit.
Proof. intros k i H. cbn in H. discriminate. Qed.

Lemma invAB_run evs : forall w w', invA w -> invB w -> wrun evs w = Some w' -> invA w' /\ invB w'.
Proof.
  induction evs as [|e evs IH]; intros w w' I B H; cbn in H; [inversion H; subst; auto|].
  destruct (wstep w e) eqn:E; [|discriminate]. eapply IH; [| |exact H].
  - eapply invA_step; eauto.
  - eapply invB_step; eauto.
Qed.

(* calls registered before a reconnect are not in the table afterwards *)
Lemma cpc_not_new_step w e w' k : wstep w e = Some w' -> w_cpc w k <> CNew -> w_cpc w' k <> CNew.
Proof.
  intros H Hn. destruct e; step_cases H; wsimp; try assumption; split_upd; try assumption; try discriminate; congruence.
Qed.

Definition registered_later (w0 w : wstate) : Prop :=
  (forall i k, In (i, k) (w_calls w) -> w_cpc w0 k = CNew) /\
  (forall i k, In (i, k) (hcalls (w_hpc w)) -> w_hpc w = w_hpc w -> True).

Lemma calls_later_step w0 w e w' :
  (forall k, w_cpc w0 k <> CNew -> w_cpc w k <> CNew) ->
  (forall i k, In (i, k) (w_calls w) -> w_cpc w0 k = CNew) ->
  wstep w e = Some w' ->
  (forall i k, In (i, k) (w_calls w') -> w_cpc w0 k = CNew).
Proof.
  intros M L H. destruct e; step_cases H; wsimp; try assumption; intros i0 k0 Hin; use_in; eauto.
  all: try contradiction.
  destruct (w_cpc w0 k) eqn:E0; [reflexivity|exfalso; eapply (M k); [rewrite E0; discriminate|exact E]..].
Qed.

Lemma later_run evs : forall w0 w w',
  (forall k, w_cpc w0 k <> CNew -> w_cpc w k <> CNew) ->
  (forall i k, In (i, k) (w_calls w) -> w_cpc w0 k = CNew) ->
  wrun evs w = Some w' ->
  (forall i k, In (i, k) (w_calls w') -> w_cpc w0 k = CNew).
Proof.
  induction evs as [|e evs IH]; intros w0 w w' M L H; cbn in H; [inversion H; subst; exact L|].
  destruct (wstep w e) eqn:E; [|discriminate]. eapply IH; [| |exact H].
  - intros k Hk. eapply cpc_not_new_step; eauto.
  - eapply calls_later_step; eauto.
Qed.

Lemma waiting_monotone_step w e w' k i :
  wstep w e = Some w' -> call_id (w_cpc w k) = Some i -> call_id (w_cpc w' k) = Some i.
Proof.
  intros H Hc. destruct e; step_cases H; wsimp; try assumption; split_upd; try assumption;
    match goal with E : w_cpc _ _ = _ |- _ => rewrite E in Hc; cbn in *; congruence end.
Qed.

(* The theorem.  Take any reachable state w1, let handleReconnect start there (EClear), and let the
   system run on in any way (other reconnects included).  In every later state in which that
   handleReconnect is past its delivery loop, every call that was registered and unanswered before
   the reconnect has completed, or its response channel is full (its receive is enabled, the select
   cannot block), or the receive loop is at this moment handing it a reply popped before the drop. *)
Theorem ws_reconnect_completes :
  forall evs1 w1 w1' evs2 w2,
    wrun evs1 winit = Some w1 -> wstep w1 EClear = Some w1' -> wrun evs2 w1' = Some w2 ->
    (forall cs ss, w_hpc w2 <> HCalls cs ss) ->
    forall k i, waiting_id (w_cpc w1 k) = Some i ->
      (* completed *)
      (exists o, w_cpc w2 k = CGot i o \/ w_cpc w2 k = CDone i o) \/
      (* or a response (the reconnect error, or a reply that arrived in time) is in its channel *)
      (waiting_id (w_cpc w2 k) = Some i /\
       (w_chan w2 k <> None \/ exists r, w_rpc w2 = RDeliver k r)).
Proof.
  intros evs1 w1 w1' evs2 w2 H1 Hc H2 Hh k i Hw.
  destruct (invAB_run _ _ _ invA_init invB_init H1) as [I1 B1].
  assert (I1' : invA w1') by exact (invA_step _ _ _ I1 Hc).
  assert (B1' : invB w1') by exact (invB_step _ _ _ I1 B1 Hc).
  destruct (invAB_run _ _ _ I1' B1' H2) as [I2 B2].
  (* nothing registered before the reconnect is in the table afterwards *)
  assert (L : forall i k, In (i, k) (w_calls w2) -> w_cpc w1' k = CNew).
  { eapply later_run; [| |exact H2]; [intros k0 Hk0; exact Hk0|].
    unfold wstep in Hc. destruct (w_hpc w1); try discriminate. inversion Hc; subst. cbn. intros ? ? []. }
  assert (Hk1' : w_cpc w1' k = w_cpc w1 k).
  { unfold wstep in Hc. destruct (w_hpc w1); try discriminate. inversion Hc; subst. reflexivity. }
  assert (Hid : call_id (w_cpc w2 k) = Some i).
  { assert (G : forall evs w w', wrun evs w = Some w' -> call_id (w_cpc w k) = Some i -> call_id (w_cpc w' k) = Some i).
    { induction evs as [|e evs IH]; intros w w' Hr Hcid; cbn in Hr; [inversion Hr; subst; exact Hcid|].
      destruct (wstep w e) eqn:E; [|discriminate]. eapply IH; [exact Hr|]. eapply waiting_monotone_step; eauto. }
    eapply G; [exact H2|]. rewrite Hk1'. apply waiting_call_id. exact Hw. }
  destruct (w_cpc w2 k) eqn:Ek; cbn in Hid; try discriminate; inversion Hid; subst.
  - right. split; [reflexivity|].
    destruct (B2 k i) as [B|[B|[B|B]]]; [rewrite Ek; reflexivity| | | |].
    + exfalso. specialize (L _ _ B). rewrite Hk1' in L. rewrite L in Hw. discriminate.
    + left; exact B.
    + right; exact B.
    + exfalso. destruct (w_hpc w2) eqn:Eh; cbn in B; try contradiction. eapply Hh; reflexivity.
  - right. split; [reflexivity|].
    destruct (B2 k i) as [B|[B|[B|B]]]; [rewrite Ek; reflexivity| | | |].
    + exfalso. specialize (L _ _ B). rewrite Hk1' in L. rewrite L in Hw. discriminate.
    + left; exact B.
    + right; exact B.
    + exfalso. destruct (w_hpc w2) eqn:Eh; cbn in B; try contradiction. eapply Hh; reflexivity.
  - left. eexists; left; reflexivity.
  - left. eexists; right; reflexivity.
Qed.

(* the delivery loop itself is never blocked: as long as calls remain in the snapshot one of them can
   be served, whatever the other threads have done meanwhile *)
Lemma reconnect_delivery_enabled w cs ss :
  w_hpc w = HCalls cs ss -> cs <> [] -> exists k w', wstep w (ERcDeliver k) = Some w'.
Proof.
  intros E Hne. destruct cs as [|[i k] cs]; [congruence|]. exists k.
  unfold wstep. rewrite E. cbn [has_val]. rewrite Nat.eqb_refl. cbn. eauto.
Qed.



(* The order inside handleReconnect: the calls are completed BEFORE any resubscribe is attempted, so the
   clause does not depend on the resubscribes succeeding.  In any state reached after the reconnect
   began in which a resubscribe step of handleReconnect is enabled - the allocation of a request
   (ERcInflight s) or its send, successful or FAILING (ERcSend ok; on failure the hook returns the
   error and the websocket client reconnects once more) - and in the state after that step, every
   call that was outstanding before the reconnect has completed or has its response.  No hypothesis
   about sends succeeding (no_rc_abort) is involved. *)
Definition call_settled (w : wstate) (k : nat) (i : N) : Prop :=
  (exists o, w_cpc w k = CGot i o \/ w_cpc w k = CDone i o) \/
  (waiting_id (w_cpc w k) = Some i /\ (w_chan w k <> None \/ exists r, w_rpc w = RDeliver k r)).

Lemma wrun_snoc evs : forall w w1 e w2, wrun evs w = Some w1 -> wstep w1 e = Some w2 -> wrun (evs ++ [e]) w = Some w2.
Proof.
  induction evs as [|a evs IH]; intros w w1 e w2 H1 H2; cbn in *.
  - inversion H1; subst. rewrite H2. reflexivity.
  - destruct (wstep w a) eqn:E; [|discriminate]. eapply IH; eauto.
Qed.

Definition resub_step (e : wev) : Prop := (exists s, e = ERcInflight s) \/ (exists ok, e = ERcSend ok).

Theorem ws_reconnect_calls_before_resubscribe :
  forall evs1 w1 w1' evs2 w2 e w3,
    wrun evs1 winit = Some w1 -> wstep w1 EClear = Some w1' -> wrun evs2 w1' = Some w2 ->
    resub_step e -> wstep w2 e = Some w3 ->
    forall k i, waiting_id (w_cpc w1 k) = Some i -> call_settled w2 k i /\ call_settled w3 k i.
Proof.
  intros evs1 w1 w1' evs2 w2 e w3 H1 Hc H2 He H3 k i Hw.
  assert (N2 : forall cs ss, w_hpc w2 <> HCalls cs ss).
  { intros cs ss Eh. destruct He as [[s ->]|[ok ->]]; unfold wstep in H3; rewrite Eh in H3; discriminate. }
  assert (N3 : forall cs ss, w_hpc w3 <> HCalls cs ss).
  { intros cs ss Eh. destruct He as [[s ->]|[ok ->]]; unfold wstep in H3.
    - destruct (w_hpc w2); try discriminate. destruct (nmem s ss0); [|discriminate].
      unfold addInflightSub in H3. inversion H3; subst. cbn in Eh. discriminate.
    - destruct (w_hpc w2); try discriminate. destruct ok; inversion H3; subst; cbn in Eh.
      + destruct ss0; discriminate.
      + discriminate. }
  split.
  - exact (ws_reconnect_completes _ _ _ _ _ H1 Hc H2 N2 k i Hw).
  - exact (ws_reconnect_completes _ _ _ _ _ H1 Hc (wrun_snoc _ _ _ _ _ H2 H3) N3 k i Hw).
Qed.
