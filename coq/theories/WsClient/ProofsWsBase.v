(* Shared lemmas and tactics for the proofs about the WebSocket client model. *)
From Coq Require Import List NArith Lia Bool Arith.
From FFS Require Import WsClient.Model.
Import ListNotations.

(* ---------- association lists ---------- *)
Section AssocLemmas.
  Context {V : Type}.
  Implicit Types (l : list (N * V)).

  Lemma alookup_In i l v : alookup i l = Some v -> In (i, v) l.
  Proof.
    induction l as [|[j u] l IH]; cbn; [discriminate|].
    destruct (N.eqb_spec i j); intros H; [inversion H; subst; left; reflexivity|right; auto].
  Qed.

  Lemma In_adel i l j v : In (j, v) (adel i l) -> In (j, v) l /\ j <> i.
  Proof.
    induction l as [|[j' u] l IH]; cbn; [intros []|].
    destruct (N.eqb_spec i j').
    - intros H. destruct (IH H). split; [right; assumption|assumption].
    - intros [H|H]; [inversion H; subst; split; [left; reflexivity|congruence]|].
      destruct (IH H). split; [right; assumption|assumption].
  Qed.

  Lemma In_adel_other i l j v : In (j, v) l -> j <> i -> In (j, v) (adel i l).
  Proof.
    induction l as [|[j' u] l IH]; cbn; [intros []|].
    intros [H|H] Hne.
    - inversion H; subst. destruct (N.eqb_spec i j); [congruence|left; reflexivity].
    - destruct (N.eqb_spec i j'); [auto|right; auto].
  Qed.

  Lemma alookup_adel_same i l : alookup i (adel i l) = None.
  Proof.
    induction l as [|[j u] l IH]; cbn; [reflexivity|].
    destruct (N.eqb_spec i j); [exact IH|]. cbn. destruct (N.eqb_spec i j); [contradiction|exact IH].
  Qed.

  Lemma alookup_adel_other i j l : i <> j -> alookup i (adel j l) = alookup i l.
  Proof.
    intros Hne. induction l as [|[j' u] l IH]; cbn; [reflexivity|].
    destruct (N.eqb_spec j j').
    - subst. destruct (N.eqb_spec i j'); [contradiction|exact IH].
    - cbn. destruct (N.eqb_spec i j'); [reflexivity|exact IH].
  Qed.

  Lemma alookup_none_notin i l : alookup i l = None -> forall v, ~ In (i, v) l.
  Proof.
    induction l as [|[j u] l IH]; cbn; [intros _ v []|].
    destruct (N.eqb_spec i j); [discriminate|]. intros H v [E|Hin]; [inversion E; congruence|eapply IH; eauto].
  Qed.

  Lemma notin_alookup_none i l : (forall v, ~ In (i, v) l) -> alookup i l = None.
  Proof.
    induction l as [|[j u] l IH]; cbn; [reflexivity|]. intros H.
    destruct (N.eqb_spec i j); [subst; exfalso; eapply H; left; reflexivity|].
    apply IH. intros v Hin. eapply H. right. exact Hin.
  Qed.

  Lemma keys_adel_subset i l k : In k (map fst (adel i l)) -> In k (map fst l).
  Proof.
    induction l as [|[j u] l IH]; cbn; [intros []|].
    destruct (N.eqb_spec i j); [right; auto|]. cbn. intros [H|H]; [left; assumption|right; auto].
  Qed.

  Lemma NoDup_keys_adel i l : NoDup (map fst l) -> NoDup (map fst (adel i l)).
  Proof.
    induction l as [|[j u] l IH]; cbn; [constructor|]. intros H. inversion H; subst.
    destruct (N.eqb_spec i j); [auto|]. cbn. constructor; [|auto].
    intros Hin. apply H2. eapply keys_adel_subset; eauto.
  Qed.

  Lemma In_keys j v l : In (j, v) l -> In j (map fst l).
  Proof. intros H. change j with (fst (j, v)). apply in_map. exact H. Qed.

  Lemma NoDup_keys_unique l i v v' : NoDup (map fst l) -> In (i, v) l -> In (i, v') l -> v = v'.
  Proof.
    induction l as [|[j u] l IH]; cbn; [intros _ []|]. intros H. inversion H; subst.
    intros [E|Hin] [E'|Hin'].
    - congruence.
    - inversion E; subst. exfalso. apply H2. eapply In_keys; eauto.
    - inversion E'; subst. exfalso. apply H2. eapply In_keys; eauto.
    - eauto.
  Qed.

  Lemma In_aset i v l j u : In (j, u) (aset i v l) -> (j = i /\ u = v) \/ (In (j, u) l /\ j <> i).
  Proof.
    unfold aset. intros [E|H]; [inversion E; left; auto|]. right. apply In_adel. exact H.
  Qed.
End AssocLemmas.

Lemma nmem_In x l : nmem x l = true <-> In x l.
Proof.
  induction l as [|y l IH]; cbn; [split; [discriminate|intros []]|].
  rewrite orb_true_iff, IH. split.
  - intros [H|H]; [apply Nat.eqb_eq in H; left; congruence|right; exact H].
  - intros [H|H]; [left; apply Nat.eqb_eq; congruence|right; exact H].
Qed.
Lemma In_nremove x y l : In y (nremove x l) <-> In y l /\ y <> x.
Proof.
  induction l as [|z l IH]; cbn; [tauto|].
  destruct (Nat.eqb_spec x z).
  - subst. rewrite IH. split; [intros [? ?]; tauto|intros [[?|?] ?]; [congruence|tauto]].
  - cbn. rewrite IH. split; [intros [?|[? ?]]; [subst; split; [left; reflexivity|congruence]|tauto]|tauto].
Qed.
Lemma NoDup_nremove x l : NoDup l -> NoDup (nremove x l).
Proof.
  induction l as [|z l IH]; cbn; [constructor|]. intros H. inversion H; subst.
  destruct (Nat.eqb_spec x z); [auto|]. constructor; [|auto]. rewrite In_nremove. tauto.
Qed.

Lemma has_val_In k cs : has_val k cs = true <-> exists i, In (i, k) cs.
Proof.
  induction cs as [|[i k'] cs IH]; cbn; [split; [discriminate|intros [? []]]|].
  rewrite orb_true_iff, IH. split.
  - intros [H|[i' H]]; [apply Nat.eqb_eq in H; subst; exists i; left; reflexivity|exists i'; right; exact H].
  - intros [i' [E|H]]; [inversion E; subst; left; apply Nat.eqb_refl|right; exists i'; exact H].
Qed.
Lemma In_remove_val k cs i k' : In (i, k') (remove_val k cs) -> In (i, k') cs.
Proof.
  induction cs as [|[j u] cs IH]; cbn; [intros []|].
  destruct (Nat.eqb_spec k u); [right; assumption|]. intros [E|H]; [left; exact E|right; auto].
Qed.
Lemma In_remove_val_other k cs i k' : In (i, k') cs -> k' <> k -> In (i, k') (remove_val k cs).
Proof.
  induction cs as [|[j u] cs IH]; cbn; [intros []|]. intros [E|H] Hne.
  - inversion E; subst. destruct (Nat.eqb_spec k k'); [congruence|left; reflexivity].
  - destruct (Nat.eqb_spec k u); [exact H|right; auto].
Qed.

(* ---------- functional update ---------- *)
Lemma upd_same {A} (f : nat -> A) k v : upd f k v k = v.
Proof. unfold upd. rewrite Nat.eqb_refl. reflexivity. Qed.
Lemma upd_other {A} (f : nat -> A) k v x : x <> k -> upd f k v x = f x.
Proof. intros H. unfold upd. destruct (Nat.eqb_spec x k); [contradiction|reflexivity]. Qed.

Ltac upd_cases c c' :=
  destruct (Nat.eq_dec c' c) as [->|?]; [rewrite ?upd_same in *|rewrite ?upd_other in * by assumption].

(* ---------- state simplification ---------- *)
Ltac wsimp :=
  cbn [w_ctr w_calls w_conf w_pend w_act w_sub w_chan w_cpc w_spc w_upc w_rpc w_hpc w_log w_panic
       w_straddle w_substraddle w_subs_seen w_gen
       set_sub set_tables set_chan set_cpc set_spc set_upc set_rpc set_hpc add_log set_panic set_flags
       addInflightRequest addInflightSub removeSubscription addConfiguredSub removeConfiguredSub
       removeInflightRequest fst snd winit
       s_pend s_cur s_new s_respq s_cancel s_closed sub_set_pend sub_set_cur sub_set_new sub_set_cancel
       sub_set_closed sub0] in *.

(* destruct every discriminee of the step function in H : wstep w e = Some w' (innermost first) *)
Ltac break_one H :=
  match type of H with
  | context [match alookup ?a ?b with _ => _ end] => let E := fresh "E" in destruct (alookup a b) eqn:E
  | context [if nmem ?a ?b then _ else _] => let E := fresh "E" in destruct (nmem a b) eqn:E
  | context [if has_val ?a ?b then _ else _] => let E := fresh "E" in destruct (has_val a b) eqn:E
  | context [match w_cpc ?a ?b with _ => _ end] => let E := fresh "E" in destruct (w_cpc a b) eqn:E
  | context [match w_spc ?a ?b with _ => _ end] => let E := fresh "E" in destruct (w_spc a b) eqn:E
  | context [match w_upc ?a ?b with _ => _ end] => let E := fresh "E" in destruct (w_upc a b) eqn:E
  | context [match w_chan ?a ?b with _ => _ end] => let E := fresh "E" in destruct (w_chan a b) eqn:E
  | context [match w_rpc ?a with _ => _ end] => let E := fresh "E" in destruct (w_rpc a) eqn:E
  | context [match w_hpc ?a with _ => _ end] => let E := fresh "E" in destruct (w_hpc a) eqn:E
  | context [match s_cur ?a with _ => _ end] => let E := fresh "E" in destruct (s_cur a) eqn:E
  | context [match s_pend ?a with _ => _ end] => let E := fresh "E" in destruct (s_pend a) eqn:E
  | context [match s_respq ?a with _ => _ end] => let E := fresh "E" in destruct (s_respq a) eqn:E
  | context [if s_closed ?a then _ else _] => let E := fresh "E" in destruct (s_closed a) eqn:E
  | context [if s_cancel ?a then _ else _] => let E := fresh "E" in destruct (s_cancel a) eqn:E
  | context [if s_new ?a then _ else _] => let E := fresh "E" in destruct (s_new a) eqn:E
  | context [match ?x with _ => _ end] =>
      first [ is_var x; destruct x
            | let E := fresh "E" in destruct x eqn:E ]
  end.
Ltac break_step H :=
  repeat (cbv beta iota zeta in H; wsimp; break_one H; try discriminate H).

Ltac step_cases H :=
  unfold wstep, popInflight, clearActiveReturnConfiguredSubs, deliverCallResponse, addActiveSub,
         addInflightRequest, addInflightSub, removeSubscription, getActiveSub in H;
  break_step H; try discriminate H;
  try (inversion H; subst; clear H).

(* ---------- monotonicity facts used by several invariants ---------- *)
Definition call_id (p : cpc) : option N :=
  match p with CNew => None | CReg i | CWait i | CGot i _ | CDone i _ => Some i end.
