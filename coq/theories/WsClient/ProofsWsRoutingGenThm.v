(* C18, narrowed routing guard, file 4 of 4: assembling the invariant, the guard as a function of the
   history, the theorem, its relation to the old guard and the witnesses (see ProofsWsRoutingGen.v). *)
From Coq Require Import List NArith Lia Bool Arith.
From FFS Require Import WsClient.Model WsClient.Spec WsClient.ProofsWsBase WsClient.ProofsWsPairing
  WsClient.ProofsWsResub WsClient.ProofsWsRouting
  WsClient.ProofsWsRoutingGen WsClient.ProofsWsRoutingGenQuiet WsClient.ProofsWsRoutingGenNotify.
Import ListNotations.

Lemma g_newU_step w e w' :
  invG w -> wstep w e = Some w' -> forall s, w_spc w' s = SNew -> w_upc w' s = UNew.
Proof.
  intros D H. pose proof (g_newU w D) as N.
  destruct e; step_cases H; wsimp; intros s0 Hs; split_upd; try discriminate; auto; try congruence.
  all: specialize (N _ Hs); congruence.
Qed.

Lemma g_confU_step w e w' :
  invG w -> wstep w e = Some w' -> forall s, In s (w_conf w') -> w_upc w' s = UNew.
Proof.
  intros D H. pose proof (g_confU w D) as N. pose proof (g_newU w D) as N2.
  destruct e; step_cases H; wsimp; intros s0 Hs; use_in; split_upd; try discriminate; auto; try congruence.
  all: specialize (N _ Hs); congruence.
Qed.

Lemma g_closed_step w e w' :
  invG w -> wstep w e = Some w' -> forall s, s_closed (w_sub w' s) = true -> w_upc w' s = UDone true.
Proof.
  intros D H. pose proof (g_closed w D) as N.
  destruct e; step_cases H; wsimp; intros s0 Hs; unfold clear_subs in *; split_upd; wsimp;
    try discriminate; auto; try congruence;
    try (specialize (N _ Hs); congruence).
  all: try (destruct (nmem s0 (w_conf w)); wsimp; specialize (N _ Hs); congruence).
Qed.

Lemma g_log_step w e w' :
  invG w -> wstep w e = Some w' -> forall s, In (LUnsubRet s) (w_log w') -> w_upc w' s = UDone true.
Proof.
  intros D H. pose proof (g_log w D) as N.
  destruct e; step_cases H; wsimp; intros s0 Hs; use_in; split_upd;
    try discriminate; auto; try congruence;
    try (specialize (N _ Hs); congruence).
  all: rewrite upd_same; reflexivity.
Qed.

Lemma invG_step w e w' :
  invA w -> invC0 w -> (e = EClear -> is_notify (w_rpc w) = false) -> w_substraddle w' = false ->
  invG w -> wstep w e = Some w' -> invG w'.
Proof.
  intros IA IC Hs1 Hs2 D H. constructor.
  - eapply g_act_step; eauto.
  - eapply g_pend_noact_step; eauto.
  - eapply g_early_step; eauto.
  - eapply g_todo_step; eauto.
  - eapply g_conf_step; eauto.
  - eapply g_gen_step; eauto.
  - eapply g_uniq_step; eauto.
  - eapply g_confU_step; eauto.
  - eapply g_newU_step; eauto.
  - eapply g_notify_step; eauto.
  - eapply g_closed_step; eauto.
  - eapply g_log_step; eauto.
  - eapply g_panic_step; eauto.
  - eapply g_late_step; eauto.
Qed.

Lemma invG_init : invG winit.
Proof.
  constructor; cbn; unfold quietG, no_act, no_pend; cbn; intros; try contradiction; try discriminate; auto.
  intros post pre s Heq. destruct post; discriminate.
Qed.

(* The narrowed guard, as a function of the history: some reconnect began (EClear) at a moment when the
   receive loop was between getActiveSub and the hand-over select of a notification (RNotify). *)
Fixpoint notif_straddle (evs : list wev) (w : wstate) : bool :=
  match evs with
  | [] => false
  | e :: t =>
      (match e with EClear => is_notify (w_rpc w) | _ => false end)
      || match wstep w e with Some w' => notif_straddle t w' | None => false end
  end.

Lemma substraddle_mono_run evs : forall w w', wrun evs w = Some w' ->
  w_substraddle w' = false -> w_substraddle w = false.
Proof.
  induction evs as [|e evs IH]; intros w w' H F; cbn in H; [inversion H; subst; auto|].
  destruct (wstep w e) eqn:E; [|discriminate].
  eapply substraddle_mono_step'; eauto.
Qed.

Lemma invACG_run evs : forall w w',
  invA w -> invC0 w -> invG w -> wrun evs w = Some w' ->
  notif_straddle evs w = false -> w_substraddle w' = false -> invA w' /\ invC0 w' /\ invG w'.
Proof.
  induction evs as [|e evs IH]; intros w w' IA IC D H F1 F2; cbn in H; [inversion H; subst; auto|].
  cbn [notif_straddle] in F1.
  destruct (wstep w e) as [w1|] eqn:E; [|discriminate].
  apply orb_false_elim in F1. destruct F1 as [F1 F1'].
  pose proof (substraddle_mono_run _ _ _ H F2) as G2.
  eapply IH; [| | |exact H|assumption|assumption].
  - eapply invA_step; eauto.
  - eapply invC0_step; eauto.
  - apply (invG_step w e w1 IA IC); [intros ->; exact F1|exact G2|exact D|exact E].
Qed.

Lemma straddle_mono_run evs : forall w w', wrun evs w = Some w' ->
  w_straddle w' = false -> w_straddle w = false.
Proof.
  induction evs as [|e evs IH]; intros w w' H F; cbn in H; [inversion H; subst; auto|].
  destruct (wstep w e) eqn:E; [|discriminate].
  eapply straddle_mono_step; eauto.
Qed.

(* the old guard implies the new one: every history the old theorem covered is covered *)
Lemma straddle_false_notif_false evs : forall w w',
  wrun evs w = Some w' -> w_straddle w' = false -> notif_straddle evs w = false.
Proof.
  induction evs as [|e evs IH]; intros w w' H F; cbn in H; [reflexivity|].
  cbn [notif_straddle]. destruct (wstep w e) as [w1|] eqn:E; [|discriminate].
  rewrite (IH _ _ H F), orb_false_r.
  destruct e; try reflexivity.
  pose proof (straddle_mono_run _ _ _ H F) as G.
  step_cases E; wsimp. apply orb_false_elim in G. destruct G as [_ G].
  destruct (w_rpc w); cbn in *; congruence.
Qed.

Theorem ws_routing_gen_partial :
  forall evs w,
    wrun evs winit = Some w ->
    notif_straddle evs winit = false ->
    w_substraddle w = false ->
    (forall s x t, w_rpc w = RNotify s x t -> w_upc w s <> UDone true /\ w_upc w s <> UClosing) /\
    (forall x s, In (x, s) (w_act w) -> s_cur (w_sub w s) = Some x /\ w_upc w s = UNew) /\
    (forall s, w_upc w s = UDone true -> owns_nothing (w_act w) s) /\
    no_late (w_log w) /\
    w_panic w = false.
Proof.
  intros evs w H F1 F2.
  destruct (invACG_run _ _ _ invA_init invC0_init invG_init H F1 F2) as [IA [IC D]].
  repeat split.
  - pose proof (g_notify w D _ _ _ H0) as N. destruct N as [[Hu _]|[[k0 [Hu _]]|Hu]]; congruence.
  - pose proof (g_notify w D _ _ _ H0) as N. destruct N as [[Hu _]|[[k0 [Hu _]]|Hu]]; congruence.
  - apply (g_act w D _ _ H0).
  - apply (g_act w D _ _ H0).
  - intros s Hu x Hf. unfold spec_route in *. apply alookup_In' in Hf.
    destruct (g_act w D _ _ Hf) as [_ Hn]. congruence.
  - exact (g_late w D).
  - exact (g_panic w D).
Qed.

(* The statement is still false without the (narrowed) guard: the witness of ProofsWsRouting.v lies in the
   narrowed window.  One boolean, one vm_compute. *)
Definition routing_gen_witness_ok : bool :=
  notif_straddle routing_witness winit &&
  match wrun routing_witness winit with
  | Some w => negb (w_substraddle w) && match w_upc w 0 with UDone true => true | _ => false end && w_panic w
  | None => false
  end.
Lemma routing_gen_witness_ok_true : routing_gen_witness_ok = true.
Proof. vm_compute. reflexivity. Qed.

Theorem ws_routing_gen_refuted :
  exists evs w, wrun evs winit = Some w /\ notif_straddle evs winit = true /\ w_substraddle w = false /\
                w_upc w 0 = UDone true /\ w_panic w = true.
Proof.
  exists routing_witness.
  pose proof routing_gen_witness_ok_true as X. unfold routing_gen_witness_ok in X.
  apply andb_prop in X. destruct X as [N X].
  destruct (wrun routing_witness winit) as [w|]; [|discriminate X].
  exists w. split; [reflexivity|]. split; [exact N|].
  apply andb_prop in X. destruct X as [X P]. apply andb_prop in X. destruct X as [S U].
  repeat split.
  - destruct (w_substraddle w); [discriminate|reflexivity].
  - destruct (w_upc w 0) as [| | |[]]; try discriminate. reflexivity.
  - exact P.
Qed.

(* What the narrowing buys: the D18c history (popInflight ; reconnect ; addActiveSub ; new confirmation ;
   Unsubscribe ; notification on the old id) was excluded by the old guard (w_straddle = true) and is covered by
   the new theorem (notif_straddle = false, w_substraddle = false); likewise a reconnect that begins while the
   receive loop holds a call reply (RDeliver). *)
Definition d18c_trace : list wev :=
  [ESubCfg 0; ESubInflight 0; ESubSend 0 true;
   EFrame (FReply (Some 1%N) false (Some 7%N));
   EClear; ERcInflight 0; ERcSend true;
   ERAddActive; ESubWait 0;
   EFrame (FReply (Some 2%N) false (Some 8%N)); ERAddActive;
   EUnsubRemove 0 1; ECallReg 1; ECallSend 1 true;
   EFrame (FReply (Some 3%N) false None); ERDeliver; ECallRecv 1; ECallRemove 1;
   EUnsubAfterCall 0 true; EUnsubClose 0;
   EFrame (FNotif (Some 7%N) 99%N)].
Example d18c_trace_now_covered :
  match wrun d18c_trace winit with
  | Some w => w_straddle w && negb (w_substraddle w) && negb (notif_straddle d18c_trace winit) &&
              negb (w_panic w) && match w_upc w 0 with UDone true => true | _ => false end
  | None => false
  end = true.
Proof. vm_compute. reflexivity. Qed.

Definition deliver_straddle_trace : list wev :=
  [ESubCfg 0; ESubInflight 0; ESubSend 0 true; EFrame (FReply (Some 1%N) false (Some 7%N)); ERAddActive; ESubWait 0;
   ECallReg 5; ECallSend 5 true; EFrame (FReply (Some 2%N) false (Some 11%N));
   EClear; ERDeliver; ERcInflight 0; ERcSend true; ECallRecv 5; ECallRemove 5;
   EFrame (FReply (Some 3%N) false (Some 8%N)); ERAddActive;
   EFrame (FNotif (Some 7%N) 1%N); EFrame (FNotif (Some 8%N) 2%N); ERNotifySend].
Example deliver_straddle_now_covered :
  match wrun deliver_straddle_trace winit with
  | Some w => w_straddle w && negb (w_substraddle w) && negb (notif_straddle deliver_straddle_trace winit) &&
              negb (w_panic w) &&
              match w_log w with LNotify 0%nat 8%N (Some 8%N) 2%N :: _ => true | _ => false end
  | None => false
  end = true.
Proof. vm_compute. reflexivity. Qed.
