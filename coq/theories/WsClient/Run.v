(* Evaluator for the correspondence check of C18.  The Go harness drives the real clients through
   their public API, one operation at a time (each followed by a barrier, see design/C18.md), and
   writes the operation sequence with what it observed.  Each operation is expanded here into the
   atomic steps of Model.v that a quiescent execution of it performs; every step must be enabled and
   every observation must agree.

   result codes: 0 agree; 1..9 model differs from implementation; >= 10 the implementation breaks
   the property on this sequence. *)
From Coq Require Import List NArith Lia Bool Arith.
From FFS Require Import WsClient.Model.
Import ListNotations.

(* ======================= HTTP ======================= *)
Inductive hop :=
| HOStart (c : nat) (orig : N)                 (* SyncRequest launched, caller id [orig] *)
| HOArrive (c : nat) (beid : N)                (* the backend received c's request carrying id beid *)
| HOReply (c : nat) (r : hreply) (o : hout)    (* the backend answered c's request with r; SyncRequest returned o *)
| HOCancelWait (c : nat) (o : hout)            (* c's context cancelled while it waited for a slot *)
| HOQuiet (n : nat).                           (* nothing moves: n requests are outstanding at the backend *)

Definition hout_eqb (a b : hout) : bool :=
  Bool.eqb (ho_err a) (ho_err b) && (ho_id a =? ho_id b)%N && (ho_code a =? ho_code b)%N &&
  match ho_res a, ho_res b with
  | Some x, Some y => (x =? y)%N | None, None => true | _, _ => false end.

Fixpoint nmemN (x : N) (l : list N) : bool :=
  match l with [] => false | y :: t => (x =? y)%N || nmemN x t end.

Definition h_can_acquire (s : hstate) : bool :=
  existsb (fun c => match h_pc s c with HWait => true | _ => false end) (h_started s)
  && (h_slots s <? h_limit s)%N.

(* one operation; returns the new state or a code *)
Definition hop_step (s : hstate) (o : hop) : hstate + N :=
  match o with
  | HOStart c orig =>
      match hstep s (HEStart c orig) with Some s' => inl s' | None => inr 1%N end
  | HOArrive c beid =>
      if nmemN beid (h_sent s) then inr 11%N          (* a backend id used twice *)
      else
      let s1 := match h_pc s c with
                | HWait => match hstep s (HEAcquire c) with Some s' => Some s' | None => None end
                | _ => Some s
                end in
      match s1 with
      | None => inr 10%N                               (* arrived although every slot is taken *)
      | Some s1 =>
          match hstep s1 (HEAlloc c) with
          | Some s2 => match h_pc s2 c with
                       | HSent _ id => if (id =? beid)%N then inl s2 else inr 2%N
                       | _ => inr 1%N
                       end
          | None => inr 1%N
          end
      end
  | HOReply c r o =>
      match hstep s (HEReply c r) with
      | None => inr 1%N
      | Some s1 =>
        match hstep s1 (HERestore c) with
        | None => inr 1%N
        | Some s2 =>
          match h_pc s2 c with
          | HRet _ mo =>
              if negb (ho_id o =? h_orig s c)%N then inr 12%N        (* caller's id not restored *)
              else if (match r, ho_res o with
                       | HRResult _ v, Some v' => negb (v =? v')%N    (* somebody else's result *)
                       | HRResult _ _, None => true
                       | _, _ => false end) then inr 13%N
              else if negb (hout_eqb o mo) then inr 3%N
              else match hstep s2 (HERelease c) with Some s3 => inl s3 | None => inr 1%N end
          | _ => inr 1%N
          end
        end
      end
  | HOCancelWait c o =>
      match hstep s (HECancel c) with
      | None => inr 1%N
      | Some s1 =>
          match h_pc s1 c with
          | HDone mo => if negb (ho_id o =? h_orig s c)%N then inr 12%N
                        else if hout_eqb o mo then inl s1 else inr 3%N
          | _ => inr 1%N
          end
      end
  | HOQuiet n =>
      if negb (h_outstanding s =? n)%nat then inr 4%N
      else if h_can_acquire s then inr 5%N   (* a waiting caller could proceed but did not arrive *)
      else inl s
  end.

Fixpoint hops_run (s : hstate) (l : list hop) : N :=
  match l with
  | [] => 0%N
  | o :: t => match hop_step s o with inl s' => hops_run s' t | inr c => c end
  end.

(* ======================= WebSocket ======================= *)
(* what a CallRPC caller can see *)
Inductive oout := OOk (res : option N) | OErrRpc (code : option N) | OErrInternal.
Definition oout_of (c : cout) : oout :=
  match c with
  | COk _ v => OOk v
  | CErrFrame _ v => OErrRpc v
  | CErrReconn | CErrCancel | CErrSend => OErrInternal
  end.
Definition optN_eqb (a b : option N) : bool :=
  match a, b with Some x, Some y => (x =? y)%N | None, None => true | _, _ => false end.
Definition oout_eqb (a b : oout) : bool :=
  match a, b with
  | OOk x, OOk y => optN_eqb x y
  | OErrRpc x, OErrRpc y => optN_eqb x y
  | OErrInternal, OErrInternal => true
  | _, _ => false
  end.

(* a notification as received by the consumer of sub s: (s, CurrentSubID, result) *)
Definition nobs := (nat * option N * N)%type.

Inductive wop :=
| WCall (k : nat) (id : N)                  (* CallRPC started; the server received its frame with this id *)
| WBarrier (k : nat) (id : N) (v : N)       (* CallRPC answered at once with result v; returned OOk (Some v) *)
| WFrame (f : frame) (ns : list nobs)       (* the server sent f; notifications the consumers received *)
| WCallRet (k : nat) (o : oout)             (* call k returned *)
| WCallHang (k : nat)                       (* call k did not return although the harness expected it to *)
| WCancelCall (k : nat)                     (* context of call k cancelled *)
| WSub (s : nat) (id : N)                   (* Subscribe started; server received eth_subscribe with this id *)
| WSubRet (s : nat) (r : N)                 (* Subscribe returned: 0 (s,nil)  1 (s,err)  2 (nil,err) *)
| WCancelSub (s : nat)                      (* context of Subscribe s cancelled *)
| WUnsub (s : nat) (k : nat) (fr : option (N * N))  (* Unsubscribe started; eth_unsubscribe frame (id, subid) seen, if any *)
| WSubBuildFail (s : nat) (r : N)
    (* Subscribe() with a parameter that cannot be marshalled: buildRequest fails inside sendSubscribe, after
       addConfiguredSub and before addInflightSub: (nil, err), nothing stays configured, no id consumed *)
| WDropAbort (resub : list (nat * N)) (s : nat)
    (* a reconnect whose hook re-requested [resub] (in that order, with those ids) and then gave up because the
       request for s could not be built (no id consumed for s) *)
| WUnsubRet (s : nat) (ok : bool) (closed : bool) (dec : bool)
    (* Unsubscribe returned; notifications channel observed closed; dec = the result the SCRIPT put on the reply to
       its eth_unsubscribe decodes into a Go bool (true/false/null/absent; true when no reply was sent) - taken
       from what the script sent, never from what the client returned *)
| WDrop (resub : list (nat * N))            (* connection closed by the server; after the reconnect the server
                                               received these eth_subscribe frames (sub, id), in order *)
| WSubs (l : list nat)                      (* Subscriptions(): the local ids, sorted *)
| WCallSendFail (k : nat) (o : oout)        (* CallRPC whose websocket send failed (connection down, context
                                               cancelled): registered, not sent, returned o *)
| WSubSendFail (s : nat) (r : N).           (* Subscribe whose websocket send failed: registered, request id
                                               allocated, not sent, unregistered; returned r (as WSubRet) *)

Definition steps (w : wstate) (l : list wev) : option wstate := wrun l w.

(* let the receive loop finish the frame it is in *)
Definition settle (w : wstate) : option wstate :=
  match w_rpc w with
  | RIdle => Some w
  | RConfirm _ _ _ _ => wstep w ERAddActive
  | RDeliver _ _ => wstep w ERDeliver
  | RNotify s _ _ =>
      if s_cancel (w_sub w s) then wstep w ERNotifyDrop else wstep w ERNotifySend
  end.

Fixpoint new_notifs (n : nat) (log : list obs) : list nobs :=
  match n, log with
  | S n', LNotify s x cur t :: rest => new_notifs n' rest ++ [(s, cur, t)]
  | S n', _ :: rest => new_notifs n' rest
  | _, _ => []
  end.
Definition nobs_eqb (a b : nobs) : bool :=
  let '(s, c, t) := a in let '(s', c', t') := b in (s =? s')%nat && optN_eqb c c' && (t =? t')%N.
Fixpoint nobs_list_eqb (a b : list nobs) : bool :=
  match a, b with
  | [], [] => true
  | x :: a', y :: b' => nobs_eqb x y && nobs_list_eqb a' b'
  | _, _ => false
  end.

Fixpoint insert_sorted (x : nat) (l : list nat) : list nat :=
  match l with [] => [x] | y :: t => if (x <=? y)%nat then x :: l else y :: insert_sorted x t end.
Definition sort_nat (l : list nat) : list nat := fold_right insert_sorted [] l.
Fixpoint natlist_eqb (a b : list nat) : bool :=
  match a, b with
  | [], [] => true
  | x :: a', y :: b' => (x =? y)%nat && natlist_eqb a' b'
  | _, _ => false
  end.

Definition ids_used (w : wstate) : list N :=
  flat_map (fun o => match o with LSendCall i _ | LSendSub i _ => [i] | _ => [] end) (w_log w).

(* the reconnect: deliver the error to every call of the snapshot (any order), then resubscribe in the
   observed order *)
Fixpoint rc_deliver_all (fuel : nat) (w : wstate) : option wstate :=
  match fuel with
  | O => Some w
  | S f => match w_hpc w with
           | HCalls ((_, k) :: _) _ => match wstep w (ERcDeliver k) with Some w' => rc_deliver_all f w' | None => None end
           | _ => Some w
           end
  end.
Fixpoint rc_resub (w : wstate) (l : list (nat * N)) : wstate + N :=
  match l with
  | [] => inl w
  | (s, id) :: t =>
      match wstep w (ERcInflight s) with
      | None => inr 17%N                    (* a subscription re-requested that is not due (twice / not configured) *)
      | Some w1 =>
          match w_hpc w1 with
          | HSend _ mid _ =>
              if nmemN id (ids_used w) then inr 14%N
              else if negb (mid =? id)%N then inr 2%N
              else match wstep w1 (ERcSend true) with Some w2 => rc_resub w2 t | None => inr 1%N end
          | _ => inr 1%N
          end
      end
  end.

Definition opt_code (o : option wstate) (c : N) : wstate + N :=
  match o with Some w => inl w | None => inr c end.

Definition wop_step (w : wstate) (o : wop) : wstate + N :=
  match o with
  | WCall k id =>
      if nmemN id (ids_used w) then inr 14%N            (* request id used twice *)
      else match steps w [ECallReg k; ECallSend k true] with
      | Some w1 => match w_cpc w1 k with
                   | CWait mid => if (mid =? id)%N then inl w1 else inr 2%N
                   | _ => inr 1%N
                   end
      | None => inr 1%N
      end
  | WBarrier k id v =>
      if nmemN id (ids_used w) then inr 14%N
      else match steps w [ECallReg k; ECallSend k true] with
      | Some w1 =>
          match w_cpc w1 k with
          | CWait mid =>
              if negb (mid =? id)%N then inr 2%N
              else match steps w1 [EFrame (FReply (Some id) false (Some v)); ERDeliver; ECallRecv k; ECallRemove k] with
                   | Some w2 => match w_cpc w2 k with
                                | CDone _ (COk _ (Some v')) => if (v =? v')%N then inl w2 else inr 6%N
                                | _ => inr 6%N
                                end
                   | None => inr 6%N
                   end
          | _ => inr 1%N
          end
      | None => inr 1%N
      end
  | WFrame f ns =>
      match wstep w (EFrame f) with
      | None => inr 1%N
      | Some w1 =>
          match settle w1 with
          | None => inr 1%N
          | Some w2 =>
              if w_panic w2 then inr 7%N
              else
              let expected := new_notifs (length (w_log w2) - length (w_log w)) (w_log w2) in
              if nobs_list_eqb expected ns then inl w2
              else match expected, ns with
                   | [], _ :: _ => inr 18%N     (* a notification reached a consumer that does not own the server id *)
                   | _, _ => inr 8%N
                   end
          end
      end
  | WCallRet k o =>
      let w1 := match w_cpc w k with
                | CWait _ => steps w [ECallRecv k; ECallRemove k]
                | CGot _ _ => steps w [ECallRemove k]
                | _ => None
                end in
      match w1 with
      | None => inr 15%N                                 (* returned something that was never delivered to it *)
      | Some w1 =>
          match w_cpc w1 k with
          | CDone _ mo => if oout_eqb (oout_of mo) o then inl w1 else inr 15%N
          | _ => inr 1%N
          end
      end
  | WCallHang k =>
      match w_cpc w k, w_chan w k with
      | CWait _, Some _ => inr 16%N                      (* a response is waiting for it, yet it hangs *)
      | CGot _ _, _ => inr 16%N
      | _, _ => inr 9%N
      end
  | WCancelCall k => opt_code (wstep w (ECallCancel k)) 1%N
  | WSub s id =>
      if nmemN id (ids_used w) then inr 14%N
      else match steps w [ESubCfg s; ESubInflight s; ESubSend s true] with
      | Some w1 => match w_spc w1 s with
                   | SWaiting mid => if (mid =? id)%N then inl w1 else inr 2%N
                   | _ => inr 1%N
                   end
      | None => inr 1%N
      end
  | WSubRet s r =>
      let w1 := match w_spc w s with
                | SWaiting _ => wstep w (ESubWait s)
                | SDone _ => Some w
                | _ => None
                end in
      match w1 with
      | None => inr 9%N
      | Some w1 =>
          match w_spc w1 s with
          | SDone (Some true) => if (r =? 0)%N then inl w1 else inr 9%N
          | SDone (Some false) => if (r =? 1)%N then inl w1 else inr 9%N
          | SDone None => if (r =? 2)%N then inl w1 else inr 9%N
          | _ => inr 1%N
          end
      end
  | WCancelSub s => opt_code (steps w [ESubCancel s; ESubRemoveCfg s]) 1%N
  | WUnsub s k fr =>
      match wstep w (EUnsubRemove s k) with
      | None => inr 1%N
      | Some w1 =>
          match w_upc w1 s, fr with
          | UCall _, Some (id, x) =>
              if nmemN id (ids_used w) then inr 14%N
              else if negb (optN_eqb (s_cur (w_sub w s)) (Some x)) then inr 8%N
              else match steps w1 [ECallReg k; ECallSend k true] with
                   | Some w2 => match w_cpc w2 k with
                                | CWait mid => if (mid =? id)%N then inl w2 else inr 2%N
                                | _ => inr 1%N
                                end
                   | None => inr 1%N
                   end
          | UClosing, None => inl w1
          | _, _ => inr 8%N
          end
      end
  | WUnsubRet s ok closed dec =>
      let w1 := match w_upc w s with
                | UCall k =>
                    match (match w_cpc w k with
                           | CWait _ => steps w [ECallRecv k; ECallRemove k]
                           | CGot _ _ => steps w [ECallRemove k]
                           | _ => None end) with
                    | Some w' => wstep w' (EUnsubAfterCall s dec)
                    | None => None
                    end
                | UClosing => Some w
                | _ => None
                end in
      match w1 with
      | None => inr 9%N
      | Some w1 =>
          let w2 := match w_upc w1 s with UClosing => wstep w1 (EUnsubClose s) | _ => Some w1 end in
          match w2 with
          | None => inr 1%N
          | Some w2 =>
              if w_panic w2 then inr 7%N else
              match w_upc w2 s with
              | UDone mok => if Bool.eqb mok ok && Bool.eqb (s_closed (w_sub w2 s)) closed then inl w2 else inr 9%N
              | _ => inr 1%N
              end
          end
      end
  | WDrop resub =>
      match wstep w EClear with
      | None => inr 1%N
      | Some w1 =>
          match rc_deliver_all (S (length (w_calls w))) w1 with
          | None => inr 1%N
          | Some w2 =>
              match rc_resub w2 resub with
              | inr c => inr c
              | inl w3 => match w_hpc w3 with
                          | HIdle => inl w3
                          | _ => inr 17%N           (* a configured subscription was not re-requested *)
                          end
              end
          end
      end
  | WSubs l =>
      if natlist_eqb (sort_nat (w_conf w)) l then inl w else inr 8%N
  | WCallSendFail k o =>
      match steps w [ECallReg k; ECallSend k false; ECallRemove k] with
      | Some w1 => match w_cpc w1 k with
                   | CDone _ mo => if oout_eqb (oout_of mo) o then inl w1 else inr 15%N
                   | _ => inr 1%N
                   end
      | None => inr 1%N
      end
  | WSubBuildFail s r =>
      match steps w [ESubCfg s; ESubBuildFail s; ESubRemoveCfg s] with
      | Some w1 => match w_spc w1 s with
                   | SDone None => if (r =? 2)%N then inl w1 else inr 9%N
                   | _ => inr 1%N
                   end
      | None => inr 1%N
      end
  | WDropAbort resub s =>
      match wstep w EClear with
      | None => inr 1%N
      | Some w1 =>
          match rc_deliver_all (S (length (w_calls w))) w1 with
          | None => inr 1%N
          | Some w2 =>
              match rc_resub w2 resub with
              | inr c => inr c
              | inl w3 => match wstep w3 (ERcBuildFail s) with
                          | Some w4 => inl w4
                          | None => inr 17%N   (* s was not due (not configured / already re-requested) *)
                          end
              end
          end
      end
  | WSubSendFail s r =>
      match steps w [ESubCfg s; ESubInflight s; ESubSend s false; ESubRemoveCfg s] with
      | Some w1 => match w_spc w1 s with
                   | SDone None => if (r =? 2)%N then inl w1 else inr 9%N
                   | _ => inr 1%N
                   end
      | None => inr 1%N
      end
  end.

Fixpoint wops_run (w : wstate) (l : list wop) : N :=
  match l with
  | [] => 0%N
  | o :: t => match wop_step w o with inl w' => wops_run w' t | inr c => c end
  end.

(* ======================= cases ======================= *)
Inductive case :=
| CHttp (limit : N) (ops : list hop)
| CWs (ops : list wop).

Definition check_case (c : case) : N :=
  match c with
  | CHttp limit ops => hops_run (hinit limit) ops
  | CWs ops => wops_run winit ops
  end.

Fixpoint mismatches_go (i : N) (l : list case) : list (N * N) :=
  match l with
  | [] => []
  | c :: t => let r := check_case c in
              if (r =? 0)%N then mismatches_go (i + 1) t else (i, r) :: mismatches_go (i + 1) t
  end.
Definition mismatches (l : list case) : list (N * N) := firstn 20 (mismatches_go 0 l).
