(* Proofs about the HTTP client model: in-flight bound, unique ids, id restoration — for every finite
   event sequence (every schedule, reply order, cancellation point), any number of callers. *)
From Coq Require Import List NArith Lia Bool Arith.
From FFS Require Import WsClient.Model WsClient.Spec.
Import ListNotations.

Definition cnt {A} (g : A -> bool) (f : nat -> A) (l : list nat) : nat :=
  length (filter (fun c => g (f c)) l).

Lemma upd_same {A} (f : nat -> A) k v : upd f k v k = v.
Proof. unfold upd. rewrite Nat.eqb_refl. reflexivity. Qed.
Lemma upd_other {A} (f : nat -> A) k v x : x <> k -> upd f k v x = f x.
Proof. intros H. unfold upd. destruct (Nat.eqb_spec x k); [contradiction|reflexivity]. Qed.

Lemma cnt_upd_notin {A} (g : A -> bool) f c p l :
  ~ In c l -> cnt g (upd f c p) l = cnt g f l.
Proof.
  unfold cnt. induction l as [|a l IH]; intros Hn; [reflexivity|].
  cbn [filter]. rewrite upd_other by (intros ->; apply Hn; left; reflexivity).
  destruct (g (f a)); cbn [length]; rewrite IH; auto; intros H; apply Hn; right; exact H.
Qed.

Lemma cnt_upd_in {A} (g : A -> bool) f c p l :
  NoDup l -> In c l ->
  cnt g (upd f c p) l + (if g (f c) then 1 else 0) = cnt g f l + (if g p then 1 else 0).
Proof.
  induction l as [|a l IH]; intros Hnd Hin; [destruct Hin|].
  inversion Hnd as [|? ? Hna Hnd']; subst.
  destruct (Nat.eq_dec a c) as [->|Hne].
  - unfold cnt in *. cbn [filter]. rewrite upd_same.
    pose proof (cnt_upd_notin g f c p l Hna) as E. unfold cnt in E.
    destruct (g p), (g (f c)); cbn [length]; rewrite E; lia.
  - destruct Hin as [->|Hin]; [contradiction|].
    specialize (IH Hnd' Hin). unfold cnt in *. cbn [filter].
    rewrite upd_other by exact Hne.
    destruct (g (f a)); cbn [length]; lia.
Qed.

Lemma cnt_cons {A} (g : A -> bool) f c l :
  cnt g f (c :: l) = (if g (f c) then 1 else 0) + cnt g f l.
Proof. unfold cnt. cbn [filter]. destruct (g (f c)); reflexivity. Qed.

(* ---------- the invariant ---------- *)
Definition slot_of (p : hpc) : option bool :=
  match p with HHold b | HSent b _ | HGot b _ _ | HRet b _ => Some b | _ => None end.

Record hinv (s : hstate) : Prop := {
  hi_nodup : NoDup (h_started s);
  hi_new : forall c, ~ In c (h_started s) -> h_pc s c = HNew;
  hi_started : forall c, In c (h_started s) -> h_pc s c <> HNew;
  hi_slots : N.to_nat (h_slots s) = cnt h_holds (h_pc s) (h_started s);
  hi_le : (h_limit s > 0)%N -> (h_slots s <= h_limit s)%N;
  hi_flag : forall c b, slot_of (h_pc s c) = Some b -> b = negb (h_limit s =? 0)%N;
  hi_nowait : (h_limit s = 0)%N -> forall c, h_pc s c <> HWait;
  hi_sent_le : forall i, In i (h_sent s) -> (i <= h_ctr s)%N;
  hi_sent_nodup : NoDup (h_sent s);
  hi_sent_pc : forall c b i, h_pc s c = HSent b i \/ (exists r, h_pc s c = HGot b i r) -> In i (h_sent s);
  hi_id : forall c o, h_pc s c = HDone o \/ (exists b, h_pc s c = HRet b o) -> ho_id o = h_orig s c;
}.

Lemma hinv_init limit : hinv (hinit limit).
Proof.
  constructor; cbn; intros; try discriminate; try constructor; try contradiction; try reflexivity; try lia.
  - destruct H as [H|[? H]]; discriminate.
  - destruct H as [H|[? H]]; discriminate.
Qed.

Lemma hclassify_id orig r : ho_id (hclassify orig r) = orig.
Proof. destruct r; reflexivity. Qed.

Ltac upd_cases c c' :=
  destruct (Nat.eq_dec c' c) as [->|?]; [rewrite ?upd_same in *|rewrite ?upd_other in * by assumption].

Ltac simp_rec := cbn [h_limit h_slots h_ctr h_pc h_orig h_started h_sent hset_pc hset_slots hinit] in *.

Lemma hinv_step s e s' : hinv s -> hstep s e = Some s' -> hinv s'.
Proof.
  intros I H. destruct I. destruct e as [c orig|c|c|c|c r|c|c]; cbn [hstep] in H.
  - (* start *)
    destruct (h_pc s c) eqn:Ep; try discriminate. inversion H; subst s'; clear H.
    assert (Hnin : ~ In c (h_started s)) by (intros Hin; apply (hi_started0 c Hin); exact Ep).
    constructor; simp_rec.
    + constructor; assumption.
    + intros c' Hn. rewrite upd_other by (intros ->; apply Hn; left; reflexivity). apply hi_new0. intros Hi; apply Hn; right; exact Hi.
    + intros c' [<-|Hin]. { rewrite upd_same. destruct (h_limit s =? 0)%N; discriminate. }
      rewrite upd_other by (intros ->; contradiction). auto.
    + rewrite cnt_cons, upd_same, cnt_upd_notin by assumption.
      destruct (h_limit s =? 0)%N; cbn; lia.
    + assumption.
    + intros c' b. upd_cases c c'.
      * destruct (h_limit s =? 0)%N eqn:E; cbn; intros Hs; inversion Hs; reflexivity.
      * apply hi_flag0.
    + intros Hl c'. upd_cases c c'. { rewrite Hl. cbn. discriminate. } auto.
    + assumption.
    + assumption.
    + intros c' b i. upd_cases c c'.
      * destruct (h_limit s =? 0)%N; intros [Hx|[? Hx]]; discriminate.
      * apply hi_sent_pc0.
    + intros c' o. upd_cases c c'.
      * destruct (h_limit s =? 0)%N; intros [Hx|[? Hx]]; discriminate.
      * apply hi_id0.
  - (* acquire *)
    destruct (h_pc s c) eqn:Ep; try discriminate.
    destruct (h_slots s <? h_limit s)%N eqn:El; try discriminate. inversion H; subst s'; clear H.
    apply N.ltb_lt in El.
    assert (Hin : In c (h_started s)).
    { destruct (in_dec Nat.eq_dec c (h_started s)); auto. rewrite hi_new0 in Ep by assumption. discriminate. }
    constructor; simp_rec; auto.
    + intros c' Hn. upd_cases c c'; [contradiction|auto].
    + intros c' Hi. upd_cases c c'; [discriminate|auto].
    + pose proof (cnt_upd_in h_holds (h_pc s) c (HHold true) _ hi_nodup0 Hin) as E.
      rewrite Ep in E. cbn in E. lia.
    + intros. lia.
    + intros c' b. upd_cases c c'; [|apply hi_flag0].
      cbn. intros Hs; inversion Hs. destruct (N.eqb_spec (h_limit s) 0); [lia|reflexivity].
    + intros Hl c'. upd_cases c c'; [discriminate|auto].
    + intros c' b i. upd_cases c c'; [intros [Hx|[? Hx]]; discriminate|apply hi_sent_pc0].
    + intros c' o. upd_cases c c'; [intros [Hx|[? Hx]]; discriminate|apply hi_id0].
  - (* cancel while waiting *)
    destruct (h_pc s c) eqn:Ep; try discriminate. inversion H; subst s'; clear H.
    assert (Hin : In c (h_started s)).
    { destruct (in_dec Nat.eq_dec c (h_started s)); auto. rewrite hi_new0 in Ep by assumption. discriminate. }
    constructor; simp_rec; auto.
    + intros c' Hn. upd_cases c c'; [contradiction|auto].
    + intros c' Hi. upd_cases c c'; [discriminate|auto].
    + pose proof (cnt_upd_in h_holds (h_pc s) c (HDone (err_out (h_orig s c) codeInternal)) _ hi_nodup0 Hin) as E.
      rewrite Ep in E. cbn in E. lia.
    + intros c' b. upd_cases c c'; [discriminate|apply hi_flag0].
    + intros Hl c'. upd_cases c c'; [discriminate|auto].
    + intros c' b i. upd_cases c c'; [intros [Hx|[? Hx]]; discriminate|apply hi_sent_pc0].
    + intros c' o. upd_cases c c'; [|apply hi_id0].
      intros [Hx|[? Hx]]; [|discriminate]. inversion Hx. reflexivity.
  - (* alloc *)
    destruct (h_pc s c) eqn:Ep; try discriminate. inversion H; subst s'; clear H.
    assert (Hin : In c (h_started s)).
    { destruct (in_dec Nat.eq_dec c (h_started s)); auto. rewrite hi_new0 in Ep by assumption. discriminate. }
    constructor; simp_rec; auto.
    + intros c' Hn. upd_cases c c'; [contradiction|auto].
    + intros c' Hi. upd_cases c c'; [discriminate|auto].
    + pose proof (cnt_upd_in h_holds (h_pc s) c (HSent slot (h_ctr s + 1)) _ hi_nodup0 Hin) as E.
      rewrite Ep in E. cbn in E. destruct slot; lia.
    + intros c' b. upd_cases c c'; [|apply hi_flag0].
      cbn. intros Hs. apply hi_flag0 with (c := c). rewrite Ep. exact Hs.
    + intros Hl c'. upd_cases c c'; [discriminate|auto].
    + intros i [<-|Hi]; [lia|]. specialize (hi_sent_le0 i Hi). lia.
    + constructor; [|assumption]. intros Hi. specialize (hi_sent_le0 _ Hi). lia.
    + intros c' b i. upd_cases c c'.
      * intros [Hx|[? Hx]]; [|discriminate]. inversion Hx. left; reflexivity.
      * intros Hx. right. eapply hi_sent_pc0; eauto.
    + intros c' o. upd_cases c c'; [intros [Hx|[? Hx]]; discriminate|apply hi_id0].
  - (* reply *)
    destruct (h_pc s c) eqn:Ep; try discriminate. inversion H; subst s'; clear H.
    assert (Hin : In c (h_started s)).
    { destruct (in_dec Nat.eq_dec c (h_started s)); auto. rewrite hi_new0 in Ep by assumption. discriminate. }
    constructor; simp_rec; auto.
    + intros c' Hn. upd_cases c c'; [contradiction|auto].
    + intros c' Hi. upd_cases c c'; [discriminate|auto].
    + pose proof (cnt_upd_in h_holds (h_pc s) c (HGot slot beid r) _ hi_nodup0 Hin) as E.
      rewrite Ep in E. cbn in E. destruct slot; lia.
    + intros c' b. upd_cases c c'; [|apply hi_flag0].
      cbn. intros Hs. apply hi_flag0 with (c := c). rewrite Ep. exact Hs.
    + intros Hl c'. upd_cases c c'; [discriminate|auto].
    + intros c' b i. upd_cases c c'; [|apply hi_sent_pc0].
      intros [Hx|[r' Hx]]; [discriminate|]. inversion Hx; subst.
      eapply hi_sent_pc0. left. exact Ep.
    + intros c' o. upd_cases c c'; [intros [Hx|[? Hx]]; discriminate|apply hi_id0].
  - (* restore *)
    destruct (h_pc s c) eqn:Ep; try discriminate. inversion H; subst s'; clear H.
    assert (Hin : In c (h_started s)).
    { destruct (in_dec Nat.eq_dec c (h_started s)); auto. rewrite hi_new0 in Ep by assumption. discriminate. }
    constructor; simp_rec; auto.
    + intros c' Hn. upd_cases c c'; [contradiction|auto].
    + intros c' Hi. upd_cases c c'; [discriminate|auto].
    + pose proof (cnt_upd_in h_holds (h_pc s) c (HRet slot (hclassify (h_orig s c) r)) _ hi_nodup0 Hin) as E.
      rewrite Ep in E. cbn in E. destruct slot; lia.
    + intros c' b. upd_cases c c'; [|apply hi_flag0].
      cbn. intros Hs. apply hi_flag0 with (c := c). rewrite Ep. exact Hs.
    + intros Hl c'. upd_cases c c'; [discriminate|auto].
    + intros c' b i. upd_cases c c'; [intros [Hx|[? Hx]]; discriminate|apply hi_sent_pc0].
    + intros c' o. upd_cases c c'; [|apply hi_id0].
      intros [Hx|[b Hx]]; [discriminate|]. inversion Hx. apply hclassify_id.
  - (* release *)
    destruct (h_pc s c) eqn:Ep; try discriminate. inversion H; subst s'; clear H.
    assert (Hin : In c (h_started s)).
    { destruct (in_dec Nat.eq_dec c (h_started s)); auto. rewrite hi_new0 in Ep by assumption. discriminate. }
    assert (Hid : ho_id o = h_orig s c) by (apply hi_id0; right; eexists; exact Ep).
    pose proof (cnt_upd_in h_holds (h_pc s) c (HDone o) _ hi_nodup0 Hin) as E.
    rewrite Ep in E. cbn in E.
    assert (Hsl : N.to_nat (h_slots s) = cnt h_holds (h_pc s) (h_started s)) by assumption.
    destruct slot; (constructor; simp_rec;
      [ assumption
      | intros c' Hn; upd_cases c c'; [contradiction|auto]
      | intros c' Hi; upd_cases c c'; [discriminate|auto]
      | lia
      | intros Hl; specialize (hi_le0 Hl); lia
      | intros c' b; upd_cases c c'; [discriminate|apply hi_flag0]
      | intros Hl c'; upd_cases c c'; [discriminate|auto]
      | assumption
      | assumption
      | intros c' b i; upd_cases c c'; [intros [Hx|[? Hx]]; discriminate|apply hi_sent_pc0]
      | intros c' o'; upd_cases c c'; [|apply hi_id0];
           intros [Hx|[? Hx]]; [|discriminate]; inversion Hx; subst; exact Hid ]).
Qed.

Lemma hinv_run evs : forall s s', hinv s -> hrun evs s = Some s' -> hinv s'.
Proof.
  induction evs as [|e evs IH]; intros s s' I H; cbn in H.
  - inversion H; subst; exact I.
  - destruct (hstep s e) eqn:E; [|discriminate]. eapply IH; [|exact H]. eapply hinv_step; eauto.
Qed.

Lemma limit_const_step s e s' : hstep s e = Some s' -> h_limit s' = h_limit s.
Proof.
  destruct e; cbn [hstep]; intros H;
    repeat match type of H with
           | match ?x with _ => _ end = _ => destruct x; try discriminate
           | (if ?x then _ else _) = _ => destruct x; try discriminate
           end; inversion H; try reflexivity.
  destruct slot; reflexivity.
Qed.
Lemma limit_const_run evs : forall s s', hrun evs s = Some s' -> h_limit s' = h_limit s.
Proof.
  induction evs as [|e evs IH]; intros s s' H; cbn in H; [inversion H; reflexivity|].
  destruct (hstep s e) eqn:E; [|discriminate]. rewrite (IH _ _ H). eapply limit_const_step; eauto.
Qed.

Lemma sent_le_holds_cnt s : hinv s -> (h_limit s > 0)%N -> h_outstanding s <= h_holding s.
Proof.
  intros I Hl. unfold h_outstanding, h_holding.
  assert (forall c, h_is_sent (h_pc s c) = true -> h_holds (h_pc s c) = true).
  { intros c Hs. destruct (h_pc s c) eqn:Ep; try discriminate. cbn.
    pose proof (hi_flag s I c slot) as F. rewrite Ep in F. specialize (F eq_refl). subst.
    destruct (N.eqb_spec (h_limit s) 0); [lia|reflexivity]. }
  induction (h_started s) as [|a l IH]; [cbn; lia|]. cbn [filter].
  destruct (h_is_sent (h_pc s a)) eqn:E1.
  - rewrite (H a E1). cbn [length]. lia.
  - destruct (h_holds (h_pc s a)); cbn [length]; lia.
Qed.

(* ---- the three HTTP theorems ---- *)
Theorem http_inflight_bound :
  forall (limit : N) (evs : list hev) (s : hstate),
    (limit > 0)%N -> hrun evs (hinit limit) = Some s ->
    (* the model's count of requests at the backend never exceeds the limit, and the semaphore of the
       model is a counting semaphore in the sense of Spec.v *)
    (N.of_nat (h_outstanding s) <= limit)%N /\ sem_ok limit (h_slots s) /\ h_slots s = N.of_nat (h_holding s).
Proof.
  intros limit evs s Hl Hr.
  pose proof (hinv_run _ _ _ (hinv_init limit) Hr) as I.
  pose proof (limit_const_run _ _ _ Hr) as El. cbn in El.
  pose proof (sent_le_holds_cnt s I ltac:(lia)) as Hle.
  pose proof (hi_slots s I) as Hs. unfold cnt in Hs. fold (h_holding s) in Hs.
  pose proof (hi_le s I ltac:(lia)) as Hle2.
  unfold sem_ok. repeat split; lia.
Qed.

Theorem http_unique_ids :
  forall (limit : N) (evs : list hev) (s : hstate),
    hrun evs (hinit limit) = Some s ->
    NoDup (h_sent s) /\
    (forall c1 c2 b1 b2 i, h_pc s c1 = HSent b1 i -> h_pc s c2 = HSent b2 i -> In i (h_sent s)) /\
    alloc_injective (h_sent s).
Proof.
  intros limit evs s Hr. pose proof (hinv_run _ _ _ (hinv_init limit) Hr) as I.
  split; [exact (hi_sent_nodup s I)|]. split.
  - intros. eapply (hi_sent_pc s I). left; eauto.
  - exact (hi_sent_nodup s I).
Qed.

Theorem http_id_restored :
  forall (limit : N) (evs : list hev) (s : hstate) (c : nat) (o : hout),
    hrun evs (hinit limit) = Some s ->
    (h_pc s c = HDone o \/ exists b, h_pc s c = HRet b o) ->
    ho_id o = h_orig s c.
Proof.
  intros limit evs s c o Hr H. pose proof (hinv_run _ _ _ (hinv_init limit) Hr) as I.
  exact (hi_id s I c o H).
Qed.

