(* C18, WebSocket client: per reconnect every configured subscription is re-requested exactly once —
   proved for every event sequence in which no Subscribe() is inside its registration window at the
   moment a reconnect begins (ghost flag w_substraddle) and no websocket send fails inside
   handleReconnect; refuted without the first hypothesis. *)
From Coq Require Import List NArith Lia Bool Arith.
From FFS Require Import WsClient.Model WsClient.ProofsWsBase.
Import ListNotations.

(* number of eth_subscribe frames sent for s since the last reconnect began *)
Fixpoint sends_since_clear (s : nat) (log : list obs) : nat :=
  match log with
  | [] => 0
  | LClear :: _ => 0
  | LSendSub _ s' :: t => (if (s' =? s)%nat then 1 else 0) + sends_since_clear s t
  | _ :: t => sends_since_clear s t
  end.

(* the subscriptions handleReconnect still has to re-request *)
Definition todo (h : rcpc) : list nat :=
  match h with HCalls _ ss => ss | HSubs ss => ss | HSend s _ ss => s :: ss | HIdle => [] end.
Definition cnt_in (s : nat) (l : list nat) : nat := if nmem s l then 1 else 0.
Definition settled (p : spc) : bool := match p with SWaiting _ | SDone (Some _) => true | _ => false end.

Record invC (w : wstate) : Prop := {
  c_nd_conf : NoDup (w_conf w);
  c_nd_todo : NoDup (todo (w_hpc w));
  c_new : forall s, w_spc w s = SNew ->
            ~ In s (w_conf w) /\ ~ In s (todo (w_hpc w)) /\ sends_since_clear s (w_log w) = 0;
  c_seen : forall s, in_sub_window (w_spc w s) = true -> In s (w_subs_seen w);
  c_win : w_substraddle w = false -> forall s, in_sub_window (w_spc w s) = true ->
            ~ In s (todo (w_hpc w)) /\ sends_since_clear s (w_log w) = 0;
  c_one : w_substraddle w = false -> forall s, In s (w_conf w) -> settled (w_spc w s) = true ->
            sends_since_clear s (w_log w) + cnt_in s (todo (w_hpc w)) = 1;
}.

Lemma todo_hnorm cs ss : todo (hnorm cs ss) = ss.
Proof. destruct cs, ss; reflexivity. Qed.

Lemma cnt_in_In s l : In s l -> cnt_in s l = 1.
Proof. intros H. unfold cnt_in. apply nmem_In in H. rewrite H. reflexivity. Qed.
Lemma cnt_in_notin s l : ~ In s l -> cnt_in s l = 0.
Proof. intros H. unfold cnt_in. destruct (nmem s l) eqn:E; [apply nmem_In in E; contradiction|reflexivity]. Qed.

Lemma existsb_window_false w :
  existsb (fun s => in_sub_window (w_spc w s)) (w_subs_seen w) = false ->
  (forall s, in_sub_window (w_spc w s) = true -> In s (w_subs_seen w)) ->
  forall s, in_sub_window (w_spc w s) = true -> False.
Proof.
  intros E Hs s Hw. specialize (Hs s Hw).
  assert (existsb (fun s => in_sub_window (w_spc w s)) (w_subs_seen w) = true).
  { apply existsb_exists. exists s. auto. }
  congruence.
Qed.

Ltac split_upd :=
  repeat match goal with
  | |- context [upd _ ?k _ ?x] =>
      destruct (Nat.eq_dec x k) as [->|?]; [rewrite ?upd_same in *|rewrite ?upd_other in * by assumption]
  | H : context [upd _ ?k _ ?x] |- _ =>
      destruct (Nat.eq_dec x k) as [->|?]; [rewrite ?upd_same in *|rewrite ?upd_other in * by assumption]
  end.

Lemma cnt_in_cons_other x s ss : x <> s -> cnt_in x (s :: ss) = cnt_in x ss.
Proof. intros H. unfold cnt_in. cbn. destruct (Nat.eqb_spec x s); [contradiction|reflexivity]. Qed.
Lemma cnt_in_cons_same s ss : cnt_in s (s :: ss) = 1.
Proof. unfold cnt_in. cbn. rewrite Nat.eqb_refl. reflexivity. Qed.
Lemma cnt_in_nremove_other x s ss : x <> s -> cnt_in x (nremove s ss) = cnt_in x ss.
Proof.
  intros H. unfold cnt_in. destruct (nmem x (nremove s ss)) eqn:E1, (nmem x ss) eqn:E2; try reflexivity.
  - apply nmem_In in E1. apply In_nremove in E1. destruct E1 as [E1 _]. apply nmem_In in E1. congruence.
  - apply nmem_In in E2. assert (In x (nremove s ss)) by (apply In_nremove; auto). apply nmem_In in H0. congruence.
Qed.
Lemma In_todo_cons (x s : nat) (ss : list nat) : In x (s :: ss) <-> x = s \/ In x ss.
Proof. cbn. intuition. Qed.

Lemma todo_match ss : todo (match ss with [] => HIdle | _ :: _ => HSubs ss end) = ss.
Proof. destruct ss; reflexivity. Qed.

Lemma cnt_in_move x s ss : In s ss -> cnt_in x (s :: nremove s ss) = cnt_in x ss.
Proof.
  intros H. destruct (Nat.eq_dec x s) as [->|Hne].
  - rewrite cnt_in_cons_same. symmetry. apply cnt_in_In. exact H.
  - rewrite cnt_in_cons_other by exact Hne. apply cnt_in_nremove_other. exact Hne.
Qed.

Definition done_mark (x : nat) : Prop := True.
Ltac spec_nat Cnew Cseen Cwin Cone Hf :=
  repeat match goal with
  | x : nat |- _ =>
      lazymatch goal with
      | _ : done_mark x |- _ => fail
      | _ => pose proof (Cnew x); pose proof (Cseen x);
             try (pose proof (Cwin Hf x)); try (pose proof (Cone Hf x));
             assert (done_mark x) by exact I
      end
  end.

(* handleReconnect gives up: a websocket send fails (ERcSend false) or a request cannot even be built (ERcBuildFail) *)
Definition rc_gives_up (e : wev) : bool :=
  match e with ERcSend false | ERcBuildFail _ => true | _ => false end.

Lemma invC_step w e w' : invC w -> wstep w e = Some w' -> rc_gives_up e = false -> invC w'.
Proof.
  intros C H Hab.
  pose proof (c_new w C) as Cnew; pose proof (c_seen w C) as Cseen; pose proof (c_win w C) as Cwin;
  pose proof (c_one w C) as Cone; pose proof (c_nd_conf w C) as Cndc; pose proof (c_nd_todo w C) as Cndt.
  clear C.
  destruct e; step_cases H; cbn [rc_gives_up] in Hab; try congruence; constructor; wsimp;
    rewrite ?todo_hnorm; cbn [sends_since_clear todo]; auto.
  all: try (apply NoDup_nremove; assumption).
  all: try (intros Hf; try (apply orb_false_elim in Hf; destruct Hf as [Hf Hex])).
  all: intros.
  all: try spec_nat Cnew Cseen Cwin Cone Hf.
  all: clear Cnew Cseen Cwin Cone.
  all: split_upd.
  all: repeat match goal with E : w_spc _ _ = _ |- _ => rewrite E in *; clear E end.
  all: cbn [in_sub_window settled] in *.
  all: try discriminate.
  all: rewrite ?In_nremove, ?In_todo_cons in *.
  all: try solve [intuition (try discriminate; try lia; try congruence)].
  all: rewrite ?todo_match in *.
  all: repeat match goal with
       | |- context [(?a =? ?b)%nat] => destruct (Nat.eqb_spec a b); subst
       | H : context [(?a =? ?b)%nat] |- _ => destruct (Nat.eqb_spec a b); subst
       end.
  all: rewrite ?cnt_in_cons_same in *.
  all: repeat match goal with
       | H : ?x <> ?s |- context [cnt_in ?x (?s :: _)] => rewrite (cnt_in_cons_other x s) by exact H
       | H : ?s <> ?x |- context [cnt_in ?x (?s :: _)] => rewrite (cnt_in_cons_other x s) by congruence
       | H : ?x <> ?s |- context [cnt_in ?x (nremove ?s _)] => rewrite (cnt_in_nremove_other x s) by exact H
       | H : ?s <> ?x |- context [cnt_in ?x (nremove ?s _)] => rewrite (cnt_in_nremove_other x s) by congruence
       end.
  all: try solve [intuition (try discriminate; try lia; try congruence)].
  all: repeat match goal with
       | H : ?a = ?a -> _ |- _ => specialize (H eq_refl)
       | H : false = true -> _ |- _ => clear H
       end.
  all: try solve [intuition (try discriminate; try lia; try congruence)].
  all: try solve [intuition (rewrite ?In_nremove in *; intuition (try lia; try congruence))].
  all: repeat match goal with H : _ /\ _ |- _ => destruct H end.
  all: repeat match goal with
       | H : ~ In ?x ?l |- context [cnt_in ?x ?l] => rewrite (cnt_in_notin x l H)
       | H : In ?x ?l |- context [cnt_in ?x ?l] => rewrite (cnt_in_In x l H)
       end.
  all: try solve [intuition (try discriminate; try lia; try congruence)].
  all: try solve [exfalso; match goal with
         Hex : existsb _ (w_subs_seen ?w) = false, H : in_sub_window (w_spc ?w ?s) = true |- _ =>
           assert (existsb (fun s => in_sub_window (w_spc w s)) (w_subs_seen w) = true)
             by (apply existsb_exists; exists s; auto); congruence end].
  all: try (match goal with E0 : nmem _ _ = true |- _ => apply nmem_In in E0 end).
  all: cbn [todo] in *.
  all: try solve [rewrite ?In_nremove; intuition (subst; try tauto; try lia)].
  all: try solve [constructor; [rewrite In_nremove; tauto|apply NoDup_nremove; assumption]].
  all: try (rewrite cnt_in_move by assumption; solve [auto]).
  all: try solve [inversion Cndt; assumption].
  all: try solve [cbn [In] in *; inversion Cndt; subst; intuition (subst; try tauto; try lia)].
  - specialize (H4 H H0). rewrite cnt_in_cons_same in H4.
    inversion Cndt; subst. rewrite (cnt_in_notin s0 ss) by assumption. lia.
  - specialize (H4 H H0). rewrite cnt_in_cons_other in H4 by congruence. lia.
Qed.

Lemma invC_init : invC winit.
Proof.
  constructor; cbn; intros; try constructor; try discriminate; try contradiction; auto.
Qed.

Definition no_rc_abort (evs : list wev) : Prop := Forall (fun e => rc_gives_up e = false) evs.

Lemma invC_run evs : forall w w', invC w -> no_rc_abort evs -> wrun evs w = Some w' -> invC w'.
Proof.
  induction evs as [|e evs IH]; intros w w' C Hn H; cbn in H; [inversion H; subst; exact C|].
  destruct (wstep w e) eqn:E; [|discriminate]. inversion Hn; subst.
  eapply IH; [|assumption|exact H]. eapply invC_step; eauto.
Qed.


(* the part of the invariant that holds whether or not a send fails inside handleReconnect *)
Record invC0 (w : wstate) : Prop := {
  c0_nd_conf : NoDup (w_conf w);
  c0_nd_todo : NoDup (todo (w_hpc w));
  c0_new : forall s, w_spc w s = SNew ->
            ~ In s (w_conf w) /\ ~ In s (todo (w_hpc w)) /\ sends_since_clear s (w_log w) = 0;
  c0_seen : forall s, in_sub_window (w_spc w s) = true -> In s (w_subs_seen w);
  c0_win : w_substraddle w = false -> forall s, in_sub_window (w_spc w s) = true ->
            ~ In s (todo (w_hpc w)) /\ sends_since_clear s (w_log w) = 0;
}.

Lemma invC0_step w e w' : invC0 w -> wstep w e = Some w' -> invC0 w'.
Proof.
  intros C H.
  pose proof (c0_new w C) as Cnew; pose proof (c0_seen w C) as Cseen; pose proof (c0_win w C) as Cwin;
  pose proof I as Cone; pose proof (c0_nd_conf w C) as Cndc; pose proof (c0_nd_todo w C) as Cndt.
  clear C.
  destruct e; step_cases H; constructor; wsimp;
    rewrite ?todo_hnorm; cbn [sends_since_clear todo]; auto.
  all: try (apply NoDup_nremove; assumption).
  all: try (intros Hf; try (apply orb_false_elim in Hf; destruct Hf as [Hf Hex])).
  all: intros.
  all: try spec_nat Cnew Cseen Cwin Cone Hf.
  all: clear Cnew Cseen Cwin Cone.
  all: split_upd.
  all: repeat match goal with E : w_spc _ _ = _ |- _ => rewrite E in *; clear E end.
  all: cbn [in_sub_window settled] in *.
  all: try discriminate.
  all: rewrite ?In_nremove, ?In_todo_cons in *.
  all: try solve [intuition (try discriminate; try lia; try congruence)].
  all: rewrite ?todo_match in *.
  all: repeat match goal with
       | |- context [(?a =? ?b)%nat] => destruct (Nat.eqb_spec a b); subst
       | H : context [(?a =? ?b)%nat] |- _ => destruct (Nat.eqb_spec a b); subst
       end.
  all: rewrite ?cnt_in_cons_same in *.
  all: repeat match goal with
       | H : ?x <> ?s |- context [cnt_in ?x (?s :: _)] => rewrite (cnt_in_cons_other x s) by exact H
       | H : ?s <> ?x |- context [cnt_in ?x (?s :: _)] => rewrite (cnt_in_cons_other x s) by congruence
       | H : ?x <> ?s |- context [cnt_in ?x (nremove ?s _)] => rewrite (cnt_in_nremove_other x s) by exact H
       | H : ?s <> ?x |- context [cnt_in ?x (nremove ?s _)] => rewrite (cnt_in_nremove_other x s) by congruence
       end.
  all: try solve [intuition (try discriminate; try lia; try congruence)].
  all: repeat match goal with
       | H : ?a = ?a -> _ |- _ => specialize (H eq_refl)
       | H : false = true -> _ |- _ => clear H
       end.
  all: try solve [intuition (try discriminate; try lia; try congruence)].
  all: try solve [intuition (rewrite ?In_nremove in *; intuition (try lia; try congruence))].
  all: repeat match goal with H : _ /\ _ |- _ => destruct H end.
  all: repeat match goal with
       | H : ~ In ?x ?l |- context [cnt_in ?x ?l] => rewrite (cnt_in_notin x l H)
       | H : In ?x ?l |- context [cnt_in ?x ?l] => rewrite (cnt_in_In x l H)
       end.
  all: try solve [intuition (try discriminate; try lia; try congruence)].
  all: try solve [exfalso; match goal with
         Hex : existsb _ (w_subs_seen ?w) = false, H : in_sub_window (w_spc ?w ?s) = true |- _ =>
           assert (existsb (fun s => in_sub_window (w_spc w s)) (w_subs_seen w) = true)
             by (apply existsb_exists; exists s; auto); congruence end].
  all: try (match goal with E0 : nmem _ _ = true |- _ => apply nmem_In in E0 end).
  all: cbn [todo] in *.
  all: try solve [rewrite ?In_nremove; intuition (subst; try tauto; try lia)].
  all: try solve [constructor; [rewrite In_nremove; tauto|apply NoDup_nremove; assumption]].
  all: try (rewrite cnt_in_move by assumption; solve [auto]).
  all: try solve [inversion Cndt; assumption].
  all: try solve [cbn [In] in *; inversion Cndt; subst; intuition (subst; try tauto; try lia)].
  all: constructor.
Qed.

Lemma invC0_init : invC0 winit.
Proof.
  constructor; cbn; intros; try constructor; try discriminate; try contradiction; auto.
Qed.
Lemma invC0_run evs : forall w w', invC0 w -> wrun evs w = Some w' -> invC0 w'.
Proof.
  induction evs as [|e evs IH]; intros w w' C H; cbn in H; [inversion H; subst; exact C|].
  destruct (wstep w e) eqn:E; [|discriminate]. eapply IH; [|exact H]. eapply invC0_step; eauto.
Qed.

(* the ghost flag only ever goes up *)
Lemma substraddle_mono_step w e w' : wstep w e = Some w' -> w_substraddle w = true -> w_substraddle w' = true.
Proof. intros H Hs. destruct e; step_cases H; wsimp; try assumption. rewrite Hs. reflexivity. Qed.

Theorem ws_resubscribe_once_partial :
  forall evs w,
    wrun evs winit = Some w ->
    no_rc_abort evs ->                 (* no websocket send fails inside handleReconnect *)
    w_substraddle w = false ->         (* no reconnect began while a Subscribe() was registering *)
    forall s, In s (w_conf w) -> settled (w_spc w s) = true ->
      (* frames eth_subscribe sent for s since the reconnect began + (1 if handleReconnect still has
         s on its list) = 1; in particular exactly one once handleReconnect is done *)
      sends_since_clear s (w_log w) + cnt_in s (todo (w_hpc w)) = 1 /\
      (w_hpc w = HIdle -> sends_since_clear s (w_log w) = 1).
Proof.
  intros evs w H Hn Hf s Hin Hs.
  pose proof (invC_run _ _ _ invC_init Hn H) as C.
  pose proof (c_one w C Hf s Hin Hs) as E. split; [exact E|].
  intros Hh. rewrite Hh in E. cbn in E. lia.
Qed.

(* without the hypothesis the statement is false of the model: Subscribe() registers its
   subscription (addConfiguredSub), a reconnect snapshots it, Subscribe() goes on to send its own
   eth_subscribe, and handleReconnect sends another one — both are pending, both get confirmed *)
Definition resub_witness : list wev :=
  [ESubCfg 0; EClear; ESubInflight 0; ERcInflight 0; ERcSend true; ESubSend 0 true].

Theorem ws_resubscribe_once_refuted :
  exists evs w s,
    wrun evs winit = Some w /\ no_rc_abort evs /\ In s (w_conf w) /\ settled (w_spc w s) = true /\
    w_hpc w = HIdle /\ sends_since_clear s (w_log w) = 2 /\ length (w_pend w) = 2.
Proof.
  exists resub_witness. 
  destruct (wrun resub_witness winit) as [w|] eqn:E; [|vm_compute in E; discriminate].
  exists w, 0. split; [reflexivity|]. split.
  { unfold no_rc_abort, resub_witness. repeat constructor; discriminate. }
  assert (X : (nmem 0 (w_conf w) && settled (w_spc w 0) &&
               match w_hpc w with HIdle => true | _ => false end &&
               (sends_since_clear 0 (w_log w) =? 2)%nat && (length (w_pend w) =? 2)%nat) = true).
  { revert E. unfold resub_witness. intros E.
    assert (Some w = wrun resub_witness winit) by (symmetry; exact E).
    clear E. unfold resub_witness in H.
    transitivity (match wrun [ESubCfg 0; EClear; ESubInflight 0; ERcInflight 0; ERcSend true; ESubSend 0 true] winit with
                  | Some w => nmem 0 (w_conf w) && settled (w_spc w 0) &&
                              match w_hpc w with HIdle => true | _ => false end &&
                              (sends_since_clear 0 (w_log w) =? 2)%nat && (length (w_pend w) =? 2)%nat
                  | None => false end).
    - rewrite <- H. reflexivity.
    - vm_compute. reflexivity. }
  repeat (apply andb_prop in X; destruct X as [X ?]).
  repeat split.
  - apply nmem_In. assumption.
  - assumption.
  - destruct (w_hpc w); try discriminate. reflexivity.
  - apply Nat.eqb_eq. assumption.
  - apply Nat.eqb_eq. assumption.
Qed.

