(* C18, WebSocket client: per reconnect every configured subscription is re-requested exactly once —
   proved for every event sequence in which no Subscribe() is inside its registration window at the
   moment a reconnect begins (ghost flag w_substraddle) and no websocket send fails inside
   handleReconnect; refuted without the first hypothesis. *)
From Coq Require Import List NArith Lia Bool Arith.
From FFS Require Import WsClient.Model WsClient.ProofsWsBase.
Import ListNotations.

(* number of eth_subscribe frames sent for s since the last reconnect began *)
Fixpoint sends_since_clear (s : nat) (log : list obs) : nat :=
  match log with
  | [] => 0
  | LClear :: _ => 0
  | LSendSub _ s' :: t => (if (s' =? s)%nat then 1 else 0) + sends_since_clear s t
  | _ :: t => sends_since_clear s t
  end.

(* the subscriptions handleReconnect still has to re-request *)
Definition todo (h : rcpc) : list nat :=
  match h with HCalls _ ss => ss | HSubs ss => ss | HSend s _ ss => s :: ss | HIdle => [] end.
Definition cnt_in (s : nat) (l : list nat) : nat := if nmem s l then 1 else 0.
Definition settled (p : spc) : bool := match p with SWaiting _ | SDone (Some _) => true | _ => false end.

Record invC (w : wstate) : Prop := {
  c_nd_conf : NoDup (w_conf w);
  c_nd_todo : NoDup (todo (w_hpc w));
  c_new : forall s, w_spc w s = SNew ->
            ~ In s (w_conf w) /\ ~ In s (todo (w_hpc w)) /\ sends_since_clear s (w_log w) = 0;
  c_seen : forall s, in_sub_window (w_spc w s) = true -> In s (w_subs_seen w);
  c_win : w_substraddle w = false -> forall s, in_sub_window (w_spc w s) = true ->
            ~ In s (todo (w_hpc w)) /\ sends_since_clear s (w_log w) = 0;
  c_one : w_substraddle w = false -> forall s, In s (w_conf w) -> settled (w_spc w s) = true ->
            sends_since_clear s (w_log w) + cnt_in s (todo (w_hpc w)) = 1;
}.

Lemma todo_hnorm cs ss : todo (hnorm cs ss) = ss.
Proof. destruct cs, ss; reflexivity. Qed.

Lemma cnt_in_In s l : In s l -> cnt_in s l = 1.
Proof. intros H. unfold cnt_in. apply nmem_In in H. rewrite H. reflexivity. Qed.
Lemma cnt_in_notin s l : ~ In s l -> cnt_in s l = 0.
Proof. intros H. unfold cnt_in. destruct (nmem s l) eqn:E; [apply nmem_In in E; contradiction|reflexivity]. Qed.

Lemma existsb_window_false w :
  existsb (fun s => in_sub_window (w_spc w s)) (w_subs_seen w) = false ->
  (forall s, in_sub_window (w_spc w s) = true -> In s (w_subs_seen w)) ->
  forall s, in_sub_window (w_spc w s) = true -> False.
Proof.
  intros E Hs s Hw. specialize (Hs s Hw).
  assert (existsb (fun s => in_sub_window (w_spc w s)) (w_subs_seen w) = true).
  { apply existsb_exists. exists s. auto. }
  congruence.
Qed.

Ltac split_upd :=
  repeat match goal with
  | |- context [upd _ ?k _ ?x] =>
      destruct (Nat.eq_dec x k) as [->|?]; [rewrite ?upd_same in *|rewrite ?upd_other in * by assumption]
  | H : context [upd _ ?k _ ?x] |- _ =>
      destruct (Nat.eq_dec x k) as [->|?]; [rewrite ?upd_same in *|rewrite ?upd_other in * by assumption]
  end.

Lemma cnt_in_cons_other x s ss : x <> s -> cnt_in x (s :: ss) = cnt_in x ss.
Proof. intros H. unfold cnt_in. cbn. destruct (Nat.eqb_spec x s); [contradiction|reflexivity]. Qed.
Lemma cnt_in_cons_same s ss : cnt_in s (s :: ss) = 1.
Proof. unfold cnt_in. cbn. rewrite Nat.eqb_refl. reflexivity. Qed.
Lemma cnt_in_nremove_other x s ss : x <> s -> cnt_in x (nremove s ss) = cnt_in x ss.
Proof.
  intros H. unfold cnt_in. destruct (nmem x (nremove s ss)) eqn:E1, (nmem x ss) eqn:E2; try reflexivity.
  - apply nmem_In in E1. apply In_nremove in E1. destruct E1 as [E1 _]. apply nmem_In in E1. congruence.
  - apply nmem_In in E2. assert (In x (nremove s ss)) by (apply In_nremove; auto). apply nmem_In in H0. congruence.
Qed.
Lemma In_todo_cons x s ss : In x (s :: ss) <-> x = s \/ In x ss.
Proof. cbn. intuition. Qed.

Definition done_mark (x : nat) : Prop := True.
Ltac spec_nat Cnew Cseen Cwin Cone Hf :=
  repeat match goal with
  | x : nat |- _ =>
      lazymatch goal with
      | _ : done_mark x |- _ => fail
      | _ => pose proof (Cnew x); pose proof (Cseen x);
             try (pose proof (Cwin Hf x)); try (pose proof (Cone Hf x));
             assert (done_mark x) by exact I
      end
  end.

Lemma invC_step w e w' : invC w -> wstep w e = Some w' -> e <> ERcSend false -> invC w'.
Proof.
  intros C H Hab.
  pose proof (c_new w C) as Cnew; pose proof (c_seen w C) as Cseen; pose proof (c_win w C) as Cwin;
  pose proof (c_one w C) as Cone; pose proof (c_nd_conf w C) as Cndc; pose proof (c_nd_todo w C) as Cndt.
  clear C.
  destruct e; step_cases H; try congruence; constructor; wsimp;
    rewrite ?todo_hnorm; cbn [sends_since_clear todo]; auto.
  all: try (apply NoDup_nremove; assumption).
  all: try (intros Hf; try (apply orb_false_elim in Hf; destruct Hf as [Hf Hex])).
  all: intros.
  all: try spec_nat Cnew Cseen Cwin Cone Hf.
  all: clear Cnew Cseen Cwin Cone.
  all: split_upd.
  all: repeat match goal with E : w_spc _ _ = _ |- _ => rewrite E in *; clear E end.
  all: cbn [in_sub_window settled] in *.
  all: try discriminate.
  all: rewrite ?In_nremove, ?In_todo_cons in *.
  all: try solve [intuition (try discriminate; try lia; try congruence)].
  all: idtac "left". Show.
Abort.
