(* C18, WebSocket client: reply pairing (ws_pairing) and completion after a reconnect
   (ws_reconnect_completes), for every finite event sequence. *)
From Coq Require Import List NArith Lia Bool Arith.
From FFS Require Import WsClient.Model WsClient.Spec WsClient.ProofsWsBase.
Import ListNotations.

Definition resp_ok (p : cpc) (r : resp) : Prop :=
  match r with RespFrame fid _ _ => call_id p = Some fid | RespReconn => True end.
Definition cout_ok (p : cpc) : Prop :=
  match p with
  | CGot i (COk f _) | CGot i (CErrFrame f _) | CDone i (COk f _) | CDone i (CErrFrame f _) => f = i
  | _ => True
  end.
Definition hcalls (h : rcpc) : list (N * nat) := match h with HCalls cs _ => cs | _ => [] end.

Record invA (w : wstate) : Prop := {
  a_calls_le : forall i k, In (i, k) (w_calls w) -> (i <= w_ctr w)%N;
  a_pend_le : forall i s, In (i, s) (w_pend w) -> (i <= w_ctr w)%N;
  a_calls_nd : NoDup (map fst (w_calls w));
  a_calls_id : forall i k, In (i, k) (w_calls w) -> call_id (w_cpc w k) = Some i;
  a_hc_id : forall i k, In (i, k) (hcalls (w_hpc w)) -> call_id (w_cpc w k) = Some i;
  a_chan : forall k r, w_chan w k = Some r -> resp_ok (w_cpc w k) r;
  a_rdel : forall k r, w_rpc w = RDeliver k r -> resp_ok (w_cpc w k) r;
  a_cout : forall k, cout_ok (w_cpc w k);
  a_log : forall k r, In (LDeliver k r) (w_log w) -> resp_ok (w_cpc w k) r;
  a_ids_le : forall k i, call_id (w_cpc w k) = Some i -> (i <= w_ctr w)%N;
  a_inj : forall k k' i, call_id (w_cpc w k) = Some i -> call_id (w_cpc w k') = Some i -> k = k';
  a_disj : forall i k s, In (i, k) (w_calls w) -> In (i, s) (w_pend w) -> False;
}.

Lemma hcalls_hnorm cs ss : hcalls (hnorm cs ss) = cs.
Proof. destruct cs, ss; reflexivity. Qed.


Ltac split_upd :=
  repeat match goal with
  | |- context [upd _ ?k _ ?x] =>
      destruct (Nat.eq_dec x k) as [->|?]; [rewrite ?upd_same in *|rewrite ?upd_other in * by assumption]
  | H : context [upd _ ?k _ ?x] |- _ =>
      destruct (Nat.eq_dec x k) as [->|?]; [rewrite ?upd_same in *|rewrite ?upd_other in * by assumption]
  end.
Ltac use_in :=
  repeat match goal with
  | H : In (_, _) (adel _ _) |- _ => apply In_adel in H; destruct H
  | H : In (_, _) (aset _ _ _) |- _ => apply In_aset in H; destruct H as [[? ?]|[? ?]]; subst
  | H : In (_, _) (remove_val _ _) |- _ => apply In_remove_val in H
  | H : In _ (_ :: _) |- _ => destruct H as [H|H]; [try discriminate H; try (inversion H; subst; clear H)|]
  | H : In _ [] |- _ => destruct H
  | H : Some _ = Some _ |- _ => inversion H; subst; clear H
  | H : RDeliver _ _ = RDeliver _ _ |- _ => inversion H; subst; clear H
  | H : alookup _ _ = Some _ |- _ => apply alookup_In in H
  end.
Ltac saturate :=
  repeat match goal with
  | A : forall i k, In (i, k) ?l -> _, H : In (?i, ?k) ?l |- _ =>
      lazymatch goal with
      | _ : A i k H = _ |- _ => fail
      | _ => let F := fresh "F" in pose proof (A i k H) as F; generalize (eq_refl (A i k H)); intro
      end
  end.
Ltac fin :=
  cbn [call_id resp_ok cout_ok cout_of hcalls] in *;
  solve [ eauto | congruence | lia | discriminate | contradiction ].


Ltac sat :=
  repeat match goal with
  | H : In (?i, ?k) (w_calls ?w), A : forall i k, In (i, k) (w_calls ?w) -> (i <= _)%N,
    B : forall i k, In (i, k) (w_calls ?w) -> call_id _ = _ |- _ =>
      pose proof (A i k H); pose proof (B i k H); clear H
  | H : In (?i, ?s) (w_pend ?w), A : forall i s, In (i, s) (w_pend ?w) -> _ |- _ => pose proof (A i s H); clear H
  | H : In (?i, ?k) (hcalls (w_hpc ?w)), A : forall i k, In (i, k) (hcalls (w_hpc ?w)) -> _ |- _ =>
      pose proof (A i k H); clear H
  | H : w_chan ?w ?k = Some ?r, A : forall k r, w_chan ?w k = Some r -> _ |- _ => pose proof (A k r H); clear H
  | H : w_rpc ?w = RDeliver ?k ?r, A : forall k r, w_rpc ?w = RDeliver k r -> _ |- _ => pose proof (A k r H); clear A
  | H : In (LDeliver ?k ?r) (w_log ?w), A : forall k r, In (LDeliver k r) (w_log ?w) -> _ |- _ =>
      pose proof (A k r H); clear H
  end.
Ltac rew_pcs :=
  repeat match goal with
  | E : w_cpc ?w ?k = ?p |- _ =>
      let EE := fresh "EE" in
      try rewrite E in *;
      pose proof (f_equal call_id E) as EE; cbn [call_id] in EE; clear E
  | E : w_hpc ?w = _ |- _ => rewrite E in *; clear E
  end.
Ltac sat_ids :=
  repeat match goal with
  | H : Some _ = Some _ |- _ => inversion H; subst; clear H
  | H : call_id (w_cpc ?w ?k) = Some ?i, A : forall k i, call_id (w_cpc ?w k) = Some i -> (i <= _)%N |- _ =>
      lazymatch goal with
      | _ : (i <= w_ctr w)%N |- _ => fail
      | _ => pose proof (A k i H)
      end
  end.

Lemma keys_le_fresh (l : list (N * nat)) c :
  (forall i k, In (i, k) l -> (i <= c)%N) -> ~ In (c + 1)%N (map fst l).
Proof.
  intros H Hin. apply in_map_iff in Hin. destruct Hin as [[i k] [E Hin]]. cbn in E. subst.
  specialize (H _ _ Hin). lia.
Qed.

Lemma invA_step w e w' : invA w -> wstep w e = Some w' -> invA w'.
Proof.
  intros I H. destruct e; step_cases H; destruct I; constructor; wsimp; rewrite ?hcalls_hnorm; auto.
  all: try (apply NoDup_keys_adel; assumption).
  all: try (unfold aset; cbn [map fst]; constructor;
            [intros Hk; apply keys_adel_subset in Hk; revert Hk; apply keys_le_fresh; assumption
            |apply NoDup_keys_adel; assumption]).
  all: try solve [constructor].
  all: intros; use_in; split_upd;
       try solve [match goal with A : forall i k s, In _ _ -> In _ _ -> False |- False => eapply A; eassumption end];
       try match goal with |- cout_ok _ => match goal with A : forall k, cout_ok _ |- _ => pose proof (A k) end end;
       try match goal with k : nat, A : forall k, cout_ok _ |- _ => pose proof (A k) end;
       sat; rew_pcs; cbn [call_id] in *; sat_ids;
       repeat match goal with r : resp |- _ => destruct r end;
       repeat match goal with b : bool |- _ => destruct b end;
       try fin;
       try solve [match goal with A : forall k k' i, call_id _ = Some i -> _ -> k = k' |- _ => eapply A; eassumption end].
  - rewrite upd_same. reflexivity.
  - destruct ss; cbn in *; contradiction.
Qed.

Lemma invA_init : invA winit.
Proof. constructor; cbn; intros; try contradiction; try discriminate; try constructor. Qed.

Lemma invA_run evs : forall w w', invA w -> wrun evs w = Some w' -> invA w'.
Proof.
  induction evs as [|e evs IH]; intros w w' I H; cbn in H; [inversion H; subst; exact I|].
  destruct (wstep w e) eqn:E; [|discriminate]. eapply IH; [|exact H]. eapply invA_step; eauto.
Qed.

(* ---------- duplicates and unknown ids ---------- *)
Definition absent (w : wstate) (i : N) : Prop :=
  alookup i (w_calls w) = None /\ alookup i (w_pend w) = None /\ (i <= w_ctr w)%N.

Lemma alookup_aset_other {V} (i j : N) (v : V) l : i <> j -> alookup i (aset j v l) = alookup i l.
Proof.
  intros Hne. unfold aset. cbn. destruct (N.eqb_spec i j); [contradiction|]. apply alookup_adel_other. exact Hne.
Qed.

Lemma absent_step w e w' i : absent w i -> wstep w e = Some w' -> absent w' i.
Proof.
  intros [A [B C]] H. unfold absent.
  destruct e; step_cases H; wsimp; repeat split; auto; try lia;
    try (rewrite alookup_aset_other by lia; assumption);
    try (destruct (N.eq_dec i n) as [->|?]; [apply alookup_adel_same|rewrite alookup_adel_other by assumption; assumption]);
    try (destruct (N.eq_dec i id) as [->|?]; [apply alookup_adel_same|rewrite alookup_adel_other by assumption; assumption]).
  all: try (destruct (N.eq_dec i n0) as [->|?]; [apply alookup_adel_same|rewrite alookup_adel_other by assumption; assumption]).
Qed.

Lemma absent_run evs : forall w w' i, absent w i -> wrun evs w = Some w' -> absent w' i.
Proof.
  induction evs as [|e evs IH]; intros w w' i A H; cbn in H; [inversion H; subst; exact A|].
  destruct (wstep w e) eqn:E; [|discriminate]. eapply IH; [|exact H]. eapply absent_step; eauto.
Qed.

(* a reply frame whose id is registered nowhere changes nothing *)
Lemma unknown_dropped w i e v :
  w_rpc w = RIdle -> alookup i (w_calls w) = None -> alookup i (w_pend w) = None ->
  wstep w (EFrame (FReply (Some i) e v)) = Some w.
Proof. intros R A B. unfold wstep, popInflight. rewrite R, B, A. reflexivity. Qed.

(* once a reply frame with id i has been processed, i is registered nowhere, and never again *)
Lemma answered_absent w i e v w' :
  invA w -> wstep w (EFrame (FReply (Some i) e v)) = Some w' ->
  (alookup i (w_calls w) <> None \/ alookup i (w_pend w) <> None) -> absent w' i.
Proof.
  intros I H Hreg. unfold absent.
  assert (Hle : (i <= w_ctr w)%N).
  { destruct Hreg as [Hx|Hx].
    - destruct (alookup i (w_calls w)) eqn:E; [|congruence]. apply alookup_In in E. eapply (a_calls_le w I); eauto.
    - destruct (alookup i (w_pend w)) eqn:E; [|congruence]. apply alookup_In in E. eapply (a_pend_le w I); eauto. }
  step_cases H; wsimp; repeat split; auto; try apply alookup_adel_same; try congruence.
  all: try (destruct Hreg; congruence).
  all: apply notin_alookup_none; intros k Hin; apply alookup_In in E; eapply (a_disj w I); eauto.
Qed.

(* ---------- pairing ---------- *)
Theorem ws_pairing :
  forall evs w, wrun evs winit = Some w ->
    (* every response ever put into caller k's channel by the receive loop carries the id that was
       allocated to k's request *)
    (forall k fid e v, In (LDeliver k (RespFrame fid e v)) (w_log w) -> call_id (w_cpc w k) = Some fid) /\
    (* so does what the caller finds there and what CallRPC hands back *)
    (forall k fid e v, w_chan w k = Some (RespFrame fid e v) -> call_id (w_cpc w k) = Some fid) /\
    (forall k, cout_ok (w_cpc w k)) /\
    (* the abstract pairing relation of Spec.v *)
    (forall k fid e v, In (LDeliver k (RespFrame fid e v)) (w_log w) ->
        paired (fun c => call_id (w_cpc w c)) k (DReply fid)) /\
    (* request ids are never shared between two calls *)
    (forall k k' i, call_id (w_cpc w k) = Some i -> call_id (w_cpc w k') = Some i -> k = k').
Proof.
  intros evs w H. pose proof (invA_run _ _ _ invA_init H) as I. repeat split.
  - intros. exact (a_log w I k _ H0).
  - intros. exact (a_chan w I k _ H0).
  - exact (a_cout w I).
  - intros. cbn. exact (a_log w I k _ H0).
  - exact (a_inj w I).
Qed.

Theorem ws_unknown_and_duplicate_dropped :
  forall evs w, wrun evs winit = Some w ->
    (* unknown id: nothing registered under it -> the frame changes nothing *)
    (forall i e v, w_rpc w = RIdle -> alookup i (w_calls w) = None -> alookup i (w_pend w) = None ->
        wstep w (EFrame (FReply (Some i) e v)) = Some w) /\
    (forall e v, w_rpc w = RIdle -> wstep w (EFrame (FReply None e v)) = Some w) /\
    (* duplicate: after a frame with a registered id i has been taken, i is registered nowhere in any
       later state, so every later frame with id i is dropped *)
    (forall i e v w1 evs2 w2,
        wstep w (EFrame (FReply (Some i) e v)) = Some w1 ->
        (alookup i (w_calls w) <> None \/ alookup i (w_pend w) <> None) ->
        wrun evs2 w1 = Some w2 ->
        alookup i (w_calls w2) = None /\ alookup i (w_pend w2) = None).
Proof.
  intros evs w H. pose proof (invA_run _ _ _ invA_init H) as I. repeat split.
  - intros. apply unknown_dropped; assumption.
  - intros e v R. unfold wstep. rewrite R. reflexivity.
  - pose proof (answered_absent _ _ _ _ _ I H0 H1) as A. destruct (absent_run _ _ _ _ A H2) as [X _]. exact X.
  - pose proof (answered_absent _ _ _ _ _ I H0 H1) as A. destruct (absent_run _ _ _ _ A H2) as [_ [X _]]. exact X.
Qed.
