(* C18, WebSocket client, routing of notifications with the NARROWED guard (file 1 of 4: invariant and the
   table fields).  ProofsWsRouting.v proves the ownership clauses for histories in which no reconnect begins
   while the receive loop is inside ANY frame (ghost flag w_straddle).  Since the repair 8f787ed the
   confirmation window is harmless: addActiveSub refuses a confirmation that popInflight matched on an earlier
   connection (w_gen).  Here the invariant is restated relative to the connection generation - a pending
   RConfirm s x tell g constrains the tables only while g = w_gen w, and [quietG] ignores a stale one - so
   that the only reconnects that have to be excluded are those that begin while the receive loop is between
   getActiveSub and the hand-over select of a notification (RNotify). *)
From Coq Require Import List NArith Lia Bool Arith.
From FFS Require Import WsClient.Model WsClient.Spec WsClient.ProofsWsBase WsClient.ProofsWsPairing
  WsClient.ProofsWsResub WsClient.ProofsWsRouting.
Import ListNotations.

Definition is_notify (p : rpc) : bool := match p with RNotify _ _ _ => true | _ => false end.

(* the receive loop is working on s with a claim that is still valid on the CURRENT connection *)
Definition r_on_g (gen : N) (p : rpc) (s : nat) : bool :=
  match p with
  | RConfirm s' _ _ g => (s' =? s)%nat && (g =? gen)%N
  | RNotify s' _ _ => (s' =? s)%nat
  | _ => false
  end.
Definition quietG (w : wstate) (s : nat) : Prop :=
  no_act w s /\ no_pend w s /\ r_on_g (w_gen w) (w_rpc w) s = false.

Record invG (w : wstate) : Prop := {
  g_act : forall x s, In (x, s) (w_act w) -> s_cur (w_sub w s) = Some x /\ w_upc w s = UNew;
  g_pend_noact : forall i s, In (i, s) (w_pend w) -> no_act w s;
  g_early : forall s, early (w_spc w s) = true -> quietG w s;
  g_todo : forall s, In s (todo' (w_hpc w)) -> quietG w s;
  g_conf : forall s x t g, w_rpc w = RConfirm s x t g -> g = w_gen w -> no_act w s /\ no_pend w s;
  g_gen : forall s x t g, w_rpc w = RConfirm s x t g -> (g <= w_gen w)%N;
  g_uniq : forall i i' s, In (i, s) (w_pend w) -> In (i', s) (w_pend w) -> i = i';
  g_confU : forall s, In s (w_conf w) -> w_upc w s = UNew;
  g_newU : forall s, w_spc w s = SNew -> w_upc w s = UNew;
  g_notify : forall s x t, w_rpc w = RNotify s x t -> notify_ok w s;
  g_closed : forall s, s_closed (w_sub w s) = true -> w_upc w s = UDone true;
  g_log : forall s, In (LUnsubRet s) (w_log w) -> w_upc w s = UDone true;
  g_panic : w_panic w = false;
  g_late : no_late (w_log w);
}.

Ltac open_invG IA IC D :=
  pose proof (g_act _ D) as Dact; pose proof (g_pend_noact _ D) as Dpn; pose proof (g_early _ D) as Dearly;
  pose proof (g_todo _ D) as Dtodo; pose proof (g_conf _ D) as Dconf; pose proof (g_gen _ D) as Dgen;
  pose proof (g_uniq _ D) as Duniq;
  pose proof (g_confU _ D) as DconfU; pose proof (g_newU _ D) as DnewU; pose proof (g_notify _ D) as Dnotify;
  pose proof (g_closed _ D) as Dclosed; pose proof (g_log _ D) as Dlog; pose proof (g_panic _ D) as Dpanic;
  pose proof (g_late _ D) as Dlate;
  pose proof (a_chan _ IA) as Achan; pose proof (a_pend_le _ IA) as Aple;
  pose proof (c0_new _ IC) as Cnew; pose proof (c0_win _ IC) as Cwin;
  unfold quietG, no_act, no_pend in *.

Ltac startG IA IC D H e :=
  open_invG IA IC D; clear D;
  destruct e; step_cases H; wsimp.

(* Hs1 : e = EClear -> is_notify (w_rpc w) = false *)
Ltac flagsG Hs1 Hs2 :=
  try (specialize (Hs1 eq_refl);
       match type of Hs1 with is_notify (w_rpc ?w) = false =>
         let Erpc := fresh "Erpc" in
         destruct (w_rpc w) eqn:Erpc; cbn [is_notify] in Hs1; try discriminate Hs1 end);
  try (apply orb_false_elim in Hs2; destruct Hs2 as [Hs2 Hex]).

Ltac gen_eqs :=
  repeat match goal with
  | E : (?a =? ?b)%N = true |- _ => apply N.eqb_eq in E; try subst a
  | E : (?a =? ?b)%N = false |- _ => apply N.eqb_neq in E
  end.

Ltac simp_g :=
  cbn [r_on_g] in *;
  rewrite ?N.eqb_refl, ?andb_true_r, ?andb_false_r in *;
  repeat match goal with
  | G : (?g <= ?h)%N |- context [(?g =? ?h + 1)%N] =>
      replace (g =? h + 1)%N with false by (symmetry; apply N.eqb_neq; lia)
  | G : (?g <= ?h)%N, H : ?g = (?h + 1)%N |- _ => exfalso; lia
  | G : ?g <> ?h, H : ?g = ?h |- _ => exfalso; exact (G H)
  end;
  rewrite ?andb_false_r in *.

Lemma g_act_step w e w' :
  invA w -> invC0 w -> (e = EClear -> is_notify (w_rpc w) = false) -> w_substraddle w' = false -> invG w -> wstep w e = Some w' ->
  forall x s, In (x, s) (w_act w') -> s_cur (w_sub w' s) = Some x /\ w_upc w' s = UNew.
Proof.
  intros IA IC Hs1 Hs2 D H. startG IA IC D H e; flagsG Hs1 Hs2; gen_eqs;
    intros x0 s0 Hin; unfold clear_subs in *; use_in; split_upd; wsimp; sat_in; sat_nat; rew_all; simp_hyps; simp_g; simp_hyps;
    try fin.
  all: rewrite ?upd_same in *; wsimp; try fin.
Qed.

Lemma g_pend_noact_step w e w' :
  invA w -> invC0 w -> (e = EClear -> is_notify (w_rpc w) = false) -> w_substraddle w' = false -> invG w -> wstep w e = Some w' ->
  forall i s, In (i, s) (w_pend w') -> no_act w' s.
Proof.
  intros IA IC Hs1 Hs2 D H. startG IA IC D H e; flagsG Hs1 Hs2; gen_eqs;
    intros i0 s0 Hin x0 Hact; unfold clear_subs in *; use_in; split_upd; wsimp; sat_in; sat_nat; rew_all; simp_hyps; simp_g; simp_hyps;
    try fin.
  all: rewrite ?upd_same in *; wsimp; try fin.
Qed.

Lemma g_uniq_step w e w' :
  invA w -> invC0 w -> (e = EClear -> is_notify (w_rpc w) = false) -> w_substraddle w' = false -> invG w -> wstep w e = Some w' ->
  forall i i' s, In (i, s) (w_pend w') -> In (i', s) (w_pend w') -> i = i'.
Proof.
  intros IA IC Hs1 Hs2 D H. startG IA IC D H e; flagsG Hs1 Hs2; gen_eqs;
    intros i0 i1 s0 Hin Hin'; unfold clear_subs in *; use_in; split_upd; wsimp; sat_in; sat_nat; rew_all; simp_hyps; simp_g; simp_hyps;
    try fin.
  all: rewrite ?upd_same in *; wsimp; try fin.
Qed.

Lemma g_conf_step w e w' :
  invA w -> invC0 w -> (e = EClear -> is_notify (w_rpc w) = false) -> w_substraddle w' = false -> invG w -> wstep w e = Some w' ->
  forall s x t g, w_rpc w' = RConfirm s x t g -> g = w_gen w' -> no_act w' s /\ no_pend w' s.
Proof.
  intros IA IC Hs1 Hs2 D H. startG IA IC D H e; flagsG Hs1 Hs2; gen_eqs;
    intros s0 x0 t0 g0 Hr Hg; try discriminate Hr; unfold clear_subs in *;
    (split; [intros x1 Hin|intros i1 Hin]);
    use_in; split_upd; wsimp; sat_in; sat_nat; rew_all; simp_hyps; simp_g; simp_hyps;
    try fin.
  all: rewrite ?upd_same in *; wsimp; try fin.
Qed.

Lemma g_gen_step w e w' :
  invG w -> wstep w e = Some w' ->
  forall s x t g, w_rpc w' = RConfirm s x t g -> (g <= w_gen w')%N.
Proof.
  intros D H. pose proof (g_gen _ D) as Dgen. clear D.
  destruct e; step_cases H; wsimp; intros s0 x0 t0 g0 Hr; try discriminate Hr; use_in; try lia; eauto.
  all: try (specialize (Dgen _ _ _ _ Hr); lia).
  all: try congruence.
  all: try (inversion Hr; subst; lia).
Qed.
