# short 0x texts take a strconv fast path whose result is converted through int64 (wraps from 2^63)
p='pkg/ethtypes/integer_parsing.go'; s=open(p).read()
a='	i, ok := new(big.Int).SetString(s, 0)'
assert a in s
s=s.replace(a,'''	if strings.HasPrefix(s, "0x") && len(s) <= 18 {
		if u, err := strconv.ParseUint(s[2:], 16, 64); err == nil {
			return big.NewInt(int64(u)), nil
		}
	}
	i, ok := new(big.Int).SetString(s, 0)''')
for imp in ('"strings"','"strconv"'):
    if imp not in s:
        s=s.replace('import (','import (\n\t'+imp,1)
open(p,'w').write(s)
