# hex prefix stripped with TrimLeft (eats leading zero digits)
p='pkg/abi/inputparsing.go'; s=open(p).read()
a='vt = strings.TrimPrefix(vt, "0x")'
assert a in s
s=s.replace(a,'vt = strings.TrimLeft(vt, "0x")')
open(p,'w').write(s)
