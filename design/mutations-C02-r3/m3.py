# count word of a dynamic array written as one byte
p='pkg/abi/abiencode.go'; s=open(p).read()
a='big.NewInt(int64(len(cv.Children))).FillBytes(data[0:32])'
assert a in s
s=s.replace(a,'data[31] = byte(len(cv.Children))')
open(p,'w').write(s)
