# ParameterArray.TypeComponentTreeCtx caches the tuple wrapper, keyed by the first Parameter object and the length
p='pkg/abi/abi.go'; s=open(p).read()
a='''func (pa ParameterArray) TypeComponentTreeCtx(ctx context.Context) (tc TypeComponent, err error) {
	component := &typeComponent{'''
assert a in s
s=s.replace(a,'''var paWrapperCache sync.Map

type paWrapperKey struct {
	first *Parameter
	n     int
}

func (pa ParameterArray) TypeComponentTreeCtx(ctx context.Context) (tc TypeComponent, err error) {
	if len(pa) > 0 {
		key := paWrapperKey{pa[0], len(pa)}
		if c, ok := paWrapperCache.Load(key); ok {
			return c.(*typeComponent), nil
		}
		defer func() {
			if err == nil {
				paWrapperCache.Store(key, tc)
			}
		}()
	}
	component := &typeComponent{''')
if '"sync"' not in s:
    s=s.replace('import (','import (\n\t"sync"',1)
open(p,'w').write(s)
