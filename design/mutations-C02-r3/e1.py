# Validate returns early when the parameter has already been parsed
p='pkg/abi/abi.go'; s=open(p).read()
a='''func (p *Parameter) ValidateCtx(ctx context.Context) (err error) {
	p.parsed, err = p.parseABIParameterComponents(ctx)'''
assert a in s
s=s.replace(a,'''func (p *Parameter) ValidateCtx(ctx context.Context) (err error) {
	if p.parsed != nil {
		return nil
	}
	p.parsed, err = p.parseABIParameterComponents(ctx)''')
open(p,'w').write(s)
