# getInterfaceArray: typed slices whose elements are pointers are dereferenced one level too far (nil element for *big.Int)
p='pkg/abi/inputparsing.go'; s=open(p).read()
a='			iArray[i] = iv.Index(i).Interface()'
assert a in s
s=s.replace(a,'''			e := iv.Index(i)
			if e.Kind() == reflect.Ptr && !e.IsNil() && e.Elem().Kind() == reflect.Struct {
				iArray[i] = e.Elem().Interface()
			} else {
				iArray[i] = e.Interface()
			}''')
open(p,'w').write(s)
