# named integer kinds above int32 converted through int32 (only reached via the ConvertibleTo fall-back)
p='pkg/abi/inputparsing.go'; s=open(p).read()
a='return reflect.ValueOf(v).Convert(int64Type).Interface().(int64), true'
assert a in s
s=s.replace(a,'return int64(int32(reflect.ValueOf(v).Convert(int64Type).Int())), true')
open(p,'w').write(s)
