# small results are returned in a shared buffer
p='pkg/abi/abiencode.go'; s=open(p).read()
a='''	data, _, err := cv.encodeABIData(ctx, "")
	return data, err'''
assert a in s
s=s.replace(a,'''	data, _, err := cv.encodeABIData(ctx, "")
	if err == nil && len(data) <= len(smallResult) {
		n := copy(smallResult[:], data)
		return smallResult[:n], nil
	}
	return data, err''')
s=s.replace('func (cv *ComponentValue) EncodeABIData() ([]byte, error) {','var smallResult [64]byte\n\nfunc (cv *ComponentValue) EncodeABIData() ([]byte, error) {')
open(p,'w').write(s)
