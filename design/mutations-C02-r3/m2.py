# shared scratch big.Int for the two's complement (not safe for concurrent use)
p='pkg/abi/signedi256.go'; s=open(p).read()
a='tcI := new(big.Int).And(i, fullBits256)'
assert a in s
s=s.replace(a,'tcI := scratchI256.And(i, fullBits256)')
s=s.replace('var posMax =','var scratchI256 = new(big.Int)\nvar posMax =')
open(p,'w').write(s)
