# members of a tuple reuse their own cache only when the cached tree has the same elementary base name (subtle variant of the seed)
p='pkg/abi/typecomponents.go'; s=open(p).read()
a='			if tc.tupleChildren[i], err = c.parseABIParameterComponents(ctx); err != nil {'
assert a in s
s=s.replace(a,'''			if c.parsed != nil && c.parsed.cType == ElementaryComponent && strings.HasPrefix(c.Type, string(c.parsed.elementaryType.name)) && !strings.Contains(c.Type, "[") {
				tc.tupleChildren[i] = c.parsed
				continue
			}
			if tc.tupleChildren[i], err = c.parseABIParameterComponents(ctx); err != nil {''')
open(p,'w').write(s)
