# in-place two's complement: writes into the caller's *big.Int
p='pkg/abi/signedi256.go'; s=open(p).read()
a='tcI := new(big.Int).And(i, fullBits256)'
assert a in s
s=s.replace(a,'tcI := i.And(i, fullBits256)')
open(p,'w').write(s)
