# harmless: float fast path with the correct strict bound (must NOT raise an alarm)
p='pkg/abi/inputparsing.go'; s=open(p).read()
a='	i, _ := new(big.Float).SetFloat64(f).Int(nil)\n	return i, nil'
assert a in s
s=s.replace(a,'	if math.Abs(f) < (1 << 63) {\n		return big.NewInt(int64(f)), nil\n	}\n'+a)
open(p,'w').write(s)
