# tuple object: a missing named key falls back to the positional key
p='pkg/abi/inputparsing.go'; s=open(p).read()
a='''		v, ok := iMap[keyName]
		if !ok {'''
assert a in s
s=s.replace(a,'''		v, ok := iMap[keyName]
		if !ok {
			v, ok = iMap[strconv.Itoa(i)]
		}
		if !ok {''')
open(p,'w').write(s)
