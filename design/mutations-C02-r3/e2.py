# package-level memo of parsed trees keyed by the type string and the name only (components ignored)
p='pkg/abi/typecomponents.go'; s=open(p).read()
a='''func (p *Parameter) parseABIParameterComponents(ctx context.Context) (tc *typeComponent, err error) {
	abiTypeString := p.Type
'''
assert a in s
s=s.replace(a,'''var parsedMemo sync.Map

func (p *Parameter) parseABIParameterComponents(ctx context.Context) (tc *typeComponent, err error) {
	memoKey := p.Type + "|" + p.Name
	if m, ok := parsedMemo.Load(memoKey); ok {
		return m.(*typeComponent), nil
	}
	defer func() {
		if err == nil {
			parsedMemo.Store(memoKey, tc)
		}
	}()
	abiTypeString := p.Type
''')
s=s.replace('import (','import (\n\t"sync"',1)
open(p,'w').write(s)
