# dynamic bytes: length word through uint16
p='pkg/abi/abiencode.go'; s=open(p).read()
a='_ = big.NewInt(int64(len(value))).FillBytes(data[0:32])'
assert a in s
s=s.replace(a,'_ = big.NewInt(int64(uint16(len(value)))).FillBytes(data[0:32])')
open(p,'w').write(s)
