# negative integers: two's complement computed in place on the caller's *big.Int (encode path only)
p='pkg/abi/abiencode.go'; s=open(p).read()
a='	return SerializeInt256TwosComplementBytes(i), false, nil'
assert a in s
s=s.replace(a,'''	if i.Sign() < 0 {
		// two's complement of a negative number is 2^256 + i
		return i.Add(i, oneMoreThanMaxUint256).FillBytes(make([]byte, 32)), false, nil
	}
	return SerializeInt256TwosComplementBytes(i), false, nil''')
open(p,'w').write(s)
