# type tree cache keyed by the type strings (names ignored) in ParameterArray.TypeComponentTreeCtx
p='pkg/abi/abi.go'; s=open(p).read()
a='''func (pa ParameterArray) TypeComponentTreeCtx(ctx context.Context) (tc TypeComponent, err error) {
	component := &typeComponent{'''
assert a in s
s=s.replace(a,'''var paTreeCache sync.Map

func paCacheKey(pa ParameterArray) string {
	sb := new(strings.Builder)
	var w func(ps ParameterArray)
	w = func(ps ParameterArray) {
		sb.WriteByte('(')
		for _, p := range ps {
			sb.WriteString(p.Type)
			w(p.Components)
			sb.WriteByte(',')
		}
		sb.WriteByte(')')
	}
	w(pa)
	return sb.String()
}

func (pa ParameterArray) TypeComponentTreeCtx(ctx context.Context) (tc TypeComponent, err error) {
	key := paCacheKey(pa)
	if c, ok := paTreeCache.Load(key); ok {
		return c.(*typeComponent), nil
	}
	defer func() {
		if err == nil {
			paTreeCache.Store(key, tc)
		}
	}()
	component := &typeComponent{''')
if '"sync"' not in s:
    s=s.replace('import (','import (\n\t"sync"',1)
open(p,'w').write(s)
