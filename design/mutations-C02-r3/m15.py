# decode of T[] temporarily turns the (cached, shared) component into a fixed array; not restored on the error path
p='pkg/abi/abidecode.go'; s=open(p).read()
a='''	cv = &ComponentValue{
		Component: component,
		Children:  make([]*ComponentValue, arrayLength),
	}
	for i := 0; i < arrayLength; i++ {'''
assert s.count(a)==1
s=s.replace(a,'''	cv = &ComponentValue{
		Component: component,
		Children:  make([]*ComponentValue, arrayLength),
	}
	// the elements are laid out exactly like those of a fixed array of this length
	component.cType, component.arrayLength = FixedArrayComponent, arrayLength
	defer func() {
		if err == nil {
			component.cType, component.arrayLength = DynamicArrayComponent, 0
		}
	}()
	for i := 0; i < arrayLength; i++ {''')
open(p,'w').write(s)
