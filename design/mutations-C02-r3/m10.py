# pointer inputs: the value behind a pointer is read once and cached by address
p='pkg/abi/inputparsing.go'; s=open(p).read()
a='''	if val.Kind() == reflect.Ptr && !val.IsNil() {
		return val.Elem().Interface()
	}'''
assert a in s
s=s.replace(a,'''	if val.Kind() == reflect.Ptr && !val.IsNil() {
		if val.Elem().Kind() == reflect.Ptr {
			return nil
		}
		return val.Elem().Interface()
	}''')
open(p,'w').write(s)
