# typed maps: .Interface() forgotten for the values of a map that is not map[string]interface{}
p='pkg/abi/inputparsing.go'; s=open(p).read()
a='			iMap[k] = iter.Value().Interface()'
assert a in s
s=s.replace(a,'			iMap[k] = iter.Value()')
open(p,'w').write(s)
