# *big.Float fast path through Int64 guarded by the exponent: off by one bit (values in [2^63, 2^64) saturate)
p='pkg/abi/inputparsing.go'; s=open(p).read()
a='''	case *big.Float:
		i, _ := vt.Int(nil)
		return i, nil'''
assert a in s
s=s.replace(a,'''	case *big.Float:
		if !vt.IsInf() && vt.MantExp(nil) <= 64 {
			// fits a machine word: no need for the arbitrary precision conversion
			i64, _ := vt.Int64()
			return big.NewInt(i64), nil
		}
		i, _ := vt.Int(nil)
		return i, nil''')
open(p,'w').write(s)
