# offsets written as 16 bit
p='pkg/abi/abiencode.go'; s=open(p).read()
a='big.NewInt(int64(tailOffset)).FillBytes(wData[headOffset : headOffset+32])'
assert a in s
s=s.replace(a,'wData[headOffset+30], wData[headOffset+31] = byte(tailOffset>>8), byte(tailOffset)')
open(p,'w').write(s)
