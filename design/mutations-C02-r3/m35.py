# encode releases the children of a value tree once they are written (second encode of the same tree differs)
p='pkg/abi/abiencode.go'; s=open(p).read()
a='''			copy(wData[headOffset:], cData[i])
			headOffset += len(cData[i])
		}
	}
	return data, dynamic, nil'''
assert a in s
s=s.replace(a,'''			copy(wData[headOffset:], cData[i])
			headOffset += len(cData[i])
		}
	}
	if len(cv.Children) > 16 {
		cv.Children = cv.Children[:16:16] // large arrays: keep only a window, the encoded form is authoritative
	}
	return data, dynamic, nil''')
open(p,'w').write(s)
