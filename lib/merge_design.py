#!/usr/bin/env python3
"""merge_design.py — (re)inserts design/asbuilt/<ID>.txt into DESIGN.md §6 (between markers, idempotent)
and regenerates §11 (table of seeded changes from seeded/*/meta.json)."""
import glob, json, os, re
ROOT = os.path.dirname(os.path.dirname(os.path.abspath(__file__)))
p = os.path.join(ROOT, "DESIGN.md")
s = open(p, encoding="utf-8").read()
# 1. as-built paragraphs
for f in sorted(glob.glob(os.path.join(ROOT, "design", "asbuilt", "C*.txt"))):
    pid = os.path.basename(f)[:-4]
    body = open(f, encoding="utf-8").read().strip()
    block = "<!-- asbuilt:%s -->\n%s\n<!-- /asbuilt:%s -->\n" % (pid, body, pid)
    pat = re.compile(r"<!-- asbuilt:%s -->.*?<!-- /asbuilt:%s -->\n" % (pid, pid), re.S)
    if pat.search(s):
        s = pat.sub(lambda m: block, s)
        continue
    m = re.search(r"^### %s — .*$" % pid, s, re.M)
    if not m:
        print("no section for", pid); continue
    nxt = re.compile(r"^(### C\d\d — |## \d+\. |-{20,}$)", re.M).search(s, m.end())
    pos = nxt.start() if nxt else len(s)
    s = s[:pos].rstrip("\n") + "\n\n" + block + "\n" + s[pos:]
# 2. seeded-change table
rows = []
for d in sorted(glob.glob(os.path.join(ROOT, "seeded", "*"))):
    mp = os.path.join(d, "meta.json")
    if not os.path.exists(mp):
        continue
    m = json.load(open(mp))
    name = os.path.basename(d)
    det = m.get("detected_by_check")
    tier = m.get("detected_in_tier") or ""
    later = m.get("detected_after_strengthening")
    status = ("caught (%s)" % tier) if det else ("**missed** at first" + ("; caught after: " + later if later else ""))
    summ = " ".join(str(m.get("summary", "")).split())
    if len(summ) > 230:
        summ = summ[:227] + "…"
    note = " ".join(str(m.get("coordinator_note", "")).split())
    rc = [r for r in m.get("rechecks", []) if r.get("tier") == "quick"]
    if m.get("applies_to_current_head") is False:
        final = "patch superseded by a later `fix:` commit (no longer applies)"
    elif rc:
        r = rc[-1]
        final = ("caught, concrete input" if r.get("concrete_failing_input") else "caught, no-failing-input-found") if r.get("detected") else "**not caught**"
    else:
        final = "—"
    rows.append("| %s | %s | %s | %s | %s | %s |" % (name, m.get("property", ""), summ.replace("|", "\\|"), status, note.replace("|", "\\|")[:160], final))
sec = ["## 11. Seeded changes: which check catches which", "",
       "Each change was written by an independent agent that saw only the property text and a scratch worktree of",
       "/repo (never /verif); each compiles, passes the repository's own tests, and comes with a demonstration test",
       "that fails with the change and passes without it (all re-confirmed by the coordinator, `lib/try_seed.sh`).",
       "`caught` = `VERIF_REPO=<tree with the change> ./check <ID> --tier quick` printed a VIOLATION line; the column",
       "next to it is the check's own summary line for that run. Files: `seeded/<name>/{patch.diff, zz_seed_demo_test.go, meta.json}`.",
       "The last column is the re-run of every kept seed against the final machinery and /repo HEAD (`lib/recheck_seed.sh`,",
       "recorded in `meta.json` under `rechecks`): *concrete input* = the VIOLATION line names a replay file with a failing input,",
       "*no-failing-input-found* = only a proof obligation or the correspondence broke.", "",
       "| seed | property | change | result | check summary | final re-run |", "|---|---|---|---|---|---|"] + rows + [""]
sec = "\n".join(sec)
pat = re.compile(r"^## 11\. Seeded changes.*?(?=^## \d+\. |\Z)", re.S | re.M)
if pat.search(s):
    s = pat.sub(lambda m: sec + "\n", s)
else:
    s = s.rstrip("\n") + "\n\n---------------------------------------------------------------------------------------------------\n\n" + sec + "\n"
open(p, "w", encoding="utf-8").write(s)
print("DESIGN.md: merged", len(glob.glob(os.path.join(ROOT, "design", "asbuilt", "C*.txt"))), "as-built paragraphs,", len(rows), "seeds")

# 3. disposition of defects (from KNOWN_FINDINGS.json + known_findings.d)
def load_findings():
    out = []
    for f in [os.path.join(ROOT, "KNOWN_FINDINGS.json")] + sorted(glob.glob(os.path.join(ROOT, "known_findings.d", "*.json"))):
        try:
            out += json.load(open(f)).get("findings", [])
        except Exception as e:
            print("unreadable", f, e)
    return out
fs = load_findings()
seen = set()
lines = ["### 7.1 Disposition as built (generated from KNOWN_FINDINGS.json)", "",
         "**Known findings (genuine defects recorded, not repaired)** — the check prints `KNOWN-FINDING:` for each and still",
         "reports any other violation of the same property (entries are matched by the narrow classifier key):", ""]
for k in fs:
    if k.get("status") == "known" and (k["property"], k["key"]) not in seen:
        seen.add((k["property"], k["key"]))
        lines.append("* `%s` (%s) — witness: %s. %s" % (k["key"], k["property"], k.get("witness", "see design/%s.md" % k["property"]), k.get("what", "")))
lines += ["", "**Repaired by `fix:` commits in /repo** (one defect per commit, unedited suite passes; `fixed:` entries suppress nothing — the",
          "witnesses stay in the harness corpora, so a regression is reported again):", "",
          "| commit | property | what failed |", "|---|---|---|"]
bycommit = {}
for k in fs:
    if k.get("status") == "fixed":
        bycommit.setdefault(k.get("commit", "?"), {"props": [], "what": k.get("what", "")})["props"].append(k["property"])
for c, v in bycommit.items():
    lines.append("| %s | %s | %s |" % (c, ", ".join(sorted(set(v["props"]))), v["what"].replace("|", "\\|")))
lines.append("")
sec7 = "\n".join(lines)
pat7 = re.compile(r"^### 7\.1 Disposition as built.*?(?=^-{20,}$)", re.S | re.M)
s = open(p, encoding="utf-8").read()
if pat7.search(s):
    s = pat7.sub(lambda m: sec7 + "\n", s)
else:
    m8 = re.search(r"^-{20,}\n\n## 8\. Interface", s, re.M)
    s = s[:m8.start()] + sec7 + "\n" + s[m8.start():]
open(p, "w", encoding="utf-8").write(s)
print("DESIGN.md: §7.1 regenerated,", len(seen), "known,", len(bycommit), "fix commits")

# 4. false-alarm experiments (refactors/*)
rrows = []
for d in sorted(glob.glob(os.path.join(ROOT, "refactors", "*"))):
    rp = os.path.join(d, "result.txt")
    if not os.path.exists(rp):
        continue
    meta = {}
    if os.path.exists(os.path.join(d, "meta.json")):
        try:
            meta = json.load(open(os.path.join(d, "meta.json")))
        except Exception:
            meta = {}
    res = []
    for l in open(rp):
        m = re.match(r"^(C\d\d): (.*)$", l.strip())
        if m:
            alarm = "VIOLATION" in m.group(2).split("[re-run")[0]
            nf = "no-failing-input-found" in m.group(2).split("[re-run")[0]
            res.append("%s %s%s" % (m.group(1), ("**alarm (obligation broken, no failing input)**" if nf else "**ALARM**") if alarm else "green", " (re-run; first run alarmed)" if "[re-run" in m.group(2) else ""))
    summ = " ".join(str(meta.get("summary", "")).split())
    if len(summ) > 260:
        summ = summ[:257] + "…"
    follow = ""
    fp = os.path.join(d, "followup.txt")
    if os.path.exists(fp):
        follow = " ".join(open(fp).read().split())
    rrows.append("| %s | %s | %s | %s |" % (os.path.basename(d), summ.replace("|", "\\|"), "; ".join(res), follow.replace("|", "\\|")))
sec12 = "\n".join([
    "## 12. False-alarm experiments: behaviour-preserving refactors", "",
    "Independent agents (property text + scratch worktree only) wrote realistic behaviour-preserving refactors of the",
    "anchored files (renames, extracted/inlined helpers, reordered independent statements, loops rewritten, error and log",
    "wording changed, buffers handled differently; suite passes unedited). `lib/try_refactor.sh` runs every check whose",
    "property is anchored in a changed package against the refactored tree; all must stay green. `alarm (obligation broken,",
    "no failing input)` is the brief's `VIOLATION … no-failing-input-found` case — a translator or a model/implementation",
    "projection that the rewrite disturbed; each such case was analysed and the machinery corrected (last column).",
    "Files: `refactors/<name>/{patch.diff, meta.json, result.txt}`.", "",
    "| refactor | what was changed | checks run → result | follow-up |", "|---|---|---|---|"] + rrows + [""])
s = open(p, encoding="utf-8").read()
pat12 = re.compile(r"^## 12\. False-alarm experiments.*?(?=^## \d+\. |\Z)", re.S | re.M)
if pat12.search(s):
    s = pat12.sub(lambda m: sec12 + "\n", s)
else:
    s = s.rstrip("\n") + "\n\n" + sec12 + "\n"
open(p, "w", encoding="utf-8").write(s)
print("DESIGN.md: §12 regenerated,", len(rrows), "refactors")
