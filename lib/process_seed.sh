#!/bin/bash
# process_seed.sh <worktree> <seed-name> <property> [tier] — coordinator helper: try_seed.sh + keep_seed.py
# (kept whether detected or not, provided the seed itself is confirmed: builds, suite passes, demo fails
# with / passes without the change), then removes the scratch worktree.
wt=$1; name=$2; prop=$3; tier=${4:-quick}
log=/tmp/seedlog-$name.txt
bash /verif/lib/try_seed.sh "$wt" "$name" "$prop" "$tier" > $log 2>&1
grep -v WARNING $log | sed -n '/== demo with/,$p'
suite_fail=$(sed -n '/== suite/,/== demo with/p' $log | grep -c '^FAIL\|^--- FAIL')
demo_with=$(sed -n '/== demo with/,/== demo without/p' $log | grep -c '^FAIL')
demo_without=$(sed -n '/== demo without/,/== check/p' $log | grep -c '^ok')
if [ "$suite_fail" != 0 ] || [ "$demo_with" = 0 ] || [ "$demo_without" = 0 ]; then echo "SEED NOT CONFIRMED (suite_fail=$suite_fail demo_with=$demo_with demo_without=$demo_without) — not kept"; exit 1; fi
det=no; grep -q "^VIOLATION property=$prop" $log && det=yes
note=$(grep -E "^$prop $tier:" $log | tail -1)
python3 /verif/lib/keep_seed.py "$wt" "$name" "$prop" $det $tier "$note" 2>&1 | grep -v WARNING
echo "DETECTED=$det"
