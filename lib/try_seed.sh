#!/bin/bash
# try_seed.sh <worktree> <seed-name> <property> [tier]   — coordinator helper.
# Confirms a seeded change (builds, package tests pass with it, demonstration fails with / passes
# without it), runs ./check <property> against the worktree, and keeps it under /verif/seeded/<seed-name>/.
set -u
wt=$1; name=$2; prop=$3; tier=${4:-quick}
export GOFLAGS=-mod=mod GOPROXY=off GOSUMDB=off GOTOOLCHAIN=local
cd "$wt" || exit 2
[ -s patch.diff ] || { echo "no patch.diff"; exit 2; }
# the tracked source state is exactly HEAD + patch.diff (guards against stash mix-ups between concurrent seeders)
git checkout -q -- . && git apply patch.diff || { echo "patch.diff does not apply to HEAD"; exit 2; }
demo=$(git status --porcelain | awk '/^\?\?/ && /seed_demo_test.go/ {print $2}' | head -1)
[ -n "$demo" ] || { echo "no demo test"; exit 2; }
pkg=./$(dirname "$demo")
echo "== build"; go build ./... || { echo "BUILD FAILS"; exit 3; }
echo "== suite with the change (demo skipped)"; go test -vet=off -count=1 -skip TestSeedDemo ./... 2>&1 | grep -v "no test files" | tail -25
echo "== demo with the change (must FAIL)"; go test -vet=off -count=1 -run TestSeedDemo "$pkg" 2>&1 | tail -3
git apply -R patch.diff
echo "== demo without the change (must PASS)"; go test -vet=off -count=1 -run TestSeedDemo "$pkg" 2>&1 | tail -2
git apply patch.diff
# the demo file must not influence the check's harness build (it is a _test.go file, so it does not)
echo "== check"; cd /verif; VERIF_REPO="$wt" ./check "$prop" --tier "$tier" 2>&1 | tail -8
