#!/bin/bash
# rerun_refactor.sh <name> <ID>... — re-run selected checks against the stored refactor refactors/<name>/patch.diff;
# appends the outcome to refactors/<name>/result.txt as "<ID> (re-run …): …"
name=$1; shift
d=/verif/refactors/$name; wt=/tmp/rerun-$name
git -C /repo worktree remove --force $wt 2>/dev/null
git -C /repo worktree add -q --detach $wt main && git -C $wt apply $d/patch.diff || { echo "patch does not apply"; exit 2; }
cd /verif
for p in "$@"; do
  out=$(VERIF_REPO=$wt ./check $p --tier quick 2>&1 | grep -v WARNING | grep -E "^VIOLATION|^$p quick" | tr '\n' ' ')
  echo "$p: $out"
  # replace the first-run line, keep it as history
  python3 - "$d/result.txt" "$p" "$out" <<'PY'
import sys,re
path,p,out=sys.argv[1:4]
lines=open(path).read().split("\n")
new=[]
for l in lines:
    if l.startswith(p+": ") and "first run:" not in l:
        new.append("%s: %s   [re-run after the machinery was corrected; first run: %s]"%(p,out.strip(),l[len(p)+2:].strip()[:200].replace("VIOLATION","alarm")))
    else:
        new.append(l)
open(path,"w").write("\n".join(new))
PY
done
git -C /repo worktree remove --force $wt
