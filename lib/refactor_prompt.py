#!/usr/bin/env python3
"""refactor_prompt.py <ID> <worktree> -> prompt for an independent agent that makes a HARMLESS refactor
(the property still holds); used to test the checks for false alarms."""
import json, sys, os
pid, wt = sys.argv[1], sys.argv[2]
p = [json.loads(l) for l in open('/verif/properties.jsonl') if json.loads(l)['id'] == pid][0]
files = p['anchors']['files']
print(f"""You are testing a verification tool for FALSE ALARMS. Work ONLY inside the git worktree {wt} (a checkout of the Go project hyperledger/firefly-signer). Do not read or touch /verif or /repo. Offline Go env for every shell command: `export GOFLAGS=-mod=mod GOPROXY=off GOSUMDB=off GOTOOLCHAIN=local`. Never use `git stash`.

A property that holds of this code base and must KEEP holding (id {pid}; anchored in: {', '.join(files)}):

Title: {p['title']}
Statement: {p['statement']}

Your task: make a realistic, behaviour-preserving refactor of moderate size (30-120 changed lines) in the anchored non-test Go files — the kind of clean-up a maintainer merges without a second thought: rename local variables and unexported helpers, extract a helper function or inline one, reorder independent statements, replace a loop by an equivalent one, restructure if/else into early returns or a switch, change the WORDING of error messages and log lines (keep which inputs are errors and which succeed; keep the FF error codes/message keys if the code uses them), add comments, change internal buffer handling without changing results, hoist a constant. The observable behaviour (returned values, which inputs are rejected, bytes produced, ordering guarantees, locking discipline and what is protected by which mutex, what is sent to whom) must be EXACTLY the same and the property above must still hold. Do not change exported identifiers or signatures. The project must compile (`go build ./...`) and the whole existing test suite must pass unedited (`go test -vet=off -count=1 ./...`).

Deliver inside the worktree: the source change left uncommitted; `git diff > patch.diff` at the worktree root; and a file `REFACTOR_META.json`: {{"property":"{pid}","summary":"what was refactored","why_harmless":"…","files":[…],"tests_pass":true}}. Report in at most 8 lines.""")
