#!/bin/bash
# try_refactor.sh <worktree> <name> — false-alarm experiment: a behaviour-preserving refactor written by an
# independent agent; every check whose property is anchored in a changed file (or in its package) is run
# against the worktree and must stay green.  Kept under /verif/refactors/<name>/.
wt=$1; name=$2
export GOFLAGS=-mod=mod GOPROXY=off GOSUMDB=off GOTOOLCHAIN=local
cd "$wt" || exit 2
[ -s patch.diff ] || git diff > patch.diff
git checkout -q -- . && git apply patch.diff || { echo "patch does not apply"; exit 2; }
go build ./... || { echo "BUILD FAILS"; exit 3; }
fails=$(go test -vet=off -count=1 ./... 2>&1 | grep -c '^FAIL\|^--- FAIL')
echo "suite failures: $fails"
files=$(git diff --name-only)
props=$(python3 - "$files" <<'PY'
import json,sys,os
ch=sys.argv[1].split()
dirs={os.path.dirname(f) for f in ch}
out=[]
for l in open('/verif/properties.jsonl'):
    p=json.loads(l)
    if any(os.path.dirname(a) in dirs for a in p['anchors']['files']): out.append(p['id'])
print(" ".join(out))
PY
)
echo "changed: $files"; echo "checks: $props"
d=/verif/refactors/$name; mkdir -p $d; cp patch.diff $d/; [ -f REFACTOR_META.json ] && cp REFACTOR_META.json $d/meta.json
: > $d/result.txt
echo "suite failures with the refactor: $fails" >> $d/result.txt
cd /verif
for p in $props; do
  out=$(VERIF_REPO="$wt" ./check $p --tier quick 2>&1 | grep -v WARNING | grep -E "^VIOLATION|^$p quick" | tr '\n' ' ')
  echo "$p: $out" | tee -a $d/result.txt
  if echo "$out" | grep -q VIOLATION; then mkdir -p $d/replay-$p; tag=$(python3 -c "import hashlib,sys;print(hashlib.sha1(sys.argv[1].encode()).hexdigest()[:8])" "$wt"); rm -rf $d/replay-$p/*; cp -r .build/alt_$tag/replay/$p/* $d/replay-$p/ 2>/dev/null; fi
done
