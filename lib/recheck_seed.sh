#!/bin/bash
# recheck_seed.sh <seed-name> [tier] — re-run the check of a kept seed against a fresh scratch tree with its patch;
# records the outcome in seeded/<name>/meta.json (field rechecks; detected_after_strengthening when it was a miss).
name=$1; tier=${2:-quick}
d=/verif/seeded/$name; prop=$(python3 -c "import json;print(json.load(open('$d/meta.json'))['property'])")
wt=/tmp/recheck-$name; git -C /repo worktree remove --force $wt 2>/dev/null
git -C /repo worktree add -q --detach $wt main && git -C $wt apply $d/patch.diff || { echo "$name: patch does not apply"; exit 2; }
out=$(cd /verif && VERIF_REPO=$wt ./check $prop --tier $tier 2>&1 | grep -v WARNING | grep -E "^VIOLATION|^$prop $tier" )
det=no; echo "$out" | grep -q "^VIOLATION property=$prop" && det=yes
nfi=no; echo "$out" | grep "^VIOLATION" | grep -vq "no-failing-input-found" && nfi=yes
summary=$(echo "$out" | grep "^$prop $tier" | tail -1)
python3 - "$d/meta.json" "$det" "$nfi" "$tier" "$summary" <<'PY'
import json,sys,subprocess
p,det,conc,tier,summary=sys.argv[1:6]
m=json.load(open(p))
head=subprocess.run(["git","-C","/verif","rev-parse","--short","HEAD"],stdout=subprocess.PIPE).stdout.decode().strip()
m.setdefault("rechecks",[]).append({"verif_commit_base":head,"tier":tier,"detected":det=="yes","concrete_failing_input":conc=="yes","summary":summary})
if det=="yes" and not m.get("detected_by_check"):
    m["detected_after_strengthening"]="%s tier (%s)"%(tier,summary)
json.dump(m,open(p,"w"),indent=1)
PY
echo "$name: detected=$det concrete=$nfi | $summary"
git -C /repo worktree remove --force $wt
