#!/usr/bin/env python3
"""seed_prompt.py <ID> <worktree> [focus hint]  -> prints the prompt given to an independent seeding agent.
The agent gets only the property text and its scratch worktree (nothing from /verif)."""
import json, sys, os
pid, wt = sys.argv[1], sys.argv[2]
hint = sys.argv[3] if len(sys.argv) > 3 else ""
p = [json.loads(l) for l in open('/verif/properties.jsonl') if json.loads(l)['id'] == pid][0]
files = p['anchors']['files']
pkgs = sorted({"./" + os.path.dirname(f) + "/..." for f in files})
print(f"""You are testing a verification tool by planting a realistic bug. Work ONLY inside the git worktree {wt} (a checkout of the Go project hyperledger/firefly-signer: Ethereum ABI/RLP/EIP-712 encoding, secp256k1 signing, Keystore V3 wallets, a JSON-RPC signing proxy). Do not read or touch /verif or /repo. Offline Go env for every shell command: `export GOFLAGS=-mod=mod GOPROXY=off GOSUMDB=off GOTOOLCHAIN=local`.

The property that should hold of this code base (id {pid}; mainly anchored in: {', '.join(files)}):

Title: {p['title']}
Statement: {p['statement']}
Quantified over: {p['quantifier']['text']}

Your task: make ONE small, realistic change to the non-test Go source (the kind of slip a developer could make in a refactor or "optimisation": an off-by-one in a guard, a wrong constant, a dropped or weakened check, a swapped branch or field, a mishandled boundary, a lock released too early, a reordered step, an error swallowed) that BREAKS this property, while (a) the whole project still compiles (`go build ./...`), and (b) the existing tests still pass unedited (`go test -vet=off -count=1 {' '.join(pkgs)}` — and ideally the whole suite `go test -vet=off -count=1 ./...`, about a minute). Ask for nothing that ordinary use would expose at once: the change must need something specific to manifest (a particular interleaving, a fault at a particular point, a multi-step sequence of operations, an unusual input or boundary value, or two cooperating sites that each look fine alone). {hint}

Deliver, inside the worktree: (1) the source change itself (leave it uncommitted in the working tree); (2) a demonstration: a Go test file named `zz_seed_demo_test.go` in the most relevant package (test function TestSeedDemo; it may need several steps/goroutines) that FAILS with your change and PASSES on the original code — verify both (run it with your change; then write `git diff > patch.diff`, undo the source change with `git apply -R patch.diff` keeping the untracked demo file, run again, and restore it with `git apply patch.diff`; do NOT use `git stash` — the stash is shared with other worktrees of this repository); (3) a file `SEED_META.json` at the worktree root: {{"property":"{pid}","summary":"…","needs":"what specific input/condition/interleaving is needed to manifest","files":[…],"commands_run":[…],"existing_tests_pass":true}}. Finally run, at the worktree root, `git diff > patch.diff` (tracked source changes only; the demo test is untracked so it is not included). Report in at most 10 lines: what you changed, why it breaks the property, and the evidence (demo fails with / passes without the change; existing tests pass).""")
