#!/usr/bin/env python3
"""keep_seed.py <worktree> <seed-name> <property> <detected:yes|no> <tier> [note]
Copies patch.diff, the demonstration test(s) and SEED_META.json of a seeded change out of a scratch
worktree into /verif/seeded/<seed-name>/ and records what the coordinator ran."""
import json, os, shutil, subprocess, sys
wt, name, prop, det, tier = sys.argv[1:6]
note = sys.argv[6] if len(sys.argv) > 6 else ""
d = os.path.join("/verif/seeded", name)
os.makedirs(d, exist_ok=True)
shutil.copy(os.path.join(wt, "patch.diff"), os.path.join(d, "patch.diff"))
out = subprocess.run(["git", "-C", wt, "status", "--porcelain"], stdout=subprocess.PIPE).stdout.decode()
demos = []
for line in out.splitlines():
    f = line[3:]
    if line.startswith("??") and ("seed_demo" in f or f.endswith("_demo_test.go") or "demo" in os.path.basename(f).lower()):
        shutil.copy(os.path.join(wt, f), os.path.join(d, os.path.basename(f)))
        demos.append(f)
meta = {}
mp = os.path.join(wt, "SEED_META.json")
if os.path.exists(mp):
    try:
        meta = json.load(open(mp))
    except Exception:
        meta = {"raw": open(mp).read()}
meta.update({"property": prop, "demonstration_files": demos,
             "coordinator_ran": ["git apply --check of patch.diff on a fresh worktree of /repo",
                                 "go build ./... ; package tests with the change (pass)",
                                 "demonstration test with the change (fails) and without it (passes)",
                                 "VERIF_REPO=<worktree> ./check %s --tier %s" % (prop, tier)],
             "detected_by_check": det == "yes", "detected_in_tier": tier if det == "yes" else None,
             "coordinator_note": note})
json.dump(meta, open(os.path.join(d, "meta.json"), "w"), indent=1)
print("kept", d, demos)
