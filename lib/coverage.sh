#!/bin/bash
# coverage.sh <ID> [tier]  — statement coverage of /repo's packages by the Go harness of one property
# (implementation side of the correspondence run only; Coq is not involved).  Development aid: shows
# which statements of the anchored functions the generator never reaches.  Output under .build/cov/<ID>/.
set -u
id=$1; tier=${2:-quick}; lc=$(echo $id | tr A-Z a-z)
export GOFLAGS=-mod=mod GOPROXY=off GOSUMDB=off GOTOOLCHAIN=local
M=github.com/hyperledger/firefly-signer
PK="$M/pkg/abi,$M/pkg/eip712,$M/pkg/ethsigner,$M/pkg/ethtypes,$M/pkg/ffi2abi,$M/pkg/fswallet,$M/pkg/keystorev3,$M/pkg/rlp,$M/pkg/rpcbackend,$M/pkg/secp256k1,$M/internal/rpcserver"
d=/verif/.build/cov/$id; rm -rf $d; mkdir -p $d/data $d/out
[ -f /verif/.build/mod/go.mod ] || { echo "run ./check --setup first"; exit 2; }
race=""; python3 -c "import json,sys; sys.exit(0 if json.load(open('/verif/props/$id.json')).get('race') else 1)" && race="-race"
cd /verif/harness && CGO_ENABLED=$([ -n "$race" ] && echo 1 || echo 0) go build -modfile=/verif/.build/mod/go.mod -tags verif $race 2>&1 -cover -coverpkg=$PK,verifharness/cmd/$lc -o $d/h ./cmd/$lc | grep -v "^warning: no packages" ; [ -x $d/h ] || exit 2
cd /verif && GOCOVERDIR=$d/data VERIF_COVERPKG=$PK,$M/ffsigner VERIF_SEED=${VERIF_SEED:-1} VERIF_REPO=/repo VERIF_ROOT=/verif timeout 3000 $d/h -out $d/out -tier $tier > $d/harness.log 2>&1
echo "harness rc=$?"
go tool covdata textfmt -i=$d/data -o $d/cov.txt 2>/dev/null
python3 - $d/cov.txt $id <<'PY'
import sys,re,json,collections
cov=collections.defaultdict(dict)
for l in open(sys.argv[1]):
    m=re.match(r'(.*):(\d+)\.(\d+),(\d+)\.(\d+) (\d+) (\d+)',l)
    if not m: continue
    f=m.group(1).replace('github.com/hyperledger/firefly-signer/','')
    k=(int(m.group(2)),int(m.group(4)),int(m.group(6)))
    cov[f][k]=max(cov[f].get(k,0),int(m.group(7)))
p=[json.loads(l) for l in open('/verif/properties.jsonl') if json.loads(l)['id']==sys.argv[2]][0]
anch=p['anchors']['files']
for f in sorted(cov):
    tot=sum(k[2] for k in cov[f]); hit=sum(k[2] for k,c in cov[f].items() if c>0)
    if hit==0 and f not in anch: continue
    mark='*' if f in anch else ' '
    print("%s %-45s %4d/%4d %5.1f%%"%(mark,f,hit,tot,100.0*hit/max(tot,1)))
    if f in anch:
        miss=sorted((k[0],k[1]) for k,c in cov[f].items() if c==0)
        print("      uncovered lines:", ", ".join("%d-%d"%m if m[0]!=m[1] else str(m[0]) for m in miss))
PY
