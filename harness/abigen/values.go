package abigen

import (
	"bytes"
	"encoding/hex"
	"encoding/json"
	"fmt"
	"math"
	"math/big"
	"sort"
	"strings"

	"github.com/hyperledger/firefly-signer/pkg/abi"
)

// Value is a (not necessarily well-typed) value of a Type: a number (uint, int, address as uint160,
// bool as 0/1, fixed/ufixed as the scaled integer value*10^N), a byte string (bytes<M>, bytes,
// string, function) or a sequence (arrays, tuples).
type Value struct {
	T     *Type
	Num   *big.Int
	Bytes []byte
	Elems []*Value
}

func pow2(k int) *big.Int { return new(big.Int).Lsh(big.NewInt(1), uint(k)) }

// Range returns [lo, hi] of a numeric type.
func (t *Type) Range() (lo, hi *big.Int) {
	one := big.NewInt(1)
	switch t.Kind {
	case Uint, Ufixed:
		return big.NewInt(0), new(big.Int).Sub(pow2(t.M), one)
	case Int, Fixed:
		return new(big.Int).Neg(pow2(t.M - 1)), new(big.Int).Sub(pow2(t.M-1), one)
	case Address:
		return big.NewInt(0), new(big.Int).Sub(pow2(160), one)
	case Bool:
		return big.NewInt(0), big.NewInt(1)
	}
	return nil, nil
}

// WellTyped mirrors Spec.well_typed.
func (v *Value) WellTyped() bool {
	t := v.T
	switch t.Kind {
	case Uint, Int, Address, Bool, Fixed, Ufixed:
		lo, hi := t.Range()
		return v.Num != nil && v.Num.Cmp(lo) >= 0 && v.Num.Cmp(hi) <= 0
	case BytesN:
		return len(v.Bytes) == t.M
	case Function:
		return len(v.Bytes) == 24
	case Bytes, String:
		return true
	case FixedArr:
		if len(v.Elems) != t.Len {
			return false
		}
	case Tuple:
		if len(v.Elems) != len(t.Fields) {
			return false
		}
	}
	for _, e := range v.Elems {
		if !e.WellTyped() {
			return false
		}
	}
	return true
}

// CoqZ prints an integer as a Coq Z term.
func CoqZ(z *big.Int) string {
	if z.Sign() < 0 {
		return "(" + z.String() + ")%Z"
	}
	return z.String() + "%Z"
}

// CoqVal prints the spec-side `val` term.
func (v *Value) CoqVal() string {
	switch {
	case v.T.Kind <= Ufixed:
		return "(VNum " + CoqZ(v.Num) + ")"
	case v.T.IsElementary():
		return "(VBytes " + CoqBytes(v.Bytes) + ")"
	}
	p := make([]string, len(v.Elems))
	for i, e := range v.Elems {
		p[i] = e.CoqVal()
	}
	return "(VList [" + strings.Join(p, "; ") + "])"
}

// Describe gives a short JSON-ish description for replay files.
func (v *Value) Describe() string {
	switch {
	case v.T.Kind <= Ufixed:
		return v.Num.String()
	case v.T.IsElementary():
		if len(v.Bytes) > 40 {
			return fmt.Sprintf("\"0x%s...(%d bytes)\"", hex.EncodeToString(v.Bytes[:40]), len(v.Bytes))
		}
		return "\"0x" + hex.EncodeToString(v.Bytes) + "\""
	}
	p := make([]string, len(v.Elems))
	for i, e := range v.Elems {
		p[i] = e.Describe()
	}
	return "[" + strings.Join(p, ",") + "]"
}

// ------------------------------------------------------------------------------------------------
// External values: a neutral mirror of Abi/InputModel.v `ext`
// ------------------------------------------------------------------------------------------------

type XKind int

const (
	XNil XKind = iota
	XJNum
	XStr
	XBool
	XBigInt
	XBigFloat
	XF64
	XF32
	XInt
	XBytes
	XList
	XMap
	XOther
)

// sized integer kinds, named as in InputModel.v
var IntKinds = []string{"KInt64", "KInt32", "KInt16", "KInt8", "KInt", "KUint64", "KUint32", "KUint16", "KUint8", "KUint"}

type Ext struct {
	Kind  XKind
	Text  string     // XJNum, XStr
	Bool  bool       // XBool
	Big   *big.Int   // XBigInt (nil = typed nil pointer), XInt value
	Float *big.Float // XBigFloat
	F     float64    // XF64, XF32
	IKind string     // XInt: one of IntKinds
	Bytes []byte     // XBytes
	List  []*Ext     // XList
	Keys  []string   // XMap (parallel to Vals, distinct)
	Vals  []*Ext
	Repr  string // which representation the generator chose (statistics)
}

// IntKindRange gives the range of a sized Go integer kind.
func IntKindRange(k string) (lo, hi *big.Int) {
	s := func(bits int) (*big.Int, *big.Int) {
		return new(big.Int).Neg(pow2(bits - 1)), new(big.Int).Sub(pow2(bits-1), big.NewInt(1))
	}
	u := func(bits int) (*big.Int, *big.Int) { return big.NewInt(0), new(big.Int).Sub(pow2(bits), big.NewInt(1)) }
	switch k {
	case "KInt64", "KInt":
		return s(64)
	case "KInt32":
		return s(32)
	case "KInt16":
		return s(16)
	case "KInt8":
		return s(8)
	case "KUint64", "KUint":
		return u(64)
	case "KUint32":
		return u(32)
	case "KUint16":
		return u(16)
	default:
		return u(8)
	}
}

// Go builds the Go value tree handed to ParseExternalData / EncodeABIDataValues.
func (x *Ext) Go() interface{} {
	switch x.Kind {
	case XNil:
		return nil
	case XJNum:
		return json.Number(x.Text)
	case XStr:
		return x.Text
	case XBool:
		return x.Bool
	case XBigInt:
		if x.Big == nil {
			return (*big.Int)(nil)
		}
		return new(big.Int).Set(x.Big)
	case XBigFloat:
		return new(big.Float).Copy(x.Float)
	case XF64:
		return x.F
	case XF32:
		return float32(x.F)
	case XInt:
		switch x.IKind {
		case "KInt64":
			return x.Big.Int64()
		case "KInt32":
			return int32(x.Big.Int64())
		case "KInt16":
			return int16(x.Big.Int64())
		case "KInt8":
			return int8(x.Big.Int64())
		case "KInt":
			return int(x.Big.Int64())
		case "KUint64":
			return x.Big.Uint64()
		case "KUint32":
			return uint32(x.Big.Uint64())
		case "KUint16":
			return uint16(x.Big.Uint64())
		case "KUint8":
			return uint8(x.Big.Uint64())
		default:
			return uint(x.Big.Uint64())
		}
	case XBytes:
		return append([]byte{}, x.Bytes...)
	case XList:
		l := make([]interface{}, len(x.List))
		for i, e := range x.List {
			l[i] = e.Go()
		}
		return l
	case XMap:
		m := make(map[string]interface{}, len(x.Keys))
		for i, k := range x.Keys {
			m[k] = x.Vals[i].Go()
		}
		return m
	}
	return struct{ A int }{1}
}

// JSONable reports whether the tree consists only of what JSON text can carry.
func (x *Ext) JSONable() bool {
	switch x.Kind {
	case XNil, XJNum, XStr, XBool:
		return true
	case XList:
		for _, e := range x.List {
			if !e.JSONable() {
				return false
			}
		}
		return true
	case XMap:
		for _, e := range x.Vals {
			if !e.JSONable() {
				return false
			}
		}
		return true
	}
	return false
}

// JSON renders the tree as JSON text (number literals verbatim).
func (x *Ext) JSON() string {
	var sb strings.Builder
	x.json(&sb)
	return sb.String()
}
func (x *Ext) json(sb *strings.Builder) {
	switch x.Kind {
	case XNil:
		sb.WriteString("null")
	case XJNum:
		sb.WriteString(x.Text)
	case XStr:
		b, _ := json.Marshal(x.Text)
		sb.Write(b)
	case XBool:
		fmt.Fprintf(sb, "%v", x.Bool)
	case XList:
		sb.WriteByte('[')
		for i, e := range x.List {
			if i > 0 {
				sb.WriteByte(',')
			}
			e.json(sb)
		}
		sb.WriteByte(']')
	case XMap:
		sb.WriteByte('{')
		for i, k := range x.Keys {
			if i > 0 {
				sb.WriteByte(',')
			}
			b, _ := json.Marshal(k)
			sb.Write(b)
			sb.WriteByte(':')
			x.Vals[i].json(sb)
		}
		sb.WriteByte('}')
	default:
		sb.WriteString("null")
	}
}

// FromJSON decodes JSON text the way ParseJSON does (encoding/json, UseNumber) and converts the
// result; ok=false when the text is not valid JSON.
func FromJSON(text []byte) (*Ext, bool) {
	var tree interface{}
	d := json.NewDecoder(bytes.NewReader(text))
	d.UseNumber()
	if err := d.Decode(&tree); err != nil {
		return nil, false
	}
	return FromGo(tree), true
}

// FromGo converts a Go value tree (as produced by encoding/json, or built by hand from the kinds
// above) into an Ext.
func FromGo(v interface{}) *Ext {
	switch t := v.(type) {
	case nil:
		return &Ext{Kind: XNil}
	case json.Number:
		return &Ext{Kind: XJNum, Text: string(t)}
	case string:
		return &Ext{Kind: XStr, Text: t}
	case bool:
		return &Ext{Kind: XBool, Bool: t}
	case *big.Int:
		if t == nil {
			return &Ext{Kind: XBigInt}
		}
		return &Ext{Kind: XBigInt, Big: new(big.Int).Set(t)}
	case *big.Float:
		return &Ext{Kind: XBigFloat, Float: t}
	case float64:
		return &Ext{Kind: XF64, F: t}
	case float32:
		return &Ext{Kind: XF32, F: float64(t)}
	case int64:
		return &Ext{Kind: XInt, IKind: "KInt64", Big: big.NewInt(t)}
	case int32:
		return &Ext{Kind: XInt, IKind: "KInt32", Big: big.NewInt(int64(t))}
	case int16:
		return &Ext{Kind: XInt, IKind: "KInt16", Big: big.NewInt(int64(t))}
	case int8:
		return &Ext{Kind: XInt, IKind: "KInt8", Big: big.NewInt(int64(t))}
	case int:
		return &Ext{Kind: XInt, IKind: "KInt", Big: big.NewInt(int64(t))}
	case uint64:
		return &Ext{Kind: XInt, IKind: "KUint64", Big: new(big.Int).SetUint64(t)}
	case uint32:
		return &Ext{Kind: XInt, IKind: "KUint32", Big: new(big.Int).SetUint64(uint64(t))}
	case uint16:
		return &Ext{Kind: XInt, IKind: "KUint16", Big: new(big.Int).SetUint64(uint64(t))}
	case uint8:
		return &Ext{Kind: XInt, IKind: "KUint8", Big: new(big.Int).SetUint64(uint64(t))}
	case uint:
		return &Ext{Kind: XInt, IKind: "KUint", Big: new(big.Int).SetUint64(uint64(t))}
	case []byte:
		return &Ext{Kind: XBytes, Bytes: t}
	case []interface{}:
		x := &Ext{Kind: XList, List: make([]*Ext, len(t))}
		for i, e := range t {
			x.List[i] = FromGo(e)
		}
		return x
	case map[string]interface{}:
		x := &Ext{Kind: XMap}
		for k := range t {
			x.Keys = append(x.Keys, k)
		}
		sort.Strings(x.Keys)
		for _, k := range x.Keys {
			x.Vals = append(x.Vals, FromGo(t[k]))
		}
		return x
	}
	return &Ext{Kind: XOther}
}

// CoqF64 prints a float64 as the InputModel `f64` term (exact mantissa and exponent).
func CoqF64(f float64) string {
	switch {
	case math.IsNaN(f):
		return "F64NaN"
	case math.IsInf(f, 1):
		return "(F64Inf false)"
	case math.IsInf(f, -1):
		return "(F64Inf true)"
	case f == 0:
		return "(F64 0%Z 0%Z)"
	}
	fr, exp := math.Frexp(f) // f = fr * 2^exp, 0.5 <= |fr| < 1
	m := int64(fr * (1 << 53))
	return fmt.Sprintf("(F64 %s %s)", CoqZ(big.NewInt(m)), CoqZ(big.NewInt(int64(exp-53))))
}

// CoqBigFloat prints a *big.Float as the ModelTypes `bfloat` term.
func CoqBigFloat(f *big.Float) string {
	if f.IsInf() {
		return fmt.Sprintf("(BInf %v)", f.Signbit())
	}
	if f.Sign() == 0 {
		return fmt.Sprintf("(BFin 0%%Z 0%%Z %d)", f.Prec())
	}
	mant := new(big.Float)
	exp := f.MantExp(mant) // f = mant * 2^exp, 0.5 <= |mant| < 1
	// scale the mantissa to an integer: it has at most MinPrec bits
	bitsN := int(f.MinPrec())
	mant.SetMantExp(mant, bitsN)
	mi, _ := mant.Int(nil)
	return fmt.Sprintf("(BFin %s %s %d)", CoqZ(mi), CoqZ(big.NewInt(int64(exp-bitsN))), f.Prec())
}

// Coq prints the InputModel `ext` term.
func (x *Ext) Coq() string {
	switch x.Kind {
	case XNil:
		return "XNil"
	case XJNum:
		return "(XJNum " + CoqBytes([]byte(x.Text)) + ")"
	case XStr:
		return "(XStr " + CoqBytes([]byte(x.Text)) + ")"
	case XBool:
		return fmt.Sprintf("(XBool %v)", x.Bool)
	case XBigInt:
		if x.Big == nil {
			return "(XBigInt None)"
		}
		return "(XBigInt (Some " + CoqZ(x.Big) + "))"
	case XBigFloat:
		return "(XBigFloat " + CoqBigFloat(x.Float) + ")"
	case XF64:
		return "(XF64 " + CoqF64(x.F) + ")"
	case XF32:
		return "(XF32 " + CoqF64(float64(float32(x.F))) + ")"
	case XInt:
		return fmt.Sprintf("(XInt %s %s)", x.IKind, CoqZ(x.Big))
	case XBytes:
		return "(XBytes " + CoqBytes(x.Bytes) + ")"
	case XList:
		p := make([]string, len(x.List))
		for i, e := range x.List {
			p[i] = e.Coq()
		}
		return "(XList [" + strings.Join(p, "; ") + "])"
	case XMap:
		p := make([]string, len(x.Keys))
		for i, k := range x.Keys {
			p[i] = "(" + CoqBytes([]byte(k)) + ", " + x.Vals[i].Coq() + ")"
		}
		return "(XMap [" + strings.Join(p, "; ") + "])"
	}
	return "XOther"
}

// Describe renders the tree for replay files: JSON where possible, Go-ish otherwise.
func (x *Ext) Describe() string {
	switch x.Kind {
	case XNil, XJNum, XBool:
		return x.JSON()
	case XStr:
		if len(x.Text) > 100 {
			b, _ := json.Marshal(x.Text[:100])
			return string(b) + fmt.Sprintf("...(%d bytes)", len(x.Text))
		}
		return x.JSON()
	case XBigInt:
		if x.Big == nil {
			return "(*big.Int)(nil)"
		}
		return "big.Int(" + x.Big.String() + ")"
	case XBigFloat:
		return "big.Float(" + x.Float.Text('g', -1) + ")"
	case XF64:
		return fmt.Sprintf("float64(%v)", x.F)
	case XF32:
		return fmt.Sprintf("float32(%v)", float32(x.F))
	case XInt:
		return fmt.Sprintf("%s(%s)", strings.ToLower(x.IKind[1:]), x.Big.String())
	case XBytes:
		if len(x.Bytes) > 50 {
			return fmt.Sprintf("[]byte(0x%s...%d bytes)", hex.EncodeToString(x.Bytes[:50]), len(x.Bytes))
		}
		return "[]byte(0x" + hex.EncodeToString(x.Bytes) + ")"
	case XList:
		p := make([]string, len(x.List))
		for i, e := range x.List {
			p[i] = e.Describe()
		}
		return "[" + strings.Join(p, ",") + "]"
	case XMap:
		p := make([]string, len(x.Keys))
		for i, k := range x.Keys {
			p[i] = fmt.Sprintf("%q:%s", k, x.Vals[i].Describe())
		}
		return "{" + strings.Join(p, ",") + "}"
	}
	return "struct{}"
}

// ------------------------------------------------------------------------------------------------
// *abi.ComponentValue -> Coq `cval` term (needs the type tree for the component terms)
// ------------------------------------------------------------------------------------------------

// CoqCval prints a ComponentValue tree built by pkg/abi for type t as a ModelTypes `cval` term.
func CoqCval(c *abi.ComponentValue, t *Type) string { return coqCval(c, t, t.Name) }

func coqCval(c *abi.ComponentValue, t *Type, key string) string {
	if c == nil {
		return "CVNil"
	}
	comp := "(Some " + t.coqTcomp(key) + ")"
	if c.Component == nil {
		comp = "None"
	}
	var kids []string
	for i, ch := range c.Children {
		if t.Override != nil {
			if i < len(t.Override) {
				kids = append(kids, coqCval(ch, t.Override[i], t.Override[i].Name))
			}
			continue
		}
		switch t.Kind {
		case FixedArr, DynArr:
			kids = append(kids, coqCval(ch, t.Elem, key))
		case Tuple:
			if i < len(t.Fields) {
				kids = append(kids, coqCval(ch, t.Fields[i], t.Fields[i].Name))
			}
		}
	}
	return fmt.Sprintf("(CV %s [%s] %s)", comp, strings.Join(kids, "; "), CoqGval(c.Value))
}

// CoqGval prints the Value field.
func CoqGval(v interface{}) string {
	switch t := v.(type) {
	case nil:
		return "GNil"
	case *big.Int:
		if t == nil {
			return "GBigIntNil"
		}
		return "(GBigInt " + CoqZ(t) + ")"
	case []byte:
		return "(GBytes " + CoqBytes(t) + ")"
	case string:
		return "(GString " + CoqBytes([]byte(t)) + ")"
	case *big.Float:
		if t == nil {
			return "GOther"
		}
		return "(GBigFloat " + CoqBigFloat(t) + ")"
	}
	return "GOther"
}
