// Package abigen generates ABI type trees and values over the quantifier of property C02 (every
// uint/int width, bytes1..32, address, bool, string, bytes, function, fixed/ufixed, fixed and dynamic
// arrays, tuples to any nesting) and prints them in every form the harnesses need: ABI JSON
// parameters (abi.ParameterArray), Coq terms of the spec type `ty` (Abi/Types.v), of the model type
// `tcomp` (Abi/ModelTypes.v), spec values `val` (Abi/Spec.v), external inputs `ext`
// (Abi/InputModel.v), model value trees `cval`, JSON text and Go value trees.
//
// Coq byte strings are printed as `(bx <bdsl>)`; the case file must import FFS.Abi.CaseLit.
package abigen

import (
	"fmt"
	"strings"

	"github.com/hyperledger/firefly-signer/pkg/abi"
	"verifharness/cv"
)

type Kind int

const (
	Uint Kind = iota
	Int
	Address
	Bool
	Fixed
	Ufixed
	BytesN
	Bytes
	String
	Function
	FixedArr
	DynArr
	Tuple
)

var kindNames = []string{"uint", "int", "address", "bool", "fixed", "ufixed", "bytesN", "bytes", "string", "function", "fixedarr", "dynarr", "tuple"}

func (k Kind) String() string { return kindNames[k] }

// Type is an ABI type tree.
type Type struct {
	Kind   Kind
	M, N   int     // M: uint/int/fixed/ufixed bits, bytes<M> length; N: fixed/ufixed decimals
	Len    int     // FixedArr length
	Elem   *Type   // FixedArr / DynArr element
	Fields []*Type // Tuple members
	Name   string  // name as a tuple member / top-level parameter ("" = unnamed)
	Alias  bool    // spell uint256/int256/fixed128x18/ufixed128x18 as uint/int/fixed/ufixed in the ABI JSON
	// Override is used only by CoqCval for hand-built ComponentValue trees whose children do not
	// match the component: the type of child i (printed with its own component) regardless of Kind.
	Override []*Type
}

func U(m int) *Type            { return &Type{Kind: Uint, M: m} }
func I(m int) *Type            { return &Type{Kind: Int, M: m} }
func BN(m int) *Type           { return &Type{Kind: BytesN, M: m} }
func Fx(m, n int) *Type        { return &Type{Kind: Fixed, M: m, N: n} }
func UFx(m, n int) *Type       { return &Type{Kind: Ufixed, M: m, N: n} }
func Addr() *Type              { return &Type{Kind: Address} }
func Boolean() *Type           { return &Type{Kind: Bool} }
func Byts() *Type              { return &Type{Kind: Bytes} }
func Str() *Type               { return &Type{Kind: String} }
func Func() *Type              { return &Type{Kind: Function} }
func Arr(e *Type, n int) *Type { return &Type{Kind: FixedArr, Elem: e, Len: n} }
func Dyn(e *Type) *Type        { return &Type{Kind: DynArr, Elem: e} }
func Tup(fs ...*Type) *Type    { return &Type{Kind: Tuple, Fields: fs} }

// Named returns a shallow copy carrying a member name.
func (t *Type) Named(n string) *Type { c := *t; c.Name = n; return &c }

// Clone is a deep copy.
func (t *Type) Clone() *Type {
	c := *t
	if t.Elem != nil {
		c.Elem = t.Elem.Clone()
	}
	if t.Fields != nil {
		c.Fields = make([]*Type, len(t.Fields))
		for i, f := range t.Fields {
			c.Fields[i] = f.Clone()
		}
	}
	return &c
}

func (t *Type) IsElementary() bool { return t.Kind < FixedArr }

// Dynamic per the Solidity ABI specification.
func (t *Type) Dynamic() bool {
	switch t.Kind {
	case Bytes, String, DynArr:
		return true
	case FixedArr:
		return t.Elem.Dynamic()
	case Tuple:
		for _, f := range t.Fields {
			if f.Dynamic() {
				return true
			}
		}
	}
	return false
}

// Any reports whether pred holds somewhere in the tree.
func (t *Type) Any(pred func(*Type) bool) bool {
	if pred(t) {
		return true
	}
	if t.Elem != nil && t.Elem.Any(pred) {
		return true
	}
	for _, f := range t.Fields {
		if f.Any(pred) {
			return true
		}
	}
	return false
}
func (t *Type) HasFixedPoint() bool {
	return t.Any(func(x *Type) bool { return x.Kind == Fixed || x.Kind == Ufixed })
}
func (t *Type) HasZeroLen() bool {
	return t.Any(func(x *Type) bool { return x.Kind == FixedArr && x.Len == 0 })
}
func (t *Type) Depth() int {
	d := 0
	if t.Elem != nil {
		d = t.Elem.Depth() + 1
	}
	for _, f := range t.Fields {
		if fd := f.Depth() + 1; fd > d {
			d = fd
		}
	}
	return d
}

// base returns the innermost non-array type and the array suffix text ("[3][]").
func (t *Type) base() (*Type, string) {
	switch t.Kind {
	case FixedArr:
		b, s := t.Elem.base()
		return b, s + fmt.Sprintf("[%d]", t.Len)
	case DynArr:
		b, s := t.Elem.base()
		return b, s + "[]"
	}
	return t, ""
}

func (t *Type) elemName() string {
	switch t.Kind {
	case Uint:
		if t.Alias && t.M == 256 {
			return "uint"
		}
		return fmt.Sprintf("uint%d", t.M)
	case Int:
		if t.Alias && t.M == 256 {
			return "int"
		}
		return fmt.Sprintf("int%d", t.M)
	case Address:
		return "address"
	case Bool:
		return "bool"
	case Fixed:
		if t.Alias && t.M == 128 && t.N == 18 {
			return "fixed"
		}
		return fmt.Sprintf("fixed%dx%d", t.M, t.N)
	case Ufixed:
		if t.Alias && t.M == 128 && t.N == 18 {
			return "ufixed"
		}
		return fmt.Sprintf("ufixed%dx%d", t.M, t.N)
	case BytesN:
		return fmt.Sprintf("bytes%d", t.M)
	case Bytes:
		return "bytes"
	case String:
		return "string"
	case Function:
		return "function"
	case Tuple:
		return "tuple"
	}
	return "?"
}

// ABIType is the "type" string of the ABI JSON ("tuple[2][]", "uint8[]").
func (t *Type) ABIType() string {
	b, s := t.base()
	return b.elemName() + s
}

// Canonical is the signature form ("(uint256,bytes)[2]"), aliases expanded.
func (t *Type) Canonical() string {
	switch t.Kind {
	case FixedArr:
		return fmt.Sprintf("%s[%d]", t.Elem.Canonical(), t.Len)
	case DynArr:
		return t.Elem.Canonical() + "[]"
	case Tuple:
		p := make([]string, len(t.Fields))
		for i, f := range t.Fields {
			p[i] = f.Canonical()
		}
		return "(" + strings.Join(p, ",") + ")"
	}
	c := *t
	c.Alias = false
	return c.elemName()
}

// Param renders the type as an ABI JSON parameter (name = t.Name; for arrays of tuples the
// components hang off the array parameter, as in the ABI JSON).
func (t *Type) Param() *abi.Parameter {
	b, _ := t.base()
	p := &abi.Parameter{Name: t.Name, Type: t.ABIType()}
	if b.Kind == Tuple {
		for _, f := range b.Fields {
			p.Components = append(p.Components, f.Param())
		}
	}
	return p
}

// Params renders a parameter list.
func Params(ts []*Type) abi.ParameterArray {
	pa := make(abi.ParameterArray, len(ts))
	for i, t := range ts {
		pa[i] = t.Param()
	}
	return pa
}

// CoqTy prints the spec-side `ty` term.
func (t *Type) CoqTy() string {
	switch t.Kind {
	case Uint:
		return fmt.Sprintf("(TUInt %d)", t.M)
	case Int:
		return fmt.Sprintf("(TInt %d)", t.M)
	case Address:
		return "TAddress"
	case Bool:
		return "TBool"
	case Fixed:
		return fmt.Sprintf("(TFixed %d %d)", t.M, t.N)
	case Ufixed:
		return fmt.Sprintf("(TUFixed %d %d)", t.M, t.N)
	case BytesN:
		return fmt.Sprintf("(TBytesN %d)", t.M)
	case Bytes:
		return "TBytes"
	case String:
		return "TString"
	case Function:
		return "TFunction"
	case FixedArr:
		return fmt.Sprintf("(TFixedArr %s %d)", t.Elem.CoqTy(), t.Len)
	case DynArr:
		return fmt.Sprintf("(TDynArr %s)", t.Elem.CoqTy())
	case Tuple:
		p := make([]string, len(t.Fields))
		for i, f := range t.Fields {
			p[i] = f.CoqTy()
		}
		return "(TTuple [" + strings.Join(p, "; ") + "])"
	}
	return "?"
}

// CoqBytes prints a byte string as a Coq `bytes` term.
func CoqBytes(b []byte) string {
	if len(b) == 0 {
		return "[]"
	}
	return "(bx " + cv.Compress(b).Coq() + ")"
}

func ekind(k Kind) string {
	return map[Kind]string{Uint: "EUInt", Int: "EInt", Address: "EAddress", Bool: "EBool", Fixed: "EFixed", Ufixed: "EUFixed",
		BytesN: "EBytes", Bytes: "EBytes", String: "EString", Function: "EFunction"}[k]
}

// CoqTcomp prints the model-side `tcomp` term that parseABIParameterComponents builds for this
// type: key name = the parameter name at every array level and at the element, suffix = the
// elementary suffix after alias expansion, m/n as the parser sets them.
func (t *Type) CoqTcomp() string { return t.coqTcomp(t.keyName()) }

// keyName: array components inherit the parameter's name; the name lives on the outermost node.
func (t *Type) keyName() string { return t.Name }

func (t *Type) coqTcomp(key string) string {
	k := CoqBytes([]byte(key))
	switch t.Kind {
	case FixedArr:
		return fmt.Sprintf("(TCFixedArr %d %s %s)", t.Len, t.Elem.coqTcomp(key), k)
	case DynArr:
		return fmt.Sprintf("(TCDynArr %s %s)", t.Elem.coqTcomp(key), k)
	case Tuple:
		p := make([]string, len(t.Fields))
		for i, f := range t.Fields {
			p[i] = f.CoqTcomp()
		}
		return "(TCTuple [" + strings.Join(p, "; ") + "] " + k + ")"
	}
	suffix, m, n := "", 0, 0
	switch t.Kind {
	case Uint, Int:
		suffix, m = fmt.Sprintf("%d", t.M), t.M
	case Fixed, Ufixed:
		suffix, m, n = fmt.Sprintf("%dx%d", t.M, t.N), t.M, t.N
	case BytesN:
		suffix, m = fmt.Sprintf("%d", t.M), t.M
	case Address:
		m = 160
	case Bool:
		m = 8
	case Function:
		m = 24
	}
	return fmt.Sprintf("(TCElem %s %s %d %d %s)", ekind(t.Kind), CoqBytes([]byte(suffix)), m, n, k)
}

// CoqTcompList prints a parameter list as `list tcomp`.
func CoqTcompList(ts []*Type) string {
	p := make([]string, len(ts))
	for i, t := range ts {
		p[i] = t.CoqTcomp()
	}
	return "[" + strings.Join(p, "; ") + "]"
}

// CoqTyList prints a parameter list as the spec tuple type.
func CoqTyList(ts []*Type) string { return Tup(ts...).CoqTy() }
