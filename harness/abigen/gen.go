package abigen

import (
	"fmt"
	"math"
	"math/big"
	"strings"

	"verifharness/cv"
)

// ------------------------------------------------------------------------------------------------
// type generation
// ------------------------------------------------------------------------------------------------

// AllElementary lists every elementary type of the quantifier: 32 uint + 32 int widths, bytes1..32,
// address, bool, string, bytes, function and a spread of fixed/ufixed types (incl. the four corners
// of the M x N range).
func AllElementary(withFixed bool) []*Type {
	var out []*Type
	for m := 8; m <= 256; m += 8 {
		out = append(out, U(m), I(m))
	}
	for m := 1; m <= 32; m++ {
		out = append(out, BN(m))
	}
	out = append(out, Addr(), Boolean(), Str(), Byts(), Func())
	if withFixed {
		for _, mn := range [][2]int{{128, 18}, {8, 1}, {8, 80}, {256, 1}, {256, 80}, {64, 6}, {16, 2}} {
			out = append(out, Fx(mn[0], mn[1]), UFx(mn[0], mn[1]))
		}
	}
	return out
}

// Opts steers the random generators.
type Opts struct {
	Fixed       bool // allow fixed/ufixed leaves
	ZeroLen     bool // allow T[0]
	MaxDepth    int
	Names       bool // give tuple members names (otherwise a mix of named and unnamed)
	EmptyTuples bool // allow ()
}

// GenElementary draws an elementary type (all widths reachable).
func GenElementary(r *cv.Rand, o Opts) *Type {
	switch c := r.Intn(20); {
	case c < 5:
		t := U(8 * (1 + r.Intn(32)))
		t.Alias = t.M == 256 && r.Intn(3) == 0
		return t
	case c < 9:
		t := I(8 * (1 + r.Intn(32)))
		t.Alias = t.M == 256 && r.Intn(3) == 0
		return t
	case c < 12:
		return BN(1 + r.Intn(32))
	case c < 13:
		return Addr()
	case c < 14:
		return Boolean()
	case c < 16:
		return Str()
	case c < 18:
		return Byts()
	case c < 19:
		return Func()
	default:
		if !o.Fixed {
			return U(256)
		}
		m, n := 8*(1+r.Intn(32)), 1+r.Intn(80)
		if r.Bool() {
			return Fx(m, n)
		}
		return UFx(m, n)
	}
}

// GenType draws a type tree of depth <= depth.
func GenType(r *cv.Rand, depth int, o Opts) *Type {
	if depth <= 0 || r.Intn(4) == 0 {
		return GenElementary(r, o)
	}
	switch r.Intn(3) {
	case 0:
		n := 1 + r.Intn(3)
		if o.ZeroLen && r.Intn(8) == 0 {
			n = 0
		}
		return Arr(GenType(r, depth-1, o), n)
	case 1:
		return Dyn(GenType(r, depth-1, o))
	default:
		k := 1 + r.Intn(3)
		if o.EmptyTuples && r.Intn(10) == 0 {
			k = 0
		}
		fs := make([]*Type, k)
		for i := range fs {
			fs[i] = GenType(r, depth-1, o)
		}
		t := Tup(fs...)
		NameMembers(r, t, o.Names)
		return t
	}
}

// NameMembers gives the direct members of a tuple names: all named, or (allNamed=false) a random mix
// of named and unnamed ones (unnamed members are addressed by their index in object inputs).
func NameMembers(r *cv.Rand, t *Type, allNamed bool) {
	for i, f := range t.Fields {
		if allNamed || r.Intn(3) != 0 {
			f.Name = fmt.Sprintf("%c%d", 'a'+byte(i%26), i)
		} else {
			f.Name = ""
		}
	}
}

// Shapes enumerates systematically the nestings of {T[2], T[], (T,uint8), (uint16,T)} up to the
// given depth over a static leaf (uint256) and a dynamic leaf (bytes): every
// dynamic-in-static-in-dynamic combination occurs.
func Shapes(depth int) []*Type {
	level := []*Type{U(256), Byts()}
	all := append([]*Type{}, level...)
	for d := 0; d < depth; d++ {
		var next []*Type
		for _, t := range level {
			next = append(next,
				Arr(t.Clone(), 2),
				Dyn(t.Clone()),
				Tup(t.Clone().Named("x"), U(8).Named("y")),
				Tup(U(16), t.Clone()))
		}
		all = append(all, next...)
		level = next
	}
	return all
}

// ------------------------------------------------------------------------------------------------
// value generation
// ------------------------------------------------------------------------------------------------

// IntBoundaries returns the in-range boundary values (0, +-1, min, max, min+1, max-1) and the
// out-of-range neighbours (min-1, max+1, and -1 for unsigned) of a numeric type.
func IntBoundaries(t *Type) (in, out []*big.Int) {
	lo, hi := t.Range()
	one := big.NewInt(1)
	add := func(l *[]*big.Int, z *big.Int) {
		for _, e := range *l {
			if e.Cmp(z) == 0 {
				return
			}
		}
		*l = append(*l, z)
	}
	for _, z := range []*big.Int{big.NewInt(0), big.NewInt(1), big.NewInt(-1), lo, hi,
		new(big.Int).Add(lo, one), new(big.Int).Sub(hi, one)} {
		if z.Cmp(lo) >= 0 && z.Cmp(hi) <= 0 {
			add(&in, z)
		}
	}
	add(&out, new(big.Int).Sub(lo, one))
	add(&out, new(big.Int).Add(hi, one))
	// far out of range: one bit more, and the value that would wrap to something small
	add(&out, new(big.Int).Add(new(big.Int).Lsh(hi, 1), big.NewInt(2)))
	add(&out, new(big.Int).Add(pow2(256), one))
	add(&out, new(big.Int).Neg(pow2(256)))
	return in, out
}

// RandInRange draws a uniform-ish value in [lo, hi] (random bit length first).
func RandInRange(r *cv.Rand, lo, hi *big.Int) *big.Int {
	span := new(big.Int).Sub(hi, lo)
	if span.Sign() == 0 {
		return new(big.Int).Set(lo)
	}
	bl := 1 + r.Intn(span.BitLen())
	z := new(big.Int).SetBytes(r.Bytes((bl + 7) / 8))
	z.Rsh(z, uint((8-bl%8)%8))
	z.Mod(z, new(big.Int).Add(span, big.NewInt(1)))
	if r.Bool() {
		return z.Add(z, lo)
	}
	return z.Sub(hi, z)
}

var dynLens = []int{0, 1, 2, 31, 32, 33, 63, 64, 65, 100}

// VOpts steers value generation.
type VOpts struct {
	OutOfRange bool // allow exactly one numeric leaf outside its range (if the tree has a numeric leaf)
	BigData    bool // allow 1 KiB dynamic data
	MaxArr     int  // maximum dynamic array length (default 3)
}

// GenValue draws a well-typed value of t, boundary-directed.
func GenValue(r *cv.Rand, t *Type, o VOpts) *Value {
	v := &Value{T: t}
	switch t.Kind {
	case Uint, Int, Address, Bool, Fixed, Ufixed:
		in, _ := IntBoundaries(t)
		if r.Intn(3) != 0 {
			v.Num = in[r.Intn(len(in))]
		} else {
			lo, hi := t.Range()
			v.Num = RandInRange(r, lo, hi)
		}
	case BytesN:
		v.Bytes = r.Bytes(t.M)
	case Function:
		v.Bytes = r.Bytes(24)
	case Bytes:
		n := dynLens[r.Intn(len(dynLens))]
		if o.BigData && r.Intn(12) == 0 {
			n = 1024
		}
		if n > 100 || r.Intn(4) == 0 {
			v.Bytes = make([]byte, n)
			b := r.Byte()
			for i := range v.Bytes {
				v.Bytes[i] = b
			}
		} else {
			v.Bytes = r.Bytes(n)
		}
	case String:
		n := dynLens[r.Intn(len(dynLens))]
		if o.BigData && r.Intn(12) == 0 {
			n = 1024
		}
		v.Bytes = []byte(RandText(r, n))
	case FixedArr:
		for i := 0; i < t.Len; i++ {
			v.Elems = append(v.Elems, GenValue(r, t.Elem, o))
		}
	case DynArr:
		mx := o.MaxArr
		if mx == 0 {
			mx = 3
		}
		n := r.Intn(mx + 1)
		for i := 0; i < n; i++ {
			v.Elems = append(v.Elems, GenValue(r, t.Elem, o))
		}
	case Tuple:
		for _, f := range t.Fields {
			v.Elems = append(v.Elems, GenValue(r, f, o))
		}
	}
	return v
}

// RandText gives valid UTF-8 text of exactly n bytes (ASCII with some two- and three-byte runes).
func RandText(r *cv.Rand, n int) string {
	var sb strings.Builder
	for sb.Len() < n {
		rem := n - sb.Len()
		switch c := r.Intn(12); {
		case c == 0 && rem >= 3:
			sb.WriteString("€")
		case c == 1 && rem >= 2:
			sb.WriteString("é")
		case c == 2:
			sb.WriteByte("\"\\/ \t"[r.Intn(5)])
		default:
			sb.WriteByte(byte('a' + r.Intn(26)))
		}
	}
	return sb.String()
}

// NumericLeaves collects pointers to the numeric leaves of a value tree (uint/int only).
func (v *Value) NumericLeaves() []*Value {
	var out []*Value
	if v.T.Kind == Uint || v.T.Kind == Int {
		out = append(out, v)
	}
	for _, e := range v.Elems {
		out = append(out, e.NumericLeaves()...)
	}
	return out
}

// ------------------------------------------------------------------------------------------------
// external representations
// ------------------------------------------------------------------------------------------------

// IntReprs lists the names of the integer representations; IntExt renders one.
var IntReprs = []string{"dec-string", "hex-string", "hex-string-upper", "json-number", "json-number-exp", "json-number-frac0",
	"big.Int", "sized-int", "float64", "big.Float", "dec-string-plus"}

// IntExt renders integer z in the named representation; ok=false when z cannot be expressed in it
// exactly (sized ints out of range, float64 not exactly representable, exponent form needs a
// trailing zero).
func IntExt(r *cv.Rand, z *big.Int, repr string) (*Ext, bool) {
	x := &Ext{Repr: repr}
	abs := new(big.Int).Abs(z)
	sign := ""
	if z.Sign() < 0 {
		sign = "-"
	}
	switch repr {
	case "dec-string":
		x.Kind, x.Text = XStr, z.String()
	case "dec-string-plus":
		if z.Sign() < 0 {
			return nil, false
		}
		x.Kind, x.Text = XStr, "+"+z.String()
	case "hex-string":
		x.Kind, x.Text = XStr, sign+"0x"+abs.Text(16)
	case "hex-string-upper":
		x.Kind, x.Text = XStr, sign+"0X"+strings.ToUpper(abs.Text(16))
	case "json-number":
		x.Kind, x.Text = XJNum, z.String()
	case "json-number-exp":
		// d...dE+k with the trailing zeros moved into the exponent, or d.dddE+k consuming the fraction exactly
		s := abs.String()
		k := len(s) - len(strings.TrimRight(s, "0"))
		if z.Sign() == 0 {
			x.Kind, x.Text = XJNum, "0e0"
			return x, true
		}
		body := s[:len(s)-k]
		if len(body) > 1 && r.Bool() {
			x.Kind, x.Text = XJNum, fmt.Sprintf("%s%s.%se%d", sign, body[:1], body[1:], len(s)-1)
		} else {
			x.Kind, x.Text = XJNum, fmt.Sprintf("%s%sE+%d", sign, body, k)
		}
	case "json-number-frac0":
		x.Kind, x.Text = XJNum, z.String()+"."+strings.Repeat("0", 1+r.Intn(3))
	case "big.Int":
		x.Kind, x.Big = XBigInt, new(big.Int).Set(z)
	case "sized-int":
		var fits []string
		for _, k := range IntKinds {
			lo, hi := IntKindRange(k)
			if z.Cmp(lo) >= 0 && z.Cmp(hi) <= 0 {
				fits = append(fits, k)
			}
		}
		if len(fits) == 0 {
			return nil, false
		}
		x.Kind, x.IKind, x.Big = XInt, fits[r.Intn(len(fits))], new(big.Int).Set(z)
		x.Repr = "sized-int:" + x.IKind
	case "float64":
		f, acc := new(big.Float).SetInt(z).Float64()
		if acc != big.Exact || math.IsInf(f, 0) {
			return nil, false
		}
		x.Kind, x.F = XF64, f
	case "big.Float":
		x.Kind, x.Float = XBigFloat, new(big.Float).SetPrec(uint(max(64, z.BitLen()))).SetInt(z)
	default:
		return nil, false
	}
	return x, true
}

// Repr choices for a whole value tree.
type ReprOpts struct {
	GoValues    bool   // may use Go-only representations (big.Int, sized ints, float64, []byte); else JSON-expressible only
	IntRepr     string // force this integer representation where it can express the value ("" = random)
	TupleObject int    // 0 = random per tuple, 1 = always objects, 2 = always arrays
}

// ToExt renders a value tree in external form.  Numeric leaves use the integer representations
// (address: hex string of exactly 20 bytes, or []byte; bool: JSON bool or "true"/"false" strings in
// varying case); byte strings are hex strings with or without 0x, or []byte; strings are strings;
// tuples are arrays or objects keyed by member name (index for unnamed members); fixed-point
// numbers are decimal literals with at most N fractional digits.
func ToExt(r *cv.Rand, v *Value, o ReprOpts) *Ext {
	t := v.T
	switch t.Kind {
	case Uint, Int:
		reprs := []string{"dec-string", "hex-string", "json-number", "json-number-exp", "json-number-frac0", "hex-string-upper", "dec-string-plus"}
		if o.GoValues {
			reprs = append(reprs, "big.Int", "big.Int", "sized-int", "sized-int", "float64", "big.Float")
		}
		if o.IntRepr != "" {
			if x, ok := IntExt(r, v.Num, o.IntRepr); ok {
				return x
			}
		}
		for {
			if x, ok := IntExt(r, v.Num, reprs[r.Intn(len(reprs))]); ok {
				return x
			}
		}
	case Address:
		b := v.Num.FillBytes(make([]byte, 20))
		return bytesExt(r, b, o, "address")
	case Bool:
		tv := v.Num.Sign() != 0
		switch r.Intn(3) {
		case 0:
			return &Ext{Kind: XBool, Bool: tv, Repr: "bool"}
		case 1:
			s := map[bool][]string{true: {"true", "TRUE", "True", "tRuE"}, false: {"false", "FALSE", "no", ""}}[tv]
			return &Ext{Kind: XStr, Text: s[r.Intn(len(s))], Repr: "bool-string"}
		default:
			return &Ext{Kind: XBool, Bool: tv, Repr: "bool"}
		}
	case Fixed, Ufixed:
		return &Ext{Kind: XStr, Text: FixedLiteral(v.Num, t.N), Repr: "fixed-literal"}
	case BytesN, Bytes, Function:
		return bytesExt(r, v.Bytes, o, "bytes")
	case String:
		if o.GoValues && r.Intn(6) == 0 {
			return &Ext{Kind: XBytes, Bytes: v.Bytes, Repr: "string-as-[]byte"}
		}
		return &Ext{Kind: XStr, Text: string(v.Bytes), Repr: "string"}
	case FixedArr, DynArr:
		x := &Ext{Kind: XList, Repr: "array"}
		for _, e := range v.Elems {
			x.List = append(x.List, ToExt(r, e, o))
		}
		if x.List == nil {
			x.List = []*Ext{}
		}
		return x
	default: // Tuple
		obj := o.TupleObject == 1 || (o.TupleObject == 0 && r.Bool())
		if !obj {
			x := &Ext{Kind: XList, Repr: "tuple-array", List: []*Ext{}}
			for _, e := range v.Elems {
				x.List = append(x.List, ToExt(r, e, o))
			}
			return x
		}
		x := &Ext{Kind: XMap, Repr: "tuple-object"}
		for i, e := range v.Elems {
			k := t.Fields[i].Name
			if k == "" {
				k = fmt.Sprintf("%d", i)
			}
			x.Keys = append(x.Keys, k)
			x.Vals = append(x.Vals, ToExt(r, e, o))
		}
		return x
	}
}

func bytesExt(r *cv.Rand, b []byte, o ReprOpts, what string) *Ext {
	h := fmt.Sprintf("%x", b)
	switch c := r.Intn(6); {
	case c == 0 && o.GoValues:
		return &Ext{Kind: XBytes, Bytes: append([]byte{}, b...), Repr: what + "-[]byte"}
	case c <= 2:
		return &Ext{Kind: XStr, Text: "0x" + h, Repr: what + "-0xhex"}
	case c == 3:
		return &Ext{Kind: XStr, Text: strings.ToUpper(h), Repr: what + "-HEX"}
	default:
		return &Ext{Kind: XStr, Text: h, Repr: what + "-hex"}
	}
}

// FixedLiteral prints the fixed-point number scaled/10^n as a decimal literal with exactly the
// fractional digits needed (at most n).
func FixedLiteral(scaled *big.Int, n int) string {
	abs := new(big.Int).Abs(scaled).String()
	for len(abs) <= n {
		abs = "0" + abs
	}
	ip, fp := abs[:len(abs)-n], strings.TrimRight(abs[len(abs)-n:], "0")
	s := ip
	if fp != "" {
		s += "." + fp
	}
	if scaled.Sign() < 0 {
		s = "-" + s
	}
	return s
}
