module verifharness

go 1.22

require github.com/hyperledger/firefly-signer v0.0.0

require (
	github.com/hyperledger/firefly-common v1.4.11 // indirect
	github.com/mattn/go-colorable v0.1.13 // indirect
	github.com/mattn/go-isatty v0.0.20 // indirect
	github.com/mgutz/ansi v0.0.0-20200706080929-d51e80ef957d // indirect
	github.com/pkg/errors v0.9.1 // indirect
	github.com/sirupsen/logrus v1.9.3 // indirect
	github.com/x-cray/logrus-prefixed-formatter v0.5.2 // indirect
	golang.org/x/crypto v0.31.0 // indirect
	golang.org/x/sys v0.28.0 // indirect
	golang.org/x/term v0.27.0 // indirect
	golang.org/x/text v0.21.0 // indirect
)

replace github.com/hyperledger/firefly-signer => /repo

replace github.com/hyperledger/firefly-common => github.com/kaleido-io/firefly-common v0.0.0-20240827134901-edb07289f156
