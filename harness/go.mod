module verifharness

go 1.22

require github.com/hyperledger/firefly-signer v0.0.0

require (
	github.com/btcsuite/btcd/btcec/v2 v2.3.2
	github.com/decred/dcrd/dcrec/secp256k1/v4 v4.2.0
	github.com/fsnotify/fsnotify v1.7.0
	github.com/go-resty/resty/v2 v2.11.0
	github.com/google/uuid v1.5.0
	github.com/gorilla/mux v1.8.1
	github.com/gorilla/websocket v1.5.1
	github.com/hyperledger/firefly-common v1.4.11
	github.com/karlseguin/ccache v2.0.3+incompatible
	github.com/pelletier/go-toml v1.9.5
	github.com/santhosh-tekuri/jsonschema/v5 v5.3.1
	github.com/sirupsen/logrus v1.9.3
	github.com/spf13/cobra v1.8.0
	github.com/spf13/viper v1.18.2
	github.com/stretchr/testify v1.8.4
	golang.org/x/crypto v0.31.0
	golang.org/x/text v0.21.0
	gopkg.in/yaml.v2 v2.4.0
)

require (
	github.com/aidarkhanov/nanoid v1.0.8 // indirect
	github.com/beorn7/perks v1.0.1 // indirect
	github.com/cespare/xxhash/v2 v2.2.0 // indirect
	github.com/davecgh/go-spew v1.1.2-0.20180830191138-d8f796af33cc // indirect
	github.com/docker/go-units v0.5.0 // indirect
	github.com/getkin/kin-openapi v0.122.0 // indirect
	github.com/ghodss/yaml v1.0.0 // indirect
	github.com/go-openapi/jsonpointer v0.20.2 // indirect
	github.com/go-openapi/swag v0.22.7 // indirect
	github.com/hashicorp/hcl v1.0.0 // indirect
	github.com/inconshreveable/mousetrap v1.1.0 // indirect
	github.com/invopop/yaml v0.2.0 // indirect
	github.com/josharian/intern v1.0.0 // indirect
	github.com/magiconair/properties v1.8.7 // indirect
	github.com/mailru/easyjson v0.7.7 // indirect
	github.com/mattn/go-colorable v0.1.13 // indirect
	github.com/mattn/go-isatty v0.0.20 // indirect
	github.com/matttproud/golang_protobuf_extensions/v2 v2.0.0 // indirect
	github.com/mgutz/ansi v0.0.0-20200706080929-d51e80ef957d // indirect
	github.com/mitchellh/mapstructure v1.5.0 // indirect
	github.com/mohae/deepcopy v0.0.0-20170929034955-c48cc78d4826 // indirect
	github.com/nxadm/tail v1.4.8 // indirect
	github.com/pelletier/go-toml/v2 v2.1.1 // indirect
	github.com/perimeterx/marshmallow v1.1.5 // indirect
	github.com/pkg/errors v0.9.1 // indirect
	github.com/pmezard/go-difflib v1.0.1-0.20181226105442-5d4384ee4fb2 // indirect
	github.com/prometheus/client_golang v1.18.0 // indirect
	github.com/prometheus/client_model v0.5.0 // indirect
	github.com/prometheus/common v0.45.0 // indirect
	github.com/prometheus/procfs v0.12.0 // indirect
	github.com/rs/cors v1.10.1 // indirect
	github.com/sagikazarmark/locafero v0.4.0 // indirect
	github.com/sagikazarmark/slog-shim v0.1.0 // indirect
	github.com/sourcegraph/conc v0.3.0 // indirect
	github.com/spf13/afero v1.11.0 // indirect
	github.com/spf13/cast v1.6.0 // indirect
	github.com/spf13/pflag v1.0.5 // indirect
	github.com/stretchr/objx v0.5.1 // indirect
	github.com/subosito/gotenv v1.6.0 // indirect
	github.com/wsxiaoys/terminal v0.0.0-20160513160801-0940f3fc43a0 // indirect
	github.com/x-cray/logrus-prefixed-formatter v0.5.2 // indirect
	gitlab.com/hfuss/mux-prometheus v0.0.5 // indirect
	go.uber.org/multierr v1.11.0 // indirect
	golang.org/x/exp v0.0.0-20240110193028-0dcbfd608b1e // indirect
	golang.org/x/net v0.21.0 // indirect
	golang.org/x/sys v0.28.0 // indirect
	golang.org/x/term v0.27.0 // indirect
	golang.org/x/time v0.5.0 // indirect
	google.golang.org/protobuf v1.32.0 // indirect
	gopkg.in/ini.v1 v1.67.0 // indirect
	gopkg.in/natefinch/lumberjack.v2 v2.2.1 // indirect
	gopkg.in/yaml.v3 v3.0.1 // indirect
)

replace github.com/hyperledger/firefly-signer => /repo

replace github.com/hyperledger/firefly-common => github.com/kaleido-io/firefly-common v0.0.0-20240827134901-edb07289f156
