// Package proxykit drives the real `ffsigner` binary at process level: it builds the binary from the
// tree under test ($VERIF_REPO, default /repo), writes a key directory (Keystore V3 files with a
// cheap scrypt cost, written directly with x/crypto — not through firefly-signer) and a config
// file, starts the process on a free port against a scripted in-harness JSON-RPC backend that
// records every frame, and offers POST / liveness / shutdown helpers.  Used by cmd/c09 and cmd/c16.
//
// Nothing here imports firefly-signer: keys, addresses and keystore files are produced with btcec,
// x/crypto/scrypt, crypto/aes and x/crypto/sha3 directly, so what the harness expects is independent
// of the code under test.
package proxykit

import (
	"bytes"
	"context"
	"crypto/aes"
	"crypto/cipher"
	"encoding/hex"
	"encoding/json"
	"errors"
	"fmt"
	"io"
	"net"
	"net/http"
	"os"
	"os/exec"
	"path/filepath"
	"strings"
	"sync"
	"syscall"
	"time"

	"github.com/btcsuite/btcd/btcec/v2"
	"golang.org/x/crypto/scrypt"
	"golang.org/x/crypto/sha3"
)

// ------------------------------------------------------------------------------------------------
// environment / build
// ------------------------------------------------------------------------------------------------

// Repo returns the tree under test.
func Repo() string {
	if v := os.Getenv("VERIF_REPO"); v != "" {
		return v
	}
	return "/repo"
}

func goEnv() []string {
	env := os.Environ()
	env = append(env, "GOFLAGS=-mod=mod", "GOPROXY=off", "GOSUMDB=off", "GOTOOLCHAIN=local", "CGO_ENABLED=0")
	return env
}

// BuildFFSigner builds ./ffsigner of Repo() into workDir/ffsigner using a private copy of the
// repo's go.mod/go.sum (so the tree under test is never written to).  Returns the binary path.
func BuildFFSigner(workDir string) (string, error) {
	if err := os.MkdirAll(workDir, 0o755); err != nil {
		return "", err
	}
	repo := Repo()
	for _, f := range []string{"go.mod", "go.sum"} {
		b, err := os.ReadFile(filepath.Join(repo, f))
		if err != nil {
			return "", err
		}
		if err := os.WriteFile(filepath.Join(workDir, f), b, 0o644); err != nil {
			return "", err
		}
	}
	bin := filepath.Join(workDir, "ffsigner")
	args := []string{"build", "-modfile=" + filepath.Join(workDir, "go.mod")}
	if cp := os.Getenv("VERIF_COVERPKG"); cp != "" {
		// statement-coverage measurement of the proxy process (lib/coverage.sh); never set by ./check
		args = append(args, "-cover", "-coverpkg="+cp)
	}
	args = append(args, "-o", bin, "./ffsigner")
	cmd := exec.Command("go", args...)
	cmd.Dir = repo
	cmd.Env = goEnv()
	out, err := cmd.CombinedOutput()
	if err != nil {
		return "", fmt.Errorf("go build ./ffsigner in %s failed: %v\n%s", repo, err, out)
	}
	return bin, nil
}

// BuildFFSignerRace builds the same binary with the Go race detector (needs cgo and a C compiler;
// an error means "not available here", callers skip the race run).
func BuildFFSignerRace(workDir string) (string, error) {
	if err := os.MkdirAll(workDir, 0o755); err != nil {
		return "", err
	}
	repo := Repo()
	for _, f := range []string{"go.mod", "go.sum"} {
		b, err := os.ReadFile(filepath.Join(repo, f))
		if err != nil {
			return "", err
		}
		if err := os.WriteFile(filepath.Join(workDir, f), b, 0o644); err != nil {
			return "", err
		}
	}
	bin := filepath.Join(workDir, "ffsigner_race")
	cmd := exec.Command("go", "build", "-race", "-modfile="+filepath.Join(workDir, "go.mod"), "-o", bin, "./ffsigner")
	cmd.Dir = repo
	cmd.Env = append(goEnv(), "CGO_ENABLED=1")
	out, err := cmd.CombinedOutput()
	if err != nil {
		return "", fmt.Errorf("go build -race ./ffsigner in %s failed: %v\n%s", repo, err, out)
	}
	return bin, nil
}

// ------------------------------------------------------------------------------------------------
// keys and key directory
// ------------------------------------------------------------------------------------------------

type Key struct {
	Priv    []byte   // 32 bytes
	Address [20]byte // keccak256(uncompressed pubkey[1:])[12:]
}

func Keccak256(b ...[]byte) []byte {
	h := sha3.NewLegacyKeccak256()
	for _, x := range b {
		h.Write(x)
	}
	return h.Sum(nil)
}

// KeyFromBytes derives the address with btcec + sha3 directly.  priv must be a valid scalar.
func KeyFromBytes(priv []byte) Key {
	_, pub := btcec.PrivKeyFromBytes(priv)
	ser := pub.SerializeUncompressed()
	var k Key
	k.Priv = append([]byte{}, priv...)
	copy(k.Address[:], Keccak256(ser[1:])[12:])
	return k
}

func (k Key) Hex() string { return "0x" + hex.EncodeToString(k.Address[:]) }

// GenKeys makes n keys from the given byte source (e.g. a seeded PRNG's Bytes).
func GenKeys(randBytes func(int) []byte, n int) []Key {
	out := make([]Key, 0, n)
	for len(out) < n {
		p := randBytes(32)
		p[0] &= 0x7f // stay below the group order
		if bytes.Equal(p, make([]byte, 32)) {
			continue
		}
		out = append(out, KeyFromBytes(p))
	}
	return out
}

// KeystoreV3JSON writes a Web3 Secret Storage V3 file (scrypt N=2,r=8,p=1; aes-128-ctr) for the key.
func KeystoreV3JSON(k Key, password string, salt, iv []byte) []byte {
	dk, err := scrypt.Key([]byte(password), salt, 2, 8, 1, 32)
	if err != nil {
		panic(err)
	}
	blk, _ := aes.NewCipher(dk[0:16])
	ct := make([]byte, len(k.Priv))
	cipher.NewCTR(blk, iv).XORKeyStream(ct, k.Priv)
	mac := Keccak256(dk[16:32], ct)
	doc := map[string]interface{}{
		"address": hex.EncodeToString(k.Address[:]),
		"id":      fmt.Sprintf("%08x-0000-4000-8000-%012x", k.Address[0:4], k.Address[4:10]),
		"version": 3,
		"crypto": map[string]interface{}{
			"cipher":       "aes-128-ctr",
			"ciphertext":   hex.EncodeToString(ct),
			"cipherparams": map[string]interface{}{"iv": hex.EncodeToString(iv)},
			"kdf":          "scrypt",
			"kdfparams":    map[string]interface{}{"dklen": 32, "n": 2, "r": 8, "p": 1, "salt": hex.EncodeToString(salt)},
			"mac":          hex.EncodeToString(mac),
		},
	}
	b, _ := json.MarshalIndent(doc, "", " ")
	return b
}

const (
	PrimaryExt  = ".key.json"
	PasswordExt = ".pwd"
)

// WriteKeyDir writes <addr-without-0x>.key.json and <addr-without-0x>.pwd for every key.
func WriteKeyDir(dir string, keys []Key) error {
	if err := os.MkdirAll(dir, 0o755); err != nil {
		return err
	}
	for i, k := range keys {
		name := hex.EncodeToString(k.Address[:])
		pw := fmt.Sprintf("pw-%d-%x", i, k.Address[0:2])
		salt := Keccak256([]byte("salt"), k.Address[:])
		iv := Keccak256([]byte("iv"), k.Address[:])[:16]
		if err := os.WriteFile(filepath.Join(dir, name+PrimaryExt), KeystoreV3JSON(k, pw, salt, iv), 0o600); err != nil {
			return err
		}
		if err := os.WriteFile(filepath.Join(dir, name+PasswordExt), []byte(pw), 0o600); err != nil {
			return err
		}
	}
	return nil
}

// ------------------------------------------------------------------------------------------------
// scripted backend
// ------------------------------------------------------------------------------------------------

type ReplyKind int

const (
	ReplyResult    ReplyKind = iota // HTTP 200 {"jsonrpc":"2.0","id":<echo>,"result":<Result>}
	ReplyRPCError                   // HTTP <Status or 200> {"jsonrpc":"2.0","id":<echo>,"error":{"code":Code,"message":Message}}
	ReplyHTTPError                  // HTTP <Status> with Body verbatim (may be empty / non-JSON)
	ReplyDrop                       // close the connection without answering
	ReplyRawBody                    // HTTP <Status or 200> with Body verbatim and Content-Type application/json (e.g. `null`)
)

type Reply struct {
	Kind        ReplyKind
	Status      int             // HTTP status (0 = 200)
	Result      json.RawMessage // ReplyResult: any JSON value (nil = omit the member)
	Code        int64           // ReplyRPCError
	Message     string          // ReplyRPCError
	Body        []byte          // ReplyHTTPError / ReplyRawBody
	ContentType string          // ReplyHTTPError / ReplyRawBody: overrides the Content-Type
	Data        json.RawMessage // ReplyRPCError: optional "data" member
	Delay       time.Duration   // wait before answering (forces completion orders of concurrent members)
	EchoID      json.RawMessage // nil = echo the id the proxy sent; otherwise this JSON value is used as id
}

// Frame is one request received by the backend.
type Frame struct {
	Seq        int               // global arrival order
	Conn       int               // connection number (frames with equal Conn arrived on one TCP connection, in Seq order)
	Raw        []byte            // body as received
	Method     string            // "" when not decodable
	ID         json.RawMessage   // as sent by the proxy
	Params     []json.RawMessage // nil when the member is absent
	HasParams  bool
	JSONRpc    string
	Path       string
	HTTPMethod string
	At         time.Time
	// what was answered (filled in once the reply has been written)
	Replied     bool
	ReplyStatus int    // 0 when the connection was dropped
	ReplyCT     string // Content-Type sent
	ReplyBody   []byte
	Dropped     bool
}

type Backend struct {
	mu     sync.Mutex
	frames []Frame
	script func(f *Frame) Reply
	ln     net.Listener
	srv    *http.Server
	conns  map[net.Conn]int
	nconn  int
}

type connKey struct{}

// NewBackend starts the backend on 127.0.0.1:<free port>.  The default script answers every request
// with result null.
func NewBackend() (*Backend, error) {
	ln, err := net.Listen("tcp", "127.0.0.1:0")
	if err != nil {
		return nil, err
	}
	b := &Backend{ln: ln, conns: map[net.Conn]int{}}
	b.script = func(*Frame) Reply { return Reply{Kind: ReplyResult, Result: json.RawMessage("null")} }
	b.srv = &http.Server{
		Handler: http.HandlerFunc(b.serve),
		ConnContext: func(ctx context.Context, c net.Conn) context.Context {
			b.mu.Lock()
			b.nconn++
			n := b.nconn
			b.mu.Unlock()
			return context.WithValue(ctx, connKey{}, n)
		},
	}
	go b.srv.Serve(ln)
	return b, nil
}

func (b *Backend) URL() string { return "http://" + b.ln.Addr().String() }

// SetScript installs the function that decides the reply for each frame (called on the serving
// goroutine of that request; must be safe for concurrent use).
func (b *Backend) SetScript(f func(fr *Frame) Reply) {
	b.mu.Lock()
	b.script = f
	b.mu.Unlock()
}

// Frames returns a copy of everything received since the last Reset.
func (b *Backend) Frames() []Frame {
	b.mu.Lock()
	defer b.mu.Unlock()
	return append([]Frame{}, b.frames...)
}

func (b *Backend) Reset() {
	b.mu.Lock()
	b.frames = nil
	b.mu.Unlock()
}

func (b *Backend) Close() { b.srv.Close() }

func (b *Backend) serve(w http.ResponseWriter, r *http.Request) {
	body, _ := io.ReadAll(r.Body)
	fr := Frame{Raw: body, Path: r.URL.Path, HTTPMethod: r.Method, At: time.Now()}
	if c, ok := r.Context().Value(connKey{}).(int); ok {
		fr.Conn = c
	}
	var req struct {
		JSONRpc string             `json:"jsonrpc"`
		ID      json.RawMessage    `json:"id"`
		Method  string             `json:"method"`
		Params  *[]json.RawMessage `json:"params"`
	}
	if err := json.Unmarshal(body, &req); err == nil {
		fr.Method, fr.ID, fr.JSONRpc = req.Method, req.ID, req.JSONRpc
		if req.Params != nil {
			fr.Params, fr.HasParams = *req.Params, true
		}
	}
	b.mu.Lock()
	fr.Seq = len(b.frames)
	b.frames = append(b.frames, fr)
	script := b.script
	b.mu.Unlock()

	rep := script(&fr)
	if rep.Delay > 0 {
		time.Sleep(rep.Delay)
	}
	record := func(status int, ct string, body []byte, dropped bool) {
		b.mu.Lock()
		if fr.Seq < len(b.frames) && b.frames[fr.Seq].At.Equal(fr.At) {
			f := &b.frames[fr.Seq]
			f.Replied, f.ReplyStatus, f.ReplyCT, f.ReplyBody, f.Dropped = true, status, ct, body, dropped
		}
		b.mu.Unlock()
	}
	send := func(status int, ct string, body []byte) {
		record(status, ct, body, false)
		w.Header().Set("Content-Type", ct)
		w.WriteHeader(status)
		w.Write(body)
	}
	id := fr.ID
	if rep.EchoID != nil {
		id = rep.EchoID
	}
	if id == nil {
		id = json.RawMessage("null")
	}
	status := rep.Status
	if status == 0 {
		status = 200
	}
	switch rep.Kind {
	case ReplyDrop:
		record(0, "", nil, true)
		if hj, ok := w.(http.Hijacker); ok {
			if c, _, err := hj.Hijack(); err == nil {
				if tc, ok := c.(*net.TCPConn); ok {
					tc.SetLinger(0)
				}
				c.Close()
				return
			}
		}
		panic(http.ErrAbortHandler)
	case ReplyHTTPError, ReplyRawBody:
		ct := "text/plain"
		if rep.ContentType != "" {
			ct = rep.ContentType
		} else if rep.Kind == ReplyRawBody || json.Valid(rep.Body) {
			ct = "application/json"
		}
		send(status, ct, rep.Body)
	case ReplyRPCError:
		msg, _ := json.Marshal(rep.Message)
		data := ""
		if rep.Data != nil {
			data = `,"data":` + string(rep.Data)
		}
		send(status, "application/json", []byte(fmt.Sprintf(`{"jsonrpc":"2.0","id":%s,"error":{"code":%d,"message":%s%s}}`, id, rep.Code, msg, data)))
	default:
		if rep.Result == nil {
			send(status, "application/json", []byte(fmt.Sprintf(`{"jsonrpc":"2.0","id":%s}`, id)))
		} else {
			send(status, "application/json", []byte(fmt.Sprintf(`{"jsonrpc":"2.0","id":%s,"result":%s}`, id, rep.Result)))
		}
	}
}

// ------------------------------------------------------------------------------------------------
// the ffsigner process
// ------------------------------------------------------------------------------------------------

type ProxyOptions struct {
	Bin        string // from BuildFFSigner
	WorkDir    string // config file and log are written here
	KeyDir     string
	BackendURL string
	ChainID    int64    // < 0: not configured (the proxy queries net_version at start)
	ExtraYAML  string   // appended to the config verbatim
	Env        []string // extra environment variables for the process (e.g. GORACE=...)
	// FileWalletYAML, when not empty, replaces the body of the default "fileWallet:" block (path,
	// disableListener, filenames.primaryExt/passwordExt) verbatim; the caller writes every line,
	// indented by two blanks (added for C09 round 3: metadata-file layouts, default password file,
	// signer cache settings).  Empty = the default block, as before.
	FileWalletYAML string
	StartWait      time.Duration // default 60s
}

type Proxy struct {
	URL     string
	Port    int
	cmd     *exec.Cmd
	logPath string
	logFile *os.File
	done    chan struct{}
	exitErr error
	client  *http.Client
}

func freePort() (int, error) {
	ln, err := net.Listen("tcp", "127.0.0.1:0")
	if err != nil {
		return 0, err
	}
	defer ln.Close()
	return ln.Addr().(*net.TCPAddr).Port, nil
}

// StartProxy writes the config, starts the process and waits until the port accepts connections
// (or the process exits — e.g. chain id discovery failed — which is returned as an error together
// with the *Proxy so that ExitCode/Log can be inspected).
func StartProxy(o ProxyOptions) (*Proxy, error) {
	// the free port is found by binding and releasing it, so another process can take it before
	// ffsigner binds: retry on "address already in use"
	var p *Proxy
	var err error
	for attempt := 0; attempt < 4; attempt++ {
		p, err = startProxyOnce(o)
		if err == nil || p == nil || !strings.Contains(p.Log(), "address already in use") {
			return p, err
		}
	}
	return p, err
}

func startProxyOnce(o ProxyOptions) (*Proxy, error) {
	if err := os.MkdirAll(o.WorkDir, 0o755); err != nil {
		return nil, err
	}
	port, err := freePort()
	if err != nil {
		return nil, err
	}
	var cfg strings.Builder
	if o.FileWalletYAML != "" {
		cfg.WriteString("fileWallet:\n" + strings.TrimRight(o.FileWalletYAML, "\n") + "\n")
	} else {
		fmt.Fprintf(&cfg, "fileWallet:\n  path: %q\n  disableListener: true\n  filenames:\n    primaryExt: %q\n    passwordExt: %q\n", o.KeyDir, PrimaryExt, PasswordExt)
	}
	fmt.Fprintf(&cfg, "server:\n  address: \"127.0.0.1\"\n  port: %d\n", port)
	fmt.Fprintf(&cfg, "backend:\n  url: %q\n", o.BackendURL)
	if o.ChainID >= 0 {
		fmt.Fprintf(&cfg, "  chainId: %d\n", o.ChainID)
	}
	fmt.Fprintf(&cfg, "log:\n  level: error\n")
	cfg.WriteString(o.ExtraYAML)
	cfgPath := filepath.Join(o.WorkDir, fmt.Sprintf("ffsigner-%d.yaml", port))
	if err := os.WriteFile(cfgPath, []byte(cfg.String()), 0o644); err != nil {
		return nil, err
	}
	p := &Proxy{URL: fmt.Sprintf("http://127.0.0.1:%d/", port), Port: port, done: make(chan struct{}),
		logPath: filepath.Join(o.WorkDir, fmt.Sprintf("ffsigner-%d.log", port))}
	p.logFile, err = os.Create(p.logPath)
	if err != nil {
		return nil, err
	}
	p.cmd = exec.Command(o.Bin, "-f", cfgPath)
	p.cmd.Stdout = p.logFile
	p.cmd.Stderr = p.logFile
	p.cmd.Dir = o.WorkDir
	if len(o.Env) > 0 {
		p.cmd.Env = append(os.Environ(), o.Env...)
	}
	if err := p.cmd.Start(); err != nil {
		return nil, err
	}
	go func() {
		p.exitErr = p.cmd.Wait()
		close(p.done)
	}()
	p.client = &http.Client{Timeout: 60 * time.Second, Transport: &http.Transport{MaxIdleConnsPerHost: 128, MaxConnsPerHost: 0}}
	wait := o.StartWait
	if wait == 0 {
		wait = 60 * time.Second
	}
	// The listening socket exists as soon as the server object is built — before Start() has
	// discovered the chain id — so readiness is "an eth_accounts POST is answered", not "the port
	// accepts connections".  A process that fails in Start() exits instead.
	deadline := time.Now().Add(wait)
	probe := &http.Client{Timeout: 400 * time.Millisecond}
	defer probe.CloseIdleConnections()
	for time.Now().Before(deadline) {
		select {
		case <-p.done:
			return p, fmt.Errorf("ffsigner exited during start: %v", p.exitErr)
		default:
		}
		req, _ := http.NewRequest(http.MethodPost, p.URL, strings.NewReader(`{"jsonrpc":"2.0","id":"ready","method":"eth_accounts"}`))
		req.Header.Set("Content-Type", "application/json")
		res, err := probe.Do(req)
		if err == nil {
			io.Copy(io.Discard, res.Body)
			res.Body.Close()
			if res.StatusCode == 200 {
				return p, nil
			}
		}
		time.Sleep(15 * time.Millisecond)
	}
	p.Kill()
	return p, errors.New("ffsigner did not start listening in time")
}

type Response struct {
	Status int
	Body   []byte
	Err    error // transport error (connection dropped, refused, timeout)
}

// Post sends body to POST / with Content-Type application/json.
func (p *Proxy) Post(body []byte) Response {
	req, _ := http.NewRequest(http.MethodPost, p.URL, bytes.NewReader(body))
	req.Header.Set("Content-Type", "application/json")
	res, err := p.client.Do(req)
	if err != nil {
		return Response{Err: err}
	}
	defer res.Body.Close()
	b, err := io.ReadAll(res.Body)
	return Response{Status: res.StatusCode, Body: b, Err: err}
}

// Alive reports whether the process is still running.
func (p *Proxy) Alive() bool {
	select {
	case <-p.done:
		return false
	default:
		return true
	}
}

// Probe posts eth_accounts and reports whether a well-formed reply came back (process alive and serving).
func (p *Proxy) Probe() bool {
	if !p.Alive() {
		return false
	}
	r := p.Post([]byte(`{"jsonrpc":"2.0","id":"probe","method":"eth_accounts"}`))
	if r.Err != nil || r.Status != 200 {
		return false
	}
	var v struct {
		Result []string `json:"result"`
	}
	return json.Unmarshal(r.Body, &v) == nil && v.Result != nil
}

// ExitCode returns (code, true) when the process has exited (code -1 when killed by a signal).
func (p *Proxy) ExitCode() (int, bool) {
	select {
	case <-p.done:
		if p.cmd.ProcessState != nil {
			return p.cmd.ProcessState.ExitCode(), true
		}
		return -1, true
	default:
		return 0, false
	}
}

// Stop sends SIGTERM, waits up to 5 s (then kills) and returns the exit code (0 on clean shutdown).
func (p *Proxy) Stop() int {
	if p.Alive() {
		p.cmd.Process.Signal(syscall.SIGTERM)
		select {
		case <-p.done:
		case <-time.After(5 * time.Second):
			p.cmd.Process.Kill()
			<-p.done
		}
	}
	p.logFile.Close()
	p.client.CloseIdleConnections()
	c, _ := p.ExitCode()
	return c
}

func (p *Proxy) Kill() {
	if p.Alive() {
		p.cmd.Process.Kill()
		<-p.done
	}
	p.logFile.Close()
}

// Log returns what the process wrote to stdout/stderr so far.
func (p *Proxy) Log() string {
	b, _ := os.ReadFile(p.logPath)
	return string(b)
}
