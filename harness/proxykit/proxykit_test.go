package proxykit

import (
	"encoding/json"
	"os"
	"path/filepath"
	"testing"
	"time"
)

// Smoke test of the kit against the real binary:
//
//	cd /verif/harness && go test -modfile=/verif/.build/mod/go.mod -count=1 ./proxykit
func TestSmoke(t *testing.T) {
	dir := t.TempDir()
	bin, err := BuildFFSigner(filepath.Join(dir, "bin"))
	if err != nil {
		t.Fatal(err)
	}
	n := byte(0)
	keys := GenKeys(func(k int) []byte {
		b := make([]byte, k)
		for i := range b {
			n++
			b[i] = n*37 + 11
		}
		return b
	}, 3)
	if err := WriteKeyDir(filepath.Join(dir, "keys"), keys); err != nil {
		t.Fatal(err)
	}
	be, err := NewBackend()
	if err != nil {
		t.Fatal(err)
	}
	defer be.Close()
	be.SetScript(func(f *Frame) Reply {
		switch f.Method {
		case "net_version":
			return Reply{Kind: ReplyResult, Result: json.RawMessage(`"2022"`)}
		case "eth_getTransactionCount":
			return Reply{Kind: ReplyResult, Result: json.RawMessage(`"0x5"`)}
		case "slow":
			return Reply{Kind: ReplyResult, Result: json.RawMessage(`1`), Delay: 50 * time.Millisecond}
		}
		return Reply{Kind: ReplyResult, Result: json.RawMessage(`"0xabc"`)}
	})
	p, err := StartProxy(ProxyOptions{Bin: bin, WorkDir: filepath.Join(dir, "run"), KeyDir: filepath.Join(dir, "keys"), BackendURL: be.URL(), ChainID: -1})
	if err != nil {
		if p != nil {
			t.Log(p.Log())
		}
		t.Fatal(err)
	}
	if !p.Probe() {
		t.Fatal("probe failed\n" + p.Log())
	}
	r := p.Post([]byte(`{"jsonrpc":"2.0","id":7,"method":"eth_sendTransaction","params":[{"from":"` + keys[0].Hex() + `","gas":"0x5208","to":"0x0000000000000000000000000000000000000001","value":1}]}`))
	t.Logf("status %d body %s err %v", r.Status, r.Body, r.Err)
	for _, f := range be.Frames() {
		t.Logf("frame seq=%d conn=%d %s", f.Seq, f.Conn, f.Raw)
	}
	r = p.Post([]byte(`[{"jsonrpc":"2.0","id":1,"method":"slow"},{"jsonrpc":"2.0","id":2,"method":"fast","params":[1,{"a":[]}]}]`))
	t.Logf("status %d body %s err %v", r.Status, r.Body, r.Err)
	if code := p.Stop(); code != 0 {
		t.Fatalf("exit code %d\n%s", code, p.Log())
	}
	if _, err := os.Stat(filepath.Join(dir, "run")); err != nil {
		t.Fatal(err)
	}
}
