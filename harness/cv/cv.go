// Package cv holds what every harness command shares: the seeded PRNG, the byte-DSL and Coq term
// printers, the sharded case-file writer and the statistics record read by ./check.
package cv

import (
	"bufio"
	"encoding/hex"
	"encoding/json"
	"fmt"
	"math/bits"
	"os"
	"path/filepath"
	"strconv"
	"strings"
)

// ---------- PRNG (splitmix64), seeded from VERIF_SEED ----------

type Rand struct{ s uint64 }

func NewRand(stream uint64) *Rand {
	seed := uint64(1)
	if v := os.Getenv("VERIF_SEED"); v != "" {
		if n, err := strconv.ParseInt(v, 10, 64); err == nil {
			seed = uint64(n)
		}
	}
	// seed and stream are each passed through the splitmix64 finaliser before they are combined: the
	// generator's state advances by the golden-ratio constant per draw, so a state that is linear in
	// the seed would make seed k+1 the sequence of seed k shifted by one draw
	return &Rand{s: mix64(seed+0x1234567) ^ mix64(stream*0xBF58476D1CE4E5B9+0x9E3779B97F4A7C15)}
}

func mix64(z uint64) uint64 {
	z = (z ^ (z >> 30)) * 0xBF58476D1CE4E5B9
	z = (z ^ (z >> 27)) * 0x94D049BB133111EB
	return z ^ (z >> 31)
}

func Seed() int64 {
	if v := os.Getenv("VERIF_SEED"); v != "" {
		if n, err := strconv.ParseInt(v, 10, 64); err == nil {
			return n
		}
	}
	return 1
}

func (r *Rand) U64() uint64 {
	r.s += 0x9E3779B97F4A7C15
	z := r.s
	z = (z ^ (z >> 30)) * 0xBF58476D1CE4E5B9
	z = (z ^ (z >> 27)) * 0x94D049BB133111EB
	return z ^ (z >> 31)
}
func (r *Rand) Intn(n int) int {
	if n <= 0 {
		return 0
	}
	return int(r.U64() % uint64(n))
}
func (r *Rand) Bool() bool { return r.U64()&1 == 1 }
func (r *Rand) Byte() byte { return byte(r.U64()) }
func (r *Rand) Bytes(n int) []byte {
	b := make([]byte, n)
	for i := range b {
		b[i] = r.Byte()
	}
	return b
}
func (r *Rand) Pick(xs []int) int { return xs[r.Intn(len(xs))] }

// ---------- byte-DSL ----------

// DSL is Lit | Rep | Cat; mirrors Base/Bytes.v bdsl.
type DSL struct {
	Lit []byte
	Rep *struct {
		B byte
		N int
	}
	Cat []DSL
}

func Lit(b []byte) DSL { return DSL{Lit: append([]byte{}, b...)} }
func Rep(b byte, n int) DSL {
	return DSL{Rep: &struct {
		B byte
		N int
	}{b, n}}
}
func Cat(ds ...DSL) DSL { return DSL{Cat: ds} }

func (d DSL) Expand() []byte {
	switch {
	case d.Rep != nil:
		out := make([]byte, d.Rep.N)
		for i := range out {
			out[i] = d.Rep.B
		}
		return out
	case d.Cat != nil:
		var out []byte
		for _, c := range d.Cat {
			out = append(out, c.Expand()...)
		}
		return out
	default:
		return append([]byte{}, d.Lit...)
	}
}

func (d DSL) Coq() string {
	switch {
	case d.Rep != nil:
		return fmt.Sprintf("(BRep %d %d)", d.Rep.B, d.Rep.N)
	case d.Cat != nil:
		parts := make([]string, len(d.Cat))
		for i, c := range d.Cat {
			parts[i] = c.Coq()
		}
		return "(BCat [" + strings.Join(parts, "; ") + "])"
	default:
		return CoqBytes(d.Lit)
	}
}

// CoqBytes prints a byte string as a bdsl literal: seven bytes per primitive integer.
func CoqBytes(b []byte) string {
	if len(b) == 0 {
		return `(BLit "")`
	}
	var sb strings.Builder
	fmt.Fprintf(&sb, "(BI %d [", len(b))
	for i := 0; i < len(b); i += 7 {
		j := i + 7
		if j > len(b) {
			j = len(b)
		}
		if i > 0 {
			sb.WriteString("; ")
		}
		sb.WriteString("0x" + hex.EncodeToString(b[i:j]))
	}
	sb.WriteString("]%uint63)")
	return sb.String()
}

// Describe gives a short human-readable form for replay/evidence files.
func (d DSL) Describe() string {
	switch {
	case d.Rep != nil:
		return fmt.Sprintf("rep(0x%02x,%d)", d.Rep.B, d.Rep.N)
	case d.Cat != nil:
		parts := make([]string, len(d.Cat))
		for i, c := range d.Cat {
			parts[i] = c.Describe()
		}
		return "cat(" + strings.Join(parts, ",") + ")"
	default:
		if len(d.Lit) > 96 {
			return hex.EncodeToString(d.Lit[:96]) + fmt.Sprintf("...(%d bytes)", len(d.Lit))
		}
		return hex.EncodeToString(d.Lit)
	}
}

// Compress turns a byte string into a compact DSL: runs of one byte longer than 64 become Rep.
func Compress(b []byte) DSL {
	if len(b) <= 64 {
		return Lit(b)
	}
	var parts []DSL
	start := 0
	i := 0
	for i < len(b) {
		j := i
		for j < len(b) && b[j] == b[i] {
			j++
		}
		if j-i > 64 {
			if i > start {
				parts = append(parts, Lit(b[start:i]))
			}
			parts = append(parts, Rep(b[i], j-i))
			start = j
		}
		i = j
	}
	if start < len(b) {
		parts = append(parts, Lit(b[start:]))
	}
	if len(parts) == 1 {
		return parts[0]
	}
	return Cat(parts...)
}

// ---------- checksum (Base/Bytes.v cks) ----------

const CksP = uint64(2305843009213693951)

func mulmod(a, b, m uint64) uint64 {
	hi, lo := bits.Mul64(a%m, b%m)
	_, rem := bits.Div64(hi, lo, m)
	return rem
}

// Cks returns (len, sum (i+1)*b_i mod p, sum b_i).
func Cks(l []byte) (uint64, uint64, uint64) {
	var a, b uint64
	for i, x := range l {
		a = (a + mulmod(uint64(i+1), uint64(x), CksP)) % CksP
		b += uint64(x)
	}
	return uint64(len(l)), a, b
}

// ---------- case files ----------

// Writer shards cases over several .v files so that coqc can evaluate them in parallel, and keeps
// a parallel JSONL description of every case for replay files.
type Writer struct {
	Dir      string
	ID       string
	Header   string // Coq imports
	ListType string // e.g. "case"
	Eval     string // e.g. "mismatches"
	Shards   int
	cases    [][]string
	descs    [][]json.RawMessage
	n        int
}

func NewWriter(dir, id, header, listType, eval string, shards int) *Writer {
	return &Writer{Dir: dir, ID: id, Header: header, ListType: listType, Eval: eval, Shards: shards,
		cases: make([][]string, shards), descs: make([][]json.RawMessage, shards)}
}

// Add appends a case (Coq term) with its description (any JSON-serialisable value).
func (w *Writer) Add(coqTerm string, desc interface{}) {
	k := w.n % w.Shards
	w.cases[k] = append(w.cases[k], coqTerm)
	b, _ := json.Marshal(desc)
	w.descs[k] = append(w.descs[k], b)
	w.n++
}

func (w *Writer) Count() int { return w.n }

// Flush writes cases_<ID>_<k>.v and cases_<ID>_<k>.jsonl.
func (w *Writer) Flush() error {
	for k := 0; k < w.Shards; k++ {
		if len(w.cases[k]) == 0 {
			continue
		}
		base := filepath.Join(w.Dir, fmt.Sprintf("cases_%s_%d", w.ID, k))
		f, err := os.Create(base + ".v")
		if err != nil {
			return err
		}
		bw := bufio.NewWriter(f)
		fmt.Fprintln(bw, w.Header)
		fmt.Fprintf(bw, "Definition cases : list %s := [\n", w.ListType)
		for i, c := range w.cases[k] {
			sep := ";"
			if i == len(w.cases[k])-1 {
				sep = ""
			}
			fmt.Fprintf(bw, "  %s%s\n", c, sep)
		}
		fmt.Fprintln(bw, "].")
		fmt.Fprintf(bw, "Definition M := Eval vm_compute in (%s cases).\nPrint M.\n", w.Eval)
		bw.Flush()
		f.Close()
		g, err := os.Create(base + ".jsonl")
		if err != nil {
			return err
		}
		gw := bufio.NewWriter(g)
		for _, d := range w.descs[k] {
			gw.Write(d)
			gw.WriteByte('\n')
		}
		gw.Flush()
		g.Close()
	}
	return nil
}

// ---------- statistics ----------

type Stats struct {
	Evaluations  int                    `json:"evaluations"`
	Distinct     int                    `json:"distinct_nontrivial"`
	Rule         string                 `json:"rule"`
	Samples      []interface{}          `json:"samples"`
	Distribution map[string]int         `json:"input_distribution"`
	Exhaustive   bool                   `json:"exhaustive,omitempty"`
	ImplFailures []interface{}          `json:"impl_oracle_failures"` // property oracles evaluated on the implementation alone
	Extra        map[string]interface{} `json:"extra,omitempty"`
}

func NewStats() *Stats {
	return &Stats{Distribution: map[string]int{}, Extra: map[string]interface{}{}, ImplFailures: []interface{}{}, Samples: []interface{}{}}
}
func (s *Stats) Hit(k string) { s.Distribution[k]++ }
func (s *Stats) Write(path string) error {
	b, err := json.MarshalIndent(s, "", " ")
	if err != nil {
		return err
	}
	return os.WriteFile(path, b, 0o644)
}
