package cv

import "bytes"

// Arena hands out byte slices that are consecutive sub-slices of ONE backing array, each with spare
// capacity reaching to the end of the arena (cap > len).  Inputs built this way expose code under test
// that appends to, or writes through, a slice it was given (the write lands in the next input), and
// code that returns an input slice as its result: after the call the arena is compared with a snapshot.
type Arena struct {
	buf []byte
	off int
}

func NewArena(size int) *Arena { return &Arena{buf: make([]byte, size)} }

// Put copies b into the arena and returns the arena's slice for it (len(b) bytes, capacity to the end
// of the arena); a fresh allocation when the arena is full.
func (a *Arena) Put(b []byte) []byte {
	if a.off+len(b) > len(a.buf)-16 {
		return append([]byte{}, b...)
	}
	s := a.buf[a.off : a.off+len(b)]
	copy(s, b)
	a.off += len(b)
	return s
}

func (a *Arena) Snapshot() []byte { return append([]byte{}, a.buf...) }

func (a *Arena) Unchanged(snap []byte) bool { return bytes.Equal(a.buf, snap) }

// Len is the expanded length of a DSL value, computed without expanding it.
func (d DSL) Len() int {
	switch {
	case d.Rep != nil:
		return d.Rep.N
	case d.Cat != nil:
		n := 0
		for _, c := range d.Cat {
			n += c.Len()
		}
		return n
	default:
		return len(d.Lit)
	}
}
