// Command c08: correspondence harness for property C08 (the file-system wallet only signs with the
// key that owns the requested address).  It builds real temporary wallet directories, drives
// pkg/fswallet through its public API with generated request histories, recovers the signer of every
// returned transaction / typed-data signature with btcec directly, fills the oracle tables of the
// Coq model by calling the libraries (regexp, text/template, toml/yaml/json, x/crypto) directly and
// writes the cases for Wallet/Run.v.
package main

import (
	"context"
	"encoding/hex"
	"encoding/json"
	"flag"
	"fmt"
	"io"
	"math/big"
	"os"
	"path/filepath"
	"sort"
	"strings"
	"sync"
	"time"

	"github.com/fsnotify/fsnotify"
	"github.com/hyperledger/firefly-common/pkg/config"
	"github.com/hyperledger/firefly-signer/pkg/eip712"
	"github.com/hyperledger/firefly-signer/pkg/ethsigner"
	"github.com/hyperledger/firefly-signer/pkg/ethtypes"
	"github.com/hyperledger/firefly-signer/pkg/fswallet"
	"github.com/hyperledger/firefly-signer/pkg/keystorev3"
	"github.com/sirupsen/logrus"

	"verifharness/cv"
)

// ---------------------------------------------------------------------------------------------
// case description
// ---------------------------------------------------------------------------------------------

const (
	kDir   = 0
	kFile  = 1
	kUnrd  = 2 // listed as a regular entry, reading fails (symbolic link to a directory)
	chainA = int64(1337)
)

type fsEntry struct {
	Path    string `json:"path"`
	Kind    int    `json:"kind"`
	Content []byte `json:"content,omitempty"`
}

type hop struct {
	Op      string `json:"op"` // refresh accounts sign signtd getwf write remove
	Raw     []byte `json:"raw,omitempty"`
	Addr    []byte `json:"addr,omitempty"`
	Path    string `json:"path,omitempty"`
	Kind    int    `json:"kind,omitempty"`
	Content []byte `json:"content,omitempty"`
	Want    []byte `json:"-"` // address the generator meant the request to name (nil: none)
	Barrier []byte `json:"-"` // write of a fresh matching file: wait until the listener has reported this address
	Tx1559  bool   `json:"tx1559,omitempty"`
	Shape   int    `json:"shape,omitempty"`   // transaction shape (newTx)
	ChainID int64  `json:"chainId,omitempty"` // 0 in a generated hop means chainA (see chainOf)
	Chain0  bool   `json:"chain0,omitempty"`  // the chain id really is 0
	// observations
	Cls      int      `json:"cls"`
	Signer   []byte   `json:"signer,omitempty"`
	Accounts [][]byte `json:"accounts,omitempty"`
	ErrText  string   `json:"err,omitempty"`
}

type wcase struct {
	Index    int             `json:"index"`
	Label    string          `json:"label"`
	Conf     fswallet.Config `json:"conf"`
	Listener bool            `json:"listener"`
	FS       []fsEntry       `json:"fs"`
	Hist     []*hop          `json:"hist"`
	NewCls   int             `json:"new_cls"`
	NewErr   string          `json:"new_err,omitempty"`
	// round 3: addresses of the stress section (Go-side oracles only, see stress) and what it found
	Stress         [][]byte `json:"-"`
	StressFailures []string `json:"-"`
	stressRuns     int
}

// ---------------------------------------------------------------------------------------------
// running the implementation
// ---------------------------------------------------------------------------------------------

func materialise(e fsEntry) error {
	switch e.Kind {
	case kDir:
		return os.MkdirAll(e.Path, 0o755)
	case kFile:
		os.MkdirAll(filepath.Dir(e.Path), 0o755)
		return os.WriteFile(e.Path, e.Content, 0o644)
	default:
		os.MkdirAll(filepath.Dir(e.Path), 0o755)
		os.Remove(e.Path)
		return os.Symlink(".", e.Path)
	}
}

func classify(err error, panicked bool) int {
	if panicked {
		return 2
	}
	if err != nil {
		return 1
	}
	return 0
}

var typedDoc = `{"types":{"EIP712Domain":[{"name":"name","type":"string"},{"name":"chainId","type":"uint256"}],` +
	`"Mail":[{"name":"to","type":"address"},{"name":"contents","type":"string"}]},"primaryType":"Mail",` +
	`"domain":{"name":"c08","chainId":1337},"message":{"to":"0x00000000000000000000000000000000000000aa","contents":"hello"}}`

func typedData() *eip712.TypedData {
	var td eip712.TypedData
	if err := json.Unmarshal([]byte(typedDoc), &td); err != nil {
		panic(err)
	}
	return &td
}

func chainOf(h *hop) int64 {
	if h.ChainID == 0 && !h.Chain0 {
		return chainA
	}
	return h.ChainID
}

// transaction shapes (round 3): 0 = the plain one; 1 only maxFeePerGas; 2 only maxPriorityFeePerGas;
// 3 contract creation (no to, no data); 4 every numeric field absent; 5 large value and long data;
// 6 both EIP-1559 fields present but zero (legacy signing); 7 a single data byte below 0x80
func newTx(raw []byte, eip1559 bool, shape int) *ethsigner.Transaction {
	to := ethtypes.MustNewAddress("0x00000000000000000000000000000000000000bb")
	tx := &ethsigner.Transaction{
		From:     json.RawMessage(raw),
		Nonce:    ethtypes.NewHexInteger64(7),
		GasLimit: ethtypes.NewHexInteger64(21000),
		To:       to,
		Value:    ethtypes.NewHexInteger64(1000),
		Data:     []byte{0xca, 0xfe},
	}
	if eip1559 {
		tx.MaxPriorityFeePerGas = ethtypes.NewHexInteger64(2)
		tx.MaxFeePerGas = ethtypes.NewHexInteger64(30)
	} else {
		tx.GasPrice = ethtypes.NewHexInteger64(20)
	}
	switch shape {
	case 1:
		tx.MaxPriorityFeePerGas, tx.MaxFeePerGas, tx.GasPrice = nil, ethtypes.NewHexInteger64(30), nil
	case 2:
		tx.MaxPriorityFeePerGas, tx.MaxFeePerGas, tx.GasPrice = ethtypes.NewHexInteger64(1), nil, ethtypes.NewHexInteger64(20)
	case 3:
		tx.To, tx.Data = nil, nil
	case 4:
		tx.Nonce, tx.GasLimit, tx.Value, tx.GasPrice, tx.MaxPriorityFeePerGas, tx.MaxFeePerGas = nil, nil, nil, nil, nil, nil
	case 5:
		tx.Value = (*ethtypes.HexInteger)(new(big.Int).Lsh(big.NewInt(1), 200))
		tx.Nonce = ethtypes.NewHexInteger64(0)
		d := make([]byte, 300)
		for i := range d {
			d[i] = byte(i * 7)
		}
		tx.Data = d
	case 6:
		tx.MaxPriorityFeePerGas, tx.MaxFeePerGas, tx.GasPrice = ethtypes.NewHexInteger64(0), ethtypes.NewHexInteger64(0), ethtypes.NewHexInteger64(1)
	case 7:
		tx.Data = []byte{0x7f}
		tx.Nonce = ethtypes.NewHexInteger64(128)
	}
	return tx
}

// buildConf goes through the package's own configuration reader (config.go: InitConfig defaults and
// ReadConfig field mapping), leaving a key unset whenever the wanted value is the documented default.
func buildConf(c *wcase) *fswallet.Config {
	config.RootConfigReset()
	sec := config.RootSection("c08wallet")
	fswallet.InitConfig(sec)
	x := c.Conf
	set := func(k string, v interface{}, isDefault bool) {
		if !isDefault {
			sec.Set(k, v)
		}
	}
	set(fswallet.ConfigPath, x.Path, false)
	set(fswallet.ConfigDefaultPasswordFile, x.DefaultPasswordFile, x.DefaultPasswordFile == "")
	set(fswallet.ConfigSignerCacheSize, x.SignerCacheSize, false)
	set(fswallet.ConfigSignerCacheTTL, x.SignerCacheTTL, x.SignerCacheTTL == "" || x.SignerCacheTTL == "24h")
	set(fswallet.ConfigDisableListener, !c.Listener, c.Listener)
	set(fswallet.ConfigFilenamesPrimaryExt, x.Filenames.PrimaryExt, x.Filenames.PrimaryExt == "")
	set(fswallet.ConfigFilenamesPrimaryMatchRegex, x.Filenames.PrimaryMatchRegex, x.Filenames.PrimaryMatchRegex == "")
	set(fswallet.ConfigFilenamesPasswordExt, x.Filenames.PasswordExt, x.Filenames.PasswordExt == "")
	set(fswallet.ConfigFilenamesPasswordPath, x.Filenames.PasswordPath, x.Filenames.PasswordPath == "")
	set(fswallet.ConfigFilenamesPasswordTrimSpace, x.Filenames.PasswordTrimSpace, x.Filenames.PasswordTrimSpace)
	set(fswallet.ConfigFilenamesWith0xPrefix, x.Filenames.With0xPrefix, !x.Filenames.With0xPrefix)
	set(fswallet.ConfigMetadataFormat, x.Metadata.Format, x.Metadata.Format == "auto")
	set(fswallet.ConfigMetadataKeyFileProperty, x.Metadata.KeyFileProperty, x.Metadata.KeyFileProperty == "")
	set(fswallet.ConfigMetadataPasswordFileProperty, x.Metadata.PasswordFileProperty, x.Metadata.PasswordFileProperty == "")
	got := fswallet.ReadConfig(sec)
	want := x
	want.DisableListener = !c.Listener
	if want.SignerCacheTTL == "" {
		want.SignerCacheTTL = "24h"
	}
	if *got != want {
		confDiffs++
	}
	return got
}

var confDiffs int
var listenerUnavailable int

func runCase(c *wcase, base string) {
	cwd, _ := os.Getwd()
	os.RemoveAll(base)
	if err := os.MkdirAll(base, 0o755); err != nil {
		panic(err)
	}
	if err := os.Chdir(base); err != nil {
		panic(err)
	}
	defer func() {
		os.Chdir(cwd)
		os.RemoveAll(base)
	}()
	for _, e := range c.FS {
		if err := materialise(e); err != nil {
			panic(fmt.Sprintf("materialise %s: %s", e.Path, err))
		}
	}
	ctx := context.Background()
	if c.Listener {
		// when the OS cannot give us a watcher (inotify instance limit under parallel runs), run the case
		// without the listener instead of reporting the environment as a defect
		if wt, err := fsnotify.NewWatcher(); err != nil {
			c.Listener = false
			listenerUnavailable++
		} else {
			wt.Close()
		}
	}
	conf := *buildConf(c)
	var w fswallet.Wallet
	func() {
		defer func() {
			if r := recover(); r != nil {
				c.NewCls = 2
				c.NewErr = fmt.Sprint(r)
			}
		}()
		var err error
		w, err = fswallet.NewFilesystemWallet(ctx, &conf)
		c.NewCls = classify(err, false)
		if err != nil {
			c.NewErr = err.Error()
		}
	}()
	// the wallet works on its own copy of the configuration: what the caller does with its struct afterwards
	// is of no concern
	conf = fswallet.Config{Path: "/nonexistent", Filenames: fswallet.FilenamesConfig{PrimaryExt: ".scribbled", PrimaryMatchRegex: "(", PasswordExt: ".scribbled"},
		Metadata: fswallet.MetadataConfig{Format: "scribbled"}, DefaultPasswordFile: "/nonexistent"}
	if c.NewCls != 0 {
		return
	}
	// results handed out earlier are verified again after later calls have run
	type kept struct {
		step int
		addr []byte
		wf   keystorev3.WalletFile
	}
	var retained []kept
	reverify := func(when string) {
		for _, k := range retained {
			func() {
				defer func() {
					if r := recover(); r != nil {
						c.StressFailures = append(c.StressFailures, fmt.Sprintf("%s: the wallet file returned at step %d panics: %v", when, k.step, r))
					}
				}()
				kp := k.wf.KeyPair()
				if string(kp.Address[:]) != string(k.addr) || string(addrOfPriv(k.wf.PrivateKey())) != string(k.addr) {
					c.StressFailures = append(c.StressFailures, fmt.Sprintf("%s: the wallet file returned at step %d for %x now holds the key of %x", when, k.step, k.addr, kp.Address[:]))
				}
			}()
		}
	}
	defer func() {
		defer func() { recover() }()
		w.Close()
	}()
	initialised := false
	initialisedOK := false
	for step, h := range c.Hist {
		func() {
			defer func() {
				if r := recover(); r != nil {
					h.Cls = 2
					h.ErrText = fmt.Sprint(r)
				}
			}()
			switch h.Op {
			case "refresh":
				var err error
				if !initialised {
					err = w.Initialize(ctx)
					initialised = true
					initialisedOK = err == nil
				} else {
					err = w.Refresh(ctx)
				}
				h.Cls = classify(err, false)
				if err != nil {
					h.ErrText = err.Error()
				}
			case "accounts":
				acc, err := w.GetAccounts(ctx)
				h.Cls = classify(err, false)
				h.Accounts = [][]byte{}
				for _, a := range acc {
					h.Accounts = append(h.Accounts, append([]byte{}, a[:]...))
				}
				// the returned slice is the caller's: emptying it must not disturb the wallet
				for i := range acc {
					acc[i] = nil
				}
			case "sign":
				tx := newTx(h.Raw, h.Tx1559, h.Shape)
				rawTx, err := w.Sign(ctx, tx, chainOf(h))
				h.Cls = classify(err, false)
				if err != nil {
					h.ErrText = err.Error()
				} else {
					s, rerr := recoverTx(rawTx, chainOf(h))
					if rerr != nil {
						h.ErrText = "signed transaction does not parse: " + rerr.Error()
						s = make([]byte, 20) // recovers to nothing: reported as a wrong signer
					}
					h.Signer = s
				}
			case "signtd":
				var a ethtypes.Address0xHex
				copy(a[:], h.Addr)
				res, err := w.SignTypedDataV4(ctx, a, typedData())
				h.Cls = classify(err, false)
				if err != nil {
					h.ErrText = err.Error()
				} else {
					digest, derr := eip712.EncodeTypedDataV4(ctx, typedData())
					if derr != nil {
						panic(derr)
					}
					s, rerr := recoverRSV(digest, res.SignatureRSV)
					if rerr != nil {
						h.ErrText = "typed-data signature does not recover: " + rerr.Error()
						s = make([]byte, 20)
					} else if string(res.Hash) != string(digest) || string(res.R) != string(res.SignatureRSV[0:32]) ||
						string(res.S) != string(res.SignatureRSV[32:64]) || res.V.BigInt().Cmp(big.NewInt(int64(res.SignatureRSV[64]))) != 0 {
						h.ErrText = "typed-data result is not consistent (hash / V,R,S / signatureRSV)"
						s = make([]byte, 20)
					}
					h.Signer = s
				}
			case "getwf":
				var a ethtypes.Address0xHex
				copy(a[:], h.Addr)
				wf, err := w.GetWalletFile(ctx, a)
				h.Cls = classify(err, false)
				if err != nil {
					h.ErrText = err.Error()
				} else {
					ka := wf.KeyPair().Address
					h.Signer = append([]byte{}, ka[:]...)
					if string(h.Signer) == string(h.Addr) {
						retained = append(retained, kept{step, append([]byte{}, h.Addr...), wf})
						if len(retained) > 6 {
							retained = retained[1:]
						}
					}
				}
			case "write":
				if h.Kind == kDir {
					os.Remove(h.Path)
				} else {
					os.RemoveAll(h.Path)
				}
				if err := materialise(fsEntry{Path: h.Path, Kind: h.Kind, Content: h.Content}); err != nil {
					panic(fmt.Sprintf("harness: write %s: %s", h.Path, err))
				}
				if c.Listener && h.Barrier != nil && initialisedOK {
					// events are delivered in order: once the listener has reported the barrier file, every
					// earlier change has been processed
					deadline := time.Now().Add(5 * time.Second)
					for time.Now().Before(deadline) {
						acc, _ := w.GetAccounts(ctx)
						found := false
						for _, a := range acc {
							if string(a[:]) == string(h.Barrier) {
								found = true
							}
						}
						if found {
							break
						}
						time.Sleep(2 * time.Millisecond)
					}
				}
			case "remove":
				os.Remove(h.Path)
			}
		}()
		if step%5 == 4 {
			reverify(fmt.Sprintf("after step %d", step))
		}
	}
	reverify("after the history")
	if initialisedOK && len(c.Stress) > 0 {
		stress(ctx, c, w, "the wallet of the history")
		reverify("after the concurrent section")
		// a second wallet on the (now unchanging) directory whose signer cache holds one entry: every request
		// evicts what the previous one cached
		c2 := *c
		c2.Conf.SignerCacheSize = "1"
		c2.Listener = false
		conf2 := *buildConf(&c2)
		func() {
			defer func() {
				if r := recover(); r != nil {
					c.StressFailures = append(c.StressFailures, fmt.Sprintf("second wallet (cache size 1) panicked: %v", r))
				}
			}()
			w2, err := fswallet.NewFilesystemWallet(ctx, &conf2)
			if err != nil {
				c.StressFailures = append(c.StressFailures, "second wallet (cache size 1): NewFilesystemWallet fails: "+err.Error())
				return
			}
			defer w2.Close()
			if err := w2.Initialize(ctx); err != nil {
				c.StressFailures = append(c.StressFailures, "second wallet (cache size 1): Initialize fails: "+err.Error())
				return
			}
			stress(ctx, c, w2, "a second wallet with signer cache size 1")
		}()
	}
}

// one request of the stress section: class (0 Ok / 1 error / 2 panic) and the signer of the result
func stressRequest(ctx context.Context, w fswallet.Wallet, a []byte, kind int) (cls int, signer []byte, text string) {
	defer func() {
		if r := recover(); r != nil {
			cls, text = 2, fmt.Sprint(r)
		}
	}()
	var addr ethtypes.Address0xHex
	copy(addr[:], a)
	switch kind % 3 {
	case 0:
		wf, err := w.GetWalletFile(ctx, addr)
		if err != nil {
			return 1, nil, err.Error()
		}
		ka := wf.KeyPair().Address
		return 0, append([]byte{}, ka[:]...), ""
	case 1:
		chain := []int64{chainA, 1, 0, 1 << 40}[(kind/3)%4]
		raw, err := w.Sign(ctx, newTx([]byte(`"0x`+hex.EncodeToString(a)+`"`), kind%2 == 0, (kind/3)%8), chain)
		if err != nil {
			return 1, nil, err.Error()
		}
		s, rerr := recoverTx(raw, chain)
		if rerr != nil {
			return 0, make([]byte, 20), "signed transaction does not parse: " + rerr.Error()
		}
		return 0, s, ""
	default:
		res, err := w.SignTypedDataV4(ctx, addr, typedData())
		if err != nil {
			return 1, nil, err.Error()
		}
		digest, _ := eip712.EncodeTypedDataV4(ctx, typedData())
		s, rerr := recoverRSV(digest, res.SignatureRSV)
		if rerr != nil {
			return 0, make([]byte, 20), "typed-data signature does not recover: " + rerr.Error()
		}
		return 0, s, ""
	}
}

// stress: the directory does not change any more.  A sequential round over all addresses fixes the
// expected class of each (a request that succeeded leaves the key cached, one that failed does not, so
// on an unchanging directory the class cannot change afterwards); then 4 goroutines issue the three
// kinds of request for all addresses in different orders.  Oracles: a successful result is signed by the
// requested address; the class equals the sequential one; nothing panics; GetAccounts is unchanged.
func stress(ctx context.Context, c *wcase, w fswallet.Wallet, who string) {
	c.stressRuns++
	fail := func(f string, a ...interface{}) {
		if len(c.StressFailures) < 8 {
			c.StressFailures = append(c.StressFailures, who+": "+fmt.Sprintf(f, a...))
		}
	}
	accountsOf := func() string {
		defer func() { recover() }()
		acc, _ := w.GetAccounts(ctx)
		var sb strings.Builder
		for _, a := range acc {
			sb.WriteString(hex.EncodeToString(a[:]) + " ")
		}
		return sb.String()
	}
	before := accountsOf()
	want := make([]int, len(c.Stress))
	for round := 0; round < 2; round++ {
		for i, a := range c.Stress {
			cls, signer, text := stressRequest(ctx, w, a, round*5+i)
			if cls == 2 {
				fail("request for %x panicked: %s", a, text)
			}
			if cls == 0 && string(signer) != string(a) {
				fail("a request naming %x returned a result whose signer is %x %s", a, signer, text)
			}
			// theorem C08_unlisted_address_refused as a Go-side oracle: only listed accounts can sign
			if cls == 0 && !strings.Contains(before, hex.EncodeToString(a)+" ") {
				fail("a request naming %x succeeded although GetAccounts does not list that address", a)
			}
			if round == 0 {
				want[i] = cls
			} else if cls != want[i] {
				fail("sequential request for %x: class %d, the same request before: class %d (%s)", a, cls, want[i], text)
			}
		}
	}
	var mu sync.Mutex
	var wg sync.WaitGroup
	for g := 0; g < 4; g++ {
		wg.Add(1)
		go func(g int) {
			defer wg.Done()
			n := len(c.Stress)
			for j := 0; j < 2*n; j++ {
				i := (j*(2*g+1) + g) % n
				a := c.Stress[i]
				cls, signer, text := stressRequest(ctx, w, a, g+j)
				mu.Lock()
				if cls == 2 {
					fail("concurrent request for %x panicked: %s", a, text)
				} else if cls == 0 && string(signer) != string(a) {
					fail("a concurrent request naming %x returned a result whose signer is %x %s", a, signer, text)
				} else if cls != want[i] {
					fail("concurrent request for %x: class %d, sequential request: class %d (%s)", a, cls, want[i], text)
				}
				mu.Unlock()
			}
		}(g)
	}
	wg.Wait()
	if after := accountsOf(); after != before {
		fail("GetAccounts changed during the request-only section: %s -> %s", before, after)
	}
}

// ---------------------------------------------------------------------------------------------
// Coq output
// ---------------------------------------------------------------------------------------------

func cb(b []byte) string  { return cv.CoqBytes(b) }
func cs(s string) string  { return cv.CoqBytes([]byte(s)) }
func cbool(b bool) string { return map[bool]string{true: "true", false: "false"}[b] }

type pool struct {
	items [][]byte
	idx   map[string]int
}

func (p *pool) add(b []byte) int {
	if i, ok := p.idx[string(b)]; ok {
		return i
	}
	p.items = append(p.items, append([]byte{}, b...))
	p.idx[string(b)] = len(p.items) - 1
	return len(p.items) - 1
}

func coqOptBytes(b []byte, ok bool) string {
	if !ok {
		return "None"
	}
	return "(Some " + cb(b) + ")"
}

func (c *wcase) coq() string {
	p := &pool{idx: map[string]int{}}
	names := map[string]bool{}
	addName := func(path string) {
		pre := c.Conf.Path + "/"
		if strings.HasPrefix(path, pre) && !strings.Contains(path[len(pre):], "/") {
			names[path[len(pre):]] = true
		}
	}
	var fsParts []string
	for _, e := range c.FS {
		i := 0
		if e.Kind == kFile {
			i = p.add(e.Content)
		}
		fsParts = append(fsParts, fmt.Sprintf("(%s, %d%%nat, %d%%nat)", cs(e.Path), e.Kind, i))
		addName(e.Path)
	}
	var hist []string
	raws := map[string]bool{}
	for _, h := range c.Hist {
		switch h.Op {
		case "refresh":
			hist = append(hist, fmt.Sprintf("HRefresh %d", h.Cls))
		case "accounts":
			parts := []string{}
			for _, a := range h.Accounts {
				parts = append(parts, cb(a))
			}
			hist = append(hist, "HAccounts ["+strings.Join(parts, "; ")+"]")
		case "sign":
			raws[string(h.Raw)] = true
			hist = append(hist, fmt.Sprintf("HSign %s %d %s", cb(h.Raw), h.Cls, cb(h.Signer)))
		case "signtd":
			hist = append(hist, fmt.Sprintf("HSignTD %s %d %s", cb(h.Addr), h.Cls, cb(h.Signer)))
		case "getwf":
			hist = append(hist, fmt.Sprintf("HGetWF %s %d %s", cb(h.Addr), h.Cls, cb(h.Signer)))
		case "write":
			i := 0
			if h.Kind == kFile {
				i = p.add(h.Content)
			}
			addName(h.Path)
			hist = append(hist, fmt.Sprintf("HWrite %s %d %d", cs(h.Path), h.Kind, i))
		case "remove":
			hist = append(hist, fmt.Sprintf("HRemove %s", cs(h.Path)))
		}
	}
	// password candidates: every small content and its TrimSpace
	n0 := len(p.items)
	for i := 0; i < n0; i++ {
		p.add([]byte(strings.TrimSpace(string(p.items[i]))))
	}
	// oracle tables
	reOK, reN, reFind := regexOracle(c.Conf.Filenames.PrimaryMatchRegex)
	recompile := "None"
	if reOK {
		recompile = fmt.Sprintf("(Some %d%%nat)", reN)
	}
	var refind []string
	var sortedNames []string
	for n := range names {
		sortedNames = append(sortedNames, n)
	}
	sort.Strings(sortedNames)
	for _, n := range sortedNames {
		if !reOK {
			break
		}
		m := reFind(n)
		if m == nil {
			refind = append(refind, fmt.Sprintf("(%s, None)", cs(n)))
		} else {
			var gs []string
			for _, g := range m {
				gs = append(gs, cs(g))
			}
			refind = append(refind, fmt.Sprintf("(%s, Some [%s])", cs(n), strings.Join(gs, "; ")))
		}
	}
	kt, ktOK := parseTemplate(c.Conf.Metadata.KeyFileProperty)
	pt, ptOK := parseTemplate(c.Conf.Metadata.PasswordFileProperty)
	var meta []string
	for i, content := range p.items {
		if len(content) > 4096 {
			continue
		}
		for f := 0; f < 3; f++ {
			data, ok := parseMeta(f, content)
			kr, pr := `(BLit "", false)`, `(BLit "", false)`
			if ok {
				if kt != nil {
					v, e := execTemplate(kt, data)
					kr = fmt.Sprintf("(%s, %s)", cs(v), cbool(e))
				}
				if pt != nil {
					v, e := execTemplate(pt, data)
					pr = fmt.Sprintf("(%s, %s)", cs(v), cbool(e))
				}
			}
			meta = append(meta, fmt.Sprintf("(%d%%nat, %d%%nat, %s, %s, %s)", f, i, cbool(ok), kr, pr))
		}
	}
	var jsons []string
	var sortedRaws []string
	for r := range raws {
		sortedRaws = append(sortedRaws, r)
	}
	sort.Strings(sortedRaws)
	for _, r := range sortedRaws {
		s, ok := jsonString([]byte(r))
		jsons = append(jsons, fmt.Sprintf("(%s, %s)", cb([]byte(r)), coqOptBytes([]byte(s), ok)))
	}
	var bad []string
	var reads []string
	for i, content := range p.items {
		kf := v3Parse(content)
		if kf == nil {
			bad = append(bad, fmt.Sprintf("%d%%nat", i))
			continue
		}
		for j, pw := range p.items {
			a, ok := kf.open(pw)
			reads = append(reads, fmt.Sprintf("(%d%%nat, %d%%nat, %s)", i, j, coqOptBytes(a, ok)))
		}
	}
	var poolParts []string
	for _, it := range p.items {
		poolParts = append(poolParts, cb(it))
	}
	f := c.Conf.Filenames
	conf := fmt.Sprintf("mkconf %s %s %s %s %s %s %s %s %s %s %s", cs(c.Conf.Path), cs(c.Conf.DefaultPasswordFile),
		cs(f.PrimaryMatchRegex), cs(f.PrimaryExt), cs(f.PasswordExt), cs(f.PasswordPath), cbool(f.PasswordTrimSpace), cbool(f.With0xPrefix),
		cs(c.Conf.Metadata.Format), cs(c.Conf.Metadata.KeyFileProperty), cs(c.Conf.Metadata.PasswordFileProperty))
	return fmt.Sprintf("{| k_conf := %s;\n     k_newcls := %d; k_listener := %s;\n     k_pool := [%s];\n     k_fs := [%s];\n     k_recompile := %s;\n     k_refind := [%s];\n     k_tmplok := (%s, %s);\n     k_meta := [%s];\n     k_json := [%s];\n     k_badkey := [%s];\n     k_reads := [%s];\n     k_hist := [%s] |}",
		conf, c.NewCls, cbool(c.Listener), strings.Join(poolParts, ";\n       "), strings.Join(fsParts, "; "), recompile,
		strings.Join(refind, "; "), cbool(ktOK), cbool(ptOK), strings.Join(meta, "; "), strings.Join(jsons, "; "),
		strings.Join(bad, "; "), strings.Join(reads, "; "), strings.Join(hist, ";\n       "))
}

// description for replay / evidence files
type caseDesc struct {
	Index    int             `json:"index"`
	Label    string          `json:"label"`
	Tier     string          `json:"tier"`
	Conf     fswallet.Config `json:"conf"`
	Listener bool            `json:"listener"`
	Files    []string        `json:"files"`
	History  []string        `json:"history"`
	Key      string          `json:"key,omitempty"`
}

func short(b []byte) string {
	if len(b) > 48 {
		return fmt.Sprintf("%q...(%d bytes)", string(b[:48]), len(b))
	}
	return fmt.Sprintf("%q", string(b))
}

func (c *wcase) desc(tier string) caseDesc {
	d := caseDesc{Index: c.Index, Label: c.Label, Tier: tier, Conf: c.Conf, Listener: c.Listener}
	for _, e := range c.FS {
		switch e.Kind {
		case kDir:
			d.Files = append(d.Files, e.Path+"/")
		case kFile:
			d.Files = append(d.Files, e.Path+" = "+short(e.Content))
		default:
			d.Files = append(d.Files, e.Path+" (unreadable)")
		}
	}
	if c.NewCls != 0 {
		d.History = append(d.History, fmt.Sprintf("NewFilesystemWallet -> class %d %s", c.NewCls, c.NewErr))
		return d
	}
	for _, h := range c.Hist {
		var s string
		switch h.Op {
		case "refresh":
			s = fmt.Sprintf("refresh -> %d", h.Cls)
		case "accounts":
			var as []string
			for _, a := range h.Accounts {
				as = append(as, hex.EncodeToString(a))
			}
			s = "accounts -> [" + strings.Join(as, " ") + "]"
		case "sign":
			s = fmt.Sprintf("sign from=%s chain=%d shape=%d 1559=%v -> %d signer=%s", short(h.Raw), chainOf(h), h.Shape, h.Tx1559, h.Cls, hex.EncodeToString(h.Signer))
		case "signtd", "getwf":
			s = fmt.Sprintf("%s %s -> %d signer=%s", h.Op, hex.EncodeToString(h.Addr), h.Cls, hex.EncodeToString(h.Signer))
		case "write":
			s = fmt.Sprintf("write %s kind=%d %s", h.Path, h.Kind, short(h.Content))
		case "remove":
			s = "remove " + h.Path
		}
		if h.ErrText != "" && len(h.ErrText) < 200 {
			s += "  (" + h.ErrText + ")"
		}
		d.History = append(d.History, s)
	}
	return d
}

// ---------------------------------------------------------------------------------------------
// main
// ---------------------------------------------------------------------------------------------

func main() {
	out := flag.String("out", "", "output directory")
	tier := flag.String("tier", "quick", "quick|thorough")
	replay := flag.String("replay", "", "replay file")
	flag.Parse()
	if *out == "" {
		fmt.Fprintln(os.Stderr, "need -out")
		os.Exit(2)
	}
	os.MkdirAll(*out, 0o755)
	logrus.SetOutput(io.Discard)
	logrus.SetLevel(logrus.PanicLevel)
	header := "From Coq Require Import String List NArith Uint63.\nFrom FFS Require Import Base.Bytes Base.Lit Wallet.Model Wallet.Run.\nImport ListNotations.\nOpen Scope string_scope. Open Scope N_scope."
	st := cv.NewStats()
	thorough := *tier == "thorough"
	fsBase, err := os.MkdirTemp("", "c08fs")
	if err != nil {
		panic(err)
	}
	defer os.RemoveAll(fsBase)

	total := 150
	if thorough {
		total = 1500
	}
	only := -1
	shards := 16
	if *replay != "" {
		raw, err := os.ReadFile(*replay)
		if err != nil {
			panic(err)
		}
		var rp struct {
			Case caseDesc `json:"case"`
		}
		json.Unmarshal(raw, &rp)
		only = rp.Case.Index
		if rp.Case.Tier == "thorough" {
			total = 1500
		}
		shards = 1
	}
	w := cv.NewWriter(*out, "C08", header, "wcase", "mismatches", shards)
	seen := map[string]bool{}
	cur := filepath.Join(*out, "current_case.json")
	nCorpus := len(corpus())
	for i := 0; i < nCorpus+total; i++ {
		if only >= 0 && i != only {
			continue
		}
		var c *wcase
		if i < nCorpus {
			c = corpus()[i]
		} else {
			c = genCase(cv.NewRand(uint64(8000+i)), i)
		}
		c.Index = i
		d0, _ := json.Marshal(c.desc(*tier))
		os.WriteFile(cur, d0, 0o644)
		runCase(c, filepath.Join(fsBase, fmt.Sprintf("c%d", i)))
		account(st, c, seen)
		d := c.desc(*tier)
		implOracles(st, c, d)
		w.Add(c.coq(), d)
		if only >= 0 {
			b, _ := json.MarshalIndent(d, "", " ")
			fmt.Println("implementation:", string(b))
			// the model's side of the replay: per step (index, result class 0 Ok / 1 Err / 2 Panic / 9 not a
			// request, 1 if the model returns the key the implementation reported | number of accounts)
			tf := filepath.Join(*out, "trace_C08_replay.v")
			os.WriteFile(tf, []byte(header+"\nDefinition cases : list wcase := [\n  "+c.coq()+"\n].\n"+
				"Definition M := Eval vm_compute in (mismatches cases).\nPrint M.\n"+
				"Definition T := Eval vm_compute in (map model_trace cases).\nPrint T.\n"), 0o644)
			fmt.Println("model: per-step trace of the Coq model is printed by", tf, "(output in "+tf+".out, see Wallet/Run.v model_trace)")
		}
		if len(st.Samples) < 4 && i >= nCorpus {
			st.Samples = append(st.Samples, d)
		}
	}
	os.Remove(cur)
	if err := w.Flush(); err != nil {
		panic(err)
	}
	st.Evaluations = st.Distribution["requests"] + st.Distribution["op:accounts"] + st.Distribution["op:refresh"] + st.Distribution["constructor-error"]
	st.Extra["wallets"] = w.Count()
	st.Extra["configurations_read_differently_by_ReadConfig"] = confDiffs
	st.Extra["listener_unavailable_downgraded"] = listenerUnavailable
	st.Rule = "one case = one wallet (configuration x temporary directory) with a history of 8-18 operations; evaluations = key requests (Sign / SignTypedDataV4 / GetWalletFile) + GetAccounts + Initialize/Refresh observations compared with the model; distinct_nontrivial = distinct (configuration class, file layout of the requested address, request form, cached or not, outcome) combinations among key requests, excluding requests for addresses unknown to the wallet"
	if err := st.Write(filepath.Join(*out, "stats_C08.json")); err != nil {
		panic(err)
	}
}

// statistics over the generated inputs
func account(st *cv.Stats, c *wcase, seen map[string]bool) {
	st.Hit("label:" + strings.SplitN(c.Label, " ", 2)[0])
	for i := 0; i < c.stressRuns; i++ {
		st.Hit("stress-sections")
	}
	if c.NewCls != 0 {
		st.Hit("constructor-error")
		return
	}
	cc := confClass(&c.Conf)
	for i, part := range strings.Split(cc, "|") {
		st.Hit([]string{"naming:", "metadata:", "", "", "", ""}[i] + part)
	}
	for _, l := range layoutOfAddr[c] {
		st.Hit("layout:" + l)
	}
	if c.Listener {
		st.Hit("listener:on")
	} else {
		st.Hit("listener:off")
	}
	okBefore := map[string]bool{}
	for _, h := range c.Hist {
		st.Hit("op:" + h.Op)
		switch h.Op {
		case "sign", "signtd", "getwf":
			st.Hit("requests")
			if h.Op == "sign" {
				st.Hit(fmt.Sprintf("tx-shape:%d", h.Shape))
				st.Hit(fmt.Sprintf("tx-chain:%d", chainOf(h)))
			}
			st.Hit(fmt.Sprintf("request-class:%d", h.Cls))
			code := "ok"
			if h.Cls == 1 {
				code = "err"
				if len(h.ErrText) >= 7 && strings.HasPrefix(h.ErrText, "FF") {
					code = h.ErrText[:7]
				}
				st.Hit("request-error:" + code)
			}
			a := hex.EncodeToString(h.Want)
			cached := okBefore[a]
			if lo := layoutOf(c, h.Want); lo == "good" || lo == "absent" || lo == "wrong-key" {
				st.Hit(fmt.Sprintf("outcome:%s:%s:class%d", strings.SplitN(cc, "|", 3)[1], lo, h.Cls))
			}
			if h.Cls == 0 {
				okBefore[a] = true
				if cached {
					st.Hit("request-cached-hit")
				}
			}
			if code != "FF22014" { // wallet not available: trivial
				k := fmt.Sprintf("%s|%s|%s|%v|%s", cc, layoutOf(c, h.Want), rawForm(h), cached, code)
				if !seen[k] {
					seen[k] = true
					st.Distinct++
				}
			}
		}
	}
}

func implOracles(st *cv.Stats, c *wcase, d caseDesc) {
	if c.NewCls == 2 {
		st.ImplFailures = append(st.ImplFailures, map[string]interface{}{"what": "NewFilesystemWallet panicked: " + c.NewErr, "key": "", "case": d})
	}
	if c.NewCls != 0 {
		return
	}
	for _, f := range c.StressFailures {
		st.ImplFailures = append(st.ImplFailures, map[string]interface{}{"what": f, "key": "", "case": d})
	}
	for i, h := range c.Hist {
		if h.Cls == 2 {
			st.ImplFailures = append(st.ImplFailures, map[string]interface{}{"what": "the wallet panicked: " + h.ErrText, "key": "", "step": i, "case": d})
			continue
		}
		switch h.Op {
		case "sign", "signtd", "getwf":
			if h.Cls == 0 && (h.Want == nil || string(h.Want) != string(h.Signer)) {
				st.ImplFailures = append(st.ImplFailures, map[string]interface{}{
					"what": fmt.Sprintf("a request naming %s returned a result whose signer is %s", hex.EncodeToString(h.Want), hex.EncodeToString(h.Signer)),
					"key":  "", "step": i, "case": d})
			}
		case "accounts":
			dup := map[string]bool{}
			for _, a := range h.Accounts {
				if dup[string(a)] {
					st.ImplFailures = append(st.ImplFailures, map[string]interface{}{"what": "GetAccounts lists " + hex.EncodeToString(a) + " twice", "key": "", "step": i, "case": d})
				}
				dup[string(a)] = true
			}
		}
	}
}
