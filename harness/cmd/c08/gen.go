package main

// Generator of wallet directories, configurations and request histories, following the quantifier
// of property C08, plus the fixed corpus of witnesses of past defects.

import (
	"encoding/hex"
	"fmt"
	"strings"

	"github.com/hyperledger/firefly-signer/pkg/fswallet"

	"verifharness/cv"
)

var layoutOfAddr = map[*wcase]map[string]string{}

func layoutOf(c *wcase, want []byte) string {
	if want == nil {
		return "no-address"
	}
	if l, ok := layoutOfAddr[c][hex.EncodeToString(want)]; ok {
		return l
	}
	return "absent"
}

func rawForm(h *hop) string {
	if h.Op != "sign" {
		return h.Op
	}
	r := string(h.Raw)
	switch {
	case strings.HasPrefix(r, `"0x`) && len(r) == 44 && r == strings.ToLower(r):
		return "sign:0x-lower"
	case len(r) == 42 && strings.HasPrefix(r, `"`):
		return "sign:plain"
	case strings.Contains(r, `\u`):
		return "sign:escaped"
	case strings.HasPrefix(r, " "):
		return "sign:spaced"
	case strings.HasPrefix(r, `"0x`) && len(r) == 44:
		return "sign:0x-mixed"
	}
	return "sign:other"
}

func confClass(c *fswallet.Config) string {
	naming := "ext"
	if c.Filenames.PrimaryMatchRegex != "" {
		naming = "regex"
	}
	meta := "plain"
	f := c.Metadata.Format
	if strings.ToLower(f) == "auto" {
		f = strings.TrimPrefix(c.Filenames.PrimaryExt, ".")
		meta = "auto-plain"
	}
	switch f {
	case "toml", "tml":
		meta = "toml"
	case "json":
		meta = "json"
	case "yaml", "yml":
		meta = "yaml"
	}
	if strings.ToLower(c.Metadata.Format) == "auto" && meta != "auto-plain" {
		meta = "auto-" + meta
	}
	pw := "pwdir=wallet"
	if c.Filenames.PasswordPath != "" {
		pw = "pwdir=separate"
	}
	d := "nodefault"
	if c.DefaultPasswordFile != "" {
		d = "default"
	}
	return fmt.Sprintf("%s|%s|%s|%s|trim=%v|0x=%v", naming, meta, pw, d, c.Filenames.PasswordTrimSpace, c.Filenames.With0xPrefix)
}

type gen struct {
	r       *cv.Rand
	c       *wcase
	keys    []keyT
	pws     [][]byte
	regexIx int
	metaFmt int // -1 plain, 0 toml, 1 json, 2 yaml
	tmplIx  int
	layout  map[string]string
	known   [][]byte // addresses that may be requested
	primary map[string][]string
	serial  int
}

var regexes = []string{
	`^((0x)?[0-9a-f]+)\.key\.json$`,
	`^(?:0x)?([0-9a-fA-F]{40})\.json$`,
	`UTC--.*--([0-9a-fA-F]{40})`,
	`^(.*)\.k$`,
	`^key-(?P<addr>[0-9a-f]{40})(\.json)?$`,
	`([0-9a-f]{40})`,
}

var defaultPass = []byte("default-pass")

func (g *gen) pick(xs ...string) string { return xs[g.r.Intn(len(xs))] }

func (g *gen) chooseConf() {
	r := g.r
	c := g.c
	c.Conf.Path = g.pick("k", "k", "k", "w/keys")
	c.Conf.SignerCacheSize = "100"
	c.Conf.SignerCacheTTL = "24h"
	g.regexIx = -1
	g.metaFmt = -1
	// metadata
	plainAfterAll := false
	ext := g.pick(".key.json", ".key.json", ".json", ".key", "", ".keystore", "e")
	if r.Intn(10) < 4 {
		g.metaFmt = r.Intn(3)
		names := [][]string{{"toml", "tml"}, {"json"}, {"yaml", "yml"}}[g.metaFmt]
		short := names[r.Intn(len(names))]
		if r.Intn(2) == 0 {
			c.Conf.Metadata.Format = g.pick("auto", "auto", "AUTO", "Auto")
			ext = "." + short
			switch r.Intn(6) {
			case 0:
				ext = short // no dot to strip: the extension itself is the format
			case 1:
				ext = ".." + short // only one dot is stripped: ".toml" is no format, the files are plain key files
				plainAfterAll = true
			case 2:
				ext = "." + strings.ToUpper(short) // the format names are case-sensitive: plain key files
				plainAfterAll = true
			}
		} else {
			c.Conf.Metadata.Format = short
			ext = g.pick("."+short, ".meta", ".key.json")
		}
		g.tmplIx = r.Intn(6)
		switch g.tmplIx {
		case 0, 1:
			c.Conf.Metadata.KeyFileProperty = `{{ index .signing "key-file" }}`
			c.Conf.Metadata.PasswordFileProperty = `{{ index .signing "password-file" }}`
		case 2:
			c.Conf.Metadata.KeyFileProperty = `{{ .keyfile }}`
			c.Conf.Metadata.PasswordFileProperty = `{{ .pwfile }}`
		case 3:
			c.Conf.Metadata.KeyFileProperty = `{{ .keyfile }}`
		case 4:
			c.Conf.Metadata.KeyFileProperty = `m/{{ .name }}.json`
			c.Conf.Metadata.PasswordFileProperty = `m/{{ .name }}.pw`
		case 5:
			if r.Intn(3) == 0 {
				c.Conf.Metadata.PasswordFileProperty = `{{ .pwfile }}` // no key template: nothing loads
			} else {
				c.Conf.Metadata.KeyFileProperty = `{{ .keyfile }}`
				c.Conf.Metadata.PasswordFileProperty = `{{ .pwfile }}`
			}
		}
	} else {
		c.Conf.Metadata.Format = g.pick("", "", "none", "filename", "auto", "auto", "TOML", "Json", "Auto")
		if r.Intn(8) == 0 { // templates configured but unused
			c.Conf.Metadata.KeyFileProperty = `{{ .keyfile }}`
		}
	}
	c.Conf.Filenames.PrimaryExt = ext
	if plainAfterAll {
		g.metaFmt = -1 // templates stay configured, unused
	}
	if r.Intn(10) < 3 {
		g.regexIx = r.Intn(len(regexes))
		c.Conf.Filenames.PrimaryMatchRegex = regexes[g.regexIx]
	}
	c.Conf.Filenames.With0xPrefix = r.Bool()
	c.Conf.Filenames.PasswordExt = g.pick(".pwd", ".pwd", ".password", ".pw", "")
	c.Conf.Filenames.PasswordPath = g.pick("", "", "p")
	c.Conf.Filenames.PasswordTrimSpace = r.Bool()
	if r.Intn(5) < 3 {
		c.Conf.DefaultPasswordFile = "d/pw"
	}
	c.Listener = r.Intn(6) == 0
	// constructor problems
	switch r.Intn(40) {
	case 0:
		c.Conf.Filenames.PrimaryMatchRegex = g.pick(`(`, `[a-`, `^(?P<x`)
	case 1:
		c.Conf.Filenames.PrimaryMatchRegex = g.pick(`^[0-9a-f]+$`, `^(?:0x)?[0-9a-f]{40}$`, `.`)
	case 2:
		c.Conf.Metadata.KeyFileProperty = g.pick(`{{ .x`, `{{ index }`, `{{ end }}`)
	case 3:
		c.Conf.Metadata.PasswordFileProperty = g.pick(`{{ .x`, `{{ nosuchfunc .x }}`)
	}
}

func (g *gen) add(path string, kind int, content []byte) {
	for i, e := range g.c.FS {
		if e.Path == path {
			g.c.FS[i] = fsEntry{Path: path, Kind: kind, Content: content}
			return
		}
	}
	g.c.FS = append(g.c.FS, fsEntry{Path: path, Kind: kind, Content: content})
}

func (g *gen) hasPath(path string) bool {
	for _, e := range g.c.FS {
		if e.Path == path {
			return true
		}
	}
	return false
}

func upperHex(s string) string { return strings.ToUpper(s) }
func mixedHex(s string) string {
	b := []byte(s)
	for i := range b {
		if i%3 == 0 && b[i] >= 'a' && b[i] <= 'f' {
			b[i] -= 32
		}
	}
	return string(b)
}

// names under which the naming rule finds the address
func (g *gen) goodName(h string) string {
	r := g.r
	ext := g.c.Conf.Filenames.PrimaryExt
	switch g.regexIx {
	case -1:
		switch r.Intn(9) {
		case 6:
			return "0x" + h + ext
		case 7:
			return upperHex(h) + ext
		case 8:
			return mixedHex(h) + ext
		}
		return h + ext
	case 0:
		return g.pick(h, h, "0x"+h) + ".key.json"
	case 1:
		return g.pick(h, "0x"+h, upperHex(h), mixedHex(h)) + ".json"
	case 2:
		return g.pick("UTC--2024-05-01T10-00-00.000000000Z--", "UTC--x--", "aUTC----") + g.pick(h, upperHex(h)) + g.pick("", "", ".json", "zz")
	case 3:
		return g.pick(h, "0x"+h, upperHex(h)) + ".k"
	case 4:
		return "key-" + h + g.pick("", ".json")
	default:
		return g.pick("", "k_", "0x") + h + g.pick("", ".json", "-old")
	}
}

// names close to the rule
func (g *gen) nearMiss(good string, h string) string {
	r := g.r
	ext := g.c.Conf.Filenames.PrimaryExt
	switch r.Intn(17) {
	case 14:
		return strings.ToUpper(good) // the whole name in upper case
	case 15:
		return strings.Replace(good, h, upperHex(h), 1)
	case 16:
		return strings.Replace(good, h, mixedHex(h), 1) + g.pick("", " ", ".")
	case 0:
		return h // no extension at all
	case 1:
		return good + "x"
	case 2:
		return "x" + good
	case 3:
		return strings.Replace(good, h, h[:39], 1)
	case 4:
		return strings.Replace(good, h, h+"0", 1)
	case 5:
		return "0X" + h + ext
	case 6:
		return "0x0x" + h + ext
	case 7:
		return strings.Replace(good, h, h[:20]+"g"+h[21:], 1)
	case 8:
		return good + ext
	case 9:
		if ext != "" {
			return ext
		}
		return "README"
	case 10:
		return h + strings.ToUpper(ext)
	case 11:
		if len(good) > 1 {
			return good[:len(good)-1]
		}
		return "a"
	case 12:
		return upperHex(h) + ext
	default:
		return g.pick("README.md", ".hidden", "notes.txt", "keystore.bak", h+".pwd", h+".bak")
	}
}

func (g *gen) pwFilePath(a []byte) string {
	f := g.c.Conf.Filenames
	dir := f.PasswordPath
	if dir == "" {
		dir = g.c.Conf.Path
	}
	n := hex.EncodeToString(a)
	if f.With0xPrefix {
		n = "0x" + n
	}
	return dir + "/" + n + f.PasswordExt
}

func wrapWS(r *cv.Rand, pw []byte) []byte {
	switch r.Intn(7) {
	case 0:
		return append(append([]byte{}, pw...), '\n')
	case 1:
		return append(append([]byte(" \t"), pw...), []byte(" \r\n")...)
	case 2:
		return append(append([]byte{}, pw...), 0xc2, 0xa0) // NBSP
	case 3:
		return append(append([]byte{0xe2, 0x80, 0x83}, pw...), 0xe3, 0x80, 0x80) // EM SPACE ... IDEOGRAPHIC SPACE
	case 4:
		return append(append([]byte{}, pw...), 0xc2, 0x85, '\v', '\f') // NEL, VT, FF
	case 5:
		return append(append([]byte{0xe2, 0x80, 0xa8}, pw...), 0xe1, 0x9a, 0x80, 0xe2, 0x81, 0x9f) // LS ... OGHAM SPACE, MMSP
	default:
		return append(append([]byte{}, pw...), 0xe2, 0x80, 0x8b, '\n') // ZERO WIDTH SPACE is not white space: only \n goes
	}
}

func (g *gen) metaDoc(keyPath, pwPath string, name string, variant int) []byte {
	// variant: 0 complete, 1 no password entry, 2 no key entry, 3 garbage, 4 empty document, 5 section missing
	q := func(s string) string { return fmt.Sprintf("%q", s) }
	nested := g.tmplIx == 0 || g.tmplIx == 1
	kv := map[string]string{}
	if g.tmplIx == 4 {
		kv["name"] = name
		if variant == 2 || variant == 5 {
			delete(kv, "name")
		}
	} else {
		kn, pn := "keyfile", "pwfile"
		if nested {
			kn, pn = "key-file", "password-file"
		}
		if variant != 2 {
			kv[kn] = keyPath
		}
		if variant != 1 {
			kv[pn] = pwPath
		}
	}
	if variant == 3 {
		return []byte(g.pick("\x00\x01garbage", "{ not = [ valid", "key-file: [unclosed", "\"just a string\"", "[1,2,3]"))
	}
	if variant == 4 {
		return []byte(g.pick("", "\n", "{}"))
	}
	var keys []string
	for _, k := range []string{"keyfile", "pwfile", "key-file", "password-file", "name"} {
		if _, ok := kv[k]; ok {
			keys = append(keys, k)
		}
	}
	var sb strings.Builder
	switch g.metaFmt {
	case 0:
		sb.WriteString("title = \"generated\"\n")
		if nested && variant != 5 {
			sb.WriteString("[signing]\ntype = \"file-based-signer\"\n")
		}
		for _, k := range keys {
			if !(nested && variant == 5) {
				fmt.Fprintf(&sb, "%s = %s\n", k, q(kv[k]))
			}
		}
	case 1:
		var parts []string
		for _, k := range keys {
			parts = append(parts, q(k)+":"+q(kv[k]))
		}
		inner := "{" + strings.Join(parts, ",") + "}"
		if nested {
			if variant == 5 {
				sb.WriteString(`{"other":` + inner + `}`)
			} else {
				sb.WriteString(`{"signing":` + inner + `,"n":1}`)
			}
		} else {
			sb.WriteString(inner)
		}
	default:
		sb.WriteString("title: generated\n")
		ind := ""
		if nested {
			if variant == 5 {
				sb.WriteString("other:\n")
			} else {
				sb.WriteString("signing:\n")
			}
			ind = "  "
			if len(keys) == 0 {
				sb.WriteString("  type: none\n")
			}
		}
		for _, k := range keys {
			fmt.Fprintf(&sb, "%s%s: %s\n", ind, k, q(kv[k]))
		}
	}
	return []byte(sb.String())
}

// one address of the wallet directory
func (g *gen) addAddress(i int) {
	r := g.r
	c := g.c
	k := g.keys[i]
	h := hex.EncodeToString(k.addr)
	pw := g.pws[i]
	kind := r.Intn(25)
	label := ""
	keyContent := v3Write(r, k.priv, pw, k.addr)
	pwContent := pw
	writePw := true
	switch {
	case kind == 20 || kind == 21:
		// a complete key file that the reader has to refuse for one field
		v := []int{kfVersion4, kfNoID, kfUnknownKDF, kfBadPRF, kfZeroC, kfDKLen16}[r.Intn(6)]
		label = fmt.Sprintf("refused-key-file-%d", v)
		keyContent = v3WriteVariant(r, k.priv, pw, k.addr, v)
	case kind >= 22:
		// the password file holds white space only: with trimming the password is empty (and present)
		label = "blank-password-file"
		pwContent = []byte(g.pick("\n", " ", " \t\r\n", "\xc2\xa0", "\xe2\x80\x83\n"))
		keyContent = v3WriteVariant(r, k.priv, []byte{}, k.addr, r.Intn(2))
		if c.Conf.Filenames.PasswordTrimSpace {
			label = "good-blank-password-file"
		} else if r.Bool() {
			keyContent = v3WriteVariant(r, k.priv, pwContent, k.addr, r.Intn(2)) // the white space is the password
			label = "good-whitespace-password"
		}
	case kind < 9:
		label = "good"
		if r.Intn(5) == 0 {
			keyContent = v3Write(r, k.priv, pw, nil) // no "address" entry
		} else if r.Intn(4) == 0 {
			keyContent = v3WriteVariant(r, k.priv, pw, k.addr, kfPbkdf2)
			label = "good-pbkdf2"
		}
	case kind < 11:
		label = "wrong-key"
		o := g.keys[(i+1+r.Intn(len(g.keys)-1))%len(g.keys)]
		claimed := o.addr
		switch r.Intn(4) {
		case 0, 1:
			claimed = k.addr // the file even claims to be the requested address
		case 2:
			claimed = nil // no "address" entry at all (it is not part of the V3 definition)
		}
		keyContent = v3WriteVariant(r, o.priv, pw, claimed, r.Intn(2))
	case kind < 13:
		label = "no-password-file"
		writePw = false
		if r.Bool() {
			keyContent = v3Write(r, k.priv, defaultPass, k.addr)
			label = "no-password-file-default-key"
		}
	case kind == 13:
		label = "password-is-directory"
		pwContent = nil
		if r.Bool() {
			keyContent = v3Write(r, k.priv, defaultPass, k.addr)
		}
	case kind == 14:
		label = "wrong-password"
		pwContent = []byte(g.pick("not-it", "", string(defaultPass), string(pw)+"x", "X"+string(pw)))
		if string(pwContent) == string(pw) {
			label = "good"
		}
	case kind == 15:
		label = "garbage-key-file"
		keyContent = []byte(g.pick("", "{", "{}", "not json", `{"version":3}`, string(keyContent[:len(keyContent)/2])))
	case kind == 16:
		label = "empty-password-file"
		pwContent = []byte{}
		if r.Bool() {
			keyContent = v3Write(r, k.priv, []byte{}, k.addr)
			label = "empty-password-good"
		}
	case kind < 19:
		label = "password-with-whitespace"
		pwContent = wrapWS(r, pw)
		if !c.Conf.Filenames.PasswordTrimSpace && r.Bool() {
			// trimming is off: the white space is part of the password
			keyContent = v3WriteVariant(r, k.priv, pwContent, k.addr, r.Intn(2))
			label = "good-whitespace-kept"
		}
	default:
		label = "primary-is-directory"
		if r.Bool() {
			label = "primary-unreadable"
		}
	}
	g.layout[h] = label
	name := g.goodName(h)
	primaryPath := c.Conf.Path + "/" + name
	g.primary[h] = append(g.primary[h], primaryPath)
	if g.metaFmt < 0 {
		switch label {
		case "primary-is-directory":
			g.add(primaryPath, kDir, nil)
		case "primary-unreadable":
			g.add(primaryPath, kUnrd, nil)
		default:
			g.add(primaryPath, kFile, keyContent)
		}
		pp := g.pwFilePath(k.addr)
		if writePw && !g.hasPath(pp) && pp != primaryPath {
			if pwContent == nil {
				g.add(pp, kDir, nil)
			} else {
				g.add(pp, kFile, pwContent)
			}
		}
	} else {
		// metadata file in the wallet directory, key and password files elsewhere
		g.serial++
		nm := fmt.Sprintf("f%d", g.serial)
		keyPath := "m/" + nm + ".json"
		pwPath := "m/" + nm + ".pw"
		variant := 0
		switch r.Intn(16) {
		case 0, 1:
			variant = 1
		case 2, 3:
			variant = 2
		case 4:
			variant = 3
		case 5:
			variant = 4
		case 6:
			variant = 5
		case 7:
			keyPath = "m/missing.json"
		case 8:
			keyPath = primaryPath // the metadata file names itself as the key file
		}
		if g.tmplIx == 4 && r.Intn(3) == 0 {
			variant = 2 // "m/<no value>.json" exists as a file, but is not what the document names
		}
		if strings.HasPrefix(label, "no-password-file") && r.Bool() {
			variant = 1 // the usual way to say "use the default password file": no password entry
		}
		// what a template prints for a missing entry is not a file name, even when such a file exists
		if variant == 1 || variant == 2 || variant == 5 {
			g.add("<no value>", kFile, keyContent)
			g.add("m/<no value>.json", kFile, keyContent)
			g.add("m/<no value>.pw", kFile, pw)
			if variant == 1 && r.Bool() {
				g.add("<no value>", kFile, pw)
			}
		}
		if variant != 0 {
			g.layout[h] = label + fmt.Sprintf("+meta-variant-%d", variant)
		}
		switch label {
		case "primary-is-directory":
			g.add(primaryPath, kDir, nil)
		case "primary-unreadable":
			g.add(primaryPath, kUnrd, nil)
		default:
			g.add(primaryPath, kFile, g.metaDoc(keyPath, pwPath, nm, variant))
		}
		if keyPath != primaryPath {
			g.add("m/"+nm+".json", kFile, keyContent)
		}
		if writePw {
			if pwContent == nil {
				g.add("m/"+nm+".pw", kDir, nil)
			} else {
				g.add("m/"+nm+".pw", kFile, pwContent)
			}
		}
	}
	// a second file naming the same address (which one backs the address?)
	if r.Intn(6) == 0 {
		n2 := g.goodName(h)
		if n2 != name {
			o := g.keys[(i+1)%len(g.keys)]
			content := v3Write(r, o.priv, pw, o.addr)
			if r.Bool() {
				content = v3Write(r, k.priv, pw, k.addr)
			}
			if g.metaFmt >= 0 {
				g.serial++
				nm := fmt.Sprintf("f%d", g.serial)
				g.add("m/"+nm+".json", kFile, content)
				g.add("m/"+nm+".pw", kFile, pw)
				content = g.metaDoc("m/"+nm+".json", "m/"+nm+".pw", nm, 0)
			}
			g.add(c.Conf.Path+"/"+n2, kFile, content)
			g.primary[h] = append(g.primary[h], c.Conf.Path+"/"+n2)
			g.layout[h] += "+duplicate-name"
		}
	}
	// near-miss names next to it
	if ext := c.Conf.Filenames.PrimaryExt; ext == "e" && g.regexIx < 0 && !g.hasPath(c.Conf.Path+"/"+h) {
		g.add(c.Conf.Path+"/"+h, kFile, keyContent) // contains the one-letter extension, does not end with it (mostly)
	}
	for n := r.Intn(3); n > 0; n-- {
		nmiss := g.nearMiss(name, h)
		p := c.Conf.Path + "/" + nmiss
		if !g.hasPath(p) && nmiss != "" && !strings.Contains(nmiss, "/") {
			g.add(p, kFile, keyContent)
		}
	}
}

func (g *gen) buildLayout() {
	r := g.r
	c := g.c
	if r.Intn(40) != 0 {
		if strings.Contains(c.Conf.Path, "/") {
			g.add("w", kDir, nil)
		}
		g.add(c.Conf.Path, kDir, nil)
	} else if r.Bool() {
		g.add(c.Conf.Path, kFile, []byte("not a directory")) // the wallet path is a file
	}
	if c.Conf.Filenames.PasswordPath != "" {
		g.add("p", kDir, nil)
	}
	g.add("m", kDir, nil)
	if c.Conf.DefaultPasswordFile != "" {
		g.add("d", kDir, nil)
		switch r.Intn(8) {
		case 0: // missing
		case 1:
			g.add("d/pw", kDir, nil)
		case 2, 3:
			g.add("d/pw", kFile, wrapWS(r, defaultPass))
		default:
			g.add("d/pw", kFile, defaultPass)
		}
	}
	if !g.hasPath(c.Conf.Path) || g.c.FS[len(g.c.FS)-1].Kind != kDir && false {
		// no wallet directory: nothing to put inside
	}
	walletIsDir := false
	for _, e := range c.FS {
		if e.Path == c.Conf.Path && e.Kind == kDir {
			walletIsDir = true
		}
	}
	n := 2 + r.Intn(4)
	perm := []int{0, 1, 2, 3, 4, 5}
	for i := len(perm) - 1; i > 0; i-- {
		j := r.Intn(i + 1)
		perm[i], perm[j] = perm[j], perm[i]
	}
	for _, i := range perm[:n] {
		g.known = append(g.known, g.keys[i].addr)
		if walletIsDir {
			g.addAddress(i)
		}
	}
	// an address nobody has a file for, and one whose key is not in the directory
	g.known = append(g.known, g.keys[perm[n%6]].addr)
	if walletIsDir && r.Intn(3) == 0 {
		g.add(c.Conf.Path+"/sub", kDir, nil)
		g.add(c.Conf.Path+"/sub/"+g.goodName(hex.EncodeToString(g.keys[perm[5]].addr)), kFile, []byte("{}"))
	}
}

// the wallet path is missing or a regular file: the harness cannot create anything below it
// without first changing the layout (materialise would mkdir -p, which the file-system model of
// Wallet/Run.v does not mirror)
func (g *gen) walletPathIsFile() bool {
	for _, e := range g.c.FS {
		if e.Path == g.c.Conf.Path && e.Kind == kDir {
			return false
		}
	}
	return true
}

func (g *gen) fromRaw(a []byte) ([]byte, []byte) {
	h := hex.EncodeToString(a)
	r := g.r
	switch r.Intn(24) {
	case 0:
		return []byte(`"` + h + `"`), a
	case 1:
		return []byte(`"0x` + upperHex(h) + `"`), a
	case 2:
		return []byte(`"0x` + mixedHex(h) + `"`), a
	case 3:
		return []byte(` "0x` + h + `" `), a
	case 4:
		return []byte(`"0x` + h + `"`), a
	case 5:
		return []byte(`"0X` + h + `"`), nil
	case 6:
		return []byte(`"0x` + h[:39] + `"`), nil
	case 7:
		return []byte(`"0x` + h + `0"`), nil
	case 8:
		return []byte(g.pick(`null`, `123`, `""`, `{"a":1}`, `["0x`+h+`"]`, `"0x`+h, `true`, ``)), nil
	case 9:
		return []byte(`"0x0x` + h + `"`), nil
	case 10:
		return []byte(`"0x` + h[:20] + `g` + h[21:] + `"`), nil
	}
	return []byte(`"0x` + h + `"`), a
}

func (g *gen) request(a []byte) *hop {
	r := g.r
	switch r.Intn(10) {
	case 0, 1:
		return &hop{Op: "signtd", Addr: a, Want: a}
	case 2, 3, 4:
		return &hop{Op: "getwf", Addr: a, Want: a}
	}
	raw, want := g.fromRaw(a)
	h := &hop{Op: "sign", Raw: raw, Want: want, Tx1559: r.Intn(3) == 0}
	if r.Intn(3) == 0 {
		h.Shape = 1 + r.Intn(7)
	}
	if r.Intn(3) == 0 {
		// EIP-155: V = 2*chain + 35 + parity; EIP-1559: the chain id is the first signed field
		h.ChainID = []int64{0, 1, 2, 46, 47, 127, 128, 255, 256, 1<<31 - 1, 1 << 31, 1<<32 + 5, 1 << 53, 1<<62 - 18, 1<<62 - 17}[r.Intn(15)]
		h.Chain0 = h.ChainID == 0
	}
	return h
}

func (g *gen) mutation() []*hop {
	r := g.r
	c := g.c
	a := g.known[r.Intn(len(g.known))]
	h := hex.EncodeToString(a)
	ki := -1
	for i, k := range g.keys {
		if string(k.addr) == string(a) {
			ki = i
		}
	}
	prim := g.primary[h]
	keyPathOf := func(p string) string { return p }
	if g.metaFmt >= 0 && len(prim) > 0 {
		// the key file sits in m/: find it from the layout order (f<serial>.json); fall back to the primary
		keyPathOf = func(p string) string { return p }
	}
	switch r.Intn(11) {
	case 8: // a directory named like a file of an address nobody has seen yet
		fresh := r.Bytes(20)
		return []*hop{{Op: "write", Path: c.Conf.Path + "/" + g.goodName(hex.EncodeToString(fresh)), Kind: kDir}}
	case 9, 10: // the address nobody had a file for gets one while the wallet is running
		last := g.known[len(g.known)-1]
		lh := hex.EncodeToString(last)
		li := -1
		for i, k := range g.keys {
			if string(k.addr) == string(last) {
				li = i
			}
		}
		if g.metaFmt < 0 && li >= 0 && len(g.primary[lh]) == 0 {
			p := c.Conf.Path + "/" + g.goodName(lh)
			g.primary[lh] = append(g.primary[lh], p)
			content := v3WriteVariant(r, g.keys[li].priv, g.pws[li], last, r.Intn(2))
			if r.Intn(4) == 0 {
				o := g.keys[(li+1)%len(g.keys)]
				content = v3Write(r, o.priv, g.pws[li], last) // ... holding somebody else's key
			}
			return []*hop{
				{Op: "write", Path: g.pwFilePath(last), Kind: kFile, Content: g.pws[li]},
				{Op: "write", Path: p, Kind: kFile, Content: content}}
		}
	case 0: // replace the key file by another address's key (same password)
		if len(prim) > 0 && g.metaFmt < 0 {
			o := g.keys[(ki+1)%len(g.keys)]
			return []*hop{{Op: "write", Path: keyPathOf(prim[0]), Kind: kFile, Content: v3Write(r, o.priv, g.pws[ki], a)}}
		}
	case 1: // remove the key file
		if len(prim) > 0 {
			return []*hop{{Op: "remove", Path: prim[0]}}
		}
	case 2: // remove or break the password file
		if g.metaFmt < 0 {
			if r.Bool() {
				return []*hop{{Op: "remove", Path: g.pwFilePath(a)}}
			}
			return []*hop{{Op: "write", Path: g.pwFilePath(a), Kind: kFile, Content: []byte("changed")}}
		}
	case 3: // repair: a correct key file and password for this address
		if g.metaFmt < 0 {
			p := c.Conf.Path + "/" + g.goodName(h)
			if len(prim) > 0 {
				p = prim[len(prim)-1]
			} else {
				g.primary[h] = append(g.primary[h], p)
			}
			return []*hop{
				{Op: "write", Path: g.pwFilePath(a), Kind: kFile, Content: g.pws[ki]},
				{Op: "write", Path: p, Kind: kFile, Content: v3Write(r, g.keys[ki].priv, g.pws[ki], a)}}
		}
	case 4: // a new file naming the address under another accepted spelling
		n2 := g.goodName(h)
		p := c.Conf.Path + "/" + n2
		for _, q := range prim {
			if q == p {
				return nil
			}
		}
		if g.metaFmt < 0 {
			o := g.keys[(ki+2)%len(g.keys)]
			content := v3Write(r, o.priv, g.pws[ki], a)
			if r.Bool() {
				content = v3Write(r, g.keys[ki].priv, g.pws[ki], a)
			}
			g.primary[h] = append(g.primary[h], p)
			return []*hop{{Op: "write", Path: p, Kind: kFile, Content: content}}
		}
	case 5: // a near-miss name appears
		nm := g.nearMiss(g.goodName(h), h)
		if nm != "" && !strings.Contains(nm, "/") {
			return []*hop{{Op: "write", Path: c.Conf.Path + "/" + nm, Kind: kFile, Content: v3Write(r, g.keys[ki].priv, g.pws[ki], a)}}
		}
	case 6: // a directory with a matching name appears
		p := c.Conf.Path + "/" + g.goodName(h)
		for _, q := range prim {
			if q == p {
				return nil
			}
		}
		if !g.hasPath(p) {
			return []*hop{{Op: "write", Path: p, Kind: kDir}}
		}
	case 7: // the default password file changes
		if c.Conf.DefaultPasswordFile != "" {
			return []*hop{{Op: "write", Path: "d/pw", Kind: kFile, Content: wrapWS(r, defaultPass)}}
		}
	}
	return nil
}

// pickAddr prefers addresses whose layout lets the request succeed (so that the cached path and the
// effect of later changes are exercised), then any address of the directory, then unknown ones
func (g *gen) pickAddr() []byte {
	r := g.r
	x := r.Intn(100)
	if x < 55 {
		var good [][]byte
		for _, a := range g.known {
			l := g.layout[hex.EncodeToString(a)]
			if strings.HasPrefix(l, "good") || strings.HasPrefix(l, "empty-password-good") || strings.HasPrefix(l, "no-password-file-default-key") {
				good = append(good, a)
			}
		}
		if len(good) > 0 {
			return good[r.Intn(len(good))]
		}
	}
	if x < 88 {
		return g.known[r.Intn(len(g.known)-1)] // the last entry of known has no file
	}
	if x < 92 {
		return g.known[len(g.known)-1]
	}
	if x < 98 {
		// an address next to one of the directory's: nobody has a file for it, whatever is cached for its neighbour
		return neighbour(g.known[r.Intn(len(g.known)-1)], r.Intn(5))
	}
	return r.Bytes(20)
}

// neighbour returns an address differing from a in one nibble / bit / byte position
func neighbour(a []byte, how int) []byte {
	b := append([]byte{}, a...)
	switch how {
	case 0:
		b[19] ^= 0x01
	case 1:
		b[19] ^= 0x10
	case 2:
		b[0] ^= 0x10
	case 3:
		b[0] ^= 0x01
	default:
		b[10] ^= 0x80
	}
	return b
}

func (g *gen) buildHistory() {
	r := g.r
	c := g.c
	c.Hist = append(c.Hist, &hop{Op: "refresh"}, &hop{Op: "accounts"})
	n := 8 + r.Intn(10)
	// requests concentrate on few addresses so that repeats (cached path) are frequent
	focus := g.pickAddr()
	for i := 0; i < n; i++ {
		x := r.Intn(100)
		switch {
		case x < 62:
			a := focus
			if r.Intn(3) == 0 {
				a = g.pickAddr()
			}
			c.Hist = append(c.Hist, g.request(a))
		case x < 70:
			c.Hist = append(c.Hist, &hop{Op: "accounts"})
		case x < 80:
			c.Hist = append(c.Hist, &hop{Op: "refresh"})
		case x < 97:
			ms := g.mutation()
			if g.walletPathIsFile() {
				// nothing can be created below a wallet path that is a regular file (the write would
				// fail in the harness itself, not in the wallet): keep only the writes elsewhere
				kept := ms[:0]
				for _, m := range ms {
					if m.Op != "write" || !strings.HasPrefix(m.Path, c.Conf.Path+"/") {
						kept = append(kept, m)
					}
				}
				ms = kept
			}
			for _, m := range ms {
				c.Hist = append(c.Hist, m)
			}
			if len(ms) > 0 && c.Listener && !g.walletPathIsFile() {
				// barrier: a fresh matching file; the runner waits until the listener has reported it
				fresh := r.Bytes(20)
				c.Hist = append(c.Hist, &hop{Op: "write", Path: c.Conf.Path + "/" + g.goodName(hex.EncodeToString(fresh)),
					Kind: kFile, Content: []byte("barrier"), Barrier: fresh})
			}
			if len(ms) > 0 && r.Bool() {
				c.Hist = append(c.Hist, &hop{Op: "refresh"})
			}
			if len(ms) > 0 && r.Intn(3) == 0 {
				c.Hist = append(c.Hist, &hop{Op: "accounts"})
			}
		default:
			focus = g.pickAddr()
		}
	}
	c.Hist = append(c.Hist, &hop{Op: "refresh"}, &hop{Op: "accounts"})
	for _, a := range g.known[:len(g.known)-1] {
		if r.Intn(2) == 0 {
			c.Hist = append(c.Hist, &hop{Op: "getwf", Addr: a, Want: a})
		}
	}
}

func genCase(r *cv.Rand, idx int) *wcase {
	g := &gen{r: r, c: &wcase{Index: idx}, layout: map[string]string{}, primary: map[string][]string{}}
	for i := 0; i < 6; i++ {
		g.keys = append(g.keys, newKey(r))
	}
	g.pws = [][]byte{[]byte("pw-0"), []byte("correct horse battery"), []byte(""), []byte("p\xc3\xa4ssw\xc3\xb6rd-3"), []byte(" lead-space"), defaultPass}
	g.chooseConf()
	g.buildLayout()
	g.buildHistory()
	for _, a := range g.known {
		g.c.Stress = append(g.c.Stress, a)
	}
	g.c.Stress = append(g.c.Stress, neighbour(g.known[0], 0), neighbour(g.known[0], 2), neighbour(g.known[len(g.known)/2], 1))
	g.c.Label = "generated " + confClass(&g.c.Conf)
	layoutOfAddr[g.c] = g.layout
	return g.c
}

// ---------------------------------------------------------------------------------------------
// fixed corpus: witnesses of defects found earlier and hand-written boundary cases
// ---------------------------------------------------------------------------------------------

func corpus() []*wcase {
	r := cv.NewRand(7999)
	var keys []keyT
	for i := 0; i < 3; i++ {
		keys = append(keys, newKey(r))
	}
	hx := func(i int) string { return hex.EncodeToString(keys[i].addr) }
	q := func(i int) []byte { return []byte(`"0x` + hx(i) + `"`) }
	var out []*wcase
	mk := func(label string, conf fswallet.Config, fs []fsEntry, hist []*hop) {
		conf.SignerCacheSize = "100"
		c := &wcase{Label: label, Conf: conf, FS: append([]fsEntry{{Path: "k", Kind: kDir}}, fs...),
			Hist: append([]*hop{{Op: "refresh"}, {Op: "accounts"}}, hist...)}
		layoutOfAddr[c] = map[string]string{}
		for i := range keys {
			c.Stress = append(c.Stress, keys[i].addr)
		}
		c.Stress = append(c.Stress, neighbour(keys[0].addr, 0), neighbour(keys[1].addr, 2))
		out = append(out, c)
	}
	plain := fswallet.Config{Path: "k", Filenames: fswallet.FilenamesConfig{PrimaryExt: ".key.json", PasswordExt: ".pwd"}}
	// D08a: a file named <40 hex> without the configured extension is not an account
	mk("corpus D08a", plain, []fsEntry{
		{Path: "k/" + hx(0), Kind: kFile, Content: v3Write(r, keys[0].priv, []byte("a"), keys[0].addr)},
		{Path: "k/" + hx(0) + ".pwd", Kind: kFile, Content: []byte("a")},
		{Path: "k/" + hx(1) + ".key.json", Kind: kFile, Content: v3Write(r, keys[1].priv, []byte("b"), keys[1].addr)},
		{Path: "k/" + hx(1) + ".pwd", Kind: kFile, Content: []byte("b")},
	}, []*hop{{Op: "sign", Raw: q(0), Want: keys[0].addr}, {Op: "sign", Raw: q(1), Want: keys[1].addr}})
	// D08b: the default password file is trimmed like the others
	trim := plain
	trim.Filenames.PasswordTrimSpace = true
	trim.DefaultPasswordFile = "d/pw"
	mk("corpus D08b", trim, []fsEntry{
		{Path: "d", Kind: kDir}, {Path: "d/pw", Kind: kFile, Content: []byte("secret\n")},
		{Path: "k/" + hx(0) + ".key.json", Kind: kFile, Content: v3Write(r, keys[0].priv, []byte("secret"), keys[0].addr)},
	}, []*hop{{Op: "sign", Raw: q(0), Want: keys[0].addr}, {Op: "getwf", Addr: keys[0].addr, Want: keys[0].addr}})
	// D08c: a per-key password path that cannot be read (a directory) falls back to the default file
	dflt := plain
	dflt.DefaultPasswordFile = "d/pw"
	mk("corpus D08c", dflt, []fsEntry{
		{Path: "d", Kind: kDir}, {Path: "d/pw", Kind: kFile, Content: []byte("secret")},
		{Path: "k/" + hx(0) + ".key.json", Kind: kFile, Content: v3Write(r, keys[0].priv, []byte("secret"), keys[0].addr)},
		{Path: "k/" + hx(0) + ".pwd", Kind: kDir},
		{Path: "k/" + hx(1) + ".key.json", Kind: kFile, Content: v3Write(r, keys[1].priv, []byte{}, keys[1].addr)},
		{Path: "k/" + hx(1) + ".pwd", Kind: kDir},
	}, []*hop{{Op: "sign", Raw: q(0), Want: keys[0].addr}, {Op: "getwf", Addr: keys[1].addr, Want: keys[1].addr}})
	// the key stored under another address's name is refused on every attempt, cached or not, and is
	// accepted once the right key is there; the cached key survives the file being replaced
	wrong := v3Write(r, keys[1].priv, []byte("a"), keys[0].addr)
	right := v3Write(r, keys[0].priv, []byte("a"), keys[0].addr)
	mk("corpus mismatch-then-repair", plain, []fsEntry{
		{Path: "k/" + hx(0) + ".key.json", Kind: kFile, Content: wrong},
		{Path: "k/" + hx(0) + ".pwd", Kind: kFile, Content: []byte("a")},
		{Path: "k/" + hx(1) + ".key.json", Kind: kFile, Content: v3Write(r, keys[1].priv, []byte("a"), keys[1].addr)},
		{Path: "k/" + hx(1) + ".pwd", Kind: kFile, Content: []byte("a")},
	}, []*hop{
		{Op: "sign", Raw: q(0), Want: keys[0].addr}, {Op: "sign", Raw: q(0), Want: keys[0].addr},
		{Op: "signtd", Addr: keys[0].addr, Want: keys[0].addr}, {Op: "getwf", Addr: keys[0].addr, Want: keys[0].addr},
		{Op: "sign", Raw: q(1), Want: keys[1].addr}, {Op: "sign", Raw: q(0), Want: keys[0].addr},
		{Op: "write", Path: "k/" + hx(0) + ".key.json", Kind: kFile, Content: right},
		{Op: "sign", Raw: q(0), Want: keys[0].addr, Tx1559: true},
		{Op: "write", Path: "k/" + hx(0) + ".key.json", Kind: kFile, Content: wrong},
		{Op: "sign", Raw: q(0), Want: keys[0].addr}, {Op: "signtd", Addr: keys[0].addr, Want: keys[0].addr},
		{Op: "write", Path: "k/" + hx(1) + ".key.json", Kind: kFile, Content: right},
		{Op: "sign", Raw: q(1), Want: keys[1].addr}, {Op: "getwf", Addr: keys[1].addr, Want: keys[1].addr},
	})
	// an extension made of a hexadecimal digit: a name that merely contains it does not match
	e := ""
	for i := 0; i < 39; i++ {
		if hx(1)[i] != hx(1)[39] && hx(1)[i] != '0' {
			e = string(hx(1)[i])
			break
		}
	}
	hexExt := fswallet.Config{Path: "k", Filenames: fswallet.FilenamesConfig{PrimaryExt: e, PasswordExt: ".pwd"}}
	mk("corpus hex-extension", hexExt, []fsEntry{
		{Path: "k/" + hx(0) + e, Kind: kFile, Content: right},
		{Path: "k/" + hx(0) + ".pwd", Kind: kFile, Content: []byte("a")},
		{Path: "k/" + hx(1), Kind: kFile, Content: v3Write(r, keys[1].priv, []byte("a"), keys[1].addr)},
		{Path: "k/" + e + hx(2), Kind: kFile, Content: v3Write(r, keys[2].priv, []byte("a"), keys[2].addr)},
		{Path: "k/" + hx(1) + ".pwd", Kind: kFile, Content: []byte("a")},
	}, []*hop{{Op: "sign", Raw: q(0), Want: keys[0].addr}, {Op: "sign", Raw: q(1), Want: keys[1].addr}})
	// metadata documents: B's document has no password entry (default password file), and is loaded after
	// A's complete document; nothing of A's document may be remembered
	for fi, fm := range []string{"json", "yaml", "toml"} {
		mc := fswallet.Config{Path: "k", DefaultPasswordFile: "d/pw",
			Filenames: fswallet.FilenamesConfig{PrimaryExt: "." + fm},
			Metadata:  fswallet.MetadataConfig{Format: "auto", KeyFileProperty: `{{ .keyfile }}`, PasswordFileProperty: `{{ .pwfile }}`}}
		docA := []string{`{"keyfile":"m/a.json","pwfile":"m/a.pw"}`, "keyfile: m/a.json\npwfile: m/a.pw\n", "keyfile = \"m/a.json\"\npwfile = \"m/a.pw\"\n"}[fi]
		docB := []string{`{"keyfile":"m/b.json"}`, "keyfile: m/b.json\n", "keyfile = \"m/b.json\"\n"}[fi]
		docC := []string{`{"pwfile":"m/a.pw"}`, "pwfile: m/a.pw\n", "pwfile = \"m/a.pw\"\n"}[fi]
		mk("corpus metadata-default-password-"+fm, mc, []fsEntry{
			{Path: "d", Kind: kDir}, {Path: "d/pw", Kind: kFile, Content: []byte("dflt")}, {Path: "m", Kind: kDir},
			{Path: "k/" + hx(0) + "." + fm, Kind: kFile, Content: []byte(docA)},
			{Path: "k/" + hx(1) + "." + fm, Kind: kFile, Content: []byte(docB)},
			{Path: "k/" + hx(2) + "." + fm, Kind: kFile, Content: []byte(docC)},
			{Path: "m/a.json", Kind: kFile, Content: v3Write(r, keys[0].priv, []byte("a"), keys[0].addr)},
			{Path: "m/a.pw", Kind: kFile, Content: []byte("a")},
			{Path: "m/b.json", Kind: kFile, Content: v3WriteVariant(r, keys[1].priv, []byte("dflt"), keys[1].addr, fi%2)},
		}, []*hop{
			{Op: "sign", Raw: q(0), Want: keys[0].addr}, {Op: "sign", Raw: q(1), Want: keys[1].addr},
			{Op: "getwf", Addr: keys[2].addr, Want: keys[2].addr}, // no key entry: must not use A's key file
			{Op: "signtd", Addr: keys[0].addr, Want: keys[0].addr}, {Op: "getwf", Addr: keys[1].addr, Want: keys[1].addr}})
	}
	// (referee round) key material that is no key: the scalar zero, as 32 zero bytes and as the group order n
	// (btcec reduces modulo n).  Its "public key" is the point at infinity, whose address is
	// 0x3f17f1962b36e491b30a40b2405849e597ba5fb5; before fix 362ef7a the wallet listed the file, loaded it,
	// passed the ownership check and returned signatures that recover to no address.  Now every request fails.
	nBytes, _ := hex.DecodeString("fffffffffffffffffffffffffffffffebaaedce6af48a03bbfd25e8cd0364141")
	for zi, zpriv := range [][]byte{make([]byte, 32), nBytes} {
		za := addrOfPriv(zpriv)
		zh := hex.EncodeToString(za)
		zq := []byte(`"0x` + zh + `"`)
		mk([]string{"corpus zero-key", "corpus order-key"}[zi], plain, []fsEntry{
			{Path: "k/" + zh + ".key.json", Kind: kFile, Content: v3WriteVariant(r, zpriv, []byte("a"), za, zi)},
			{Path: "k/" + zh + ".pwd", Kind: kFile, Content: []byte("a")},
			{Path: "k/" + hx(1) + ".key.json", Kind: kFile, Content: v3Write(r, keys[1].priv, []byte("a"), keys[1].addr)},
			{Path: "k/" + hx(1) + ".pwd", Kind: kFile, Content: []byte("a")},
		}, []*hop{
			{Op: "sign", Raw: zq, Want: za}, {Op: "signtd", Addr: za, Want: za}, {Op: "getwf", Addr: za, Want: za},
			{Op: "sign", Raw: q(1), Want: keys[1].addr}, {Op: "sign", Raw: zq, Want: za, Tx1559: true},
			{Op: "refresh"}, {Op: "accounts"}, {Op: "getwf", Addr: za, Want: za}})
		out[len(out)-1].Stress = append(out[len(out)-1].Stress, za)
	}
	// the same address under three spellings: one account, backed by the last file listed
	mk("corpus spellings", plain, []fsEntry{
		{Path: "k/" + hx(0) + ".key.json", Kind: kFile, Content: right},
		{Path: "k/0x" + hx(0) + ".key.json", Kind: kFile, Content: wrong},
		{Path: "k/" + upperHex(hx(0)) + ".key.json", Kind: kFile, Content: right},
		{Path: "k/" + hx(0) + ".pwd", Kind: kFile, Content: []byte("a")},
	}, []*hop{{Op: "sign", Raw: q(0), Want: keys[0].addr}, {Op: "remove", Path: "k/0x" + hx(0) + ".key.json"},
		{Op: "sign", Raw: q(0), Want: keys[0].addr}, {Op: "refresh"}, {Op: "accounts"}, {Op: "sign", Raw: q(0), Want: keys[0].addr}})
	return out
}
