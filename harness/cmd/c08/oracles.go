package main

// Everything here calls third-party / standard libraries directly (never pkg/fswallet or
// pkg/keystorev3): the tables of the Coq model's external operations, the harness's own Web3 Secret
// Storage V3 writer/reader, and signer recovery with btcec.

import (
	"bytes"
	"crypto/aes"
	"crypto/cipher"
	"crypto/sha256"
	"encoding/hex"
	"encoding/json"
	"errors"
	"fmt"
	"math/big"
	"regexp"
	"strings"
	"text/template"

	btcec "github.com/btcsuite/btcd/btcec/v2"
	becdsa "github.com/btcsuite/btcd/btcec/v2/ecdsa"
	"github.com/pelletier/go-toml"
	"golang.org/x/crypto/pbkdf2"
	"golang.org/x/crypto/scrypt"
	"golang.org/x/crypto/sha3"
	"gopkg.in/yaml.v2"

	"verifharness/cv"
)

func keccak(parts ...[]byte) []byte {
	h := sha3.NewLegacyKeccak256()
	for _, p := range parts {
		h.Write(p)
	}
	return h.Sum(nil)
}

// ---------- keys ----------

type keyT struct {
	priv []byte
	addr []byte
}

func addrOfPriv(priv []byte) []byte {
	_, pub := btcec.PrivKeyFromBytes(priv)
	return keccak(pub.SerializeUncompressed()[1:])[12:]
}

func newKey(r *cv.Rand) keyT {
	p := r.Bytes(32)
	p[0] &= 0x7f // below the group order
	if p[0] == 0 && p[1] == 0 {
		p[1] = 1
	}
	return keyT{priv: p, addr: addrOfPriv(p)}
}

// ---------- Web3 Secret Storage V3: own writer and reader (scrypt only) ----------

type v3File struct {
	Address string `json:"address,omitempty"`
	ID      string `json:"id"`
	Version int    `json:"version"`
	Crypto  struct {
		Cipher       string `json:"cipher"`
		CipherText   string `json:"ciphertext"`
		CipherParams struct {
			IV string `json:"iv"`
		} `json:"cipherparams"`
		KDF       string `json:"kdf"`
		KDFParams struct {
			DKLen int    `json:"dklen"`
			N     int    `json:"n,omitempty"`
			P     int    `json:"p,omitempty"`
			R     int    `json:"r,omitempty"`
			C     int    `json:"c,omitempty"`
			PRF   string `json:"prf,omitempty"`
			Salt  string `json:"salt"`
		} `json:"kdfparams"`
		MAC string `json:"mac"`
	} `json:"crypto"`
}

func aesCTR(key, iv, in []byte) []byte {
	block, err := aes.NewCipher(key)
	if err != nil {
		panic(err)
	}
	out := make([]byte, len(in))
	cipher.NewCTR(block, iv).XORKeyStream(out, in)
	return out
}

// key-file variants of the writer (round 3): the other KDF of the V3 definition and files that are
// complete except for one field the reader has to refuse
const (
	kfScrypt     = 0
	kfPbkdf2     = 1
	kfVersion4   = 2 // "version": 4
	kfNoID       = 3 // no "id"
	kfUnknownKDF = 4 // "kdf": "argon2id"
	kfBadPRF     = 5 // pbkdf2 with "prf": "hmac-sha512"
	kfZeroC      = 6 // pbkdf2 with "c": 0
	kfDKLen16    = 7 // scrypt with "dklen": 16
)

// v3Write encrypts priv under password with scrypt N=2, r=1, p=1 (tiny cost: the runs stay fast).
func v3Write(r *cv.Rand, priv []byte, password []byte, claimedAddr []byte) []byte {
	return v3WriteVariant(r, priv, password, claimedAddr, kfScrypt)
}

func v3WriteVariant(r *cv.Rand, priv []byte, password []byte, claimedAddr []byte, variant int) []byte {
	salt := r.Bytes(32)
	iv := r.Bytes(16)
	var dk []byte
	var err error
	usePbkdf2 := variant == kfPbkdf2 || variant == kfBadPRF || variant == kfZeroC
	if usePbkdf2 {
		dk = pbkdf2.Key(password, salt, 3, 32, sha256.New)
	} else {
		dk, err = scrypt.Key(password, salt, 2, 1, 1, 32)
	}
	if err != nil {
		panic(err)
	}
	ct := aesCTR(dk[:16], iv, priv)
	var f v3File
	f.Address = hex.EncodeToString(claimedAddr)
	u := r.Bytes(16)
	u[6] = (u[6] & 0x0f) | 0x40
	u[8] = (u[8] & 0x3f) | 0x80
	f.ID = fmt.Sprintf("%x-%x-%x-%x-%x", u[0:4], u[4:6], u[6:8], u[8:10], u[10:16])
	f.Version = 3
	f.Crypto.Cipher = "aes-128-ctr"
	f.Crypto.CipherText = hex.EncodeToString(ct)
	f.Crypto.CipherParams.IV = hex.EncodeToString(iv)
	f.Crypto.KDFParams.DKLen = 32
	if usePbkdf2 {
		f.Crypto.KDF = "pbkdf2"
		f.Crypto.KDFParams.C = 3
		f.Crypto.KDFParams.PRF = "hmac-sha256"
	} else {
		f.Crypto.KDF = "scrypt"
		f.Crypto.KDFParams.N = 2
		f.Crypto.KDFParams.P = 1
		f.Crypto.KDFParams.R = 1
	}
	f.Crypto.KDFParams.Salt = hex.EncodeToString(salt)
	f.Crypto.MAC = hex.EncodeToString(keccak(dk[16:32], ct))
	switch variant {
	case kfVersion4:
		f.Version = 4
	case kfNoID:
		f.ID = ""
	case kfUnknownKDF:
		f.Crypto.KDF = "argon2id"
	case kfBadPRF:
		f.Crypto.KDFParams.PRF = "hmac-sha512"
	case kfZeroC:
		f.Crypto.KDFParams.C = 0
	case kfDKLen16:
		f.Crypto.KDFParams.DKLen = 16
	}
	b, _ := json.Marshal(&f)
	if variant == kfNoID {
		b = bytes.Replace(b, []byte(`"id":"",`), nil, 1)
	}
	// entries that are not part of the V3 definition (tools add names, paths, timestamps): ignored by a reader
	switch r.Intn(6) {
	case 0:
		b = append([]byte(`{"name":"key of the month","meta":{"created":"2024-05-01","n":1},`), b[1:]...)
	case 1:
		b = append(b[:len(b)-1], []byte(`,"x-label":null,"hd-path":"m/44'/60'/0'/0/0","tags":["a","b"]}`)...)
	}
	return b
}

type v3Parsed struct {
	salt, iv, ct, mac []byte
	n, r, p           int
	pbkdf2            bool
	c                 int
}

// v3Parse returns nil when the content is not a scrypt V3 key file at all (no password opens it).
func v3Parse(content []byte) *v3Parsed {
	var f v3File
	if err := json.Unmarshal(content, &f); err != nil {
		return nil
	}
	if f.Version != 3 || f.ID == "" || (f.Crypto.KDF != "scrypt" && f.Crypto.KDF != "pbkdf2") || f.Crypto.Cipher != "aes-128-ctr" || f.Crypto.KDFParams.DKLen != 32 {
		return nil
	}
	k := &v3Parsed{n: f.Crypto.KDFParams.N, r: f.Crypto.KDFParams.R, p: f.Crypto.KDFParams.P, pbkdf2: f.Crypto.KDF == "pbkdf2", c: f.Crypto.KDFParams.C}
	if k.pbkdf2 && (f.Crypto.KDFParams.PRF != "hmac-sha256" || k.c <= 0 || k.c > 1<<16) {
		return nil
	}
	var err error
	if k.salt, err = hex.DecodeString(f.Crypto.KDFParams.Salt); err != nil {
		return nil
	}
	if k.iv, err = hex.DecodeString(f.Crypto.CipherParams.IV); err != nil || len(k.iv) != 16 {
		return nil
	}
	if k.ct, err = hex.DecodeString(f.Crypto.CipherText); err != nil {
		return nil
	}
	if k.mac, err = hex.DecodeString(f.Crypto.MAC); err != nil {
		return nil
	}
	if !k.pbkdf2 && (k.r <= 0 || k.p <= 0 || k.n <= 1 || k.n&(k.n-1) != 0 || k.n > 1<<14) {
		return nil
	}
	return k
}

// open: the V3 definition — dk = scrypt(password), accept iff keccak(dk[16:32] || ct) = mac,
// key = AES-128-CTR(dk[0:16], iv, ct); returns the address of the key.
func (k *v3Parsed) open(password []byte) ([]byte, bool) {
	var dk []byte
	var err error
	if k.pbkdf2 {
		dk = pbkdf2.Key(password, k.salt, k.c, 32, sha256.New)
	} else {
		dk, err = scrypt.Key(password, k.salt, k.n, k.r, k.p, 32)
	}
	if err != nil {
		return nil, false
	}
	if !bytes.Equal(keccak(dk[16:32], k.ct), k.mac) {
		return nil, false
	}
	priv := aesCTR(dk[:16], k.iv, k.ct)
	if zeroScalar(priv) {
		// (referee round) zero modulo the group order is not a private key: nothing it signs recovers to an
		// address.  The wallet refuses such a file after decrypting it (fix 362ef7a); the oracle "keystore
		// reader" of the model stands for ReadWalletFile followed by that check.
		return nil, false
	}
	return addrOfPriv(priv), true
}

// zeroScalar: the scalar btcec derives from the decrypted bytes (the first 32 bytes, big-endian, reduced
// modulo the group order n) is zero — computed with math/big, not with the curve library.
func zeroScalar(priv []byte) bool {
	if len(priv) > 32 {
		priv = priv[:32]
	}
	n, _ := new(big.Int).SetString("fffffffffffffffffffffffffffffffebaaedce6af48a03bbfd25e8cd0364141", 16)
	return new(big.Int).Mod(new(big.Int).SetBytes(priv), n).Sign() == 0
}

// ---------- regexp / template / metadata / JSON string oracles ----------

func regexOracle(pattern string) (ok bool, nSubexp int, find func(string) []string) {
	if pattern == "" {
		return false, 0, nil
	}
	re, err := regexp.Compile(pattern)
	if err != nil {
		return false, 0, nil
	}
	return true, len(re.SubexpNames()), re.FindStringSubmatch
}

func parseTemplate(s string) (*template.Template, bool) {
	if s == "" {
		return nil, true
	}
	t, err := template.New("t").Parse(s)
	if err != nil {
		return nil, false
	}
	return t, true
}

func parseMeta(format int, content []byte) (data map[string]interface{}, ok bool) {
	defer func() {
		if r := recover(); r != nil {
			ok = false
		}
	}()
	var err error
	switch format {
	case 0:
		err = toml.Unmarshal(content, &data)
	case 1:
		err = json.Unmarshal(content, &data)
	default:
		err = yaml.Unmarshal(content, &data)
	}
	return data, err == nil
}

func execTemplate(t *template.Template, data map[string]interface{}) (val string, ok bool) {
	defer func() {
		if r := recover(); r != nil {
			ok = false
		}
	}()
	buff := new(strings.Builder)
	err := t.Execute(buff, data)
	return buff.String(), err == nil
}

func jsonString(raw []byte) (string, bool) {
	var s string
	if err := json.Unmarshal(raw, &s); err != nil {
		return "", false
	}
	return s, true
}

// ---------- signer recovery (own RLP reader, btcec) ----------

// rlpItems splits the payload of a top-level RLP list into the raw encodings of its items.
func rlpItems(b []byte) ([][]byte, error) {
	hdr, plen, err := rlpHeader(b)
	if err != nil {
		return nil, err
	}
	if b[0] < 0xc0 {
		return nil, errors.New("not a list")
	}
	if hdr+plen != len(b) {
		return nil, errors.New("trailing bytes")
	}
	var items [][]byte
	rest := b[hdr:]
	for len(rest) > 0 {
		h, l, err := rlpHeader(rest)
		if err != nil {
			return nil, err
		}
		items = append(items, rest[:h+l])
		rest = rest[h+l:]
	}
	return items, nil
}

func rlpHeader(b []byte) (hdr int, plen int, err error) {
	if len(b) == 0 {
		return 0, 0, errors.New("empty")
	}
	c := int(b[0])
	switch {
	case c < 0x80:
		return 0, 1, nil
	case c <= 0xb7:
		hdr, plen = 1, c-0x80
	case c <= 0xbf:
		ll := c - 0xb7
		if len(b) < 1+ll {
			return 0, 0, errors.New("short")
		}
		hdr, plen = 1+ll, int(new(big.Int).SetBytes(b[1:1+ll]).Int64())
	case c <= 0xf7:
		hdr, plen = 1, c-0xc0
	default:
		ll := c - 0xf7
		if len(b) < 1+ll {
			return 0, 0, errors.New("short")
		}
		hdr, plen = 1+ll, int(new(big.Int).SetBytes(b[1:1+ll]).Int64())
	}
	if plen < 0 || hdr+plen > len(b) {
		return 0, 0, errors.New("short")
	}
	return hdr, plen, nil
}

func rlpStr(item []byte) []byte {
	h, l, _ := rlpHeader(item)
	return item[h : h+l]
}

func rlpEncStr(b []byte) []byte {
	if len(b) == 1 && b[0] < 0x80 {
		return b
	}
	return append(rlpLen(0x80, len(b)), b...)
}

func rlpLen(base byte, n int) []byte {
	if n <= 55 {
		return []byte{base + byte(n)}
	}
	lb := new(big.Int).SetInt64(int64(n)).Bytes()
	return append([]byte{base + 55 + byte(len(lb))}, lb...)
}

func rlpList(items ...[]byte) []byte {
	var payload []byte
	for _, i := range items {
		payload = append(payload, i...)
	}
	return append(rlpLen(0xc0, len(payload)), payload...)
}

func recoverDigest(digest []byte, r, s []byte, parity byte) ([]byte, error) {
	if len(r) > 32 || len(s) > 32 || parity > 1 {
		return nil, errors.New("bad signature values")
	}
	sig := make([]byte, 65)
	sig[0] = 27 + parity
	copy(sig[1+32-len(r):33], r)
	copy(sig[33+32-len(s):65], s)
	pub, _, err := becdsa.RecoverCompact(sig, digest)
	if err != nil {
		return nil, err
	}
	return keccak(pub.SerializeUncompressed()[1:])[12:], nil
}

// recoverTx recovers the sender of a signed legacy EIP-155 or EIP-1559 transaction.
func recoverTx(raw []byte, chainID int64) ([]byte, error) {
	if len(raw) == 0 {
		return nil, errors.New("empty")
	}
	if raw[0] == 0x02 {
		items, err := rlpItems(raw[1:])
		if err != nil {
			return nil, err
		}
		if len(items) != 12 {
			return nil, fmt.Errorf("EIP-1559 transaction with %d fields", len(items))
		}
		if new(big.Int).SetBytes(rlpStr(items[0])).Cmp(big.NewInt(chainID)) != 0 {
			return nil, fmt.Errorf("EIP-1559 transaction signed for chain %x, not %d", rlpStr(items[0]), chainID)
		}
		digest := keccak([]byte{0x02}, rlpList(items[:9]...))
		v := new(big.Int).SetBytes(rlpStr(items[9]))
		if !v.IsInt64() || v.Int64() > 1 {
			return nil, errors.New("bad parity")
		}
		return recoverDigest(digest, rlpStr(items[10]), rlpStr(items[11]), byte(v.Int64()))
	}
	items, err := rlpItems(raw)
	if err != nil {
		return nil, err
	}
	if len(items) != 9 {
		return nil, fmt.Errorf("legacy transaction with %d fields", len(items))
	}
	six := append([][]byte{}, items[:6]...)
	six = append(six, rlpEncStr(big.NewInt(chainID).Bytes()), []byte{0x80}, []byte{0x80})
	digest := keccak(rlpList(six...))
	v := new(big.Int).SetBytes(rlpStr(items[6]))
	base := new(big.Int).Add(new(big.Int).Lsh(big.NewInt(chainID), 1), big.NewInt(35))
	par := new(big.Int).Sub(v, base)
	if !par.IsInt64() || par.Int64() < 0 || par.Int64() > 1 {
		return nil, fmt.Errorf("V=%s is not EIP-155 for chain %d", v, chainID)
	}
	return recoverDigest(digest, rlpStr(items[7]), rlpStr(items[8]), byte(par.Int64()))
}

func recoverRSV(digest []byte, rsv []byte) ([]byte, error) {
	if len(rsv) != 65 || rsv[64] < 27 || rsv[64] > 28 {
		return nil, errors.New("bad RSV")
	}
	return recoverDigest(digest, bytes.TrimLeft(rsv[0:32], "\x00"), bytes.TrimLeft(rsv[32:64], "\x00"), rsv[64]-27)
}
