package main

import (
	"testing"

	"verifharness/cv"
)

func TestV3(t *testing.T) {
	r := cv.NewRand(1)
	for i := 0; i < 200; i++ {
		k := newKey(r)
		pw := r.Bytes(r.Intn(20))
		f := v3Write(r, k.priv, pw, k.addr)
		p := v3Parse(f)
		if p == nil {
			t.Fatalf("parse %d %s", i, f)
		}
		a, ok := p.open(pw)
		if !ok || string(a) != string(k.addr) {
			t.Fatalf("open %d ok=%v %x %x priv=%x", i, ok, a, k.addr, k.priv)
		}
	}
}
